(* C06 proofs, part A.3: _moving as a whole — exits, per-sector characterisation, single sector, ranks *)
From Coq Require Import List ZArith QArith Bool Arith Lia Permutation Sorting.Sorted.
From Gst Require Import lib.QAux C06.Model C06.Spec C06.Proofs C06.Proofs_select.
Import ListNotations.

Definition all_alive (l : list cand) : st := map (fun c => (c, true)) l.

Lemma all_alive_cands l : cands_of (all_alive l) = l.
Proof. unfold cands_of, all_alive. rewrite map_map. cbn [fst]. apply map_id. Qed.
Lemma all_alive_sect s l : alive_sect s (all_alive l) = in_sect s l.
Proof.
  unfold alive_sect, all_alive, in_sect. induction l as [|c r IH]; [reflexivity|].
  cbn [map filter fst snd andb]. destruct (c_sect c =? s)%nat; cbn [map fst]; rewrite IH; reflexivity.
Qed.

Lemma sect_bounded_of_cands nsect l :
  (forall c, In c (cands_of l) -> (c_sect c < nsect)%nat) -> sect_bounded nsect l.
Proof. intros H c Hc. apply H. unfold cands_of. apply (in_map fst) in Hc. exact Hc. Qed.

Lemma sect_counts_as_lengths nsect l :
  sect_counts nsect l = map (fun s => length (alive_sect s l)) (seq 0 nsect).
Proof. unfold sect_counts. apply map_ext. intro s. apply count_sect_alive. Qed.

Lemma firstn_min_length {A} n (l : list A) : firstn (Nat.min n (length l)) l = firstn n l.
Proof.
  destruct (Nat.le_ge_cases n (length l)) as [H|H].
  - rewrite Nat.min_l by exact H. reflexivity.
  - rewrite Nat.min_r by exact H. rewrite firstn_all. symmetry. apply firstn_all2. exact H.
Qed.

Lemma alive_sect_out nsect l s :
  (forall c, In c (cands_of l) -> (c_sect c < nsect)%nat) -> (nsect <= s)%nat -> alive_sect s l = [].
Proof.
  intros H Hs. unfold alive_sect. induction l as [|[c a] r IH]; [reflexivity|].
  cbn [filter fst snd].
  assert (E : (c_sect c =? s)%nat = false).
  { apply Nat.eqb_neq. specialize (H c (or_introl eq_refl)). lia. }
  rewrite E, andb_false_r. apply IH. intros x Hx. apply H. right. exact Hx.
Qed.

(* ------------------------------------------------------------------ the body of _moving after the candidate loop *)
Section MovingFrom.
Variable p : params.
Variable nech : nat.
Variable cands : list cand.
Hypothesis Hnsect : (1 <= p_nsect p)%nat.
Hypothesis Hbound : forall c, In c cands -> (c_sect c < p_nsect p)%nat.

Let sorted := sort_cands cands.
Let counts := map (fun s => length (in_sect s sorted)) (seq 0 (p_nsect p)).

Lemma sorted_bound c : In c sorted -> (c_sect c < p_nsect p)%nat.
Proof. intro H. apply Hbound. apply (Permutation_in _ (sort_cands_perm cands)). exact H. Qed.

Definition after_nsmax : st :=
  if nsmax_active p then sector_nsmax (p_nsect p) (Z.to_nat (p_nsmax p)) (all_alive sorted) else all_alive sorted.

Lemma after_nsmax_cands : cands_of after_nsmax = sorted.
Proof. unfold after_nsmax. destruct (nsmax_active p); [rewrite sector_nsmax_cands|]; apply all_alive_cands. Qed.

Lemma after_nsmax_sect s : (s < p_nsect p)%nat ->
  alive_sect s after_nsmax =
  firstn (if nsmax_active p then Nat.min (Z.to_nat (p_nsmax p)) (length (in_sect s sorted)) else length (in_sect s sorted))
         (in_sect s sorted).
Proof.
  intro Hs. unfold after_nsmax. destruct (nsmax_active p).
  - rewrite sector_nsmax_spec, (proj2 (Nat.ltb_lt _ _) Hs), all_alive_sect. symmetry. apply firstn_min_length.
  - rewrite all_alive_sect, firstn_all. reflexivity.
Qed.

Lemma after_nsmax_counts :
  sect_counts (p_nsect p) after_nsmax =
  map (fun c => if nsmax_active p then Nat.min (Z.to_nat (p_nsmax p)) c else c) counts.
Proof.
  rewrite sect_counts_as_lengths. unfold counts. rewrite map_map. apply map_ext_in.
  intros s Hs. apply in_seq in Hs. rewrite after_nsmax_sect by lia.
  destruct (nsmax_active p).
  - rewrite firstn_length. lia.
  - rewrite firstn_all. reflexivity.
Qed.

Lemma after_nsmax_bounded : sect_bounded (p_nsect p) after_nsmax.
Proof. apply sect_bounded_of_cands. rewrite after_nsmax_cands. apply sorted_bound. Qed.

(* main characterisation: no early exit => per sector, the [quota] closest admissible samples *)
Lemma moving_from_spec :
  (p_nmini p <= Z.of_nat (length cands))%Z ->
  exists fin quota,
    moving_from p nech cands = {| r_code := 0; r_sorted := fin; r_ranks := compress nech (alive_idx fin) |} /\
    cands_of fin = sorted /\
    quota_ok p counts quota /\
    (forall s, (s < p_nsect p)%nat -> alive_sect s fin = firstn (nth s quota 0%nat) (in_sect s sorted)) /\
    (forall s, (p_nsect p <= s)%nat -> alive_sect s fin = []).
Proof.
  intro Hmini. unfold moving_from.
  rewrite (proj2 (Z.ltb_ge _ _) Hmini). rewrite andb_false_r.
  fold sorted. change (map (fun c => (c, true)) sorted) with (all_alive sorted).
  change (flag_sector p && (0 <? p_nsmax p)%Z) with (nsmax_active p). fold after_nsmax.
  set (c1 := map (fun c => if nsmax_active p then Nat.min (Z.to_nat (p_nsmax p)) c else c) counts).
  assert (Hc1 : sect_counts (p_nsect p) after_nsmax = c1) by apply after_nsmax_counts.
  assert (Hlen1 : length c1 = p_nsect p) by (unfold c1, counts; rewrite !map_length, seq_length; reflexivity).
  assert (Hcnt : count_alive after_nsmax = sumN c1).
  { rewrite <- Hc1. symmetry. apply sect_counts_sum. apply after_nsmax_bounded. }
  assert (Hc1nth : forall s, (s < p_nsect p)%nat ->
            alive_sect s after_nsmax = firstn (nth s c1 0%nat) (in_sect s sorted)).
  { intros s Hs. rewrite after_nsmax_sect by exact Hs. f_equal. unfold c1, counts.
    rewrite map_map.
    rewrite (nth_indep _ 0%nat ((fun s0 => if nsmax_active p then Nat.min (Z.to_nat (p_nsmax p)) (length (in_sect s0 sorted)) else length (in_sect s0 sorted)) 0%nat))
      by (rewrite map_length, seq_length; exact Hs).
    rewrite (map_nth (fun s0 => if nsmax_active p then Nat.min (Z.to_nat (p_nsmax p)) (length (in_sect s0 sorted)) else length (in_sect s0 sorted))).
    rewrite seq_nth by exact Hs. reflexivity. }
  destruct ((p_nmaxi p <=? 0)%Z || (sumN c1 <? Z.to_nat (p_nmaxi p))%nat) eqn:Esmall.
  - (* no reduction *)
    rewrite moving_select_small.
    2:{ apply orb_true_iff in Esmall. destruct Esmall as [E|E]; [left; apply Z.leb_le; exact E|right].
        rewrite Hcnt. apply Nat.ltb_lt. exact E. }
    exists after_nsmax, c1. split; [reflexivity|]. split; [apply after_nsmax_cands|].
    split; [unfold quota_ok; fold c1; rewrite Esmall; reflexivity|].
    split; [exact Hc1nth|].
    intros s Hs. apply (alive_sect_out (p_nsect p)); [rewrite after_nsmax_cands; apply sorted_bound|exact Hs].
  - apply orb_false_iff in Esmall. destruct Esmall as [E1 E2].
    apply Z.leb_gt in E1. apply Nat.ltb_ge in E2.
    destruct (moving_select_spec (p_nmaxi p) (p_nsect p) after_nsmax ltac:(lia) after_nsmax_bounded ltac:(lia))
      as [turn [j [Hj [Hsum [fin [Efin [Hcf Hsf]]]]]]].
    rewrite Hc1 in *. rewrite Efin.
    exists fin, (rr_shape c1 turn j). split; [reflexivity|].
    split; [rewrite Hcf; apply after_nsmax_cands|].
    split.
    { unfold quota_ok. fold c1.
      rewrite (proj2 (Z.leb_gt _ _) E1), (proj2 (Nat.ltb_ge _ _) E2). cbn [orb].
      exists turn, j. split; [unfold counts; rewrite map_length, seq_length; exact Hj|]. split; [reflexivity|exact Hsum]. }
    split.
    + intros s Hs. rewrite Hsf, (proj2 (Nat.ltb_lt _ _) Hs), Hc1nth by exact Hs.
      rewrite firstn_firstn. f_equal. apply Nat.min_l. apply rr_shape_le.
    + intros s Hs. rewrite Hsf, (proj2 (Nat.ltb_ge _ _) Hs).
      apply (alive_sect_out (p_nsect p)); [rewrite after_nsmax_cands; apply sorted_bound|exact Hs].
Qed.

Lemma moving_from_code :
  (r_code (moving_from p nech cands) = 0%Z <-> (p_nmini p <= Z.of_nat (length cands))%Z) /\
  (r_code (moving_from p nech cands) <> 0%Z -> r_code (moving_from p nech cands) = 2%Z /\ r_ranks (moving_from p nech cands) = []).
Proof.
  destruct (Z_lt_ge_dec (Z.of_nat (length cands)) (p_nmini p)) as [H|H].
  - unfold moving_from. rewrite (proj2 (Z.ltb_lt _ _) H). cbn. split; [split; [discriminate|lia]|]. intros _. split; reflexivity.
  - destruct (moving_from_spec ltac:(lia)) as [fin [quota [E _]]]. rewrite E. cbn [r_code].
    split; [split; [lia|reflexivity]|]. intro C. exfalso. apply C. reflexivity.
Qed.

End MovingFrom.

(* ------------------------------------------------------------------ single sector: the nmaxi closest *)
Lemma alive_all_sector0 l :
  (forall c, In c (cands_of l) -> c_sect c = 0%nat) -> map fst (filter (fun ca => snd ca) l) = alive_sect 0 l.
Proof.
  intro H. unfold alive_sect. f_equal. apply filter_ext_in. intros [c a] Hin. cbn [fst snd].
  assert (c_sect c = 0%nat) by (apply H; unfold cands_of; apply (in_map fst) in Hin; exact Hin).
  rewrite H0. cbn. rewrite andb_true_r. reflexivity.
Qed.
Lemma in_sect_all0 l : (forall c, In c l -> c_sect c = 0%nat) -> in_sect 0 l = l.
Proof.
  intro H. unfold in_sect. induction l as [|c r IH]; [reflexivity|]. cbn [filter].
  rewrite (H c (or_introl eq_refl)). cbn. f_equal. apply IH. intros x Hx. apply H. right. exact Hx.
Qed.

Lemma moving_single_sector p nech cands :
  p_nsect p = 1%nat -> (forall c, In c cands -> c_sect c = 0%nat) ->
  (p_nmini p <= Z.of_nat (length cands))%Z ->
  exists fin,
    moving_from p nech cands = {| r_code := 0; r_sorted := fin; r_ranks := compress nech (alive_idx fin) |} /\
    map fst (filter (fun ca => snd ca) fin) =
      if (p_nmaxi p <=? 0)%Z then sort_cands cands else firstn (Z.to_nat (p_nmaxi p)) (sort_cands cands).
Proof.
  intros Hns H0 Hmini.
  assert (Hb : forall c, In c cands -> (c_sect c < p_nsect p)%nat) by (intros c Hc; rewrite (H0 c Hc), Hns; lia).
  destruct (moving_from_spec p nech cands ltac:(lia) Hb Hmini) as [fin [quota [E [Hc [Hq [Hs _]]]]]].
  exists fin. split; [exact E|].
  assert (Hs0 : forall c, In c (sort_cands cands) -> c_sect c = 0%nat).
  { intros c Hc'. apply H0. apply (Permutation_in _ (sort_cands_perm cands)). exact Hc'. }
  rewrite alive_all_sector0 by (rewrite Hc; exact Hs0).
  rewrite Hs by (rewrite Hns; lia). rewrite in_sect_all0 by exact Hs0.
  unfold quota_ok in Hq. rewrite Hns in Hq. cbn [seq map] in Hq.
  assert (Hna : nsmax_active p = false).
  { unfold nsmax_active, flag_sector. rewrite Hns. replace (1 <? 1)%nat with false by reflexivity. rewrite andb_false_r. reflexivity. }
  rewrite Hna, in_sect_all0 in Hq by exact Hs0. cbn [sumN fold_right length] in Hq.
  rewrite Nat.add_0_r in Hq.
  destruct (p_nmaxi p <=? 0)%Z eqn:E1; cbn [orb] in Hq.
  - subst quota. cbn [nth]. apply firstn_all.
  - destruct (length (sort_cands cands) <? Z.to_nat (p_nmaxi p))%nat eqn:E2.
    + subst quota. cbn [nth]. rewrite firstn_all. symmetry. apply firstn_all2. apply Nat.ltb_lt in E2. lia.
    + destruct Hq as [turn [j [Hj [-> Hsum]]]]. destruct j; cbn [rr_shape nth sumN fold_right] in *; rewrite Nat.add_0_r in Hsum; rewrite Hsum; reflexivity.
Qed.

(* ------------------------------------------------------------------ _neighCompress *)
Lemma compress_In nech sel i : In i (compress nech sel) <-> (i < nech)%nat /\ In i sel.
Proof.
  unfold compress. rewrite filter_In, in_seq, existsb_exists. split.
  - intros [H [x [Hx E]]]. apply Nat.eqb_eq in E. subst x. split; [lia|exact Hx].
  - intros [H Hs]. split; [lia|]. exists i. split; [exact Hs|apply Nat.eqb_refl].
Qed.
Lemma compress_sorted nech sel : StronglySorted lt (compress nech sel).
Proof.
  unfold compress. generalize 0%nat as k. induction nech as [|n IH]; intro k; [constructor|].
  cbn [seq filter]. destruct (existsb (Nat.eqb k) sel).
  - constructor; [apply IH|]. rewrite Forall_forall. intros x Hx. apply filter_In in Hx. destruct Hx as [Hx _].
    apply in_seq in Hx. lia.
  - apply IH.
Qed.

Lemma filter_length_le' {A} (f : A -> bool) l : (length (filter f l) <= length l)%nat.
Proof. induction l as [|x r IH]; [cbn; lia|]. cbn [filter]. destruct (f x); cbn [length]; lia. Qed.

(* ------------------------------------------------------------------ _moving *)
Section Moving.
Variable oracle : Q -> Q -> nat.
Variable p : params.
Variable t : target.
Variable samples : list sample.
Hypothesis Hnsect : (1 <= p_nsect p)%nat.
Hypothesis Horacle : forall dx dy, (oracle dx dy < p_nsect p)%nat.

Lemma cand_loop_bounded c : In c (cand_loop oracle p t (enum samples)) -> (c_sect c < p_nsect p)%nat.
Proof.
  rewrite cand_loop_filter. intro H. apply in_map_iff in H. destruct H as [is [<- _]].
  unfold mk_cand. cbn [c_sect]. destruct (flag_sector p); [|lia].
  apply sector_define_lt; assumption.
Qed.

Lemma cand_loop_length_le : (length (cand_loop oracle p t (enum samples)) <= length samples)%nat.
Proof.
  rewrite cand_loop_filter, map_length.
  eapply Nat.le_trans; [apply filter_length_le'|]. unfold enum. rewrite combine_length, seq_length. lia.
Qed.

Definition n_admissible : nat := length (filter (fun is => admissible_b p t (snd is)) (enum samples)).

Lemma moving_code :
  (r_code (moving oracle p t samples) = 0%Z <-> (p_nmini p <= Z.of_nat n_admissible)%Z) /\
  (r_code (moving oracle p t samples) <> 0%Z -> r_ranks (moving oracle p t samples) = []) /\
  (r_code (moving oracle p t samples) = 0 \/ r_code (moving oracle p t samples) = 1 \/ r_code (moving oracle p t samples) = 2)%Z.
Proof.
  assert (Hn : n_admissible = length (cand_loop oracle p t (enum samples))).
  { unfold n_admissible. rewrite cand_loop_filter, map_length. reflexivity. }
  pose proof cand_loop_length_le as Hle.
  unfold moving. destruct (Z.of_nat (length samples) <? p_nmini p)%Z eqn:E.
  - apply Z.ltb_lt in E. cbn. split; [split; [discriminate|lia]|]. split; [reflexivity|]. right; left; reflexivity.
  - destruct (moving_from_code p (length samples) (cand_loop oracle p t (enum samples)) Hnsect cand_loop_bounded) as [H1 H2].
    rewrite Hn. split; [exact H1|]. split.
    + intro C. apply H2. exact C.
    + destruct (Z.eq_dec (r_code (moving_from p (length samples) (cand_loop oracle p t (enum samples)))) 0) as [C|C];
        [left; exact C|right; right; apply H2; exact C].
Qed.

End Moving.

(* ------------------------------------------------------------------ ball-tree path *)
Lemma enum_as_map {A} (l : list A) (d : A) : enum l = map (fun i => (i, nth i l d)) (seq 0 (length l)).
Proof.
  unfold enum.
  assert (G : forall k (l : list A) (pre : list A), combine (seq k (length l)) l = map (fun i => (i, nth (i - k) l d)) (seq k (length l))).
  { clear. intros k l _. revert k. induction l as [|x r IH]; intro k; [reflexivity|].
    cbn [length seq combine map]. rewrite Nat.sub_diag. cbn [nth]. f_equal.
    rewrite IH. apply map_ext_in. intros i Hi. apply in_seq in Hi.
    replace (i - k)%nat with (S (i - S k)) by lia. reflexivity. }
  rewrite (G 0%nat l []). apply map_ext. intro i. rewrite Nat.sub_0_r. reflexivity.
Qed.

Lemma cand_of_ball_active oracle p t is : s_active (snd is) = true -> cand_of_ball oracle p t is = cand_of oracle p t is.
Proof.
  intro H. unfold cand_of_ball. destruct is as [i s]. destruct s as [a c v k]. cbn [snd fst s_active] in *. rewrite H. reflexivity.
Qed.

(* when the eligible list is the whole data set in index order and nothing is masked, the ball-tree path
   is the standard path *)
Lemma moving_ball_all oracle p t samples :
  (forall s, In s samples -> s_active s = true) ->
  moving_ball oracle p t samples (seq 0 (length samples)) = moving oracle p t samples.
Proof.
  intro Hact. unfold moving_ball, moving. destruct (Z.of_nat (length samples) <? p_nmini p)%Z; [reflexivity|].
  f_equal. rewrite <- (enum_as_map samples dummy_sample).
  assert (G : forall l : list (nat * sample), (forall is, In is l -> s_active (snd is) = true) ->
             cand_loop_ball oracle p t l = cand_loop oracle p t l).
  { induction l as [|is r IH]; intro H; [reflexivity|]. cbn [cand_loop_ball cand_loop].
    rewrite cand_of_ball_active by (apply H; left; reflexivity).
    rewrite IH by (intros x Hx; apply H; right; exact Hx). reflexivity. }
  apply G. intros [i s] His. apply Hact. cbn. unfold enum in His. apply in_combine_r in His. exact His.
Qed.

(* ------------------------------------------------------------------ undefined coordinates / external drifts *)
Lemma forallb_is_def l : forallb is_def l = true <-> (forall o : option Q, In o l -> o <> None).
Proof.
  rewrite forallb_forall. split; intros H o Ho.
  - specialize (H o Ho). destruct o; [discriminate|discriminate H].
  - specialize (H o Ho). destruct o; [reflexivity|contradiction].
Qed.

Lemma admissible_x_b_spec p t x : admissible_x_b p t x = true <-> admissible_x p t x.
Proof.
  unfold admissible_x_b, admissible_x, coords_defined, fext_defined.
  rewrite !andb_true_iff, !forallb_is_def, admissible_b_spec. tauto.
Qed.

Lemma cand_of_x_spec oracle p t ix :
  cand_of_x oracle p t ix =
  if admissible_x_b p t (snd ix) then Some (mk_cand oracle p t (fst ix, x_total (snd ix))) else None.
Proof.
  unfold cand_of_x, admissible_x_b, discard_undefined_x. rewrite cand_of_spec. cbn [snd fst].
  unfold admissible_b. cbn [x_total s_active].
  destruct (x_active (snd ix)); cbn [negb andb]; [|repeat rewrite andb_false_r; destruct (forallb is_def (x_coords (snd ix)) && forallb is_def (x_fext (snd ix))); reflexivity].
  destruct (forallb is_def (x_coords (snd ix))); cbn [negb orb andb]; [|reflexivity].
  destruct (forallb is_def (x_fext (snd ix))); cbn [negb orb andb]; [|reflexivity].
  destruct (discard_undefined (x_total (snd ix))); cbn [negb andb]; reflexivity.
Qed.

Lemma cand_loop_x_filter oracle p t l :
  cand_loop_x oracle p t l =
  map (fun ix => mk_cand oracle p t (fst ix, x_total (snd ix))) (filter (fun ix => admissible_x_b p t (snd ix)) l).
Proof.
  induction l as [|ix r IH]; [reflexivity|].
  cbn [cand_loop_x filter]. rewrite cand_of_x_spec.
  destruct (admissible_x_b p t (snd ix)); cbn [map]; rewrite IH; reflexivity.
Qed.

(* a sample with an undefined coordinate or drift behaves exactly like a masked sample (standard path) *)
Lemma cand_of_x_embed oracle p t i x : cand_of_x oracle p t (i, x) = cand_of oracle p t (i, x_embed x).
Proof.
  rewrite cand_of_x_spec, cand_of_spec. cbn [snd fst]. unfold admissible_x_b, admissible_b, mk_cand.
  cbn [x_embed x_total s_active snd fst].
  change (discard_undefined (x_embed x)) with (discard_undefined (x_total x)).
  change (xvalid p t (x_embed x)) with (xvalid p t (x_total x)).
  change (checks_ok p t (x_embed x)) with (checks_ok p t (x_total x)).
  change (dist2 p t (x_embed x)) with (dist2 p t (x_total x)).
  change (tincr p t (x_embed x)) with (tincr p t (x_total x)).
  destruct (x_active x), (forallb is_def (x_coords x)), (forallb is_def (x_fext x)); cbn [andb]; reflexivity.
Qed.

Lemma enum_map {A B} (f : A -> B) (l : list A) : enum (map f l) = map (fun ix => (fst ix, f (snd ix))) (enum l).
Proof.
  unfold enum. rewrite map_length. generalize 0%nat as k. induction l as [|x r IH]; intro k; [reflexivity|].
  cbn [length seq combine map fst snd]. f_equal. apply IH.
Qed.

Lemma moving_x_embed oracle p t xs : moving_x oracle p t xs = moving oracle p t (map x_embed xs).
Proof.
  unfold moving_x, moving. rewrite map_length.
  destruct (Z.of_nat (length xs) <? p_nmini p)%Z; [reflexivity|]. f_equal.
  rewrite enum_map. induction (enum xs) as [|[i x] r IH]; [reflexivity|].
  cbn [cand_loop_x cand_loop map fst snd]. rewrite cand_of_x_embed, IH. reflexivity.
Qed.

Lemma n_admissible_x p t xs :
  n_admissible p t (map x_embed xs) = length (filter (fun ix => admissible_x_b p t (snd ix)) (enum xs)).
Proof.
  unfold n_admissible. rewrite enum_map.
  induction (enum xs) as [|[i x] r IH]; [reflexivity|]. cbn [map filter fst snd].
  assert (E : admissible_b p t (x_embed x) = admissible_x_b p t x).
  { unfold admissible_x_b, admissible_b. cbn [x_embed x_total s_active].
    change (discard_undefined (x_embed x)) with (discard_undefined (x_total x)).
    change (xvalid p t (x_embed x)) with (xvalid p t (x_total x)).
    change (checks_ok p t (x_embed x)) with (checks_ok p t (x_total x)).
    change (dist2 p t (x_embed x)) with (dist2 p t (x_total x)).
    destruct (x_active x), (forallb is_def (x_coords x)), (forallb is_def (x_fext x)); cbn [andb]; reflexivity. }
  rewrite E. destruct (admissible_x_b p t x); cbn [length]; rewrite IH; reflexivity.
Qed.

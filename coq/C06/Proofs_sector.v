(* C06 proofs: the exact sector rules for 4 and 8 sectors are the angular definition, stated without atan:
   sector s  <->  the increment lies in the cone swept counter-clockwise from direction 2 pi s / nsect
   (included) to direction 2 pi (s+1) / nsect (excluded), i.e. two linear forms have the right signs. *)
From Coq Require Import List ZArith QArith Qabs Bool Arith Lqa Lia.
From Gst Require Import lib.QAux C06.Model C06.Proofs.
Import ListNotations.
Local Open Scope Q_scope.

Definition cross (u v : Q * Q) : Q := fst u * snd v - snd u * fst v.
(* v is in the cone [u, u') (angle < pi): not clockwise of u, strictly clockwise of u' *)
Definition in_cone (u u' v : Q * Q) : Prop := 0 <= cross u v /\ 0 < cross v u'.

(* direction of angle k * pi/4 (up to a positive factor, which does not change the signs) *)
Definition dir8 (k : nat) : Q * Q :=
  match k with
  | 0%nat | 8%nat => (1, 0) | 1%nat => (1, 1) | 2%nat => (0, 1) | 3%nat => (-1, 1)
  | 4%nat => (-1, 0) | 5%nat => (-1, -1) | 6%nat => (0, -1) | _ => (1, -1)
  end.
Definition dir4 (k : nat) : Q * Q := dir8 (2 * k).

Lemma nonzero_cases dx dy : ~ (dx == 0 /\ dy == 0) ->
  dx < 0 \/ 0 < dx \/ (dx == 0 /\ (dy < 0 \/ 0 < dy)).
Proof.
  intro H. destruct (Q_dec dx 0) as [[X|X]|X]; [left; exact X|right; left; exact X|].
  right; right. split; [exact X|]. destruct (Q_dec dy 0) as [[Y|Y]|Y]; [left; exact Y|right; exact Y|].
  exfalso. apply H. split; assumption.
Qed.

Ltac b2q :=
  repeat match goal with
         | H : qltb _ _ = true |- _ => apply qltb_true in H
         | H : qltb _ _ = false |- _ => apply qltb_false in H
         | H : qleb _ _ = true |- _ => apply qleb_true in H
         | H : qleb _ _ = false |- _ => apply qleb_false in H
         | H : qeqb _ _ = true |- _ => apply qeqb_true in H
         | H : qeqb _ _ = false |- _ => apply qeqb_false in H
         end.
Ltac cone_leaf :=
  unfold in_cone, cross; cbn [dir8 dir4 fst snd Nat.mul Nat.add];
  let HH := fresh "HH" in
  split; intro HH;
  [ first [ discriminate HH | split; lra | exfalso; lra ]
  | first [ reflexivity | exfalso; destruct HH; lra ] ].

Lemma sector8_cone dx dy s : ~ (dx == 0 /\ dy == 0) -> (s < 8)%nat ->
  (sector8 dx dy = s <-> in_cone (dir8 s) (dir8 (S s)) (dx, dy)).
Proof.
  intros Hnz Hs. pose proof (nonzero_cases dx dy Hnz) as Hc. unfold sector8.
  destruct (qltb 0 dx) eqn:A;
    [destruct (qleb 0 dy) eqn:B; [destruct (qltb dy dx) eqn:C|destruct (qltb dx (- dy)) eqn:C]
    |destruct (qeqb dx 0) eqn:B;
       [destruct (qleb 0 dy) eqn:C
       |destruct (qltb 0 dy) eqn:C; [destruct (qltb (- dx) dy) eqn:D|destruct (qltb (- dy) (- dx)) eqn:D]]];
    b2q;
    do 8 (destruct s as [|s]; [destruct Hc as [X|[X|[X [Y|Y]]]]; cone_leaf|]); lia.
Qed.

Lemma sector4_cone dx dy s : ~ (dx == 0 /\ dy == 0) -> (s < 4)%nat ->
  (sector4 dx dy = s <-> in_cone (dir4 s) (dir4 (S s)) (dx, dy)).
Proof.
  intros Hnz Hs. pose proof (nonzero_cases dx dy Hnz) as Hc. unfold sector4.
  destruct (qltb 0 dx) eqn:A;
    [destruct (qleb 0 dy) eqn:B
    |destruct (qeqb dx 0) eqn:B; [destruct (qleb 0 dy) eqn:C|destruct (qltb 0 dy) eqn:C]];
    b2q;
    do 4 (destruct s as [|s]; [destruct Hc as [X|[X|[X [Y|Y]]]]; cone_leaf|]); lia.
Qed.

(* the target itself (null increment) is given the angle pi/2 by the code *)
Lemma sector_origin : sector8 0 0 = 2%nat /\ sector4 0 0 = 1%nat /\ sector2 0 0 = 0%nat.
Proof. vm_compute. repeat split; reflexivity. Qed.

(* C06 proofs, part A.2: sector quota, round-robin allocation (termination + shape), final selection *)
From Coq Require Import List ZArith QArith Bool Arith Lia Permutation.
From Gst Require Import lib.QAux C06.Model C06.Spec C06.Proofs.
Import ListNotations.

(* ------------------------------------------------------------------ generic pass lemmas *)
Lemma firstn_all2 {A} (l : list A) n : (length l <= n)%nat -> firstn n l = l.
Proof. apply firstn_all2. Qed.

Lemma alive_sect_cons s c a r :
  alive_sect s ((c, a) :: r) = if a && (c_sect c =? s)%nat then c :: alive_sect s r else alive_sect s r.
Proof. unfold alive_sect. cbn [filter fst snd]. destruct (a && (c_sect c =? s)%nat); reflexivity. Qed.

Lemma count_sect_alive s l : count_sect s l = length (alive_sect s l).
Proof. unfold count_sect, alive_sect. rewrite map_length. reflexivity. Qed.

(* ------------------------------------------------------------------ _movingSectorNsmax *)
Lemma nsmax_pass_cands isect nsmax n l : cands_of (nsmax_pass isect nsmax n l) = cands_of l.
Proof.
  revert n. induction l as [|[c a] r IH]; intro n; [reflexivity|]. cbn [nsmax_pass].
  destruct (a && (c_sect c =? isect)%nat); [destruct (n <? nsmax)%nat|];
    unfold cands_of in *; cbn [map fst]; rewrite IH; reflexivity.
Qed.
Lemma nsmax_pass_other isect nsmax n l s : s <> isect ->
  alive_sect s (nsmax_pass isect nsmax n l) = alive_sect s l.
Proof.
  intro Hs. revert n. induction l as [|[c a] r IH]; intro n; [reflexivity|]. cbn [nsmax_pass].
  destruct a; cbn [andb].
  - destruct (c_sect c =? isect)%nat eqn:E.
    + apply Nat.eqb_eq in E.
      assert (E2 : (c_sect c =? s)%nat = false) by (apply Nat.eqb_neq; lia).
      destruct (n <? nsmax)%nat; rewrite !alive_sect_cons, E2, ?andb_false_r; cbn [andb]; apply IH.
    + rewrite !alive_sect_cons. rewrite IH. reflexivity.
  - rewrite !alive_sect_cons. cbn [andb]. apply IH.
Qed.
Lemma nsmax_pass_same isect nsmax n l :
  alive_sect isect (nsmax_pass isect nsmax n l) = firstn (nsmax - n) (alive_sect isect l).
Proof.
  revert n. induction l as [|[c a] r IH]; intro n; [cbn; rewrite firstn_nil; reflexivity|].
  cbn [nsmax_pass]. destruct a; cbn [andb].
  - destruct (c_sect c =? isect)%nat eqn:E.
    + destruct (n <? nsmax)%nat eqn:L.
      * apply Nat.ltb_lt in L. rewrite !alive_sect_cons, E. cbn [andb]. rewrite IH.
        replace (nsmax - n)%nat with (S (nsmax - S n)) by lia. reflexivity.
      * apply Nat.ltb_ge in L. rewrite !alive_sect_cons, E. cbn [andb]. rewrite IH.
        replace (nsmax - n)%nat with 0%nat by lia. reflexivity.
    + rewrite !alive_sect_cons, E. cbn [andb]. apply IH.
  - rewrite !alive_sect_cons. cbn [andb]. apply IH.
Qed.

Lemma sector_nsmax_gen nsmax k n l s :
  alive_sect s (fold_left (fun acc isect => nsmax_pass isect nsmax 0 acc) (seq k n) l) =
  if (k <=? s)%nat && (s <? k + n)%nat then firstn nsmax (alive_sect s l) else alive_sect s l.
Proof.
  revert k l. induction n as [|n IH]; intros k l.
  - cbn [seq fold_left]. replace (k + 0)%nat with k by lia.
    destruct (k <=? s)%nat eqn:A; destruct (s <? k)%nat eqn:B; cbn [andb]; try reflexivity.
    apply Nat.leb_le in A. apply Nat.ltb_lt in B. lia.
  - cbn [seq fold_left]. rewrite IH.
    destruct (Nat.eq_dec s k) as [->|Hne].
    + assert (E1 : (S k <=? k)%nat = false) by (apply Nat.leb_gt; lia).
      assert (E2 : (k <=? k)%nat = true) by (apply Nat.leb_le; lia).
      assert (E3 : (k <? k + S n)%nat = true) by (apply Nat.ltb_lt; lia).
      rewrite E1, E2, E3. cbn [andb]. rewrite nsmax_pass_same. rewrite Nat.sub_0_r. reflexivity.
    + rewrite nsmax_pass_other by exact Hne.
      destruct (S k <=? s)%nat eqn:A; destruct (s <? S k + n)%nat eqn:B;
        destruct (k <=? s)%nat eqn:C; destruct (s <? k + S n)%nat eqn:D; cbn [andb]; try reflexivity; exfalso;
        repeat match goal with
               | H : (_ <=? _)%nat = true |- _ => apply Nat.leb_le in H
               | H : (_ <=? _)%nat = false |- _ => apply Nat.leb_gt in H
               | H : (_ <? _)%nat = true |- _ => apply Nat.ltb_lt in H
               | H : (_ <? _)%nat = false |- _ => apply Nat.ltb_ge in H
               end; lia.
Qed.

Lemma sector_nsmax_cands_gen nsmax k n l :
  cands_of (fold_left (fun acc isect => nsmax_pass isect nsmax 0 acc) (seq k n) l) = cands_of l.
Proof.
  revert k l. induction n as [|n IH]; intros k l; [reflexivity|].
  cbn [seq fold_left]. rewrite IH. apply nsmax_pass_cands.
Qed.
Lemma sector_nsmax_cands nsect nsmax l : cands_of (sector_nsmax nsect nsmax l) = cands_of l.
Proof. apply sector_nsmax_cands_gen. Qed.

Lemma sector_nsmax_spec nsect nsmax l s :
  alive_sect s (sector_nsmax nsect nsmax l) =
  if (s <? nsect)%nat then firstn nsmax (alive_sect s l) else alive_sect s l.
Proof. unfold sector_nsmax. rewrite sector_nsmax_gen. cbn [Nat.leb andb Nat.add]. reflexivity. Qed.

(* ------------------------------------------------------------------ round robin *)
Lemma rr_shape_length cs p j : length (rr_shape cs p j) = length cs.
Proof. revert j. induction cs as [|c r IH]; intro j; [reflexivity|]. destruct j; cbn; rewrite IH; reflexivity. Qed.

Lemma rr_shape_full cs p : rr_shape cs p (length cs) = rr_shape cs (S p) 0.
Proof. induction cs as [|c r IH]; [reflexivity|]. cbn. rewrite IH. reflexivity. Qed.

Lemma rr_shape_zero cs : rr_shape cs 0 0 = map (fun _ => 0%nat) cs.
Proof. induction cs as [|c r IH]; [reflexivity|]. cbn. rewrite IH, Nat.min_0_r. reflexivity. Qed.

Lemma rr_shape_nth cs p j k : (k < length cs)%nat ->
  nth k (rr_shape cs p j) 0%nat = if (k <? j)%nat then Nat.min (nth k cs 0%nat) (S p) else Nat.min (nth k cs 0%nat) p.
Proof.
  revert j k. induction cs as [|c r IH]; intros j k Hk; [cbn in Hk; lia|].
  destruct j, k; cbn [rr_shape nth]; try reflexivity.
  - rewrite IH by (cbn in Hk; lia). reflexivity.
  - rewrite IH by (cbn in Hk; lia).
    replace (S k <? S j)%nat with (k <? j)%nat by reflexivity. reflexivity.
Qed.

Lemma sumN_cons x l : sumN (x :: l) = (x + sumN l)%nat.
Proof. reflexivity. Qed.
Lemma sumN_all_le cs p : (forall c, In c cs -> c <= p)%nat -> sumN (rr_shape cs p 0) = sumN cs.
Proof.
  induction cs as [|c r IH]; intro H; [reflexivity|]. cbn [rr_shape]. rewrite !sumN_cons.
  rewrite IH by (intros; apply H; right; assumption).
  rewrite Nat.min_l by (apply H; left; reflexivity). reflexivity.
Qed.

Lemma sumN_all_le_any cs p j : (forall c, In c cs -> c <= p)%nat -> sumN cs = sumN (rr_shape cs p j).
Proof.
  revert j. induction cs as [|c r IH]; intros j H; [reflexivity|].
  assert (Hc : (c <= p)%nat) by (apply H; left; reflexivity).
  assert (Hr : (forall x, In x r -> x <= p)%nat) by (intros; apply H; right; assumption).
  destruct j; cbn [rr_shape]; rewrite !sumN_cons, <- IH by exact Hr; lia.
Qed.

(* one "for" pass started at the beginning of a turn *)
Lemma rr_pass_spec nmaxi cs p number : (number < nmaxi)%nat ->
  exists j, (j <= length cs)%nat /\
    fst (rr_pass nmaxi cs (rr_shape cs p 0) number) = rr_shape cs p j /\
    (snd (rr_pass nmaxi cs (rr_shape cs p 0) number) + sumN (rr_shape cs p 0) =
       number + sumN (rr_shape cs p j))%nat /\
    (snd (rr_pass nmaxi cs (rr_shape cs p 0) number) <= nmaxi)%nat /\
    ((snd (rr_pass nmaxi cs (rr_shape cs p 0) number) < nmaxi)%nat -> j = length cs) /\
    ((number < snd (rr_pass nmaxi cs (rr_shape cs p 0) number))%nat \/ (forall c, In c cs -> c <= p)%nat).
Proof.
  revert number. induction cs as [|c r IH]; intros number Hn.
  - exists 0%nat. cbn. split; [lia|]. split; [reflexivity|]. split; [lia|]. split; [lia|].
    split; [reflexivity|]. right. intros c [].
  - cbn [rr_shape rr_pass].
    destruct (c <=? Nat.min c p)%nat eqn:E.
    + apply Nat.leb_le in E. assert (Hcp : (c <= p)%nat) by lia.
      destruct (IH number Hn) as [j [Hj [H1 [H2 [H3 [H4 H5]]]]]].
      destruct (rr_pass nmaxi r (rr_shape r p 0) number) as [res n'] eqn:ER. cbn [fst snd] in *.
      exists (S j). cbn [length rr_shape]. rewrite !sumN_cons. subst res.
      replace (Nat.min c (S p)) with (Nat.min c p) by lia.
      split; [lia|]. split; [reflexivity|]. split; [lia|]. split; [exact H3|]. split.
      * intro L. rewrite (H4 L). reflexivity.
      * destruct H5 as [H5|H5]; [left; exact H5|right]. intros x [<-|Hx]; [exact Hcp|apply H5; exact Hx].
    + apply Nat.leb_gt in E. assert (Hcp : (p < c)%nat) by lia.
      replace (Nat.min c p) with p by lia.
      destruct (nmaxi <=? S number)%nat eqn:B.
      * apply Nat.leb_le in B. exists 1%nat. cbn [fst snd length rr_shape]. rewrite !sumN_cons.
        replace (Nat.min c (S p)) with (S p) by lia. replace (Nat.min c p) with p by lia.
        split; [lia|]. split; [reflexivity|]. split; [lia|]. split; [lia|]. split; [lia|]. left; lia.
      * apply Nat.leb_gt in B.
        destruct (IH (S number) B) as [j [Hj [H1 [H2 [H3 [H4 H5]]]]]].
        destruct (rr_pass nmaxi r (rr_shape r p 0) (S number)) as [res n'] eqn:ER. cbn [fst snd] in *.
        exists (S j). cbn [length rr_shape]. rewrite !sumN_cons. subst res.
        replace (Nat.min c (S p)) with (S p) by lia. replace (Nat.min c p) with p by lia.
        split; [lia|]. split; [reflexivity|]. split; [lia|]. split; [exact H3|]. split.
        -- intro L. rewrite (H4 L). reflexivity.
        -- left. destruct H5 as [H5|H5]; [lia|].
           assert (Hsame : sumN (rr_shape r p 0) = sumN (rr_shape r p j)).
           { rewrite (sumN_all_le r p H5). apply sumN_all_le_any. exact H5. }
           lia.
Qed.

Lemma rr_loop_spec nmaxi cs : (nmaxi <= sumN cs)%nat ->
  forall fuel p number,
    number = sumN (rr_shape cs p 0) -> (number <= nmaxi)%nat -> (nmaxi - number <= fuel)%nat ->
    exists p' j, (j <= length cs)%nat /\
      rr_loop fuel nmaxi cs (rr_shape cs p 0) number = Some (rr_shape cs p' j) /\
      sumN (rr_shape cs p' j) = nmaxi.
Proof.
  intro Hsum. induction fuel as [|f IH]; intros p number Hnum Hle Hfuel.
  - assert (number = nmaxi) by lia. subst nmaxi. exists p, 0%nat. cbn [rr_loop].
    rewrite (proj2 (Nat.leb_le number number)) by lia. repeat split; [lia|]. symmetry; exact Hnum.
  - cbn [rr_loop]. destruct (nmaxi <=? number)%nat eqn:E.
    + apply Nat.leb_le in E. assert (number = nmaxi) by lia. exists p, 0%nat. repeat split; [lia|]. congruence.
    + apply Nat.leb_gt in E.
      destruct (rr_pass_spec nmaxi cs p number E) as [j [Hj [H1 [H2 [H3 [H4 H5]]]]]].
      destruct (rr_pass nmaxi cs (rr_shape cs p 0) number) as [res n'] eqn:ER. cbn [fst snd] in *.
      assert (Hprog : (number < n')%nat).
      { destruct H5 as [H5|H5]; [exact H5|]. rewrite (sumN_all_le cs p H5) in Hnum. lia. }
      subst res.
      destruct (Nat.eq_dec n' nmaxi) as [->|Hne].
      * exists p, j. split; [exact Hj|]. split; [|lia].
        destruct f; cbn [rr_loop]; rewrite (proj2 (Nat.leb_le nmaxi nmaxi)) by lia; reflexivity.
      * assert (L : (n' < nmaxi)%nat) by lia. rewrite (H4 L), rr_shape_full in *.
        apply IH; lia.
Qed.

Lemma alloc_spec nm cs : (nm <= sumN cs)%nat ->
  exists p j, (j <= length cs)%nat /\ alloc nm cs = Some (rr_shape cs p j) /\ sumN (rr_shape cs p j) = nm.
Proof.
  intro H. unfold alloc. rewrite <- rr_shape_zero.
  apply rr_loop_spec; [exact H| | |]; try lia.
  rewrite rr_shape_zero. clear H. induction cs as [|c r IH]; [reflexivity|]. cbn [map]. rewrite sumN_cons, <- IH. reflexivity.
Qed.

(* properties of a round-robin shape *)
Lemma rr_shape_le cs p j k : (nth k (rr_shape cs p j) 0 <= nth k cs 0)%nat.
Proof.
  destruct (Nat.lt_ge_cases k (length cs)) as [H|H].
  - rewrite rr_shape_nth by exact H. destruct (k <? j)%nat; lia.
  - rewrite !nth_overflow; try lia. rewrite rr_shape_length. exact H.
Qed.
(* two sectors differ by at most one unless the smaller one is exhausted; earlier sectors are served first *)
Lemma rr_shape_balanced cs p j a b : (a < length cs)%nat -> (b < length cs)%nat ->
  (nth a (rr_shape cs p j) 0 < nth b (rr_shape cs p j) 0)%nat ->
  nth a (rr_shape cs p j) 0%nat = nth a cs 0%nat \/
  (nth b (rr_shape cs p j) 0 = S (nth a (rr_shape cs p j) 0) /\ b < a)%nat.
Proof.
  intros Ha Hb. rewrite !rr_shape_nth by assumption.
  destruct (a <? j)%nat eqn:A; destruct (b <? j)%nat eqn:B; intro L;
    repeat match goal with
           | H : (_ <? _)%nat = true |- _ => apply Nat.ltb_lt in H
           | H : (_ <? _)%nat = false |- _ => apply Nat.ltb_ge in H
           end; lia.
Qed.

(* ------------------------------------------------------------------ discard beyond the allocated rank *)
Lemma discard_pass_cands isect q n l : cands_of (discard_pass isect q n l) = cands_of l.
Proof.
  revert n. induction l as [|[c a] r IH]; intro n; [reflexivity|]. cbn [discard_pass].
  destruct (a && (c_sect c =? isect)%nat); [destruct (q <? S n)%nat|];
    unfold cands_of in *; cbn [map fst]; rewrite IH; reflexivity.
Qed.
Lemma discard_pass_other isect q n l s : s <> isect ->
  alive_sect s (discard_pass isect q n l) = alive_sect s l.
Proof.
  intro Hs. revert n. induction l as [|[c a] r IH]; intro n; [reflexivity|]. cbn [discard_pass].
  destruct a; cbn [andb].
  - destruct (c_sect c =? isect)%nat eqn:E.
    + apply Nat.eqb_eq in E.
      assert (E2 : (c_sect c =? s)%nat = false) by (apply Nat.eqb_neq; lia).
      destruct (q <? S n)%nat; rewrite !alive_sect_cons, E2, ?andb_false_r; cbn [andb]; apply IH.
    + rewrite !alive_sect_cons. rewrite IH. reflexivity.
  - rewrite !alive_sect_cons. cbn [andb]. apply IH.
Qed.
Lemma discard_pass_same isect q n l :
  alive_sect isect (discard_pass isect q n l) = firstn (q - n) (alive_sect isect l).
Proof.
  revert n. induction l as [|[c a] r IH]; intro n; [cbn; rewrite firstn_nil; reflexivity|].
  cbn [discard_pass]. destruct a; cbn [andb].
  - destruct (c_sect c =? isect)%nat eqn:E.
    + destruct (q <? S n)%nat eqn:L.
      * apply Nat.ltb_lt in L. rewrite !alive_sect_cons, E. cbn [andb]. rewrite IH.
        replace (q - n)%nat with 0%nat by lia. replace (q - S n)%nat with 0%nat by lia. reflexivity.
      * apply Nat.ltb_ge in L. rewrite !alive_sect_cons, E. cbn [andb]. rewrite IH.
        replace (q - n)%nat with (S (q - S n)) by lia. reflexivity.
    + rewrite !alive_sect_cons, E. cbn [andb]. apply IH.
  - rewrite !alive_sect_cons. cbn [andb]. apply IH.
Qed.

Lemma discard_all_cands k cs isv l : cands_of (discard_all k cs isv l) = cands_of l.
Proof.
  revert k isv l. induction cs as [|c r IH]; intros k isv l; [reflexivity|].
  destruct isv as [|i isv']; [reflexivity|]. cbn [discard_all]. rewrite IH.
  destruct (c <=? i)%nat; [reflexivity|apply discard_pass_cands].
Qed.

Lemma discard_all_spec cs : forall k isv l s,
  length isv = length cs ->
  (forall m, (m < length cs)%nat -> nth m cs 0%nat = length (alive_sect (k + m) l)) ->
  alive_sect s (discard_all k cs isv l) =
  if (k <=? s)%nat && (s <? k + length cs)%nat then firstn (nth (s - k) isv 0%nat) (alive_sect s l)
  else alive_sect s l.
Proof.
  induction cs as [|c r IH]; intros k isv l s Hlen Hcs.
  - cbn [discard_all length]. replace (k + 0)%nat with k by lia.
    destruct (k <=? s)%nat eqn:A; destruct (s <? k)%nat eqn:B; cbn [andb]; try reflexivity.
    apply Nat.leb_le in A. apply Nat.ltb_lt in B. lia.
  - destruct isv as [|i isv']; [discriminate|]. cbn [discard_all].
    set (l' := if (c <=? i)%nat then l else discard_pass k i 0 l).
    assert (Hother : forall s', s' <> k -> alive_sect s' l' = alive_sect s' l).
    { intros s' Hs'. unfold l'. destruct (c <=? i)%nat; [reflexivity|apply discard_pass_other; exact Hs']. }
    assert (Hc : c = length (alive_sect k l)).
    { specialize (Hcs 0%nat ltac:(cbn; lia)). cbn in Hcs. replace (k + 0)%nat with k in Hcs by lia. exact Hcs. }
    assert (Hsame : alive_sect k l' = firstn i (alive_sect k l)).
    { unfold l'. destruct (c <=? i)%nat eqn:E.
      - apply Nat.leb_le in E. symmetry. apply firstn_all2. lia.
      - rewrite discard_pass_same, Nat.sub_0_r. reflexivity. }
    rewrite IH.
    + cbn [length].
      destruct (Nat.eq_dec s k) as [->|Hne].
      * assert (E1 : (S k <=? k)%nat = false) by (apply Nat.leb_gt; lia).
        assert (E2 : (k <=? k)%nat = true) by (apply Nat.leb_le; lia).
        assert (E3 : (k <? k + S (length r))%nat = true) by (apply Nat.ltb_lt; lia).
        rewrite E1, E2, E3. cbn [andb]. rewrite Nat.sub_diag. cbn [nth]. exact Hsame.
      * rewrite (Hother s Hne).
        destruct (S k <=? s)%nat eqn:A; destruct (s <? S k + length r)%nat eqn:B;
          destruct (k <=? s)%nat eqn:C; destruct (s <? k + S (length r))%nat eqn:D; cbn [andb]; try reflexivity;
          repeat match goal with
                 | H : (_ <=? _)%nat = true |- _ => apply Nat.leb_le in H
                 | H : (_ <=? _)%nat = false |- _ => apply Nat.leb_gt in H
                 | H : (_ <? _)%nat = true |- _ => apply Nat.ltb_lt in H
                 | H : (_ <? _)%nat = false |- _ => apply Nat.ltb_ge in H
                 end; try (exfalso; lia).
        replace (s - k)%nat with (S (s - S k)) by lia. reflexivity.
    + cbn in Hlen. lia.
    + intros m Hm. specialize (Hcs (S m) ltac:(cbn; lia)). cbn [nth] in Hcs.
      rewrite Hother by lia. replace (S k + m)%nat with (k + S m)%nat by lia. exact Hcs.
Qed.

(* ------------------------------------------------------------------ counting *)
Lemma sumN_indicator k a n :
  sumN (map (fun s => if (k =? s)%nat then 1%nat else 0%nat) (seq a n)) =
  if (a <=? k)%nat && (k <? a + n)%nat then 1%nat else 0%nat.
Proof.
  revert a. induction n as [|n IH]; intro a.
  - cbn [seq map sumN fold_right]. destruct (a <=? k)%nat eqn:A; destruct (k <? a + 0)%nat eqn:B; cbn [andb]; try reflexivity.
    apply Nat.leb_le in A. apply Nat.ltb_lt in B. lia.
  - cbn [seq map sumN fold_right]. fold (sumN (map (fun s => if (k =? s)%nat then 1%nat else 0%nat) (seq (S a) n))).
    rewrite IH.
    destruct (k =? a)%nat eqn:E; destruct (S a <=? k)%nat eqn:A; destruct (k <? S a + n)%nat eqn:B;
      destruct (a <=? k)%nat eqn:C; destruct (k <? a + S n)%nat eqn:D; cbn [andb]; try reflexivity; exfalso;
      repeat match goal with
             | H : (_ =? _)%nat = true |- _ => apply Nat.eqb_eq in H
             | H : (_ =? _)%nat = false |- _ => apply Nat.eqb_neq in H
             | H : (_ <=? _)%nat = true |- _ => apply Nat.leb_le in H
             | H : (_ <=? _)%nat = false |- _ => apply Nat.leb_gt in H
             | H : (_ <? _)%nat = true |- _ => apply Nat.ltb_lt in H
             | H : (_ <? _)%nat = false |- _ => apply Nat.ltb_ge in H
             end; lia.
Qed.
Lemma sumN_map_add {A} (f g : A -> nat) l :
  sumN (map (fun x => f x + g x)%nat l) = (sumN (map f l) + sumN (map g l))%nat.
Proof. induction l as [|x r IH]; [reflexivity|]. cbn [map]. rewrite !sumN_cons, IH. lia. Qed.

Lemma sumN_zero_if (b : nat -> bool) l : sumN (map (fun s => if b s then 0%nat else 0%nat) l) = 0%nat.
Proof. induction l as [|x xs IH]; [reflexivity|]. cbn [map]. rewrite sumN_cons, IH. destruct (b x); reflexivity. Qed.

Definition sect_bounded (nsect : nat) (l : st) : Prop :=
  forall c, In (c, true) l -> (c_sect c < nsect)%nat.

Lemma sect_counts_sum nsect l : sect_bounded nsect l -> sumN (sect_counts nsect l) = count_alive l.
Proof.
  unfold sect_counts. induction l as [|[c a] r IH]; intro Hb.
  - unfold count_sect, count_alive. cbn. induction (seq 0 nsect); cbn; [reflexivity|assumption].
  - assert (Hr : sect_bounded nsect r) by (intros x Hx; apply Hb; right; exact Hx).
    specialize (IH Hr).
    assert (E : forall s, count_sect s ((c, a) :: r) =
                     ((if (c_sect c =? s)%nat then (if a then 1 else 0) else 0) + count_sect s r)%nat).
    { intro s. unfold count_sect. cbn [filter fst snd]. destruct a; cbn [andb]; [|destruct (c_sect c =? s)%nat; reflexivity].
      destruct (c_sect c =? s)%nat; reflexivity. }
    rewrite (map_ext _ _ E), sumN_map_add, IH.
    unfold count_alive. cbn [filter snd]. destruct a.
    + rewrite sumN_indicator. cbn [Nat.leb andb Nat.add].
      rewrite (proj2 (Nat.ltb_lt _ _) (Hb c (or_introl eq_refl))). cbn [length]. reflexivity.
    + cbn [length]. replace (sumN (map (fun s => if (c_sect c =? s)%nat then 0%nat else 0%nat) (seq 0 nsect))) with 0%nat; [reflexivity|].
      symmetry. apply sumN_zero_if.
Qed.

Lemma sect_counts_nth nsect l m : (m < nsect)%nat -> nth m (sect_counts nsect l) 0%nat = length (alive_sect m l).
Proof.
  intro H. unfold sect_counts.
  rewrite (nth_indep _ 0%nat (count_sect 0 l)) by (rewrite map_length, seq_length; exact H).
  rewrite (map_nth (fun s => count_sect s l)), seq_nth by exact H. cbn. apply count_sect_alive.
Qed.
Lemma sect_counts_length nsect l : length (sect_counts nsect l) = nsect.
Proof. unfold sect_counts. rewrite map_length, seq_length. reflexivity. Qed.

(* ------------------------------------------------------------------ _movingSelect *)
Lemma moving_select_spec nmaxi nsect l :
  (0 < nmaxi)%Z -> sect_bounded nsect l -> (Z.to_nat nmaxi <= count_alive l)%nat ->
  exists p j, (j <= nsect)%nat /\
    let isv := rr_shape (sect_counts nsect l) p j in
    sumN isv = Z.to_nat nmaxi /\
    exists fin, moving_select nmaxi nsect l = Some fin /\ cands_of fin = cands_of l /\
      forall s, alive_sect s fin = if (s <? nsect)%nat then firstn (nth s isv 0%nat) (alive_sect s l) else alive_sect s l.
Proof.
  intros Hpos Hb Hcount. unfold moving_select.
  rewrite (proj2 (Z.leb_gt _ _) Hpos).
  rewrite (proj2 (Nat.ltb_ge _ _) Hcount).
  destruct (alloc_spec (Z.to_nat nmaxi) (sect_counts nsect l)) as [p [j [Hj [Ha Hs]]]].
  { rewrite sect_counts_sum by exact Hb. exact Hcount. }
  rewrite sect_counts_length in Hj.
  exists p, j. split; [exact Hj|]. cbn zeta. split; [exact Hs|].
  rewrite Ha. eexists. split; [reflexivity|]. split; [apply discard_all_cands|].
  intro s. rewrite discard_all_spec.
  - rewrite sect_counts_length. cbn [Nat.leb andb Nat.add]. rewrite Nat.sub_0_r. reflexivity.
  - rewrite rr_shape_length. reflexivity.
  - intros m Hm. rewrite sect_counts_length in Hm. cbn [Nat.add]. apply sect_counts_nth. exact Hm.
Qed.

Lemma moving_select_small nmaxi nsect l :
  (nmaxi <= 0)%Z \/ (count_alive l < Z.to_nat nmaxi)%nat -> moving_select nmaxi nsect l = Some l.
Proof.
  intros [H|H]; unfold moving_select.
  - rewrite (proj2 (Z.leb_le _ _) H). reflexivity.
  - destruct (nmaxi <=? 0)%Z; [reflexivity|]. rewrite (proj2 (Nat.ltb_lt _ _) H). reflexivity.
Qed.

Lemma moving_select_total nmaxi nsect l : sect_bounded nsect l -> moving_select nmaxi nsect l <> None.
Proof.
  intro Hb. destruct (Z_le_gt_dec nmaxi 0) as [H|H].
  - rewrite moving_select_small by (left; exact H). discriminate.
  - destruct (Nat.lt_ge_cases (count_alive l) (Z.to_nat nmaxi)) as [L|L].
    + rewrite moving_select_small by (right; exact L). discriminate.
    + destruct (moving_select_spec nmaxi nsect l ltac:(lia) Hb L) as [p [j [_ [_ [fin [E _]]]]]].
      rewrite E. discriminate.
Qed.

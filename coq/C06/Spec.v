(* C06 spec, part A: what "the neighbourhood defined by the parameters" means.
   Declarative predicates, plus an executable brute-force evaluation (rank counting, closed-form
   allocation) that is written independently of the model's sort / quota / round-robin passes and is
   used by the search step of the check. *)
From Coq Require Import List ZArith QArith Qabs Bool Arith.
From Gst Require Import lib.QAux C06.Model.
Import ListNotations.
Local Open Scope Q_scope.

(* ------------------------------------------------------------------ admissible samples *)
Definition has_defined (s : sample) : Prop :=
  s_vars s = [] \/ exists v, In (Some v) (s_vars s).
Definition xvalid_excluded (p : params) (t : target) (s : sample) : Prop :=
  p_xvalid p = true /\
  ((p_kfold p = false /\ eucl2 p t s < p_eps p * p_eps p) \/
   (p_kfold p = true /\ p_hascode p = true /\ oq_eqb (s_code s) (t_code t) = true)).
Definition in_ellipsoid (p : params) (t : target) (s : sample) : Prop :=
  match p_radius p with
  | None => True
  | Some r => 0 <= r /\ dist2 p t s <= r * r
  end.
Definition passes_checkers (p : params) (t : target) (s : sample) : Prop :=
  forall c, In c (p_checkers p) -> check_one t s c = true.
Definition admissible (p : params) (t : target) (s : sample) : Prop :=
  s_active s = true /\ has_defined s /\ ~ xvalid_excluded p t s /\
  passes_checkers p t s /\ in_ellipsoid p t s.

Definition admissible_b (p : params) (t : target) (s : sample) : bool :=
  s_active s && negb (discard_undefined s) && negb (xvalid p t s) && checks_ok p t s &&
  within p (dist2 p t s).

(* the candidate a sample gives rise to *)
Definition mk_cand (oracle : Q -> Q -> nat) (p : params) (t : target) (is : nat * sample) : cand :=
  let inc := tincr p t (snd is) in
  {| c_idx := fst is; c_d2 := dist2 p t (snd is);
     c_sect := if flag_sector p then sector_define oracle (p_nsect p) (nthQ inc 0) (nthQ inc 1) else 0%nat |}.

(* ------------------------------------------------------------------ per-sector order, quota, allocation *)
Definition cands_of (l : st) : list cand := map fst l.
(* alive candidates of one sector, in list order *)
Definition alive_sect (s : nat) (l : st) : list cand :=
  map fst (filter (fun ca => snd ca && (c_sect (fst ca) =? s)%nat) l).
Definition in_sect (s : nat) (l : list cand) : list cand := filter (fun c => (c_sect c =? s)%nat) l.

(* the shape of a round-robin allocation: after p complete turns the sectors before position j have
   been served once more *)
Fixpoint rr_shape (cs : list nat) (p j : nat) : list nat :=
  match cs with
  | [] => []
  | c :: r => match j with
              | O => Nat.min c p :: rr_shape r p 0
              | S j' => Nat.min c (S p) :: rr_shape r p j'
              end
  end.
Definition sumN (l : list nat) : nat := fold_right Nat.add 0%nat l.

(* ------------------------------------------------------------------ executable brute-force spec *)
Definition key_lt (a b : cand) : bool :=
  qltb (c_d2 a) (c_d2 b) || (qeqb (c_d2 a) (c_d2 b) && (c_idx a <? c_idx b)%nat).
(* number of candidates of the same sector that come strictly before x *)
Definition rank_in (l : list cand) (x : cand) : nat :=
  length (filter (fun y => (c_sect y =? c_sect x)%nat && key_lt y x) l).

Definition level_sum (cs : list nat) (p : nat) : nat := sumN (map (Nat.min p) cs).
Fixpoint find_level (k : nat) (cs : list nat) (nmaxi : nat) : nat :=
  match k with
  | O => O
  | S k' => if (level_sum cs (S k') <=? nmaxi)%nat then S k' else find_level k' cs nmaxi
  end.
Fixpoint give (p rem : nat) (cs : list nat) : list nat :=
  match cs with
  | [] => []
  | c :: r => if (p <? c)%nat && (0 <? rem)%nat then S p :: give p (rem - 1) r
              else Nat.min p c :: give p rem r
  end.
Definition water_fill (nmaxi : nat) (cs : list nat) : list nat :=
  let p := find_level nmaxi cs nmaxi in
  give p (nmaxi - level_sum cs p) cs.

Definition spec_select (p : params) (cands : list cand) : list nat :=
  if (Z.of_nat (length cands) <? p_nmini p)%Z then []
  else
    let l1 := if flag_sector p && (0 <? p_nsmax p)%Z
              then filter (fun x => (rank_in cands x <? Z.to_nat (p_nsmax p))%nat) cands else cands in
    if (p_nmaxi p <=? 0)%Z || (length l1 <? Z.to_nat (p_nmaxi p))%nat then map c_idx l1
    else
      let cs := map (fun s => length (in_sect s l1)) (seq 0 (p_nsect p)) in
      let a := water_fill (Z.to_nat (p_nmaxi p)) cs in
      map c_idx (filter (fun x => (rank_in l1 x <? nth (c_sect x) a 0)%nat) l1).

Definition spec_moving (oracle : Q -> Q -> nat) (p : params) (t : target) (samples : list sample) : list nat :=
  if (Z.of_nat (length samples) <? p_nmini p)%Z then []
  else spec_select p (map (mk_cand oracle p t)
                          (filter (fun is => admissible_b p t (snd is)) (enum samples))).

(* ------------------------------------------------------------------ the per-sector quotas of a neighbourhood *)
Definition nsmax_active (p : params) : bool := flag_sector p && (0 <? p_nsmax p)%Z.
(* counts = number of admissible samples per sector; quota = number finally kept per sector *)
Definition quota_ok (p : params) (counts quota : list nat) : Prop :=
  let c1 := map (fun c => if nsmax_active p then Nat.min (Z.to_nat (p_nsmax p)) c else c) counts in
  if (p_nmaxi p <=? 0)%Z || (sumN c1 <? Z.to_nat (p_nmaxi p))%nat then quota = c1
  else exists turn j, (j <= length counts)%nat /\ quota = rr_shape c1 turn j /\ sumN quota = Z.to_nat (p_nmaxi p).

(* ------------------------------------------------------------------ samples with undefined coordinates / drifts *)
Definition coords_defined (x : xsample) : Prop := forall o, In o (x_coords x) -> o <> None.
Definition fext_defined (x : xsample) : Prop := forall o, In o (x_fext x) -> o <> None.
Definition admissible_x (p : params) (t : target) (x : xsample) : Prop :=
  coords_defined x /\ fext_defined x /\ admissible p t (x_total x).
Definition admissible_x_b (p : params) (t : target) (x : xsample) : bool :=
  forallb is_def (x_coords x) && forallb is_def (x_fext x) && admissible_b p t (x_total x).
(* the same sample seen as a masked one when a coordinate or a drift is undefined *)
Definition x_embed (x : xsample) : sample :=
  {| s_active := x_active x && forallb is_def (x_coords x) && forallb is_def (x_fext x);
     s_coords := map oq0 (x_coords x); s_vars := x_vars x; s_code := x_code x |}.
Definition spec_moving_x (oracle : Q -> Q -> nat) (p : params) (t : target) (xs : list xsample) : list nat :=
  if (Z.of_nat (length xs) <? p_nmini p)%Z then []
  else spec_select p (map (fun ix => mk_cand oracle p t (fst ix, x_total (snd ix)))
                          (filter (fun ix => admissible_x_b p t (snd ix)) (enum xs))).

(* ------------------------------------------------------------------ what the summary columns are said to mean *)
Fixpoint run_from (flags : list bool) (n : nat) : nat :=      (* length of the run of empty sectors starting here *)
  match n, flags with
  | S n', true :: r => S (run_from r n')
  | _, _ => 0%nat
  end.
Fixpoint max_run (flags : list bool) (n k : nat) : nat :=
  match k with
  | O => 0%nat
  | S k' => Nat.max (run_from flags n) (max_run (tl flags) n k')
  end.
(* neighbourhood described by the samples actually kept: their number, their extreme squared distances, the sectors
   holding at least one of them, the longest run of consecutive empty sectors around the circle *)
Definition summary_spec (nsect : nat) (fin : st) : summary :=
  let kept := map fst (filter (fun ca => snd ca) fin) in
  let empty := map (fun s => match in_sect s kept with [] => true | _ => false end) (seq 0 nsect) in
  {| sm_number := length kept;
     sm_max2 := fold_left omax (map c_d2 kept) None; sm_min2 := fold_left omin (map c_d2 kept) None;
     sm_nonempty := length (filter negb empty);
     sm_cempty := max_run (empty ++ empty) nsect nsect |}.

(* C06 proofs, part A.1: candidate loop, sector rules, stable sort and tie-break perturbation *)
From Coq Require Import List ZArith QArith Qabs Bool Arith Lqa Lia Permutation Sorting.Sorted.
From Gst Require Import lib.QAux C06.Model C06.Spec.
Import ListNotations.
Local Open Scope Q_scope.

(* ------------------------------------------------------------------ admissible <-> boolean filters *)
Lemma discard_undefined_spec s : discard_undefined s = false <-> has_defined s.
Proof.
  unfold discard_undefined, has_defined. destruct (s_vars s) as [|v vs] eqn:E.
  - split; auto.
  - rewrite negb_false_iff, existsb_exists. split.
    + intros [x [Hin Hd]]. right. destruct x as [q|]; [|discriminate]. exists q. exact Hin.
    + intros [H|[q Hin]]; [discriminate|]. exists (Some q). split; [exact Hin|reflexivity].
Qed.

Lemma xvalid_spec p t s : xvalid p t s = true <-> xvalid_excluded p t s.
Proof.
  unfold xvalid, xvalid_excluded.
  destruct (p_xvalid p); cbn [negb].
  2:{ split; [discriminate|]. intros [H _]; discriminate. }
  destruct (p_kfold p); cbn [negb].
  - destruct (p_hascode p); cbn [negb].
    + split.
      * intro H. split; [reflexivity|]. right. auto.
      * intros [_ [[H _]|[_ [_ H]]]]; [discriminate|exact H].
    + split; [discriminate|]. intros [_ [[H _]|[_ [H _]]]]; discriminate.
  - rewrite qltb_true. split.
    + intro H. split; [reflexivity|]. left. auto.
    + intros [_ [[_ H]|[H _]]]; [exact H|discriminate].
Qed.

Lemma within_spec p t s : within p (dist2 p t s) = true <-> in_ellipsoid p t s.
Proof.
  unfold within, in_ellipsoid. destruct (p_radius p) as [r|]; [|tauto].
  rewrite andb_true_iff, !qleb_true. tauto.
Qed.

Lemma checks_spec p t s : checks_ok p t s = true <-> passes_checkers p t s.
Proof. unfold checks_ok, passes_checkers. apply forallb_forall. Qed.

Lemma admissible_b_spec p t s : admissible_b p t s = true <-> admissible p t s.
Proof.
  unfold admissible_b, admissible.
  rewrite !andb_true_iff, !negb_true_iff, discard_undefined_spec, checks_spec, within_spec.
  rewrite <- xvalid_spec.
  destruct (xvalid p t s); intuition congruence.
Qed.

Section WithOracle.
Variable oracle : Q -> Q -> nat.

Lemma cand_of_spec p t is :
  cand_of oracle p t is = if admissible_b p t (snd is) then Some (mk_cand oracle p t is) else None.
Proof.
  unfold cand_of, admissible_b, mk_cand.
  destruct (s_active (snd is)); cbn [negb andb]; [|reflexivity].
  destruct (discard_undefined (snd is)); cbn [negb andb]; [reflexivity|].
  destruct (xvalid p t (snd is)); cbn [negb andb]; [reflexivity|].
  destruct (checks_ok p t (snd is)); cbn [negb andb]; [|reflexivity].
  destruct (within p (dist2 p t (snd is))); cbn [negb]; reflexivity.
Qed.

Lemma cand_loop_filter p t l :
  cand_loop oracle p t l = map (mk_cand oracle p t) (filter (fun is => admissible_b p t (snd is)) l).
Proof.
  induction l as [|is r IH]; [reflexivity|].
  cbn [cand_loop filter]. rewrite cand_of_spec.
  destruct (admissible_b p t (snd is)); cbn [map]; rewrite IH; reflexivity.
Qed.

(* ------------------------------------------------------------------ sectors *)
Ltac sect_cases :=
  repeat match goal with
         | |- context [if ?b then _ else _] => let E := fresh "E" in destruct b eqn:E
         end.

Lemma sector2_lt dx dy : (sector2 dx dy < 2)%nat.
Proof. unfold sector2. sect_cases; lia. Qed.
Lemma sector4_lt dx dy : (sector4 dx dy < 4)%nat.
Proof. unfold sector4. sect_cases; lia. Qed.
Lemma sector8_lt dx dy : (sector8 dx dy < 8)%nat.
Proof. unfold sector8. sect_cases; lia. Qed.

Lemma sector_define_lt nsect dx dy :
  (1 <= nsect)%nat -> (forall a b, (oracle a b < nsect)%nat) -> (sector_define oracle nsect dx dy < nsect)%nat.
Proof.
  intros Hn Ho. unfold sector_define.
  destruct nsect as [|[|[|[|[|[|[|[|[|n]]]]]]]]]; try lia; try apply Ho.
  - apply sector2_lt.
  - apply sector4_lt.
  - apply sector8_lt.
Qed.

Ltac q2b H :=
  first [ apply qltb_true in H | apply qltb_false in H | apply qleb_true in H | apply qleb_false in H
        | apply qeqb_true in H | apply qeqb_false in H ].
Ltac q2b_all := repeat match goal with
                       | H : qltb _ _ = _ |- _ => q2b H
                       | H : qleb _ _ = _ |- _ => q2b H
                       | H : qeqb _ _ = _ |- _ => q2b H
                       | H : _ || _ = true |- _ => apply orb_true_iff in H
                       | H : _ || _ = false |- _ => apply orb_false_iff in H; destruct H
                       | H : _ && _ = true |- _ => apply andb_true_iff in H; destruct H
                       | H : _ && _ = false |- _ => apply andb_false_iff in H
                       end.

(* the three exact rules are nested: octants refine quadrants refine half-planes *)
Lemma sector8_sector4 dx dy : Nat.div2 (sector8 dx dy) = sector4 dx dy.
Proof.
  unfold sector8, sector4.
  destruct (qltb 0 dx) eqn:E1; [destruct (qleb 0 dy) eqn:E2|destruct (qeqb dx 0) eqn:E3];
    sect_cases; reflexivity.
Qed.
Lemma sector4_sector2 dx dy : Nat.div2 (sector4 dx dy) = sector2 dx dy.
Proof.
  unfold sector4, sector2.
  destruct (qltb 0 dx) eqn:E1; [|destruct (qeqb dx 0) eqn:E3];
    destruct (qleb 0 dy) eqn:E2; destruct (qltb 0 dy) eqn:E4; destruct (qeqb dy 0) eqn:E5;
    destruct (qleb 0 dx) eqn:E6; cbn [orb andb Nat.div2]; try reflexivity;
    exfalso; q2b_all; lra.
Qed.
(* a quarter turn (dx,dy) -> (-dy,dx) moves to the next quadrant *)
Lemma sector4_quarter_turn dx dy :
  ~ (dx == 0 /\ dy == 0) -> sector4 (- dy) dx = ((sector4 dx dy + 1) mod 4)%nat.
Proof.
  intro Hnz. unfold sector4.
  destruct (qltb 0 dx) eqn:A1; destruct (qeqb dx 0) eqn:A2; destruct (qleb 0 dy) eqn:A3;
    destruct (qltb 0 dy) eqn:A4; destruct (qltb 0 (- dy)) eqn:B1; destruct (qeqb (- dy) 0) eqn:B2;
    destruct (qleb 0 dx) eqn:B3; cbn; try reflexivity; exfalso; q2b_all; try lra;
    apply Hnz; split; lra.
Qed.

End WithOracle.

(* ------------------------------------------------------------------ insertion sort: permutation, sortedness, stability *)
Section Sort.
Context {A : Type}.
Variable le : A -> A -> bool.

Lemma insert_perm x l : Permutation (insert le x l) (x :: l).
Proof.
  induction l as [|y r IH]; cbn [insert]; [apply Permutation_refl|].
  destruct (le x y); [apply Permutation_refl|].
  eapply perm_trans; [apply perm_skip; exact IH|apply perm_swap].
Qed.
Lemma isort_perm l : Permutation (isort le l) l.
Proof.
  induction l as [|x r IH]; [apply Permutation_refl|].
  unfold isort in *. cbn [fold_right]. eapply perm_trans; [apply insert_perm|apply perm_skip; exact IH].
Qed.
Lemma isort_In l x : In x (isort le l) <-> In x l.
Proof. split; apply Permutation_in; [|apply Permutation_sym]; apply isort_perm. Qed.
Lemma isort_length l : length (isort le l) = length l.
Proof. apply Permutation_length, isort_perm. Qed.

Hypothesis le_total : forall a b, le a b = true \/ le b a = true.
Hypothesis le_trans : forall a b c, le a b = true -> le b c = true -> le a c = true.

Lemma insert_sorted x l :
  StronglySorted (fun a b => le a b = true) l -> StronglySorted (fun a b => le a b = true) (insert le x l).
Proof.
  induction l as [|y r IH]; intro Hs; cbn [insert].
  - constructor; constructor.
  - destruct (le x y) eqn:E.
    + constructor; [exact Hs|]. constructor; [exact E|].
      inversion Hs as [|? ? _ Hall]; subst. eapply Forall_impl; [|exact Hall].
      intros z Hz. eapply le_trans; eassumption.
    + inversion Hs as [|? ? Hr Hall]; subst. constructor; [apply IH; exact Hr|].
      assert (Hyx : le y x = true) by (destruct (le_total x y); congruence).
      rewrite Forall_forall. intros z Hz. apply (Permutation_in _ (insert_perm x r)) in Hz.
      destruct Hz as [<-|Hz]; [exact Hyx|]. rewrite Forall_forall in Hall. auto.
Qed.
Lemma isort_sorted l : StronglySorted (fun a b => le a b = true) (isort le l).
Proof.
  induction l as [|x r IH]; [constructor|]. unfold isort in *. cbn [fold_right]. apply insert_sorted, IH.
Qed.
End Sort.

(* two orders that agree whenever the first argument comes earlier in the input sort alike:
   insertion only ever compares an element with elements that came after it *)
Lemma insert_ext {A} (le1 le2 : A -> A -> bool) x l :
  (forall y, In y l -> le1 x y = le2 x y) -> insert le1 x l = insert le2 x l.
Proof.
  induction l as [|y r IH]; intro H; cbn [insert]; [reflexivity|].
  rewrite (H y (or_introl eq_refl)). destruct (le2 x y); [reflexivity|].
  f_equal. apply IH. intros z Hz. apply H. right; exact Hz.
Qed.
Lemma isort_ext_later {A} (le1 le2 : A -> A -> bool) (l : list A) :
  (forall pre x post, l = pre ++ x :: post -> forall y, In y post -> le1 x y = le2 x y) ->
  isort le1 l = isort le2 l.
Proof.
  induction l as [|x r IH]; intro H; [reflexivity|].
  unfold isort in *. cbn [fold_right]. rewrite IH.
  - apply insert_ext. intros y Hy. apply (H [] x r eq_refl).
    apply (isort_In le2 r y). exact Hy.
  - intros pre z post E y Hy. apply (H (x :: pre) z post); [rewrite E; reflexivity|exact Hy].
Qed.

(* stability: elements with the same key keep their input order *)
Lemma insert_filter {A} (le : A -> A -> bool) (f : A -> bool) x l :
  (forall y, In y l -> f y = true -> f x = true -> le x y = true) ->
  filter f (insert le x l) = filter f (x :: l).
Proof.
  induction l as [|y r IH]; intro H; cbn [insert]; [reflexivity|].
  destruct (le x y) eqn:E; [reflexivity|].
  cbn [filter]. rewrite IH by (intros z Hz; apply H; right; exact Hz).
  cbn [filter]. destruct (f x) eqn:Fx; [|reflexivity].
  destruct (f y) eqn:Fy; [|reflexivity].
  rewrite (H y (or_introl eq_refl) Fy eq_refl) in E. discriminate.
Qed.
Lemma isort_stable {A} (le : A -> A -> bool) (f : A -> bool) l :
  (forall x y, f x = true -> f y = true -> le x y = true) ->
  filter f (isort le l) = filter f l.
Proof.
  intro H. induction l as [|x r IH]; [reflexivity|].
  unfold isort in *. cbn [fold_right]. rewrite insert_filter.
  - cbn [filter]. rewrite IH. reflexivity.
  - intros y _ Fy Fx. apply H; assumption.
Qed.

Lemma le_d2_total a b : le_d2 a b = true \/ le_d2 b a = true.
Proof. unfold le_d2. destruct (qleb_spec (c_d2 a) (c_d2 b)); [left; reflexivity|right]. apply qleb_true. lra. Qed.
Lemma le_d2_trans a b c : le_d2 a b = true -> le_d2 b c = true -> le_d2 a c = true.
Proof. unfold le_d2. rewrite !qleb_true. lra. Qed.

Lemma sort_cands_perm l : Permutation (sort_cands l) l.
Proof. apply isort_perm. Qed.
Lemma sort_cands_sorted l : StronglySorted (fun a b => c_d2 a <= c_d2 b) (sort_cands l).
Proof.
  pose proof (isort_sorted le_d2 le_d2_total le_d2_trans l) as H.
  unfold sort_cands. induction H; constructor; [assumption|].
  eapply Forall_impl; [|eassumption]. intros b Hb. apply qleb_true. exact Hb.
Qed.
Lemma sort_cands_stable l d :
  filter (fun c => qeqb (c_d2 c) d) (sort_cands l) = filter (fun c => qeqb (c_d2 c) d) l.
Proof.
  apply isort_stable. intros x y Hx Hy. apply qeqb_true in Hx, Hy. unfold le_d2. apply qleb_true. lra.
Qed.

(* ------------------------------------------------------------------ the tie-break perturbation *)
Lemma enum_split_later {A} (l : list A) k pre x post :
  combine (seq k (length l)) l = pre ++ x :: post -> forall y, In y post -> (fst x < fst y)%nat.
Proof.
  revert k pre. induction l as [|a r IH]; intros k pre E y Hy.
  - destruct pre; discriminate.
  - cbn in E. destruct pre as [|b pre'].
    + cbn in E. injection E as <- <-. destruct y as [j v]. apply in_combine_l in Hy.
      apply in_seq in Hy. cbn. lia.
    + cbn in E. injection E as _ E. apply (IH (S k) pre' E y Hy).
Qed.

Lemma maxQ_ge l x : In x l -> x <= maxQ l.
Proof.
  induction l as [|y r IH]; [intros []|]. intros [<-|H]; cbn [maxQ fold_right].
  - destruct (qltb_spec (fold_right (fun x m => if qltb m x then x else m) 0 r) y); lra.
  - specialize (IH H). unfold maxQ in IH.
    destruct (qltb_spec (fold_right (fun x m => if qltb m x then x else m) 0 r) y); lra.
Qed.
Lemma maxQ_nonneg l : 0 <= maxQ l.
Proof.
  induction l as [|y r IH]; cbn [maxQ fold_right]; [lra|]. unfold maxQ in IH.
  destruct (qltb_spec (fold_right (fun x m => if qltb m x then x else m) 0 r) y); lra.
Qed.

Lemma inject_nat_lt i j : (i < j)%nat -> inject_Z (Z.of_nat i) + 1 <= inject_Z (Z.of_nat j).
Proof.
  intro H. setoid_replace 1 with (inject_Z 1) by reflexivity. rewrite <- inject_Z_plus.
  rewrite <- Zle_Qle. lia.
Qed.
Lemma inject_nat_bound i n : (i < n)%nat -> 0 <= inject_Z (Z.of_nat i) /\ inject_Z (Z.of_nat i) <= inject_Z (Z.of_nat n).
Proof. intro H. split; [setoid_replace 0 with (inject_Z 0) by reflexivity|]; rewrite <- Zle_Qle; lia. Qed.

Lemma insert_map_snd (x : nat * cand) (m : list (nat * cand)) :
  map snd (insert (fun a b => le_d2 (snd a) (snd b)) x m) = insert le_d2 (snd x) (map snd m).
Proof.
  induction m as [|y m' IHm]; [reflexivity|]. cbn [insert map].
  destruct (le_d2 (snd x) (snd y)); cbn [map]; [reflexivity|]. rewrite IHm. reflexivity.
Qed.
Lemma isort_combine_snd (ks : list nat) (l : list cand) : length ks = length l ->
  map snd (isort (fun a b => le_d2 (snd a) (snd b)) (combine ks l)) = isort le_d2 l.
Proof.
  revert ks. induction l as [|a t IH]; intros ks Hlen.
  - destruct ks; reflexivity.
  - destruct ks as [|k ks']; [discriminate|]. cbn [combine]. unfold isort in *. cbn [fold_right].
    rewrite insert_map_snd. cbn [snd]. f_equal. apply IH. cbn in Hlen. lia.
Qed.
Lemma isort_enum_snd (l : list cand) :
  map snd (isort (fun a b => le_d2 (snd a) (snd b)) (enum l)) = isort le_d2 l.
Proof. apply isort_combine_snd. apply seq_length. Qed.

(* keys r (the computed distances) ordered like the squared distances and separated by more than
   distmax * n * eps whenever they differ: perturbing by distmax * isel * eps and sorting stably is
   the stable sort on the squared distances *)
Lemma perturb_sort_spec (eps : Q) (r : cand -> Q) (l : list cand) :
  0 <= eps ->
  (forall x y, In x l -> In y l -> (r x <= r y <-> c_d2 x <= c_d2 y)) ->
  (forall x y, In x l -> In y l -> r x < r y ->
               maxQ (map r l) * inject_Z (Z.of_nat (length l)) * eps < r y - r x) ->
  perturb_sort eps r l = sort_cands l.
Proof.
  intros Heps Hmono Hgap. unfold perturb_sort, sort_cands.
  set (D := maxQ (map r l)).
  assert (HD : 0 <= D) by apply maxQ_nonneg.
  assert (Hs : isort (le_pert eps D r) (enum l) = isort (fun a b => le_d2 (snd a) (snd b)) (enum l)).
  { apply isort_ext_later. intros pre x post E y Hy.
    pose proof (enum_split_later l 0 pre x post E y Hy) as Hlt.
    assert (Hx : In x (enum l)) by (rewrite E; apply in_or_app; right; left; reflexivity).
    assert (Hy' : In y (enum l)) by (rewrite E; apply in_or_app; right; right; exact Hy).
    destruct x as [i a], y as [j b]. cbn [fst snd] in *.
    pose proof (in_combine_r _ _ _ _ Hx) as Ha. pose proof (in_combine_r _ _ _ _ Hy') as Hb.
    pose proof (in_combine_l _ _ _ _ Hy') as Hj. apply in_seq in Hj.
    unfold le_pert, perturbed, le_d2. cbn [fst snd].
    pose proof (inject_nat_lt i j Hlt) as Hij.
    pose proof (inject_nat_bound j (length l) ltac:(lia)) as [Hj0 Hjn].
    pose proof (inject_nat_bound i (length l) ltac:(lia)) as [Hi0 Hin].
    set (qi := inject_Z (Z.of_nat i)) in *. set (qj := inject_Z (Z.of_nat j)) in *.
    set (qn := inject_Z (Z.of_nat (length l))) in *.
    destruct (qleb_spec (c_d2 a) (c_d2 b)) as [L|L].
    - apply qleb_true. apply (Hmono a b Ha Hb) in L.
      assert (0 <= D * eps) by nra. nra.
    - apply qleb_false.
      assert (Hr : r b < r a).
      { destruct (Qlt_le_dec (r b) (r a)); [assumption|]. exfalso. apply (Hmono a b Ha Hb) in q. lra. }
      pose proof (Hgap b a Hb Ha Hr) as G. fold D qn in G.
      assert (0 <= D * eps) by nra.
      assert (D * eps * (qj - qi) <= D * eps * qn) by nra.
      nra. }
  rewrite Hs. apply isort_enum_snd.
Qed.

(* C06 runner: decodes a case, runs model and spec. Executable only. *)
From Coq Require Import List ZArith QArith Qabs Bool Arith.
From Gst Require Import lib.Sx lib.QAux C06.Model C06.Spec C06.Knn C06.KnnE.
Import ListNotations.

Definition asQs := asListOf asQ.
Definition asNats := asListOf asNat.

Definition asOQs := asListOf asOQ.
(* (sel coords vars code fext); an undefined coordinate / drift / variable / code is () *)
Definition asSample (s : sx) : option xsample :=
  match s with
  | L [a; x; v; c; f] =>
      match asB a, asOQs x, asOQs v, asOQ c, asOQs f with
      | Some a', Some x', Some v', Some c', Some f' =>
          Some {| x_active := a'; x_coords := x'; x_fext := f'; x_vars := v'; x_code := c' |}
      | _, _, _, _, _ => None
      end
  | _ => None
  end.
Definition asTarget (s : sx) : option target :=
  match s with
  | L [x; c] => match asQs x, asOQ c with
                | Some x', Some c' => Some {| t_coords := x'; t_code := c' |}
                | _, _ => None
                end
  | _ => None
  end.
Definition asChecker (s : sx) : option checker :=
  match s with
  | L [I 1%Z; d; w] => match asNat d, asQ w with Some d', Some w' => Some (ChkBench d' w') | _, _ => None end
  | L [I 2%Z; I o; w] => match asQ w with Some w' => Some (ChkCode o w') | None => None end
  | _ => None
  end.

Definition eps9 : Q := 1 # 1000000000.

(* oracle for a general number of sectors: the sector harvested from the implementation for the
   transformed increment of each sample *)
Definition mk_oracle (tab : list ((Q * Q) * nat)) (dx dy : Q) : nat :=
  match find (fun e => qeqb (fst (fst e)) dx && qeqb (snd (fst e)) dy) tab with
  | Some e => snd e
  | None => 0%nat
  end.

Definition minOQ (a : option Q) (x : Q) : option Q :=
  match a with None => Some x | Some y => Some (if qltb x y then x else y) end.
(* smallest relative gap between distinct consecutive squared distances of the sorted candidates *)
Fixpoint gap_min (m : Q) (l : list cand) (acc : option Q) : option Q :=
  match l with
  | a :: ((b :: _) as r) =>
      gap_min m r (if qltb (c_d2 a) (c_d2 b) then minOQ acc ((c_d2 b - c_d2 a) / m) else acc)
  | _ => acc
  end.
Definition rad_margin (r2 : Q) (d2s : list Q) : option Q * bool :=
  fold_left (fun acc d => if qeqb d r2 then (fst acc, true)
                          else (minOQ (fst acc) (Qabs (d - r2) / r2), snd acc)) d2s (None, false).

Definition run_moving (ints rad coe ang fl chk smp tg hv : sx) : sx :=
  match asListOf asZ ints, asOQ rad, asQs coe, asQs ang, asListOf asZ fl,
        asListOf asChecker chk, asListOf asSample smp, asTarget tg with
  | Some [ndim; nmini; nmaxi; nsect; nsmax], Some radius, Some coeffs, Some angles,
    Some [xv; kf; hc; useball; leaf], Some checkers, Some xsamples, Some t =>
      let samples := map x_total xsamples in
      let cdef := map (fun x => forallb is_def (x_coords x)) xsamples in
      let '(rotmat, sectors, ellig) :=
        match hv with
        | L [r; s; e] =>
            (match asQs r with Some r' => r' | None => [] end,
             match asNats s with Some s' => s' | None => [] end,
             match asNats e with Some e' => e' | None => [] end)
        | _ => ([], [], [])
        end in
      let nz z := negb (Z.eqb z 0) in
      let aniso := match coeffs with [] => false | _ => true end in
      let p := {| p_nmini := nmini; p_nmaxi := nmaxi; p_nsect := Z.to_nat nsect; p_nsmax := nsmax;
                  p_ndim := Z.to_nat ndim; p_radius := radius; p_aniso := aniso;
                  p_rot := aniso && existsb (fun a => negb (qeqb a 0)) angles;
                  p_nd := if aniso then length coeffs else 2%nat;
                  p_coeffs := coeffs; p_rotmat := rotmat;
                  p_xvalid := nz xv; p_kfold := nz kf; p_hascode := nz hc; p_eps := eps9;
                  p_checkers := checkers |} in
      (* samples with an undefined coordinate never reach the sector computation: their harvested entry is meaningless and
         must not shadow a real sample whose increment coincides with their zero-filled one *)
      let tab := map snd (filter (fun be => fst be)
                   (combine cdef (combine (map (fun s => let inc := tincr p t s in (nthQ inc 0, nthQ inc 1)) samples) sectors))) in
      let oracle := mk_oracle tab in
      let res := moving_fixed_x oracle (nz useball) p t xsamples ellig in
      let taken := ball_taken (nz useball) p xsamples ellig in
      let spec := spec_moving_x oracle p t xsamples in
      let cands := sort_cands (cand_loop_x oracle p t (enum xsamples)) in
      let dsamples := map snd (filter (fun bs => fst bs) (combine cdef samples)) in
      let m := maxQ (map c_d2 cands) in
      let gap := if qeqb m 0 then None else gap_min m cands None in
      let d2s := map (dist2 p t) samples in
      let d2def := map (dist2 p t) dsamples in
      let '(radm, radeq) := match radius with
                            | Some r => if qltb 0 r then rad_margin (r * r) d2def else (None, false)
                            | None => (None, false) end in
      let nbound := length (filter (fun s => let inc := tincr p t s in
                                    flag_sector p && is_sector_boundary (p_nsect p) (nthQ inc 0) (nthQ inc 1)) dsamples) in
      let xvm := existsb (fun s => let e := eucl2 p t s in qltb 0 e && qltb e (1 # 1000000000000)) dsamples in
      L [I (r_code res); ofList ofNat (r_ranks res); ofList ofNat spec;
         L [ofOQ gap; ofOQ radm; ofB radeq; ofNat nbound; ofB xvm];
         L [ofNat (length cands); ofList ofNat (map c_idx (map fst (filter (fun ca => snd ca) (r_sorted res)))); ofList ofQ d2s; ofQ m;
            ofQ (maxQ (map c_d2 (if taken then cand_loop_ball_x oracle p t (map (fun i => (i, nth i xsamples dummy_xsample)) ellig) else cand_loop_x oracle p t (enum xsamples))))];
         (let ofSum sm := L [ofNat (sm_number sm); ofOQ (sm_max2 sm); ofOQ (sm_min2 sm); ofNat (sm_nonempty sm); ofNat (sm_cempty sm)] in
          let rawc := if taken then cand_loop_ball_x oracle p t (map (fun i => (i, nth i xsamples dummy_xsample)) ellig)
                      else cand_loop_x oracle p t (enum xsamples) in
          L [ofSum (moving_summary p (if (Z.of_nat (length xsamples) <? p_nmini p)%Z then [] else rawc) res);
             ofSum (summary_spec (p_nsect p) (r_sorted res)); ofB taken])]
  | _, _, _, _, _, _, _, _ => sx_error 1
  end.

(* ------------------------------------------------------------------ KNN *)
Definition asQuery (s : sx) : option (pt * nat) :=
  match s with
  | L [q; k] => match asQs q, asNat k with Some q', Some k' => Some (q', k') | _, _ => None end
  | _ => None
  end.
Definition ofExt (e : ext) : sx := ofOQ e.
(* (metric leaf points queries): metric 2 = Manhattan, metric 1 = Euclidean (model and spec on SQUARED distances) *)
(* a 5th field (constructor / default-space mode of the harness) is ignored: the model has no notion of it *)
Definition run_knn (rest0 : list sx) : sx :=
  match firstn 4 rest0 with
  | [I metric; I leaf; pts; qs] =>
      match asListOf asQs pts, asListOf asQuery qs with
      | Some data, Some queries =>
          let nfeat := match data with [] => 0%nat | x :: _ => length x end in
          let dist := if Z.eqb metric 2 then manhattan else sqeuclid in
          let tr := if Z.eqb metric 2 then btree_init manhattan nfeat data leaf else btree_init_e nfeat data leaf in
          L (map (fun qk : pt * nat =>
                    let (q, k) := qk in
                    let spec := knn_spec dist data (S k) q in
                    let tie := match nth_error spec (k - 1), nth_error spec k with
                               | Some a, Some b => qeqb (fst a) (fst b)
                               | _, _ => false
                               end in
                    let speck := firstn k spec in
                    let res := if Z.eqb metric 2 then knn_query manhattan data tr k q else knn_query_e data tr k q in
                    let m := match res with
                             | Some h => L [ofList (fun e => ofExt (fst e)) h; ofList (fun e => ofNat (snd e)) h]
                             | None => L [I (-1)%Z]
                             end in
                    L [m; ofList (fun e => ofQ (fst e)) speck; ofList (fun e => ofNat (snd e)) speck; ofB tie]) queries)
      | _, _ => sx_error 1
      end
  | _ => sx_error 2
  end.

Definition run (c : sx) : sx :=
  match c with
  | L [I 0%Z; ints; rad; coe; ang; fl; chk; smp; tg; hv] => run_moving ints rad coe ang fl chk smp tg hv
  | L (I 1%Z :: rest) => run_knn rest
  | _ => sx_error 0
  end.

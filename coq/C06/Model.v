(* C06 model, part A: executable mirror of the moving-neighbourhood search
     NeighMoving::_moving                 /repo/src/Neigh/NeighMoving.cpp:520
     NeighMoving::_movingSectorDefine     NeighMoving.cpp:643
     NeighMoving::_movingSectorNsmax      NeighMoving.cpp:686
     NeighMoving::_movingSelect           NeighMoving.cpp:715
     NeighMoving::getNeigh                NeighMoving.cpp:489
     ANeigh::_discardUndefined/_xvalid/_neighCompress   /repo/src/Neigh/ANeigh.cpp:354,382,271
     BiTargetCheckDistance::_calculateDistance/isOK     /repo/src/Geometry/BiTargetCheckDistance.cpp:157,184
     BiTargetCheckBench::isOK, BiTargetCheckCode::isOK  /repo/src/Geometry/BiTargetCheck{Bench,Code}.cpp
     VH::arrangeInPlace (std::stable_sort on keys)      /repo/src/Basic/VectorHelper.cpp:2095
   Exact rational arithmetic on SQUARED distances (every finite double is a rational; the
   square root is monotone).  C int -> Z at the interface, nat for counters.  No proofs here. *)
From Coq Require Import List ZArith QArith Qabs Bool Arith.
From Gst Require Import lib.QAux.
Import ListNotations.
Local Open Scope Q_scope.

(* ------------------------------------------------------------------ small helpers *)
Definition nthQ (l : list Q) (i : nat) : Q := nth i l 0.
Fixpoint sumQ (l : list Q) : Q := match l with [] => 0 | x :: r => x + sumQ r end.
Definition sq (x : Q) : Q := x * x.
Definition enum {A} (l : list A) : list (nat * A) := combine (seq 0 (length l)) l.
Definition oq_eqb (a b : option Q) : bool :=          (* double == double, TEST == TEST *)
  match a, b with
  | Some x, Some y => qeqb x y
  | None, None => true
  | _, _ => false
  end.
Definition is_def (o : option Q) : bool := match o with Some _ => true | None => false end.

(* ------------------------------------------------------------------ data *)
Record sample := {
  s_active : bool;              (* Db::isActive *)
  s_coords : list Q;            (* coordinates (space dimension) *)
  s_vars   : list (option Q);   (* ELoc::Z variables; [] when the Db has no Z locator *)
  s_code   : option Q           (* ELoc::C, None = undefined / absent *)
}.
Record target := { t_coords : list Q; t_code : option Q }.

(* a sample as the Db holds it: coordinates and external drifts may be undefined (TEST).  [sample] above is
   its total projection (undefined coordinate read as 0; such a sample never reaches the distance
   computation).  The record [sample] is kept because coq/C04 and coq/C05 build on it. *)
Record xsample := {
  x_active : bool;
  x_coords : list (option Q);   (* ELoc::X, None = undefined *)
  x_fext   : list (option Q);   (* ELoc::F external drifts; [] when the Db has none *)
  x_vars   : list (option Q);
  x_code   : option Q
}.
Definition oq0 (o : option Q) : Q := match o with Some v => v | None => 0 end.
Definition x_total (x : xsample) : sample :=
  {| s_active := x_active x; s_coords := map oq0 (x_coords x); s_vars := x_vars x; s_code := x_code x |}.

(* extra pair checkers (NeighMoving::_bipts) *)
Inductive checker :=
| ChkBench (idim : nat) (width : Q)          (* |T1[idim] - T2[idim]| <= width *)
| ChkCode (optcode : Z) (tol : Q).           (* 1: |c1-c2| <= tol ; 2: c1 <> c2 ; else: true *)

Record params := {
  p_nmini : Z; p_nmaxi : Z; p_nsect : nat; p_nsmax : Z;
  p_ndim : nat;                 (* space dimension = ANeigh::getNDim() *)
  p_radius : option Q;          (* None = TEST (no limit) *)
  p_aniso : bool; p_rot : bool; (* _flagAniso, _flagRotation *)
  p_nd : nat;                   (* BiTargetCheckDistance::_ndim (2 when no coefficient is given!) *)
  p_coeffs : list Q; p_rotmat : list Q;
  p_xvalid : bool; p_kfold : bool; p_hascode : bool;
  p_eps : Q;                    (* EPSILON9, used by _xvalid and by the tie-break perturbation *)
  p_checkers : list checker
}.

(* ------------------------------------------------------------------ distance  (BiTargetCheckDistance) *)
(* isOK: _movingIncr[idim] = T1.getCoord(idim) - T2.getCoord(idim)  (T1 = target, T2 = sample) *)
Definition incr_of (nd : nat) (t s : list Q) : list Q :=
  map (fun d => nthQ t d - nthQ s d) (seq 0 nd).
(* matrix_product_safe(1,nd,nd,incr,rot,aux): aux[i3] = sum_i2 incr[i2] * rot[i3*nd + i2]   (matrix.cpp:365) *)
Definition rot_apply (nd : nat) (rot incr : list Q) : list Q :=
  map (fun i3 => sumQ (map (fun i2 => nthQ incr i2 * nthQ rot (i3 * nd + i2)%nat) (seq 0 nd))) (seq 0 nd).
Definition div_coeffs (nd : nat) (incr coeffs : list Q) : list Q :=
  map (fun d => nthQ incr d / nthQ coeffs d) (seq 0 nd).
(* _calculateDistance: the transformed increment (kept in _movingIncr) *)
Definition transform (p : params) (incr : list Q) : list Q :=
  if p_aniso p then
    div_coeffs (p_nd p) (if p_rot p then rot_apply (p_nd p) (p_rotmat p) incr else incr) (p_coeffs p)
  else incr.
Definition tincr (p : params) (t : target) (s : sample) : list Q :=
  transform p (incr_of (p_nd p) (t_coords t) (s_coords s)).
Definition dist2 (p : params) (t : target) (s : sample) : Q := sumQ (map sq (tincr p t s)).
(* return _dist <= _radius, on squares *)
Definition within (p : params) (d2 : Q) : bool :=
  match p_radius p with
  | None => true
  | Some r => qleb 0 r && qleb d2 (r * r)
  end.

(* ------------------------------------------------------------------ sectors  (_movingSectorDefine) *)
(* theta = polar angle of (dx,dy) in [0,2pi), (0,0) -> pi/2 ; isect = (int)(nsect*theta/(2pi)).
   For nsect in {2,4,8} the floor is decided by signs and |dx| <> |dy| comparisons. *)
Definition sector2 (dx dy : Q) : nat :=
  if qltb 0 dy || (qeqb dy 0 && qleb 0 dx) then 0%nat else 1%nat.
Definition sector4 (dx dy : Q) : nat :=
  if qltb 0 dx then (if qleb 0 dy then 0 else 3)%nat
  else if qeqb dx 0 then (if qleb 0 dy then 1 else 3)%nat
  else (if qltb 0 dy then 1 else 2)%nat.
Definition sector8 (dx dy : Q) : nat :=
  if qltb 0 dx then
    (if qleb 0 dy then (if qltb dy dx then 0 else 1)
     else (if qltb dx (- dy) then 6 else 7))%nat
  else if qeqb dx 0 then (if qleb 0 dy then 2 else 6)%nat
  else
    (if qltb 0 dy then (if qltb (- dx) dy then 2 else 3)
     else (if qltb (- dy) (- dx) then 4 else 5))%nat.
Definition flag_sector (p : params) : bool := (1 <? p_ndim p)%nat && (1 <? p_nsect p)%nat.
Definition is_sector_boundary (nsect : nat) (dx dy : Q) : bool :=
  match nsect with
  | 2%nat => qeqb dy 0
  | 4%nat => qeqb dy 0 || qeqb dx 0
  | 8%nat => qeqb dy 0 || qeqb dx 0 || qeqb (Qabs dx) (Qabs dy)
  | _ => false
  end.

Section Moving.
(* external behaviour for a general number of sectors: the atan-based rule; the selection
   theorems only need  oracle dx dy < nsect  *)
Variable oracle : Q -> Q -> nat.

Definition sector_define (nsect : nat) (dx dy : Q) : nat :=
  match nsect with
  | 0%nat | 1%nat => 0%nat
  | 2%nat => sector2 dx dy
  | 4%nat => sector4 dx dy
  | 8%nat => sector8 dx dy
  | _ => oracle dx dy
  end.

(* ------------------------------------------------------------------ filters of the candidate loop *)
(* ANeigh::_discardUndefined + Db::isAllUndefined (which returns true when SOME variable is defined) *)
Definition discard_undefined (s : sample) : bool :=
  match s_vars s with
  | [] => false
  | vs => negb (existsb is_def vs)
  end.
(* distance_inter: plain Euclidean distance over the space dimensions *)
Definition eucl2 (p : params) (t : target) (s : sample) : Q :=
  sumQ (map sq (incr_of (p_ndim p) (t_coords t) (s_coords s))).
Definition xvalid (p : params) (t : target) (s : sample) : bool :=
  if negb (p_xvalid p) then false
  else if negb (p_kfold p) then qltb (eucl2 p t s) (p_eps p * p_eps p)
  else if negb (p_hascode p) then false
  else oq_eqb (s_code s) (t_code t).
Definition check_one (t : target) (s : sample) (c : checker) : bool :=
  match c with
  | ChkBench idim width => qleb (Qabs (nthQ (t_coords t) idim - nthQ (s_coords s) idim)) width
  | ChkCode opt tol =>
      if Z.eqb opt 1 then
        match t_code t, s_code s with
        | Some c1, Some c2 => negb (qltb tol (Qabs (c1 - c2)))
        | None, None => negb (qltb tol 0)
        | _, _ => false       (* |TEST - c| is huge *)
        end
      else if Z.eqb opt 2 then negb (oq_eqb (t_code t) (s_code s))
      else true
  end.
Definition checks_ok (p : params) (t : target) (s : sample) : bool :=
  forallb (check_one t s) (p_checkers p).

Record cand := { c_idx : nat; c_d2 : Q; c_sect : nat }.

(* body of the loop "for (jech...)" in _moving, standard (non ball-tree) path: the chain of [continue]s *)
Definition cand_of (p : params) (t : target) (is : nat * sample) : option cand :=
  let s := snd is in
  if negb (s_active s) then None                      (* if (!_dbin->isActive(iech)) continue; *)
  else if discard_undefined s then None               (* if (_discardUndefined(iech)) continue; *)
  else if xvalid p t s then None                      (* if (getFlagXvalid()) if (_xvalid(...)) continue; *)
  else if negb (checks_ok p t s) then None            (* reject by a BiTargetCheck *)
  else
    let d2 := dist2 p t s in
    if negb (within p d2) then None                   (* if (!_biPtDist->isOK(_T1,_T2)) continue; *)
    else
      let inc := tincr p t s in
      let isect := if flag_sector p then sector_define (p_nsect p) (nthQ inc 0) (nthQ inc 1) else 0%nat in
      Some {| c_idx := fst is; c_d2 := d2; c_sect := isect |}.

Fixpoint cand_loop (p : params) (t : target) (l : list (nat * sample)) : list cand :=
  match l with
  | [] => []
  | is :: r => match cand_of p t is with
               | Some c => c :: cand_loop p t r
               | None => cand_loop p t r
               end
  end.

(* ------------------------------------------------------------------ sort  (VH::arrangeInPlace = std::stable_sort) *)
Fixpoint insert {A} (le : A -> A -> bool) (x : A) (l : list A) : list A :=
  match l with
  | [] => [x]
  | y :: r => if le x y then x :: y :: r else y :: insert le x r
  end.
Definition isort {A} (le : A -> A -> bool) (l : list A) : list A := fold_right (insert le) [] l.

Definition le_d2 (a b : cand) : bool := qleb (c_d2 a) (c_d2 b).
Definition sort_cands (l : list cand) : list cand := isort le_d2 l.

(* the literal code: keys r_i (the double distances, any rationals) are perturbed by distmax*isel*eps,
   then stably sorted.  C06_sorted relates it to [sort_cands]. *)
Definition maxQ (l : list Q) : Q := fold_right (fun x m => if qltb m x then x else m) 0 l.
Definition perturbed (eps distmax : Q) (ir : nat * Q) : Q :=
  snd ir + distmax * inject_Z (Z.of_nat (fst ir)) * eps.
Definition le_pert {A} (eps distmax : Q) (r : A -> Q) (a b : nat * A) : bool :=
  qleb (perturbed eps distmax (fst a, r (snd a))) (perturbed eps distmax (fst b, r (snd b))).
Definition perturb_sort {A} (eps : Q) (r : A -> Q) (l : list A) : list A :=
  map snd (isort (le_pert eps (maxQ (map r l)) r) (enum l)).

(* ------------------------------------------------------------------ _movingSectorNsmax *)
(* state: sorted candidates with their entry of [ranks]: true = ranks[j] is its sector, false = -1 *)
Definition st := list (cand * bool).
Fixpoint nsmax_pass (isect nsmax n_ang : nat) (l : st) : st :=
  match l with
  | [] => []
  | (c, alive) :: r =>
      if alive && (c_sect c =? isect)%nat then          (* if (ranks[j] != isect) continue; *)
        if (n_ang <? nsmax)%nat then (c, true) :: nsmax_pass isect nsmax (S n_ang) r
        else (c, false) :: nsmax_pass isect nsmax n_ang r
      else (c, alive) :: nsmax_pass isect nsmax n_ang r
  end.
Definition sector_nsmax (nsect nsmax : nat) (l : st) : st :=
  fold_left (fun acc isect => nsmax_pass isect nsmax 0 acc) (seq 0 nsect) l.

(* ------------------------------------------------------------------ _movingSelect *)
Definition count_sect (isect : nat) (l : st) : nat :=
  length (filter (fun ca => snd ca && (c_sect (fst ca) =? isect)%nat) l).
Definition count_alive (l : st) : nat := length (filter (fun ca => snd ca) l).
Definition sect_counts (nsect : nat) (l : st) : list nat := map (fun s => count_sect s l) (seq 0 nsect).

(* one execution of "for (isect...)" inside the while; returns the new _movingIsect and number *)
Fixpoint rr_pass (nmaxi : nat) (cs isv : list nat) (number : nat) : list nat * nat :=
  match cs, isv with
  | c :: cs', i :: is' =>
      if (c <=? i)%nat then                                   (* if (Isect >= Nsect) continue; *)
        let '(r, n') := rr_pass nmaxi cs' is' number in (i :: r, n')
      else if (nmaxi <=? S number)%nat then (S i :: is', S number)   (* ++; if (number >= nmaxi) break; *)
      else let '(r, n') := rr_pass nmaxi cs' is' (S number) in (S i :: r, n')
  | _, _ => (isv, number)
  end.
(* while (number < nmaxi) ... on explicit fuel; None = out of fuel (proved unreachable) *)
Fixpoint rr_loop (fuel nmaxi : nat) (cs isv : list nat) (number : nat) : option (list nat) :=
  if (nmaxi <=? number)%nat then Some isv
  else match fuel with
       | O => None
       | S f => let '(is', n') := rr_pass nmaxi cs isv number in rr_loop f nmaxi cs is' n'
       end.
Definition alloc (nmaxi : nat) (cs : list nat) : option (list nat) :=
  rr_loop nmaxi nmaxi cs (map (fun _ => 0%nat) cs) 0.

(* "Discard the data beyond the admissible rank per sector" *)
Fixpoint discard_pass (isect quota number : nat) (l : st) : st :=
  match l with
  | [] => []
  | (c, alive) :: r =>
      if alive && (c_sect c =? isect)%nat then
        if (quota <? S number)%nat then (c, false) :: discard_pass isect quota (S number) r
        else (c, true) :: discard_pass isect quota (S number) r
      else (c, alive) :: discard_pass isect quota number r
  end.
Fixpoint discard_all (isect : nat) (cs isv : list nat) (l : st) : st :=
  match cs, isv with
  | c :: cs', i :: is' =>
      discard_all (S isect) cs' is' (if (c <=? i)%nat then l else discard_pass isect i 0 l)
  | _, _ => l
  end.

(* result: None = fuel exhausted (unreachable) *)
Definition moving_select (nmaxi : Z) (nsect : nat) (l : st) : option st :=
  if (nmaxi <=? 0)%Z then Some l                         (* if (getNMaxi() <= 0) return; *)
  else
    let nm := Z.to_nat nmaxi in
    let cs := sect_counts nsect l in
    if (count_alive l <? nm)%nat then Some l              (* if (number < getNMaxi()) return; *)
    else match alloc nm cs with
         | None => None
         | Some isv => Some (discard_all 0 cs isv l)
         end.

(* ------------------------------------------------------------------ _neighCompress *)
Definition alive_idx (l : st) : list nat := map (fun ca => c_idx (fst ca)) (filter (fun ca => snd ca) l).
Definition compress (nech : nat) (sel : list nat) : list nat :=
  filter (fun i => existsb (Nat.eqb i) sel) (seq 0 nech).

(* ------------------------------------------------------------------ _moving + getNeigh *)
(* exit code: 0 = neighbourhood returned; 1 = nech < nmini; 2 = nsel < nmini;
   3 = the test after _movingSectorNsmax (it re-tests the SAME nsel: the callee takes nsel by value);
   4 = out of fuel.  [ranks] of getNeigh is [] whenever code <> 0. *)
Record result := { r_code : Z; r_sorted : st; r_ranks : list nat }.
Definition fail (c : Z) : result := {| r_code := c; r_sorted := []; r_ranks := [] |}.

Definition moving_from (p : params) (nech : nat) (cands : list cand) : result :=
  let nsel := length cands in
  if (Z.of_nat nsel <? p_nmini p)%Z then fail 2
  else
    let sorted := map (fun c => (c, true)) (sort_cands cands) in
    let after_nsmax :=
      if flag_sector p && (0 <? p_nsmax p)%Z
      then sector_nsmax (p_nsect p) (Z.to_nat (p_nsmax p)) sorted else sorted in
    if (flag_sector p && (0 <? p_nsmax p)%Z) && (Z.of_nat nsel <? p_nmini p)%Z then fail 3
    else match moving_select (p_nmaxi p) (p_nsect p) after_nsmax with
         | None => fail 4
         | Some fin => {| r_code := 0; r_sorted := fin; r_ranks := compress nech (alive_idx fin) |}
         end.

Definition moving (p : params) (t : target) (samples : list sample) : result :=
  let nech := length samples in
  if (Z.of_nat nech <? p_nmini p)%Z then fail 1
  else moving_from p nech (cand_loop p t (enum samples)).

(* ------------------------------------------------------------------ ball-tree path of _moving
   elligibles = getBall().getIndices(_T1, _nMaxi); the loop runs over them, WITHOUT the isActive test *)
Definition cand_of_ball (p : params) (t : target) (is : nat * sample) : option cand :=
  cand_of p t (fst is, {| s_active := true; s_coords := s_coords (snd is);
                          s_vars := s_vars (snd is); s_code := s_code (snd is) |}).
Fixpoint cand_loop_ball (p : params) (t : target) (l : list (nat * sample)) : list cand :=
  match l with
  | [] => []
  | is :: r => match cand_of_ball p t is with
               | Some c => c :: cand_loop_ball p t r
               | None => cand_loop_ball p t r
               end
  end.
Definition dummy_sample : sample := {| s_active := false; s_coords := []; s_vars := []; s_code := None |}.
Definition moving_ball (p : params) (t : target) (samples : list sample) (elligibles : list nat) : result :=
  if (Z.of_nat (length samples) <? p_nmini p)%Z then fail 1
  else moving_from p (length samples)
         (cand_loop_ball p t (map (fun i => (i, nth i samples dummy_sample)) elligibles)).

(* ------------------------------------------------------------------ samples with undefined coordinates / drifts
   ANeigh::_discardUndefined (ANeigh.cpp:352, as of fix C05_4): a sample with an undefined coordinate or an
   undefined external drift is discarded, then the rule on the variables applies *)
Definition discard_undefined_x (x : xsample) : bool :=
  negb (forallb is_def (x_coords x)) || negb (forallb is_def (x_fext x)) || discard_undefined (x_total x).
Definition cand_of_x (p : params) (t : target) (ix : nat * xsample) : option cand :=
  let x := snd ix in
  if negb (x_active x) then None                      (* if (!_dbin->isActive(iech)) continue; *)
  else if discard_undefined_x x then None             (* if (_discardUndefined(iech)) continue; *)
  else cand_of p t (fst ix, x_total x).               (* rest of the loop body, on defined coordinates *)
Fixpoint cand_loop_x (p : params) (t : target) (l : list (nat * xsample)) : list cand :=
  match l with
  | [] => []
  | ix :: r => match cand_of_x p t ix with
               | Some c => c :: cand_loop_x p t r
               | None => cand_loop_x p t r
               end
  end.
Definition moving_x (p : params) (t : target) (xs : list xsample) : result :=
  let nech := length xs in
  if (Z.of_nat nech <? p_nmini p)%Z then fail 1
  else moving_from p nech (cand_loop_x p t (enum xs)).

Definition cand_of_ball_x (p : params) (t : target) (ix : nat * xsample) : option cand :=
  if discard_undefined_x (snd ix) then None else cand_of_ball p t (fst ix, x_total (snd ix)).
Fixpoint cand_loop_ball_x (p : params) (t : target) (l : list (nat * xsample)) : list cand :=
  match l with
  | [] => []
  | ix :: r => match cand_of_ball_x p t ix with
               | Some c => c :: cand_loop_ball_x p t r
               | None => cand_loop_ball_x p t r
               end
  end.
Definition dummy_xsample : xsample :=
  {| x_active := false; x_coords := []; x_fext := []; x_vars := []; x_code := None |}.
Definition moving_ball_x (p : params) (t : target) (xs : list xsample) (elligibles : list nat) : result :=
  if (Z.of_nat (length xs) <? p_nmini p)%Z then fail 1
  else moving_from p (length xs)
         (cand_loop_ball_x p t (map (fun i => (i, nth i xs dummy_xsample)) elligibles)).

(* ------------------------------------------------------------------ _moving with the ball-tree shortcut, as committed
   (NeighMoving.cpp, fix 4a434731b): the tree is used only when
     useBall = _useBallSearch && !getFlagXvalid() && !getFlagSector() && _bipts.empty() && !getFlagRotation()
               && VH::isConstant(getAnisoCoeffs()) && _dbin->getNDim() == _biPtDist->getNDim()
               && _nMaxi > 0 && _nMaxi <= nech && _nMini <= _nMaxi
   and none of the samples returned by getBall().getIndices(_T1, _nMaxi) is masked or discarded by
   _discardUndefined; otherwise the standard loop runs.  [moving_ball_x] above is the body of the shortcut. *)
Definition coeffs_constant (p : params) : bool :=      (* _anisoCoeffs is (1,1) when no coefficient was given *)
  if p_aniso p then match p_coeffs p with [] => false | c :: r => forallb (fun x => qeqb x c) (c :: r) end else true.
Definition ball_premise (useball : bool) (p : params) (nech : nat) : bool :=
  useball && negb (p_xvalid p) && negb (flag_sector p) &&
  (match p_checkers p with [] => true | _ => false end) &&
  negb (p_rot p) && coeffs_constant p && (p_ndim p =? p_nd p)%nat &&
  (0 <? p_nmaxi p)%Z && (p_nmaxi p <=? Z.of_nat nech)%Z && (p_nmini p <=? p_nmaxi p)%Z.
Definition ball_scan (xs : list xsample) (elligibles : list nat) : bool :=
  forallb (fun i => let x := nth i xs dummy_xsample in x_active x && negb (discard_undefined_x x)) elligibles.
Definition ball_taken (useball : bool) (p : params) (xs : list xsample) (elligibles : list nat) : bool :=
  ball_premise useball p (length xs) && ball_scan xs elligibles.
Definition moving_fixed_x (useball : bool) (p : params) (t : target) (xs : list xsample) (elligibles : list nat) : result :=
  let nech := length xs in
  if (Z.of_nat nech <? p_nmini p)%Z then fail 1
  else if ball_taken useball p xs elligibles
       then moving_from p nech (cand_loop_ball_x p t (map (fun i => (i, nth i xs dummy_xsample)) elligibles))
       else moving_from p nech (cand_loop_x p t (enum xs)).

End Moving.

(* ------------------------------------------------------------------ NeighMoving::summary  (NeighMoving.cpp:406)
   for a freshly attached neighbourhood and one target (the member arrays hold what select() left):
   tab[0] = number of ranks; tab[1], tab[2] = max / min of _movingDst[0 .. nsel) -- the FIRST nsel entries of
   the sorted candidate distances, whatever samples were kept --; tab[3], tab[4] from _movingNsect, which
   _movingSelect fills BEFORE the round-robin reduction and does not touch when nmaxi <= 0 or after an exit. *)
Definition stage_nsmax (p : params) (cands : list cand) : st :=
  let sorted := map (fun c => (c, true)) (sort_cands cands) in
  if flag_sector p && (0 <? p_nsmax p)%Z
  then sector_nsmax (p_nsect p) (Z.to_nat (p_nsmax p)) sorted else sorted.
Definition moving_nsect (p : params) (cands : list cand) : list nat :=
  if (Z.of_nat (length cands) <? p_nmini p)%Z || (p_nmaxi p <=? 0)%Z then repeat 0%nat (p_nsect p)
  else sect_counts (p_nsect p) (stage_nsmax p cands).
Definition omax (a : option Q) (x : Q) : option Q :=
  match a with None => Some x | Some y => Some (if qltb y x then x else y) end.
Definition omin (a : option Q) (x : Q) : option Q :=
  match a with None => Some x | Some y => Some (if qltb x y then x else y) end.
(* the loop over sectors, then the extra step on sector 0 *)
Definition cempty_step (st : nat * nat) (c : nat) : nat * nat :=
  let '(n_empty, number) := st in
  if (0 <? c)%nat then (0%nat, number)
  else (S n_empty, if (number <? S n_empty)%nat then S n_empty else number).
Definition cempty (counts : list nat) : nat :=
  let st := fold_left cempty_step counts (0%nat, 0%nat) in
  snd (match counts with [] => st | c0 :: _ => cempty_step st c0 end).
Record summary := { sm_number : nat; sm_max2 : option Q; sm_min2 : option Q; sm_nonempty : nat; sm_cempty : nat }.
(* [res] = result of the selection, [cands] = the candidates it was computed from; squared distances *)
Definition moving_summary (p : params) (cands : list cand) (res : result) : summary :=
  let nsel := length (r_ranks res) in
  let dst := firstn nsel (map c_d2 (sort_cands cands)) in
  let counts := moving_nsect p cands in
  {| sm_number := nsel;
     sm_max2 := fold_left omax dst None; sm_min2 := fold_left omin dst None;
     sm_nonempty := length (filter (fun c => (0 <? c)%nat) counts);
     sm_cempty := cempty counts |}.

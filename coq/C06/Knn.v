(* C06 model, part B: executable mirror of the ball tree
     btree_init / recursive_build / init_node / find_node_split_dim / partition_node_indices
                                                   /repo/src/Tree/ball_algorithm.cpp:264,208,118,145,173
     min_dist / query_depth_first                  ball_algorithm.cpp:314,320
     nheap_init / nheap_largest / nheap_push / simultaneous_sort / nheap_load / nheap_sort
                                                   /repo/src/Tree/neighbors_heap.cpp:41,84,89,142,72,186
     KNN::_query (argument checks)                 /repo/src/Tree/KNN.cpp:50
   The implicit heap-numbered node array is rendered by a tree whose leaves sit at depth n_levels-1
   (node i is a leaf iff 2i+1 >= n_nodes = 2^n_levels - 1).  The part of the global index array that precedes a node's range is passed along
   because find_node_split_dim reads that array FROM ITS START (not from the node's own range).  INFINITY is [None].  No proofs here. *)
From Coq Require Import List ZArith QArith Qabs Bool Arith.
From Gst Require Import lib.QAux.
Import ListNotations.
Local Open Scope Q_scope.

Definition pt := list Q.
Definition ext := option Q.                       (* None = +infinity *)
Definition entry := (ext * nat)%type.             (* (distance, index) *)

Definition knthQ (l : list Q) (i : nat) : Q := nth i l 0.
Fixpoint ksumQ (l : list Q) : Q := match l with [] => 0 | x :: r => x + ksumQ r end.
Definition qmax (a b : Q) : Q := if qltb a b then b else a.   (* fmax *)
Definition qmin (a b : Q) : Q := if qltb b a then b else a.   (* fmin *)

(* comparisons with INFINITY *)
Definition ext_lt (a b : ext) : bool :=
  match a, b with
  | Some x, Some y => qltb x y
  | Some _, None => true
  | None, _ => false
  end.
Definition ext_le (a b : ext) : bool := negb (ext_lt b a).

(* manhattan_distance (ball_algorithm.cpp:424) *)
Fixpoint manhattan (a b : pt) : Q :=
  match a, b with
  | x :: a', y :: b' => Qabs (x - y) + manhattan a' b'
  | _, _ => 0
  end.

(* array helpers on lists *)
Definition set_nth {A} (l : list A) (i : nat) (x : A) : list A :=
  firstn i l ++ match skipn i l with [] => [] | _ :: r => x :: r end.
(* swap / dual_swap: the indices are always inside the array in the C code (outside it would be undefined
   behaviour); the model is total and leaves the array unchanged there *)
Definition swap (l : list nat) (i j : nat) : list nat :=
  if (i =? j)%nat || negb ((i <? length l)%nat && (j <? length l)%nat) then l
  else set_nth (set_nth l i (nth j l 0%nat)) j (nth i l 0%nat).

Inductive tree :=
| Leaf (c : pt) (r : Q) (idxs : list nat)
| Node (c : pt) (r : Q) (t1 t2 : tree).
Definition t_centroid (t : tree) : pt := match t with Leaf c _ _ => c | Node c _ _ _ => c end.
Definition t_radius (t : tree) : Q := match t with Leaf _ r _ => r | Node _ r _ _ => r end.

Section Ball.
Variable dist : pt -> pt -> Q.       (* st_distance_function *)
Variable nfeat : nat.
Variable data : list pt.
Definition getp (i : nat) : pt := nth i data [].

(* ------------------------------------------------------------------ init_node *)
Definition centroid (idxs : list nat) : pt :=
  map (fun j => ksumQ (map (fun i => knthQ (getp i) j) idxs) / inject_Z (Z.of_nat (length idxs))) (seq 0 nfeat).
Definition radius_of (c : pt) (idxs : list nat) : Q :=
  fold_left (fun r i => qmax r (dist c (getp i))) idxs 0.

(* ------------------------------------------------------------------ find_node_split_dim
   called with b->idx_array (the START of the global array) and n_points *)
Definition spread (pts : list nat) (j : nat) : Q :=
  match pts with
  | [] => 0
  | i0 :: r => let v0 := knthQ (getp i0) j in
               fold_left (fun m i => qmax m (knthQ (getp i) j)) r v0 -
               fold_left (fun m i => qmin m (knthQ (getp i) j)) r v0
  end.
Definition split_dim (arr : list nat) (n_points : nat) : nat :=
  fst (fold_left (fun jm j => let s := spread (firstn n_points arr) j in
                              if qltb (snd jm) s then (j, s) else jm) (seq 0 nfeat) (0%nat, 0)).

(* ------------------------------------------------------------------ partition_node_indices (Lomuto quick-select) *)
Fixpoint lomuto_for (key : nat -> Q) (a : list nat) (pivot : Q) (i cnt mid : nat) : list nat * nat :=
  match cnt with
  | O => (a, mid)
  | S c => if qltb (key (nth i a 0%nat)) pivot
           then lomuto_for key (swap a i mid) pivot (S i) c (S mid)
           else lomuto_for key a pivot (S i) c mid
  end.
Fixpoint qselect (fuel : nat) (key : nat -> Q) (a : list nat) (left right split : nat) : list nat :=
  match fuel with
  | O => a
  | S f =>
      let '(a1, mid) := lomuto_for key a (key (nth right a 0%nat)) left (right - left) left in
      let a2 := swap a1 mid right in
      if (mid =? split)%nat then a2
      else if (mid <? split)%nat then qselect f key a2 (S mid) right split
      else qselect f key a2 left (mid - 1) split
  end.

(* ------------------------------------------------------------------ recursive_build
   [cur] is the node's range idx_array[idx_start..idx_end) and [prefix] the part of the global array before
   it (already rearranged by the nodes built earlier): find_node_split_dim(b->data, b->idx_array, ...) reads
   the first n_points entries of the GLOBAL array.  Returns the node and its rearranged range. *)
Fixpoint build (depth : nat) (prefix cur : list nat) : tree * list nat :=
  let c := centroid cur in
  let r := radius_of c cur in
  match depth with
  | O => (Leaf c r cur, cur)                                  (* 2*i_node+1 >= n_nodes *)
  | S d =>
      let n := length cur in
      if (n <? 2)%nat then (Leaf c r cur, cur)                (* "too many nodes allocated" *)
      else
        let nmid := Nat.div2 n in
        let dim := split_dim (prefix ++ cur) n in
        let sub := qselect n (fun i => knthQ (getp i) dim) cur 0 (n - 1) nmid in
        let '(t1, lft) := build d prefix (firstn nmid sub) in
        let '(t2, rgt) := build d (prefix ++ lft) (skipn nmid sub) in
        (Node c r t1 t2, lft ++ rgt)
  end.

(* btree_init: n_levels = log2(fmax(1,(n-1)/leaf_size)) + 1 ; leaves at depth n_levels - 1 *)
Definition tree_depth (n leaf : Z) : nat := Z.to_nat (Z.log2 (Z.max 1 (Z.quot (n - 1) leaf))).
Definition btree_init (leaf : Z) : tree :=
  let n := length data in
  fst (build (tree_depth (Z.of_nat n) leaf) [] (seq 0 n)).

(* ------------------------------------------------------------------ neighbors heap *)
Definition heap := list entry.
Definition hget (h : heap) (i : nat) : entry := nth i h (None, 0%nat).
Definition nheap_init (k : nat) : heap := repeat (None, 0%nat) k.
Definition nheap_largest (h : heap) : ext := fst (hget h 0).

(* the sift-down loop of nheap_push; position i is the hole that will receive (val, i_val) *)
Fixpoint sift (fuel : nat) (h : heap) (i : nat) (val : ext) (i_val : nat) : heap :=
  match fuel with
  | O => set_nth h i (val, i_val)
  | S f =>
      let size := length h in
      let ic1 := (2 * i + 1)%nat in
      let ic2 := (ic1 + 1)%nat in
      if (size <=? ic1)%nat then set_nth h i (val, i_val)
      else if (size <=? ic2)%nat then
        (if ext_lt val (fst (hget h ic1)) then sift f (set_nth h i (hget h ic1)) ic1 val i_val
         else set_nth h i (val, i_val))
      else if ext_le (fst (hget h ic2)) (fst (hget h ic1)) then
        (if ext_lt val (fst (hget h ic1)) then sift f (set_nth h i (hget h ic1)) ic1 val i_val
         else set_nth h i (val, i_val))
      else
        (if ext_lt val (fst (hget h ic2)) then sift f (set_nth h i (hget h ic2)) ic2 val i_val
         else set_nth h i (val, i_val))
  end.
Definition nheap_push (h : heap) (val : Q) (i_val : nat) : heap :=
  if ext_lt (nheap_largest h) (Some val) then h          (* if (val > dist_arr[0]) return *)
  else sift (length h) (set_nth h 0 (Some val, i_val)) 0 (Some val) i_val.

(* ------------------------------------------------------------------ query_depth_first *)
Definition min_dist (t : tree) (q : pt) : Q := qmax 0 (dist q (t_centroid t) - t_radius t).
Definition scan_leaf (q : pt) (idxs : list nat) (h : heap) : heap :=
  fold_left (fun h i => let dp := dist q (getp i) in
                        if ext_lt (Some dp) (nheap_largest h) then nheap_push h dp i else h) idxs h.
Fixpoint qdf (t : tree) (q : pt) (d : Q) (h : heap) : heap :=
  if ext_lt (nheap_largest h) (Some d) then h                 (* case 1: trimmed *)
  else match t with
       | Leaf _ _ idxs => scan_leaf q idxs h                   (* case 2 *)
       | Node _ _ t1 t2 =>                                     (* case 3: closer child first *)
           let d1 := min_dist t1 q in
           let d2 := min_dist t2 q in
           if qleb d1 d2 then qdf t2 q d2 (qdf t1 q d1 h) else qdf t1 q d1 (qdf t2 q d2 h)
       end.
Definition nheap_load (t : tree) (k : nat) (q : pt) : heap := qdf t q (min_dist t q) (nheap_init k).

(* ------------------------------------------------------------------ simultaneous_sort *)
Definition eswap (l : heap) (i j : nat) : heap :=
  if (i =? j)%nat || negb ((i <? length l)%nat && (j <? length l)%nat) then l
  else set_nth (set_nth l i (hget l j)) j (hget l i).
Definition egt (l : heap) (i j : nat) : bool := ext_lt (fst (hget l j)) (fst (hget l i)).   (* dist[i] > dist[j] *)
Fixpoint part_for (l : heap) (pivot : ext) (i cnt store : nat) : heap * nat :=
  match cnt with
  | O => (l, store)
  | S c => if ext_lt (fst (hget l i)) pivot
           then part_for (eswap l i store) pivot (S i) c (S store)
           else part_for l pivot (S i) c store
  end.
Fixpoint ssort (fuel : nat) (l : heap) : heap :=
  match fuel with
  | O => l
  | S f =>
      let size := length l in
      if (size <=? 1)%nat then l
      else if (size =? 2)%nat then (if egt l 0 1 then eswap l 0 1 else l)
      else if (size =? 3)%nat then
        let l1 := if egt l 0 1 then eswap l 0 1 else l in
        if egt l1 1 2 then let l2 := eswap l1 1 2 in (if egt l2 0 1 then eswap l2 0 1 else l2) else l1
      else
        let pi := Nat.div2 size in
        let l1 := if egt l 0 (size - 1) then eswap l 0 (size - 1) else l in
        let l3 := if egt l1 (size - 1) pi
                  then let l2 := eswap l1 (size - 1) pi in (if egt l2 0 (size - 1) then eswap l2 0 (size - 1) else l2)
                  else l1 in
        let pivot := fst (hget l3 (size - 1)) in
        let '(l4, store) := part_for l3 pivot 0 (size - 1) 0 in
        let l5 := eswap l4 store (size - 1) in
        let left := firstn store l5 in
        let mid := hget l5 store in
        let right := skipn (S store) l5 in
        let left' := if (1 <? store)%nat then ssort f left else left in
        let right' := if (store + 2 <? size)%nat then ssort f right else right in   (* pivot_idx + 2 < size *)
        left' ++ mid :: right'
  end.

(* ------------------------------------------------------------------ KNN::_query for one query point *)
Definition knn_query (t : tree) (k : nat) (q : pt) : option heap :=
  if (length data <? k)%nat then None                          (* 'n_neigh' must be <= number of training points *)
  else let h := nheap_load t k q in Some (ssort (length h) h).

End Ball.

(* ------------------------------------------------------------------ spec: exhaustive search *)
(* (distance, index) pairs in increasing lexicographic order, first k *)
Definition pair_le (a b : Q * nat) : bool :=
  qltb (fst a) (fst b) || (qeqb (fst a) (fst b) && (snd a <=? snd b)%nat).
Fixpoint pinsert (x : Q * nat) (l : list (Q * nat)) : list (Q * nat) :=
  match l with
  | [] => [x]
  | y :: r => if pair_le x y then x :: y :: r else y :: pinsert x r
  end.
Definition knn_spec (dist : pt -> pt -> Q) (data : list pt) (k : nat) (q : pt) : list (Q * nat) :=
  firstn k (fold_right pinsert [] (combine (map (dist q) data) (seq 0 (length data)))).

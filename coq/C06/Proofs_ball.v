(* C06 proofs, part C: the ball-tree shortcut of _moving as committed (premise + scan of the samples returned).
   Whenever it is taken, and the eligible list is what the tree delivers (the nmaxi samples strictly nearest to
   the target), the ranks returned are those of the standard search. *)
From Coq Require Import List ZArith QArith Bool Arith Lqa Lia Permutation Sorting.Sorted.
From Gst Require Import lib.QAux C06.Model C06.Spec C06.Proofs C06.Proofs_select C06.Proofs_moving.
Import ListNotations.

(* ------------------------------------------------------------------ list facts *)
Lemma filter_perm' {A} (f : A -> bool) l l' : Permutation l l' -> Permutation (filter f l) (filter f l').
Proof.
  intro H. induction H; cbn [filter].
  - apply Permutation_refl.
  - destruct (f x); [apply perm_skip|]; assumption.
  - destruct (f x); destruct (f y); try apply perm_swap; apply Permutation_refl.
  - eapply perm_trans; eassumption.
Qed.

(* a sorted list in which every element satisfying P is strictly smaller than every element that does not
   starts with its P-elements *)
Lemma sorted_partition (P : cand -> bool) (S : list cand) :
  StronglySorted (fun a b => c_d2 a <= c_d2 b) S ->
  (forall x y, In x S -> In y S -> P x = true -> P y = false -> c_d2 x < c_d2 y) ->
  firstn (length (filter P S)) S = filter P S.
Proof.
  intros HS Hsep. induction HS as [|s S' HS' IH Hall].
  - reflexivity.
  - cbn [filter]. destruct (P s) eqn:Ps.
    + cbn [length firstn]. f_equal. apply IH. intros x y Hx Hy. apply Hsep; right; assumption.
    + assert (E : filter P S' = []).
      { destruct (filter P S') as [|x r] eqn:F; [reflexivity|exfalso].
        assert (Hx : In x (filter P S')) by (rewrite F; left; reflexivity).
        apply filter_In in Hx. destruct Hx as [Hx Px].
        pose proof (Hsep x s (or_intror Hx) (or_introl eq_refl) Px Ps) as L.
        rewrite Forall_forall in Hall. specialize (Hall x Hx). lra. }
      rewrite E. reflexivity.
Qed.

Lemma NoDup_same_length (l1 l2 : list nat) : NoDup l1 -> NoDup l2 -> incl l1 l2 -> incl l2 l1 -> length l1 = length l2.
Proof.
  intros N1 N2 I1 I2. apply Nat.le_antisymm; apply NoDup_incl_length; assumption.
Qed.

Lemma sumN_only_first l : (forall k, (1 <= k)%nat -> nth k l 0%nat = 0%nat) -> sumN l = nth 0 l 0%nat.
Proof.
  destruct l as [|a r]; intro H; [reflexivity|]. rewrite sumN_cons. cbn [nth].
  assert (Z : sumN r = 0%nat).
  { assert (H' : forall k, nth k r 0%nat = 0%nat) by (intro k; apply (H (S k)); lia).
    clear H. induction r as [|b r IH]; [reflexivity|]. rewrite sumN_cons.
    rewrite (H' 0%nat : b = 0%nat). cbn. apply IH. intro k. apply (H' (S k)). }
  lia.
Qed.

(* ------------------------------------------------------------------ everything in sector 0: the nmaxi closest *)
Lemma in_sect_other l s : (forall c, In c l -> c_sect c = 0%nat) -> (1 <= s)%nat -> in_sect s l = [].
Proof.
  intros H Hs. unfold in_sect. induction l as [|c r IH]; [reflexivity|]. cbn [filter].
  rewrite (H c (or_introl eq_refl)). destruct s; [lia|]. cbn. apply IH. intros x Hx. apply H. right. exact Hx.
Qed.

Lemma moving_sector0 p nech cands :
  flag_sector p = false -> (1 <= p_nsect p)%nat -> (0 < p_nmaxi p)%Z ->
  (forall c, In c cands -> c_sect c = 0%nat) ->
  (p_nmini p <= Z.of_nat (length cands))%Z ->
  r_ranks (moving_from p nech cands) =
  compress nech (map c_idx (firstn (Z.to_nat (p_nmaxi p)) (sort_cands cands))).
Proof.
  intros Hfs Hns Hmax H0 Hmini.
  assert (Hb : forall c, In c cands -> (c_sect c < p_nsect p)%nat) by (intros c Hc; rewrite (H0 c Hc); lia).
  destruct (moving_from_spec p nech cands Hns Hb Hmini) as [fin [quota [E [Hc [Hq [Hs _]]]]]].
  rewrite E. cbn [r_ranks]. f_equal.
  assert (Hs0 : forall c, In c (sort_cands cands) -> c_sect c = 0%nat).
  { intros c Hc'. apply H0. apply (Permutation_in _ (sort_cands_perm cands)). exact Hc'. }
  unfold alive_idx. rewrite <- map_map. f_equal.
  rewrite alive_all_sector0 by (rewrite Hc; exact Hs0).
  rewrite Hs by lia. rewrite in_sect_all0 by exact Hs0.
  set (S := sort_cands cands) in *.
  assert (Hna : nsmax_active p = false) by (unfold nsmax_active; rewrite Hfs; reflexivity).
  unfold quota_ok in Hq. rewrite Hna in Hq.
  set (counts := map (fun s => length (in_sect s S)) (seq 0 (p_nsect p))) in *.
  assert (Ec1 : map (fun c : nat => c) counts = counts) by apply map_id.
  rewrite Ec1 in Hq.
  assert (Hc0 : nth 0 counts 0%nat = length S).
  { unfold counts. destruct (p_nsect p) as [|m]; [lia|]. cbn [seq map nth]. rewrite in_sect_all0 by exact Hs0. reflexivity. }
  assert (Hck : forall k, (1 <= k)%nat -> nth k counts 0%nat = 0%nat).
  { intros k Hk. unfold counts. destruct (Nat.lt_ge_cases k (p_nsect p)) as [L|L].
    - rewrite (nth_indep _ 0%nat ((fun s => length (in_sect s S)) 0%nat)) by (rewrite map_length, seq_length; exact L).
      rewrite (map_nth (fun s => length (in_sect s S))), seq_nth by exact L. cbn [Nat.add].
      rewrite in_sect_other by (try exact Hs0; exact Hk). reflexivity.
    - apply nth_overflow. rewrite map_length, seq_length. exact L. }
  assert (Hsum : sumN counts = length S) by (rewrite sumN_only_first by exact Hck; exact Hc0).
  rewrite (proj2 (Z.leb_gt _ _) Hmax) in Hq. cbn [orb] in Hq. rewrite Hsum in Hq.
  destruct (length S <? Z.to_nat (p_nmaxi p))%nat eqn:B.
  - subst quota. rewrite Hc0, firstn_all. apply Nat.ltb_lt in B. symmetry. apply firstn_all2. lia.
  - destruct Hq as [turn [j [Hj [-> Hsm]]]].
    rewrite sumN_only_first in Hsm.
    + rewrite Hsm. reflexivity.
    + intros k Hk. pose proof (rr_shape_le counts turn j k) as L. rewrite (Hck k Hk) in L. lia.
Qed.

(* ------------------------------------------------------------------ the shortcut *)
Section Shortcut.
Variable oracle : Q -> Q -> nat.
Variable p : params.
Variable t : target.
Variable xs : list xsample.
Variable ell : list nat.
Let n := length xs.
Let X (i : nat) : xsample := nth i xs dummy_xsample.
Let nm := Z.to_nat (p_nmaxi p).
Let d2 (i : nat) : Q := dist2 p t (x_total (X i)).
Let mk (i : nat) : cand := mk_cand oracle p t (i, x_total (X i)).
Let adm (i : nat) : bool := admissible_x_b p t (X i).

Hypothesis Hnsect : (1 <= p_nsect p)%nat.
Hypothesis Hprem : ball_premise true p n = true.
Hypothesis Hscan : ball_scan xs ell = true.
(* what Ball::getIndices delivers (C06_knn), ties excluded: nmaxi distinct samples, each strictly nearer than
   every sample left out *)
Hypothesis Hnd : NoDup ell.
Hypothesis Hlen : length ell = nm.
Hypothesis Hin : forall i, In i ell -> (i < n)%nat.
Hypothesis Hsep : forall i j, In i ell -> (j < n)%nat -> ~ In j ell -> d2 i < d2 j.

Lemma prem_facts :
  p_xvalid p = false /\ flag_sector p = false /\ p_checkers p = [] /\
  (0 < p_nmaxi p)%Z /\ (p_nmaxi p <= Z.of_nat n)%Z /\ (p_nmini p <= p_nmaxi p)%Z.
Proof.
  pose proof Hprem as H. unfold ball_premise in H. cbn [andb] in H.
  apply andb_true_iff in H. destruct H as [H Hi].
  apply andb_true_iff in H. destruct H as [H Hh].
  apply andb_true_iff in H. destruct H as [H Hg].
  apply andb_true_iff in H. destruct H as [H Hf].
  apply andb_true_iff in H. destruct H as [H He].
  apply andb_true_iff in H. destruct H as [H Hd].
  apply andb_true_iff in H. destruct H as [H Hc].
  apply andb_true_iff in H. destruct H as [Ha Hb].
  apply negb_true_iff in Ha, Hb.
  destruct (p_checkers p); [|discriminate].
  apply Z.ltb_lt in Hg. apply Z.leb_le in Hh, Hi. repeat split; try assumption; reflexivity.
Qed.

Lemma mk_facts i : c_idx (mk i) = i /\ c_d2 (mk i) = d2 i /\ c_sect (mk i) = 0%nat.
Proof.
  destruct prem_facts as [_ [Hfs _]]. unfold mk, mk_cand. cbn [c_idx c_d2 c_sect fst snd]. rewrite Hfs.
  repeat split; reflexivity.
Qed.

Lemma adm_ell i : In i ell -> adm i = within p (d2 i).
Proof.
  intro Hi. destruct prem_facts as [Hxv [_ [Hck _]]].
  unfold ball_scan in Hscan. rewrite forallb_forall in Hscan. specialize (Hscan i Hi). cbv zeta in Hscan. fold (X i) in Hscan.
  apply andb_true_iff in Hscan. destruct Hscan as [Ha Hd]. apply negb_true_iff in Hd.
  unfold discard_undefined_x in Hd. apply orb_false_iff in Hd. destruct Hd as [Hd Hd3].
  apply orb_false_iff in Hd. destruct Hd as [Hd1 Hd2]. apply negb_false_iff in Hd1, Hd2.
  unfold adm, admissible_x_b, admissible_b. rewrite Hd1, Hd2. cbn [andb x_total s_active]. rewrite Ha, Hd3. cbn [negb andb].
  unfold xvalid. rewrite Hxv. cbn [negb andb]. unfold checks_ok. rewrite Hck. cbn [forallb andb]. reflexivity.
Qed.

Lemma within_mono a b : within p b = true -> a <= b -> within p a = true.
Proof.
  unfold within. destruct (p_radius p) as [r|]; [|reflexivity].
  rewrite !andb_true_iff, !qleb_true. intros [H1 H2] H3. split; [exact H1|lra].
Qed.
Lemma adm_within i : adm i = true -> within p (d2 i) = true.
Proof. unfold adm, admissible_x_b, admissible_b. rewrite !andb_true_iff. intros [_ [_ H]]. exact H. Qed.

Definition IA : list nat := filter adm (seq 0 n).
Definition IB : list nat := filter adm ell.

Lemma IA_in i : In i IA <-> (i < n)%nat /\ adm i = true.
Proof. unfold IA. rewrite filter_In, in_seq. split; intros [H1 H2]; split; try assumption; lia. Qed.
Lemma IB_in i : In i IB <-> In i ell /\ adm i = true.
Proof. unfold IB. apply filter_In. Qed.
Lemma IA_nodup : NoDup IA.
Proof. unfold IA. apply NoDup_filter, seq_NoDup. Qed.
Lemma IB_nodup : NoDup IB.
Proof. unfold IB. apply NoDup_filter, Hnd. Qed.

(* the candidate lists of the two paths *)
Lemma cands_std : cand_loop_x oracle p t (enum xs) = map mk IA.
Proof.
  rewrite cand_loop_x_filter. rewrite (enum_as_map xs dummy_xsample). fold n.
  unfold IA, mk, adm, X. induction (seq 0 n) as [|i r IH]; [reflexivity|].
  cbn [map filter snd fst]. destruct (admissible_x_b p t (nth i xs dummy_xsample)); cbn [map]; rewrite IH; reflexivity.
Qed.

Lemma cands_ball : cand_loop_ball_x oracle p t (map (fun i => (i, nth i xs dummy_xsample)) ell) = map mk IB.
Proof.
  unfold IB.
  assert (G : forall l, (forall i, In i l -> In i ell) ->
             cand_loop_ball_x oracle p t (map (fun i => (i, nth i xs dummy_xsample)) l) = map mk (filter adm l)).
  { induction l as [|i r IH]; intro Hl; [reflexivity|].
    cbn [map cand_loop_ball_x filter].
    assert (Hi : In i ell) by (apply Hl; left; reflexivity).
    assert (E : cand_of_ball_x oracle p t (i, nth i xs dummy_xsample) = if adm i then Some (mk i) else None).
    { unfold cand_of_ball_x. cbn [snd fst]. fold (X i).
      pose proof Hscan as Hsc. unfold ball_scan in Hsc. rewrite forallb_forall in Hsc. specialize (Hsc i Hi). cbv zeta in Hsc. fold (X i) in Hsc.
      apply andb_true_iff in Hsc. destruct Hsc as [Ha Hd]. apply negb_true_iff in Hd. rewrite Hd.
      unfold cand_of_ball. cbn [fst snd]. rewrite cand_of_spec. cbn [snd fst].
      unfold discard_undefined_x in Hd. apply orb_false_iff in Hd. destruct Hd as [Hd Hd3].
      apply orb_false_iff in Hd. destruct Hd as [Hd1 Hd2]. apply negb_false_iff in Hd1, Hd2.
      unfold adm, admissible_x_b. rewrite Hd1, Hd2. cbn [andb].
      unfold admissible_b, mk, mk_cand. cbn [x_total s_active s_coords s_vars s_code fst snd]. rewrite Ha. reflexivity. }
    rewrite E. destruct (adm i); cbn [map]; rewrite IH by (intros j Hj; apply Hl; right; exact Hj); reflexivity. }
  apply G. intros i Hi. exact Hi.
Qed.

Lemma idx_filter_nodup (P : cand -> bool) I : NoDup I -> NoDup (map c_idx (filter P (map mk I))).
Proof.
  intro ND. induction I as [|k r IH]; [constructor|].
  inversion ND as [|? ? Hk NDr]; subst. cbn [map filter]. destruct (P (mk k)); cbn [map]; [|apply IH; exact NDr].
  constructor; [|apply IH; exact NDr]. rewrite (proj1 (mk_facts k)). intro C. apply Hk.
  apply in_map_iff in C. destruct C as [c [Ec Hc]]. apply filter_In in Hc. destruct Hc as [Hc _].
  apply in_map_iff in Hc. destruct Hc as [k' [<- Hk']]. rewrite (proj1 (mk_facts k')) in Ec. subst k'. exact Hk'.
Qed.

Lemma sect0 I c : In c (map mk I) -> c_sect c = 0%nat.
Proof. intro H. apply in_map_iff in H. destruct H as [i [<- _]]. apply mk_facts. Qed.

(* either every admissible sample is eligible, or every eligible sample is admissible *)
Lemma dichotomy : (forall i, In i IA -> In i ell) \/ (forall i, In i ell -> adm i = true).
Proof.
  destruct (forallb (fun i => existsb (Nat.eqb i) ell) IA) eqn:E.
  - left. intros i Hi. rewrite forallb_forall in E. specialize (E i Hi).
    apply existsb_exists in E. destruct E as [j [Hj Ej]]. apply Nat.eqb_eq in Ej. subst j. exact Hj.
  - right. intros i Hi.
    assert (Hex : exists j, In j IA /\ ~ In j ell).
    { clear - E. induction IA as [|j r IH]; [discriminate|]. cbn [forallb] in E.
      destruct (existsb (Nat.eqb j) ell) eqn:Ej.
      - cbn [andb] in E. destruct (IH E) as [k [Hk Hn]]. exists k. split; [right; exact Hk|exact Hn].
      - exists j. split; [left; reflexivity|]. intro C.
        assert (existsb (Nat.eqb j) ell = true) by (apply existsb_exists; exists j; split; [exact C|apply Nat.eqb_refl]).
        congruence. }
    destruct Hex as [j [Hj Hn]]. apply IA_in in Hj. destruct Hj as [Hjn Hja].
    rewrite (adm_ell i Hi). apply (within_mono (d2 i) (d2 j)); [apply adm_within; exact Hja|].
    apply Qlt_le_weak. apply Hsep; assumption.
Qed.

Lemma sel_all I : (length I <= nm)%nat ->
  forall i, In i (map c_idx (firstn nm (sort_cands (map mk I)))) <-> In i I.
Proof.
  intros HL i. rewrite firstn_all2 by (rewrite (Permutation_length (sort_cands_perm _)), map_length; exact HL).
  rewrite in_map_iff. split.
  - intros [c [<- Hc]]. apply (Permutation_in _ (sort_cands_perm _)) in Hc. apply in_map_iff in Hc.
    destruct Hc as [k [<- Hk]]. rewrite (proj1 (mk_facts k)). exact Hk.
  - intro Hi. exists (mk i). split; [apply mk_facts|].
    apply (Permutation_in _ (Permutation_sym (sort_cands_perm _))). apply in_map. exact Hi.
Qed.

Theorem ball_shortcut_ranks :
  r_ranks (moving_fixed_x oracle true p t xs ell) = r_ranks (moving_x oracle p t xs).
Proof.
  destruct prem_facts as [Hxv [Hfs [Hck [Hmax [Hmn Hmini]]]]].
  unfold moving_fixed_x, moving_x, ball_taken. fold n. rewrite Hprem, Hscan. cbn [andb].
  destruct (Z.of_nat n <? p_nmini p)%Z eqn:E1; [reflexivity|].
  rewrite cands_std, cands_ball.
  assert (LB : (length IB <= nm)%nat).
  { rewrite <- Hlen. apply NoDup_incl_length; [apply IB_nodup|]. intros i Hi. apply IB_in in Hi. apply Hi. }
  assert (IBA : incl IB IA).
  { intros i Hi. apply IB_in in Hi. apply IA_in. split; [apply Hin; apply Hi|apply Hi]. }
  destruct dichotomy as [D|D].
  - (* every admissible sample is eligible: the two candidate sets coincide *)
    assert (IAB : incl IA IB).
    { intros i Hi. apply IB_in. split; [apply D; exact Hi|apply IA_in in Hi; apply Hi]. }
    assert (EL : length IA = length IB) by (apply NoDup_same_length; [apply IA_nodup|apply IB_nodup|exact IAB|exact IBA]).
    destruct (Z_lt_ge_dec (Z.of_nat (length IA)) (p_nmini p)) as [L|L].
    + unfold moving_from. rewrite !map_length. rewrite <- EL. rewrite (proj2 (Z.ltb_lt _ _) L). reflexivity.
    + rewrite !moving_sector0; try assumption; try (apply sect0); try (rewrite map_length; lia).
      unfold compress. apply filter_ext. intro i.
      assert (S1 := sel_all IA ltac:(lia) i). assert (S2 := sel_all IB LB i). fold nm.
      destruct (existsb (Nat.eqb i) (map c_idx (firstn nm (sort_cands (map mk IA))))) eqn:A;
        destruct (existsb (Nat.eqb i) (map c_idx (firstn nm (sort_cands (map mk IB))))) eqn:B; try reflexivity; exfalso.
      * apply existsb_exists in A. destruct A as [j [Hj Ej]]. apply Nat.eqb_eq in Ej. subst j.
        apply S1 in Hj. apply IAB in Hj. apply S2 in Hj.
        assert (existsb (Nat.eqb i) (map c_idx (firstn nm (sort_cands (map mk IB)))) = true)
          by (apply existsb_exists; exists i; split; [exact Hj|apply Nat.eqb_refl]). congruence.
      * apply existsb_exists in B. destruct B as [j [Hj Ej]]. apply Nat.eqb_eq in Ej. subst j.
        apply S2 in Hj. apply IBA in Hj. apply S1 in Hj.
        assert (existsb (Nat.eqb i) (map c_idx (firstn nm (sort_cands (map mk IA)))) = true)
          by (apply existsb_exists; exists i; split; [exact Hj|apply Nat.eqb_refl]). congruence.
  - (* every eligible sample is admissible: the standard search keeps exactly the eligible ones *)
    assert (EB : IB = ell).
    { unfold IB. clear - D. induction ell as [|i r IH]; [reflexivity|]. cbn [filter].
      rewrite (D i (or_introl eq_refl)). f_equal. apply IH. intros j Hj. apply D. right. exact Hj. }
    assert (ellA : incl ell IA) by (rewrite <- EB; exact IBA).
    assert (LA : (nm <= length IA)%nat) by (rewrite <- Hlen; apply NoDup_incl_length; [exact Hnd|exact ellA]).
    assert (Hnmz : (p_nmini p <= Z.of_nat nm)%Z) by (unfold nm; lia).
    rewrite !moving_sector0; try assumption; try (apply sect0); try (rewrite map_length, ?EB, ?Hlen; lia).
    unfold compress. apply filter_ext. intro i. fold nm.
    set (SA := sort_cands (map mk IA)).
    set (P := fun c : cand => existsb (Nat.eqb (c_idx c)) ell).
    assert (Pspec : forall c, P c = true <-> In (c_idx c) ell).
    { intro c. unfold P. rewrite existsb_exists. split.
      - intros [j [Hj Ej]]. apply Nat.eqb_eq in Ej. rewrite Ej. exact Hj.
      - intro H. exists (c_idx c). split; [exact H|apply Nat.eqb_refl]. }
    assert (SAin : forall c, In c SA -> exists k, In k IA /\ c = mk k).
    { intros c Hc. apply (Permutation_in _ (sort_cands_perm _)) in Hc. apply in_map_iff in Hc.
      destruct Hc as [k [<- Hk]]. exists k. split; [exact Hk|reflexivity]. }
    assert (Part : firstn (length (filter P SA)) SA = filter P SA).
    { apply sorted_partition; [apply sort_cands_sorted|].
      intros x y Hx Hy Px Py. destruct (SAin x Hx) as [i' [Hi' ->]]. destruct (SAin y Hy) as [j' [Hj' ->]].
      rewrite (proj1 (proj2 (mk_facts i'))), (proj1 (proj2 (mk_facts j'))).
      apply Pspec in Px. rewrite (proj1 (mk_facts i')) in Px.
      apply IA_in in Hj'. apply Hsep; [exact Px|apply Hj'|].
      intro C. assert (P (mk j') = true) by (apply Pspec; rewrite (proj1 (mk_facts j')); exact C). congruence. }
    assert (IdxF : forall k, In k (map c_idx (filter P SA)) <-> In k ell).
    { intro k. rewrite in_map_iff. split.
      - intros [c [<- Hc]]. apply filter_In in Hc. apply Pspec. apply Hc.
      - intro Hk. exists (mk k). split; [apply mk_facts|]. apply filter_In. split.
        + apply (Permutation_in _ (Permutation_sym (sort_cands_perm _))). apply in_map. apply ellA. exact Hk.
        + apply Pspec. rewrite (proj1 (mk_facts k)). exact Hk. }
    assert (LF : length (filter P SA) = nm).
    { rewrite <- Hlen. rewrite <- (map_length c_idx).
      apply NoDup_same_length; [|exact Hnd|intros k Hk; apply IdxF; exact Hk|intros k Hk; apply IdxF; exact Hk].
      (* NoDup of the indices of filter P SA *)
      assert (PM : Permutation (map c_idx (filter P SA)) (map c_idx (filter P (map mk IA)))).
      { apply Permutation_map, filter_perm', sort_cands_perm. }
      apply (Permutation_NoDup (Permutation_sym PM)).
      apply idx_filter_nodup, IA_nodup. }
    rewrite LF in Part. fold SA. rewrite Part.
    assert (S2 := sel_all IB LB i). fold nm in S2.
    destruct (existsb (Nat.eqb i) (map c_idx (filter P SA))) eqn:A;
      destruct (existsb (Nat.eqb i) (map c_idx (firstn nm (sort_cands (map mk IB))))) eqn:B; try reflexivity; exfalso.
    + apply existsb_exists in A. destruct A as [j [Hj Ej]]. apply Nat.eqb_eq in Ej. subst j.
      apply IdxF in Hj. rewrite <- EB in Hj. apply S2 in Hj.
      assert (existsb (Nat.eqb i) (map c_idx (firstn nm (sort_cands (map mk IB)))) = true)
        by (apply existsb_exists; exists i; split; [exact Hj|apply Nat.eqb_refl]). congruence.
    + apply existsb_exists in B. destruct B as [j [Hj Ej]]. apply Nat.eqb_eq in Ej. subst j.
      apply S2 in Hj. rewrite EB in Hj. apply IdxF in Hj.
      assert (existsb (Nat.eqb i) (map c_idx (filter P SA)) = true)
        by (apply existsb_exists; exists i; split; [exact Hj|apply Nat.eqb_refl]). congruence.
Qed.

End Shortcut.

(* when the premise or the scan fails, the standard loop runs *)
Lemma ball_fallback oracle useball p t xs ell :
  ball_taken useball p xs ell = false -> moving_fixed_x oracle useball p t xs ell = moving_x oracle p t xs.
Proof. intro H. unfold moving_fixed_x, moving_x. rewrite H. reflexivity. Qed.

(* ------------------------------------------------------------------ why the premise asks for "no rotation, equal coefficients,
   all the space dimensions": the distance of the neighbourhood then ranks the samples like the Euclidean distance
   the tree works with *)
Local Open Scope Q_scope.
Lemma sumQ_scale {A} (f g : A -> Q) (k : Q) (l : list A) :
  (forall x, In x l -> f x * k == g x) -> sumQ (map f l) * k == sumQ (map g l).
Proof.
  induction l as [|x r IH]; intro H; cbn [map sumQ]; [ring|].
  rewrite <- (H x (or_introl eq_refl)), <- IH by (intros y Hy; apply H; right; exact Hy). ring.
Qed.
Lemma nthQ_map_seq (g : nat -> Q) n d : (d < n)%nat -> nthQ (map g (seq 0 n)) d = g d.
Proof.
  intro H. unfold nthQ. rewrite (nth_indep _ 0 (g 0%nat)) by (rewrite map_length, seq_length; exact H).
  rewrite map_nth, seq_nth by exact H. reflexivity.
Qed.

Lemma dist2_isotropic p t :
  p_rot p = false -> coeffs_constant p = true -> p_ndim p = p_nd p ->
  (p_aniso p = true -> length (p_coeffs p) = p_nd p /\ ~ nthQ (p_coeffs p) 0 == 0) ->
  exists k, 0 < k /\ forall s, dist2 p t s * k == eucl2 p t s.
Proof.
  intros Hrot Hcst Hnd Hco. unfold dist2, eucl2, tincr, transform. rewrite Hrot, Hnd.
  destruct (p_aniso p) eqn:Ha.
  - destruct (Hco eq_refl) as [Hlen Hnz]. unfold coeffs_constant in Hcst. rewrite Ha in Hcst.
    destruct (p_coeffs p) as [|c r] eqn:Ec; [discriminate|]. cbn [nthQ nth] in Hnz. unfold nthQ in Hnz. cbn [nth] in Hnz.
    exists (c * c). split.
    + destruct (Q_dec c 0) as [[L|L]|L]; [nra|nra|contradiction].
    + intro s. unfold div_coeffs, incr_of. rewrite !map_map.
      apply sumQ_scale. intros d Hd. apply in_seq in Hd.
      rewrite nthQ_map_seq by lia.
      assert (Ecd : nthQ (c :: r) d == c).
      { rewrite forallb_forall in Hcst. apply qeqb_true. apply Hcst. unfold nthQ. apply nth_In. rewrite Hlen. lia. }
      unfold sq. setoid_replace (nthQ (c :: r) d) with c by exact Ecd. field. exact Hnz.
  - exists 1. split; [lra|]. intro s. ring.
Qed.

(* hence the strict separation asked of the eligible list may be checked on the Euclidean distance *)
Lemma separation_isotropic p t (X : nat -> sample) (ell : list nat) (n : nat) :
  p_rot p = false -> coeffs_constant p = true -> p_ndim p = p_nd p ->
  (p_aniso p = true -> length (p_coeffs p) = p_nd p /\ ~ nthQ (p_coeffs p) 0 == 0) ->
  (forall i j, In i ell -> (j < n)%nat -> ~ In j ell -> eucl2 p t (X i) < eucl2 p t (X j)) ->
  (forall i j, In i ell -> (j < n)%nat -> ~ In j ell -> dist2 p t (X i) < dist2 p t (X j)).
Proof.
  intros H1 H2 H3 H4 He i j Hi Hj Hn.
  destruct (dist2_isotropic p t H1 H2 H3 H4) as [k [Hk E]].
  specialize (He i j Hi Hj Hn). rewrite <- (E (X i)), <- (E (X j)) in He. nra.
Qed.

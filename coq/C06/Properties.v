(* C06 — property theorems only. Each is closed by [exact] of a lemma of Proofs*.v.
   Part A: NeighMoving::_moving (no bound on the number of samples, sectors, or on nmini/nmaxi/nsmax).
   Part B: ball-tree k-nearest-neighbour query (no bound on points, dimension, leaf size, k). *)
From Coq Require Import List ZArith QArith Qabs Bool Arith Lia Permutation Sorting.Sorted.
From Gst Require Import lib.QAux C06.Model C06.Spec C06.Proofs C06.Proofs_select C06.Proofs_moving C06.Proofs_ball.
From Gst Require Import C06.Knn C06.KnnE C06.Proofs_knn C06.Proofs_heap C06.Proofs_query C06.Proofs_sort C06.Proofs_sector C06.Proofs_unique.
Import ListNotations.

(* ---------------------------------------------------------------------------------------------- *)
(* A.1 candidates                                                                                   *)

(* the chain of [continue]s keeps exactly the samples that are active, have a defined variable, are not
   excluded by cross-validation, pass every extra checker and lie inside the ellipsoid *)
Theorem C06_admissible : forall p t s, admissible_b p t s = true <-> admissible p t s.
Proof. exact admissible_b_spec. Qed.
Print Assumptions C06_admissible.

Theorem C06_candidates : forall oracle p t (samples : list sample),
  cand_loop oracle p t (enum samples) =
  map (mk_cand oracle p t) (filter (fun is => admissible_b p t (snd is)) (enum samples)).
Proof. intros. apply cand_loop_filter. Qed.
Print Assumptions C06_candidates.

(* samples as the Db holds them: a sample with an undefined coordinate or an undefined external drift is discarded
   by ANeigh::_discardUndefined before anything else is looked at *)
Theorem C06_admissible_x : forall p t x, admissible_x_b p t x = true <-> admissible_x p t x.
Proof. exact admissible_x_b_spec. Qed.
Print Assumptions C06_admissible_x.

Theorem C06_candidates_x : forall oracle p t (xs : list xsample),
  cand_loop_x oracle p t (enum xs) =
  map (fun ix => mk_cand oracle p t (fst ix, x_total (snd ix))) (filter (fun ix => admissible_x_b p t (snd ix)) (enum xs)).
Proof. intros. apply cand_loop_x_filter. Qed.
Print Assumptions C06_candidates_x.

(* ... so that, on the standard path, it behaves exactly like a masked sample: every theorem below about
   [moving] / [moving_from] applies to [moving_x] through this equality *)
Theorem C06_undefined_as_masked : forall oracle p t xs,
  moving_x oracle p t xs = moving oracle p t (map x_embed xs).
Proof. exact moving_x_embed. Qed.
Print Assumptions C06_undefined_as_masked.

(* sector rules: range, nesting of the exact rules, behaviour under a quarter turn *)
Theorem C06_sector_range : forall oracle nsect dx dy,
  (1 <= nsect)%nat -> (forall a b, (oracle a b < nsect)%nat) -> (sector_define oracle nsect dx dy < nsect)%nat.
Proof. exact sector_define_lt. Qed.
Print Assumptions C06_sector_range.
Theorem C06_sector_nested : forall dx dy,
  Nat.div2 (sector8 dx dy) = sector4 dx dy /\ Nat.div2 (sector4 dx dy) = sector2 dx dy.
Proof. intros. split; [apply sector8_sector4|apply sector4_sector2]. Qed.
Print Assumptions C06_sector_nested.
Theorem C06_sector_quarter_turn : forall dx dy,
  ~ (dx == 0 /\ dy == 0) -> sector4 (- dy) dx = ((sector4 dx dy + 1) mod 4)%nat.
Proof. exact sector4_quarter_turn. Qed.
Print Assumptions C06_sector_quarter_turn.

(* the exact rules are the angular definition: sector s <-> the increment lies in the cone swept counter-clockwise
   from direction 2 pi s / nsect (included) to direction 2 pi (s+1) / nsect (excluded); directions are given up to
   a positive factor, the cone by the signs of two linear forms (no atan) *)
Theorem C06_sector8_cone : forall dx dy s, ~ (dx == 0 /\ dy == 0) -> (s < 8)%nat ->
  (sector8 dx dy = s <-> in_cone (dir8 s) (dir8 (S s)) (dx, dy)).
Proof. exact sector8_cone. Qed.
Print Assumptions C06_sector8_cone.
Theorem C06_sector4_cone : forall dx dy s, ~ (dx == 0 /\ dy == 0) -> (s < 4)%nat ->
  (sector4 dx dy = s <-> in_cone (dir4 s) (dir4 (S s)) (dx, dy)).
Proof. exact sector4_cone. Qed.
Print Assumptions C06_sector4_cone.

(* ---------------------------------------------------------------------------------------------- *)
(* A.2 ordering                                                                                     *)

(* the model's order: a stable sort on the squared distance *)
Theorem C06_sort : forall l,
  Permutation (sort_cands l) l /\
  StronglySorted (fun a b => c_d2 a <= c_d2 b) (sort_cands l) /\
  (forall d, filter (fun c => qeqb (c_d2 c) d) (sort_cands l) = filter (fun c => qeqb (c_d2 c) d) l).
Proof. intro l. split; [apply sort_cands_perm|]. split; [apply sort_cands_sorted|]. intro d. apply sort_cands_stable. Qed.
Print Assumptions C06_sort.

(* the code's order (distances perturbed by distmax*isel*eps, then std::stable_sort) is that order as
   soon as the computed distances [r] rank like the squared distances and two different ones are more
   than distmax*n*eps apart — the "ties excluded" premise made explicit *)
Theorem C06_sorted : forall (eps : Q) (r : cand -> Q) (l : list cand),
  0 <= eps ->
  (forall x y, In x l -> In y l -> (r x <= r y <-> c_d2 x <= c_d2 y)) ->
  (forall x y, In x l -> In y l -> r x < r y ->
               maxQ (map r l) * inject_Z (Z.of_nat (length l)) * eps < r y - r x) ->
  perturb_sort eps r l = sort_cands l.
Proof. exact perturb_sort_spec. Qed.
Print Assumptions C06_sorted.

(* ---------------------------------------------------------------------------------------------- *)
(* A.3 quota per sector, allocation, selection                                                      *)

Theorem C06_nsmax : forall nsect nsmax l s,
  cands_of (sector_nsmax nsect nsmax l) = cands_of l /\
  alive_sect s (sector_nsmax nsect nsmax l) =
    if (s <? nsect)%nat then firstn nsmax (alive_sect s l) else alive_sect s l.
Proof. intros. split; [apply sector_nsmax_cands|apply sector_nsmax_spec]. Qed.
Print Assumptions C06_nsmax.

(* the while loop terminates within nmaxi turns (the fuel of the model) because the total count was
   tested just before; its result is a round-robin shape that sums to nmaxi *)
Theorem C06_select_terminates : forall nm cs, (nm <= sumN cs)%nat ->
  exists turn j, (j <= length cs)%nat /\ alloc nm cs = Some (rr_shape cs turn j) /\ sumN (rr_shape cs turn j) = nm.
Proof. exact alloc_spec. Qed.
Print Assumptions C06_select_terminates.

(* what a round-robin shape is: never more than available; two sectors differ by at most one unless the
   poorer one is exhausted, and then the earlier sector is the richer one *)
Theorem C06_alloc_fair : forall cs turn j a b,
  (nth a (rr_shape cs turn j) 0 <= nth a cs 0)%nat /\
  ((a < length cs)%nat -> (b < length cs)%nat ->
   (nth a (rr_shape cs turn j) 0 < nth b (rr_shape cs turn j) 0)%nat ->
   nth a (rr_shape cs turn j) 0%nat = nth a cs 0%nat \/
   (nth b (rr_shape cs turn j) 0 = S (nth a (rr_shape cs turn j) 0) /\ b < a)%nat).
Proof. intros. split; [apply rr_shape_le|apply rr_shape_balanced]. Qed.
Print Assumptions C06_alloc_fair.

Theorem C06_select : forall nmaxi nsect l,
  (0 < nmaxi)%Z -> sect_bounded nsect l -> (Z.to_nat nmaxi <= count_alive l)%nat ->
  exists turn j, (j <= nsect)%nat /\
    let isv := rr_shape (sect_counts nsect l) turn j in
    sumN isv = Z.to_nat nmaxi /\
    exists fin, moving_select nmaxi nsect l = Some fin /\ cands_of fin = cands_of l /\
      forall s, alive_sect s fin = if (s <? nsect)%nat then firstn (nth s isv 0%nat) (alive_sect s l) else alive_sect s l.
Proof. exact moving_select_spec. Qed.
Print Assumptions C06_select.

(* the whole body of _moving after the candidate loop: unless fewer than nmini candidates exist, the
   result keeps, in every sector, the [quota] closest candidates, where the quotas are the sector counts
   capped by nsmax and, when their total exceeds nmaxi, reduced to a round-robin shape of total nmaxi *)
Theorem C06_moving : forall p nech cands,
  (1 <= p_nsect p)%nat -> (forall c, In c cands -> (c_sect c < p_nsect p)%nat) ->
  (p_nmini p <= Z.of_nat (length cands))%Z ->
  let sorted := sort_cands cands in
  let counts := map (fun s => length (in_sect s sorted)) (seq 0 (p_nsect p)) in
  exists fin quota,
    moving_from p nech cands = {| r_code := 0; r_sorted := fin; r_ranks := compress nech (alive_idx fin) |} /\
    cands_of fin = sorted /\
    quota_ok p counts quota /\
    (forall s, (s < p_nsect p)%nat -> alive_sect s fin = firstn (nth s quota 0%nat) (in_sect s sorted)) /\
    (forall s, (p_nsect p <= s)%nat -> alive_sect s fin = []).
Proof. intros p nech cands H1 H2 H3. exact (moving_from_spec p nech cands H1 H2 H3). Qed.
Print Assumptions C06_moving.

Theorem C06_single_sector : forall p nech cands,
  p_nsect p = 1%nat -> (forall c, In c cands -> c_sect c = 0%nat) ->
  (p_nmini p <= Z.of_nat (length cands))%Z ->
  exists fin,
    moving_from p nech cands = {| r_code := 0; r_sorted := fin; r_ranks := compress nech (alive_idx fin) |} /\
    map fst (filter (fun ca => snd ca) fin) =
      if (p_nmaxi p <=? 0)%Z then sort_cands cands else firstn (Z.to_nat (p_nmaxi p)) (sort_cands cands).
Proof. exact moving_single_sector. Qed.
Print Assumptions C06_single_sector.

(* exits: the neighbourhood is refused exactly when fewer than nmini samples are admissible (the test
   "nech < nmini" is subsumed, the test after _movingSectorNsmax can never fire because the callee
   receives nsel by value, and the allocation loop never runs out of fuel) *)
Theorem C06_nmini : forall oracle p t samples,
  (1 <= p_nsect p)%nat -> (forall dx dy, (oracle dx dy < p_nsect p)%nat) ->
  (r_code (moving oracle p t samples) = 0%Z <-> (p_nmini p <= Z.of_nat (n_admissible p t samples))%Z) /\
  (r_code (moving oracle p t samples) <> 0%Z -> r_ranks (moving oracle p t samples) = []) /\
  (r_code (moving oracle p t samples) = 0 \/ r_code (moving oracle p t samples) = 1 \/ r_code (moving oracle p t samples) = 2)%Z.
Proof. intros oracle p t samples H1 H2. exact (moving_code oracle p t samples H1 H2). Qed.
Print Assumptions C06_nmini.

Theorem C06_nmini_x : forall oracle p t xs,
  (1 <= p_nsect p)%nat -> (forall dx dy, (oracle dx dy < p_nsect p)%nat) ->
  (r_code (moving_x oracle p t xs) = 0%Z <->
   (p_nmini p <= Z.of_nat (length (filter (fun ix => admissible_x_b p t (snd ix)) (enum xs))))%Z) /\
  (r_code (moving_x oracle p t xs) <> 0%Z -> r_ranks (moving_x oracle p t xs) = []).
Proof.
  intros oracle p t xs H1 H2. rewrite moving_x_embed, <- n_admissible_x.
  destruct (moving_code oracle p t (map x_embed xs) H1 H2) as [A [B _]]. split; assumption.
Qed.
Print Assumptions C06_nmini_x.

(* _neighCompress: the returned ranks are the selected sample indices in increasing order *)
Theorem C06_ranks : forall nech sel,
  StronglySorted lt (compress nech sel) /\ forall i, In i (compress nech sel) <-> (i < nech)%nat /\ In i sel.
Proof. intros. split; [apply compress_sorted|intro i; apply compress_In]. Qed.
Print Assumptions C06_ranks.

(* ---------------------------------------------------------------------------------------------- *)
(* non-vacuity                                                                                      *)
Definition ex_params : params :=
  {| p_nmini := 2; p_nmaxi := 4; p_nsect := 4; p_nsmax := 2; p_ndim := 2; p_radius := Some (5#1);
     p_aniso := true; p_rot := false; p_nd := 2; p_coeffs := [1; 2]; p_rotmat := [];
     p_xvalid := true; p_kfold := false; p_hascode := false; p_eps := 1 # 1000000000; p_checkers := [ChkBench 1 (8#1)] |}.
Definition ex_sample (a : bool) (x y : Q) (v : option Q) : sample :=
  {| s_active := a; s_coords := [x; y]; s_vars := [v]; s_code := None |}.
Definition ex_samples : list sample :=
  [ex_sample true 1 0 (Some 1); ex_sample true 2 2 (Some 1); ex_sample true 0 0 (Some 1);   (* 2: the target itself *)
   ex_sample true 3 1 (Some 1); ex_sample false (-1) 1 (Some 1); ex_sample true (-2) 4 None;
   ex_sample true (-1) 2 (Some 1); ex_sample true (-3) (-1) (Some 1); ex_sample true 1 (-6) (Some 1);
   ex_sample true 6 1 (Some 1); ex_sample true 1 1 (Some 1); ex_sample true (-1) (-2) (Some 1)].
Definition ex_target : target := {| t_coords := [0; 0]; t_code := None |}.
Definition no_oracle (dx dy : Q) : nat := 0%nat.

(* 8 admissible samples in 4 sectors (2,1,4,1) (the sector is that of target - sample), quota 2 per sector leaves 6, nmaxi = 4 keeps one per sector *)
Example C06_moving_nonvacuous :
  let r := moving no_oracle ex_params ex_target ex_samples in
  n_admissible ex_params ex_target ex_samples = 8%nat /\
  map (fun s => length (in_sect s (sort_cands (cand_loop no_oracle ex_params ex_target (enum ex_samples))))) (seq 0 4) = [2; 1; 4; 1]%nat /\
  r_code r = 0%Z /\ r_ranks r = [0; 6; 8; 11]%nat /\
  spec_moving no_oracle ex_params ex_target ex_samples = r_ranks r /\
  sect_counts 4 (r_sorted r) = [1; 1; 1; 1]%nat.
Proof. vm_compute. repeat split; reflexivity. Qed.

(* the premises of C06_sorted hold for keys 3, 1, 2 (squared 9, 1, 4) and eps = 1e-9 *)
Example C06_sorted_nonvacuous :
  let l := [{| c_idx := 0; c_d2 := 9; c_sect := 0 |}; {| c_idx := 1; c_d2 := 1; c_sect := 0 |}; {| c_idx := 2; c_d2 := 4; c_sect := 0 |}] in
  let r := fun c => match c_idx c with 0%nat => 3 | 1%nat => 1 | _ => 2 end in
  forallb (fun x => forallb (fun y =>
     Bool.eqb (qleb (r x) (r y)) (qleb (c_d2 x) (c_d2 y)) &&
     (negb (qltb (r x) (r y)) || qltb (maxQ (map r l) * inject_Z 3 * (1 # 1000000000)) (r y - r x))) l) l = true /\
  perturb_sort (1 # 1000000000) r l = sort_cands l /\ map c_idx (sort_cands l) = [1; 2; 0]%nat.
Proof. vm_compute. repeat split; reflexivity. Qed.

(* allocation: counts (5,0,2,1), nmaxi = 6: two full turns serve (2,0,2,1), the third gives one more to sector 0 *)
Example C06_alloc_nonvacuous :
  alloc 6 [5; 0; 2; 1]%nat = Some [3; 0; 2; 1]%nat /\ rr_shape [5; 0; 2; 1]%nat 2 1 = [3; 0; 2; 1]%nat /\
  water_fill 6 [5; 0; 2; 1]%nat = [3; 0; 2; 1]%nat /\ alloc 8 [5; 0; 2; 1]%nat = Some [5; 0; 2; 1]%nat.
Proof. vm_compute. repeat split; reflexivity. Qed.

Example C06_sector_nonvacuous :
  map (fun d => sector8 (fst d) (snd d)) [(2, 1); (1, 2); (-1, 2); (-2, 1); (-2, -1); (-1, -2); (1, -2); (2, -1)] = [0; 1; 2; 3; 4; 5; 6; 7]%nat /\
  map (fun d => sector8 (fst d) (snd d)) [(1, 0); (1, 1); (0, 1); (-1, 1); (-1, 0); (-1, -1); (0, -1); (1, -1); (0, 0)] = [0; 1; 2; 3; 4; 5; 6; 7; 2]%nat.
Proof. vm_compute. split; reflexivity. Qed.

(* ---------------------------------------------------------------------------------------------- *)
(* C. ball-tree shortcut of _moving, as committed in 4a434731b                                            *)

(* the shortcut body alone ([moving_ball]: loop over the eligible list without the isActive test) is the standard
   path in the degenerate situation where the list is the whole, unmasked data set in index order *)
Theorem C06_ball_moving : forall oracle p t samples,
  (forall s, In s samples -> s_active s = true) ->
  moving_ball oracle p t samples (seq 0 (length samples)) = moving oracle p t samples.
Proof. exact moving_ball_all. Qed.
Print Assumptions C06_ball_moving.

(* the committed code takes the shortcut only under [ball_premise] (no cross-validation, no sector allocation, no
   extra checker, no rotation, equal coefficients, all space dimensions, 0 < nmaxi <= nech, nmini <= nmaxi) and
   when none of the samples returned is masked or undefined ([ball_scan]).  Whenever it is taken, and the eligible
   list is what Ball::getIndices delivers (C06_knn; ties excluded: nmaxi distinct samples, each strictly nearer
   than every sample left out), the ranks are those of the standard search -- hence the neighbourhood of the
   definition (C06_candidates_x, C06_moving, C06_nmini_x) -- exits included *)
Theorem C06_ball_shortcut : forall oracle p t (xs : list xsample) (ell : list nat),
  (1 <= p_nsect p)%nat ->
  ball_premise true p (length xs) = true -> ball_scan xs ell = true ->
  NoDup ell -> length ell = Z.to_nat (p_nmaxi p) -> (forall i, In i ell -> (i < length xs)%nat) ->
  (forall i j, In i ell -> (j < length xs)%nat -> ~ In j ell ->
     dist2 p t (x_total (nth i xs dummy_xsample)) < dist2 p t (x_total (nth j xs dummy_xsample))) ->
  r_ranks (moving_fixed_x oracle true p t xs ell) = r_ranks (moving_x oracle p t xs).
Proof. exact ball_shortcut_ranks. Qed.
Print Assumptions C06_ball_shortcut.

(* the geometric part of the premise is what makes the separation above a property of the Euclidean distance the
   tree works with: without rotation, with equal coefficients and all the space dimensions, the distance of the
   neighbourhood is the Euclidean distance up to a positive factor *)
Theorem C06_ball_metric : forall p t,
  p_rot p = false -> coeffs_constant p = true -> p_ndim p = p_nd p ->
  (p_aniso p = true -> length (p_coeffs p) = p_nd p /\ ~ nthQ (p_coeffs p) 0 == 0) ->
  exists k, 0 < k /\ forall s, dist2 p t s * k == eucl2 p t s.
Proof. exact dist2_isotropic. Qed.
Print Assumptions C06_ball_metric.

(* in every other case the standard loop runs *)
Theorem C06_ball_fallback : forall oracle useball p t xs ell,
  ball_taken useball p xs ell = false -> moving_fixed_x oracle useball p t xs ell = moving_x oracle p t xs.
Proof. exact ball_fallback. Qed.
Print Assumptions C06_ball_fallback.

(* former witness of finding ballsearch:xvalid (cross-validation, target = sample 0, nmaxi = 2): the shortcut body
   would return {1}, the definition gives {1, 2}; the committed premise refuses the shortcut and the result is {1, 2} *)
Definition ball_params : params :=
  {| p_nmini := 1; p_nmaxi := 2; p_nsect := 1; p_nsmax := -1234567; p_ndim := 2; p_radius := None;
     p_aniso := false; p_rot := false; p_nd := 2; p_coeffs := []; p_rotmat := [];
     p_xvalid := true; p_kfold := false; p_hascode := false; p_eps := 1 # 1000000000; p_checkers := [] |}.
Definition ball_samples : list sample :=
  [ex_sample true 0 0 (Some 1); ex_sample true 1 0 (Some 1); ex_sample true 0 2 (Some 1); ex_sample true 3 3 (Some 1)].
Definition x_of (s : sample) : xsample :=
  {| x_active := s_active s; x_coords := map Some (s_coords s); x_fext := []; x_vars := s_vars s; x_code := s_code s |}.
Example C06_ball_regression :
  let xs := map x_of ball_samples in
  r_ranks (moving_ball no_oracle ball_params ex_target ball_samples [0; 1]%nat) = [1]%nat /\
  ball_taken true ball_params xs [0; 1]%nat = false /\
  r_ranks (moving_fixed_x no_oracle true ball_params ex_target xs [0; 1]%nat) = [1; 2]%nat /\
  spec_moving_x no_oracle ball_params ex_target xs = [1; 2]%nat.
Proof. vm_compute. repeat split; reflexivity. Qed.

(* the shortcut taken: same data without cross-validation, eligible list = the two nearest samples *)
Example C06_ball_shortcut_nonvacuous :
  let p := {| p_nmini := 1; p_nmaxi := 2; p_nsect := 1; p_nsmax := -1234567; p_ndim := 2; p_radius := Some (3 # 2);
              p_aniso := false; p_rot := false; p_nd := 2; p_coeffs := []; p_rotmat := [];
              p_xvalid := false; p_kfold := false; p_hascode := false; p_eps := 1 # 1000000000; p_checkers := [] |} in
  let xs := map x_of ball_samples in
  ball_taken true p xs [1; 0]%nat = true /\
  r_ranks (moving_fixed_x no_oracle true p ex_target xs [1; 0]%nat) = [0; 1]%nat /\
  r_ranks (moving_x no_oracle p ex_target xs) = [0; 1]%nat.
Proof. vm_compute. repeat split; reflexivity. Qed.

(* ---------------------------------------------------------------------------------------------- *)
(* B. ball-tree k-nearest-neighbour query                                                            *)

(* (d) construction, for any distance function: the leaves hold every index exactly once, every node's
   centre is a centroid and its radius bounds the distance from the centre to each of its points *)
Theorem C06_knn_build : forall dist nfeat data (okp : pt -> Prop) leaf,
  (forall idxs, okp (centroid nfeat data idxs)) ->
  Permutation (pts_of (btree_init dist nfeat data leaf)) (seq 0 (length data)) /\
  wf_tree dist data okp (btree_init dist nfeat data leaf).
Proof. intros dist nfeat data okp leaf H. exact (btree_init_spec dist nfeat data okp H leaf). Qed.
Print Assumptions C06_knn_build.

(* pruning bound: for a metric, no point of a node is closer to the query than min_dist *)
Theorem C06_knn_pruning : forall dist data (okp : pt -> Prop),
  (forall a b, okp a -> okp b -> 0 <= dist a b) ->
  (forall a b, okp a -> okp b -> dist a b == dist b a) ->
  (forall a b c, okp a -> okp b -> okp c -> dist a c <= dist a b + dist b c) ->
  forall t q, okp q -> wf_tree dist data okp t ->
  forall i, okp (getp data i) -> In i (pts_of t) -> min_dist dist t q <= dist q (getp data i).
Proof. intros dist data okp H1 H2 H3 t q. exact (min_dist_sound dist data okp H1 H2 H3 t q). Qed.
Print Assumptions C06_knn_pruning.

(* (b) the array heap: nheap_push keeps the heap order (so that cell 0 is a maximum) and replaces the old top *)
Theorem C06_knn_heap : forall h v i,
  good_heap h -> ext_lt (Some v) (nheap_largest h) = true ->
  (forall e, In e h -> ext_le (fst e) (nheap_largest h) = true) /\
  good_heap (nheap_push h v i) /\
  exists rest, Permutation h (hget h 0 :: rest) /\ Permutation (nheap_push h v i) ((Some v, i) :: rest).
Proof. intros h v i G L. split; [apply good_heap_top; exact G|apply good_heap_push; assumption]. Qed.
Print Assumptions C06_knn_heap.

(* (c) simultaneous_sort (as repaired: "pivot_idx + 2 < size") is a sort: it permutes its input and leaves it
   in increasing distance order, given fuel >= size (the model runs it with fuel = size) *)
Theorem C06_knn_sort : forall fuel l, (length l <= fuel)%nat ->
  Permutation (ssort fuel l) l /\ StronglySorted (fun a b => ext_le (fst a) (fst b) = true) (ssort fuel l).
Proof. intros fuel l H. split; [apply ssort_perm|exact (ssort_sorted fuel l H)]. Qed.
Print Assumptions C06_knn_sort.

Definition knn_ex_data : list pt := [[-1; -3]; [-1; 0]; [-2; -2]; [-3; 1]; [-2; -1]; [0; 2]; [-2; 0]].

(* C06_knn: for every metric, data set, leaf size and 1 <= k <= n the query returns k distinct points with their
   true distances, every point left out is at least as far as every point returned, and the result is listed
   by increasing distance (layers (a) pruning + accumulator, (b) heap, (c) sort, (d) construction) *)
Theorem C06_knn : forall dist nfeat data (okp : pt -> Prop),
  (forall idxs, okp (centroid nfeat data idxs)) ->
  (forall i, (i < length data)%nat -> okp (getp data i)) ->
  (forall a b, okp a -> okp b -> 0 <= dist a b) ->
  (forall a b, okp a -> okp b -> dist a b == dist b a) ->
  (forall a b c, okp a -> okp b -> okp c -> dist a c <= dist a b + dist b c) ->
  forall leaf k q res, okp q -> (0 < k)%nat ->
  knn_query dist data (btree_init dist nfeat data leaf) k q = Some res ->
  length res = k /\
  (forall e, In e res -> exists v, fst e = Some v /\ (snd e < length data)%nat /\ v == dist q (getp data (snd e))) /\
  NoDup (map snd res) /\
  (forall e j, In e res -> (j < length data)%nat -> ~ In j (map snd res) ->
               ext_le (fst e) (Some (dist q (getp data j))) = true) /\
  StronglySorted (fun a b => ext_le (fst a) (fst b) = true) res.
Proof.
  intros dist nfeat data okp H1 H2 H3 H4 H5 leaf k q res Hq Hk E.
  destruct (knn_query_correct dist nfeat data okp H1 H2 H3 H4 H5 leaf k q res Hq Hk E) as [A [B [C D]]].
  repeat split; try assumption. exact (knn_query_sorted _ _ _ _ _ _ E).
Qed.
Print Assumptions C06_knn.

(* the executable instance: Manhattan distance on coordinate lists of length nfeat *)
Theorem C06_knn_manhattan : forall nfeat (data : list pt) leaf k q res,
  (forall x, In x data -> length x = nfeat) -> length q = nfeat -> (0 < k)%nat ->
  knn_query manhattan data (btree_init manhattan nfeat data leaf) k q = Some res ->
  length res = k /\
  (forall e, In e res -> exists v, fst e = Some v /\ (snd e < length data)%nat /\ v == manhattan q (getp data (snd e))) /\
  NoDup (map snd res) /\
  (forall e j, In e res -> (j < length data)%nat -> ~ In j (map snd res) ->
               ext_le (fst e) (Some (manhattan q (getp data j))) = true) /\
  StronglySorted (fun a b => ext_le (fst a) (fst b) = true) res.
Proof.
  intros nfeat data leaf k q res H1 H2 H3 E.
  destruct (knn_manhattan_correct nfeat data leaf k q res H1 H2 H3 E) as [A [B [C D]]].
  repeat split; try assumption. exact (knn_query_sorted _ _ _ _ _ _ E).
Qed.
Print Assumptions C06_knn_manhattan.

(* the answer is unique (ties excluded): two lists with the properties established by C06_knn list the same points in
   the same order with the same distances *)
Theorem C06_knn_unique : forall dist data q k res1 res2,
  (forall i j, (i < length data)%nat -> (j < length data)%nat -> i <> j ->
     ~ dist q (getp data i) == dist q (getp data j)) ->
  knn_answer dist data q k res1 -> knn_answer dist data q k res2 ->
  map snd res1 = map snd res2 /\
  Forall2 (fun e1 e2 => exists v1 v2, fst e1 = Some v1 /\ fst e2 = Some v2 /\ v1 == v2) res1 res2.
Proof. intros dist data q k res1 res2 H A1 A2. exact (knn_answer_unique dist data q H k res1 res2 A1 A2). Qed.
Print Assumptions C06_knn_unique.

(* corollary: the answer of the ball tree depends on the point coordinates, the query and k only.  Whatever the two
   leaf sizes (hence whatever the shape of the tree, the order of the traversal and the content of the heap along
   the way), the same points come back in the same order; nothing else -- such as the "default space" of the
   library, which does not exist in the model -- can legitimately influence it (defect fixed by 453b8d386) *)
Theorem C06_knn_independent : forall dist nfeat data (okp : pt -> Prop),
  (forall idxs, okp (centroid nfeat data idxs)) ->
  (forall i, (i < length data)%nat -> okp (getp data i)) ->
  (forall a b, okp a -> okp b -> 0 <= dist a b) ->
  (forall a b, okp a -> okp b -> dist a b == dist b a) ->
  (forall a b c, okp a -> okp b -> okp c -> dist a c <= dist a b + dist b c) ->
  forall leaf1 leaf2 k q res1 res2, okp q -> (0 < k)%nat ->
  (forall i j, (i < length data)%nat -> (j < length data)%nat -> i <> j ->
     ~ dist q (getp data i) == dist q (getp data j)) ->
  knn_query dist data (btree_init dist nfeat data leaf1) k q = Some res1 ->
  knn_query dist data (btree_init dist nfeat data leaf2) k q = Some res2 ->
  map snd res1 = map snd res2 /\
  Forall2 (fun e1 e2 => exists v1 v2, fst e1 = Some v1 /\ fst e2 = Some v2 /\ v1 == v2) res1 res2.
Proof.
  intros dist nfeat data okp H1 H2 H3 H4 H5 leaf1 leaf2 k q res1 res2 Hq Hk Hnt E1 E2.
  apply (knn_answer_unique dist data q Hnt k).
  - destruct (C06_knn dist nfeat data okp H1 H2 H3 H4 H5 leaf1 k q res1 Hq Hk E1) as [A [B [C [D E]]]].
    repeat split; assumption.
  - destruct (C06_knn dist nfeat data okp H1 H2 H3 H4 H5 leaf2 k q res2 Hq Hk E2) as [A [B [C [D E]]]].
    repeat split; assumption.
Qed.
Print Assumptions C06_knn_independent.

(* KNN::_query refuses k > n *)
Theorem C06_knn_refused : forall dist data t k q, (length data < k)%nat -> knn_query dist data t k q = None.
Proof. exact knn_query_refused. Qed.
Print Assumptions C06_knn_refused.

Example C06_knn_nonvacuous :
  exists res, knn_query manhattan knn_ex_data (btree_init manhattan 2 knn_ex_data 1) 3 [-2; -2] = Some res /\
              map snd res = [2; 4; 0]%nat /\ map fst res = [Some 0; Some 1; Some 2] /\
              map snd (knn_spec manhattan knn_ex_data 3 [-2; -2]) = [2; 4; 0]%nat /\
              length (pts_of (btree_init manhattan 2 knn_ex_data 1)) = 7%nat.
Proof. eexists. vm_compute. repeat split; reflexivity. Qed.

(* four-dimensional data (the model has no default space): the same answer for leaf sizes 1, 2 and 40 *)
Example C06_knn_independent_nonvacuous :
  let data := [[1; 0; 2; 0]; [0; 3; 1; 2]; [3; 2; 2; 2]; [1; 1; 1; 0]; [5; 1; 0; 3]; [1; 1; 3; 1]] in
  let ans leaf := match knn_query manhattan data (btree_init manhattan 4 data leaf) 4 [1; 1; 1; 1] with
                  | Some r => map snd r | None => [] end in
  ans 1%Z = [3; 5; 0; 1]%nat /\ ans 2%Z = ans 1%Z /\ ans 40%Z = ans 1%Z /\
  map snd (knn_spec manhattan data 4 [1; 1; 1; 1]) = ans 1%Z.
Proof. vm_compute. repeat split; reflexivity. Qed.

(* the input on which the former test "pivot_idx * 2 < size" left the last two distances as 6, 4
   (finding knn:result-not-sorted, fixed): seven points, leaf size 3, k = 7 *)
Example C06_knn_sort_regression :
  exists res, knn_query manhattan knn_ex_data (btree_init manhattan 2 knn_ex_data 3) 7 [-2; -2] = Some res /\
              map fst res = [Some 0; Some 1; Some 2; Some 2; Some 3; Some 4; Some 6].
Proof. eexists. vm_compute. split; reflexivity. Qed.

(* undefined coordinate / external drift; the cone rule at the eight boundary directions *)
Example C06_undefined_nonvacuous :
  let X a c f := {| x_active := a; x_coords := c; x_fext := f; x_vars := [Some 1]; x_code := None |} in
  let xs := [X true [Some 1; None] [Some 1]; X true [Some 0; Some 1] [Some 2]; X true [Some 2; Some 0] [None]; X true [Some 0; Some (-1)] [Some 0]] in
  r_ranks (moving_x no_oracle ball_params ex_target xs) = [1; 3]%nat /\
  map (admissible_x_b ball_params ex_target) xs = [false; true; false; true].
Proof. vm_compute. split; reflexivity. Qed.

(* ---------------------------------------------------------------------------------------------- *)
(* B'. Euclidean instance: the decisions taken on squares are the comparisons of square roots                    *)
From Coq Require Import Reals Qreals.
From Gst Require Import C06.Proofs_sqrt.

(* pruning test of query_depth_first: fmax(0, d(q,c) - radius) > largest *)
Theorem C06_sqrt_prune : forall a r b : Q, (0 <= a)%Q -> (0 <= r)%Q -> (0 <= b)%Q ->
  (bound_gt_top a r (Some b) = true <-> (Rmax 0 (sqrt (Q2R a) - sqrt (Q2R r)) > sqrt (Q2R b))%R).
Proof. exact bound_gt_top_sqrt. Qed.
Print Assumptions C06_sqrt_prune.
Theorem C06_sqrt_diff : forall a r b : Q, (0 <= a)%Q -> (0 <= r)%Q -> (0 <= b)%Q ->
  (sqrt_diff_gt a r b = true <-> (sqrt (Q2R a) - sqrt (Q2R r) > sqrt (Q2R b))%R).
Proof. exact sqrt_diff_gt_sqrt. Qed.
Print Assumptions C06_sqrt_diff.
(* child order: min_dist(child 1) <= min_dist(child 2) *)
Theorem C06_sqrt_child_order : forall a1 r1 a2 r2 : Q, (0 <= a1)%Q -> (0 <= r1)%Q -> (0 <= a2)%Q -> (0 <= r2)%Q ->
  (bound_le a1 r1 a2 r2 = true <->
   (Rmax 0 (sqrt (Q2R a1) - sqrt (Q2R r1)) <= Rmax 0 (sqrt (Q2R a2) - sqrt (Q2R r2)))%R).
Proof. exact bound_le_sqrt. Qed.
Print Assumptions C06_sqrt_child_order.

Example C06_knn_euclid_nonvacuous :
  exists res, knn_query_e knn_ex_data (btree_init_e 2 knn_ex_data 1) 4 [(-2)%Q; (-2)%Q] = Some res /\
              map snd res = [2; 4; 0; 6]%nat /\ map fst res = [Some 0%Q; Some 1%Q; Some 2%Q; Some 4%Q] /\
              sqrt_diff_gt 9 1 3 = true /\ sqrt_diff_gt 9 1 4 = false /\ bound_le 9 4 16 9 = true.
Proof. eexists. vm_compute. repeat split; reflexivity. Qed.

(* C06 proofs, part B: assembly — simultaneous_sort permutes, knn_query returns k nearest points *)
From Coq Require Import List ZArith QArith Qabs Bool Arith Lqa Lia Permutation.
From Gst Require Import lib.QAux C06.Knn C06.Proofs_knn C06.Proofs_heap.
Import ListNotations.
Local Open Scope Q_scope.

Lemma eswap_length l i j : length (eswap l i j) = length l.
Proof. apply Permutation_length, eswap_perm. Qed.

Lemma part_for_perm pivot cnt : forall l i store, Permutation (fst (part_for l pivot i cnt store)) l.
Proof.
  induction cnt as [|c IH]; intros l i store; [apply Permutation_refl|]. cbn [part_for].
  destruct (ext_lt (fst (hget l i)) pivot); [eapply perm_trans; [apply IH|apply eswap_perm]|apply IH].
Qed.
Lemma part_for_store pivot cnt : forall l i store, (snd (part_for l pivot i cnt store) <= store + cnt)%nat.
Proof.
  induction cnt as [|c IH]; intros l i store; [cbn; lia|]. cbn [part_for].
  destruct (ext_lt (fst (hget l i)) pivot); [specialize (IH (eswap l i store) (S i) (S store))|specialize (IH l (S i) store)]; lia.
Qed.

Lemma ssort_perm fuel : forall l, Permutation (ssort fuel l) l.
Proof.
  induction fuel as [|f IH]; intro l; [apply Permutation_refl|]. cbn [ssort].
  destruct (length l <=? 1)%nat eqn:E1; [apply Permutation_refl|]. apply Nat.leb_gt in E1.
  destruct (length l =? 2)%nat.
  { destruct (egt l 0 1); [apply eswap_perm|apply Permutation_refl]. }
  destruct (length l =? 3)%nat eqn:E3.
  { set (l1 := if egt l 0 1 then eswap l 0 1 else l).
    assert (P1 : Permutation l1 l) by (unfold l1; destruct (egt l 0 1); [apply eswap_perm|apply Permutation_refl]).
    destruct (egt l1 1 2); [|exact P1].
    destruct (egt (eswap l1 1 2) 0 1).
    - eapply perm_trans; [apply eswap_perm|]. eapply perm_trans; [apply eswap_perm|exact P1].
    - eapply perm_trans; [apply eswap_perm|exact P1]. }
  set (size := length l).
  set (l1 := if egt l 0 (size - 1) then eswap l 0 (size - 1) else l).
  assert (P1 : Permutation l1 l) by (unfold l1; destruct (egt l 0 (size - 1)); [apply eswap_perm|apply Permutation_refl]).
  set (l3 := if egt l1 (size - 1) (Nat.div2 size)
             then (if egt (eswap l1 (size - 1) (Nat.div2 size)) 0 (size - 1)
                   then eswap (eswap l1 (size - 1) (Nat.div2 size)) 0 (size - 1)
                   else eswap l1 (size - 1) (Nat.div2 size))
             else l1).
  assert (P3 : Permutation l3 l).
  { unfold l3. destruct (egt l1 (size - 1) (Nat.div2 size)); [|exact P1].
    destruct (egt (eswap l1 (size - 1) (Nat.div2 size)) 0 (size - 1)).
    - eapply perm_trans; [apply eswap_perm|]. eapply perm_trans; [apply eswap_perm|exact P1].
    - eapply perm_trans; [apply eswap_perm|exact P1]. }
  pose proof (part_for_perm (fst (hget l3 (size - 1))) (size - 1) l3 0%nat 0%nat) as P4.
  pose proof (part_for_store (fst (hget l3 (size - 1))) (size - 1) l3 0%nat 0%nat) as S4.
  destruct (part_for l3 (fst (hget l3 (size - 1))) 0 (size - 1) 0) as [l4 store]. cbn [fst snd] in P4, S4.
  set (l5 := eswap l4 store (size - 1)).
  assert (P5 : Permutation l5 l) by (unfold l5; eapply perm_trans; [apply eswap_perm|]; eapply perm_trans; [exact P4|exact P3]).
  assert (L5 : length l5 = size) by (apply Permutation_length; exact P5).
  assert (Hsize : (1 < size)%nat) by exact E1.
  assert (Hst : (store < length l5)%nat) by lia.
  pose proof (set_nth_split l5 store (None, 0%nat) Hst) as El5. fold (hget l5 store) in El5.
  apply Permutation_trans with (firstn store l5 ++ hget l5 store :: skipn (S store) l5); [|rewrite <- El5; exact P5].
  apply Permutation_app.
  - destruct (1 <? store)%nat; [apply IH|apply Permutation_refl].
  - apply perm_skip. destruct (store + 2 <? size)%nat; [apply IH|apply Permutation_refl].
Qed.

(* ------------------------------------------------------------------ the query as a whole *)
Section Query.
Variable dist : pt -> pt -> Q.
Variable nfeat : nat.
Variable data : list pt.
Variable okp : pt -> Prop.
Hypothesis okp_centroid : forall idxs, okp (centroid nfeat data idxs).
Hypothesis okp_data : forall i, (i < length data)%nat -> okp (getp data i).
Hypothesis d_nonneg : forall a b, okp a -> okp b -> 0 <= dist a b.
Hypothesis d_sym : forall a b, okp a -> okp b -> dist a b == dist b a.
Hypothesis d_tri : forall a b c, okp a -> okp b -> okp c -> dist a c <= dist a b + dist b c.

Lemma nheap_load_length t k q : length (nheap_load dist data t k q) = k.
Proof.
  unfold nheap_load. rewrite qdf_length by (intros; apply nheap_push_length).
  unfold nheap_init. apply repeat_length.
Qed.

Lemma knn_query_correct leaf k q res :
  okp q -> (0 < k)%nat ->
  knn_query dist data (btree_init dist nfeat data leaf) k q = Some res ->
  length res = k /\
  (forall e, In e res -> exists v, fst e = Some v /\ (snd e < length data)%nat /\ v == dist q (getp data (snd e))) /\
  NoDup (map snd res) /\
  (forall e j, In e res -> (j < length data)%nat -> ~ In j (map snd res) ->
               ext_le (fst e) (Some (dist q (getp data j))) = true).
Proof.
  intros Hq Hk. unfold knn_query. destruct (length data <? k)%nat eqn:E; [discriminate|].
  apply Nat.ltb_ge in E. intro H. injection H as <-.
  set (t := btree_init dist nfeat data leaf).
  destruct (btree_init_spec dist nfeat data okp okp_centroid leaf) as [Pt Wt]. fold t in Pt, Wt.
  assert (NDt : NoDup (pts_of t)) by (apply (Permutation_NoDup (Permutation_sym Pt)), seq_NoDup).
  assert (Lt : length (pts_of t) = length data) by (rewrite (Permutation_length Pt); apply seq_length).
  assert (Hin : forall j, In j (pts_of t) <-> (j < length data)%nat).
  { intro j. split; intro Hj.
    - apply (Permutation_in _ Pt) in Hj. apply in_seq in Hj. lia.
    - apply (Permutation_in _ (Permutation_sym Pt)). apply in_seq. lia. }
  assert (Hok : forall i, In i (pts_of t) -> okp (getp data i)) by (intros i Hi; apply okp_data, Hin, Hi).
  pose proof (knn_heap_correct dist data okp d_nonneg d_sym d_tri good_heap good_heap_top good_heap_push q Hq good_heap_init
                t k Hk ltac:(lia) Wt Hok NDt (nheap_load_length t k q)) as [C1 [C2 C3]].
  set (h := nheap_load dist data t k q) in *.
  pose proof (ssort_perm (length h) h) as Ps.
  split; [rewrite (Permutation_length Ps); apply nheap_load_length|].
  split; [|split].
  - intros e He. apply (Permutation_in _ Ps) in He. destruct (C1 e He) as [v [E1 [E2 E3]]].
    exists v. split; [exact E1|]. split; [apply Hin; exact E2|exact E3].
  - apply (Permutation_NoDup (Permutation_map snd (Permutation_sym Ps))). exact C2.
  - intros e j He Hj Hnot. apply (Permutation_in _ Ps) in He.
    apply (C3 e j He); [apply Hin; exact Hj|].
    intro C. apply Hnot. apply (Permutation_in _ (Permutation_map snd (Permutation_sym Ps))). exact C.
Qed.

(* a query with k > n is refused *)
Lemma knn_query_refused t k q : (length data < k)%nat -> knn_query dist data t k q = None.
Proof. intro H. unfold knn_query. rewrite (proj2 (Nat.ltb_lt _ _) H). reflexivity. Qed.

End Query.

(* ------------------------------------------------------------------ instance: Manhattan distance on coordinate lists of length nfeat *)
Lemma manhattan_nonneg a : forall b, 0 <= manhattan a b.
Proof.
  induction a as [|x a IH]; intro b; [cbn; lra|]. destruct b as [|y b]; [cbn; lra|].
  cbn [manhattan]. pose proof (Qabs_nonneg (x - y)). specialize (IH b). lra.
Qed.
Lemma manhattan_sym a : forall b, manhattan a b == manhattan b a.
Proof.
  induction a as [|x a IH]; intro b; [destruct b; reflexivity|]. destruct b as [|y b]; [reflexivity|].
  cbn [manhattan]. rewrite IH. setoid_replace (x - y) with (- (y - x)) by ring. rewrite Qabs_opp. reflexivity.
Qed.
Lemma manhattan_tri n : forall a b c, length a = n -> length b = n -> length c = n ->
  manhattan a c <= manhattan a b + manhattan b c.
Proof.
  induction n as [|n IH]; intros a b c Ha Hb Hc.
  - destruct a; [|discriminate]. cbn. pose proof (manhattan_nonneg b c). lra.
  - destruct a as [|x a], b as [|y b], c as [|z c]; try discriminate.
    cbn [manhattan]. specialize (IH a b c ltac:(cbn in Ha; lia) ltac:(cbn in Hb; lia) ltac:(cbn in Hc; lia)).
    pose proof (Qabs_triangle (x - y) (y - z)) as T.
    setoid_replace (x - y + (y - z)) with (x - z) in T by ring. lra.
Qed.
Lemma centroid_length nfeat data idxs : length (centroid nfeat data idxs) = nfeat.
Proof. unfold centroid. rewrite map_length, seq_length. reflexivity. Qed.

Lemma knn_manhattan_correct nfeat (data : list pt) leaf k q res :
  (forall x, In x data -> length x = nfeat) -> length q = nfeat -> (0 < k)%nat ->
  knn_query manhattan data (btree_init manhattan nfeat data leaf) k q = Some res ->
  length res = k /\
  (forall e, In e res -> exists v, fst e = Some v /\ (snd e < length data)%nat /\ v == manhattan q (getp data (snd e))) /\
  NoDup (map snd res) /\
  (forall e j, In e res -> (j < length data)%nat -> ~ In j (map snd res) ->
               ext_le (fst e) (Some (manhattan q (getp data j))) = true).
Proof.
  intros Hd Hq Hk.
  apply (knn_query_correct manhattan nfeat data (fun x => length x = nfeat)).
  - intro idxs. apply centroid_length.
  - intros i Hi. apply Hd. unfold getp. apply nth_In. exact Hi.
  - intros a b _ _. apply manhattan_nonneg.
  - intros a b _ _. apply manhattan_sym.
  - intros a b c Ha Hb Hc. apply (manhattan_tri nfeat); assumption.
  - exact Hq.
  - exact Hk.
Qed.

(* C06 proofs: the decisions on squares of KnnE.v are the comparisons of square roots they stand for.
   Stated over R: the roots are given as non-negative reals x with x*x = Q2R a (and, as corollaries, as sqrt). *)
From Coq Require Import QArith Qreals Reals Lra Bool.
From Gst Require Import lib.QAux C06.KnnE.
Local Open Scope R_scope.

Lemma Qlt_iff_R p q : (p < q)%Q <-> Q2R p < Q2R q.
Proof. split; [apply Qlt_Rlt|apply Rlt_Qlt]. Qed.
Lemma Qle_iff_R p q : (p <= q)%Q <-> Q2R p <= Q2R q.
Proof. split; [apply Qle_Rle|apply Rle_Qle]. Qed.
Lemma Q2R_0 : Q2R 0 = 0.
Proof. unfold Q2R. cbn. lra. Qed.
Lemma Q2R_4 : Q2R 4 = 4.
Proof. unfold Q2R. cbn. lra. Qed.
Lemma Q2R_2 : Q2R 2 = 2.
Proof. unfold Q2R. cbn. lra. Qed.

Ltac q2r := repeat (rewrite Q2R_minus || rewrite Q2R_plus || rewrite Q2R_mult); rewrite ?Q2R_0, ?Q2R_4, ?Q2R_2.

(* real cores *)
Lemma core_diff x y z : 0 <= x -> 0 <= y -> 0 <= z ->
  (x - y > z <-> 0 < x*x - y*y - z*z /\ 4 * (y*y) * (z*z) < (x*x - y*y - z*z) * (x*x - y*y - z*z)).
Proof.
  intros Hx Hy Hz. split.
  - intro H. assert (x > y + z) by lra. assert (0 <= y * z) by nra.
    assert (x*x - y*y - z*z > 2 * (y * z)) by nra. split; nra.
  - intros [H1 H2]. destruct (Rlt_le_dec (y + z) x) as [L|L]; [lra|exfalso].
    assert (0 <= y * z) by nra.
    assert (x*x - y*y - z*z <= 2 * (y * z)) by nra. nra.
Qed.

Lemma core_lin_pos c u v : 0 <= c -> 0 <= u -> 0 <= v ->
  (c + u <= v <-> 0 <= v*v - c*c - u*u /\ 4 * (c*c) * (u*u) <= (v*v - c*c - u*u) * (v*v - c*c - u*u)).
Proof.
  intros Hc Hu Hv. split.
  - intro H. assert (0 <= c * u) by nra. assert (2 * (c * u) <= v*v - c*c - u*u) by nra. split; nra.
  - intros [H1 H2]. destruct (Rle_lt_dec (c + u) v) as [L|L]; [exact L|exfalso].
    assert (0 <= c * u) by nra. assert (v*v - c*c - u*u < 2 * (c * u)) by nra. nra.
Qed.

Lemma core_lin_neg c u v : c < 0 -> 0 <= u -> 0 <= v ->
  (c + u <= v <-> u*u - v*v - c*c <= 0 \/ (u*u - v*v - c*c) * (u*u - v*v - c*c) <= 4 * (c*c) * (v*v)).
Proof.
  intros Hc Hu Hv. assert (0 <= (- c) * v) by nra. split.
  - intro H0. destruct (Rle_lt_dec (u*u - v*v - c*c) 0) as [L|L]; [left; exact L|right].
    assert (u*u - v*v - c*c <= 2 * ((- c) * v)) by nra. nra.
  - intros [H1|H1].
    + destruct (Rle_lt_dec (c + u) v) as [L|L]; [exact L|exfalso]. nra.
    + destruct (Rle_lt_dec (c + u) v) as [L|L]; [exact L|exfalso].
      assert (u*u - v*v - c*c > 2 * ((- c) * v)) by nra. nra.
Qed.

(* the decisions *)
Lemma sqrt_diff_gt_correct a r b x y z :
  0 <= x -> 0 <= y -> 0 <= z -> x*x = Q2R a -> y*y = Q2R r -> z*z = Q2R b ->
  (sqrt_diff_gt a r b = true <-> x - y > z).
Proof.
  intros Hx Hy Hz Ea Er Eb. unfold sqrt_diff_gt.
  rewrite andb_true_iff, !qltb_true, !Qlt_iff_R. q2r. rewrite <- Ea, <- Er, <- Eb.
  rewrite (core_diff x y z Hx Hy Hz). tauto.
Qed.

Lemma lin_sqrt_le_correct c x y u v :
  0 <= u -> 0 <= v -> u*u = Q2R x -> v*v = Q2R y ->
  (lin_sqrt_le c x y = true <-> Q2R c + u <= v).
Proof.
  intros Hu Hv Ex Ey. unfold lin_sqrt_le.
  destruct (qleb_spec 0 c) as [C|C].
  - apply Qle_iff_R in C. rewrite Q2R_0 in C.
    rewrite andb_true_iff, !qleb_true, !Qle_iff_R. q2r. rewrite <- Ex, <- Ey.
    rewrite (core_lin_pos (Q2R c) u v C Hu Hv). tauto.
  - apply Qnot_le_lt in C. assert (C' : Q2R c < 0) by (apply Qlt_iff_R in C; rewrite Q2R_0 in C; exact C).
    rewrite orb_true_iff, !qleb_true, !Qle_iff_R. q2r. rewrite <- Ex, <- Ey.
    rewrite (core_lin_neg (Q2R c) u v C' Hu Hv). tauto.
Qed.

Lemma sqrt_sum_le_correct a1 r2 a2 r1 x1 y2 x2 y1 :
  0 <= x1 -> 0 <= y2 -> 0 <= x2 -> 0 <= y1 ->
  x1*x1 = Q2R a1 -> y2*y2 = Q2R r2 -> x2*x2 = Q2R a2 -> y1*y1 = Q2R r1 ->
  (sqrt_sum_le a1 r2 a2 r1 = true <-> x1 + y2 <= x2 + y1).
Proof.
  intros H1 H2 H3 H4 E1 E2 E3 E4. unfold sqrt_sum_le.
  rewrite (lin_sqrt_le_correct _ _ _ (x1 * y2) (x2 * y1)); try nra.
  - unfold Qdiv. rewrite Q2R_mult, Q2R_inv by (intro C; discriminate C). q2r.
    rewrite <- E1, <- E2, <- E3, <- E4. split; intro H.
    + destruct (Rle_lt_dec (x1 + y2) (x2 + y1)) as [L|L]; [exact L|exfalso]. nra.
    + nra.
  - rewrite Q2R_mult, <- E1, <- E2. ring.
  - rewrite Q2R_mult, <- E3, <- E4. ring.
Qed.

Lemma bound_le_correct a1 r1 a2 r2 x1 y1 x2 y2 :
  0 <= x1 -> 0 <= y1 -> 0 <= x2 -> 0 <= y2 ->
  x1*x1 = Q2R a1 -> y1*y1 = Q2R r1 -> x2*x2 = Q2R a2 -> y2*y2 = Q2R r2 ->
  (bound_le a1 r1 a2 r2 = true <-> Rmax 0 (x1 - y1) <= Rmax 0 (x2 - y2)).
Proof.
  intros H1 H2 H3 H4 E1 E2 E3 E4. unfold bound_le.
  assert (M1 : forall x y, 0 <= x -> 0 <= y -> (x*x <= y*y <-> x <= y)) by (intros; split; intro; nra).
  destruct (qleb_spec a1 r1) as [C1|C1].
  - apply Qle_iff_R in C1. rewrite <- E1, <- E2 in C1. apply (proj1 (M1 x1 y1 H1 H2)) in C1.
    split; [intros _|reflexivity]. rewrite (Rmax_left 0 (x1 - y1)) by lra. apply Rmax_l.
  - apply Qnot_le_lt in C1. apply Qlt_iff_R in C1. rewrite <- E1, <- E2 in C1. assert (y1 < x1) by nra.
    rewrite (Rmax_right 0 (x1 - y1)) by lra.
    destruct (qleb_spec a2 r2) as [C2|C2].
    + apply Qle_iff_R in C2. rewrite <- E3, <- E4 in C2. apply (proj1 (M1 x2 y2 H3 H4)) in C2.
      rewrite (Rmax_left 0 (x2 - y2)) by lra. split; [discriminate|intro; lra].
    + apply Qnot_le_lt in C2. apply Qlt_iff_R in C2. rewrite <- E3, <- E4 in C2. assert (y2 < x2) by nra.
      rewrite (Rmax_right 0 (x2 - y2)) by lra.
      rewrite (sqrt_sum_le_correct a1 r2 a2 r1 x1 y2 x2 y1); try assumption. split; intro; lra.
Qed.

(* with the square-root function *)
Lemma sqrt_diff_gt_sqrt a r b : (0 <= a)%Q -> (0 <= r)%Q -> (0 <= b)%Q ->
  (sqrt_diff_gt a r b = true <-> sqrt (Q2R a) - sqrt (Q2R r) > sqrt (Q2R b)).
Proof.
  intros Ha Hr Hb. apply Qle_iff_R in Ha, Hr, Hb. rewrite Q2R_0 in Ha, Hr, Hb.
  apply sqrt_diff_gt_correct; try apply sqrt_pos; apply sqrt_sqrt; assumption.
Qed.
Lemma bound_le_sqrt a1 r1 a2 r2 : (0 <= a1)%Q -> (0 <= r1)%Q -> (0 <= a2)%Q -> (0 <= r2)%Q ->
  (bound_le a1 r1 a2 r2 = true <->
   Rmax 0 (sqrt (Q2R a1) - sqrt (Q2R r1)) <= Rmax 0 (sqrt (Q2R a2) - sqrt (Q2R r2))).
Proof.
  intros A1 R1 A2 R2. apply Qle_iff_R in A1, R1, A2, R2. rewrite Q2R_0 in A1, R1, A2, R2.
  apply bound_le_correct; try apply sqrt_pos; apply sqrt_sqrt; assumption.
Qed.
(* pruning test of query_depth_first against a finite top of the heap *)
Lemma bound_gt_top_sqrt a r b : (0 <= a)%Q -> (0 <= r)%Q -> (0 <= b)%Q ->
  (bound_gt_top a r (Some b) = true <-> Rmax 0 (sqrt (Q2R a) - sqrt (Q2R r)) > sqrt (Q2R b)).
Proof.
  intros Ha Hr Hb. cbn [bound_gt_top]. rewrite (sqrt_diff_gt_sqrt a r b Ha Hr Hb).
  pose proof (sqrt_pos (Q2R b)) as P. unfold Rmax. destruct (Rle_dec 0 (sqrt (Q2R a) - sqrt (Q2R r))); split; intro; lra.
Qed.

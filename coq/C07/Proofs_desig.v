(* C07: in a state satisfying the invariant every designator of a column (index, uid, role+rank, name)
   leads to the same column and the same data *)
From Coq Require Import List ZArith Bool Arith Lia.
From Gst Require Import C07.Model C07.Spec C07.Proofs_lists C07.Proofs_names C07.Proofs_inv C07.Proofs_reach.
Import ListNotations.

Lemma opt_is_true c o : opt_is c o = true <-> o = Some c.
Proof.
  destruct o as [c'|]; simpl; split; intro H; try discriminate.
  - apply Nat.eqb_eq in H. now subst.
  - inversion H. apply Nat.eqb_refl.
Qed.

Section Desig.
Variable s : state.
Hypothesis HI : Inv s.

Lemma col_of_uid_bound u c : col_of_uid s u = Some c -> c < ncol s.
Proof. intro H. apply col_of_uid_some in H. destruct HI as [_ [Hu _]]. eapply uid_ok_bound; eauto. Qed.
Lemma col_of_uid_inj u1 u2 c : col_of_uid s u1 = Some c -> col_of_uid s u2 = Some c -> u1 = u2.
Proof.
  intros H1 H2. apply col_of_uid_some in H1. apply col_of_uid_some in H2.
  destruct HI as [_ [Hu _]]. eapply uid_ok_inj; eauto.
Qed.
Lemma uid_of_col_some c u : uid_of_col s c = Some u -> col_of_uid s u = Some c.
Proof.
  unfold uid_of_col. destruct (c <? ncol s); try discriminate. intro H.
  apply find_index_some in H. destruct H as [x [H1 [H2 _]]]. apply opt_is_true in H2. subst.
  now apply col_of_uid_some.
Qed.
Lemma uid_of_col_ex c : c < ncol s -> exists u, uid_of_col s c = Some u.
Proof.
  intro Hc. unfold uid_of_col. replace (c <? ncol s) with true by (symmetry; now apply Nat.ltb_lt).
  destruct (find_index (opt_is c) (uidcol s)) eqn:E; eauto.
  destruct HI as [_ [Hu _]]. destruct (uid_ok_surj _ _ c Hu Hc) as [u Hn].
  apply nth_error_In in Hn. pose proof (find_index_none _ _ E _ Hn) as F. simpl in F.
  now rewrite Nat.eqb_refl in F.
Qed.
Lemma uid_of_col_iff c u : uid_of_col s c = Some u <-> col_of_uid s u = Some c.
Proof.
  split. apply uid_of_col_some. intro H.
  destruct (uid_of_col_ex c (col_of_uid_bound _ _ H)) as [u' Hu'].
  pose proof (uid_of_col_some _ _ Hu') as H'. rewrite (col_of_uid_inj _ _ _ H H'). exact Hu'.
Qed.

(* ---- role + rank *)
Lemma loc_entry_unique t k u t0 i u0 c :
  nth_error (loc s t) k = Some u -> col_of_uid s u = Some c ->
  nth_error (loc s t0) i = Some u0 -> col_of_uid s u0 = Some c -> t0 = t /\ i = k.
Proof.
  intros Hk Hu Hi Hu0. assert (u0 = u) by (eapply col_of_uid_inj; eauto). subst u0.
  destruct HI as [_ [_ [_ [Hnd [_ Hdis]]]]].
  assert (t0 = t) by (eapply Hdis; eapply nth_error_In; eauto). subst t0. split; auto.
  eapply NoDup_nth_error_inj; eauto.
Qed.
Lemma find_loc_from_spec c t k u ts :
  nth_error (loc s t) k = Some u -> col_of_uid s u = Some c -> In t ts ->
  find_loc_from s c ts = Some (t, k).
Proof.
  intros Hk Hu. induction ts as [|t0 ts IH]; intro Hin; simpl in *; try contradiction.
  destruct (find_index (fun u0 => opt_is c (col_of_uid s u0)) (loc s t0)) as [i|] eqn:E.
  - apply find_index_some in E. destruct E as [x [H1 [H2 _]]]. apply opt_is_true in H2.
    destruct (loc_entry_unique _ _ _ _ _ _ _ Hk Hu H1 H2) as [-> ->]. reflexivity.
  - destruct Hin as [->|Hin]; auto.
    apply nth_error_In in Hk. pose proof (find_index_none _ _ E _ Hk) as F. simpl in F.
    rewrite Hu in F. simpl in F. now rewrite Nat.eqb_refl in F.
Qed.
Lemma find_loc_from_some c ts t k :
  find_loc_from s c ts = Some (t, k) ->
  exists u, nth_error (loc s t) k = Some u /\ col_of_uid s u = Some c.
Proof.
  induction ts as [|t0 ts IH]; simpl; try discriminate.
  destruct (find_index (fun u0 => opt_is c (col_of_uid s u0)) (loc s t0)) as [i|] eqn:E; auto.
  intro H; inversion H; subst. apply find_index_some in E. destruct E as [x [H1 [H2 _]]].
  apply opt_is_true in H2. eauto.
Qed.
Lemma col_of_loc_nth t k u : nth_error (loc s t) k = Some u -> col_of_loc s t k = col_of_uid s u.
Proof.
  intro H. unfold col_of_loc. assert (k < length (loc s t)) by (apply nth_error_Some; congruence).
  replace (k <? length (loc s t)) with true by (symmetry; now apply Nat.ltb_lt).
  now rewrite (nth_error_nth _ _ 0 H).
Qed.

(* ---- names *)
Lemma rmatch_refl n : rmatch n n = true.
Proof. induction n as [|c n IH]; simpl; auto. rewrite Z.eqb_refl, orb_true_r. exact IH. Qed.
Lemma filter_none {A} (f : A -> bool) l : (forall y, In y l -> f y = false) -> filter f l = [].
Proof.
  induction l as [|y l IH]; simpl; auto. intro H. rewrite (H y) by now left. apply IH. intros; apply H; now right.
Qed.
Lemma filter_single {A} (f : A -> bool) l x :
  NoDup l -> In x l -> f x = true -> (forall y, In y l -> f y = true -> y = x) -> filter f l = [x].
Proof.
  induction l as [|y l IH]; intros Hnd Hin Hf Hu; simpl in *; try contradiction.
  inversion Hnd; subst. destruct Hin as [->|Hin].
  - rewrite Hf. f_equal. apply filter_none. intros z Hz. destruct (f z) eqn:E; auto.
    exfalso. apply H1. rewrite <- (Hu z); auto.
  - destruct (f y) eqn:E.
    + exfalso. assert (y = x) by (apply Hu; auto). subst. contradiction.
    + apply IH; auto.
Qed.
(* a stored name designates itself (exact match has priority over the reading as a pattern) *)
Lemma name_lookup c n :
  nth_error (names s) c = Some n ->
  expand1 (names s) n = [n] /\ rank_in_list (names s) n = Some c.
Proof.
  intros Hc. destruct HI as [_ [_ [Hnd _]]]. unfold Inv_names in Hnd. split.
  - unfold expand1. replace (mem_name n (names s)) with true; auto.
    symmetry. apply mem_name_In. eapply nth_error_In; eauto.
  - unfold rank_in_list.
    rewrite (find_index_first (fun x => name_eqb x n) (names s) c n); auto.
    + now apply name_eqb_eq.
    + intros j y Hj Hy. destruct (name_eqb y n) eqn:E; auto. apply name_eqb_eq in E. subst y.
      assert (j = c) by (eapply NoDup_nth_error_inj; eauto). lia.
Qed.

(* C07_designators *)
Lemma designators c :
  c < ncol s ->
  exists u,
    uid_of_col s c = Some u /\ col_of_uid s u = Some c /\
    (forall u', col_of_uid s u' = Some c -> u' = u) /\
    column_of_uid s u = column s c /\
    (forall t k, t < NLOC -> nth_error (loc s t) k = Some u ->
       col_of_loc s t k = Some c /\ loc_of_col s c = Some (t, k) /\ column_of_loc s t k = column s c) /\
    (forall t k, loc_of_col s c = Some (t, k) -> nth_error (loc s t) k = Some u) /\
    (forall n, nth_error (names s) c = Some n ->
       colidx_of_name s n = Some c /\ uid_of_name s n = Some u /\ column_of_name s n = column s c).
Proof.
  intro Hc. destruct (uid_of_col_ex c Hc) as [u Hu]. exists u.
  pose proof (uid_of_col_some _ _ Hu) as Hcu.
  assert (Hcol : column_of_uid s u = column s c) by (unfold column_of_uid; now rewrite Hcu).
  split; [|split; [|split; [|split; [|split; [|split]]]]]; auto.
  - intros u' H'. eapply col_of_uid_inj; eauto.
  - intros t k Ht Hk. assert (E : col_of_loc s t k = Some c) by (rewrite (col_of_loc_nth _ _ _ Hk); exact Hcu).
    split; [|split]; auto.
    + unfold loc_of_col. eapply find_loc_from_spec; eauto. apply in_seq. lia.
    + unfold column_of_loc. now rewrite E.
  - intros t k H. apply find_loc_from_some in H. destruct H as [u' [H1 H2]].
    rewrite (col_of_uid_inj _ _ _ H2 Hcu) in H1. exact H1.
  - intros n Hn. destruct (name_lookup c n Hn) as [E1 E2].
    assert (Eids : ids_name s n true = [u]).
    { unfold ids_name, uids_basic. rewrite E1. simpl. rewrite E2, Hu. reflexivity. }
    split; [|split].
    + unfold colidx_of_name. rewrite E1. exact E2.
    + unfold uid_of_name. rewrite Eids, Hcu. exact Hu.
    + unfold column_of_name. rewrite Eids. exact Hcol.
Qed.

(* C07_counts *)
Lemma counts :
  ncol s = length (names s) /\ ncol s = length (arr s) /\
  ncol s = length (filter (live s) (seq 0 (uidmax s))) /\
  (forall c, c < ncol s -> length (column s c) = nech s) /\
  nech s = length (map (is_active s) (seq 0 (nech s))).
Proof.
  destruct HI as [[Ha [Hn Hcol]] [Hu _]]. split; [|split; [|split; [|split]]]; auto.
  - (* number of live uids *)
    unfold Inv_uid, uid_ok in Hu. rewrite <- (seq_length (ncol s) 0), <- Hu, <- live_count.
    unfold uidmax. f_equal. apply filter_ext. intro u. unfold live, col_of_uid.
    destruct (nth_error (uidcol s) u) as [[c|]|]; reflexivity.
  - intros c Hc. unfold column. replace (c <? ncol s) with true by (symmetry; now apply Nat.ltb_lt).
    now rewrite map_length, seq_length.
  - now rewrite map_length, seq_length.
Qed.
End Desig.

(* reported number of active samples = number of samples reported active *)
Lemma active_count s : active_number s = length (filter (is_active s) (seq 0 (nech s))).
Proof.
  unfold active_number. destruct (loc s SEL) as [|u0 l0] eqn:E; auto.
  assert (F : filter (is_active s) (seq 0 (nech s)) = seq 0 (nech s)).
  { rewrite <- (app_nil_r (seq 0 (nech s))) at 2. induction (seq 0 (nech s)); simpl; auto.
    unfold is_active at 1. rewrite E. now rewrite IHl, app_nil_r. }
  now rewrite F, seq_length.
Qed.

(* ------------------------------------------------------------------ non-vacuity witnesses *)
(* a Db with a deleted middle column, roles on two types, a repaired duplicate name, a selection *)
Definition nv_ops : list op :=
  [AddCols 4 (Some 7%Z) [112%Z] (Some 1) 0 3; DelUID 1; AddCols 1 None [97%Z] (Some 3) 0 0;
   AddCols 1 (Some 2%Z) [97%Z] None 0 0; SetArray 1 2 (Some 9%Z)].
Definition nv_state : state := run_ops nv_ops.
Definition nv_sel_state : state := step nv_state (AddSel [Some 1; Some 0; Some 5]%Z [115%Z]).
Lemma nv_inv : Inv nv_state /\ Inv nv_sel_state.
Proof.
  assert (H : Inv nv_state).
  { apply Proofs_reach.reachable_inv. apply Proofs_reach.all_acceptedb_spec. vm_compute. reflexivity. }
  split; auto. apply step_inv; auto. reflexivity.
Qed.

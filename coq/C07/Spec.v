(* C07 spec: the invariant "a Db is a consistent table", the guard under which each editor preserves it,
   and the executable check of the same invariant on a tuple of *observations* (what the public getters
   return), which is what the search step evaluates on the implementation's answers. *)
From Coq Require Import List ZArith Bool Arith.
From Gst Require Import C07.Model.
Import ListNotations.

(* ------------------------------------------------------------------ the invariant *)
Definition live_list (l : list (option nat)) : list nat :=
  flat_map (fun o => match o with Some c => [c] | None => [] end) l.
Definition live_in (uc : list (option nat)) (u : nat) : Prop := exists c, nth_error uc u = Some (Some c).
Definition is_live (s : state) (u : nat) : Prop := live_in (uidcol s) u.

(* rectangular: _ncol columns, _ncol names, every column has _nech cells *)
Definition shape_ok (nc ne : nat) (a : list (list val)) (nm : list name) : Prop :=
  length a = nc /\ length nm = nc /\ forall col, In col a -> length col = ne.
(* the uid table restricted to live uids enumerates the columns 0.._ncol-1 (in this order: columns are
   only ever appended or removed), hence is a bijection between live uids and [0, ncol) *)
Definition uid_ok (nc : nat) (uc : list (option nat)) : Prop := live_list uc = seq 0 nc.
(* role lists: no uid twice in a list, every uid of a list is live, no uid in two lists.
   (With this, "roles of a type are numbered 1..n consecutively" is the list representation itself: rank k
   of type t is held by exactly one column, for every k < n.) *)
Definition loc_ok (uc : list (option nat)) (f : nat -> list nat) : Prop :=
  (forall t, NoDup (f t)) /\
  (forall t u, In u (f t) -> live_in uc u) /\
  (forall t1 t2 u, In u (f t1) -> In u (f t2) -> t1 = t2).

Definition Inv_shape (s : state) : Prop := shape_ok (ncol s) (nech s) (arr s) (names s).
Definition Inv_uid (s : state) : Prop := uid_ok (ncol s) (uidcol s).
Definition Inv_names (s : state) : Prop := NoDup (names s).
Definition Inv_loc (s : state) : Prop := loc_ok (uidcol s) (loc s).
Definition Inv (s : state) : Prop := Inv_shape s /\ Inv_uid s /\ Inv_names s /\ Inv_loc s.

(* ------------------------------------------------------------------ guards *)
(* reason codes: 0 accepted; 9 arguments for which the library itself is undefined; 1 locator index beyond the current count (the only guard left: the library pads the
   role list with uid 0, finding setLocatorByUID:index-beyond-count) *)
Definition ok_loc1 (u : Z) (t : loctype) (k : nat) (s : state) : Z :=
  match zidx u (uidmax s) with
  | None => 0%Z
  | Some u' =>
      if negb (live s u') then 0%Z       (* deleted column: the call does nothing *)
      else match t with
           | None => 0%Z
           | Some t' => if k <=? length (erase1 u' (loc s t')) then 0%Z else 1%Z
           end
  end.
Fixpoint ok_loc_seq (us : list Z) (t : loctype) (k : nat) (s : state) : Z :=
  match us with
  | [] => 0%Z
  | u :: r => let c := ok_loc1 u t k s in
              if (c =? 0)%Z then ok_loc_seq r t (S k) (set_loc1 u t k s) else c
  end.
Definition ok_locs (us : list Z) (t : loctype) (k : Z) (clean : bool) (s : state) : Z :=
  let s1 := clean_if clean t s in ok_loc_seq us t (resolve_index t k s1) s1.
Definition ok_locs_ids (ids : list nat) (t : loctype) (k : Z) (clean : bool) (s : state) : Z :=
  match ids with [] => 0%Z | _ => ok_locs (map Z.of_nat ids) t k clean s end.
(* new columns get the ranks k, k+1, ..: no gap iff k <= current count (or k < 0: "next") *)
Definition add_ok (t : loctype) (k : Z) (s : state) : Z :=
  match t with
  | None => 0%Z
  | Some t' => if (k <? 0)%Z || (Z.to_nat k <=? length (loc s t')) then 0%Z else 1%Z
  end.
Definition why_not (s : state) (o : op) : Z :=
  match o with
  | AddCols nadd _ _ t k _ => if (nadd <=? 0)%Z then 0%Z else add_ok t k s
  | AddColsTab tab _ t k => match tab with [] => 0%Z | _ => add_ok t k s end
  | SetLocUID u t k cl =>
      match zidx u (uidmax s) with
      | None => 0%Z
      | Some u' => if live s u' then ok_locs [u] t k cl s else 0%Z
      end
  | SetLocCol c t k cl =>
      match zidx c (ncol s) with
      | None => 0%Z
      | Some c' => let u := oz (uid_of_col s c') in
                   match zidx u (uidmax s) with
                   | None => 0%Z
                   | Some u' => if live s u' then ok_locs [u] t k cl s else 0%Z
                   end
      end
  | SetLocName p t k cl => ok_locs_ids (ids_name s p false) t k cl s
  | SetLocsUID us t k cl => ok_locs us t k cl s
  | SetLocsRange n u t k cl => ok_locs (zrange u n) t k cl s
  | SetLocsCol cs t k cl => ok_locs (set_locs_col_uids cs s) t k cl s
  | SetLocsNames ps t k cl => ok_locs_ids (ids_names s ps) t k cl s
  | AddColsVVD tabs _ t k _ => match concat tabs with [] => 0%Z | _ => add_ok t k s end
  | SetColumnName tab p t k _ =>
      match ids_name s p true, tab with [], _ :: _ => add_ok t k s | _, _ => 0%Z end
  (* code 9: outside the domain of the library (it writes sel[rank] without checking the rank) *)
  | AddSelRanks ranks _ _ => if existsb (fun r => nech s <=? r) ranks then 9%Z else 0%Z
  | _ => 0%Z
  end.
Definition accepted (s : state) (o : op) : Prop := why_not s o = 0%Z.
(* a script (creator) is accepted when each of its calls is, in the state where it is made *)
Fixpoint script_why (s : state) (sc : list op) : Z :=
  match sc with
  | [] => 0%Z
  | o :: r => let c := why_not s o in if (c =? 0)%Z then script_why (step s o) r else c
  end.
Definition why_not_cmd (g : gstate) (c : cmd) : Z :=
  match c with
  | Do o => if fst g && is_sample_edit o then 0%Z else why_not (snd g) o
  | SubGrid _ _ _ _ _ | Migrate _ _ _ _ _ _ _ =>
      if fst g then let (sc, s0) := cmd_script (snd g) c in script_why s0 sc else 0%Z
  | _ => let (sc, s0) := cmd_script (snd g) c in script_why s0 sc
  end.
Definition accepted_cmd (g : gstate) (c : cmd) : Prop := why_not_cmd g c = 0%Z.

(* ------------------------------------------------------------------ the invariant on observations *)
Definition val_eqb (a b : val) : bool :=
  match a, b with
  | None, None => true
  | Some x, Some y => (x =? y)%Z
  | _, _ => false
  end.
Fixpoint list_eqb {A} (eqb : A -> A -> bool) (a b : list A) : bool :=
  match a, b with
  | [], [] => true
  | x :: a', y :: b' => eqb x y && list_eqb eqb a' b'
  | _, _ => false
  end.
Fixpoint nodup_names (l : list name) : bool :=
  match l with
  | [] => true
  | x :: r => negb (mem_name x r) && nodup_names r
  end.
Definition znth (l : list Z) (i : nat) : Z := nth i l (-2)%Z.
Definition bit (ok : bool) (w : Z) : Z := if ok then 0%Z else w.
Definition count_true (l : list bool) : nat := length (filter (fun b => b) l).

(* bits: 1 names unique; 2 reported sizes = content; 4 uid <-> column mutually inverse; 8 designation by name
   agrees; 16 every role (type, rank) is held by exactly one existing column and no column has two roles;
   32 getLocatorNumber = number of columns of that type; 64 reported active count = number of active samples;
   128 the same column is returned through every designator; 1024 cells read through the selection = active samples *)
Definition colloc_at (o : obs) (c : nat) : Z * Z := nth c (o_colloc o) ((-2)%Z, (-2)%Z).
Definition chk_names (o : obs) : bool := nodup_names (o_names o).
Definition chk_sizes (o : obs) : bool :=
  let nc := o_ncol o in
  (length (o_names o) =? nc) && (length (o_alluids o) =? nc) && (length (o_cols o) =? nc)
  && (length (o_col2uid o) =? nc) && (length (o_colloc o) =? nc)
  && forallb (fun col => length col =? o_nech o) (o_cols o)
  && (length (o_active o) =? o_nech o).
Definition chk_uid (o : obs) : bool :=
  forallb (fun c => let u := znth (o_col2uid o) c in
                    (0 <=? u)%Z && (znth (o_uid2col o) (Z.to_nat u) =? Z.of_nat c)%Z) (seq 0 (o_ncol o))
  && forallb (fun u => (0 <=? u)%Z && (0 <=? znth (o_uid2col o) (Z.to_nat u))%Z) (o_alluids o).
Definition chk_byname (o : obs) : bool :=
  forallb (fun c => (znth (o_name2col o) c =? Z.of_nat c)%Z
                    && (znth (o_name2uid o) c =? znth (o_col2uid o) c)%Z
                    && list_eqb val_eqb (nth c (o_cols_name o) []) (nth c (o_cols o) [])) (seq 0 (o_ncol o)).
Definition chk_roles (o : obs) : bool :=
  forallb (fun t =>
       let l := nth t (o_loccols o) [] in
       forallb (fun k => let c := znth l k in
                         (0 <=? c)%Z && (c <? Z.of_nat (o_ncol o))%Z
                         && (fst (colloc_at o (Z.to_nat c)) =? Z.of_nat t)%Z
                         && (snd (colloc_at o (Z.to_nat c)) =? Z.of_nat k)%Z) (seq 0 (length l)))
     (seq 0 NLOC)
  && forallb (fun c => let tk := colloc_at o c in
                       (fst tk <? 0)%Z
                       || (znth (nth (Z.to_nat (fst tk)) (o_loccols o) []) (Z.to_nat (snd tk))
                           =? Z.of_nat c)%Z) (seq 0 (o_ncol o)).
Definition chk_rolecount (o : obs) : bool :=
  forallb (fun t => length (nth t (o_loccols o) [])
                    =? length (filter (fun c => (fst (colloc_at o c) =? Z.of_nat t)%Z) (seq 0 (o_ncol o))))
          (seq 0 NLOC).
Definition chk_active (o : obs) : bool := o_nact o =? count_true (o_active o).
Definition chk_cols (o : obs) : bool :=
  forallb (fun c => list_eqb val_eqb (nth c (o_cols_uid o) []) (nth c (o_cols o) [])
                    && ((fst (colloc_at o c) <? 0)%Z
                        || list_eqb val_eqb (nth c (o_cols_loc o) []) (nth c (o_cols o) []))) (seq 0 (o_ncol o)).
(* the compressed column read through the selection has as many cells as there are active samples, the uncompressed
   one as many as there are samples. bit 1024 *)
Definition chk_selcols (o : obs) : bool :=
  forallb (fun col => length col =? o_nact o) (o_cols_selc o)
  && forallb (fun col => length col =? o_nech o) (o_cols_sel o).
Definition check_obs (o : obs) : Z :=
  (bit (chk_names o) 1 + bit (chk_sizes o) 2 + bit (chk_uid o) 4 + bit (chk_byname o) 8 + bit (chk_roles o) 16
   + bit (chk_rolecount o) 32 + bit (chk_active o) 64 + bit (chk_cols o) 128 + bit (chk_selcols o) 1024)%Z.

(* post-condition of the role setters, on observations: every existing column designated by the call
   carries the requested role type afterwards (none for UNKNOWN). bit 256 *)
Definition tz (t : loctype) : Z := match t with Some t' => Z.of_nat t' | None => (-1)%Z end.
Definition post_cols (cs : list Z) (t : loctype) (o : obs) : bool :=
  forallb (fun c => negb ((0 <=? c)%Z && (c <? Z.of_nat (o_ncol o))%Z)
                    || (fst (nth (Z.to_nat c) (o_colloc o) ((-2)%Z, (-2)%Z)) =? tz t)%Z) cs.
Definition post_uids (us : list Z) (t : loctype) (o : obs) : bool :=
  post_cols (map (fun u => if (0 <=? u)%Z then znth (o_uid2col o) (Z.to_nat u) else (-1)%Z) us) t o.
Definition post_bits (op0 : op) (o : obs) : Z :=
  match op0 with
  | SetLocUID u t _ _ => bit (post_uids [u] t o) 256
  | SetLocsUID us t _ _ => bit (post_uids us t o) 256
  | SetLocsRange n u t _ _ => bit (post_uids (zrange u n) t o) 256
  | SetLocCol c t _ _ => bit (post_cols [c] t o) 256
  | SetLocsCol cs t _ _ => bit (post_cols cs t o) 256
  | _ => 0%Z
  end.

(* frame condition on observations: a cell of a column (identified by its uid) that exists before and after
   the operation, at a sample that survives it, keeps its value unless the operation addresses it. bit 512 *)
Definition uid_cols (o : obs) : list (Z * list val) := combine (o_col2uid o) (o_cols o).
Fixpoint lookup_uid (u : Z) (l : list (Z * list val)) : option (list val) :=
  match l with
  | [] => None
  | p :: r => if (fst p =? u)%Z then Some (snd p) else lookup_uid u r
  end.
(* rank of sample e after the operation (deleteSample(s) shift the later ones) *)
Fixpoint remap_dels (es : list Z) (ne : nat) (e : nat) : option nat :=
  match es with
  | [] => Some e
  | d :: r =>
      match zidx d ne with
      | None => Some e
      | Some d' => if Nat.eqb e d' then None else remap_dels r (ne - 1) (if e <? d' then e else e - 1)
      end
  end.
Definition remap_sample (op0 : op) (nechB : nat) (e : nat) : option nat :=
  match op0 with
  | DelSample d => remap_dels [d] nechB e
  | DelSamples es => remap_dels (sort_desc es) nechB e
  | _ => Some e
  end.
(* cells an operation may write, [r] resolving a column index to the uid of that column before the call:
   setArray its cell, setValue(name) / setFromLocator the sample row (names and roles being resolved by the library),
   setValueByColIdx its cell, duplicateColumnByUID / setColumnBy* the target column, setColumn(name) anything *)
Definition addressed (r : Z -> Z) (op0 : op) (u : Z) (e : nat) : bool :=
  match op0 with
  | SetArray e' u' _ => (u =? u')%Z && (Z.of_nat e =? e')%Z
  | SetValue _ e' _ => (Z.of_nat e =? e')%Z
  | SetFromLoc _ e' _ _ => (Z.of_nat e =? e')%Z
  | SetValueCol e' c _ => (u =? r c)%Z && (Z.of_nat e =? e')%Z
  | DupCol _ uout => (u =? uout)%Z
  | SetColumnUID u' _ _ => (u =? u')%Z
  | SetColumnCol c _ _ => (u =? r c)%Z
  | SetColumnName _ _ _ _ _ => true
  | _ => false
  end.
Definition frame_ok (op0 : op) (b a : obs) : bool :=
  forallb (fun p =>
     match lookup_uid (fst p) (uid_cols a) with
     | None => true
     | Some colA =>
         forallb (fun e => match remap_sample op0 (o_nech b) e with
                           | None => true
                           | Some e' => addressed (fun c => if (0 <=? c)%Z then znth (o_col2uid b) (Z.to_nat c) else (-1)%Z)
                                                  op0 (fst p) e
                                        || val_eqb (nth e' colA None) (nth e (snd p) None)
                           end) (seq 0 (o_nech b))
     end) (uid_cols b).
Definition frame_bits (op0 : op) (b a : obs) : Z := bit (frame_ok op0 b a) 512.

(* C07: the duplicate-name repair of String.cpp terminates within its fuel and yields unique names *)
From Coq Require Import List ZArith Bool Arith Lia.
From Gst Require Import C07.Model C07.Spec C07.Proofs_lists.
Import ListNotations.

Lemma name_eqb_eq a b : name_eqb a b = true <-> a = b.
Proof.
  revert b; induction a as [|x a IH]; intros [|y b]; simpl; split; intro H; try discriminate; auto.
  - apply andb_true_iff in H. destruct H as [H1 H2]. apply Z.eqb_eq in H1. apply IH in H2. congruence.
  - inversion H; subst. apply andb_true_iff. split. apply Z.eqb_refl. now apply IH.
Qed.
Lemma mem_name_In x l : mem_name x l = true <-> In x l.
Proof.
  unfold mem_name. rewrite existsb_exists. split.
  - intros [y [H1 H2]]. apply name_eqb_eq in H2. now subst.
  - intro H. exists x. split; auto. now apply name_eqb_eq.
Qed.
Lemma mem_name_false x l : mem_name x l = false <-> ~ In x l.
Proof.
  split; intro H.
  - intro Hin. apply mem_name_In in Hin. congruence.
  - destruct (mem_name x l) eqn:E; auto. apply mem_name_In in E. contradiction.
Qed.

Definition count_ge (n : nat) (l : list name) : nat := length (filter (fun x => n <=? length x) l).
Lemma count_ge_mono n m l : n <= m -> count_ge m l <= count_ge n l.
Proof.
  intro H. unfold count_ge. induction l as [|x l IH]; simpl; auto.
  destruct (m <=? length x) eqn:E1; destruct (n <=? length x) eqn:E2; simpl; try lia.
  apply Nat.leb_le in E1. apply Nat.leb_gt in E2. lia.
Qed.
Lemma count_ge_strict n m l s : In s l -> length s = n -> n < m -> count_ge m l < count_ge n l.
Proof.
  intros Hin Hl Hlt. induction l as [|x l IH]; simpl in *; try contradiction.
  unfold count_ge in *. simpl.
  destruct Hin as [->|Hin].
  - replace (m <=? length s) with false by (symmetry; apply Nat.leb_gt; lia).
    replace (n <=? length s) with true by (symmetry; apply Nat.leb_le; lia).
    simpl. pose proof (count_ge_mono n m l). unfold count_ge in H. lia.
  - specialize (IH Hin).
    destruct (m <=? length x) eqn:E1; destruct (n <=? length x) eqn:E2; simpl; try lia.
    apply Nat.leb_le in E1. apply Nat.leb_gt in E2. lia.
Qed.
Lemma count_ge_le n l : count_ge n l <= length l.
Proof. unfold count_ge. induction l as [|x l IH]; simpl; auto. destruct (n <=? length x); simpl; lia. Qed.
Lemma length_bump s : length (bump s) = length s + 2.
Proof. unfold bump. rewrite app_length. simpl. lia. Qed.

(* the loop stops on a name that is not in [others], as soon as the fuel exceeds the number of
   names of [others] at least as long as the current candidate *)
Lemma repair_fresh_gen fuel others s :
  count_ge (length s) others < fuel -> ~ In (repair fuel others s) others.
Proof.
  revert s; induction fuel as [|f IH]; intros s H; simpl. lia.
  destruct (mem_name s others) eqn:E.
  - apply mem_name_In in E. apply IH.
    pose proof (count_ge_strict (length s) (length (bump s)) others s E eq_refl).
    rewrite length_bump in *. lia.
  - now apply mem_name_false.
Qed.
Lemma repair_fresh others s : ~ In (repair (S (length others)) others s) others.
Proof. apply repair_fresh_gen. pose proof (count_ge_le (length s) others). lia. Qed.
Lemma repair_id fuel others s : ~ In s others -> repair (S fuel) others s = s.
Proof. intro H. simpl. apply mem_name_false in H. now rewrite H. Qed.

(* correctNamesForDuplicates *)
Lemma fix_names_spec done todo :
  NoDup done -> NoDup (fix_names done todo) /\ length (fix_names done todo) = length done + length todo.
Proof.
  revert done; induction todo as [|s r IH]; intros done H; cbn [fix_names length].
  - split; auto.
  - destruct (IH (done ++ [repair (S (length done)) done s])) as [H1 H2].
    + apply NoDup_snoc; auto. apply repair_fresh.
    + split; auto. rewrite H2, app_length. cbn [length]. lia.
Qed.
Lemma correct_names_NoDup l : NoDup (correct_names l).
Proof. apply fix_names_spec. constructor. Qed.
Lemma correct_names_length l : length (correct_names l) = length l.
Proof. unfold correct_names. destruct (fix_names_spec [] l) as [_ H]. constructor. exact H. Qed.
Lemma fix_names_id done todo : NoDup (done ++ todo) -> fix_names done todo = done ++ todo.
Proof.
  revert done; induction todo as [|s r IH]; intros done H; cbn [fix_names]. now rewrite app_nil_r.
  rewrite repair_id.
  - rewrite IH; rewrite <- app_assoc; simpl; auto.
  - apply NoDup_remove_2 in H. intro Hin. apply H. apply in_or_app. now left.
Qed.
Lemma correct_names_id l : NoDup l -> correct_names l = l.
Proof. intro H. unfold correct_names. now rewrite fix_names_id. Qed.

(* correctNewNameForDuplicates *)
Lemma In_set_nth_sharp {A} n (x y : A) l : In y (set_nth n x l) -> y = x \/ In y (remove_nth n l).
Proof.
  revert n; induction l as [|z l IH]; intros [|n] H; simpl in *; auto.
  - destruct H; auto.
  - destruct H as [H|H]; auto. apply IH in H. tauto.
Qed.
Lemma NoDup_set_nth_remove {A} k (x : A) l :
  NoDup (remove_nth k l) -> ~ In x (remove_nth k l) -> NoDup (set_nth k x l).
Proof.
  revert k; induction l as [|y l IH]; intros [|k] Hnd Hni; simpl in *; auto.
  - constructor; auto.
  - inversion Hnd; subst. constructor.
    + intro Hin. apply In_set_nth_sharp in Hin. destruct Hin as [->|Hin]; [apply Hni; now left | contradiction].
    + apply IH; auto.
Qed.
Lemma remove_nth_set_nth {A} k (x : A) l : remove_nth k (set_nth k x l) = remove_nth k l.
Proof. revert k; induction l as [|y l IH]; intros [|k]; simpl; auto. now rewrite IH. Qed.
Lemma correct_new_name_length l k : length (correct_new_name l k) = length l.
Proof. unfold correct_new_name. destruct (nth_error l k); auto. apply length_set_nth. Qed.
Lemma correct_new_name_NoDup l k : NoDup (remove_nth k l) -> NoDup (correct_new_name l k).
Proof.
  intro H. unfold correct_new_name. destruct (nth_error l k) eqn:E.
  - apply NoDup_set_nth_remove; auto. apply repair_fresh.
  - apply nth_error_None in E. now rewrite remove_nth_oob in H.
Qed.
(* setName* : overwrite the name of column c, then repair it *)
Lemma set_then_repair_NoDup l c n : NoDup l -> NoDup (correct_new_name (set_nth c n l) c).
Proof.
  intro H. apply correct_new_name_NoDup. rewrite remove_nth_set_nth. now apply NoDup_remove_nth.
Qed.

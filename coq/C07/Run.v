(* C07 runner. Executable only.
   case (0 (op ...))      -> ((obs_1 ... obs_n) ((bits_1 reason_1) ... (bits_n reason_n)))
        obs_i = observation after the i-th operation, bits_i = check_obs + post_bits on the model's own
        observation, reason_i = why_not (state before op_i) op_i
   case (1 grid op before after) -> (bits) the same spec evaluated on observations produced by the implementation
        (before = observation preceding the operation, for the frame condition)
   Operation encoding: (code args...); names = lists of character codes; value = integer or () for NA;
   locator type = -1 (UNKNOWN) or 0..28. *)
From Coq Require Import List ZArith Bool Arith.
From Gst Require Import lib.Sx C07.Model C07.Spec.
Import ListNotations.

Definition asVal (s : sx) : option val :=
  match s with I z => Some (Some z) | L [] => Some None | _ => None end.
Definition asName (s : sx) : option name := asListOf asZ s.
Definition asLoc (s : sx) : option loctype :=
  match s with
  | I z => if (z =? -1)%Z then Some None
           else if (0 <=? z)%Z && (z <? Z.of_nat NLOC)%Z then Some (Some (Z.to_nat z)) else None
  | L _ => None
  end.
Definition asLocT (s : sx) : option nat :=
  match asLoc s with Some (Some t) => Some t | _ => None end.
(* the four common trailing arguments (type, index, cleanSameLocator); clean with UNKNOWN is undefined
   behaviour in the library (_p[-1]) and is rejected *)
Definition asTKC (t k c : sx) : option (loctype * Z * bool) :=
  match asLoc t, asZ k, asB c with
  | Some t', Some k', Some c' =>
      match t', c' with None, true => None | _, _ => Some (t', k', c') end
  | _, _, _ => None
  end.

Definition asOp (s : sx) : option op :=
  match s with
  | L [I 1%Z; nadd; v; radix; t; k; ni] =>
      match asZ nadd, asVal v, asName radix, asLoc t, asZ k, asNat ni with
      | Some a, Some b, Some c, Some d, Some e, Some f => Some (AddCols a b c d e f)
      | _, _, _, _, _, _ => None end
  | L [I 2%Z; tab; radix; t; k] =>
      match asListOf asVal tab, asName radix, asLoc t, asZ k with
      | Some a, Some b, Some c, Some d => Some (AddColsTab a b c d)
      | _, _, _, _ => None end
  | L [I 3%Z; tab; nm] =>
      match asListOf asVal tab, asName nm with Some a, Some b => Some (AddSel a b) | _, _ => None end
  | L [I 4%Z; u] => option_map DelUID (asZ u)
  | L [I 5%Z; c] => option_map DelCol (asZ c)
  | L [I 6%Z; p] => option_map DelName (asName p)
  | L [I 7%Z; us] => option_map DelUIDs (asListOf asZ us)
  | L [I 8%Z; t] => option_map DelByLoc (asLocT t)
  | L [I 9%Z; u; t; k; c] =>
      match asZ u, asTKC t k c with Some a, Some (t', k', c') => Some (SetLocUID a t' k' c') | _, _ => None end
  | L [I 10%Z; u; t; k; c] =>
      match asZ u, asTKC t k c with Some a, Some (t', k', c') => Some (SetLocCol a t' k' c') | _, _ => None end
  | L [I 11%Z; p; t; k; c] =>
      match asName p, asTKC t k c with Some a, Some (t', k', c') => Some (SetLocName a t' k' c') | _, _ => None end
  | L [I 12%Z; us; t; k; c] =>
      match asListOf asZ us, asTKC t k c with Some a, Some (t', k', c') => Some (SetLocsUID a t' k' c') | _, _ => None end
  | L [I 13%Z; n; u; t; k; c] =>
      match asZ n, asZ u, asTKC t k c with
      | Some a, Some b, Some (t', k', c') => Some (SetLocsRange a b t' k' c') | _, _, _ => None end
  | L [I 14%Z; cs; t; k; c] =>
      match asListOf asZ cs, asTKC t k c with Some a, Some (t', k', c') => Some (SetLocsCol a t' k' c') | _, _ => None end
  | L [I 15%Z; ps; t; k; c] =>
      match asListOf asName ps, asTKC t k c with Some a, Some (t', k', c') => Some (SetLocsNames a t' k' c') | _, _ => None end
  | L [I 16%Z; t] => option_map ClearLoc (asLocT t)
  | L [I 17%Z; a; b] =>
      match asLocT a, asLocT b with Some a', Some b' => Some (SwitchLoc a' b') | _, _ => None end
  | L [I 18%Z; c; n] =>
      match asZ c, asName n with Some a, Some b => Some (SetNameCol a b) | _, _ => None end
  | L [I 19%Z; u; n] =>
      match asZ u, asName n with Some a, Some b => Some (SetNameUID a b) | _, _ => None end
  | L [I 20%Z; old; n] =>
      match asName old, asName n with Some a, Some b => Some (SetNameOld a b) | _, _ => None end
  | L [I 21%Z; nadd; v] =>
      match asZ nadd, asVal v with Some a, Some b => Some (AddSamples a b) | _, _ => None end
  | L [I 22%Z; e] => option_map DelSample (asZ e)
  | L [I 23%Z; e; u; v] =>
      match asZ e, asZ u, asVal v with Some a, Some b, Some c => Some (SetArray a b c) | _, _, _ => None end
  | L [I 24%Z; p; e; v] =>
      match asName p, asZ e, asVal v with Some a, Some b, Some c => Some (SetValue a b c) | _, _, _ => None end
  | L [I 25%Z; a; b] =>
      match asZ a, asZ b with Some a', Some b' => Some (DupCol a' b') | _, _ => None end
  | L [I 26%Z; cs] => option_map DelCols (asListOf asZ cs)
  | L [I 27%Z; ps] => option_map DelNames (asListOf asName ps)
  | L [I 28%Z; a; b] =>
      match asZ a, asZ b with Some a', Some b' => Some (DelUIDRange a' b') | _, _ => None end
  | L [I 29%Z; l; n] =>
      match asListOf asName l, asName n with Some a, Some b => Some (SetNameList a b) | _, _ => None end
  | L [I 30%Z; t; n] =>
      match asLocT t, asName n with Some a, Some b => Some (SetNameLoc a b) | _, _ => None end
  | L [I 31%Z; es] => option_map DelSamples (asListOf asZ es)
  | L [I 32%Z; u; tab; us] =>
      match asZ u, asListOf asVal tab, asB us with Some a, Some b, Some c => Some (SetColumnUID a b c) | _, _, _ => None end
  | L [I 33%Z; c; tab; us] =>
      match asZ c, asListOf asVal tab, asB us with Some a, Some b, Some c' => Some (SetColumnCol a b c') | _, _, _ => None end
  | L [I 34%Z; tab; p; t; k; us] =>
      match asListOf asVal tab, asName p, asLoc t, asZ k, asB us with
      | Some a, Some b, Some c, Some d, Some e => Some (SetColumnName a b c d e) | _, _, _, _, _ => None end
  | L [I 35%Z; e; c; v] =>
      match asZ e, asZ c, asVal v with Some a, Some b, Some c' => Some (SetValueCol a b c') | _, _, _ => None end
  | L [I 36%Z; t; e; k; v] =>
      match asLocT t, asZ e, asNat k, asVal v with
      | Some a, Some b, Some c, Some d => Some (SetFromLoc a b c d) | _, _, _, _ => None end
  | L [I 37%Z; tabs; radix; t; k; us] =>
      match asListOf (asListOf asVal) tabs, asName radix, asLoc t, asZ k, asB us with
      | Some a, Some b, Some c, Some d, Some e =>
          match a with [] => None | _ => Some (AddColsVVD a b c d e) end
      | _, _, _, _, _ => None end
  | L [I 38%Z; tab; nm; cmb] =>
      match asListOf asVal tab, asName nm, asZ cmb with Some a, Some b, Some c => Some (AddSelC a b c) | _, _, _ => None end
  | L [I 39%Z; ranks; nm; cmb] =>
      match asListOf asNat ranks, asName nm, asZ cmb with Some a, Some b, Some c => Some (AddSelRanks a b c) | _, _, _ => None end
  | L [I 40%Z; tv; hl; lo; hi; nm; cmb] =>
      match asName tv, asB hl, asVal lo, asVal hi, asName nm, asZ cmb with
      | Some a, Some b, Some c, Some d, Some e, Some f =>
          (* an interval with lower >= upper bound makes the Limits constructor throw *)
          match c, d with
          | Some lo', Some hi' => if (lo' <? hi')%Z then Some (AddSelLimit a b c d e f) else None
          | _, _ => Some (AddSelLimit a b c d e f)
          end
      | _, _, _, _, _, _ => None end
  | _ => None
  end.

(* ---- creators *)
Definition asLocStr (s : sx) : option locstr :=
  match s with L [t; n] => match asLoc t, asZ n with Some a, Some b => Some (a, b) | _, _ => None end | _ => None end.
Definition asLim (s : sx) : option (nat * nat) :=
  match s with L [a; b] => match asNat a, asNat b with Some a', Some b' => Some (a', b') | _, _ => None end | _ => None end.
Definition pos_list (l : list nat) : bool := forallb (fun n => 0 <? n) l.
(* sizes the library does not check itself (it would read out of bounds or divide by zero) *)
Definition sizes_ok (ne : nat) (tab : list val) (names : list name) (locs : list locstr) : bool :=
  match tab with
  | [] => true
  | _ => (0 <? ne) &&
         let ntab := Nat.div (length tab) ne in
         (match names with [] => true | _ => Nat.eqb (length names) ntab end)
         && (match locs with [] => true | _ => Nat.eqb (length locs) ntab end)
  end.
Definition asCmd (s : sx) : option cmd :=
  match s with
  | L [I 50%Z; ne; bc; tab; names; locs; rank] =>
      match asNat ne, asB bc, asListOf asVal tab, asListOf asName names, asListOf asLocStr locs, asB rank with
      | Some a, Some b, Some c, Some d, Some e, Some f =>
          if sizes_ok a c d e then Some (NewSamples a b c d e f) else None
      | _, _, _, _, _, _ => None end
  | L [I 51%Z; ne; ndim; rank] =>
      match asNat ne, asNat ndim, asB rank with
      | Some a, Some b, Some c => if (0 <? a) && (0 <? b) then Some (NewBox a b c) else None
      | _, _, _ => None end
  | L [I 52%Z; ndat; ndim; nvar; nfex; code; varm; sel; het; rank] =>
      match asNat ndat, asNat ndim, asNat nvar, asNat nfex, asB code, asB varm, asB sel, asListOf asB het, asB rank with
      | Some a, Some b, Some c, Some d, Some e, Some f, Some g, Some h, Some i =>
          if (0 <? a) && (0 <? b) && (0 <? c) then Some (NewFill a b c d e f g h i) else None
      | _, _, _, _, _, _, _, _, _ => None end
  | L [I 53%Z; nx; dx; x0; bc; tab; names; locs; rank; coords] =>
      match asListOf asNat nx, asListOf asZ dx, asListOf asZ x0, asB bc, asListOf asVal tab, asListOf asName names,
            asListOf asLocStr locs, asB rank, asB coords with
      | Some a, Some b, Some c, Some d, Some e, Some f, Some g, Some h, Some i =>
          if pos_list a && (0 <? length a) && Nat.eqb (length b) (length a) && Nat.eqb (length c) (length a)
             && forallb (fun z => (0 <? z)%Z) b && sizes_ok (grid_nech a) e f g
          then Some (NewGrid a b c d e f g h i) else None
      | _, _, _, _, _, _, _, _, _ => None end
  | L [I 54%Z; nx; dx; x0; lims; coords] =>
      match asListOf asNat nx, asListOf asZ dx, asListOf asZ x0, asListOf asLim lims, asB coords with
      | Some a, Some b, Some c, Some d, Some e =>
          if pos_list a && (0 <? length a) && Nat.eqb (length b) (length a) && Nat.eqb (length c) (length a)
             && Nat.eqb (length d) (length a)
             && forallb (fun p => (fst (fst p) <? snd (fst p)) && (snd (fst p) <=? snd p)) (combine d a)
          then Some (SubGrid a b c d e) else None
      | _, _, _, _, _ => None end
  | L [I 55%Z; rf; nx; dx; x0; nm; cell; rank] =>
      match asB rf, asListOf asNat nx, asListOf asZ dx, asListOf asZ x0, asListOf asNat nm, asB cell, asB rank with
      | Some a, Some b, Some c, Some d, Some e, Some f, Some g =>
          (* refinement by 1 or 2 only (exact binary coordinates); coarsening must leave at least one node *)
          if pos_list b && (0 <? length b) && Nat.eqb (length c) (length b) && Nat.eqb (length d) (length b)
             && Nat.eqb (length e) (length b) && pos_list e
             && forallb (fun p => if a then snd p <=? 2 else (if f then snd p <=? fst p else true)) (combine b e)
          then Some (Migrate a b c d e f g) else None
      | _, _, _, _, _, _, _ => None end
  | _ => option_map Do (asOp s)
  end.

(* ---- observations <-> sx *)
Definition ofVal (v : val) : sx := match v with Some z => I z | None => L [] end.
Definition ofZ (z : Z) : sx := I z.
Definition ofPair (p : Z * Z) : sx := L [I (fst p); I (snd p)].
Definition ofObs (o : obs) : sx :=
  L [ ofNat (o_ncol o); ofNat (o_nech o); ofNat (o_nact o);
      ofList ofB (o_active o);
      ofList (ofList ofZ) (o_names o);
      ofList ofZ (o_uid2col o);
      ofList ofZ (o_alluids o);
      ofList ofZ (o_col2uid o);
      ofList ofPair (o_colloc o);
      ofList (ofList ofZ) (o_loccols o);
      ofList (ofList ofVal) (o_cols o);
      ofList (ofList ofVal) (o_cols_uid o);
      ofList (ofList ofVal) (o_cols_name o);
      ofList (ofList ofVal) (o_cols_loc o);
      ofList ofZ (o_name2col o);
      ofList ofZ (o_name2uid o);
      ofList (ofList ofVal) (o_cols_sel o);
      ofList (ofList ofVal) (o_cols_selc o) ].
Definition asPair (s : sx) : option (Z * Z) :=
  match s with L [I a; I b] => Some (a, b) | _ => None end.
Definition asObs (s : sx) : option obs :=
  match s with
  | L [a; b; c; d; e; f; g; h; i; j; k; l; m; n; o; p; q; r] =>
      match asNat a, asNat b, asNat c, asListOf asB d, asListOf asName e, asListOf asZ f, asListOf asZ g,
            asListOf asZ h with
      | Some a', Some b', Some c', Some d', Some e', Some f', Some g', Some h' =>
          match asListOf asPair i, asListOf (asListOf asZ) j, asListOf (asListOf asVal) k,
                asListOf (asListOf asVal) l, asListOf (asListOf asVal) m, asListOf (asListOf asVal) n,
                asListOf asZ o, asListOf asZ p, asListOf (asListOf asVal) q, asListOf (asListOf asVal) r with
          | Some i', Some j', Some k', Some l', Some m', Some n', Some o', Some p', Some q', Some r' =>
              Some (mkObs a' b' c' d' e' f' g' h' i' j' k' l' m' n' o' p' q' r')
          | _, _, _, _, _, _, _, _, _, _ => None
          end
      | _, _, _, _, _, _, _, _ => None
      end
  | _ => None
  end.

(* spec on observations: invariant clauses, and for an editor its role post-condition and the
   frame condition w.r.t. the observation before the call (a creator returns a new Db: no frame) *)
Definition spec_bits (grid : bool) (c : cmd) (before ob : obs) : Z :=
  (check_obs ob
   + match c with
     | Do o => if grid && is_sample_edit o then frame_bits (ClearLoc 0) before ob   (* refused on a DbGrid: nothing may change *)
               else post_bits o ob + frame_bits o before ob
     | SubGrid _ _ _ _ _ | Migrate _ _ _ _ _ _ _ => if grid then 0 else frame_bits (ClearLoc 0) before ob
     | _ => 0
     end)%Z.

Fixpoint run_hist (g : gstate) (cs : list cmd) (accO accF : list sx) : sx :=
  match cs with
  | [] => L [L (rev accO); L (rev accF)]
  | c :: r =>
      let g' := exec g c in
      let ob := observe (snd g') in
      run_hist g' r (ofObs ob :: accO) (L [I (spec_bits (fst g) c (observe (snd g)) ob); I (why_not_cmd g c)] :: accF)
  end.

Definition run (c : sx) : sx :=
  match c with
  | L [I 0%Z; cs] =>
      match asListOf asCmd cs with
      | Some l => run_hist (false, init) l [] []
      | None => sx_error 1
      end
  | L [I 1%Z; g; o; b; ob] =>
      match asB g, asCmd o, asObs b, asObs ob with
      | Some g', Some o', Some b', Some ob' => L [I (spec_bits g' o' b' ob')]
      | _, _, _, _ => sx_error 2
      end
  | _ => sx_error 0
  end.

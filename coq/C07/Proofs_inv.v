(* C07: every modelled editor preserves the invariant (under the guard [accepted]) *)
From Coq Require Import List ZArith Bool Arith Lia.
From Gst Require Import C07.Model C07.Spec C07.Proofs_lists C07.Proofs_names.
Import ListNotations.

(* ------------------------------------------------------------------ the uid table *)
Lemma uid_ok_NoDup nc uc : uid_ok nc uc -> NoDup (live_list uc).
Proof. unfold uid_ok. intros ->. apply seq_NoDup. Qed.
Lemma uid_ok_bound nc uc u c : uid_ok nc uc -> nth_error uc u = Some (Some c) -> c < nc.
Proof.
  intros H Hn. assert (In c (live_list uc)) by (apply In_live_list; eauto).
  rewrite H in H0. apply in_seq in H0. lia.
Qed.
Lemma uid_ok_inj nc uc u1 u2 c :
  uid_ok nc uc -> nth_error uc u1 = Some (Some c) -> nth_error uc u2 = Some (Some c) -> u1 = u2.
Proof. intros H. apply live_list_inj. eapply uid_ok_NoDup; eauto. Qed.
Lemma uid_ok_surj nc uc c : uid_ok nc uc -> c < nc -> exists u, nth_error uc u = Some (Some c).
Proof. intros H Hc. apply In_live_list. rewrite H. apply in_seq. lia. Qed.

Lemma uid_ok_delete nc uc u c :
  uid_ok nc uc -> nth_error uc u = Some (Some c) ->
  uid_ok (nc - 1) (map (shift_col c) (set_nth u None uc)).
Proof.
  intros H Hn. unfold uid_ok in *.
  destruct (nth_error_split _ _ Hn) as [l1 [l2 [E Hl]]]. subst uc u.
  rewrite set_nth_app_mid. rewrite live_list_app in H. simpl in H.
  change (live_list l1 ++ c :: live_list l2 = seq 0 nc) in H.
  destruct (seq_split_at _ _ _ _ H) as [H1 [H2 Hc]].
  rewrite live_list_map_shift, live_list_app. simpl.
  change (map (fun c' => if c' <? c then c' else c' - 1) (live_list l1 ++ live_list l2) = seq 0 (nc - 1)).
  rewrite map_app, H1, H2, map_shift_low, map_shift_high by lia.
  replace (nc - 1) with (c + (nc - S c)) by lia. now rewrite seq_app.
Qed.
Lemma uid_ok_append nc uc n :
  uid_ok nc uc -> uid_ok (nc + n) (uc ++ map (fun i => Some (nc + i)) (seq 0 n)).
Proof.
  unfold uid_ok. intro H. rewrite live_list_app, H, live_list_map_some, seq_app. f_equal.
  rewrite map_add_seq. now rewrite Nat.add_0_r.
Qed.

(* ------------------------------------------------------------------ role lists *)
Lemma live_in_extend uc extra u : live_in uc u -> live_in (uc ++ extra) u.
Proof.
  intros [c H]. exists c. rewrite nth_error_app1; auto. apply nth_error_Some. congruence.
Qed.
Lemma live_in_delete uc u c x :
  live_in uc x -> x <> u -> live_in (map (shift_col c) (set_nth u None uc)) x.
Proof.
  intros [c' H] Hne. rewrite <- (nth_error_set_nth_neq u x None uc Hne) in H.
  unfold live_in. rewrite nth_error_map, H. simpl. destruct (c' <? c); eauto.
Qed.
Lemma loc_ok_extend uc f extra : loc_ok uc f -> loc_ok (uc ++ extra) f.
Proof.
  intros [H1 [H2 H3]]. repeat split; auto. intros t u Hin. apply live_in_extend. eauto.
Qed.
Lemma loc_ok_clear uc f t : loc_ok uc f -> loc_ok uc (fun t0 => if Nat.eqb t0 t then [] else f t0).
Proof.
  intros [H1 [H2 H3]]. repeat split.
  - intro t0. destruct (Nat.eqb t0 t); auto. constructor.
  - intros t0 u. destruct (Nat.eqb t0 t); simpl; [tauto | eauto].
  - intros t1 t2 u. destruct (Nat.eqb t1 t); destruct (Nat.eqb t2 t); simpl; try tauto. eauto.
Qed.
Lemma loc_ok_erase uc f u : loc_ok uc f -> loc_ok uc (fun t0 => erase1 u (f t0)).
Proof.
  intros [H1 [H2 H3]]. repeat split.
  - intro t0. now apply NoDup_erase1.
  - intros t0 x Hin. apply In_erase1 in Hin. eauto.
  - intros t1 t2 x Hi1 Hi2. apply In_erase1 in Hi1. apply In_erase1 in Hi2. eauto.
Qed.
(* Db.cpp:1151-1174 inside the guard: the uid is live and the rank does not exceed the current count *)
Lemma loc_ok_set uc f u t k :
  loc_ok uc f -> live_in uc u -> k <= length (erase1 u (f t)) ->
  loc_ok uc (fun t0 => if Nat.eqb t0 t then pad_set k u (erase1 u (f t)) else erase1 u (f t0)).
Proof.
  intros [H1 [H2 H3]] Hl Hk.
  assert (Hnot : forall t0, ~ In u (erase1 u (f t0))) by (intro; apply erase1_not_In; auto).
  repeat split.
  - intro t0. destruct (Nat.eqb t0 t) eqn:E.
    + apply NoDup_pad_set; auto. now apply NoDup_erase1.
    + now apply NoDup_erase1.
  - intros t0 x. destruct (Nat.eqb t0 t) eqn:E; intro Hin.
    + apply In_pad_set in Hin; auto. destruct Hin as [->|Hin]; auto. apply In_erase1 in Hin. eauto.
    + apply In_erase1 in Hin. eauto.
  - intros t1 t2 x Hi1 Hi2.
    assert (Hx : forall t0, In x (if Nat.eqb t0 t then pad_set k u (erase1 u (f t)) else erase1 u (f t0)) ->
                 (x = u /\ t0 = t) \/ (x <> u /\ In x (f t0))).
    { intros t0 Hin. destruct (Nat.eqb t0 t) eqn:E.
      - apply Nat.eqb_eq in E; subst t0. apply In_pad_set in Hin; auto.
        destruct Hin as [->|Hin]; auto. right. split. intros ->. now apply (Hnot t). now apply In_erase1 in Hin.
      - right. split. intros ->. now apply (Hnot t0). now apply In_erase1 in Hin. }
    apply Hx in Hi1. apply Hx in Hi2.
    destruct Hi1 as [[E1 T1]|[N1 I1]]; destruct Hi2 as [[E2 T2]|[N2 I2]]; try congruence. eauto.
Qed.
Lemma loc_ok_delete uc f u c :
  loc_ok uc f -> loc_ok (map (shift_col c) (set_nth u None uc)) (fun t => erase1 u (f t)).
Proof.
  intros [H1 [H2 H3]]. repeat split.
  - intro t. now apply NoDup_erase1.
  - intros t x Hin. apply live_in_delete.
    + apply In_erase1 in Hin. eauto.
    + intros ->. revert Hin. apply erase1_not_In. auto.
  - intros t1 t2 x Hi1 Hi2. apply In_erase1 in Hi1. apply In_erase1 in Hi2. eauto.
Qed.
Lemma loc_ok_switch uc f a b :
  loc_ok uc f -> a <> b ->
  loc_ok uc (fun t0 => if Nat.eqb t0 b then f b ++ f a else if Nat.eqb t0 a then [] else f t0).
Proof.
  intros [H1 [H2 H3]] Hab. repeat split.
  - intro t0. destruct (Nat.eqb t0 b) eqn:E.
    + apply NoDup_app_intro; auto. intros x Hb Ha. apply Hab. eauto.
    + destruct (Nat.eqb t0 a); auto. constructor.
  - intros t0 x. destruct (Nat.eqb t0 b).
    + intro Hin. apply in_app_or in Hin. destruct Hin; eauto.
    + destruct (Nat.eqb t0 a); simpl; [tauto | eauto].
  - intros t1 t2 x Hi1 Hi2.
    assert (Hx : forall t0, In x (if Nat.eqb t0 b then f b ++ f a else if Nat.eqb t0 a then [] else f t0) ->
                 (t0 = b /\ (In x (f b) \/ In x (f a))) \/ (t0 <> b /\ t0 <> a /\ In x (f t0))).
    { intros t0 Hin. destruct (Nat.eqb t0 b) eqn:E.
      - apply Nat.eqb_eq in E. left. split; auto. apply in_app_or in Hin. tauto.
      - apply Nat.eqb_neq in E. destruct (Nat.eqb t0 a) eqn:E2. contradiction.
        apply Nat.eqb_neq in E2. auto. }
    apply Hx in Hi1. apply Hx in Hi2.
    destruct Hi1 as [[T1 I1]|[N1 [M1 I1]]]; destruct Hi2 as [[T2 I2]|[N2 [M2 I2]]]; try congruence.
    + exfalso. destruct I1 as [I1|I1]; [apply N2 | apply M2]; eauto.
    + exfalso. destruct I2 as [I2|I2]; [apply N1 | apply M1]; eauto.
    + eauto.
Qed.

(* ------------------------------------------------------------------ state level: role editors *)
(* the role editors leave every other component untouched *)
Definition same_table (s s' : state) : Prop :=
  ncol s' = ncol s /\ nech s' = nech s /\ arr s' = arr s /\ uidcol s' = uidcol s /\ names s' = names s.
Lemma same_table_refl s : same_table s s.
Proof. repeat split. Qed.
Lemma same_table_trans a b c : same_table a b -> same_table b c -> same_table a c.
Proof. unfold same_table. intuition congruence. Qed.
Lemma Inv_same_table s s' : same_table s s' -> Inv_loc s' -> Inv s -> Inv s'.
Proof.
  intros [E1 [E2 [E3 [E4 E5]]]] HL [Hs [Hu [Hn _]]].
  unfold Inv, Inv_shape, Inv_uid, Inv_names in *. rewrite E1, E2, E3, E4, E5. auto.
Qed.
Lemma with_loc_table s f : same_table s (with_loc s f).
Proof. repeat split. Qed.

Lemma live_spec s u : live s u = true <-> is_live s u.
Proof.
  unfold live, is_live, live_in, col_of_uid. destruct (nth_error (uidcol s) u) as [[c|]|]; split; intro H;
    try discriminate; eauto; destruct H as [c' H]; discriminate.
Qed.

Lemma clear_loc_table t s : same_table s (clear_loc t s).
Proof. apply with_loc_table. Qed.
Lemma clear_loc_loc t s : Inv_loc s -> Inv_loc (clear_loc t s).
Proof. apply loc_ok_clear. Qed.
Lemma clean_if_table c t s : same_table s (clean_if c t s).
Proof. destruct c, t; simpl; try apply same_table_refl. apply clear_loc_table. Qed.
Lemma clean_if_loc c t s : Inv_loc s -> Inv_loc (clean_if c t s).
Proof. destruct c, t; simpl; auto. apply clear_loc_loc. Qed.

Lemma set_loc1_table u t k s : same_table s (set_loc1 u t k s).
Proof.
  unfold set_loc1. destruct (zidx u (uidmax s)); [|apply same_table_refl].
  destruct (negb (live s n)); [apply same_table_refl|].
  destruct t; apply with_loc_table.
Qed.
Lemma set_loc1_loc u t k s : Inv_loc s -> ok_loc1 u t k s = 0%Z -> Inv_loc (set_loc1 u t k s).
Proof.
  unfold set_loc1, ok_loc1, Inv_loc. intros H Hok.
  destruct (zidx u (uidmax s)) as [u'|]; auto.
  destruct (live s u') eqn:El; simpl in *; auto.
  apply live_spec in El.
  destruct t as [t'|]; simpl.
  - destruct (k <=? length (erase1 u' (loc s t'))) eqn:Ek; try discriminate.
    apply Nat.leb_le in Ek. now apply loc_ok_set.
  - now apply loc_ok_erase.
Qed.
Lemma set_loc_seq_table us t k s : same_table s (set_loc_seq us t k s).
Proof.
  revert k s; induction us as [|u r IH]; intros k s; simpl. apply same_table_refl.
  eapply same_table_trans; [apply set_loc1_table | apply IH].
Qed.
Lemma set_loc_seq_loc us t k s :
  Inv_loc s -> ok_loc_seq us t k s = 0%Z -> Inv_loc (set_loc_seq us t k s).
Proof.
  revert k s; induction us as [|u r IH]; intros k s H Hok; simpl in *; auto.
  destruct (ok_loc1 u t k s =? 0)%Z eqn:E.
  - apply Z.eqb_eq in E. apply IH; auto. now apply set_loc1_loc.
  - apply Z.eqb_neq in E. contradiction.
Qed.
Lemma set_locs_table us t k cl s : same_table s (set_locs us t k cl s).
Proof. unfold set_locs. eapply same_table_trans; [apply clean_if_table | apply set_loc_seq_table]. Qed.
Lemma set_locs_loc us t k cl s : Inv_loc s -> ok_locs us t k cl s = 0%Z -> Inv_loc (set_locs us t k cl s).
Proof. unfold set_locs, ok_locs. intros H Hok. apply set_loc_seq_loc; auto. now apply clean_if_loc. Qed.
Lemma set_locs_inv us t k cl s : Inv s -> ok_locs us t k cl s = 0%Z -> Inv (set_locs us t k cl s).
Proof.
  intros H Hok. eapply Inv_same_table; eauto. apply set_locs_table. apply set_locs_loc; auto. apply H.
Qed.
Lemma set_locs_ids_inv ids t k cl s :
  Inv s -> ok_locs_ids ids t k cl s = 0%Z -> Inv (set_locs_ids ids t k cl s).
Proof. unfold set_locs_ids, ok_locs_ids. destruct ids; auto. apply set_locs_inv. Qed.
Lemma switch_loc_inv a b s : Inv s -> Inv (switch_loc a b s).
Proof.
  intro H. unfold switch_loc. destruct (Nat.eqb a b) eqn:E.
  - eapply Inv_same_table; eauto. apply clear_loc_table. apply clear_loc_loc. apply H.
  - apply Nat.eqb_neq in E. eapply Inv_same_table; eauto. apply with_loc_table.
    apply loc_ok_switch; auto. apply H.
Qed.

(* ------------------------------------------------------------------ deletions *)
Lemma col_of_uid_some s u c : col_of_uid s u = Some c <-> nth_error (uidcol s) u = Some (Some c).
Proof.
  unfold col_of_uid. destruct (nth_error (uidcol s) u) as [[c'|]|]; split; intro H; inversion H; auto.
Qed.
Ltac inv_split := unfold Inv; split; [unfold Inv_shape, shape_ok; simpl; split; [|split] | split; [|split]].
Lemma del_uid_inv u s : Inv s -> Inv (del_uid u s).
Proof.
  intros H. pose proof H as [[Ha [Hn Hc]] [Hu [Hnm Hl]]]. unfold del_uid.
  destruct (zidx u (uidmax s)) as [u'|]; auto.
  destruct (col_of_uid s u') as [c|] eqn:Ec; auto.
  destruct (c <? ncol s) eqn:Elt; auto.
  apply Nat.ltb_lt in Elt. apply col_of_uid_some in Ec.
  inv_split.
  - rewrite length_remove_nth; lia.
  - rewrite length_remove_nth; lia.
  - intros col Hin. apply In_remove_nth in Hin. auto.
  - now apply uid_ok_delete.
  - now apply NoDup_remove_nth.
  - now apply loc_ok_delete.
Qed.
Lemma fold_inv {A} (f : state -> A -> state) l s :
  (forall s x, Inv s -> Inv (f s x)) -> Inv s -> Inv (fold_left f l s).
Proof. intro Hf. revert s; induction l; simpl; auto. Qed.
Lemma del_uids_inv us s : Inv s -> Inv (del_uids us s).
Proof. apply fold_inv. intros; now apply del_uid_inv. Qed.
Lemma del_col_inv c s : Inv s -> Inv (del_col c s).
Proof.
  intro H. unfold del_col. destruct (zidx c (ncol s)); auto.
  destruct (ids_name s _ true); auto. now apply del_uid_inv.
Qed.
Lemma del_name_inv p s : Inv s -> Inv (del_name p s).
Proof. apply del_uids_inv. Qed.
Lemma del_by_loc_inv t s : Inv s -> Inv (del_by_loc t s).
Proof. apply fold_inv. intros; now apply del_uid_inv. Qed.

(* ------------------------------------------------------------------ cells and samples *)
Lemma Inv_with_arr s a :
  Inv s -> length a = ncol s -> (forall col, In col a -> length col = nech s) -> Inv (with_arr s a).
Proof. intros [[Ha [Hn Hc]] [Hu [Hnm Hl]]] H1 H2. inv_split; auto. Qed.
Lemma set_cell_inv e u v s : Inv s -> Inv (set_cell e u v s).
Proof.
  intro H. unfold set_cell. destruct (zidx e (nech s)) as [e'|]; auto.
  destruct (zidx u (uidmax s)) as [u'|]; auto. destruct (col_of_uid s u') as [c|]; auto.
  destruct (c <? ncol s) eqn:Elt; auto. apply Nat.ltb_lt in Elt.
  pose proof H as [[Ha [Hn Hc]] _].
  apply Inv_with_arr; auto.
  - rewrite length_set_nth. exact Ha.
  - intros col Hin. apply In_set_nth in Hin. destruct Hin as [->|Hin]; auto.
    rewrite length_set_nth. apply Hc. apply nth_In. lia.
Qed.
Lemma set_value_inv p e v s : Inv s -> Inv (set_value p e v s).
Proof. intro H. unfold set_value. destruct (uid_of_name s p); auto. now apply set_cell_inv. Qed.
Lemma set_column_uid_inv u tab s : Inv s -> Inv (set_column_uid u tab s).
Proof. apply fold_inv. intros; now apply set_cell_inv. Qed.
Lemma dup_col_inv a b s : Inv s -> Inv (dup_col a b s).
Proof.
  intro H. unfold dup_col. destruct (zidx a (uidmax s)); auto. destruct (zidx b (uidmax s)); auto.
  apply fold_inv; auto. intros; now apply set_cell_inv.
Qed.
Lemma add_samples_inv n v s : Inv s -> Inv (add_samples n v s).
Proof.
  intros H. pose proof H as [[Ha [Hn Hc]] [Hu [Hnm Hl]]]. unfold add_samples. destruct (n <=? 0)%Z; auto.
  inv_split; auto.
  - now rewrite map_length.
  - intros col Hin. apply in_map_iff in Hin. destruct Hin as [c0 [<- Hin]].
    rewrite app_length, repeat_length. rewrite (Hc c0 Hin). reflexivity.
Qed.
Lemma del_sample_inv e s : Inv s -> Inv (del_sample e s).
Proof.
  intros H. pose proof H as [[Ha [Hn Hc]] [Hu [Hnm Hl]]]. unfold del_sample.
  destruct (zidx e (nech s)) as [e'|] eqn:E; auto.
  apply zidx_some in E. destruct E as [E _].
  inv_split; auto.
  - now rewrite map_length.
  - intros col Hin. apply in_map_iff in Hin. destruct Hin as [c0 [<- Hin]].
    rewrite length_remove_nth; rewrite (Hc c0 Hin); auto.
Qed.

(* ------------------------------------------------------------------ names *)
Lemma Inv_with_names s n : Inv s -> length n = ncol s -> NoDup n -> Inv (with_names s n).
Proof. intros [[Ha [Hn Hc]] [Hu [Hnm Hl]]] H1 H2. inv_split; auto. Qed.
Lemma set_name_at_inv c n s : Inv s -> Inv (set_name_at c n s).
Proof.
  intro H. pose proof H as [[Ha [Hn Hc]] [Hu [Hnm Hl]]]. apply Inv_with_names; auto.
  - now rewrite correct_new_name_length, length_set_nth.
  - now apply set_then_repair_NoDup.
Qed.
Lemma set_name_uid_inv u n s : Inv s -> Inv (set_name_uid u n s).
Proof.
  intro H. unfold set_name_uid. destruct (zidx u (uidmax s)); auto.
  destruct (col_of_uid s n0); auto. now apply set_name_at_inv.
Qed.
Lemma set_name_old_inv old n s : Inv s -> Inv (set_name_old old n s).
Proof. intro H. unfold set_name_old. destruct (colidx_of_name s old); auto. now apply set_name_at_inv. Qed.
Lemma set_name_col_inv c n s : Inv s -> Inv (set_name_col c n s).
Proof. intro H. unfold set_name_col. destruct (zidx c (ncol s)); auto. now apply set_name_at_inv. Qed.

(* ------------------------------------------------------------------ additions *)
Lemma set_nech0_inv n s : Inv s -> Inv (set_nech0 n s).
Proof.
  intros H. pose proof H as [[Ha [Hn Hc]] [Hu [Hnm Hl]]]. unfold set_nech0.
  destruct (Nat.eqb (nech s) 0); auto. inv_split; auto.
  - now rewrite map_length.
  - intros col Hin. apply in_map_iff in Hin. destruct Hin as [c0 [<- _]]. apply repeat_length.
Qed.
Lemma set_nech0_loc n s : loc (set_nech0 n s) = loc s.
Proof. unfold set_nech0. destruct (Nat.eqb (nech s) 0); reflexivity. Qed.

(* giving ranks k, k+1, .. to uids that hold no role yet (the freshly appended columns): within the guard
   as soon as k does not exceed the current count *)
Lemma ok_loc_seq_fresh base t' : forall n a k s,
  (forall t0 x, In x (loc s t0) -> x < base + a) ->
  base + a + n <= uidmax s ->
  (forall i, base + a <= i < base + a + n -> live s i = true) ->
  k <= length (loc s t') ->
  ok_loc_seq (map (fun i => (Z.of_nat base + Z.of_nat i)%Z) (seq a n)) (Some t') k s = 0%Z.
Proof.
  induction n as [|n IH]; intros a k s Hlt Hmax Hlive Hk; simpl; auto.
  assert (Ez : zidx (Z.of_nat base + Z.of_nat a) (uidmax s) = Some (base + a)).
  { rewrite <- Nat2Z.inj_add. apply zidx_of_nat. lia. }
  assert (Hni : forall t0, ~ In (base + a) (loc s t0)). { intros t0 Hin. apply Hlt in Hin. lia. }
  assert (E1 : ok_loc1 (Z.of_nat base + Z.of_nat a) (Some t') k s = 0%Z).
  { unfold ok_loc1. rewrite Ez. rewrite Hlive by lia. simpl. rewrite erase1_id by apply Hni.
    replace (k <=? length (loc s t')) with true by (symmetry; apply Nat.leb_le; lia). reflexivity. }
  rewrite E1. simpl.
  apply IH.
  - intros t0 x. unfold set_loc1. rewrite Ez, Hlive by lia. simpl. rewrite !erase1_id by apply Hni.
    destruct (Nat.eqb t0 t').
    + intro Hin. apply In_pad_set in Hin; auto. destruct Hin as [->|Hin]. lia. apply Hlt in Hin. lia.
    + intro Hin. apply Hlt in Hin. lia.
  - unfold set_loc1. rewrite Ez, Hlive by lia. unfold uidmax in *. simpl. lia.
  - intros i Hi. unfold set_loc1. rewrite Ez, Hlive by lia. unfold live, col_of_uid. simpl. apply (Hlive i). lia.
  - unfold set_loc1. rewrite Ez, Hlive by lia. simpl. rewrite Nat.eqb_refl, length_pad_set. lia.
Qed.

Lemma length_gen_names radix n : length (gen_names radix n) = n.
Proof. unfold gen_names. now rewrite map_length, seq_length. Qed.
Lemma live_in_lt uc u : live_in uc u -> u < length uc.
Proof. intros [c H]. apply nth_error_Some. congruence. Qed.

Lemma add_cols_inv nadd v radix t k ni s :
  Inv s -> add_ok t k s = 0%Z -> Inv (add_cols nadd v radix t k ni s).
Proof.
  intros H Hok. unfold add_cols. destruct (nadd <=? 0)%Z eqn:Ena; auto.
  apply Z.leb_gt in Ena.
  pose proof (set_nech0_inv ni s H) as H0. pose proof (set_nech0_loc ni s) as El0.
  set (s0 := set_nech0 ni s) in *. clearbody s0.
  set (n := Z.to_nat nadd). assert (Hn0 : 0 < n) by (unfold n; lia).
  set (newnames := if Nat.eqb n 1 then [radix] else gen_names radix n).
  assert (Hnn : length newnames = n).
  { unfold newnames. destruct (Nat.eqb n 1) eqn:E. apply Nat.eqb_eq in E. now rewrite E. apply length_gen_names. }
  set (s1 := mkState (ncol s0) (nech s0) (arr s0 ++ repeat (repeat v (nech s0)) n)
                     (uidcol s0 ++ map (fun i => Some (ncol s0 + i)) (seq 0 n))
                     (correct_names (names s0 ++ newnames)) (loc s0)).
  pose proof H0 as [[Ha [Hn Hc]] [Hu [Hnm Hl]]].
  assert (HL1 : Inv_loc s1) by (unfold Inv_loc, s1; simpl; now apply loc_ok_extend).
  set (s2 := match t with None => s1 | Some _ => set_locs (zrange (Z.of_nat (uidmax s0)) nadd) t k false s1 end).
  assert (HT : same_table s1 s2).
  { unfold s2. destruct t. apply set_locs_table. apply same_table_refl. }
  assert (HL2 : Inv_loc s2).
  { unfold s2. destruct t as [t'|]; auto. apply set_locs_loc; auto.
    unfold ok_locs. simpl clean_if. unfold zrange. fold n.
    apply (ok_loc_seq_fresh (uidmax s0) t' n 0).
    - intros t0 x Hin. rewrite Nat.add_0_r. destruct Hl as [_ [Hlive _]].
      unfold uidmax. apply live_in_lt. eapply Hlive. exact Hin.
    - unfold uidmax, s1. simpl. rewrite app_length, map_length, seq_length. lia.
    - intros i Hi. unfold live, col_of_uid, s1. simpl. unfold uidmax in Hi.
      rewrite nth_error_app2 by lia.
      destruct (nth_error (map (fun i0 => Some (ncol s0 + i0)) (seq 0 n)) (i - length (uidcol s0))) eqn:E.
      + apply nth_error_In in E. apply in_map_iff in E. destruct E as [j [<- _]]. reflexivity.
      + apply nth_error_None in E. rewrite map_length, seq_length in E. lia.
    - unfold resolve_index. unfold add_ok in Hok. rewrite <- El0 in Hok. change (loc s1 t') with (loc s0 t').
      destruct (k <? 0)%Z; simpl in *. lia.
      destruct (Z.to_nat k <=? length (loc s0 t')) eqn:E; try discriminate. now apply Nat.leb_le in E. }
  fold n newnames s1 s2.
  destruct HT as [E1 [E2 [E3 [E4 E5]]]].
  inv_split; simpl.
  - rewrite E3, E1. unfold s1; simpl. rewrite app_length, repeat_length. lia.
  - rewrite E5, E1. unfold s1; simpl. rewrite correct_names_length, app_length. lia.
  - rewrite E3, E2. unfold s1; simpl. intros col Hin. apply in_app_or in Hin. destruct Hin as [Hin|Hin]; auto.
    apply repeat_spec in Hin. subst. apply repeat_length.
  - unfold Inv_uid; simpl. rewrite E4, E1. unfold s1; simpl. now apply uid_ok_append.
  - unfold Inv_names; simpl. rewrite E5. unfold s1; simpl. apply correct_names_NoDup.
  - unfold Inv_loc in *; simpl. exact HL2.
Qed.

Lemma add_cols_tab_inv tab radix t k s :
  Inv s -> (match tab with [] => 0%Z | _ => add_ok t k s end) = 0%Z -> Inv (add_cols_tab tab radix t k s).
Proof.
  intros H Hok. unfold add_cols_tab. destruct tab as [|x tab']; auto.
  set (tab := x :: tab') in *.
  pose proof (set_nech0_inv (length tab) s H) as H0.
  assert (El : loc (set_nech0 (length tab) s) = loc s) by apply set_nech0_loc.
  set (s0 := set_nech0 (length tab) s) in *.
  destruct (negb _); auto. destruct (Nat.eqb _ 0); auto.
  apply fold_inv. intros; now apply set_column_uid_inv.
  apply add_cols_inv; auto. unfold add_ok in *. now rewrite El.
Qed.
Lemma add_selection_inv tab nm s : Inv s -> Inv (add_selection tab nm s).
Proof.
  intro H. unfold add_selection. destruct tab.
  - apply add_cols_tab_inv; auto. try (destruct (repeat _ _); reflexivity).
  - destruct (negb _); auto. apply add_cols_tab_inv; auto; try reflexivity.
Qed.

(* ------------------------------------------------------------------ list forms *)
Lemma fold_pres {A} (P : state -> Prop) (f : state -> A -> state) l s :
  (forall s x, P s -> P (f s x)) -> P s -> P (fold_left f l s).
Proof. intro Hf. revert s; induction l; simpl; auto. Qed.
Lemma del_cols_inv cs s : Inv s -> Inv (del_cols cs s).
Proof. apply fold_inv. intros; now apply del_col_inv. Qed.
Lemma del_names_inv ps s : Inv s -> Inv (del_names ps s).
Proof. apply del_uids_inv. Qed.
Lemma del_uid_range_inv a b s : Inv s -> Inv (del_uid_range a b s).
Proof. intro H. unfold del_uid_range. destruct (a <=? 0)%Z; auto. now apply del_uids_inv. Qed.
(* while the names are being overwritten one by one only the rest of the invariant is maintained; the final
   correctNamesForDuplicates restores uniqueness *)
Definition Inv_nn (s : state) : Prop :=
  length (arr s) = ncol s /\ length (names s) = ncol s /\ (forall col, In col (arr s) -> length col = nech s) /\
  Inv_uid s /\ Inv_loc s.
Lemma Inv_nn_of s : Inv s -> Inv_nn s.
Proof. intros [[Ha [Hn Hc]] [Hu [_ Hl]]]. repeat split; auto; apply Hl. Qed.
Lemma Inv_nn_rename s c x : Inv_nn s -> Inv_nn (with_names s (set_nth c x (names s))).
Proof. intros [Ha [Hn [Hc [Hu Hl]]]]. unfold Inv_nn. simpl. rewrite length_set_nth. auto. Qed.
Lemma Inv_nn_final s : Inv_nn s -> Inv (with_names s (correct_names (names s))).
Proof.
  intros [Ha [Hn [Hc [Hu Hl]]]]. inv_split; simpl; auto.
  - now rewrite correct_names_length.
  - apply correct_names_NoDup.
Qed.
Lemma set_name_list_inv l n s : Inv s -> Inv (set_name_list l n s).
Proof.
  intro H. unfold set_name_list. apply Inv_nn_final. apply fold_pres. 2: now apply Inv_nn_of.
  intros s0 ip H0. destruct (colidx_of_name s0 (snd ip)); auto. now apply Inv_nn_rename.
Qed.
Lemma set_name_loc_inv t n s : Inv s -> Inv (set_name_loc t n s).
Proof.
  intro H. unfold set_name_loc. destruct (loc s t); auto. apply Inv_nn_final. apply fold_pres. 2: now apply Inv_nn_of.
  intros s0 i H0. destruct (col_of_loc s0 t i); auto. now apply Inv_nn_rename.
Qed.

(* ------------------------------------------------------------------ selection-aware editors, general addColumns *)
Lemma set_cell_col_inv e c v s : Inv s -> Inv (set_cell_col e c v s).
Proof.
  intro H. unfold set_cell_col. destruct (zidx c (ncol s)) as [c'|] eqn:Ec; auto.
  destruct (zidx e (nech s)) as [e'|]; auto. apply zidx_some in Ec. destruct Ec as [Ec _].
  pose proof H as [[Ha [Hn Hc]] _]. apply Inv_with_arr; auto.
  - now rewrite length_set_nth.
  - intros col Hin. apply In_set_nth in Hin. destruct Hin as [->|Hin]; auto.
    rewrite length_set_nth. apply Hc. apply nth_In. lia.
Qed.
Lemma set_col_uid_loop_inv es : forall lec sel tab u s, Inv s -> Inv (set_col_uid_loop es lec sel tab u s).
Proof.
  induction es as [|e r IH]; intros lec sel tab u s H; simpl; auto.
  destruct (match sel with [] => true | _ => sel_on (nth e sel None) end); apply IH; auto. now apply set_cell_inv.
Qed.
Lemma set_column_uid_sel_inv u tab us s : Inv s -> Inv (set_column_uid_sel u tab us s).
Proof. apply set_col_uid_loop_inv. Qed.
Lemma set_col_col_loop_inv es : forall lec sel tab c s, Inv s -> Inv (set_col_col_loop es lec sel tab c s).
Proof.
  induction es as [|e r IH]; intros lec sel tab c s H; simpl; auto.
  destruct (match sel with [] => true | _ => sel_on (nth e sel None) end); apply IH; now apply set_cell_col_inv.
Qed.
Lemma set_column_col_inv c tab us s : Inv s -> Inv (set_column_col c tab us s).
Proof. intro H. unfold set_column_col. destruct (zidx c (ncol s)); auto. now apply set_col_col_loop_inv. Qed.
Lemma set_from_loc_inv t e k v s : Inv s -> Inv (set_from_loc t e k v s).
Proof.
  intro H. unfold set_from_loc. destruct (zidx e (nech s)); auto. destruct (col_of_loc s t k); auto.
  now apply set_cell_col_inv.
Qed.
Lemma del_samples_loop_inv es : forall s, Inv s -> Inv (del_samples_loop es s).
Proof.
  induction es as [|e r IH]; intros s H; simpl; auto. destruct (zidx e (nech s)); auto.
  apply IH. now apply del_sample_inv.
Qed.
Lemma add_cols_gen_inv tab radix t k us vi nv s :
  Inv s -> add_ok t k s = 0%Z -> Inv (add_cols_gen tab radix t k us vi nv s).
Proof.
  intros H Hok. unfold add_cols_gen. destruct tab as [|x tab']; auto.
  set (tab := x :: tab') in *.
  pose proof (set_nech0_inv (length tab / nv) s H) as H0.
  assert (El : loc (set_nech0 (length tab / nv) s) = loc s) by apply set_nech0_loc.
  set (s0 := set_nech0 (length tab / nv) s) in *.
  destruct (Nat.eqb _ 0); auto. destruct (negb _); auto.
  apply fold_inv. intros; now apply set_column_uid_sel_inv.
  apply add_cols_inv; auto. unfold add_ok in *. now rewrite El.
Qed.
Lemma add_sel_common_inv sel nm cmb s : Inv s -> Inv (add_sel_common sel nm cmb s).
Proof. intro H. unfold add_sel_common. apply add_cols_gen_inv; auto. Qed.

(* ------------------------------------------------------------------ resetDims: names New-1 .. New-n are distinct *)
Definition dval_from (a : Z) (l : list Z) : Z := fold_left (fun a d => (a * 10 + (d - 48))%Z) l a.
Lemma dec_aux_val fuel : forall n acc,
  (0 <= n < 10 ^ Z.of_nat fuel)%Z -> dval_from 0 (dec_aux fuel n acc) = dval_from n acc.
Proof.
  induction fuel as [|f IH]; intros n acc Hn.
  - simpl in Hn. assert (n = 0%Z) by lia. subst. reflexivity.
  - cbn [dec_aux]. destruct (n <? 10)%Z eqn:E.
    + apply Z.ltb_lt in E. unfold dval_from. cbn [fold_left]. f_equal. rewrite Z.mod_small by lia. lia.
    + apply Z.ltb_ge in E. rewrite IH.
      * unfold dval_from. cbn [fold_left]. f_equal. pose proof (Z.div_mod n 10). lia.
      * rewrite Nat2Z.inj_succ, Z.pow_succ_r in Hn by lia.
        split. apply Z.div_pos; lia. apply Z.div_lt_upper_bound; lia.
Qed.
Lemma pow10_gt n : (Z.of_nat n < 10 ^ Z.of_nat (S n))%Z.
Proof.
  induction n as [|n IH]. reflexivity.
  rewrite (Nat2Z.inj_succ (S n)), Z.pow_succ_r by lia. lia.
Qed.
Lemma dec_val n : dval_from 0 (dec n) = Z.of_nat n.
Proof. unfold dec. rewrite dec_aux_val. reflexivity. split. lia. apply pow10_gt. Qed.
Lemma dec_inj a b : dec a = dec b -> a = b.
Proof. intro H. apply Nat2Z.inj. rewrite <- !dec_val. now rewrite H. Qed.
Lemma NoDup_map_inj {A B} (f : A -> B) l : (forall x y, f x = f y -> x = y) -> NoDup l -> NoDup (map f l).
Proof.
  intros Hf. induction 1; simpl; constructor; auto.
  intro Hin. apply in_map_iff in Hin. destruct Hin as [y [E Hy]]. apply Hf in E. subst. contradiction.
Qed.
Lemma gen_names_NoDup radix n : NoDup (gen_names radix n).
Proof.
  unfold gen_names. apply NoDup_map_inj. 2: apply seq_NoDup.
  intros i j E. unfold incr_version in E. apply app_inv_head in E. inversion E as [E'].
  apply dec_inj in E'. lia.
Qed.
Lemma reset_dims_inv nc ne : Inv (reset_dims nc ne).
Proof.
  inv_split; simpl.
  - apply repeat_length.
  - apply length_gen_names.
  - intros col Hin. apply repeat_spec in Hin. subst. apply repeat_length.
  - unfold Inv_uid, uid_ok. simpl. rewrite (live_list_map_some (fun c => c)). apply map_id.
  - unfold Inv_names. simpl. apply gen_names_NoDup.
  - unfold Inv_loc, loc_ok. simpl. split; [intro; constructor | split; intros; contradiction].
Qed.

(* ------------------------------------------------------------------ C07_init, C07_step, C07_reachable *)
Lemma init_inv : Inv init.
Proof.
  inv_split; simpl; auto; try constructor; try reflexivity.
  - intros col [].
  - intro; constructor.
  - split; intros; contradiction.
Qed.

Lemma step_inv s o : Inv s -> accepted s o -> Inv (step s o).
Proof.
  intros H Hok. unfold accepted in Hok. destruct o; simpl step; simpl in Hok.
  - destruct (nadd <=? 0)%Z eqn:E.
    + unfold add_cols. now rewrite E.   (* nadd <= 0: nothing happens *)
    + now apply add_cols_inv.
  - now apply add_cols_tab_inv.
  - now apply add_selection_inv.
  - now apply del_uid_inv.
  - now apply del_col_inv.
  - now apply del_name_inv.
  - now apply del_uids_inv.
  - now apply del_by_loc_inv.
  - unfold set_loc_uid. destruct (zidx u (uidmax s)); auto. destruct (live s n); auto. now apply set_locs_inv.
  - unfold set_loc_col. destruct (zidx c (ncol s)); auto. unfold set_loc_uid.
    destruct (zidx (oz (uid_of_col s n)) (uidmax s)); auto. destruct (live s n0); auto. now apply set_locs_inv.
  - now apply set_locs_ids_inv.
  - now apply set_locs_inv.
  - now apply set_locs_inv.
  - now apply set_locs_inv.
  - now apply set_locs_ids_inv.
  - eapply Inv_same_table; eauto. apply clear_loc_table. apply clear_loc_loc. apply H.
  - now apply switch_loc_inv.
  - now apply set_name_col_inv.
  - now apply set_name_uid_inv.
  - now apply set_name_old_inv.
  - now apply add_samples_inv.
  - now apply del_sample_inv.
  - now apply set_cell_inv.
  - now apply set_value_inv.
  - now apply dup_col_inv.
  - now apply del_cols_inv.
  - now apply del_names_inv.
  - now apply del_uid_range_inv.
  - now apply set_name_list_inv.
  - now apply set_name_loc_inv.
  - now apply del_samples_loop_inv.
  - now apply set_column_uid_sel_inv.
  - now apply set_column_col_inv.
  - unfold set_column_name. destruct (ids_name s p true).
    + destruct tab. reflexivity || (unfold add_cols_gen; exact H). now apply add_cols_gen_inv.
    + now apply set_column_uid_sel_inv.
  - now apply set_cell_col_inv.
  - now apply set_from_loc_inv.
  - unfold add_cols_vvd. destruct (concat tabs) eqn:E.
    + unfold add_cols_gen. exact H.
    + rewrite <- E. apply add_cols_gen_inv; auto.
  - unfold add_selection_c. destruct tab. now apply add_sel_common_inv.
    destruct (negb _); auto. now apply add_sel_common_inv.
  - now apply add_sel_common_inv.
  - now apply add_sel_common_inv.
Qed.

(* C07 — "A Db stays a consistent table under any sequence of edits": property theorems only.
   Each is closed by [exact] of a lemma of Proofs_*.v.  Model: coq/C07/Model.v (mirror of Db.cpp / PtrGeos.cpp /
   String.cpp, defects included); invariant and guards: coq/C07/Spec.v. *)
From Coq Require Import List ZArith Bool Arith.
From Gst Require Import C07.Model C07.Spec C07.Proofs_inv C07.Proofs_reach C07.Proofs_desig C07.Proofs_frame C07.Proofs_obs.
Import ListNotations.

(* ---- the invariant holds for a freshly created Db *)
Theorem C07_init : Inv init.
Proof. exact init_inv. Qed.
Print Assumptions C07_init.
(* ---- and for the state resetDims leaves (every other creator starts from it): identity uid table, names New-1..New-n *)
Theorem C07_init_resetDims : forall ncol nech, Inv (reset_dims ncol nech).
Proof. exact reset_dims_inv. Qed.
Print Assumptions C07_init_resetDims.
(* ---- creators = fixed scripts of modelled calls on such a state (Db::createFromSamples, createFromBox,
        createFillRandom, DbGrid::create with its rank / coordinate columns, DbGrid::createSubGrid): the created Db
        satisfies the invariant whenever every call of the script is inside its guard, i.e. (only guard left) no role
        string / locatorIndex asks for a rank beyond the current count *)
Theorem C07_init_creators : forall g c, Inv (snd g) -> accepted_cmd g c -> Inv (snd (exec g c)).
Proof. exact exec_inv. Qed.
Print Assumptions C07_init_creators.
(* ---- any finite sequence of commands (creators, editors on a Db or — sample count frozen — on a DbGrid) *)
Theorem C07_reachable_cmd : forall cs g, Inv (snd g) -> all_accepted_cmd g cs -> Inv (snd (fold_left exec cs g)).
Proof. exact reachable_cmd. Qed.
Print Assumptions C07_reachable_cmd.

(* ---- every modelled editor (40 constructors of [op]) preserves it, under the guard [accepted] = the exact extra
        hypothesis the proofs force (Spec.why_not). One guard is left: for the role setters (and the locatorIndex
        argument of addColumnsByConstant / addColumns) the rank must not exceed the current number of roles of that
        type, counted after the role of the uid itself has been cancelled (see C07_step_refuted_index_beyond_count).
        Deleted uids, arbitrary icols and already-present names are handled by the (repaired) code itself. *)
Theorem C07_step : forall s o, Inv s -> accepted s o -> Inv (step s o).
Proof. exact step_inv. Qed.
Print Assumptions C07_step.

(* ---- hence after ANY finite history whose operations are inside their guards *)
Theorem C07_reachable : forall ops, all_accepted init ops -> Inv (run_ops ops).
Proof. exact reachable_inv. Qed.
Print Assumptions C07_reachable.

(* ---- and after any history whatsoever made of the editors whose guard is trivially true *)
Theorem C07_reachable_unguarded : forall ops, forallb unguarded ops = true -> Inv (run_ops ops).
Proof. exact reachable_unguarded. Qed.
Print Assumptions C07_reachable_unguarded.

(* ---- designators: column index, uid, (role, rank) and name lead to the same column and the same data; no
        hypothesis on the names: a stored name designates its own column even when, read as a pattern, it matches others *)
Theorem C07_designators : forall s, Inv s -> forall c, c < ncol s ->
  exists u,
    uid_of_col s c = Some u /\ col_of_uid s u = Some c /\
    (forall u', col_of_uid s u' = Some c -> u' = u) /\
    column_of_uid s u = column s c /\
    (forall t k, t < NLOC -> nth_error (loc s t) k = Some u ->
       col_of_loc s t k = Some c /\ loc_of_col s c = Some (t, k) /\ column_of_loc s t k = column s c) /\
    (forall t k, loc_of_col s c = Some (t, k) -> nth_error (loc s t) k = Some u) /\
    (forall n, nth_error (names s) c = Some n ->
       colidx_of_name s n = Some c /\ uid_of_name s n = Some u /\ column_of_name s n = column s c).
Proof. exact designators. Qed.
Print Assumptions C07_designators.

(* ---- reported counts = content *)
Theorem C07_counts : forall s, Inv s ->
  ncol s = length (names s) /\ ncol s = length (arr s) /\
  ncol s = length (filter (live s) (seq 0 (uidmax s))) /\
  (forall c, c < ncol s -> length (column s c) = nech s) /\
  nech s = length (map (is_active s) (seq 0 (nech s))).
Proof. exact counts. Qed.
Print Assumptions C07_counts.
Theorem C07_counts_active : forall s, active_number s = length (filter (is_active s) (seq 0 (nech s))).
Proof. exact active_count. Qed.
Print Assumptions C07_counts_active.

(* ---- frame: a cell (column identified by its uid, sample by its rank before the operation) that the operation
        does not address keeps its value *)
Theorem C07_frame : forall s o u e, Inv s -> accepted s o ->
  is_live s u -> is_live (step s o) u -> e < nech s ->
  addressed (fun c => oz (uid_of_col_z s c)) o (Z.of_nat u) e = false ->
  forall e', remap_sample o (nech s) e = Some e' -> get_cell (step s o) e' u = get_cell s e u.
Proof. exact frame. Qed.
Print Assumptions C07_frame.

(* ---- role setters (setLocatorsByUID and everything funnelled through it): every uid of an existing column designated by
        the call holds the requested role type afterwards — whatever the state *)
Theorem C07_setlocs_post : forall s us t' k cl u,
  In (Z.of_nat u) us -> is_live s u -> In u (loc (set_locs us (Some t') k cl s) t').
Proof. exact set_locs_post. Qed.
Print Assumptions C07_setlocs_post.
(* ---- setLocatorsByColIdx(icols, ..): every existing column listed in icols holds the requested role type afterwards *)
Theorem C07_setlocs_col_post : forall s cs t' k cl c c',
  Inv s -> In c cs -> zidx c (ncol s) = Some c' ->
  exists u, uid_of_col s c' = Some u /\ In u (loc (step s (SetLocsCol cs (Some t') k cl)) t').
Proof. exact set_locs_col_post. Qed.
Print Assumptions C07_setlocs_col_post.

(* ---- the observation-level check evaluated by the search step (extracted, run on the implementation's getters)
        is sound for the invariant: on the observations of any state satisfying Inv all nine clauses pass; hence an
        alarm of check_obs on an observation equal to the model's means the model state itself violates Inv *)
Theorem C07_obs_sound : forall s, Inv s -> check_obs (observe s) = 0%Z.
Proof. exact obs_sound. Qed.
Print Assumptions C07_obs_sound.
Theorem C07_obs_sound_reachable : forall ops, all_accepted init ops -> check_obs (observe (run_ops ops)) = 0%Z.
Proof. intros ops H. apply obs_sound. now apply reachable_inv. Qed.
Print Assumptions C07_obs_sound_reachable.

(* ---- cells read through the selection (getColumn*(useSel = true, flagCompress)): as many as there are active
        samples, whatever the values held by the selection column (also a clause of check_obs, hence of C07_obs_sound) *)
Theorem C07_selected_cells : forall s, Inv s -> chk_selcols (observe s) = true.
Proof. exact obs_selcols. Qed.
Print Assumptions C07_selected_cells.

(* ================= finding still present in the code ================= *)

(* setLocatorByUID(uid, type, rank) with rank beyond the current count pads the role list with uid 0:
   after addColumnsByConstant(3) and setLocatorByUID(2, Z, 3) the Z roles are held by uids 0,0,0,2 *)
Theorem C07_step_refuted_index_beyond_count :
  exists s o, Inv s /\ why_not s o = 1%Z /\ ~ Inv (step s o) /\ loc (step s o) 1 = [0; 0; 0; 2].
Proof. exists cex_index_state, cex_index_op. exact cex_index. Qed.
Print Assumptions C07_step_refuted_index_beyond_count.

(* ================= non-vacuity ================= *)
(* nv_state (Proofs_desig.v): a Db with a deleted middle column, roles on two types, a repaired duplicate name.
   The remaining guard has accepted and rejected instances on it, the invariant check on its observations is
   clean, steps change the state, the former defect witnesses now keep the invariant. *)
Example C07_nonvacuous_inv : Inv nv_state /\ Inv nv_sel_state.
Proof. exact nv_inv. Qed.
Example C07_nonvacuous :
  all_acceptedb init nv_ops = true /\
  ncol nv_state = 5 /\ uidcol nv_state = [Some 0; None; Some 1; Some 2; Some 3; Some 4] /\
  names nv_state = [[112; 45; 49]; [112; 45; 51]; [112; 45; 52]; [97]; [97; 46; 49]]%Z /\
  check_obs (observe nv_state) = 0%Z /\
  why_not nv_state (SetLocUID 5 (Some 1) 3 false) = 0%Z /\
  loc (step nv_state (SetLocUID 5 (Some 1) 3 false)) 1 = [0; 2; 3; 5] /\
  why_not nv_state (SetLocUID 5 (Some 1) 4 false) = 1%Z /\
  (* deleted uid: no-op *)
  why_not nv_state (SetLocUID 1 (Some 1) 0 false) = 0%Z /\ loc (step nv_state (SetLocUID 1 (Some 1) 0 true)) 1 = [0; 2; 3] /\
  (* arbitrary icols *)
  why_not nv_state (SetLocsCol [4; 0]%Z (Some 3) (-1) true) = 0%Z /\
  loc (step nv_state (SetLocsCol [4; 0]%Z (Some 3) (-1) true)) 3 = [5; 0] /\
  (* name already present: repaired *)
  names (step nv_state (SetNameCol 0 [97%Z])) = [[97; 46; 49; 46; 49]; [112; 45; 51]; [112; 45; 52]; [97]; [97; 46; 49]]%Z /\
  (* "a.1" designates its own column although, as a pattern, it also matches "a-1" *)
  names (step nv_state (SetNameCol 0 [97; 45; 49]%Z)) = [[97; 45; 49]; [112; 45; 51]; [112; 45; 52]; [97]; [97; 46; 49]]%Z /\
  colidx_of_name (step nv_state (SetNameCol 0 [97; 45; 49]%Z)) [97; 46; 49]%Z = Some 4 /\
  column_of_name (step nv_state (SetNameCol 0 [97; 45; 49]%Z)) [97; 46; 49]%Z = [Some 2; Some 2; Some 2]%Z /\
  (* an undefined selection value masks the sample, in the count too *)
  active_number (step nv_sel_state (AddSamples 2 None)) = 2 /\ nech (step nv_sel_state (AddSamples 2 None)) = 5 /\
  forallb unguarded [DelCols [1; 3]%Z; SetNameList [[97%Z]; [112; 45; 49]%Z] [97%Z]; AddSamples 2 None; DelSample 0] = true /\
  names (fold_left step [DelCols [1; 3]%Z; SetNameList [[97%Z]; [112; 45; 49]%Z] [97%Z]] nv_state)
    = [[97; 46; 50]; [112; 45; 52]; [97; 46; 49]]%Z /\
  get_cell nv_state 1 2 = Some 9%Z /\ get_cell (step nv_state (DelSample 0)) 0 2 = Some 9%Z /\
  remap_sample (DelSample 0) 3 1 = Some 0 /\ addressed (fun c => c) (SetArray 1 2 None) 2 1 = true /\
  sel_value nv_sel_state 1 = Some 0%Z.
Proof. vm_compute. repeat split; reflexivity. Qed.

(* creators; names made of regular-expression metacharacters designate their own column (exact name first);
   a selection value other than 0/1 breaks the selected-cells clause *)
Example C07_nonvacuous_creators :
  let g1 := exec (false, init) (NewGrid [3; 2] [1; 1]%Z [10; 20]%Z true
                 (map (fun z => Some z) [1; 2; 3; 4; 5; 6; 7; 8; 9; 10; 11; 12]%Z) [[97]; [120; 49]]%Z
                 [(Some 1, 1%Z); (Some 3, 1%Z)] true true) in
  let g2 := exec g1 (SubGrid [3; 2] [1; 1]%Z [10; 20]%Z [(1, 3); (0, 2)] true) in
  let g3 := exec (false, init) (NewSamples 2 false (map (fun z => Some z) [1; 2; 3; 4]%Z) [[97; 42]; [91; 40]]%Z [] true) in
  why_not_cmd (false, init) (NewGrid [3; 2] [1; 1]%Z [10; 20]%Z true
                 (map (fun z => Some z) [1; 2; 3; 4; 5; 6; 7; 8; 9; 10; 11; 12]%Z) [[97]; [120; 49]]%Z
                 [(Some 1, 1%Z); (Some 3, 1%Z)] true true) = 0%Z /\
  names (snd g1) = [[114; 97; 110; 107]; [120; 49; 46; 49]; [120; 50]; [97]; [120; 49]]%Z /\
  loc (snd g1) 0 = [1; 2] /\ loc (snd g1) 1 = [3] /\ loc (snd g1) 3 = [4] /\
  column (snd g1) 1 = map (fun z => Some z) [10; 11; 12; 10; 11; 12]%Z /\
  stepg (fst g1) (snd g1) (AddSamples 2 None) = snd g1 /\
  names (snd g2) = [[114; 97; 110; 107]; [120; 49]; [120; 50]; [97]]%Z /\
  column (snd g2) 3 = map (fun z => Some z) [2; 3; 5; 6]%Z /\ check_obs (observe (snd g2)) = 0%Z /\
  why_not_cmd (false, init) (NewSamples 2 true [Some 1; Some 2]%Z [] [(Some 0, 2%Z)] false) = 1%Z /\
  names (snd g3) = [[114; 97; 110; 107]; [97; 42]; [91; 40]]%Z /\
  colidx_of_name (snd g3) [91; 40]%Z = Some 2 /\ column_of_name (snd g3) [97; 42]%Z = [Some 1; Some 3]%Z /\
  check_obs (observe (snd g3)) = 0%Z /\
  chk_selcols (observe (step (snd g3) (SetLocCol 1 (Some SEL) 0 false))) = true /\
  column_sel (step (snd g3) (SetLocCol 1 (Some SEL) 0 false)) 0 true = [Some 1; Some 2]%Z /\
  remap_sample (DelSamples [0; 2]%Z) 4 3 = Some 1.
Proof. vm_compute. repeat split; reflexivity. Qed.

(* createCoarse after the deletion of a middle column: the new grid carries rank, x1, x2 and the columns b (f1), c (v1)
   of the input grid, designated by column index in the input, by uid in the migration *)
Example C07_nonvacuous_migrate :
  let g0 := exec (false, init) (NewGrid [4; 4] [1; 1]%Z [0; 0]%Z true [] [] [] true true) in
  let g1 := fold_left exec [Do (AddCols 1 (Some 5%Z) [97%Z] (Some 1) 0 0); Do (AddCols 1 (Some 6%Z) [98%Z] (Some 3) 0 0);
                            Do (AddCols 1 (Some 7%Z) [99%Z] (Some 2) 0 0); Do (DelName [97%Z])] g0 in
  let c := Migrate false [4; 4] [1; 1]%Z [0; 0]%Z [2; 2] true true in
  let g2 := exec g1 c in
  uidcol (snd g1) = [Some 0; Some 1; Some 2; None; Some 3; Some 4] /\ migrated_cols (snd g1) true = [3; 4] /\
  why_not_cmd g1 c = 0%Z /\
  names (snd g2) = [[114; 97; 110; 107]; [120; 49]; [120; 50]; [98]; [99]]%Z /\ nech (snd g2) = 4 /\
  loc (snd g2) 0 = [1; 2] /\ loc (snd g2) 1 = [] /\ loc (snd g2) 3 = [3] /\ loc (snd g2) 2 = [4] /\
  column (snd g2) 1 = [ABS; ABS; ABS; ABS] /\ column (snd g2) 3 = [ABS; ABS; ABS; ABS] /\
  check_obs (observe (snd g2)) = 0%Z /\
  column (snd (exec g1 (Migrate false [4; 4] [1; 1]%Z [0; 0]%Z [3; 3] true false))) 0 = [Some 1%Z] /\
  exec (false, snd g1) c = (false, snd g1).
Proof. vm_compute. repeat split; reflexivity. Qed.

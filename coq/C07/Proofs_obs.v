(* C07: the observation-level check used by the search step is sound for the invariant:
   Inv s -> check_obs (observe s) = 0 *)
From Coq Require Import List ZArith Bool Arith Lia Permutation.
From Gst Require Import C07.Model C07.Spec C07.Proofs_lists C07.Proofs_names C07.Proofs_inv C07.Proofs_reach C07.Proofs_desig.
Import ListNotations.

Lemma nth_map_seq {A} (f : nat -> A) n i d : i < n -> nth i (map f (seq 0 n)) d = f i.
Proof.
  intro H. rewrite (nth_indep _ d (f 0)) by (rewrite map_length, seq_length; lia).
  rewrite map_nth, seq_nth by lia. reflexivity.
Qed.
Lemma forallb_seq (P : nat -> bool) n : (forall i, i < n -> P i = true) -> forallb P (seq 0 n) = true.
Proof. intro H. apply forallb_forall. intros i Hi. apply in_seq in Hi. apply H. lia. Qed.
Lemma val_eqb_refl v : val_eqb v v = true.
Proof. destruct v; simpl; auto. apply Z.eqb_refl. Qed.
Lemma list_eqb_refl {A} (eqb : A -> A -> bool) l : (forall x, eqb x x = true) -> list_eqb eqb l l = true.
Proof. intro H. induction l; simpl; auto. now rewrite H, IHl. Qed.
Lemma nodup_names_spec l : NoDup l -> nodup_names l = true.
Proof.
  induction 1; simpl; auto. rewrite IHNoDup, andb_true_r. apply negb_true_iff. now apply mem_name_false.
Qed.
Lemma count_true_map {A} (f : A -> bool) l : count_true (map f l) = length (filter f l).
Proof. unfold count_true. induction l as [|x l IH]; simpl; auto. destruct (f x); simpl; auto. Qed.
Lemma nth_names s c : Inv s -> c < ncol s -> nth_error (names s) c = Some (nth c (names s) []).
Proof. intros [[_ [Hn _]] _] Hc. apply nth_error_nth'. lia. Qed.

Section Obs.
Variable s : state.
Hypothesis HI : Inv s.
Let o := observe s.
Ltac obs_simpl :=
  unfold o, observe;
  cbn [o_ncol o_nech o_nact o_active o_names o_uid2col o_alluids o_col2uid o_colloc o_loccols o_cols o_cols_uid
       o_cols_name o_cols_loc o_name2col o_name2uid o_cols_sel o_cols_selc].

Lemma obs_names : chk_names o = true.
Proof. unfold chk_names. obs_simpl. apply nodup_names_spec. apply HI. Qed.

Lemma obs_sizes : chk_sizes o = true.
Proof.
  destruct (counts s HI) as [C1 [C2 [C3 [C4 C5]]]].
  unfold chk_sizes. obs_simpl. rewrite !map_length, !seq_length, <- C1, <- C3, !Nat.eqb_refl. simpl. rewrite andb_true_r.
  apply forallb_forall. intros col Hin. apply in_map_iff in Hin. destruct Hin as [c [<- Hc]].
  apply in_seq in Hc. apply Nat.eqb_eq. apply C4. lia.
Qed.

Lemma uid2col_at u : u < uidmax s -> znth (o_uid2col o) u = oz (col_of_uid s u).
Proof. intro H. unfold znth. obs_simpl. now rewrite nth_map_seq. Qed.
Lemma col2uid_at c : c < ncol s -> znth (o_col2uid o) c = oz (uid_of_col s c).
Proof. intro H. unfold znth. obs_simpl. now rewrite nth_map_seq. Qed.
Lemma col_uid_lt u c : col_of_uid s u = Some c -> u < uidmax s.
Proof. intro H. apply col_of_uid_some in H. unfold uidmax. apply nth_error_Some. congruence. Qed.

Lemma obs_uid : chk_uid o = true.
Proof.
  unfold chk_uid. apply andb_true_iff. split.
  - apply forallb_seq. intros c Hc. change (o_ncol o) with (ncol s) in Hc.
    destruct (uid_of_col_ex s HI c Hc) as [u Hu]. pose proof (uid_of_col_some s c u Hu) as Hcu.
    cbv zeta. rewrite (col2uid_at c Hc), Hu. cbn [oz].
    replace (0 <=? Z.of_nat u)%Z with true by (symmetry; apply Z.leb_le; lia).
    rewrite Nat2Z.id, (uid2col_at u (col_uid_lt _ _ Hcu)), Hcu. cbn [oz andb]. apply Z.eqb_refl.
  - apply forallb_forall. intros z Hz. unfold o, observe in Hz. cbn [o_alluids] in Hz. apply in_map_iff in Hz. destruct Hz as [u [<- Hu]].
    apply filter_In in Hu. destruct Hu as [Hu Hl]. apply in_seq in Hu.
    replace (0 <=? Z.of_nat u)%Z with true by (symmetry; apply Z.leb_le; lia).
    rewrite Nat2Z.id, uid2col_at by lia. unfold live in Hl.
    destruct (col_of_uid s u); try discriminate. simpl. apply Z.leb_le. lia.
Qed.

Lemma obs_byname : chk_byname o = true.
Proof.
  unfold chk_byname. apply forallb_seq. intros c Hc. change (o_ncol o) with (ncol s) in Hc.
  destruct (designators s HI c Hc) as [u [Hu [Hcu [_ [_ [_ [_ Hname]]]]]]].
  destruct (Hname _ (nth_names s c HI Hc)) as [N1 [N2 N3]].
  rewrite (col2uid_at c Hc), Hu. unfold znth. obs_simpl.
  rewrite !nth_map_seq by auto. rewrite N1, N2, N3. simpl. rewrite !Z.eqb_refl. simpl.
  apply list_eqb_refl. apply val_eqb_refl.
Qed.

Lemma colloc_at_obs c : c < ncol s ->
  colloc_at o c = match loc_of_col s c with
                  | Some (t, k) => (Z.of_nat t, Z.of_nat k)
                  | None => ((-1)%Z, (-1)%Z) end.
Proof. intro H. unfold colloc_at. obs_simpl. now rewrite nth_map_seq. Qed.
Lemma loccols_at t : t < NLOC ->
  nth t (o_loccols o) [] = map (fun k => oz (col_of_loc s t k)) (seq 0 (length (loc s t))).
Proof. intro H. obs_simpl. now rewrite nth_map_seq. Qed.
Lemma find_loc_from_In c ts t k : find_loc_from s c ts = Some (t, k) -> In t ts.
Proof.
  induction ts as [|t0 ts IH]; simpl; try discriminate.
  destruct (find_index _ (loc s t0)). intro H; inversion H; auto. intro H; right; auto.
Qed.
(* rank k of type t: the uid there, its column, and the way back *)
Lemma role_entry t k : t < NLOC -> k < length (loc s t) ->
  exists u c, nth_error (loc s t) k = Some u /\ col_of_uid s u = Some c /\ c < ncol s /\
              col_of_loc s t k = Some c /\ loc_of_col s c = Some (t, k).
Proof.
  intros Ht Hk. destruct (nth_error (loc s t) k) as [u|] eqn:Eu; [|apply nth_error_None in Eu; lia].
  destruct HI as [_ [_ [_ [_ [Hlive _]]]]]. destruct (Hlive t u (nth_error_In _ _ Eu)) as [c Hc].
  apply col_of_uid_some in Hc. pose proof (col_of_uid_bound s HI u c Hc) as Hb.
  exists u, c. repeat split; auto.
  - rewrite (col_of_loc_nth s t k u Eu). exact Hc.
  - unfold loc_of_col. eapply find_loc_from_spec; eauto. apply in_seq. lia.
Qed.
Lemma loc_of_col_entry c t k : loc_of_col s c = Some (t, k) ->
  t < NLOC /\ k < length (loc s t) /\ col_of_loc s t k = Some c.
Proof.
  intro H. pose proof (find_loc_from_In _ _ _ _ H) as Hin. apply in_seq in Hin.
  apply find_loc_from_some in H. destruct H as [u [H1 H2]].
  repeat split; try lia. apply nth_error_Some. congruence. rewrite (col_of_loc_nth s t k u H1). exact H2.
Qed.

Lemma obs_roles : chk_roles o = true.
Proof.
  unfold chk_roles. apply andb_true_iff. split.
  - apply forallb_seq. intros t Ht. cbv zeta. rewrite (loccols_at t Ht), map_length, seq_length.
    apply forallb_seq. intros k Hk.
    destruct (role_entry t k Ht Hk) as [u [c [E1 [E2 [E3 [E4 E5]]]]]].
    unfold znth. rewrite nth_map_seq by auto. rewrite E4. simpl.
    replace (0 <=? Z.of_nat c)%Z with true by (symmetry; apply Z.leb_le; lia).
    replace (Z.of_nat c <? Z.of_nat (ncol s))%Z with true by (symmetry; apply Z.ltb_lt; lia).
    rewrite Nat2Z.id, (colloc_at_obs c E3), E5. simpl. now rewrite !Z.eqb_refl.
  - apply forallb_seq. intros c Hc. change (o_ncol o) with (ncol s) in Hc. cbv zeta.
    rewrite (colloc_at_obs c Hc). destruct (loc_of_col s c) as [[t k]|] eqn:E; [|reflexivity].
    destruct (loc_of_col_entry c t k E) as [Ht [Hk Hcl]]. simpl fst. simpl snd.
    rewrite !Nat2Z.id, (loccols_at t Ht). unfold znth. rewrite nth_map_seq by auto. rewrite Hcl. simpl.
    rewrite Z.eqb_refl. apply orb_true_r.
Qed.

(* getLocatorNumber(t) = number of columns whose role type is t *)
Definition colof (u : nat) : nat := match col_of_uid s u with Some c => c | None => 0 end.
Lemma obs_rolecount : chk_rolecount o = true.
Proof.
  unfold chk_rolecount. apply forallb_seq. intros t Ht. rewrite (loccols_at t Ht), map_length, seq_length.
  apply Nat.eqb_eq. change (o_ncol o) with (ncol s).
  set (F := filter (fun c => (fst (colloc_at o c) =? Z.of_nat t)%Z) (seq 0 (ncol s))).
  rewrite <- (map_length colof (loc s t)). apply Permutation_length. apply NoDup_Permutation.
  - (* distinct uids of the list have distinct columns *)
    destruct HI as [_ [_ [_ [Hnd [Hlive _]]]]]. specialize (Hnd t).
    assert (Hl : forall u, In u (loc s t) -> exists c, col_of_uid s u = Some c).
    { intros u Hu. destruct (Hlive t u Hu) as [c Hc]. exists c. now apply col_of_uid_some. }
    clear Hlive. induction (loc s t) as [|u l IH]; simpl; constructor.
    + intro Hin. apply in_map_iff in Hin. destruct Hin as [u' [E Hu']].
      destruct (Hl u (or_introl eq_refl)) as [c Hc]. destruct (Hl u' (or_intror Hu')) as [c' Hc'].
      unfold colof in E. rewrite Hc, Hc' in E. subst c'.
      assert (u' = u) by (eapply col_of_uid_inj; eauto). subst u'. inversion Hnd; contradiction.
    + apply IH. now inversion Hnd. intros; apply Hl; now right.
  - unfold F. apply NoDup_filter. apply seq_NoDup.
  - intro c. split.
    + intro Hin. apply in_map_iff in Hin. destruct Hin as [u [<- Hu]].
      destruct (In_nth_error _ _ Hu) as [k Hk].
      assert (Hkl : k < length (loc s t)) by (apply nth_error_Some; congruence).
      destruct (role_entry t k Ht Hkl) as [u' [c [E1 [E2 [E3 [E4 E5]]]]]].
      rewrite Hk in E1. inversion E1; subst u'. unfold colof. rewrite E2.
      unfold F. apply filter_In. split. apply in_seq; lia.
      rewrite (colloc_at_obs c E3), E5. simpl. apply Z.eqb_refl.
    + intro Hin. unfold F in Hin. apply filter_In in Hin. destruct Hin as [Hc Ht'].
      apply in_seq in Hc. rewrite colloc_at_obs in Ht' by lia.
      destruct (loc_of_col s c) as [[t' k]|] eqn:E; cbn [fst] in Ht'.
      * apply Z.eqb_eq in Ht'. apply Nat2Z.inj in Ht'. subst t'.
        pose proof E as E'. apply find_loc_from_some in E'. destruct E' as [u [H1 H2]].
        apply in_map_iff. exists u. split. unfold colof. now rewrite H2. eapply nth_error_In; eauto.
      * apply Z.eqb_eq in Ht'. lia.
Qed.

Lemma obs_active : chk_active o = true.
Proof.
  unfold chk_active. obs_simpl. rewrite count_true_map, <- active_count. apply Nat.eqb_refl.
Qed.

Lemma obs_cols : chk_cols o = true.
Proof.
  unfold chk_cols. apply forallb_seq. intros c Hc. change (o_ncol o) with (ncol s) in Hc.
  destruct (designators s HI c Hc) as [u [Hu [Hcu [_ [Hcol [_ [Hback _]]]]]]].
  rewrite (colloc_at_obs c Hc). obs_simpl. rewrite !nth_map_seq by auto. rewrite Hu, Hcol.
  rewrite (list_eqb_refl val_eqb _ val_eqb_refl). simpl.
  destruct (loc_of_col s c) as [[t k]|] eqn:E; [|reflexivity].
  destruct (loc_of_col_entry c t k E) as [_ [_ Hcl]]. unfold column_of_loc. rewrite Hcl.
  rewrite (list_eqb_refl val_eqb _ val_eqb_refl). apply orb_true_r.
Qed.

(* cells read through the selection: as many as there are active samples (one rule: defined and not 0) *)
Lemma length_flat_map_filter {A B} (P : A -> bool) (g : A -> B) l :
  length (flat_map (fun e => if P e then [g e] else []) l) = length (filter P l).
Proof. induction l as [|x l IH]; simpl; auto. destruct (P x); simpl; auto. Qed.
Lemma length_flat_map_one {A B} (f : A -> list B) l : (forall x, length (f x) = 1) -> length (flat_map f l) = length l.
Proof. intro H. induction l as [|x l IH]; simpl; auto. rewrite app_length, H, IH. reflexivity. Qed.
Lemma obs_selcols : chk_selcols o = true.
Proof.
  unfold chk_selcols. obs_simpl. apply andb_true_iff. split.
  - apply forallb_forall. intros col Hin. apply in_map_iff in Hin. destruct Hin as [c [<- Hc]].
    apply in_seq in Hc. apply Nat.eqb_eq. unfold column_sel.
    replace (c <? ncol s) with true by (symmetry; apply Nat.ltb_lt; lia).
    rewrite active_count. unfold selections.
    destruct (loc s SEL) as [|u0 l0] eqn:El.
    + (* no selection *)
      rewrite length_flat_map_one by (intro; reflexivity). rewrite seq_length.
      assert (F : filter (is_active s) (seq 0 (nech s)) = seq 0 (nech s)).
      { rewrite <- (app_nil_r (seq 0 (nech s))) at 2. induction (seq 0 (nech s)); simpl; auto.
        unfold is_active at 1. rewrite El. now rewrite IHl, app_nil_r. }
      now rewrite F, seq_length.
    + assert (Hk : 0 < length (loc s SEL)) by (rewrite El; simpl; lia).
      assert (Ht : SEL < NLOC) by (unfold SEL, NLOC; lia).
      destruct (role_entry SEL 0 Ht Hk) as [u [c0 [E1 [E2 [E3 [E4 E5]]]]]].
      rewrite E4. replace (c0 <? ncol s) with true by (symmetry; now apply Nat.ltb_lt).
      destruct (nech s) as [|n] eqn:En; [reflexivity|].
      set (sel := map (fun e => nth e (nth c0 (arr s) []) None) (seq 0 (S n))).
      assert (Hs : exists x r, sel = x :: r) by (unfold sel; simpl; eauto).
      destruct Hs as [x [r Hs]].
      transitivity (length (flat_map (fun e => if sel_on (nth e sel None) then [nth e (nth c (arr s) []) None] else [])
                                     (seq 0 (S n)))).
      { apply (f_equal (@length val)). apply flat_map_ext. intro e. rewrite Hs. reflexivity. }
      rewrite length_flat_map_filter. f_equal. apply filter_ext_in. intros e He. apply in_seq in He.
      unfold sel. rewrite nth_map_seq by lia.
      assert (Hsv : sel_value s e = nth e (nth c0 (arr s) []) None).
      { unfold sel_value. rewrite E4. now replace (c0 <? ncol s) with true by (symmetry; now apply Nat.ltb_lt). }
      unfold is_active. rewrite El, Hsv. unfold sel_on. reflexivity.
  - apply forallb_forall. intros col Hin. apply in_map_iff in Hin. destruct Hin as [c [<- Hc]].
    apply in_seq in Hc. apply Nat.eqb_eq. unfold column_sel.
    replace (c <? ncol s) with true by (symmetry; apply Nat.ltb_lt; lia).
    rewrite length_flat_map_one, seq_length; auto.
    intro e. destruct (match selections s with [] => true | _ => sel_on (nth e (selections s) None) end); reflexivity.
Qed.

Lemma obs_sound : check_obs (observe s) = 0%Z.
Proof.
  unfold check_obs. fold o.
  now rewrite obs_names, obs_sizes, obs_uid, obs_byname, obs_roles, obs_rolecount, obs_active, obs_cols, obs_selcols.
Qed.
End Obs.

(* C07: reachability (all finite histories) and the counterexamples that the faithful model exhibits *)
From Coq Require Import List ZArith Bool Arith Lia.
From Gst Require Import C07.Model C07.Spec C07.Proofs_lists C07.Proofs_names C07.Proofs_inv.
Import ListNotations.

(* every operation of the history is inside its guard in the state where it is applied *)
Fixpoint all_accepted (s : state) (ops : list op) : Prop :=
  match ops with
  | [] => True
  | o :: r => accepted s o /\ all_accepted (step s o) r
  end.
Lemma reachable_from s ops : Inv s -> all_accepted s ops -> Inv (fold_left step ops s).
Proof.
  revert s; induction ops as [|o r IH]; intros s H Ha; simpl in *; auto.
  destruct Ha as [H1 H2]. apply IH; auto. now apply step_inv.
Qed.
Lemma reachable_inv ops : all_accepted init ops -> Inv (run_ops ops).
Proof. apply reachable_from. apply init_inv. Qed.

(* editors whose guard is trivially true whatever the state: no hypothesis at all on the history *)
Definition unguarded (o : op) : bool :=
  match o with
  | AddCols _ _ _ t k _ => match t with None => true | Some _ => (k <? 0)%Z end
  | AddColsTab _ _ t k => match t with None => true | Some _ => (k <? 0)%Z end
  | AddSel _ _ | DelUID _ | DelCol _ | DelName _ | DelUIDs _ | DelByLoc _ | ClearLoc _ | SwitchLoc _ _
  | SetNameCol _ _ | SetNameUID _ _ | SetNameOld _ _ | AddSamples _ _ | DelSample _ | SetArray _ _ _ | SetValue _ _ _
  | DupCol _ _ | DelCols _ | DelNames _ | DelUIDRange _ _ | SetNameList _ _ | SetNameLoc _ _
  | DelSamples _ | SetColumnUID _ _ _ | SetColumnCol _ _ _ | SetValueCol _ _ _ | SetFromLoc _ _ _ _
  | AddSelC _ _ _ | AddSelLimit _ _ _ _ _ _ => true
  | AddColsVVD _ _ t k _ => match t with None => true | Some _ => (k <? 0)%Z end
  | _ => false
  end.
Lemma unguarded_accepted s o : unguarded o = true -> accepted s o.
Proof.
  unfold accepted. destruct o; simpl; intro H; try discriminate; auto.
  - destruct (nadd <=? 0)%Z; auto. destruct t; simpl; auto. now rewrite H.
  - destruct tab; auto. destruct t; simpl; auto. now rewrite H.
  - destruct (concat tabs); auto. destruct t; simpl; auto. now rewrite H.
Qed.
Lemma unguarded_all s ops : forallb unguarded ops = true -> all_accepted s ops.
Proof.
  revert s; induction ops as [|o r IH]; intros s H; simpl in *; auto.
  apply andb_true_iff in H. destruct H as [H1 H2]. split; auto. now apply unguarded_accepted.
Qed.
Lemma reachable_unguarded ops : forallb unguarded ops = true -> Inv (run_ops ops).
Proof. intro H. apply reachable_inv. now apply unguarded_all. Qed.

(* a decidable sufficient test of all_accepted, for concrete histories *)
Fixpoint all_acceptedb (s : state) (ops : list op) : bool :=
  match ops with
  | [] => true
  | o :: r => (why_not s o =? 0)%Z && all_acceptedb (step s o) r
  end.
Lemma all_acceptedb_spec s ops : all_acceptedb s ops = true -> all_accepted s ops.
Proof.
  revert s; induction ops as [|o r IH]; intros s H; simpl in *; auto.
  apply andb_true_iff in H. destruct H as [H1 H2]. split; auto. now apply Z.eqb_eq in H1.
Qed.

(* ------------------------------------------------------------------ scripts (creators) and commands *)
Lemma script_inv sc : forall s, Inv s -> script_why s sc = 0%Z -> Inv (run_script sc s).
Proof.
  unfold run_script. induction sc as [|o r IH]; intros s H Hw; simpl in *; auto.
  destruct (why_not s o =? 0)%Z eqn:E.
  - apply IH; auto. apply step_inv; auto. now apply Z.eqb_eq in E.
  - apply Z.eqb_neq in E. contradiction.
Qed.
Lemma stepg_inv g s o : Inv s -> (g && is_sample_edit o = true \/ accepted s o) -> Inv (stepg g s o).
Proof.
  intros H Ha. unfold stepg. destruct (g && is_sample_edit o); auto.
  destruct Ha as [Ha|Ha]; [discriminate|]. now apply step_inv.
Qed.
(* every creator starts from a state satisfying the invariant (the fresh Db, or the one left by resetDims) *)
Lemma cmd_start_inv s c : Inv s -> Inv (snd (cmd_script s c)).
Proof.
  intro H. destruct c; simpl; auto; try apply reset_dims_inv; try apply init_inv.
  all: try (destruct (migrate_dims refine nx nmult cell rank); simpl; apply reset_dims_inv).
Qed.
Lemma exec_inv g c : Inv (snd g) -> accepted_cmd g c -> Inv (snd (exec g c)).
Proof.
  intros H Ha. unfold accepted_cmd, why_not_cmd in Ha.
  destruct c; simpl exec.
  - simpl. apply stepg_inv; auto. destruct (fst g && is_sample_edit o); auto.
  - simpl. apply script_inv; auto. apply reset_dims_inv.
  - simpl. apply script_inv; auto. apply reset_dims_inv.
  - simpl. apply script_inv; auto. apply init_inv.
  - simpl. apply script_inv; auto. apply reset_dims_inv.
  - destruct (fst g); auto. simpl. apply script_inv; auto. apply reset_dims_inv.
  - destruct (fst g); auto. simpl in *. destruct (migrate_dims refine nx nmult cell rank).
    apply script_inv; auto. apply reset_dims_inv.
Qed.
Fixpoint all_accepted_cmd (g : gstate) (cs : list cmd) : Prop :=
  match cs with
  | [] => True
  | c :: r => accepted_cmd g c /\ all_accepted_cmd (exec g c) r
  end.
Lemma reachable_cmd cs : forall g, Inv (snd g) -> all_accepted_cmd g cs -> Inv (snd (fold_left exec cs g)).
Proof.
  induction cs as [|c r IH]; intros g H Ha; simpl in *; auto.
  destruct Ha as [H1 H2]. apply IH; auto. now apply exec_inv.
Qed.

(* ------------------------------------------------------------------ counterexamples *)
Definition nmA : name := [97%Z].
Definition Zt : loctype := Some 1.
(* addColumnsByConstant(3); setLocatorByUID(2, Z, 3): four Z roles, three of them held by uid 0 *)
Definition cex_index_state : state := run_ops [AddCols 3 (Some 0%Z) nmA None 0 2].
Definition cex_index_op : op := SetLocUID 2 Zt 3 false.
Lemma cex_index :
  Inv cex_index_state /\ why_not cex_index_state cex_index_op = 1%Z /\
  ~ Inv (step cex_index_state cex_index_op) /\
  loc (step cex_index_state cex_index_op) 1 = [0; 0; 0; 2].
Proof.
  split; [|split; [|split]].
  - apply reachable_inv. apply all_acceptedb_spec. vm_compute. reflexivity.
  - vm_compute. reflexivity.
  - intros [_ [_ [_ [Hnd _]]]]. specialize (Hnd 1). vm_compute in Hnd.
    inversion Hnd as [|x l Hni _]; subst. apply Hni. now left.
  - vm_compute. reflexivity.
Qed.

(* C07: reachability (all finite histories) and the counterexamples that the faithful model exhibits *)
From Coq Require Import List ZArith Bool Arith Lia.
From Gst Require Import C07.Model C07.Spec C07.Proofs_lists C07.Proofs_names C07.Proofs_inv.
Import ListNotations.

(* every operation of the history is inside its guard in the state where it is applied *)
Fixpoint all_accepted (s : state) (ops : list op) : Prop :=
  match ops with
  | [] => True
  | o :: r => accepted s o /\ all_accepted (step s o) r
  end.
Lemma reachable_from s ops : Inv s -> all_accepted s ops -> Inv (fold_left step ops s).
Proof.
  revert s; induction ops as [|o r IH]; intros s H Ha; simpl in *; auto.
  destruct Ha as [H1 H2]. apply IH; auto. now apply step_inv.
Qed.
Lemma reachable_inv ops : all_accepted init ops -> Inv (run_ops ops).
Proof. apply reachable_from. apply init_inv. Qed.

(* editors whose guard is trivially true whatever the state: no hypothesis at all on the history *)
Definition unguarded (o : op) : bool :=
  match o with
  | AddCols _ _ _ t k _ => match t with None => true | Some _ => (k <? 0)%Z end
  | AddColsTab _ _ t k => match t with None => true | Some _ => (k <? 0)%Z end
  | AddSel _ _ | DelUID _ | DelCol _ | DelName _ | DelUIDs _ | DelByLoc _ | ClearLoc _ | SwitchLoc _ _
  | SetNameCol _ _ | SetNameUID _ _ | SetNameOld _ _ | AddSamples _ _ | DelSample _ | SetArray _ _ _ | SetValue _ _ _
  | DupCol _ _ | DelCols _ | DelNames _ | DelUIDRange _ _ | SetNameList _ _ | SetNameLoc _ _ => true
  | _ => false
  end.
Lemma unguarded_accepted s o : unguarded o = true -> accepted s o.
Proof.
  unfold accepted. destruct o; simpl; intro H; try discriminate; auto.
  - destruct (nadd <=? 0)%Z; auto. destruct t; simpl; auto. now rewrite H.
  - destruct tab; auto. destruct t; simpl; auto. now rewrite H.
Qed.
Lemma unguarded_all s ops : forallb unguarded ops = true -> all_accepted s ops.
Proof.
  revert s; induction ops as [|o r IH]; intros s H; simpl in *; auto.
  apply andb_true_iff in H. destruct H as [H1 H2]. split; auto. now apply unguarded_accepted.
Qed.
Lemma reachable_unguarded ops : forallb unguarded ops = true -> Inv (run_ops ops).
Proof. intro H. apply reachable_inv. now apply unguarded_all. Qed.

(* a decidable sufficient test of all_accepted, for concrete histories *)
Fixpoint all_acceptedb (s : state) (ops : list op) : bool :=
  match ops with
  | [] => true
  | o :: r => (why_not s o =? 0)%Z && all_acceptedb (step s o) r
  end.
Lemma all_acceptedb_spec s ops : all_acceptedb s ops = true -> all_accepted s ops.
Proof.
  revert s; induction ops as [|o r IH]; intros s H; simpl in *; auto.
  apply andb_true_iff in H. destruct H as [H1 H2]. split; auto. now apply Z.eqb_eq in H1.
Qed.

(* ------------------------------------------------------------------ counterexamples *)
Definition nmA : name := [97%Z].
Definition Zt : loctype := Some 1.
(* addColumnsByConstant(3); setLocatorByUID(2, Z, 3): four Z roles, three of them held by uid 0 *)
Definition cex_index_state : state := run_ops [AddCols 3 (Some 0%Z) nmA None 0 2].
Definition cex_index_op : op := SetLocUID 2 Zt 3 false.
Lemma cex_index :
  Inv cex_index_state /\ why_not cex_index_state cex_index_op = 1%Z /\
  ~ Inv (step cex_index_state cex_index_op) /\
  loc (step cex_index_state cex_index_op) 1 = [0; 0; 0; 2].
Proof.
  split; [|split; [|split]].
  - apply reachable_inv. apply all_acceptedb_spec. vm_compute. reflexivity.
  - vm_compute. reflexivity.
  - intros [_ [_ [_ [Hnd _]]]]. specialize (Hnd 1). vm_compute in Hnd.
    inversion Hnd as [|x l Hni _]; subst. apply Hni. now left.
  - vm_compute. reflexivity.
Qed.

(* C07: frame condition (cells not addressed keep their value) and post-condition of the role setters *)
From Coq Require Import List ZArith Bool Arith Lia.
From Gst Require Import C07.Model C07.Spec C07.Proofs_lists C07.Proofs_names C07.Proofs_inv C07.Proofs_reach C07.Proofs_desig.
Import ListNotations.

Lemma nth_as_nth_error {A} (l : list A) n d :
  nth n l d = match nth_error l n with Some x => x | None => d end.
Proof.
  destruct (nth_error l n) eqn:E. now apply nth_error_nth. apply nth_overflow. now apply nth_error_None.
Qed.
Lemma nth_remove_nth {A} (l : list A) n i d :
  nth i (remove_nth n l) d = if i <? n then nth i l d else nth (S i) l d.
Proof. rewrite !nth_as_nth_error, nth_error_remove_nth. destruct (i <? n); reflexivity. Qed.

(* ------------------------------------------------------------------ "keeps": cells of surviving uids *)
(* [grow = true]: the set of live uids may only grow (additions); [false]: may only shrink (deletions) *)
Definition keeps (grow : bool) (P : nat -> nat -> Prop) (s s' : state) : Prop :=
  nech s' = nech s /\
  (forall u, if grow then is_live s u -> is_live s' u else is_live s' u -> is_live s u) /\
  forall u e, is_live s u -> is_live s' u -> e < nech s -> P u e -> get_cell s' e u = get_cell s e u.
Lemma keeps_refl g P s : keeps g P s s.
Proof. split; [|split]; auto. destruct g; auto. Qed.
Lemma keeps_trans g P a b c : keeps g P a b -> keeps g P b c -> keeps g P a c.
Proof.
  intros [N1 [L1 C1]] [N2 [L2 C2]]. split; [congruence|split].
  - intro u. specialize (L1 u). specialize (L2 u). destruct g; auto.
  - intros u e Ha Hc He Hp.
    assert (Hb : is_live b u) by (specialize (L1 u); specialize (L2 u); destruct g; auto).
    rewrite C2; auto. congruence.
Qed.
Lemma keeps_weaken g (P Q : nat -> nat -> Prop) s s' :
  (forall u e, Q u e -> P u e) -> keeps g P s s' -> keeps g Q s s'.
Proof. intros H [N [L C]]. split; [|split]; auto. Qed.
Lemma keeps_fold {A} g P (f : state -> A -> state) l s :
  (forall s x, Inv s -> Inv (f s x)) -> (forall s x, Inv s -> keeps g P s (f s x)) ->
  Inv s -> keeps g P s (fold_left f l s).
Proof.
  intros Hi Hk. revert s; induction l as [|x l IH]; intros s H; simpl. apply keeps_refl.
  eapply keeps_trans; [apply Hk; auto | apply IH; auto].
Qed.
Lemma keeps_same_cells g P s s' :
  nech s' = nech s -> ncol s' = ncol s -> arr s' = arr s -> uidcol s' = uidcol s -> keeps g P s s'.
Proof.
  intros E1 E2 E3 E4. unfold keeps, is_live, get_cell, col_of_uid. rewrite E1, E2, E3, E4.
  split; [|split]; auto. destruct g; auto.
Qed.
Lemma keeps_same_table g P s s' : same_table s s' -> keeps g P s s'.
Proof. intros [E1 [E2 [E3 [E4 E5]]]]. now apply keeps_same_cells. Qed.

(* setArray *)
Lemma keeps_set_cell s e0 u0 v :
  Inv s -> forall g, keeps g (fun u e => Z.of_nat u <> u0 \/ Z.of_nat e <> e0) s (set_cell e0 u0 v s).
Proof.
  intros H g. unfold set_cell.
  destruct (zidx e0 (nech s)) as [e0'|] eqn:Ee; [|apply keeps_refl].
  destruct (zidx u0 (uidmax s)) as [u0'|] eqn:Eu; [|apply keeps_refl].
  destruct (col_of_uid s u0') as [c0|] eqn:Ec; [|apply keeps_refl].
  destruct (c0 <? ncol s) eqn:Elt; [|apply keeps_refl].
  apply Nat.ltb_lt in Elt. apply zidx_some in Ee. apply zidx_some in Eu. destruct Ee as [_ ->]. destruct Eu as [_ ->].
  split; [reflexivity|split; [destruct g; auto|]].
  intros u e _ [c Hc] He Hp. simpl in Hc. unfold get_cell, col_of_uid. simpl. rewrite Hc.
  destruct ((c <? ncol s) && (e <? nech s)); auto.
  destruct (Nat.eq_dec c c0) as [->|Hne].
  - assert (u = u0') by (eapply col_of_uid_inj; eauto; now apply col_of_uid_some). subst u.
    destruct H as [[Ha _] _]. rewrite nth_set_nth_eq by lia.
    rewrite nth_set_nth_neq; auto. destruct Hp as [Hp|Hp]; [congruence | intro; subst; congruence].
  - now rewrite nth_set_nth_neq.
Qed.

(* deleteColumnByUID *)
Lemma is_live_del_uid x s u : is_live (del_uid x s) u -> is_live s u.
Proof.
  unfold del_uid. destruct (zidx x (uidmax s)) as [x'|]; auto.
  destruct (col_of_uid s x') as [c0|]; auto. destruct (c0 <? ncol s); auto.
  unfold is_live, live_in. simpl. intros [c H]. rewrite nth_error_map in H.
  destruct (Nat.eq_dec u x') as [->|Hne].
  - destruct (nth_error (set_nth x' None (uidcol s)) x') eqn:E; try discriminate.
    assert (x' < length (uidcol s)).
    { rewrite <- (length_set_nth x' None). apply nth_error_Some. congruence. }
    rewrite nth_error_set_nth_eq in E by auto. inversion E; subst. discriminate.
  - rewrite nth_error_set_nth_neq in H by auto.
    destruct (nth_error (uidcol s) u) as [[c'|]|]; simpl in H; try discriminate. eauto.
Qed.
Lemma keeps_del_uid x s : Inv s -> keeps false (fun _ _ => True) s (del_uid x s).
Proof.
  intro H. split; [|split; [apply is_live_del_uid|]].
  { unfold del_uid. destruct (zidx x (uidmax s)); auto. destruct (col_of_uid s n); auto. destruct (n0 <? ncol s); auto. }
  intros u e _ Hl He _. pose proof (is_live_del_uid _ _ _ Hl) as Hl0. revert Hl.
  unfold del_uid. destruct (zidx x (uidmax s)) as [x'|]; auto.
  destruct (col_of_uid s x') as [c0|] eqn:Ec0; auto. destruct (c0 <? ncol s) eqn:Elt; auto.
  apply Nat.ltb_lt in Elt. intros [c' Hc'].
  destruct Hl0 as [c Hc]. pose proof (col_of_uid_bound s H u c (proj2 (col_of_uid_some s u c) Hc)) as Hb.
  unfold get_cell, col_of_uid in *. simpl in *. rewrite Hc', Hc.
  rewrite nth_error_map in Hc'.
  assert (Hux : u <> x').
  { intros ->. apply col_of_uid_some in Ec0.
    assert (x' < length (uidcol s)) by (apply nth_error_Some; congruence).
    rewrite nth_error_set_nth_eq in Hc' by auto. discriminate. }
  rewrite nth_error_set_nth_neq, Hc in Hc' by auto. simpl in Hc'.
  assert (Hcc : c <> c0).
  { intros ->. apply Hux. eapply col_of_uid_inj; eauto. apply col_of_uid_some; eauto. }
  replace (c <? ncol s) with true by (symmetry; apply Nat.ltb_lt; lia).
  destruct (c <? c0) eqn:E; inversion Hc'; subst c'.
  - apply Nat.ltb_lt in E. replace (c <? ncol s - 1) with true by (symmetry; apply Nat.ltb_lt; lia).
    rewrite nth_remove_nth. replace (c <? c0) with true by (symmetry; now apply Nat.ltb_lt). reflexivity.
  - apply Nat.ltb_ge in E. replace (c - 1 <? ncol s - 1) with true by (symmetry; apply Nat.ltb_lt; lia).
    rewrite nth_remove_nth. replace (c - 1 <? c0) with false by (symmetry; apply Nat.ltb_ge; lia).
    replace (S (c - 1)) with c by lia. reflexivity.
Qed.

(* addColumnsByConstant on a Db that has samples *)
Lemma keeps_add_cols nadd v radix t k ni s :
  Inv s -> 0 < nech s -> keeps true (fun _ _ => True) s (add_cols nadd v radix t k ni s).
Proof.
  intros H Hne. unfold add_cols. destruct (nadd <=? 0)%Z; [apply keeps_refl|].
  assert (E0 : set_nech0 ni s = s).
  { unfold set_nech0. replace (Nat.eqb (nech s) 0) with false; auto. symmetry. apply Nat.eqb_neq. lia. }
  rewrite E0. set (n := Z.to_nat nadd).
  set (s1 := mkState (ncol s) (nech s) (arr s ++ repeat (repeat v (nech s)) n)
                     (uidcol s ++ map (fun i => Some (ncol s + i)) (seq 0 n))
                     (correct_names (names s ++ (if Nat.eqb n 1 then [radix] else gen_names radix n))) (loc s)).
  set (s2 := match t with None => s1 | Some _ => set_locs (zrange (Z.of_nat (uidmax s)) nadd) t k false s1 end).
  assert (HT : same_table s1 s2).
  { unfold s2. destruct t. apply set_locs_table. apply same_table_refl. }
  destruct HT as [E1 [E2 [E3 [E4 E5]]]].
  assert (Hold : forall u c, nth_error (uidcol s) u = Some (Some c) ->
                 nth_error (uidcol s ++ map (fun i => Some (ncol s + i)) (seq 0 n)) u = Some (Some c)).
  { intros u c Hc. rewrite nth_error_app1; auto. apply nth_error_Some. congruence. }
  unfold keeps, is_live, live_in, get_cell, col_of_uid. simpl. rewrite E1, E2, E3, E4. unfold s1. simpl.
  split; [reflexivity|split].
  - intros u [c Hc]. eauto.
  - intros u e [c Hc] _ He _. rewrite (Hold _ _ Hc), Hc.
    pose proof (col_of_uid_bound s H u c (proj2 (col_of_uid_some s u c) Hc)) as Hb.
    replace (c <? ncol s + n) with true by (symmetry; apply Nat.ltb_lt; lia).
    replace (c <? ncol s) with true by (symmetry; apply Nat.ltb_lt; lia).
    destruct H as [[Ha _] _]. rewrite app_nth1 by lia. reflexivity.
Qed.
Lemma add_cols_uidmax_ge nadd v radix t k ni s : uidmax s <= uidmax (add_cols nadd v radix t k ni s).
Proof.
  unfold add_cols. destruct (nadd <=? 0)%Z; auto.
  match goal with |- _ <= uidmax (mkState _ _ _ (uidcol ?s2) _ _) => set (S2 := s2) end.
  assert (E : uidcol S2 = uidcol (set_nech0 ni s) ++ map (fun i => Some (ncol (set_nech0 ni s) + i)) (seq 0 (Z.to_nat nadd))).
  { unfold S2. destruct t; [|reflexivity].
    match goal with |- uidcol (set_locs ?a ?b ?c ?d ?e) = _ => destruct (set_locs_table a b c d e) as [_ [_ [_ [E _]]]] end.
    exact E. }
  unfold uidmax. simpl. rewrite E, app_length.
  unfold set_nech0. destruct (Nat.eqb (nech s) 0); simpl; lia.
Qed.
Lemma keeps_set_column_uid s u0 tab g :
  Inv s -> keeps g (fun u _ => Z.of_nat u <> u0) s (set_column_uid u0 tab s).
Proof.
  intro H. unfold set_column_uid. generalize (seq 0 (nech s)) as l. intro l.
  apply keeps_fold; auto.
  - intros; now apply set_cell_inv.
  - intros s0 e0 H0. eapply keeps_weaken; [|apply keeps_set_cell; auto]. simpl. auto.
Qed.
Lemma set_column_uid_uidcol u0 tab s : uidcol (set_column_uid u0 tab s) = uidcol s.
Proof.
  unfold set_column_uid. generalize (seq 0 (nech s)) as l. intro l. revert s.
  induction l as [|e l IH]; intro s; simpl; auto. rewrite IH.
  unfold set_cell. destruct (zidx _ (nech s)); auto. destruct (zidx u0 (uidmax s)); auto.
  destruct (col_of_uid s n0); auto. destruct (n1 <? ncol s); auto.
Qed.
Lemma keeps_add_cols_tab tab radix t k s :
  Inv s -> (match tab with [] => 0%Z | _ => add_ok t k s end) = 0%Z -> 0 < nech s ->
  keeps true (fun _ _ => True) s (add_cols_tab tab radix t k s).
Proof.
  intros H Hok Hne. unfold add_cols_tab. destruct tab as [|x tab']; [apply keeps_refl|].
  set (tab := x :: tab') in *.
  assert (E0 : set_nech0 (length tab) s = s).
  { unfold set_nech0. replace (Nat.eqb (nech s) 0) with false; auto. symmetry. apply Nat.eqb_neq. lia. }
  rewrite E0. destruct (negb _); [apply keeps_refl|]. destruct (Nat.eqb _ 0); [apply keeps_refl|].
  set (nvar := length tab / nech s).
  set (s1 := add_cols (Z.of_nat nvar) (Some 0%Z) radix t k 0 s).
  assert (H1 : Inv s1) by (apply add_cols_inv; auto).
  assert (K1 : keeps true (fun _ _ => True) s s1) by (apply keeps_add_cols; auto).
  (* the new columns are then filled: only uids >= uidmax s are written *)
  assert (K2 : forall l, keeps true (fun u _ => u < uidmax s) s1
                 (fold_left (fun s0 ic => set_column_uid (Z.of_nat (uidmax s + fst ic)) (snd ic) s0) l s1)).
  { intro l. apply keeps_fold; auto.
    - intros; now apply set_column_uid_inv.
    - intros s0 ic Hs0. eapply keeps_weaken; [|apply keeps_set_column_uid; auto]. simpl. intros u _ Hu. lia. }
  specialize (K2 (combine (seq 0 nvar) (chunk (nech s) nvar tab))).
  destruct K1 as [N1 [L1 C1]]. destruct K2 as [N2 [L2 C2]].
  split; [congruence|split].
  - intros u Hu. apply L2. now apply L1.
  - intros u e Hu Hu' He _.
    assert (Hu1 : is_live s1 u) by now apply L1.
    transitivity (get_cell s1 e u).
    + apply C2; auto. rewrite N1; auto.
      destruct Hu as [c Hc]. apply nth_error_Some. congruence.
    + apply C1; auto.
Qed.

(* addSamples / deleteSample *)
Lemma nth_map_in {A B} (f : A -> B) l n d d' : n < length l -> nth n (map f l) d' = f (nth n l d).
Proof. intro H. rewrite (nth_indep _ d' (f d)) by now rewrite map_length. apply map_nth. Qed.
Lemma frame_add_samples n v s u e :
  Inv s -> is_live s u -> e < nech s -> get_cell (add_samples n v s) e u = get_cell s e u.
Proof.
  intros H [c Hc] He. unfold add_samples. destruct (n <=? 0)%Z; auto.
  pose proof (col_of_uid_bound s H u c (proj2 (col_of_uid_some s u c) Hc)) as Hb.
  unfold get_cell, col_of_uid. simpl. rewrite Hc.
  replace (c <? ncol s) with true by (symmetry; now apply Nat.ltb_lt).
  replace (e <? nech s + Z.to_nat n) with true by (symmetry; apply Nat.ltb_lt; lia).
  replace (e <? nech s) with true by (symmetry; now apply Nat.ltb_lt). simpl.
  destruct H as [[Ha [_ Hcol]] _]. rewrite (nth_map_in _ _ _ []) by lia.
  rewrite app_nth1; auto. rewrite Hcol; auto. apply nth_In. lia.
Qed.
Lemma frame_del_sample d s u e e' :
  Inv s -> is_live s u -> e < nech s -> remap_sample (DelSample d) (nech s) e = Some e' ->
  get_cell (del_sample d s) e' u = get_cell s e u.
Proof.
  intros H [c Hc] He Hr. unfold del_sample. unfold remap_sample, remap_dels in Hr.
  destruct (zidx d (nech s)) as [d'|] eqn:Ed.
  2:{ inversion Hr; subst; auto. }
  assert (Hr' : (if e <? d' then Some e else if Nat.eqb e d' then None else Some (e - 1)) = Some e').
  { destruct (Nat.eqb e d') eqn:E0; try discriminate. destruct (e <? d'); exact Hr. }
  clear Hr. rename Hr' into Hr.
  apply zidx_some in Ed. destruct Ed as [Ed _].
  pose proof (col_of_uid_bound s H u c (proj2 (col_of_uid_some s u c) Hc)) as Hb.
  unfold get_cell, col_of_uid. simpl. rewrite Hc.
  replace (c <? ncol s) with true by (symmetry; now apply Nat.ltb_lt).
  replace (e <? nech s) with true by (symmetry; now apply Nat.ltb_lt). simpl.
  destruct H as [[Ha _] _]. rewrite (nth_map_in _ _ _ []) by lia. rewrite nth_remove_nth.
  destruct (e <? d') eqn:E1.
  - inversion Hr; subst e'. apply Nat.ltb_lt in E1. rewrite (proj2 (Nat.ltb_lt _ _)) by lia.
    replace (e <? d') with true by (symmetry; now apply Nat.ltb_lt). reflexivity.
  - destruct (Nat.eqb e d') eqn:E2; try discriminate. inversion Hr; subst e'.
    apply Nat.ltb_ge in E1. apply Nat.eqb_neq in E2.
    rewrite (proj2 (Nat.ltb_lt _ _)) by lia.
    replace (e - 1 <? d') with false by (symmetry; apply Nat.ltb_ge; lia).
    replace (S (e - 1)) with e by lia. reflexivity.
Qed.

(* ------------------------------------------------------------------ new editors *)
Lemma is_live_del_sample d s u : is_live (del_sample d s) u <-> is_live s u.
Proof. unfold del_sample. destruct (zidx d (nech s)); simpl; tauto. Qed.
Lemma nech_del_sample d s d' : zidx d (nech s) = Some d' -> nech (del_sample d s) = nech s - 1.
Proof. intro E. unfold del_sample. now rewrite E. Qed.
Lemma frame_del_samples_loop es : forall s e e' u,
  Inv s -> is_live s u -> e < nech s -> remap_dels es (nech s) e = Some e' ->
  get_cell (del_samples_loop es s) e' u = get_cell s e u.
Proof.
  induction es as [|d r IH]; intros s e e' u H Hu He Hr; simpl in *.
  - now inversion Hr.
  - destruct (zidx d (nech s)) as [d'|] eqn:Ed; [|now inversion Hr].
    destruct (Nat.eqb e d') eqn:E0; try discriminate. apply Nat.eqb_neq in E0.
    pose proof (zidx_some _ _ _ Ed) as [Hd _].
    set (e1 := if e <? d' then e else e - 1) in *.
    transitivity (get_cell (del_sample d s) e1 u).
    + apply IH; auto.
      * now apply del_sample_inv.
      * now apply is_live_del_sample.
      * rewrite (nech_del_sample _ _ _ Ed). unfold e1. destruct (e <? d') eqn:E1.
        apply Nat.ltb_lt in E1; lia. apply Nat.ltb_ge in E1; lia.
      * now rewrite (nech_del_sample _ _ _ Ed).
    + apply frame_del_sample; auto. unfold remap_sample, remap_dels. rewrite Ed.
      replace (Nat.eqb e d') with false by (symmetry; now apply Nat.eqb_neq). reflexivity.
Qed.
(* a write designated by column index leaves the other columns and the other samples alone *)
Lemma get_cell_set_cell_col s e0 c v e u c' :
  Inv s -> zidx c (ncol s) = Some c' -> (col_of_uid s u <> Some c' \/ Z.of_nat e <> e0) ->
  get_cell (set_cell_col e0 c v s) e u = get_cell s e u.
Proof.
  intros H Ec Hp. unfold set_cell_col. rewrite Ec. destruct (zidx e0 (nech s)) as [e0'|] eqn:Ee; auto.
  apply zidx_some in Ee. destruct Ee as [_ ->]. apply zidx_some in Ec. destruct Ec as [Ec _].
  unfold get_cell. simpl.
  change (col_of_uid (with_arr s (set_nth c' (set_nth e0' v (nth c' (arr s) [])) (arr s))) u) with (col_of_uid s u).
  destruct (col_of_uid s u) as [cu|] eqn:Ecu; auto.
  destruct ((cu <? ncol s) && (e <? nech s)); auto.
  destruct (Nat.eq_dec cu c') as [->|Hne].
  - destruct H as [[Ha _] _]. rewrite nth_set_nth_eq by lia. rewrite nth_set_nth_neq; auto.
    destruct Hp as [Hp|Hp]; [congruence | intro; subst; congruence].
  - now rewrite nth_set_nth_neq.
Qed.
Lemma set_cell_col_same e0 c v s :
  uidcol (set_cell_col e0 c v s) = uidcol s /\ ncol (set_cell_col e0 c v s) = ncol s /\
  nech (set_cell_col e0 c v s) = nech s.
Proof. unfold set_cell_col. destruct (zidx c (ncol s)); destruct (zidx e0 (nech s)); repeat split. Qed.
Lemma set_col_col_loop_frame es c c' : forall lec sel tab s e u,
  Inv s -> zidx c (ncol s) = Some c' -> col_of_uid s u <> Some c' ->
  get_cell (set_col_col_loop es lec sel tab c s) e u = get_cell s e u.
Proof.
  induction es as [|e0 r IH]; intros lec sel tab s e u H Ec Hne; simpl; auto.
  assert (Step : forall v lec', get_cell (set_col_col_loop r lec' sel tab c (set_cell_col (Z.of_nat e0) c v s)) e u
                                = get_cell s e u).
  { intros v lec'. destruct (set_cell_col_same (Z.of_nat e0) c v s) as [E1 [E2 E3]].
    rewrite IH.
    - apply get_cell_set_cell_col with (c' := c'); auto.
    - now apply set_cell_col_inv.
    - now rewrite E2.
    - unfold col_of_uid in *. now rewrite E1. }
  destruct (match sel with [] => true | _ => sel_on (nth e0 sel None) end); apply Step.
Qed.
Lemma keeps_set_col_uid_loop g es u0 : forall lec sel tab s,
  Inv s -> keeps g (fun u _ => Z.of_nat u <> u0) s (set_col_uid_loop es lec sel tab u0 s).
Proof.
  induction es as [|e0 r IH]; intros lec sel tab s H; simpl. apply keeps_refl.
  destruct (match sel with [] => true | _ => sel_on (nth e0 sel None) end); auto.
  eapply keeps_trans; [|apply IH; now apply set_cell_inv].
  eapply keeps_weaken; [|apply keeps_set_cell; auto]. simpl. auto.
Qed.
Lemma keeps_add_cols_gen tab radix t k us vi nv s :
  Inv s -> add_ok t k s = 0%Z -> 0 < nech s ->
  keeps true (fun _ _ => True) s (add_cols_gen tab radix t k us vi nv s).
Proof.
  intros H Hok Hne. unfold add_cols_gen. destruct tab as [|x tab']; [apply keeps_refl|].
  set (tab := x :: tab') in *.
  assert (E0 : set_nech0 (length tab / nv) s = s).
  { unfold set_nech0. replace (Nat.eqb (nech s) 0) with false; auto. symmetry. apply Nat.eqb_neq. lia. }
  rewrite E0. destruct (Nat.eqb _ 0); [apply keeps_refl|]. destruct (negb _); [apply keeps_refl|].
  set (n := if us then n_active s else nech s). set (nvar := length tab / n).
  set (s1 := add_cols (Z.of_nat nvar) vi radix t k 0 s).
  assert (H1 : Inv s1) by (apply add_cols_inv; auto).
  assert (K1 : keeps true (fun _ _ => True) s s1) by (apply keeps_add_cols; auto).
  assert (K2 : forall l, keeps true (fun u _ => u < uidmax s) s1
                 (fold_left (fun s0 ic => set_column_uid_sel (Z.of_nat (uidmax s + fst ic)) (snd ic) us s0) l s1)).
  { intro l. apply keeps_fold; auto.
    - intros; now apply set_column_uid_sel_inv.
    - intros s0 ic Hs0. eapply keeps_weaken; [|apply keeps_set_col_uid_loop; auto]. simpl. intros u _ Hu. lia. }
  specialize (K2 (combine (seq 0 nvar) (chunk n nvar tab))).
  destruct K1 as [N1 [L1 C1]]. destruct K2 as [N2 [L2 C2]].
  split; [congruence|split].
  - intros u Hu. apply L2. now apply L1.
  - intros u e Hu Hu' He _.
    assert (Hu1 : is_live s1 u) by now apply L1.
    transitivity (get_cell s1 e u).
    + apply C2; auto. rewrite N1; auto. destruct Hu as [c Hc]. apply nth_error_Some. congruence.
    + apply C1; auto.
Qed.
Lemma keeps_add_sel_common sel nm cmb s :
  Inv s -> 0 < nech s -> keeps true (fun _ _ => True) s (add_sel_common sel nm cmb s).
Proof. intros H Hne. unfold add_sel_common. apply keeps_add_cols_gen; auto. Qed.
(* the uid of a column, from its index *)
Lemma not_resolved s c c' u :
  Inv s -> zidx c (ncol s) = Some c' -> Z.of_nat u <> oz (uid_of_col_z s c) -> col_of_uid s u <> Some c'.
Proof.
  intros H Ec Hne Hcu. apply Hne. unfold uid_of_col_z. rewrite Ec.
  rewrite (proj2 (uid_of_col_iff s H c' u) Hcu). reflexivity.
Qed.

(* ------------------------------------------------------------------ C07_frame *)
Lemma keeps_use g P s s' u e :
  keeps g P s s' -> is_live s u -> is_live s' u -> e < nech s -> P u e -> get_cell s' e u = get_cell s e u.
Proof. intros [_ [_ C]]. auto. Qed.
Lemma keeps_del_uids us s : Inv s -> keeps false (fun _ _ => True) s (del_uids us s).
Proof.
  intro H. unfold del_uids. apply keeps_fold; auto.
  intros; now apply del_uid_inv. intros; now apply keeps_del_uid.
Qed.
Lemma keeps_set_locs g us t k cl s : keeps g (fun _ _ => True) s (set_locs us t k cl s).
Proof. apply keeps_same_table. apply set_locs_table. Qed.

Lemma keeps_del_col c s : Inv s -> keeps false (fun _ _ => True) s (del_col c s).
Proof.
  intro H. unfold del_col. destruct (zidx c (ncol s)); [|apply keeps_refl].
  destruct (ids_name s _ true); [apply keeps_refl|]. now apply keeps_del_uid.
Qed.
Definition same_cells (s s' : state) : Prop :=
  nech s' = nech s /\ ncol s' = ncol s /\ arr s' = arr s /\ uidcol s' = uidcol s.
Lemma same_cells_fold {A} (f : state -> A -> state) l s :
  (forall s x, same_cells s (f s x)) -> same_cells s (fold_left f l s).
Proof.
  intro Hf. revert s; induction l as [|x l IH]; intro s; simpl. repeat split.
  destruct (Hf s x) as [A1 [A2 [A3 A4]]]. destruct (IH (f s x)) as [B1 [B2 [B3 B4]]].
  repeat split; congruence.
Qed.
Lemma keeps_of_same_cells g P s s' : same_cells s s' -> keeps g P s s'.
Proof. intros [E1 [E2 [E3 E4]]]. now apply keeps_same_cells. Qed.
Lemma same_cells_set_name_list l n s : same_cells s (set_name_list l n s).
Proof.
  unfold set_name_list.
  match goal with |- same_cells s (with_names ?s1 _) => assert (H : same_cells s s1) end.
  { apply same_cells_fold. intros s0 ip. destruct (colidx_of_name s0 (snd ip)); repeat split. }
  destruct H as [E1 [E2 [E3 E4]]]. repeat split; simpl; auto.
Qed.
Lemma same_cells_set_name_loc t n s : same_cells s (set_name_loc t n s).
Proof.
  unfold set_name_loc. destruct (loc s t). repeat split.
  match goal with |- same_cells s (with_names ?s1 _) => assert (H : same_cells s s1) end.
  { apply same_cells_fold. intros s0 i. destruct (col_of_loc s0 t i); repeat split. }
  destruct H as [E1 [E2 [E3 E4]]]. repeat split; simpl; auto.
Qed.
Ltac kp g :=
  match goal with
  | |- get_cell ?s' ?e ?u = get_cell ?s ?e ?u =>
      apply (keeps_use g (fun _ _ => True) s s' u e); [ | assumption | assumption | assumption | exact I]
  end.
Lemma frame s o u e :
  Inv s -> accepted s o -> is_live s u -> is_live (step s o) u -> e < nech s ->
  addressed (fun c => oz (uid_of_col_z s c)) o (Z.of_nat u) e = false ->
  forall e', remap_sample o (nech s) e = Some e' -> get_cell (step s o) e' u = get_cell s e u.
Proof.
  intros H Hacc Hu Hu' He Hadr e' Hr. unfold accepted in Hacc.
  destruct o; try (simpl in Hr; inversion Hr; subst e'; clear Hr); simpl step in *; simpl in Hadr; simpl in Hacc.
  - kp true. apply keeps_add_cols; auto. lia.
  - kp true. apply keeps_add_cols_tab; auto. lia.
  - revert Hu'. unfold add_selection. destruct tab.
    + intro Hu'. kp true. apply keeps_add_cols_tab; auto; try lia.
      destruct (repeat _ _); reflexivity.
    + destruct (negb _); auto. intro Hu'. kp true. apply keeps_add_cols_tab; auto; try lia.
  - kp false. now apply keeps_del_uid.
  - revert Hu'. unfold del_col. destruct (zidx c (ncol s)); auto. destruct (ids_name s _ true); auto.
    intro Hu'. kp false. now apply keeps_del_uid.
  - kp false. now apply keeps_del_uids.
  - kp false. now apply keeps_del_uids.
  - kp false. unfold del_by_loc. apply keeps_fold; auto.
    intros; now apply del_uid_inv. intros; now apply keeps_del_uid.
  - revert Hu'. unfold set_loc_uid. destruct (zidx u0 (uidmax s)); auto. destruct (live s n); auto.
    intro Hu'. kp true. apply keeps_set_locs.
  - revert Hu'. unfold set_loc_col. destruct (zidx c (ncol s)); auto. unfold set_loc_uid.
    destruct (zidx _ (uidmax s)); auto. destruct (live s n0); auto. intro Hu'. kp true. apply keeps_set_locs.
  - revert Hu'. unfold set_locs_ids. destruct (ids_name s p false); auto.
    intro Hu'. kp true. apply keeps_set_locs.
  - kp true. apply keeps_set_locs.
  - kp true. apply keeps_set_locs.
  - kp true. apply keeps_set_locs.
  - revert Hu'. unfold set_locs_ids. destruct (ids_names s ps); auto.
    intro Hu'. kp true. apply keeps_set_locs.
  - kp true. apply keeps_same_table. apply clear_loc_table.
  - revert Hu'. unfold switch_loc. destruct (Nat.eqb tin tout); intro Hu'.
    + kp true. apply keeps_same_table. apply clear_loc_table.
    + kp true. apply keeps_same_table. apply with_loc_table.
  - revert Hu'. unfold set_name_col. destruct (zidx c (ncol s)); auto.
  - revert Hu'. unfold set_name_uid. destruct (zidx u0 (uidmax s)); auto. destruct (col_of_uid s n0); auto.
  - revert Hu'. unfold set_name_old. destruct (colidx_of_name s old); auto.
  - now apply frame_add_samples.
  - apply frame_del_sample; auto.
  - apply (keeps_use true (fun u1 e1 => Z.of_nat u1 <> u0 \/ Z.of_nat e1 <> e0) s _ u e); auto.
    apply keeps_set_cell; auto.
    apply andb_false_iff in Hadr. destruct Hadr as [Hadr|Hadr]; apply Z.eqb_neq in Hadr; auto.
  - revert Hu'. unfold set_value. destruct (uid_of_name s p) as [un|]; auto. intro Hu'.
    apply (keeps_use true (fun u1 e1 => Z.of_nat u1 <> Z.of_nat un \/ Z.of_nat e1 <> e0) s _ u e); auto.
    apply keeps_set_cell; auto. right. now apply Z.eqb_neq in Hadr.
  - revert Hu'. unfold dup_col. destruct (zidx uin (uidmax s)); auto. destruct (zidx uout (uidmax s)); auto.
    intro Hu'. apply (keeps_use true (fun u1 _ => Z.of_nat u1 <> uout) s _ u e); auto.
    + apply keeps_fold; auto. intros; now apply set_cell_inv.
      intros s0 e0 H0. eapply keeps_weaken; [|apply keeps_set_cell; auto]. simpl. auto.
    + now apply Z.eqb_neq in Hadr.
  - kp false. unfold del_cols. apply keeps_fold; auto.
    intros; now apply del_col_inv. intros; now apply keeps_del_col.
  - kp false. now apply keeps_del_uids.
  - revert Hu'. unfold del_uid_range. destruct (i_del <=? 0)%Z; auto. intro Hu'. kp false. now apply keeps_del_uids.
  - kp true. apply keeps_of_same_cells. apply same_cells_set_name_list.
  - kp true. apply keeps_of_same_cells. apply same_cells_set_name_loc.
  - (* deleteSamples *) unfold del_samples. now apply frame_del_samples_loop.
  - (* setColumnByUID *) apply (keeps_use true (fun u1 _ => Z.of_nat u1 <> u0) s _ u e); auto.
    apply keeps_set_col_uid_loop; auto. now apply Z.eqb_neq in Hadr.
  - (* setColumnByColIdx *) unfold set_column_col. destruct (zidx c (ncol s)) as [c'|] eqn:Ec; auto.
    apply set_col_col_loop_frame with (c' := c'); auto. apply Z.eqb_neq in Hadr. eapply not_resolved; eauto.
  - discriminate.
  - (* setValueByColIdx *) destruct (zidx c (ncol s)) as [c'|] eqn:Ec.
    + apply get_cell_set_cell_col with (c' := c'); auto.
      apply andb_false_iff in Hadr. destruct Hadr as [Hadr|Hadr]; apply Z.eqb_neq in Hadr; auto.
      left. eapply not_resolved; eauto.
    + unfold set_cell_col. now rewrite Ec.
  - (* setFromLocator *) unfold set_from_loc. destruct (zidx e0 (nech s)); auto.
    destruct (col_of_loc s t k) as [c|] eqn:Ecl; auto.
    assert (Hc : c < ncol s).
    { unfold col_of_loc in Ecl. destruct (k <? length (loc s t)); try discriminate. eapply col_of_uid_bound; eauto. }
    apply get_cell_set_cell_col with (c' := c); auto. now apply zidx_of_nat. right. now apply Z.eqb_neq in Hadr.
  - (* addColumnsByVVD *) kp true. unfold add_cols_vvd. destruct (concat tabs) eqn:E.
    + unfold add_cols_gen. apply keeps_refl.
    + rewrite <- E. apply keeps_add_cols_gen; auto. lia.
  - (* addSelection *) revert Hu'. unfold add_selection_c. destruct tab.
    + intro Hu'. kp true. apply keeps_add_sel_common; auto. lia.
    + destruct (negb _); auto. intro Hu'. kp true. apply keeps_add_sel_common; auto. lia.
  - kp true. apply keeps_add_sel_common; auto. lia.
  - kp true. apply keeps_add_sel_common; auto. lia.
Qed.

(* ------------------------------------------------------------------ post-condition of the role setters *)
(* [u] sits in [l] at a rank below [k] *)
Definition before (k u : nat) (l : list nat) : Prop := exists p, p < k /\ nth_error l p = Some u.
Lemma before_erase k u x l : before k u l -> u <> x -> before k u (erase1 x l).
Proof.
  intros [p [Hp Hn]] Hne. revert p k Hp Hn. induction l as [|y l IH]; intros p k Hp Hn.
  - destruct p; discriminate.
  - simpl. destruct (Nat.eqb y x) eqn:E.
    + apply Nat.eqb_eq in E. subst y. destruct p as [|p]; simpl in Hn.
      * inversion Hn; congruence.
      * exists p. split; auto; lia.
    + destruct p as [|p]; simpl in Hn.
      * exists 0. split; auto.
      * destruct (IH p (k - 1)) as [q [Hq Hnq]]; auto; try lia. exists (S q). split; auto; lia.
Qed.
Lemma nth_error_pad_set_self k u l : nth_error (pad_set k u l) k = Some u.
Proof.
  unfold pad_set. apply nth_error_set_nth_eq. destruct (length l <=? k) eqn:E.
  - apply Nat.leb_le in E. rewrite app_length, repeat_length. lia.
  - apply Nat.leb_gt in E. lia.
Qed.
Lemma before_pad_set k u x l : before k u l -> before (S k) u (pad_set k x l).
Proof.
  intros [p [Hp Hn]]. exists p. split; [lia|]. unfold pad_set.
  rewrite nth_error_set_nth_neq by lia. destruct (length l <=? k); auto.
  rewrite nth_error_app1; auto. apply nth_error_Some. congruence.
Qed.
Lemma loc_set_loc1 x t' k s x' :
  zidx x (uidmax s) = Some x' -> live s x' = true ->
  loc (set_loc1 x (Some t') k s) t' = pad_set k x' (erase1 x' (loc s t')).
Proof. intros E El. unfold set_loc1. rewrite E, El. simpl. now rewrite Nat.eqb_refl. Qed.
Lemma set_loc1_live x t k s u : live (set_loc1 x t k s) u = live s u.
Proof.
  destruct (set_loc1_table x t k s) as [_ [_ [_ [E _]]]]. unfold live, col_of_uid. now rewrite E.
Qed.
Lemma set_loc1_uidmax x t k s : uidmax (set_loc1 x t k s) = uidmax s.
Proof. destruct (set_loc1_table x t k s) as [_ [_ [_ [E _]]]]. unfold uidmax. now rewrite E. Qed.
Lemma set_loc1_before x t' k s u :
  before k u (loc s t') -> before (S k) u (loc (set_loc1 x (Some t') k s) t').
Proof.
  intro Hb.
  assert (Hsame : before (S k) u (loc s t')) by (destruct Hb as [p [Hp Hn]]; exists p; split; auto).
  destruct (zidx x (uidmax s)) as [x'|] eqn:E.
  - destruct (live s x') eqn:El.
    + rewrite (loc_set_loc1 _ _ _ _ _ E El). destruct (Nat.eq_dec u x') as [->|Hne].
      * exists k. split; [lia|]. apply nth_error_pad_set_self.
      * apply before_pad_set. now apply before_erase.
    + unfold set_loc1. now rewrite E, El.
  - unfold set_loc1. now rewrite E.
Qed.
Lemma set_loc_seq_before us t' : forall k s u,
  before k u (loc s t') -> before (k + length us) u (loc (set_loc_seq us (Some t') k s) t').
Proof.
  induction us as [|x r IH]; intros k s u Hb; simpl.
  - now rewrite Nat.add_0_r.
  - replace (k + S (length r)) with (S k + length r) by lia. apply IH. now apply set_loc1_before.
Qed.
Lemma live_lt s u : live s u = true -> u < uidmax s.
Proof.
  unfold live, col_of_uid, uidmax. intro H. apply nth_error_Some. destruct (nth_error (uidcol s) u); congruence.
Qed.
Lemma set_loc_seq_post us t' : forall k s u,
  In (Z.of_nat u) us -> live s u = true -> In u (loc (set_loc_seq us (Some t') k s) t').
Proof.
  induction us as [|x r IH]; intros k s u Hin Hu; simpl in *; try contradiction.
  destruct Hin as [->|Hin].
  - assert (Hb : before (S k) u (loc (set_loc1 (Z.of_nat u) (Some t') k s) t')).
    { rewrite (loc_set_loc1 _ _ _ _ u); auto. exists k. split; [lia|]. apply nth_error_pad_set_self.
      apply zidx_of_nat. now apply live_lt. }
    destruct (set_loc_seq_before r t' _ _ _ Hb) as [p [_ Hp]]. eapply nth_error_In; eauto.
  - apply IH; auto. now rewrite set_loc1_live.
Qed.
(* every designated uid of an existing column holds the requested role type afterwards, whatever the state *)
Lemma set_locs_post s us t' k cl u :
  In (Z.of_nat u) us -> is_live s u -> In u (loc (set_locs us (Some t') k cl s) t').
Proof.
  intros Hin Hu. unfold set_locs. apply set_loc_seq_post; auto.
  destruct (clean_if_table cl (Some t') s) as [_ [_ [_ [E _]]]]. unfold live, col_of_uid. rewrite E.
  apply live_spec in Hu. exact Hu.
Qed.
(* setLocatorsByColIdx: every existing column designated by icols holds the requested role type afterwards *)
Lemma set_locs_col_post s cs t' k cl c c' :
  Inv s -> In c cs -> zidx c (ncol s) = Some c' ->
  exists u, uid_of_col s c' = Some u /\ In u (loc (step s (SetLocsCol cs (Some t') k cl)) t').
Proof.
  intros H Hin Hc. pose proof (zidx_some _ _ _ Hc) as [Hlt _].
  destruct (uid_of_col_ex s H c' Hlt) as [u Hu]. exists u. split; auto.
  simpl. apply set_locs_post.
  - unfold set_locs_col_uids. apply in_map_iff. exists c. split; auto.
    unfold uid_of_col_z. rewrite Hc, Hu. reflexivity.
  - exists c'. apply col_of_uid_some. now apply uid_of_col_some.
Qed.

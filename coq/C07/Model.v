(* C07 model: executable state-machine mirror of the bookkeeping of class Db
     /repo/src/Db/Db.cpp, /repo/src/Db/PtrGeos.cpp, /repo/src/Basic/String.cpp
   State = the five private members of Db that the property couples:
     _ncol, _nech, _array (column-major), _uidcol, _colNames, _p[ELoc] (one PtrGeos per locator type).
   The code is mirrored literally, defects included (see the comment marked DEFECT; the other defects found by
   this check have been repaired in /repo and the model follows the repaired code).
   Cell values are integers or NA (TEST): no arithmetic is ever done on them by the modelled editors.
   Names are lists of character codes over [A-Za-z0-9._-]; a name used as a *designator* goes through
   std::regex in the library, where, on this alphabet, only '.' is special (matches any character).
   No proofs here. *)
From Coq Require Import List ZArith Bool Arith.
Import ListNotations.

(* ------------------------------------------------------------------ generic list helpers *)
Fixpoint remove_nth {A} (n : nat) (l : list A) : list A :=
  match l, n with
  | [], _ => []
  | _ :: r, O => r
  | x :: r, S m => x :: remove_nth m r
  end.
Fixpoint set_nth {A} (n : nat) (x : A) (l : list A) : list A :=
  match l, n with
  | [], _ => []
  | _ :: r, O => x :: r
  | y :: r, S m => y :: set_nth m x r
  end.
Fixpoint find_index {A} (f : A -> bool) (l : list A) : option nat :=
  match l with
  | [] => None
  | x :: r => if f x then Some O else option_map S (find_index f r)
  end.
Fixpoint mapM {A B} (f : A -> option B) (l : list A) : option (list B) :=
  match l with
  | [] => Some []
  | x :: r => match f x, mapM f r with
              | Some y, Some ys => Some (y :: ys)
              | _, _ => None
              end
  end.
(* 0 <= z < n, as the checkArg of AStringable.cpp:367 *)
Definition zidx (z : Z) (n : nat) : option nat :=
  if (0 <=? z)%Z && (z <? Z.of_nat n)%Z then Some (Z.to_nat z) else None.

(* ------------------------------------------------------------------ names (String.cpp) *)
Definition name := list Z.
Definition val := option Z.            (* None = TEST (undefined) *)
Definition DOT := 46%Z.
Definition DASH := 45%Z.

Fixpoint name_eqb (a b : name) : bool :=
  match a, b with
  | [], [] => true
  | x :: a', y :: b' => (x =? y)%Z && name_eqb a' b'
  | _, _ => false
  end.
(* std::regex_match(s, regex(p)) restricted to the alphabet above (String.cpp:35 _protectRegexp,
   :292 matchRegexp, :339 expandList): '.' in the pattern matches any one character *)
Fixpoint rmatch (s p : name) : bool :=
  match s, p with
  | [], [] => true
  | c :: s', d :: p' => ((d =? DOT)%Z || (c =? d)%Z) && rmatch s' p'
  | _, _ => false
  end.
Definition mem_name (x : name) (l : list name) : bool := existsb (name_eqb x) l.

(* decimal printing of a rank (operator<< of an int) *)
Fixpoint dec_aux (fuel : nat) (n : Z) (acc : list Z) : list Z :=
  match fuel with
  | O => acc
  | S f => let acc' := (48 + n mod 10)%Z :: acc in
           if (n <? 10)%Z then acc' else dec_aux f (n / 10)%Z acc'
  end.
Definition dec (n : nat) : list Z := dec_aux (S n) (Z.of_nat n) [].
(* String.cpp:92 incrementStringVersion(string, rank, delim) *)
Definition incr_version (s : name) (rank : nat) (delim : Z) : name := s ++ delim :: dec rank.
(* default arguments rank = 1, delim = "." *)
Definition bump (s : name) : name := s ++ [DOT; 49%Z].
(* String.cpp:144 generateMultipleNames(radix, number, "-") *)
Definition gen_names (radix : name) (n : nat) : list name :=
  map (fun i => incr_version radix (S i) DASH) (seq 0 n).

(* the "goto label_try" loop of correctNamesForDuplicates (String.cpp:160) and the while loop of
   correctNewNameForDuplicates (String.cpp:182): append ".1" as long as the name occurs among [others].
   Fuel [length others + 1] is always enough (lemma repair_fresh in Proofs_names.v). *)
Fixpoint repair (fuel : nat) (others : list name) (s : name) : name :=
  match fuel with
  | O => s
  | S f => if mem_name s others then repair f others (bump s) else s
  end.
(* String.cpp:160: for i = 1..n-1, list[i] is repaired against list[0..i-1] (already repaired) *)
Fixpoint fix_names (done todo : list name) : list name :=
  match todo with
  | [] => done
  | s :: r => fix_names (done ++ [repair (S (length done)) done s]) r
  end.
Definition correct_names (l : list name) : list name := fix_names [] l.
(* String.cpp:182: list[rank] is repaired against all the other entries *)
Definition correct_new_name (l : list name) (rank : nat) : list name :=
  match nth_error l rank with
  | None => l
  | Some s => let others := remove_nth rank l in
              set_nth rank (repair (S (length others)) others s) l
  end.

(* ------------------------------------------------------------------ role lists (PtrGeos) *)
Definition NLOC := 29%nat.             (* Db::getNEloc: ELoc values 0..28 *)
Definition SEL := 10%nat.              (* ELoc::SEL *)
Definition loctype := option nat.      (* None = ELoc::UNKNOWN *)

(* PtrGeos::findUIDInLocator + PtrGeos::erase: remove the first occurrence *)
Fixpoint erase1 (u : nat) (l : list nat) : list nat :=
  match l with
  | [] => []
  | x :: r => if Nat.eqb x u then r else x :: erase1 u r
  end.
(* Db.cpp:1168-1173:  if (locatorIndex >= nitem) p.resize(locatorIndex+1)  [fills with 0];
                      p.setLocatorByIndex(locatorIndex, iuid)
   DEFECT (finding setLocatorByUID:index-beyond-count): the filler entries are uid 0 *)
Definition pad_set (k u : nat) (l : list nat) : list nat :=
  set_nth k u (if length l <=? k then l ++ repeat 0 (S k - length l) else l).

(* ------------------------------------------------------------------ state *)
Record state := mkState {
  ncol : nat;                          (* _ncol *)
  nech : nat;                          (* _nech *)
  arr : list (list val);               (* _array, one list per column *)
  uidcol : list (option nat);          (* _uidcol: uid -> column, None = -1 *)
  names : list name;                   (* _colNames *)
  loc : nat -> list nat                (* _p[type]._r : uids *)
}.
Definition with_loc (s : state) (f : nat -> list nat) : state :=
  mkState (ncol s) (nech s) (arr s) (uidcol s) (names s) f.
Definition with_names (s : state) (n : list name) : state :=
  mkState (ncol s) (nech s) (arr s) (uidcol s) n (loc s).
Definition with_arr (s : state) (a : list (list val)) : state :=
  mkState (ncol s) (nech s) a (uidcol s) (names s) (loc s).

(* Db::Db() / Db::create() (Db.cpp:41, 5060) *)
Definition init : state := mkState 0 0 [] [] [] (fun _ => []).

Definition uidmax (s : state) : nat := length (uidcol s).       (* getUIDMaxNumber *)
(* getColIdxByUID (Db.cpp:297), for an in-range uid *)
Definition col_of_uid (s : state) (u : nat) : option nat :=
  match nth_error (uidcol s) u with Some (Some c) => Some c | _ => None end.
Definition opt_is (c : nat) (o : option nat) : bool :=
  match o with Some c' => Nat.eqb c' c | None => false end.
(* getUIDByColIdx (Db.cpp:312): isColIdxValid, then the first uid whose entry is icol *)
Definition uid_of_col (s : state) (c : nat) : option nat :=
  if c <? ncol s then find_index (opt_is c) (uidcol s) else None.
(* _uidcol[iuid] >= 0 *)
Definition live (s : state) (u : nat) : bool :=
  match col_of_uid s u with Some _ => true | None => false end.
(* getUIDByColIdx on a C int *)
Definition uid_of_col_z (s : state) (c : Z) : option nat :=
  match zidx c (ncol s) with Some c' => uid_of_col s c' | None => None end.
Definition oz (o : option nat) : Z := match o with Some n => Z.of_nat n | None => (-1)%Z end.

(* getColIdxByLocator Db.cpp:332 *)
Definition col_of_loc (s : state) (t k : nat) : option nat :=
  if k <? length (loc s t) then col_of_uid s (nth k (loc s t) O) else None.

(* ------------------------------------------------------------------ designation by name *)
(* expandList(list, match) String.cpp:339: an existing name designates itself, otherwise regex expansion *)
Definition expand1 (nm : list name) (p : name) : list name :=
  if mem_name p nm then [p] else filter (fun x => rmatch x p) nm.
(* expandList(list, matches) String.cpp:372 *)
Definition expand_step (nm : list name) (acc : list name) (p : name) : list name :=
  if mem_name p nm then (if mem_name p acc then acc else acc ++ [p])
  else fold_left (fun a x => if rmatch x p && negb (mem_name x a) then a ++ [x] else a) nm acc.
Definition expand_many (nm : list name) (ps : list name) : list name :=
  fold_left (expand_step nm) ps [].
(* getRankInList String.cpp:209: first the item equal to the pattern, then the first regex match *)
Definition rank_in_list (nm : list name) (p : name) : option nat :=
  match find_index (fun x => name_eqb x p) nm with
  | Some i => Some i
  | None => find_index (fun x => rmatch x p) nm
  end.
(* _getUIDsBasic Db.cpp:4273: empty as soon as one name fails *)
Definition uids_basic (s : state) (ns : list name) : list nat :=
  match mapM (fun n => match rank_in_list (names s) n with
                       | None => None
                       | Some c => uid_of_col s c
                       end) ns with
  | Some l => l
  | None => []
  end.
(* _ids(name, flagOne) Db.cpp:481 + _isCountValid Db.cpp:4661 *)
Definition ids_name (s : state) (p : name) (flagOne : bool) : list nat :=
  let l := uids_basic s (expand1 (names s) p) in
  if flagOne && negb (Nat.eqb (length l) 1) then [] else l.
(* _ids(names, false) Db.cpp:489 *)
Definition ids_names (s : state) (ps : list name) : list nat :=
  uids_basic s (expand_many (names s) ps).
(* getColIdx(name) Db.cpp:4221 *)
Definition colidx_of_name (s : state) (p : name) : option nat :=
  match expand1 (names s) p with
  | [] => None
  | n0 :: _ => rank_in_list (names s) n0
  end.
(* getUID(name) Db.cpp:4261 *)
Definition uid_of_name (s : state) (p : name) : option nat :=
  match ids_name s p true with
  | u :: _ => match col_of_uid s u with Some c => uid_of_col s c | None => None end
  | [] => None
  end.

(* ------------------------------------------------------------------ locator editors *)
(* clearLocators Db.cpp:1065 *)
Definition clear_loc (t : nat) (s : state) : state :=
  with_loc s (fun t0 => if Nat.eqb t0 t then [] else loc s t0).
Definition clean_if (clean : bool) (t : loctype) (s : state) : state :=
  match clean, t with
  | true, Some t' => clear_loc t' s
  | _, _ => s        (* clean && UNKNOWN is _p[-1].clear(): undefined behaviour, excluded by the decoder *)
  end.
(* "if (locatorIndex < 0) locatorIndex = _getNextLocator(locatorType)" Db.cpp:1071, 342 *)
Definition resolve_index (t : loctype) (k : Z) (s : state) : nat :=
  if (k <? 0)%Z then match t with Some t' => length (loc s t') | None => O end else Z.to_nat k.
(* setLocatorByUID without clean, index resolved, Db.cpp:1141-1175: nothing for an out-of-range uid or the
   uid of a deleted column *)
Definition set_loc1 (u : Z) (t : loctype) (k : nat) (s : state) : state :=
  match zidx u (uidmax s) with
  | None => s
  | Some u' =>
      if negb (live s u') then s else
      let l2 := fun t0 => erase1 u' (loc s t0) in
      match t with
      | None => with_loc s l2
      | Some t' => with_loc s (fun t0 => if Nat.eqb t0 t' then pad_set k u' (l2 t') else l2 t0)
      end
  end.
(* the loops "for i: setLocatorByUID(iuids[i], type, locatorIndex + i)" *)
Fixpoint set_loc_seq (us : list Z) (t : loctype) (k : nat) (s : state) : state :=
  match us with
  | [] => s
  | u :: r => set_loc_seq r t (S k) (set_loc1 u t k s)
  end.
Definition set_locs (us : list Z) (t : loctype) (k : Z) (clean : bool) (s : state) : state :=
  let s1 := clean_if clean t s in
  set_loc_seq us t (resolve_index t k s1) s1.
(* setLocatorByUID Db.cpp:1136: nothing at all (not even the clean) for an out-of-range or deleted uid *)
Definition set_loc_uid (u : Z) (t : loctype) (k : Z) (clean : bool) (s : state) : state :=
  match zidx u (uidmax s) with
  | None => s
  | Some u' => if live s u' then set_locs [u] t k clean s else s
  end.
(* setLocatorByColIdx Db.cpp:1177 *)
Definition set_loc_col (c : Z) (t : loctype) (k : Z) (clean : bool) (s : state) : state :=
  match zidx c (ncol s) with
  | None => s
  | Some c' => set_loc_uid (oz (uid_of_col s c')) t k clean s
  end.
(* setLocatorsByUID(number, iuid, ...) Db.cpp:1204 *)
Definition zrange (u : Z) (n : Z) : list Z := map (fun i => (u + Z.of_nat i)%Z) (seq 0 (Z.to_nat n)).
(* setLocatorsByColIdx Db.cpp:1231: iuid = getUIDByColIdx(icols[icol]) *)
Definition set_locs_col_uids (cs : list Z) (s : state) : list Z :=
  map (fun c => oz (uid_of_col_z s c)) cs.
(* setLocator(name, ...) Db.cpp:1109 and setLocators(names, ...) Db.cpp:1086 *)
Definition set_locs_ids (ids : list nat) (t : loctype) (k : Z) (clean : bool) (s : state) : state :=
  match ids with
  | [] => s
  | _ => set_locs (map Z.of_nat ids) t k clean s
  end.
(* switchLocator Db.cpp:2285 (in = out: resize, self-copy, then clear of the same list) *)
Definition switch_loc (tin tout : nat) (s : state) : state :=
  if Nat.eqb tin tout then clear_loc tin s
  else with_loc s (fun t0 => if Nat.eqb t0 tout then loc s tout ++ loc s tin
                             else if Nat.eqb t0 tin then [] else loc s t0).

(* ------------------------------------------------------------------ column editors *)
Definition shift_col (c : nat) (o : option nat) : option nat :=
  match o with
  | Some c' => if c' <? c then Some c' else Some (c' - 1)
  | None => None
  end.
(* deleteColumnByUID Db.cpp:1872 *)
Definition del_uid (u : Z) (s : state) : state :=
  match zidx u (uidmax s) with
  | None => s
  | Some u' =>
      match col_of_uid s u' with
      | None => s
      | Some c =>
          if c <? ncol s then
            mkState (ncol s - 1) (nech s) (remove_nth c (arr s))
                    (map (shift_col c) (set_nth u' None (uidcol s)))
                    (remove_nth c (names s))
                    (fun t => erase1 u' (loc s t))
          else s
      end
  end.
Definition del_uids (us : list Z) (s : state) : state := fold_left (fun s u => del_uid u s) us s.
(* deleteColumnByColIdx Db.cpp:1859: goes through the *name* of the column and requires one match *)
Definition del_col (c : Z) (s : state) : state :=
  match zidx c (ncol s) with
  | None => s
  | Some c' =>
      match ids_name s (nth c' (names s) []) true with
      | u :: _ => del_uid (Z.of_nat u) s
      | [] => s
      end
  end.
(* deleteColumn(name) Db.cpp:1564 *)
Definition del_name (p : name) (s : state) : state :=
  del_uids (map Z.of_nat (ids_name s p false)) s.
(* deleteColumnsByLocator Db.cpp:1921: downward loop re-reading the (shrinking) list *)
Definition del_by_loc (t : nat) (s : state) : state :=
  fold_left (fun s i => del_uid (Z.of_nat (nth i (loc s t) O)) s) (rev (seq 0 (length (loc s t)))) s.

(* "if (_nech <= 0) _nech = n" followed by _array.resize (Db.cpp:1272-1276, 1417): the array of an
   nech = 0 Db is empty, so every existing column is value-initialised to 0 *)
Definition set_nech0 (n : nat) (s : state) : state :=
  if Nat.eqb (nech s) 0
  then mkState (ncol s) n (map (fun _ => repeat (Some 0%Z) n) (arr s)) (uidcol s) (names s) (loc s)
  else s.
(* addColumnsByConstant Db.cpp:1258 (domain reference of GlobalEnvironment off, its default) *)
Definition add_cols (nadd : Z) (v : val) (radix : name) (t : loctype) (k : Z) (nechInit : nat)
                    (s : state) : state :=
  if (nadd <=? 0)%Z then s else
  let n := Z.to_nat nadd in
  let s0 := set_nech0 nechInit s in
  let nmax := uidmax s0 in
  let newnames := if Nat.eqb n 1 then [radix] else gen_names radix n in
  let s1 := mkState (ncol s0) (nech s0)
                    (arr s0 ++ repeat (repeat v (nech s0)) n)
                    (uidcol s0 ++ map (fun i => Some (ncol s0 + i)) (seq 0 n))
                    (correct_names (names s0 ++ newnames))
                    (loc s0) in
  let s2 := match t with
            | None => s1
            | Some _ => set_locs (zrange (Z.of_nat nmax) nadd) t k false s1
            end in
  mkState (ncol s2 + n) (nech s2) (arr s2) (uidcol s2) (names s2) (loc s2).

(* setArray Db.cpp:548 *)
Definition set_cell (e : Z) (u : Z) (v : val) (s : state) : state :=
  match zidx e (nech s), zidx u (uidmax s) with
  | Some e', Some u' =>
      match col_of_uid s u' with
      | Some c => if c <? ncol s
                  then with_arr s (set_nth c (set_nth e' v (nth c (arr s) [])) (arr s))
                  else s
      | None => s
      end
  | _, _ => s
  end.
(* setValue(name, iech, value) Db.cpp:590 *)
Definition set_value (p : name) (e : Z) (v : val) (s : state) : state :=
  match uid_of_name s p with
  | Some u => set_cell e (Z.of_nat u) v s
  | None => s
  end.
(* getArray Db.cpp:603 *)
Definition get_cell (s : state) (e : nat) (u : nat) : val :=
  match col_of_uid s u with
  | Some c => if (c <? ncol s) && (e <? nech s) then nth e (nth c (arr s) []) None else None
  | None => None
  end.
(* setColumnByUIDOldStyle(tab, iuid, useSel = false) Db.cpp:1499 *)
Definition set_column_uid (u : Z) (tab : list val) (s : state) : state :=
  fold_left (fun s e => set_cell (Z.of_nat e) u (nth e tab None) s) (seq 0 (nech s)) s.
(* duplicateColumnByUID Db.cpp:1549 *)
Definition dup_col (uin uout : Z) (s : state) : state :=
  match zidx uin (uidmax s), zidx uout (uidmax s) with
  | Some ui, Some _ =>
      fold_left (fun s e => set_cell (Z.of_nat e) uout (get_cell s e ui) s) (seq 0 (nech s)) s
  | _, _ => s
  end.
(* addColumns(tab, radix, type, index, useSel = false, valinit = 0, nvar = 1) Db.cpp:1404 *)
Fixpoint chunk {A} (n : nat) (m : nat) (l : list A) : list (list A) :=
  match m with
  | O => []
  | S m' => firstn n l :: chunk n m' (skipn n l)
  end.
Definition add_cols_tab (tab : list val) (radix : name) (t : loctype) (k : Z) (s : state) : state :=
  match tab with
  | [] => s
  | _ =>
      let s0 := set_nech0 (length tab) s in
      let n := nech s0 in
      let nvar := Nat.div (length tab) n in
      if negb (Nat.eqb (length tab) (nvar * n)) then s0
      else if Nat.eqb nvar 0 then s0
      else
        let iuid := uidmax s0 in
        let s1 := add_cols (Z.of_nat nvar) (Some 0%Z) radix t k 0 s0 in
        fold_left (fun s ic => set_column_uid (Z.of_nat (iuid + fst ic)) (snd ic) s)
                  (combine (seq 0 nvar) (chunk n nvar tab)) s1
  end.
(* addSelection(tab, name, "set") Db.cpp:1630 *)
Definition add_selection (tab : list val) (nm : name) (s : state) : state :=
  let n := nech s in
  match tab with
  | [] => add_cols_tab (repeat (Some 1%Z) n) nm (Some SEL) 0 s
  | _ => if negb (Nat.eqb n (length tab)) then s
         else add_cols_tab (map (fun v => match v with Some 0%Z => Some 0%Z | _ => Some 1%Z end) tab)
                           nm (Some SEL) 0 s
  end.

(* ------------------------------------------------------------------ name editors *)
Definition set_name_at (c : nat) (n : name) (s : state) : state :=
  with_names s (correct_new_name (set_nth c n (names s)) c).
(* setNameByColIdx Db.cpp:3119 *)
Definition set_name_col (c : Z) (n : name) (s : state) : state :=
  match zidx c (ncol s) with
  | Some c' => set_name_at c' n s
  | None => s
  end.
(* setNameByUID Db.cpp:3111 *)
Definition set_name_uid (u : Z) (n : name) (s : state) : state :=
  match zidx u (uidmax s) with
  | Some u' => match col_of_uid s u' with Some c => set_name_at c n s | None => s end
  | None => s
  end.
(* setName(old_name, name) Db.cpp:3125 *)
Definition set_name_old (old n : name) (s : state) : state :=
  match colidx_of_name s old with
  | Some c => set_name_at c n s
  | None => s
  end.

(* ------------------------------------------------------------------ sample editors *)
(* addSamples Db.cpp:1771 (Db::mayChangeSampleNumber() is true for a plain Db) *)
Definition add_samples (nadd : Z) (v : val) (s : state) : state :=
  if (nadd <=? 0)%Z then s
  else mkState (ncol s) (nech s + Z.to_nat nadd)
               (map (fun col => col ++ repeat v (Z.to_nat nadd)) (arr s))
               (uidcol s) (names s) (loc s).
(* deleteSample Db.cpp:1822 *)
Definition del_sample (e : Z) (s : state) : state :=
  match zidx e (nech s) with
  | Some e' => mkState (ncol s) (nech s - 1) (map (remove_nth e') (arr s)) (uidcol s) (names s) (loc s)
  | None => s
  end.

(* ------------------------------------------------------------------ list forms of the editors *)
(* VH::sort(icols, false) VectorHelper.cpp:1817: std::sort then std::reverse *)
Fixpoint insert_desc (x : Z) (l : list Z) : list Z :=
  match l with
  | [] => [x]
  | y :: r => if (y <=? x)%Z then x :: l else y :: insert_desc x r
  end.
Definition sort_desc (l : list Z) : list Z := fold_right insert_desc [] l.
(* deleteColumnsByColIdx Db.cpp:1590 *)
Definition del_cols (cs : list Z) (s : state) : state :=
  fold_left (fun s c => del_col c s) (sort_desc cs) s.
(* deleteColumns(names) Db.cpp:1577 *)
Definition del_names (ps : list name) (s : state) : state :=
  del_uids (map Z.of_nat (ids_names s ps)) s.
(* deleteColumnsByUIDRange Db.cpp:1613 *)
Definition del_uid_range (i_del n_del : Z) (s : state) : state :=
  if (i_del <=? 0)%Z then s else del_uids (rev (zrange i_del n_del)) s.
(* setName(list, name) Db.cpp:3133: column of list[i] is renamed name.(i+1), then the whole list is repaired *)
Definition set_name_list (l : list name) (n : name) (s : state) : state :=
  let s1 := fold_left (fun s ip => match colidx_of_name s (snd ip) with
                                   | Some c => with_names s (set_nth c (incr_version n (S (fst ip)) DOT) (names s))
                                   | None => s
                                   end) (combine (seq 0 (length l)) l) s in
  with_names s1 (correct_names (names s1)).
(* setNameByLocator Db.cpp:3144 *)
Definition set_name_loc (t : nat) (n : name) (s : state) : state :=
  match loc s t with
  | [] => s
  | _ =>
      let s1 := fold_left (fun s i => match col_of_loc s t i with
                                      | Some c => with_names s (set_nth c (incr_version n (S i) DOT) (names s))
                                      | None => s
                                      end) (seq 0 (length (loc s t))) s in
      with_names s1 (correct_names (names s1))
  end.

(* ------------------------------------------------------------------ selection-aware editors *)
(* getSelections Db.cpp:3390: the selection column (empty when there is none) *)
Definition selections (s : state) : list val :=
  match loc s SEL with
  | [] => []
  | _ => match col_of_loc s SEL 0 with
         | Some c => if c <? ncol s then map (fun e => nth e (nth c (arr s) []) None) (seq 0 (nech s)) else []
         | None => []
         end
  end.
(* a sample is kept by the selection when its value is defined and not 0 (same rule as isActive, Db.cpp:2702) *)
Definition sel_on (v : val) : bool := match v with None => false | Some z => negb (z =? 0)%Z end.
Definition truthy (v : val) : bool := match v with Some 0%Z => false | _ => true end.
(* setColumnByUIDOldStyle(tab, iuid, useSel) Db.cpp:1504: the selection is read once, before the loop; masked
   samples are left untouched and do not consume a value of tab *)
Fixpoint set_col_uid_loop (es : list nat) (lec : nat) (sel tab : list val) (u : Z) (s : state) : state :=
  match es with
  | [] => s
  | e :: r =>
      let defined := match sel with [] => true | _ => sel_on (nth e sel None) end in
      if defined then set_col_uid_loop r (S lec) sel tab u (set_cell (Z.of_nat e) u (nth lec tab None) s)
      else set_col_uid_loop r lec sel tab u s
  end.
Definition set_column_uid_sel (u : Z) (tab : list val) (useSel : bool) (s : state) : state :=
  set_col_uid_loop (seq 0 (nech s)) 0 (if useSel then selections s else []) tab u s.
(* setValueByColIdx Db.cpp:2346 *)
Definition set_cell_col (e : Z) (c : Z) (v : val) (s : state) : state :=
  match zidx c (ncol s), zidx e (nech s) with
  | Some c', Some e' => with_arr s (set_nth c' (set_nth e' v (nth c' (arr s) [])) (arr s))
  | _, _ => s
  end.
(* setColumnByColIdxOldStyle Db.cpp:1440: masked samples receive TEST *)
Fixpoint set_col_col_loop (es : list nat) (lec : nat) (sel tab : list val) (c : Z) (s : state) : state :=
  match es with
  | [] => s
  | e :: r =>
      let defined := match sel with [] => true | _ => sel_on (nth e sel None) end in
      if defined then set_col_col_loop r (S lec) sel tab c (set_cell_col (Z.of_nat e) c (nth lec tab None) s)
      else set_col_col_loop r lec sel tab c (set_cell_col (Z.of_nat e) c None s)
  end.
Definition set_column_col (c : Z) (tab : list val) (useSel : bool) (s : state) : state :=
  match zidx c (ncol s) with
  | None => s
  | Some _ => set_col_col_loop (seq 0 (nech s)) 0 (if useSel then selections s else []) tab c s
  end.
(* setFromLocator Db.cpp:956 *)
Definition set_from_loc (t : nat) (e : Z) (k : nat) (v : val) (s : state) : state :=
  match zidx e (nech s), col_of_loc s t k with
  | Some _, Some c => set_cell_col e (Z.of_nat c) v s
  | _, _ => s
  end.
(* deleteSamples Db.cpp:1804: descending order, stops at the first refused deletion *)
Fixpoint del_samples_loop (es : list Z) (s : state) : state :=
  match es with
  | [] => s
  | e :: r => match zidx e (nech s) with
              | Some _ => del_samples_loop r (del_sample e s)
              | None => s
              end
  end.
Definition del_samples (es : list Z) (s : state) : state := del_samples_loop (sort_desc es) s.

(* getSampleNumber(useSel) on the state (active_number is defined with the getters below) *)
Definition sel_value0 (s : state) (e : nat) : val :=
  match col_of_loc s SEL 0 with
  | Some c => if c <? ncol s then nth e (nth c (arr s) []) None else None
  | None => None
  end.
Definition n_active (s : state) : nat :=
  match loc s SEL with
  | [] => nech s
  | _ => length (filter (fun e => match sel_value0 s e with None => false | Some z => negb (z =? 0)%Z end)
                        (seq 0 (nech s)))
  end.
(* addColumns(tab, radix, type, index, useSel, valinit, nvar) Db.cpp:1404, general form (addColumnsByVVD, setColumn,
   the addSelection family).  A null sample count (every sample masked with useSel, or fewer values than vectors on an
   empty Db) is refused: "no (active) sample to be loaded", the Db keeps the sample count possibly set just before *)
Definition add_cols_gen (tab : list val) (radix : name) (t : loctype) (k : Z) (useSel : bool) (valinit : val)
                        (nvar0 : nat) (s : state) : state :=
  match tab with
  | [] => s
  | _ =>
      let s0 := set_nech0 (Nat.div (length tab) nvar0) s in
      let n := if useSel then n_active s0 else nech s0 in
      if Nat.eqb n 0 then s0 else
      let nvar := Nat.div (length tab) n in
      if negb (Nat.eqb (length tab) (nvar * n)) then s0
      else
        let iuid := uidmax s0 in
        let s1 := add_cols (Z.of_nat nvar) valinit radix t k 0 s0 in
        fold_left (fun s ic => set_column_uid_sel (Z.of_nat (iuid + fst ic)) (snd ic) useSel s)
                  (combine (seq 0 nvar) (chunk n nvar tab)) s1
  end.
(* addColumnsByVVD Db.cpp:1370: nvar = number of vectors, valinit = TEST *)
Definition add_cols_vvd (tabs : list (list val)) (radix : name) (t : loctype) (k : Z) (useSel : bool)
                        (s : state) : state :=
  add_cols_gen (concat tabs) radix t k useSel None (length tabs) s.
(* setColumn(tab, name, type, index, useSel) Db.cpp:1535 *)
Definition set_column_name (tab : list val) (p : name) (t : loctype) (k : Z) (useSel : bool) (s : state) : state :=
  match ids_name s p true with
  | [] => add_cols_gen tab p t k useSel (Some 0%Z) 1 s
  | u :: _ => set_column_uid_sel (Z.of_nat u) tab useSel s
  end.
(* combineSelection Db.cpp:5008: 0 "set", 1 "not", 2 "or", 3 "and", 4 "xor", anything else: message, unchanged *)
Definition b2v (b : bool) : val := Some (if b then 1%Z else 0%Z).
Definition combine_sel (sel : list val) (cmb : Z) (s : state) : list val :=
  match sel with
  | [] => sel
  | _ =>
      if (cmb =? 0)%Z then sel
      else if (cmb =? 1)%Z then map (fun v => b2v (negb (truthy v))) sel
      else if (2 <=? cmb)%Z && (cmb <=? 4)%Z then
        let old := match col_of_loc s SEL 0 with
                   | Some c => if c <? ncol s then map (fun e => nth e (nth c (arr s) []) None) (seq 0 (nech s)) else []
                   | None => []
                   end in
        match old with
        | [] => sel
        | _ => map (fun p => let a := truthy (fst p) in
                             if (cmb =? 2)%Z then b2v (a || truthy (snd p))
                             else if (cmb =? 3)%Z then b2v (a && truthy (snd p))
                             else b2v (negb (match snd p with Some z => (z =? (if a then 1 else 0))%Z | None => false end)))
                   (combine sel (old ++ repeat None (length sel)))
        end
      else sel
  end.
Definition add_sel_common (sel : list val) (nm : name) (cmb : Z) (s : state) : state :=
  add_cols_gen (combine_sel sel cmb s) nm (Some SEL) 0 false (Some 0%Z) 1 s.
(* addSelection(tab, name, combine) Db.cpp:1630 *)
Definition add_selection_c (tab : list val) (nm : name) (cmb : Z) (s : state) : state :=
  let n := nech s in
  match tab with
  | [] => add_sel_common (repeat (Some 1%Z) n) nm cmb s
  | _ => if negb (Nat.eqb n (length tab)) then s
         else add_sel_common (map (fun v => b2v (truthy v)) tab) nm cmb s
  end.
(* addSelectionByRanks Db.cpp:1673 (ranks outside [0, nech) make the library write out of bounds: excluded) *)
Definition add_selection_ranks (ranks : list nat) (nm : name) (cmb : Z) (s : state) : state :=
  add_sel_common (map (fun e => b2v (existsb (Nat.eqb e) ranks)) (seq 0 (nech s))) nm cmb s.
(* addSelectionByLimit Db.cpp:1698 with no limit (has_lim = false) or one interval [lo, hi) (None = unbounded) *)
Definition inside_lim (lo hi : val) (z : Z) : bool :=
  (match lo with Some a => (a <=? z)%Z | None => true end) && (match hi with Some b => (z <? b)%Z | None => true end).
Definition add_selection_limit (testvar : name) (has_lim : bool) (lo hi : val) (nm : name) (cmb : Z)
                               (s : state) : state :=
  let value e := match uid_of_name s testvar with Some u => get_cell s e u | None => None end in
  add_sel_common (map (fun e => match value e with
                                | None => Some 0%Z
                                | Some z => b2v (negb has_lim || inside_lim lo hi z)
                                end) (seq 0 (nech s))) nm cmb s.

(* ------------------------------------------------------------------ operations *)
Inductive op :=
| AddCols (nadd : Z) (v : val) (radix : name) (t : loctype) (k : Z) (nechInit : nat)
| AddColsTab (tab : list val) (radix : name) (t : loctype) (k : Z)
| AddSel (tab : list val) (nm : name)
| DelUID (u : Z)
| DelCol (c : Z)
| DelName (p : name)
| DelUIDs (us : list Z)
| DelByLoc (t : nat)
| SetLocUID (u : Z) (t : loctype) (k : Z) (clean : bool)
| SetLocCol (c : Z) (t : loctype) (k : Z) (clean : bool)
| SetLocName (p : name) (t : loctype) (k : Z) (clean : bool)
| SetLocsUID (us : list Z) (t : loctype) (k : Z) (clean : bool)
| SetLocsRange (number u : Z) (t : loctype) (k : Z) (clean : bool)
| SetLocsCol (cs : list Z) (t : loctype) (k : Z) (clean : bool)
| SetLocsNames (ps : list name) (t : loctype) (k : Z) (clean : bool)
| ClearLoc (t : nat)
| SwitchLoc (tin tout : nat)
| SetNameCol (c : Z) (n : name)
| SetNameUID (u : Z) (n : name)
| SetNameOld (old n : name)
| AddSamples (nadd : Z) (v : val)
| DelSample (e : Z)
| SetArray (e u : Z) (v : val)
| SetValue (p : name) (e : Z) (v : val)
| DupCol (uin uout : Z)
| DelCols (cs : list Z)
| DelNames (ps : list name)
| DelUIDRange (i_del n_del : Z)
| SetNameList (l : list name) (n : name)
| SetNameLoc (t : nat) (n : name)
| DelSamples (es : list Z)
| SetColumnUID (u : Z) (tab : list val) (useSel : bool)
| SetColumnCol (c : Z) (tab : list val) (useSel : bool)
| SetColumnName (tab : list val) (p : name) (t : loctype) (k : Z) (useSel : bool)
| SetValueCol (e c : Z) (v : val)
| SetFromLoc (t : nat) (e : Z) (k : nat) (v : val)
| AddColsVVD (tabs : list (list val)) (radix : name) (t : loctype) (k : Z) (useSel : bool)
| AddSelC (tab : list val) (nm : name) (cmb : Z)
| AddSelRanks (ranks : list nat) (nm : name) (cmb : Z)
| AddSelLimit (testvar : name) (has_lim : bool) (lo hi : val) (nm : name) (cmb : Z).

Definition step (s : state) (o : op) : state :=
  match o with
  | AddCols nadd v radix t k ni => add_cols nadd v radix t k ni s
  | AddColsTab tab radix t k => add_cols_tab tab radix t k s
  | AddSel tab nm => add_selection tab nm s
  | DelUID u => del_uid u s
  | DelCol c => del_col c s
  | DelName p => del_name p s
  | DelUIDs us => del_uids us s
  | DelByLoc t => del_by_loc t s
  | SetLocUID u t k cl => set_loc_uid u t k cl s
  | SetLocCol c t k cl => set_loc_col c t k cl s
  | SetLocName p t k cl => set_locs_ids (ids_name s p false) t k cl s
  | SetLocsUID us t k cl => set_locs us t k cl s
  | SetLocsRange n u t k cl => set_locs (zrange u n) t k cl s
  | SetLocsCol cs t k cl => set_locs (set_locs_col_uids cs s) t k cl s
  | SetLocsNames ps t k cl => set_locs_ids (ids_names s ps) t k cl s
  | ClearLoc t => clear_loc t s
  | SwitchLoc a b => switch_loc a b s
  | SetNameCol c n => set_name_col c n s
  | SetNameUID u n => set_name_uid u n s
  | SetNameOld old n => set_name_old old n s
  | AddSamples nadd v => add_samples nadd v s
  | DelSample e => del_sample e s
  | SetArray e u v => set_cell e u v s
  | SetValue p e v => set_value p e v s
  | DupCol a b => dup_col a b s
  | DelCols cs => del_cols cs s
  | DelNames ps => del_names ps s
  | DelUIDRange i n => del_uid_range i n s
  | SetNameList l n => set_name_list l n s
  | SetNameLoc t n => set_name_loc t n s
  | DelSamples es => del_samples es s
  | SetColumnUID u tab us => set_column_uid_sel u tab us s
  | SetColumnCol c tab us => set_column_col c tab us s
  | SetColumnName tab p t k us => set_column_name tab p t k us s
  | SetValueCol e c v => set_cell_col e c v s
  | SetFromLoc t e k v => set_from_loc t e k v s
  | AddColsVVD tabs radix t k us => add_cols_vvd tabs radix t k us s
  | AddSelC tab nm cmb => add_selection_c tab nm cmb s
  | AddSelRanks ranks nm cmb => add_selection_ranks ranks nm cmb s
  | AddSelLimit tv hl lo hi nm cmb => add_selection_limit tv hl lo hi nm cmb s
  end.
Definition run_ops (ops : list op) : state := fold_left step ops init.

(* getLocatorByColIdx Db.cpp:372 (the getter [loc_of_col] below is this function) *)
Fixpoint find_loc_pre (s : state) (c : nat) (ts : list nat) : option (nat * nat) :=
  match ts with
  | [] => None
  | t :: r =>
      match find_index (fun u => opt_is c (col_of_uid s u)) (loc s t) with
      | Some i => Some (t, i)
      | None => find_loc_pre s c r
      end
  end.
Definition loc_of_col_pre (s : state) (c : nat) : option (nat * nat) := find_loc_pre s c (seq 0 NLOC).

(* ------------------------------------------------------------------ creators
   Every creator of the library is a fixed sequence of calls of the editors above applied to the state left by
   resetDims; it is modelled as that sequence (a script of [op]), so that the invariant of the created Db follows
   from C07_step. *)
(* Db::resetDims Db.cpp:512 on a fresh object: identity uid table, names New-1..New-n, no role, zero-filled array *)
Definition NEW : name := [78; 101; 119]%Z.
Definition reset_dims (nc ne : nat) : state :=
  mkState nc ne (repeat (repeat (Some 0%Z) ne) nc) (map (fun c => Some c) (seq 0 nc)) (gen_names NEW nc) (fun _ => []).
Definition RANK : name := [114; 97; 110; 107]%Z.
Definition XN : name := [120%Z].
Definition ABS : val := Some 999999999%Z.      (* a value the model does not predict (random draw, interpolation) *)
(* _createRank(0) Db.cpp:4379 *)
Definition rank_script (ne : nat) : list op :=
  map (fun e => SetArray (Z.of_nat e) 0 (Some (Z.of_nat (S e)))) (seq 0 ne) ++ [SetNameCol 0 RANK].
(* _defineDefaultNames(shift, names) Db.cpp:4405 *)
Definition names_script (shift n : nat) (names : list name) : list op :=
  map (fun i => SetNameCol (Z.of_nat (i + shift))
                           (match names with [] => incr_version NEW (S i) DOT | _ => nth i names [] end)) (seq 0 n).
(* locatorIdentify PtrGeos.cpp on the canonical strings <keyword><number>: (type, number or -1 when absent) *)
Definition unique_loc (t : nat) : bool :=
  existsb (Nat.eqb t) [8; 9; 10; 11; 13; 14; 15; 16; 17; 19; 25].
Definition locstr := (loctype * Z)%type.
Definition locs_script (shift n : nat) (locs : list locstr) : list op :=
  match locs with
  | [] => []
  | _ => flat_map (fun i => match nth i locs (None, (-1)%Z) with
                            | (None, _) => [SetLocUID (Z.of_nat (i + shift)) None 0 false]
                            | (Some t, num) =>
                                if unique_loc t && (1 <? num)%Z then []
                                else [SetLocUID (Z.of_nat (i + shift)) (Some t) (Z.max (num - 1) 0) false]
                            end) (seq 0 n)
  end.
(* _loadData Db.cpp:4329 *)
Definition load_script (tab : list val) (names : list name) (locs : list locstr) (bycol : bool)
                       (shift nc ne : nat) : list op :=
  match tab with
  | [] => []
  | _ =>
      if Nat.eqb nc 0 || Nat.eqb ne 0 || negb (Nat.eqb (Nat.modulo (length tab) ne) 0) then []
      else
        let ntab := Nat.div (length tab) ne in
        flat_map (fun icol => map (fun e => SetValueCol (Z.of_nat e) (Z.of_nat (icol + shift))
                                              (nth (if bycol then icol * ne + e else icol + ntab * e) tab None))
                                  (seq 0 ne)) (seq 0 ntab)
        ++ names_script shift (nc - shift) names ++ locs_script shift (nc - shift) locs
  end.
Definition run_script (sc : list op) (s : state) : state := fold_left step sc s.
Definition b2n (b : bool) : nat := if b then 1 else 0.
(* Db::createFromSamples / resetFromSamples Db.cpp:86 *)
Definition samples_dims (ne : nat) (tab : list val) (rank : bool) : nat :=
  (match tab with [] => 0 | _ => Nat.div (length tab) ne end) + b2n rank.
Definition samples_script (ne : nat) (bycol : bool) (tab : list val) (names : list name) (locs : list locstr)
                          (rank : bool) : list op :=
  (if rank then rank_script ne else []) ++ load_script tab names locs bycol (b2n rank) (samples_dims ne tab rank) ne.
Definition create_samples ne bycol tab names locs rank : state :=
  run_script (samples_script ne bycol tab names locs rank) (reset_dims (samples_dims ne tab rank) ne).
(* Db::createFromBox -> db_point_init (dbtools.cpp:1986), flag_exact: random coordinates, then names x-i and roles *)
Definition box_script (ne ndim : nat) (rank : bool) : list op :=
  samples_script ne false (repeat ABS (ne * ndim)) [] [] rank
  ++ flat_map (fun idim => [SetNameUID (Z.of_nat (idim + b2n rank)) (incr_version XN (S idim) DASH);
                            SetLocUID (Z.of_nat (idim + b2n rank)) (Some 0) (Z.of_nat idim) false]) (seq 0 ndim).
Definition create_box ne ndim rank : state :=
  run_script (box_script ne ndim rank) (reset_dims (samples_dims ne (repeat ABS (ne * ndim)) rank) ne).
(* Db::createFillRandom Db.cpp:5302 (selRatio and heteroRatio in {0, 1}, ncode in {0, 1}: deterministic masks) *)
Definition fill_script (ndat ndim nvar nfex : nat) (code varm sel : bool) (hetero : list bool) (rank : bool) : list op :=
  let absv := repeat ABS ndat in
  (if rank then [AddColsTab (map (fun e => Some (Z.of_nat (S e))) (seq 0 ndat)) RANK None 0] else [])
  ++ [AddColsVVD (repeat absv ndim) XN (Some 0) 0 false]
  ++ (if varm then [AddColsVVD (repeat absv nvar) [118%Z] (Some 2) 0 false] else [])
  ++ (if 0 <? nfex then [AddColsVVD (repeat absv nfex) [102%Z] (Some 3) 0 false] else [])
  ++ (if sel then [AddColsTab (repeat (Some 0%Z) ndat) [115; 101; 108]%Z (Some SEL) 0] else [])
  ++ [AddColsVVD (map (fun i => if Nat.eqb (length hetero) nvar && nth i hetero false then repeat None ndat else absv)
                      (seq 0 nvar)) [122%Z] (Some 1) 0 false]
  ++ (if code then [AddColsTab (repeat (Some 0%Z) ndat) [99; 111; 100; 101]%Z (Some 9) 0] else []).
Definition create_fill ndat ndim nvar nfex code varm sel hetero rank : state :=
  run_script (fill_script ndat ndim nvar nfex code varm sel hetero rank) init.
(* DbGrid::create / reset DbGrid.cpp:98 (no rotation, integer mesh and origin): the table side *)
Definition grid_nech (nx : list nat) : nat := fold_left Nat.mul nx 1.
Fixpoint grid_index (nx : list nat) (e : nat) : list nat :=
  match nx with
  | [] => []
  | n :: r => Nat.modulo e n :: grid_index r (Nat.div e n)
  end.
Definition grid_coord (nx : list nat) (dx x0 : list Z) (e idim : nat) : Z :=
  (nth idim x0 0 + nth idim dx 0 * Z.of_nat (nth idim (grid_index nx e) 0%nat))%Z.
Definition coords_script (nx : list nat) (dx x0 : list Z) (icol0 : nat) : list op :=
  let ndim := length nx in
  map (fun idim => SetNameCol (Z.of_nat (icol0 + idim)) (XN ++ dec (S idim))) (seq 0 ndim)
  ++ [SetLocsRange (Z.of_nat ndim) (Z.of_nat icol0) (Some 0) 0 false]
  ++ flat_map (fun e => map (fun idim => SetArray (Z.of_nat e) (Z.of_nat (icol0 + idim))
                                                   (Some (grid_coord nx dx x0 e idim))) (seq 0 ndim))
              (seq 0 (grid_nech nx)).
Definition grid_dims (nx : list nat) (tab : list val) (rank coords : bool) : nat :=
  b2n rank + (if coords then length nx else 0)
  + (match tab with [] => 0 | _ => Nat.div (length tab) (grid_nech nx) end).
Definition grid_script (nx : list nat) (dx x0 : list Z) (bycol : bool) (tab : list val) (names : list name)
                       (locs : list locstr) (rank coords : bool) : list op :=
  let ne := grid_nech nx in
  let number := b2n rank + (if coords then length nx else 0) in
  let nc := grid_dims nx tab rank coords in
  load_script tab names locs bycol number nc ne
  ++ (if rank then rank_script ne else [])
  ++ (if coords then coords_script nx dx x0 (b2n rank) else [])
  ++ names_script number (nc - number) names
  ++ (if coords then SetLocsRange (Z.of_nat (length nx)) (Z.of_nat (b2n rank)) (Some 0) 0 false
                     :: locs_script number (nc - number) locs else []).
Definition create_grid nx dx x0 bycol tab names locs rank coords : state :=
  run_script (grid_script nx dx x0 bycol tab names locs rank coords)
             (reset_dims (grid_dims nx tab rank coords) (grid_nech nx)).
(* DbGrid::createSubGrid DbGrid.cpp:1495: the variables other than "rank" and those whose name starts with x are
   copied (no role), limits = (first node, last node + 1) per dimension *)
Definition excluded_name (n : name) : bool :=
  (match n with c :: _ => (c =? 120)%Z || (c =? 88)%Z | [] => false end)
  || name_eqb (map (fun c => if (97 <=? c)%Z && (c <=? 122)%Z then (c - 32)%Z else c) n) [82; 65; 78; 75]%Z.
Fixpoint grid_rank (nx : list nat) (idx : list nat) : nat :=
  match nx, idx with
  | n :: r, i :: ir => i + n * grid_rank r ir
  | _, _ => 0
  end.
Definition subgrid_script (s : state) (nx : list nat) (dx x0 : list Z) (lims : list (nat * nat)) (coords : bool)
  : list op :=
  let nxo := map (fun l => snd l - fst l) lims in
  let x0o := map (fun i => (nth i x0 0 + nth i dx 0 * Z.of_nat (fst (nth i lims (0%nat, 0%nat))))%Z) (seq 0 (length nx)) in
  let kept := filter (fun n => negb (excluded_name n)) (names s) in
  let uin := ids_names s kept in
  let base := b2n true + (if coords then length nx else 0) in
  grid_script nxo dx x0o false [] [] [] true coords
  ++ map (fun n => AddCols 1 None n None 0 0) kept
  ++ flat_map (fun igout =>
        let igin := grid_rank nx (map (fun p => fst p + fst (snd p)) (combine (grid_index nxo igout) lims)) in
        map (fun iv => SetArray (Z.of_nat igout) (Z.of_nat (base + iv)) (get_cell s igin (nth iv uin 0)))
            (seq 0 (length kept)))
      (seq 0 (grid_nech nxo)).
Definition create_subgrid (s : state) nx dx x0 lims coords : state :=
  let nxo := map (fun l => snd l - fst l) lims in
  run_script (subgrid_script s nx dx x0 lims coords) (reset_dims (grid_dims nxo [] true coords) (grid_nech nxo)).

(* DbGrid::createCoarse / createRefine DbGrid.cpp:356, 553 -> Grid::multiple / divider (Grid.cpp:929, 987), DbGrid::create
   with rank and coordinates, then migrateAllVariables DbGrid.cpp:587: the columns of the input grid other than the rank
   (when flagAddSampleRank) and those holding an X role are migrated (values interpolated: abstracted). Table side:
   CalcMigrate::_preprocess adds nvar columns with an empty radix, _postprocess renames them after the source columns
   (NamingConvention with empty prefix) and gives them the roles z1..zn (default naming convention: clean + locate Z),
   migrateAllVariables finally copies role and rank of each source column, designated by column index *)
Definition ratval (num den : Z) : val := if (num mod den =? 0)%Z then Some (num / den)%Z else ABS.
Definition mig_nx (refine cell : bool) (n m : nat) : nat :=
  if refine then (if cell then n * m else 1 + (n - 1) * m)
  else (if cell then Nat.div n m else 1 + Nat.div (n - 1) m).
Definition mig_coord (refine cell : bool) (x0 dx : Z) (m : nat) (i : nat) : val :=
  let mz := Z.of_nat m in let iz := Z.of_nat i in
  if refine then
    (if cell then ratval (2 * mz * x0 + dx * (1 - mz) + 2 * iz * dx) (2 * mz) else ratval (mz * x0 + iz * dx) mz)
  else
    (if cell then ratval (2 * x0 + dx * (mz - 1) + 2 * iz * dx * mz) 2 else Some (x0 + iz * dx * mz)%Z).
Definition migrated_cols (s : state) (rank : bool) : list nat :=
  filter (fun c => negb (rank && Nat.eqb c 0)
                   && negb (match loc_of_col_pre s c with Some (0, _) => true | _ => false end))
         (seq 0 (ncol s)).
Definition migrate_script (s : state) (refine : bool) (nx : list nat) (dx x0 : list Z) (nmult : list nat)
                          (cell rank : bool) : list op :=
  let ndim := length nx in
  let nxo := map (fun i => mig_nx refine cell (nth i nx 1) (nth i nmult 1)) (seq 0 ndim) in
  let ne := grid_nech nxo in
  let icol0 := b2n rank in
  let icols := migrated_cols s rank in
  let nvar := length icols in
  let iatt := icol0 + ndim in
  (if rank then rank_script ne else [])
  ++ map (fun idim => SetNameCol (Z.of_nat (icol0 + idim)) (XN ++ dec (S idim))) (seq 0 ndim)
  ++ [SetLocsRange (Z.of_nat ndim) (Z.of_nat icol0) (Some 0) 0 false]
  ++ flat_map (fun e => map (fun idim => SetArray (Z.of_nat e) (Z.of_nat (icol0 + idim))
                                (mig_coord refine cell (nth idim x0 0%Z) (nth idim dx 0%Z) (nth idim nmult 1)
                                           (nth idim (grid_index nxo e) 0))) (seq 0 ndim)) (seq 0 ne)
  ++ [SetLocsRange (Z.of_nat ndim) (Z.of_nat icol0) (Some 0) 0 false]
  ++ match icols with
     | [] => []
     | _ =>
         [AddCols (Z.of_nat nvar) (Some 0%Z) [] None 0 0]
         ++ flat_map (fun i => map (fun e => SetArray (Z.of_nat e) (Z.of_nat (iatt + i)) ABS) (seq 0 ne)) (seq 0 nvar)
         ++ map (fun i => SetNameUID (Z.of_nat (iatt + i))
                            (match nth (nth i icols 0) (names s) [] with
                             | [] => if 1 <? nvar then dec (S i) else [68; 117; 109; 109; 121]%Z
                             | n => n end)) (seq 0 nvar)
         ++ [ClearLoc 1]
         ++ map (fun i => SetLocUID (Z.of_nat (iatt + i)) (Some 1) (Z.of_nat i) false) (seq 0 nvar)
         ++ map (fun i => match loc_of_col_pre s (nth i icols 0) with
                          | Some (t, k) => SetLocCol (Z.of_nat (iatt + i)) (Some t) (Z.of_nat k) false
                          | None => SetLocCol (Z.of_nat (iatt + i)) None 0 false
                          end) (seq 0 nvar)
     end.
Definition migrate_dims (refine : bool) (nx nmult : list nat) (cell rank : bool) : nat * nat :=
  let nxo := map (fun i => mig_nx refine cell (nth i nx 1) (nth i nmult 1)) (seq 0 (length nx)) in
  (b2n rank + length nx, grid_nech nxo).

(* ------------------------------------------------------------------ commands: editors on a Db or a DbGrid, creators *)
(* DbGrid::mayChangeSampleNumber() is false: addSamples / deleteSample(s) are refused *)
Definition is_sample_edit (o : op) : bool :=
  match o with AddSamples _ _ | DelSample _ | DelSamples _ => true | _ => false end.
Definition stepg (grid : bool) (s : state) (o : op) : state :=
  if grid && is_sample_edit o then s else step s o.
Inductive cmd :=
| Do (o : op)
| NewSamples (ne : nat) (bycol : bool) (tab : list val) (names : list name) (locs : list locstr) (rank : bool)
| NewBox (ne ndim : nat) (rank : bool)
| NewFill (ndat ndim nvar nfex : nat) (code varm sel : bool) (hetero : list bool) (rank : bool)
| NewGrid (nx : list nat) (dx x0 : list Z) (bycol : bool) (tab : list val) (names : list name)
          (locs : list locstr) (rank coords : bool)
| SubGrid (nx : list nat) (dx x0 : list Z) (lims : list (nat * nat)) (coords : bool)
| Migrate (refine : bool) (nx : list nat) (dx x0 : list Z) (nmult : list nat) (cell rank : bool).
Definition gstate := (bool * state)%type.
(* the script a creator runs, and the state it starts from *)
Definition cmd_script (s : state) (c : cmd) : list op * state :=
  match c with
  | Do o => ([o], s)
  | NewSamples ne bycol tab names locs rank =>
      (samples_script ne bycol tab names locs rank, reset_dims (samples_dims ne tab rank) ne)
  | NewBox ne ndim rank => (box_script ne ndim rank, reset_dims (samples_dims ne (repeat ABS (ne * ndim)) rank) ne)
  | NewFill ndat ndim nvar nfex code varm sel hetero rank =>
      (fill_script ndat ndim nvar nfex code varm sel hetero rank, init)
  | NewGrid nx dx x0 bycol tab names locs rank coords =>
      (grid_script nx dx x0 bycol tab names locs rank coords, reset_dims (grid_dims nx tab rank coords) (grid_nech nx))
  | SubGrid nx dx x0 lims coords =>
      let nxo := map (fun l => snd l - fst l) lims in
      (subgrid_script s nx dx x0 lims coords, reset_dims (grid_dims nxo [] true coords) (grid_nech nxo))
  | Migrate refine nx dx x0 nmult cell rank =>
      let (nc, ne) := migrate_dims refine nx nmult cell rank in
      (migrate_script s refine nx dx x0 nmult cell rank, reset_dims nc ne)
  end.
Definition cmd_grid (g : bool) (c : cmd) : bool :=
  match c with Do _ => g | NewGrid _ _ _ _ _ _ _ _ _ | SubGrid _ _ _ _ _ | Migrate _ _ _ _ _ _ _ => true | _ => false end.
Definition exec (g : gstate) (c : cmd) : gstate :=
  match c with
  | Do o => (fst g, stepg (fst g) (snd g) o)
  | SubGrid _ _ _ _ _ | Migrate _ _ _ _ _ _ _ =>       (* methods of DbGrid: nothing happens on a plain Db *)
      if fst g then let (sc, s0) := cmd_script (snd g) c in (true, run_script sc s0) else g
  | _ => let (sc, s0) := cmd_script (snd g) c in (cmd_grid (fst g) c, run_script sc s0)
  end.

(* ------------------------------------------------------------------ getters = observations *)
(* getLocatorByColIdx Db.cpp:372: first (type, rank) whose uid maps to the column *)
Fixpoint find_loc_from (s : state) (c : nat) (ts : list nat) : option (nat * nat) :=
  match ts with
  | [] => None
  | t :: r =>
      match find_index (fun u => opt_is c (col_of_uid s u)) (loc s t) with
      | Some i => Some (t, i)
      | None => find_loc_from s c r
      end
  end.
Definition loc_of_col (s : state) (c : nat) : option (nat * nat) := find_loc_from s c (seq 0 NLOC).
(* getColumnByColIdx(icol, useSel = false) Db.cpp:3633 *)
Definition column (s : state) (c : nat) : list val :=
  if c <? ncol s then map (fun e => nth e (nth c (arr s) []) None) (seq 0 (nech s)) else [].
(* getColumnByUID Db.cpp:3670, getColumn(name) Db.cpp:3697, getColumnByLocator Db.cpp:3682 *)
Definition column_of_uid (s : state) (u : nat) : list val :=
  match col_of_uid s u with Some c => column s c | None => [] end.
Definition column_of_name (s : state) (p : name) : list val :=
  match ids_name s p true with
  | u :: _ => column_of_uid s u
  | [] => []
  end.
Definition column_of_loc (s : state) (t k : nat) : list val :=
  match col_of_loc s t k with Some c => column s c | None => [] end.
(* getFromLocator(SEL, iech, 0) Db.cpp:967: TEST when the designated column does not exist *)
Definition sel_value (s : state) (e : nat) : val :=
  match col_of_loc s SEL 0 with
  | Some c => if c <? ncol s then nth e (nth c (arr s) []) None else None
  | None => None
  end.
Definition nonzero (v : val) : bool := match v with Some 0%Z => false | _ => true end.
(* isActive Db.cpp:2927 -> getSelection Db.cpp:2702 (domain reference off) *)
Definition is_active (s : state) (e : nat) : bool :=
  match loc s SEL with
  | [] => true
  | _ => match sel_value s e with None => false | Some z => negb (z =? 0)%Z end
  end.

(* getSampleNumber(useSel = true) Db.cpp:2773: counts the samples whose getSelection is not 0 *)
Definition active_number (s : state) : nat :=
  match loc s SEL with
  | [] => nech s
  | _ => length (filter (is_active s) (seq 0 (nech s)))
  end.

(* getColumnByColIdx(icol, useSel = true, flagCompress) Db.cpp:3638: a sample is kept when its selection is defined and not 0 *)
Definition column_sel (s : state) (c : nat) (compress : bool) : list val :=
  if c <? ncol s then
    let sel := selections s in
    flat_map (fun e => let defined := match sel with [] => true | _ => sel_on (nth e sel None) end in
                       if defined then [nth e (nth c (arr s) []) None] else if compress then [] else [None])
             (seq 0 (nech s))
  else [].

Record obs := mkObs {
  o_ncol : nat;                         (* getColumnNumber *)
  o_nech : nat;                         (* getSampleNumber(false) *)
  o_nact : nat;                         (* getSampleNumber(true) *)
  o_active : list bool;                 (* isActive(e), e < nech *)
  o_names : list name;                  (* getAllNames *)
  o_uid2col : list Z;                   (* getColIdxByUID(u), u < getUIDMaxNumber *)
  o_alluids : list Z;                   (* getAllUIDs *)
  o_col2uid : list Z;                   (* getUIDByColIdx(c), c < ncol *)
  o_colloc : list (Z * Z);              (* getLocatorByColIdx(c): (type, rank) or (-1,-1) *)
  o_loccols : list (list Z);            (* per type t < NLOC: getColIdxByLocator(t, k), k < getLocatorNumber(t) *)
  o_cols : list (list val);             (* getColumnByColIdx(c) *)
  o_cols_uid : list (list val);         (* getColumnByUID(getUIDByColIdx(c)) *)
  o_cols_name : list (list val);        (* getColumn(name of c) *)
  o_cols_loc : list (list val);         (* getColumnByLocator(locator of c), [] when c has none *)
  o_name2col : list Z;                  (* getColIdx(name of c) *)
  o_name2uid : list Z;                  (* getUID(name of c) *)
  o_cols_sel : list (list val);         (* getColumnByColIdx(c, useSel = true, flagCompress = false) *)
  o_cols_selc : list (list val)         (* getColumnByColIdx(c, useSel = true, flagCompress = true) *)
}.
Definition observe (s : state) : obs :=
  let cs := seq 0 (ncol s) in
  mkObs (ncol s) (nech s) (active_number s)
    (map (is_active s) (seq 0 (nech s)))
    (names s)
    (map (fun u => oz (col_of_uid s u)) (seq 0 (uidmax s)))
    (map Z.of_nat (filter (live s) (seq 0 (uidmax s))))
    (map (fun c => oz (uid_of_col s c)) cs)
    (map (fun c => match loc_of_col s c with
                   | Some (t, k) => (Z.of_nat t, Z.of_nat k)
                   | None => ((-1)%Z, (-1)%Z) end) cs)
    (map (fun t => map (fun k => oz (col_of_loc s t k)) (seq 0 (length (loc s t)))) (seq 0 NLOC))
    (map (column s) cs)
    (map (fun c => match uid_of_col s c with Some u => column_of_uid s u | None => [] end) cs)
    (map (fun c => column_of_name s (nth c (names s) [])) cs)
    (map (fun c => match loc_of_col s c with Some (t, k) => column_of_loc s t k | None => [] end) cs)
    (map (fun c => oz (colidx_of_name s (nth c (names s) []))) cs)
    (map (fun c => oz (uid_of_name s (nth c (names s) []))) cs)
    (map (fun c => column_sel s c false) cs)
    (map (fun c => column_sel s c true) cs).

Definition step_obs (s : state) (o : op) : state * obs := (step s o, observe (step s o)).

(* C07: list lemmas for remove_nth / set_nth / find_index / erase1 / pad_set / live_list *)
From Coq Require Import List ZArith Bool Arith Lia.
From Gst Require Import C07.Model C07.Spec.
Import ListNotations.

Lemma zidx_some z n i : zidx z n = Some i -> i < n /\ z = Z.of_nat i.
Proof.
  unfold zidx. destruct (0 <=? z)%Z eqn:E1; destruct (z <? Z.of_nat n)%Z eqn:E2; simpl; try discriminate.
  intro H; inversion H; subst. apply Z.leb_le in E1. apply Z.ltb_lt in E2. lia.
Qed.
Lemma zidx_of_nat i n : i < n -> zidx (Z.of_nat i) n = Some i.
Proof.
  intro H. unfold zidx.
  replace (0 <=? Z.of_nat i)%Z with true by (symmetry; apply Z.leb_le; lia).
  replace (Z.of_nat i <? Z.of_nat n)%Z with true by (symmetry; apply Z.ltb_lt; lia).
  simpl. now rewrite Nat2Z.id.
Qed.

(* ---------------- remove_nth *)
Section RemoveNth.
Context {A : Type}.
Lemma length_remove_nth n (l : list A) : n < length l -> length (remove_nth n l) = length l - 1.
Proof.
  revert n; induction l as [|x l IH]; intros [|n] H; simpl in *; try lia.
  rewrite IH by lia. destruct l; simpl in *; lia.
Qed.
Lemma remove_nth_oob n (l : list A) : length l <= n -> remove_nth n l = l.
Proof.
  revert n; induction l as [|x l IH]; intros [|n] H; simpl in *; try lia; try reflexivity.
  now rewrite IH by lia.
Qed.
Lemma In_remove_nth n (l : list A) x : In x (remove_nth n l) -> In x l.
Proof.
  revert n; induction l as [|y l IH]; intros [|n] H; simpl in *; auto.
  destruct H as [H|H]; auto. right; eauto.
Qed.
Lemma NoDup_remove_nth n (l : list A) : NoDup l -> NoDup (remove_nth n l).
Proof.
  revert n; induction l as [|y l IH]; intros [|n] H; simpl; auto.
  - now inversion H.
  - inversion H; subst. constructor; auto. intro Hin. apply In_remove_nth in Hin. contradiction.
Qed.
Lemma nth_error_remove_nth n (l : list A) i :
  nth_error (remove_nth n l) i = if i <? n then nth_error l i else nth_error l (S i).
Proof.
  revert n i; induction l as [|y l IH]; intros n i.
  - destruct n, i; simpl; try match goal with |- _ = (if ?c then _ else _) => destruct c end; reflexivity.
  - destruct n as [|n].
    + simpl. replace (i <? 0) with false by (symmetry; apply Nat.ltb_ge; lia). reflexivity.
    + destruct i as [|i]; simpl.
      * reflexivity.
      * rewrite IH. change (S i <? S n) with (i <? n). reflexivity.
Qed.
Lemma remove_nth_app_mid (l1 l2 : list A) x : remove_nth (length l1) (l1 ++ x :: l2) = l1 ++ l2.
Proof. induction l1; simpl; congruence. Qed.
Lemma In_remove_nth_other n (l : list A) x y :
  nth_error l n = Some y -> In x l -> x <> y -> In x (remove_nth n l).
Proof.
  revert n; induction l as [|z l IH]; intros [|n] Hn Hin Hne; simpl in *; try contradiction.
  - inversion Hn; subst. destruct Hin; congruence.
  - destruct Hin as [->|Hin]; [left; reflexivity | right; eauto].
Qed.
End RemoveNth.

(* ---------------- set_nth *)
Section SetNth.
Context {A : Type}.
Lemma length_set_nth n (x : A) l : length (set_nth n x l) = length l.
Proof. revert n; induction l; intros [|n]; simpl; auto. Qed.
Lemma nth_error_set_nth_eq n (x : A) l : n < length l -> nth_error (set_nth n x l) n = Some x.
Proof. revert n; induction l; intros [|n] H; simpl in *; try lia; auto. apply IHl; lia. Qed.
Lemma nth_error_set_nth_neq n i (x : A) l : i <> n -> nth_error (set_nth n x l) i = nth_error l i.
Proof. revert n i; induction l; intros [|n] [|i] H; simpl; auto; try congruence. Qed.
Lemma set_nth_oob n (x : A) l : length l <= n -> set_nth n x l = l.
Proof. revert n; induction l; intros [|n] H; simpl in *; try lia; auto. now rewrite IHl by lia. Qed.
Lemma In_set_nth n (x y : A) l : In y (set_nth n x l) -> y = x \/ In y l.
Proof.
  revert n; induction l as [|z l IH]; intros [|n] H; simpl in *; auto.
  - destruct H; auto.
  - destruct H as [H|H]; auto. apply IH in H. tauto.
Qed.
Lemma set_nth_app_mid (l1 l2 : list A) x y : set_nth (length l1) y (l1 ++ x :: l2) = l1 ++ y :: l2.
Proof. induction l1; simpl; congruence. Qed.
Lemma set_nth_length_app (l : list A) x y : set_nth (length l) y (l ++ [x]) = l ++ [y].
Proof. apply set_nth_app_mid. Qed.
Lemma In_set_nth_self n (x : A) l : n < length l -> In x (set_nth n x l).
Proof. intro H. eapply nth_error_In. now apply nth_error_set_nth_eq. Qed.
Lemma In_set_nth_other n (x y z : A) l :
  nth_error l n = Some z -> In y l -> y <> z -> In y (set_nth n x l).
Proof.
  revert n; induction l as [|w l IH]; intros [|n] Hn Hin Hne; simpl in *; try contradiction.
  - inversion Hn; subst. destruct Hin; [congruence | now right].
  - destruct Hin as [->|Hin]; [now left | right; eauto].
Qed.
Lemma NoDup_set_nth n (x : A) l : NoDup l -> ~ In x l -> NoDup (set_nth n x l).
Proof.
  revert n; induction l as [|z l IH]; intros [|n] Hnd Hni; simpl; auto.
  - inversion Hnd; subst. constructor; auto. intro; apply Hni; now right.
  - inversion Hnd; subst. constructor.
    + intro Hin. apply In_set_nth in Hin. destruct Hin as [->|Hin]; [apply Hni; now left | contradiction].
    + apply IH; auto. intro; apply Hni; now right.
Qed.
Lemma nth_set_nth_eq n (x d : A) l : n < length l -> nth n (set_nth n x l) d = x.
Proof. intro H. apply nth_error_nth. now apply nth_error_set_nth_eq. Qed.
Lemma nth_set_nth_neq n i (x d : A) l : i <> n -> nth i (set_nth n x l) d = nth i l d.
Proof.
  intro H. pose proof (nth_error_set_nth_neq n i x l H) as E.
  destruct (nth_error l i) eqn:E2.
  - rewrite (nth_error_nth _ _ _ E). symmetry. now apply nth_error_nth.
  - rewrite !nth_overflow; auto. now apply nth_error_None. apply nth_error_None; now rewrite E.
Qed.
End SetNth.

(* ---------------- find_index *)
Section FindIndex.
Context {A : Type}.
Lemma find_index_some (f : A -> bool) l i :
  find_index f l = Some i -> exists x, nth_error l i = Some x /\ f x = true /\
                                       forall j y, j < i -> nth_error l j = Some y -> f y = false.
Proof.
  revert i; induction l as [|y l IH]; intros i H; simpl in *; try discriminate.
  destruct (f y) eqn:E.
  - inversion H; subst. exists y; repeat split; auto. intros; lia.
  - destruct (find_index f l) eqn:E2; simpl in H; try discriminate. inversion H; subst.
    destruct (IH n eq_refl) as [x [H1 [H2 H3]]]. exists x; repeat split; auto.
    intros [|j] z Hj Hz; simpl in Hz. inversion Hz; subst; auto. eapply H3; eauto; lia.
Qed.
Lemma find_index_none (f : A -> bool) l : find_index f l = None -> forall x, In x l -> f x = false.
Proof.
  induction l as [|y l IH]; simpl; intros H x Hin; try contradiction.
  destruct (f y) eqn:E; try discriminate.
  destruct (find_index f l); simpl in H; try discriminate.
  destruct Hin as [->|Hin]; auto.
Qed.
Lemma find_index_first (f : A -> bool) l i x :
  nth_error l i = Some x -> f x = true ->
  (forall j y, j < i -> nth_error l j = Some y -> f y = false) -> find_index f l = Some i.
Proof.
  revert i; induction l as [|y l IH]; intros [|i] Hn Hf Hlt; simpl in *; try discriminate.
  - inversion Hn; subst. now rewrite Hf.
  - rewrite (Hlt 0 y) by (auto; lia). rewrite (IH i); auto.
    intros j z Hj Hz. apply (Hlt (S j) z); auto; lia.
Qed.
End FindIndex.

(* ---------------- erase1 *)
Lemma In_erase1 u l x : In x (erase1 u l) -> In x l.
Proof.
  induction l as [|y l IH]; simpl; auto. destruct (Nat.eqb y u); simpl; auto.
  intros [H|H]; auto.
Qed.
Lemma NoDup_erase1 u l : NoDup l -> NoDup (erase1 u l).
Proof.
  induction l as [|y l IH]; simpl; auto. intro H; inversion H; subst.
  destruct (Nat.eqb y u); auto. constructor; auto. intro Hin; apply In_erase1 in Hin; contradiction.
Qed.
Lemma erase1_not_In u l : NoDup l -> ~ In u (erase1 u l).
Proof.
  induction l as [|y l IH]; simpl; auto. intro H; inversion H; subst.
  destruct (Nat.eqb y u) eqn:E.
  - apply Nat.eqb_eq in E; subst; auto.
  - apply Nat.eqb_neq in E. simpl. intros [Hc|Hc]; [congruence | now apply IH].
Qed.
Lemma In_erase1_other u l x : In x l -> x <> u -> In x (erase1 u l).
Proof.
  induction l as [|y l IH]; simpl; auto. intros [->|H] Hne.
  - destruct (Nat.eqb x u) eqn:E. apply Nat.eqb_eq in E; congruence. now left.
  - destruct (Nat.eqb y u); auto. right; auto.
Qed.
Lemma erase1_id u l : ~ In u l -> erase1 u l = l.
Proof.
  induction l as [|y l IH]; simpl; auto. intro H.
  destruct (Nat.eqb y u) eqn:E. apply Nat.eqb_eq in E; subst. exfalso; apply H; now left.
  f_equal. apply IH. intro; apply H; now right.
Qed.
Lemma length_erase1_le u l : length (erase1 u l) <= length l.
Proof. induction l as [|y l IH]; simpl; auto. destruct (Nat.eqb y u); simpl; lia. Qed.

Lemma NoDup_snoc {A} (l : list A) u : NoDup l -> ~ In u l -> NoDup (l ++ [u]).
Proof.
  induction l as [|y l IH]; simpl; intros Hnd Hni. repeat constructor; auto.
  inversion Hnd; subst. constructor.
  - intro Hin. apply in_app_or in Hin. destruct Hin as [Hin|[Hin|[]]]; [contradiction | subst; apply Hni; now left].
  - apply IH; auto.
Qed.
(* ---------------- pad_set (inside the guard: k <= length l) *)
Lemma pad_set_in_range k u l : k < length l -> pad_set k u l = set_nth k u l.
Proof. intro H. unfold pad_set. replace (length l <=? k) with false; auto. symmetry; apply Nat.leb_gt; lia. Qed.
Lemma pad_set_append u l : pad_set (length l) u l = l ++ [u].
Proof.
  unfold pad_set. rewrite Nat.leb_refl. replace (S (length l) - length l) with 1 by lia. simpl.
  apply set_nth_length_app.
Qed.
Lemma In_pad_set k u l x : k <= length l -> In x (pad_set k u l) -> x = u \/ In x l.
Proof.
  intros Hk H. destruct (Nat.eq_dec k (length l)) as [->|Hne].
  - rewrite pad_set_append in H. apply in_app_or in H. destruct H as [H|[H|[]]]; auto.
  - rewrite pad_set_in_range in H by lia. now apply In_set_nth in H.
Qed.
Lemma In_pad_set_self k u l : In u (pad_set k u l).
Proof.
  unfold pad_set. apply In_set_nth_self.
  destruct (length l <=? k) eqn:E.
  - apply Nat.leb_le in E. rewrite app_length, repeat_length. lia.
  - apply Nat.leb_gt in E. lia.
Qed.
Lemma NoDup_pad_set k u l : k <= length l -> NoDup l -> ~ In u l -> NoDup (pad_set k u l).
Proof.
  intros Hk Hnd Hni. destruct (Nat.eq_dec k (length l)) as [->|Hne].
  - rewrite pad_set_append. apply NoDup_snoc; auto.
  - rewrite pad_set_in_range by lia. now apply NoDup_set_nth.
Qed.
Lemma length_pad_set k u l : length (pad_set k u l) = Nat.max (length l) (S k).
Proof.
  unfold pad_set. rewrite length_set_nth. destruct (length l <=? k) eqn:E.
  - apply Nat.leb_le in E. rewrite app_length, repeat_length. lia.
  - apply Nat.leb_gt in E. lia.
Qed.

(* ---------------- live_list *)
Lemma live_list_app l1 l2 : live_list (l1 ++ l2) = live_list l1 ++ live_list l2.
Proof. unfold live_list. apply flat_map_app. Qed.
Lemma live_list_map_some (f : nat -> nat) l : live_list (map (fun i => Some (f i)) l) = map f l.
Proof. induction l; simpl; congruence. Qed.
Lemma live_list_map_shift c l :
  live_list (map (shift_col c) l) = map (fun c' => if c' <? c then c' else c' - 1) (live_list l).
Proof.
  induction l as [|[c'|] l IH]; simpl; auto.
  destruct (c' <? c); simpl; now rewrite IH.
Qed.
Lemma In_live_list l c : In c (live_list l) <-> exists u, nth_error l u = Some (Some c).
Proof.
  induction l as [|[c'|] l IH]; simpl.
  - split; [tauto | intros [[|u] H]; discriminate].
  - split.
    + intros [->|H]. exists 0; reflexivity. apply IH in H. destruct H as [u H]. exists (S u); auto.
    + intros [[|u] H]; simpl in H. inversion H; auto. right. apply IH. eauto.
  - split.
    + intro H. apply IH in H. destruct H as [u H]. exists (S u); auto.
    + intros [[|u] H]; simpl in H; try discriminate. apply IH. eauto.
Qed.
Lemma live_list_inj l u1 u2 c :
  NoDup (live_list l) -> nth_error l u1 = Some (Some c) -> nth_error l u2 = Some (Some c) -> u1 = u2.
Proof.
  revert u1 u2; induction l as [|[c'|] l IH]; intros [|u1] [|u2] Hnd H1 H2; simpl in *; try discriminate; auto.
  - inversion H1; subst. inversion Hnd; subst. exfalso. apply H3. apply In_live_list. eauto.
  - inversion H2; subst. inversion Hnd; subst. exfalso. apply H3. apply In_live_list. eauto.
  - inversion Hnd; subst. f_equal. eauto.
Qed.

Lemma app_inj_length {A} (a b c d : list A) : a ++ b = c ++ d -> length a = length c -> a = c /\ b = d.
Proof.
  revert c; induction a as [|x a IH]; intros [|y c] H Hl; simpl in *; try discriminate; auto.
  inversion H; subst. destruct (IH c H2) as [-> ->]; auto.
Qed.
(* splitting an enumeration 0..n-1 at an element *)
Lemma seq_split_at l1 l2 c n :
  l1 ++ c :: l2 = seq 0 n -> l1 = seq 0 c /\ l2 = seq (S c) (n - S c) /\ c < n.
Proof.
  intro H.
  assert (Hlen : length l1 + S (length l2) = n).
  { apply (f_equal (@length nat)) in H. rewrite app_length, seq_length in H. simpl in H. lia. }
  assert (Hc : c = length l1).
  { assert (E : nth (length l1) (l1 ++ c :: l2) 0 = nth (length l1) (seq 0 n) 0) by now rewrite H.
    rewrite app_nth2, Nat.sub_diag in E by lia. simpl in E. rewrite seq_nth in E by lia. simpl in E. exact E. }
  assert (Hs : seq 0 n = seq 0 c ++ c :: seq (S c) (n - S c)).
  { replace n with (c + S (n - S c)) at 1 by lia. rewrite seq_app. simpl. reflexivity. }
  rewrite Hs in H. apply app_inj_length in H.
  - destruct H as [H1 H2]. inversion H2; subst. repeat split; auto; lia.
  - rewrite seq_length. lia.
Qed.
Lemma map_shift_low c n :
  n <= c -> map (fun c' => if c' <? c then c' else c' - 1) (seq 0 n) = seq 0 n.
Proof.
  intro H. rewrite <- (map_id (seq 0 n)) at 2. apply map_ext_in. intros a Ha. apply in_seq in Ha.
  replace (a <? c) with true; auto. symmetry; apply Nat.ltb_lt; lia.
Qed.
Lemma map_shift_high c m : map (fun c' => if c' <? c then c' else c' - 1) (seq (S c) m) = seq c m.
Proof.
  rewrite <- (seq_shift m c), map_map. rewrite <- (map_id (seq c m)) at 2. apply map_ext_in.
  intros a Ha. apply in_seq in Ha. replace (S a <? c) with false. lia. symmetry; apply Nat.ltb_ge; lia.
Qed.
Lemma map_add_seq nc a n : map (fun i => nc + i) (seq a n) = seq (nc + a) n.
Proof.
  revert a; induction n as [|n IH]; intro a; simpl; auto.
  rewrite IH. now rewrite Nat.add_succ_r.
Qed.
Lemma NoDup_app_intro {A} (l1 l2 : list A) :
  NoDup l1 -> NoDup l2 -> (forall x, In x l1 -> In x l2 -> False) -> NoDup (l1 ++ l2).
Proof.
  induction l1 as [|y l1 IH]; simpl; intros H1 H2 Hd; auto.
  inversion H1; subst. constructor.
  - intro Hin. apply in_app_or in Hin. destruct Hin as [Hin|Hin]; [contradiction | eapply Hd; eauto].
  - apply IH; auto. intros x Hx1 Hx2. eapply Hd; eauto.
Qed.
Lemma NoDup_nth_error_inj {A} (l : list A) i j x :
  NoDup l -> nth_error l i = Some x -> nth_error l j = Some x -> i = j.
Proof.
  intros H Hi Hj. apply (proj1 (NoDup_nth_error l) H). apply nth_error_Some; congruence. congruence.
Qed.
Lemma filter_map_length {A B} (f : B -> bool) (g : A -> B) l :
  length (filter f (map g l)) = length (filter (fun x => f (g x)) l).
Proof. induction l as [|x l IH]; simpl; auto. destruct (f (g x)); simpl; auto. Qed.
Definition is_some_some (o : option (option nat)) : bool :=
  match o with Some (Some _) => true | _ => false end.
Lemma live_count uc :
  length (filter (fun u => is_some_some (nth_error uc u)) (seq 0 (length uc))) = length (live_list uc).
Proof.
  induction uc as [|o l IH]; simpl; auto.
  rewrite <- seq_shift.
  destruct o as [c|]; simpl; rewrite filter_map_length; simpl; rewrite IH; reflexivity.
Qed.

(* C14 / part vdc: proofs about the Van der Corput loop of CalcSimuTurningBands::_generateDirections
   (/repo/src/Simulation/CalcSimuTurningBands.cpp:139-158).  All statements are for every base b >= 2 and every n. *)
From Coq Require Import List ZArith QArith Qround Lia Lqa.
From Gst Require Import C14.VdC.
Import ListNotations.

(* ------------------------------------------------------------------ powers *)
Lemma bpow_0 b : bpow b 0 = 1%Z.
Proof. reflexivity. Qed.
Lemma bpow_S b k : bpow b (S k) = (b * bpow b k)%Z.
Proof. unfold bpow. rewrite Nat2Z.inj_succ, Z.pow_succ_r by lia. reflexivity. Qed.
Lemma bpow_1 b : bpow b 1 = b.
Proof. unfold bpow. simpl Z.of_nat. apply Z.pow_1_r. Qed.
Lemma bpow_add b k j : bpow b (k + j) = (bpow b k * bpow b j)%Z.
Proof. unfold bpow. rewrite Nat2Z.inj_add, Z.pow_add_r by lia. reflexivity. Qed.
Lemma bpow_pos b k : (0 < b)%Z -> (0 < bpow b k)%Z.
Proof. intro H. unfold bpow. apply Z.pow_pos_nonneg; lia. Qed.
Lemma bpow_gt b n : (2 <= b)%Z -> (0 <= n)%Z -> (n < bpow b (Z.to_nat n))%Z.
Proof. intros Hb Hn. unfold bpow. rewrite Z2Nat.id by lia. apply Z.pow_gt_lin_r; lia. Qed.

Lemma injZ_pos z : (0 < z)%Z -> 0 < inject_Z z.
Proof. intro H. rewrite Zlt_Qlt in H. exact H. Qed.
Lemma injZ_nonneg z : (0 <= z)%Z -> 0 <= inject_Z z.
Proof. intro H. rewrite Zle_Qle in H. exact H. Qed.

(* ------------------------------------------------------------------ digit reversal on Z *)
Lemma rev_S b k n : rev b (S k) n = ((n mod b) * bpow b k + rev b k (n / b))%Z.
Proof. reflexivity. Qed.

Lemma rev_range b k : (2 <= b)%Z -> forall n, (0 <= rev b k n < bpow b k)%Z.
Proof.
  intro Hb. induction k as [|k IH]; intro n.
  - simpl. rewrite bpow_0. lia.
  - rewrite rev_S, bpow_S.
    pose proof (Z.mod_pos_bound n b ltac:(lia)) as Hm.
    pose proof (IH (n / b)%Z) as Hr.
    pose proof (bpow_pos b k ltac:(lia)) as Hp. nia.
Qed.

Lemma rev_0 b k : (2 <= b)%Z -> rev b k 0 = 0%Z.
Proof.
  intro Hb. induction k as [|k IH]; [reflexivity|].
  rewrite rev_S, Z.mod_0_l, Z.div_0_l, IH by lia. reflexivity.
Qed.

(* the reversal of (low k digits, then the digits of hi) is (reversal of hi's j digits, after the reversed low digits) *)
Lemma rev_split b : (2 <= b)%Z -> forall k j lo hi, (0 <= lo < bpow b k)%Z ->
  rev b (k + j) (lo + bpow b k * hi) = (bpow b j * rev b k lo + rev b j hi)%Z.
Proof.
  intro Hb. induction k as [|k IH]; intros j lo hi Hlo.
  - rewrite bpow_0 in *. assert (lo = 0%Z) by lia. subst lo. change (0 + j)%nat with j. cbn [rev].
    replace (0 + 1 * hi)%Z with hi by lia. lia.
  - rewrite bpow_S in Hlo. change (S k + j)%nat with (S (k + j)). rewrite rev_S.
    replace (lo + bpow b (S k) * hi)%Z with (lo + (bpow b k * hi) * b)%Z by (rewrite bpow_S; ring).
    rewrite Z_mod_plus_full, Z.div_add by lia.
    rewrite IH.
    + rewrite rev_S, bpow_add. ring.
    + split; [apply Z.div_pos; lia | apply Z.div_lt_upper_bound; lia].
Qed.

Lemma rev_stable b : (2 <= b)%Z -> forall k j n, (0 <= n < bpow b k)%Z ->
  rev b (k + j) n = (bpow b j * rev b k n)%Z.
Proof.
  intros Hb k j n Hn. replace n with (n + bpow b k * 0)%Z at 1 by lia.
  rewrite rev_split, rev_0 by assumption. lia.
Qed.

Lemma rev_involutive b : (2 <= b)%Z -> forall k n, (0 <= n < bpow b k)%Z -> rev b k (rev b k n) = n.
Proof.
  intro Hb. induction k as [|k IH]; intros n Hn.
  - rewrite bpow_0 in Hn. simpl. lia.
  - rewrite bpow_S in Hn. rewrite (rev_S b k n).
    replace (S k) with (k + 1)%nat by lia.
    replace ((n mod b) * bpow b k + rev b k (n / b))%Z with (rev b k (n / b) + bpow b k * (n mod b))%Z by ring.
    rewrite rev_split by (try assumption; apply rev_range; assumption).
    rewrite IH by (split; [apply Z.div_pos; lia | apply Z.div_lt_upper_bound; lia]).
    change (rev b 1 (n mod b)) with (((n mod b) mod b) * bpow b 0 + 0)%Z.
    rewrite bpow_0, bpow_1, Z.mod_mod by lia.
    pose proof (Z.div_mod n b ltac:(lia)). lia.
Qed.

Lemma rev_range_involutive b : (2 <= b)%Z -> forall k n, (0 <= n < bpow b k)%Z ->
  (0 <= rev b k n < bpow b k)%Z /\ rev b k (rev b k n) = n.
Proof. intros Hb k n Hn. split; [apply rev_range; exact Hb | apply rev_involutive; assumption]. Qed.

Lemma rev_injective b : (2 <= b)%Z -> forall k n n', (0 <= n < bpow b k)%Z -> (0 <= n' < bpow b k)%Z ->
  rev b k n = rev b k n' -> n = n'.
Proof.
  intros Hb k n n' Hn Hn' E.
  rewrite <- (rev_involutive b Hb k n Hn), <- (rev_involutive b Hb k n' Hn'), E. reflexivity.
Qed.

Lemma rev_pos b : (2 <= b)%Z -> forall k n, (0 < n < bpow b k)%Z -> (0 < rev b k n)%Z.
Proof.
  intros Hb k n Hn. pose proof (rev_range b k Hb n) as Hr.
  destruct (Z.eq_dec (rev b k n) 0) as [E|E]; [|lia].
  pose proof (rev_involutive b Hb k n ltac:(lia)) as Hi. rewrite E, rev_0 in Hi by assumption. lia.
Qed.

(* digit i of the reversal = digit k-1-i of n: rev is THE k-digit reversal *)
Lemma digit_rev b : (2 <= b)%Z -> forall k n i, (0 <= n)%Z -> (i < k)%nat ->
  digit b (rev b k n) i = digit b n (k - 1 - i).
Proof.
  intro Hb. induction k as [|k IH]; intros n i Hn Hi; [lia|].
  unfold digit. rewrite rev_S.
  pose proof (rev_range b k Hb (n / b)%Z) as Hr.
  pose proof (bpow_pos b k ltac:(lia)) as Hp.
  destruct (Nat.eq_dec i k) as [->|Hne].
  - replace (S k - 1 - k)%nat with 0%nat by lia. rewrite bpow_0, Z.div_1_r.
    rewrite Z.add_comm, Z.div_add, Z.div_small, Z.add_0_l, Z.mod_mod by lia. reflexivity.
  - assert (Hik : (i < k)%nat) by lia.
    replace (S k - 1 - i)%nat with (S (k - 1 - i)) by lia.
    rewrite bpow_S, <- Z.div_div by (try apply bpow_pos; lia).
    specialize (IH (n / b)%Z i ltac:(apply Z.div_pos; lia) Hik). unfold digit in IH. rewrite <- IH.
    replace k with (i + S (k - 1 - i))%nat at 1 by lia.
    rewrite bpow_add, bpow_S.
    replace (n mod b * (bpow b i * (b * bpow b (k - 1 - i))))%Z with ((n mod b * bpow b (k - 1 - i) * b) * bpow b i)%Z by ring.
    rewrite Z.add_comm, Z.div_add by (pose proof (bpow_pos b i); lia).
    rewrite Z_mod_plus_full. reflexivity.
Qed.

(* ------------------------------------------------------------------ the loop computes rev / b^f *)
Lemma vdc_loop_rev b : (2 <= b)%Z -> forall F n d x f,
  (0 <= n < 2 ^ Z.of_nat F)%Z -> (n < bpow b f)%Z -> 0 < d ->
  exists y, vdc_loop F b n d x = Some y /\
            y == x + (inject_Z b / d) * (inject_Z (rev b f n) / inject_Z (bpow b f)).
Proof.
  intro Hb. induction F as [|F IH]; intros n d x f Hn Hf Hd.
  - simpl in Hn. assert (n = 0%Z) by lia. subst n. exists x. split; [reflexivity|].
    rewrite rev_0 by assumption. change (inject_Z 0) with 0. unfold Qdiv. ring.
  - cbn [vdc_loop]. destruct (n >? 0)%Z eqn:E.
    + apply Z.gtb_lt in E.
      destruct f as [|f]; [rewrite bpow_0 in Hf; lia|].
      rewrite Z.quot_div_nonneg, Z.rem_mod_nonneg by lia.
      rewrite bpow_S in Hf. rewrite Nat2Z.inj_succ, Z.pow_succ_r in Hn by lia.
      pose proof (bpow_pos b f ltac:(lia)) as Hp.
      assert (HB : 0 < inject_Z b) by (apply injZ_pos; lia).
      destruct (IH (n / b)%Z (d * inject_Z b) (x + inject_Z (n mod b) / d) f) as [y [Ey Hy]].
      * split; [apply Z.div_pos; lia | apply Z.div_lt_upper_bound; nia].
      * apply Z.div_lt_upper_bound; lia.
      * nra.
      * exists y. split; [exact Ey|]. rewrite Hy, rev_S, bpow_S.
        rewrite inject_Z_plus, !inject_Z_mult.
        pose proof (injZ_pos _ Hp) as HP.
        set (P := inject_Z (bpow b f)) in *. set (B := inject_Z b) in *. clearbody P B.
        field. repeat split; lra.
    + rewrite Z.gtb_ltb in E. apply Z.ltb_ge in E. assert (n = 0%Z) by lia. subst n.
      exists x. split; [reflexivity|]. rewrite rev_0 by assumption. change (inject_Z 0) with 0. unfold Qdiv. ring.
Qed.

Lemma vdc_fuel_bound n : (0 <= n)%Z -> (0 <= n < 2 ^ Z.of_nat (vdc_fuel n))%Z.
Proof.
  intro Hn. unfold vdc_fuel. rewrite Nat2Z.inj_succ, Z2Nat.id by apply Z.log2_nonneg.
  destruct (Z.eq_dec n 0) as [->|Hne]; [simpl; lia|].
  pose proof (Z.log2_spec n ltac:(lia)). lia.
Qed.

(* the fuel is enough: the loop exits with n = 0 (for a base >= 2, whatever n) *)
Lemma vdc_loop_fuel_enough b n : (2 <= b)%Z ->
  exists y, vdc_loop (vdc_fuel n) b n (inject_Z b) 0 = Some y.
Proof.
  intro Hb. destruct (Z_lt_le_dec n 0) as [Hneg|Hn].
  - exists 0. unfold vdc_fuel. cbn [vdc_loop]. destruct (n >? 0)%Z eqn:E; [apply Z.gtb_lt in E; lia|reflexivity].
  - destruct (vdc_loop_rev b Hb (vdc_fuel n) n (inject_Z b) 0 (Z.to_nat n)) as [y [Ey _]].
    + apply vdc_fuel_bound; assumption.
    + apply bpow_gt; assumption.
    + apply injZ_pos; lia.
    + exists y; exact Ey.
Qed.

(* a value of n <= 0 (never produced by the C++: n = 1 + ibs >= 1) gives 0: the loop body is not entered *)
Lemma vdc_nonpos b n : (n <= 0)%Z -> vdc b n = 0.
Proof.
  intro Hn. unfold vdc, vdc_fuel. cbn [vdc_loop].
  destruct (n >? 0)%Z eqn:E; [apply Z.gtb_lt in E; lia|reflexivity].
Qed.

Lemma vdc_eq_rev b n f : (2 <= b)%Z -> (0 <= n < bpow b f)%Z ->
  vdc b n == inject_Z (rev b f n) / inject_Z (bpow b f).
Proof.
  intros Hb Hn. unfold vdc.
  assert (HB : 0 < inject_Z b) by (apply injZ_pos; lia).
  destruct (vdc_loop_rev b Hb (vdc_fuel n) n (inject_Z b) 0 f) as [y [Ey Hy]].
  - apply vdc_fuel_bound; lia.
  - lia.
  - exact HB.
  - rewrite Ey, Hy. pose proof (injZ_pos _ (bpow_pos b f ltac:(lia))) as HP.
    set (P := inject_Z (bpow b f)) in *. set (B := inject_Z b) in *. clearbody P B. field. split; lra.
Qed.

(* ------------------------------------------------------------------ closed form: sum of digit_i b^-(i+1) *)
Lemma radinv_sum_S b n k :
  radinv_sum b n (S k) = radinv_sum b n k + inject_Z (digit b n k) / inject_Z (bpow b (S k)).
Proof. reflexivity. Qed.

Lemma digit_S b n i : (2 <= b)%Z -> digit b n (S i) = digit b (n / b) i.
Proof.
  intro Hb. unfold digit. rewrite bpow_S, Z.div_div by (try apply bpow_pos; lia). reflexivity.
Qed.

Lemma radinv_sum_shift b : (2 <= b)%Z -> forall k n,
  radinv_sum b n (S k) == (inject_Z (n mod b) + radinv_sum b (n / b) k) / inject_Z b.
Proof.
  intro Hb. assert (HB : 0 < inject_Z b) by (apply injZ_pos; lia).
  induction k as [|k IH]; intro n.
  - rewrite radinv_sum_S. cbn [radinv_sum]. unfold digit. rewrite bpow_0, bpow_1, Z.div_1_r. field. lra.
  - rewrite radinv_sum_S, IH, digit_S, (radinv_sum_S b (n / b)) by assumption.
    rewrite (bpow_S b (S k)), inject_Z_mult.
    pose proof (injZ_pos _ (bpow_pos b (S k) ltac:(lia))) as HP.
    set (P := inject_Z (bpow b (S k))) in *. set (B := inject_Z b) in *. clearbody P B. field. split; lra.
Qed.

Lemma radinv_sum_rev b : (2 <= b)%Z -> forall k n,
  radinv_sum b n k == inject_Z (rev b k n) / inject_Z (bpow b k).
Proof.
  intro Hb. assert (HB : 0 < inject_Z b) by (apply injZ_pos; lia).
  induction k as [|k IH]; intro n.
  - simpl. reflexivity.
  - rewrite radinv_sum_shift, IH, rev_S, bpow_S by assumption.
    rewrite inject_Z_plus, !inject_Z_mult.
    pose proof (injZ_pos _ (bpow_pos b k ltac:(lia))) as HP.
    set (P := inject_Z (bpow b k)) in *. set (B := inject_Z b) in *. clearbody P B. field. split; lra.
Qed.

(* THEOREM 1 *)
Lemma vdc_closed_form b n k : (2 <= b)%Z -> (0 <= n < bpow b k)%Z -> vdc b n == radinv_sum b n k.
Proof. intros Hb Hn. rewrite radinv_sum_rev by assumption. apply vdc_eq_rev; assumption. Qed.

(* digits beyond the length of n are 0: any k with n < b^k gives the same sum *)
Lemma digit_high b n k i : (2 <= b)%Z -> (0 <= n < bpow b k)%Z -> (k <= i)%nat -> digit b n i = 0%Z.
Proof.
  intros Hb Hn Hi. unfold digit. replace i with (k + (i - k))%nat by lia. rewrite bpow_add.
  pose proof (bpow_pos b (i - k) ltac:(lia)) as Hp.
  rewrite Z.div_small; [apply Z.mod_0_l; lia|]. nia.
Qed.

(* ------------------------------------------------------------------ THEOREM 2: range *)
Lemma vdc_range b n : (2 <= b)%Z -> (0 <= n)%Z -> 0 <= vdc b n < 1.
Proof.
  intros Hb Hn. pose proof (bpow_gt b n Hb Hn) as Hf.
  rewrite (vdc_eq_rev b n (Z.to_nat n)) by (try assumption; lia).
  pose proof (rev_range b (Z.to_nat n) Hb n) as [H0 H1].
  pose proof (injZ_pos _ (bpow_pos b (Z.to_nat n) ltac:(lia))) as HP.
  split.
  - apply Qle_shift_div_l; [exact HP|]. rewrite Qmult_0_l. apply injZ_nonneg; exact H0.
  - apply Qlt_shift_div_r; [exact HP|]. rewrite Qmult_1_l. rewrite <- Zlt_Qlt. exact H1.
Qed.

Lemma vdc_pos b n : (2 <= b)%Z -> (1 <= n)%Z -> 0 < vdc b n.
Proof.
  intros Hb Hn. pose proof (bpow_gt b n Hb ltac:(lia)) as Hf.
  rewrite (vdc_eq_rev b n (Z.to_nat n)) by (try assumption; lia).
  pose proof (rev_pos b Hb (Z.to_nat n) n ltac:(lia)) as H0.
  pose proof (injZ_pos _ (bpow_pos b (Z.to_nat n) ltac:(lia))) as HP.
  apply Qlt_shift_div_l; [exact HP|]. rewrite Qmult_0_l. apply injZ_pos; exact H0.
Qed.

(* the values used by the C++: n = 1 + ibs, p = id + 2, ibs >= 0, id in {0,1}: strictly inside (0,1) *)
Lemma vdc_x_range id ibs : (0 <= id)%Z -> (0 <= ibs)%Z -> 0 < vdc_x id ibs < 1.
Proof.
  intros Hid Hibs. unfold vdc_x. split.
  - apply vdc_pos; lia.
  - apply vdc_range; lia.
Qed.

(* two different indices never give the same term *)
Lemma vdc_injective b n m : (2 <= b)%Z -> (0 <= n)%Z -> (0 <= m)%Z -> vdc b n == vdc b m -> n = m.
Proof.
  intros Hb Hn Hm E. set (f := Z.to_nat (Z.max n m)).
  pose proof (bpow_gt b (Z.max n m) Hb ltac:(lia)) as Hf. fold f in Hf.
  pose proof (injZ_pos _ (bpow_pos b f ltac:(lia))) as HP.
  rewrite (vdc_eq_rev b n f), (vdc_eq_rev b m f) in E by (try assumption; lia).
  assert (E' : inject_Z (rev b f n) == inject_Z (rev b f m)).
  { set (P := inject_Z (bpow b f)) in *. clearbody P.
    assert (E1 : inject_Z (rev b f n) == inject_Z (rev b f n) / P * P) by (field; lra).
    assert (E2 : inject_Z (rev b f m) == inject_Z (rev b f m) / P * P) by (field; lra).
    rewrite E1, E2, E. reflexivity. }
  apply (rev_injective b Hb f); try lia.
  unfold Qeq in E'. simpl in E'. lia.
Qed.

(* ------------------------------------------------------------------ THEOREM 3: digit-reversal structure *)
Lemma vdc_split b k n m : (2 <= b)%Z -> (0 <= n < bpow b k)%Z -> (0 <= m)%Z ->
  vdc b (n + bpow b k * m) == vdc b n + vdc b m / inject_Z (bpow b k).
Proof.
  intros Hb Hn Hm. set (j := Z.to_nat m).
  pose proof (bpow_gt b m Hb Hm) as Hj. fold j in Hj.
  pose proof (bpow_pos b k ltac:(lia)) as Hpk. pose proof (bpow_pos b j ltac:(lia)) as Hpj.
  rewrite (vdc_eq_rev b (n + bpow b k * m) (k + j)) by (try assumption; rewrite bpow_add; nia).
  rewrite (vdc_eq_rev b n k), (vdc_eq_rev b m j) by (try assumption; lia).
  rewrite rev_split, bpow_add by assumption.
  rewrite inject_Z_plus, !inject_Z_mult.
  pose proof (injZ_pos _ Hpk) as HPk. pose proof (injZ_pos _ Hpj) as HPj.
  set (Pk := inject_Z (bpow b k)) in *. set (Pj := inject_Z (bpow b j)) in *. clearbody Pk Pj. field. split; lra.
Qed.

Lemma Qfloor_unique x z : inject_Z z <= x -> x < inject_Z (z + 1) -> Qfloor x = z.
Proof.
  intros H1 H2.
  pose proof (Qfloor_resp_le _ _ H1) as Ha. rewrite Qfloor_Z in Ha.
  pose proof (Qfloor_le x) as Hb.
  assert (Hc : inject_Z (Qfloor x) < inject_Z (z + 1)) by lra.
  rewrite <- Zlt_Qlt in Hc. lia.
Qed.

(* floor (b^k x_n) depends only on n mod b^k and is its k-digit reversal *)
Lemma bucket_eq b k n : (2 <= b)%Z -> (0 <= n)%Z -> bucket b k n = rev b k (n mod bpow b k).
Proof.
  intros Hb Hn. unfold bucket.
  pose proof (bpow_pos b k ltac:(lia)) as Hp.
  remember (n mod bpow b k)%Z as lo eqn:Elo. remember (n / bpow b k)%Z as hi eqn:Ehi.
  assert (Hlo : (0 <= lo < bpow b k)%Z) by (subst lo; apply Z.mod_pos_bound; lia).
  assert (Hhi : (0 <= hi)%Z) by (subst hi; apply Z.div_pos; lia).
  assert (En : n = (lo + bpow b k * hi)%Z) by (subst lo hi; pose proof (Z.div_mod n (bpow b k)); lia).
  rewrite En.
  pose proof (vdc_range b hi Hb Hhi) as [Hr0 Hr1].
  assert (E : inject_Z (bpow b k) * vdc b (lo + bpow b k * hi) == inject_Z (rev b k lo) + vdc b hi).
  { rewrite vdc_split by assumption. rewrite (vdc_eq_rev b lo k) by assumption.
    pose proof (injZ_pos _ Hp) as HP. set (P := inject_Z (bpow b k)) in *. clearbody P. field. lra. }
  apply Qfloor_unique; rewrite E; [|rewrite inject_Z_plus; change (inject_Z 1) with 1]; lra.
Qed.

Lemma bucket_range b k n : (2 <= b)%Z -> (0 <= n)%Z -> (0 <= bucket b k n < bpow b k)%Z.
Proof. intros Hb Hn. rewrite bucket_eq by assumption. apply rev_range; assumption. Qed.

(* the bucket is the index of the b-adic interval that contains x_n *)
Lemma bucket_interval b k n j : (2 <= b)%Z -> (0 <= n)%Z ->
  (bucket b k n = j <->
   inject_Z j / inject_Z (bpow b k) <= vdc b n < inject_Z (j + 1) / inject_Z (bpow b k)).
Proof.
  intros Hb Hn. unfold bucket.
  pose proof (injZ_pos _ (bpow_pos b k ltac:(lia))) as HP.
  set (P := inject_Z (bpow b k)) in *. set (x := vdc b n).
  split.
  - intros <-. pose proof (Qfloor_le (P * x)) as H1. pose proof (Qlt_floor (P * x)) as H2. split.
    + apply Qle_shift_div_r; [exact HP|]. lra.
    + apply Qlt_shift_div_l; [exact HP|]. lra.
  - intros [H1 H2]. apply Qfloor_unique.
    + assert (E1 : inject_Z j == inject_Z j / P * P) by (field; lra).
      assert (E2 : inject_Z j / P * P <= x * P) by (apply Qmult_le_compat_r; lra). lra.
    + assert (E1 : inject_Z (j + 1) == inject_Z (j + 1) / P * P) by (field; lra).
      assert (E2 : x * P < inject_Z (j + 1) / P * P) by (apply Qmult_lt_compat_r; lra). lra.
Qed.

(* ------------------------------------------------------------------ direction after the Van der Corput step *)
Section Direction.
  Variables c s q x1 : Q.
  Hypothesis Hcs : c * c + s * s == 1.          (* cos^2 + sin^2 = 1 *)
  Hypothesis Hq : q * q == 1 - x1 * x1.         (* q = sqrt (1 - x1^2) *)
  Lemma tb_dir_unit : norm2 (tb_dir c s q x1) == 1.
  Proof.
    unfold norm2, tb_dir.
    setoid_replace (c * q * (c * q) + s * q * (s * q) + x1 * x1) with ((c * c + s * s) * (q * q) + x1 * x1) by ring.
    rewrite Hcs, Hq. ring.
  Qed.
End Direction.

(* the third direction cosine (before the random rotation) is x[1] = vdc_x 1 ibs, strictly between 0 and 1:
   every generated direction lies in the open upper hemisphere z > 0 and none is the pole or on the equator *)
Lemma tb_dir_upper c s q ibs : (0 <= ibs)%Z -> 0 < dir_z (tb_dir c s q (vdc_x 1 ibs)) < 1.
Proof. intro H. unfold dir_z, tb_dir. cbn [snd]. apply vdc_x_range; lia. Qed.

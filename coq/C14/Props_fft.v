(* C14 part fft: theorems (merged into coq/C14/Properties.v by the C14 builder; edit HERE, not in Properties.v) *)
From Coq Require List ZArith QArith Znumtheory Bool Lia.
From Gst Require C14.FFT C14.Proofs_fft_ops C14.Proofs_fft_sym C14.Proofs_fft_layout C14.Proofs_fft_misc C14.Proofs_fft_opt.
Import List ZArith QArith Znumtheory Bool Lia.
Import C14.FFT C14.Proofs_fft_ops C14.Proofs_fft_sym C14.Proofs_fft_layout C14.Proofs_fft_misc C14.Proofs_fft_opt.
Import ListNotations.
Local Open Scope Z_scope.
(* C14 / part fft : the theorems (index algebra of CalcSimuFFT.cpp, coefficient of SimuSpectral.cpp). *)





(* ---- 1. _getFactors / _getOptimalEvenNumber ---- *)

(* _getFactors(number), number >= 1, terminates (with the model's fuel) and returns the exact prime factorisation
   (the list [1] for number = 1); every entry divides the number and is 1, 2 or an odd number >= 3. *)
Theorem C14_fft_factors_exact : forall number, 1 <= number ->
  exists fs, get_factors number = Some fs /\ list_prod fs = number /\
    (number = 1 /\ fs = [1] \/ 2 <= number /\ Forall prime fs) /\
    (forall f, In f fs -> (f | number) /\ (f = 1 \/ f = 2 \/ (3 <= f /\ Z.odd f = true))).
Proof. exact get_factors_spec. Qed.

(* _getFactors(0) never terminates in the C++ (0 % 2 == 0 for ever): the model exhausts any fuel. Not reachable from _alloc:
   the argument is _shift[i] + nx[i] >= 1, incremented to an even number >= 2. *)
Theorem C14_fft_factors_zero_diverges : get_factors 0 = None /\ forall fuel j acc, div_out fuel j 0 acc = None.
Proof. split; [exact get_factors_zero|exact div_out_zero]. Qed.

(* _getOptimalEvenNumber(number, largeFactor), number >= 1, largeFactor >= 2: terminates, result even, number <= r < 2 number + 2,
   accepted with its exact prime factorisation, every prime divisor <= largeFactor, and every smaller even candidate has a
   prime factor > largeFactor (r is the smallest smooth even number >= number). *)
Theorem C14_fft_optimal_even : forall number large, 1 <= number -> 2 <= large ->
  exists r, get_optimal_even number large = Some r /\
    Z.even r = true /\ number <= r < 2 * number + 2 /\
    accepted large r /\
    (forall p, prime p -> (p | r) -> p <= large) /\
    (forall m, number <= m < r -> Z.even m = true -> rejected large m).
Proof. exact get_optimal_even_spec. Qed.
Print Assumptions C14_fft_optimal_even.
Example C14_fft_optimal_even_nonvacuous : get_optimal_even 23 11 = Some 24 /\ get_optimal_even 26 11 = Some 28 /\ get_factors 360 = Some [2; 2; 2; 3; 3; 5].
Proof. vm_compute. auto. Qed.

(* the dimensions computed by _alloc satisfy the hypothesis of the symmetry theorems *)
Theorem C14_fft_alloc_dims_good : forall a b c, 1 <= a -> 1 <= b -> 1 <= c ->
  exists ra rb rc, get_optimal_even a 11 = Some ra /\ get_optimal_even b 11 = Some rb /\ get_optimal_even c 11 = Some rc /\
    good_dims 3 (mkD ra rb rc) /\ good_dims 2 (mkD ra rb 1) /\ good_dims 1 (mkD ra 1 1).
Proof. exact alloc_dims_good. Qed.

(* ---- 2. wrap map and negation map ---- *)

(* neg is an involution of [0,d) *)
Theorem C14_fft_neg_involution : forall d x, 0 <= x < d -> 0 <= neg1 d x < d /\ neg1 d (neg1 d x) = x.
Proof. intros d x H. split; [apply neg1_range|apply neg1_invol]; exact H. Qed.

(* the wrapped lag of the opposite index is the opposite lag, except at the Nyquist index d/2 where both are +d/2 *)
Theorem C14_fft_wrap_negation : forall d h, ev d h ->
  (forall x, 0 <= x < d -> x <> h -> jnd d h (neg1 d x) = - jnd d h x) /\ neg1 d h = h /\ jnd d h h = h.
Proof. intros d h He. split; [intros x Hx Hn; apply jnd_neg; assumption|apply jnd_nyquist; exact He]. Qed.
Example C14_fft_wrap_negation_nonvacuous : ev 6 3 /\ map (jnd 6 3) [0;1;2;3;4;5] = [0;1;2;3;-2;-1] /\ map (neg1 6) [0;1;2;3;4;5] = [0;5;4;3;2;1].
Proof. vm_compute. repeat split; congruence. Qed.

(* 1-D: the periodic covariance array of an even covariance is even, Nyquist index included *)
Theorem C14_fft_cper_even_1d : forall (A : Type) (f : Z -> A) d h x,
  (forall t, f (- t) = f t) -> ev d h -> 0 <= x < d -> f (jnd d h (neg1 d x)) = f (jnd d h x).
Proof. intros A. exact (@cper_even_1d A). Qed.
(* 2-D/3-D: for a covariance even in each lag coordinate (anisotropy along the grid axes) the whole array is even;
   for a covariance that is only centrally symmetric (rotated anisotropy) it is even away from the Nyquist planes ... *)
Theorem C14_fft_cper_even_separable : forall (A : Type) (F : Z -> Z -> Z -> A) d k,
  (forall a b c, F (- a) b c = F a b c) -> (forall a b c, F a (- b) c = F a b c) -> (forall a b c, F a b (- c) = F a b c) ->
  axes d -> inbox d k -> cper d F (negc d k) = cper d F k.
Proof. intros A. exact (@cper_even_separable A). Qed.
Theorem C14_fft_cper_even_central : forall (A : Type) (F : Z -> Z -> Z -> A) d k,
  (forall a b c, F (- a) (- b) (- c) = F a b c) -> axes d -> inbox d k ->
  (let '(x, y, z) := k in (x <> hx d \/ hx d = 0) /\ (y <> hy d \/ hy d = 0) /\ (z <> hz d \/ hz d = 0)) ->
  cper d F (negc d k) = cper d F k.
Proof. intros A. exact (@cper_even_central A). Qed.
(* ... and NOT on them (model-level witness F(a,b) = a b on 4 x 4 at cell (2,1)): there the array filled by _prepar is not
   even, its transform is not real, and _prepar keeps the real part only (the size of the effect is bounded by the covariance
   at half the extended grid, which _gridDilate makes < percent of the sill). *)
Theorem C14_fft_cper_nyquist_refuted :
  exists d (F : Z -> Z -> Z -> Z) k, (forall a b c, F (- a) (- b) (- c) = F a b c) /\ good_dims 2 d /\ inbox d k /\
    cper d F (negc d k) <> cper d F k.
Proof. exact cper_nyquist_refuted. Qed.

(* the covariance is now evaluated on the increment VECTOR (commit cdb459fb2): the two theorems above are stated for an arbitrary
   function F of the integer lag vector (jnd0, jnd1, jnd2), anisotropy included. REGRESSION: before that commit only the NORM of
   the lag entered; an array built from a function of the norm is invariant under the exchange of the axes (no anisotropy) *)
Theorem C14_old_fft_norm_only_isotropic : forall (A : Type) (g : Z -> A) d x y z,
  dx d = dy d ->
  cper d (fun a b c => g (a * a + b * b + c * c)) (y, x, z) = cper d (fun a b c => g (a * a + b * b + c * c)) (x, y, z).
Proof. intros A. exact (@cper_norm_only_symmetric A). Qed.

(* anti-aliasing pass of _prepar (CalcSimuFFT.cpp:509-518, delta = DX * _dims since commit f6d25e5eb): the copies are shifted by
   multiples of the EXTENDED period, so every summed lag is congruent to the cell index modulo the period of the array (the summed
   array is the folding of the covariance modulo d: it has the period of the FFT) ... *)
Theorem C14_fft_alias_fold : forall d h x k, ev d h -> 0 <= x < d -> (jnd d h x + k * d) mod d = x.
Proof. exact alias_fold. Qed.
(* ... and the summed array (times the constant coeff) is even under the negation map away from the Nyquist planes, for an arbitrary
   centrally symmetric covariance of the lag vector and the symmetric range of shifts of the code *)
Theorem C14_fft_alias_even : forall d (F : Z -> Z -> Z -> Q) Kx Ky Kz k,
  (forall a b c, (F (- a)%Z (- b)%Z (- c)%Z == F a b c)%Q) -> axes d -> inbox d k ->
  (let '(x, y, z) := k in (x <> hx d \/ hx d = 0) /\ (y <> hy d \/ hy d = 0) /\ (z <> hz d \/ hz d = 0)) ->
  (cper_alias d F Kx Ky Kz (negc d k) == cper_alias d F Kx Ky Kz k)%Q.
Proof. exact cper_alias_even. Qed.
Example C14_fft_alias_even_nonvacuous :
  let d := mkD 4 4 1 in let F := fun a b c : Z => inject_Z (100 - a * a - a * b - 2 * b * b) in
  let A := fun k : cell => cper_alias d F 1%nat 1%nat 0%nat k in
  (A (1, 3, 0)%Z == A (3, 1, 0)%Z)%Q /\ ~ (A (1, 3, 0)%Z == A (1, 1, 0)%Z)%Q.
Proof. vm_compute. split; [reflexivity|discriminate]. Qed.
(* REGRESSION (before commit f6d25e5eb the shifts were multiples of the ORIGINAL grid size, finding CalcSimuFFT:antialiasing-wrong-period):
   the summed lags are no longer congruent to the cell index; witness extended size 8, original size 3 *)
Theorem C14_old_fft_alias_period_refuted : exists d h nx x k, ev d h /\ 0 <= x < d /\ (jnd d h x + k * nx) mod d <> x.
Proof. exact alias_fold_old_refuted. Qed.

(* ---- 3. _defineSym1 / _defineSym2 / _defineSym3 ---- *)

(* FULL STRENGTH, all even dimensions, 1-D / 2-D / 3-D: after the operations of _defineSymmetry (executed in the order of the
   loops, later writes win) the pair of arrays is Hermitian in the (ix,iy,iz) coordinates: u(-k) = u(k), v(-k) = -v(k) for every
   cell of the box; every self-conjugate cell has v = 0 and keeps its u; every source cell keeps u and v (the free half). *)
Theorem C14_fft_symmetry_hermitian : forall ndim d u v,
  good_dims ndim d ->
  let s := run_ops (define_symmetry ndim d) (u, v) in
  herm_cell d (fst s) (snd s) /\
  (forall k, Rc d k -> fst s k = u k /\ snd s k = 0%Q) /\
  (forall k, srcc d k -> fst s k = u k /\ snd s k = v k).
Proof. exact define_symmetry_hermitian. Qed.
Print Assumptions C14_fft_symmetry_hermitian.
Example C14_fft_symmetry_hermitian_nonvacuous :
  good_dims 3 (mkD 4 6 2) /\ good_dims 2 (mkD 2 4 1) /\ good_dims 1 (mkD 6 1 1) /\
  length (define_symmetry 3 (mkD 4 6 2)) = 28%nat /\
  (let '(U, V) := symmetrize (IND (mkD 4 6 2)) 3 (mkD 4 6 2) wU wV in herm_lin_b (mkD 4 6 2) U V = true).
Proof.
  split; [|split; [|split; [|split]]].
  - unfold good_dims; simpl. repeat split; try lia; [exists 2|exists 3|exists 1]; lia.
  - unfold good_dims; simpl. repeat split; try lia; [exists 1|exists 2]; lia.
  - unfold good_dims; simpl. repeat split; try lia; exists 3; lia.
  - vm_compute. reflexivity.
  - vm_compute. reflexivity.
Qed.
(* the cells: every box cell is self-conjugate, a source, or the opposite of a source (so the free real degrees of freedom
   are |R| + 2 |S| = d0 d1 d2: Example below by computation for a few sizes) *)
Theorem C14_fft_cells_trichotomy : forall d k, axes d -> inbox d k ->
  Rc d k \/ srcc d k \/ (srcc d (negc d k) /\ negc d (negc d k) = k).
Proof. intros d k H. apply trichotomy. exact H. Qed.
Example C14_fft_free_dof_sample :
  map free_dof [mkD 6 1 1; mkD 2 2 1; mkD 6 4 1; mkD 4 6 8; mkD 2 2 2; mkD 8 2 6] = [6; 4; 24; 192; 8; 96].
Proof. vm_compute. reflexivity. Qed.

(* ---- 4. layout ---- *)

(* POSITIVE, about the code as it is (macro IND = ix + d0 (iy + d1 iz) since commit f1042d400): after _defineSymmetry the memory
   addressed through IND is Hermitian for the (d0,d1,d2) DFT whose first dimension is the fastest (what fftn computes),
   for ALL even sizes, 1-D / 2-D / 3-D. *)
Theorem C14_fft_layout_hermitian : forall ndim d U V,
  good_dims ndim d ->
  herm_lin d (fst (symmetrize (IND d) ndim d U V)) (snd (symmetrize (IND d) ndim d U V)).
Proof. exact layout_hermitian. Qed.
Print Assumptions C14_fft_layout_hermitian.

(* _final reads U(jx,jy,jz) = _u[IND(jx,jy,jz)]: IND is the order in which _prepar fills and fftn transforms, so the cell read is the
   cell filled for the node (jx,jy,jz): no exchange of axes *)
Theorem C14_fft_final_reads_filled_cell : forall d j k,
  IND d k = lin_fill d k /\ (inbox d j -> inbox d k -> IND d j = lin_fill d k -> j = k).
Proof. exact final_reads_filled_cell. Qed.

(* REGRESSION (macro before commit f1042d400, IND_old = iz + d2 (iy + d1 ix)), equal extreme dimensions: IND_old(transposed cell) =
   fill order, the memory was still Hermitian for fftn - but the cell (ix,iy,iz) of the code sat where fftn sees the node (iz,iy,ix):
   x and z (2-D: x and y) were exchanged (finding CalcSimuFFT:axes-swapped) *)
Theorem C14_old_fft_layout_square : forall d U V,
  (good_dims 3 d -> dx d = dz d ->
     (forall j, inbox d j -> IND_old d (transp3 j) = lin_fill d j) /\
     herm_lin d (fst (symmetrize (IND_old d) 3 d U V)) (snd (symmetrize (IND_old d) 3 d U V))) /\
  (good_dims 2 d -> dx d = dy d ->
     (forall j, inbox d j -> IND_old d (transp2 j) = lin_fill d j) /\
     herm_lin d (fst (symmetrize (IND_old d) 2 d U V)) (snd (symmetrize (IND_old d) 2 d U V))) /\
  (good_dims 1 d -> herm_lin d (fst (symmetrize (IND_old d) 1 d U V)) (snd (symmetrize (IND_old d) 1 d U V))).
Proof. intros d U V. split; [apply layout_square_3d|split; [apply layout_square_2d|apply layout_1d]]. Qed.

(* REGRESSION, REFUTED for the old macro (finding CalcSimuFFT:hermitian-layout-unequal-dims, cured by commit f1042d400): with IND_old and
   dimensions 2 x 4 the memory left by _defineSym2 is not Hermitian for the (2,4) DFT. Witness u[i] = i+1, v[i] = 1000+i: memory
   position 1 = self-conjugate frequency (1,0) keeps v = 1001. *)
Theorem C14_old_fft_layout_refuted :
  exists d U V, good_dims 2 d /\
    ~ herm_lin d (fst (symmetrize (IND_old d) 2 d U V)) (snd (symmetrize (IND_old d) 2 d U V)).
Proof. exact layout_refuted. Qed.
Print Assumptions C14_old_fft_layout_refuted.

(* ---- 5. _setVariance ---- *)

(* the loops `ix += _dim2[0]` of _defineRandom visit exactly the self-conjugate cells = the cells zeroed by _defineSymmetry *)
Theorem C14_fft_variance_cells : forall ndim d c, good_dims ndim d ->
  (In c (variance_cells ndim d) <-> Rc d c) /\ (In c (variance_cells ndim d) <-> In (Zero c) (define_symmetry ndim d)).
Proof. intros ndim d c H. split; [apply variance_cells_spec|apply variance_cells_are_zero_cells]; exact H. Qed.

(* ---- 6. real output ---- *)

(* reindexing of a box sum by the involution neg *)
Theorem C14_fft_sum_reindex : forall d (f : cell -> Q),
  0 < dx d -> 0 < dy d -> 0 < dz d -> (sum_box d (fun k => f (negc d k)) == sum_box d f)%Q.
Proof. exact sum_box_neg. Qed.

(* for a Hermitian array, an even c and an odd s (cos and sin of a phase odd in k), Im sum_k (u_k + i v_k)(c_k + i s_k) = 0:
   the inverse transform of what _defineSymmetry produces is real *)
Theorem C14_fft_real_output : forall d (u v c s : cell -> Q),
  0 < dx d -> 0 < dy d -> 0 < dz d ->
  herm_cell d u v ->
  (forall k, inbox d k -> c (negc d k) == c k)%Q ->
  (forall k, inbox d k -> s (negc d k) == - s k)%Q ->
  (im_sum d u v c s == 0)%Q.
Proof. exact hermitian_real_output. Qed.
Print Assumptions C14_fft_real_output.
Example C14_fft_real_output_nonvacuous :
  let d := mkD 4 1 1 in
  let s := fun k : cell => let '(x, _, _) := k in inject_Z (x - neg1 4 x) in
  herm_cell d (fun _ => 1%Q) s /\ (forall k, inbox d k -> (s (negc d k) == - s k)%Q) /\ ~ (s (1, 0, 0)%Z == 0)%Q.
Proof.
  cbv zeta. split; [|split].
  - intros [[x y] z] (Hx & Hy & Hz). simpl in Hx, Hy, Hz.
    assert (C : x = 0 \/ x = 1 \/ x = 2 \/ x = 3) by lia. assert (y = 0) by lia. assert (z = 0) by lia. subst y z.
    destruct C as [-> | [-> | [-> | ->]]]; vm_compute; split; reflexivity.
  - intros [[x y] z] (Hx & Hy & Hz). simpl in Hx, Hy, Hz.
    assert (C : x = 0 \/ x = 1 \/ x = 2 \/ x = 3) by lia. assert (y = 0) by lia. assert (z = 0) by lia. subst y z.
    destruct C as [-> | [-> | [-> | ->]]]; vm_compute; reflexivity.
  - vm_compute. discriminate.
Qed.

(* ---- 7. SimuSpectral::_computeOnRn ---- *)

(* CURRENT code (commit f398de2e6): scale = sqrt(2/ns) sqrt(sill): the variance coefficient scale^2 ns E[gamma^2] <cos^2> = scale^2 ns / 2
   is the sill of the model, any ns (scale0 stands for sqrt(2/ns), ssill for sqrt(sill)) *)
Theorem C14_spectral_variance_is_sill : forall scale0 ssill sill ns,
  (scale0 * scale0 * ns == 2 -> ssill * ssill == sill -> spectral_varcoef ((scale0 * ssill) * (scale0 * ssill)) ns == sill)%Q.
Proof. exact spectral_variance_is_sill. Qed.
Print Assumptions C14_spectral_variance_is_sill.
Example C14_spectral_variance_is_sill_nonvacuous : ((1 # 2) * (1 # 2) * 8 == 2 /\ (3 # 2) * (3 # 2) == 9 # 4)%Q.
Proof. split; reflexivity. Qed.
(* CURRENT code: the value is the mean of the model plus sqrt(sill) times the unit-sill fluctuation *)
Theorem C14_spectral_mean : forall cosv scale0 ssill mean sill' mean' gamma args,
  (spectral_value cosv scale0 ssill mean gamma args == mean + ssill * spectral_value_old cosv scale0 sill' mean' gamma args)%Q.
Proof. exact spectral_mean. Qed.
(* product-to-sum identity behind <cos(a+p) cos(b+p)> = cos(a-b)/2 (abstract cosine / sine values, c^2 + s^2 = 1) *)
Theorem C14_spectral_product_to_sum : forall ca sa cb sb cp sp, (cp * cp + sp * sp == 1 ->
  (ca * cp - sa * sp) * (cb * cp - sb * sp) ==
  (1 # 2) * ((ca * cb + sa * sb) + ((ca * cb - sa * sb) * (cp * cp - sp * sp) - (sa * cb + ca * sb) * (2 * sp * cp))))%Q.
Proof. exact product_to_sum. Qed.
(* REGRESSION (finding SimuSpectral:sill-ignored, cured by commit f398de2e6): the value computed by the former _computeOnRn was
   independent of the sill and of the mean of the model, and its variance coefficient was 1 whatever ns *)
Theorem C14_old_spectral_sill_ignored : forall cosv scale sill1 mean1 sill2 mean2 gamma args,
  spectral_value_old cosv scale sill1 mean1 gamma args = spectral_value_old cosv scale sill2 mean2 gamma args.
Proof. exact spectral_value_old_ignores_sill. Qed.
Theorem C14_old_spectral_varcoef_one : forall scale2 ns, (scale2 * ns == 2 -> spectral_varcoef scale2 ns == 1)%Q.
Proof. exact spectral_varcoef_one. Qed.
(* REGRESSION, REFUTED for the old code (cured by commit f398de2e6): "the variance of the output is the sill" failed, e.g. sill 4, ns 8 *)
Theorem C14_old_spectral_sill_refuted :
  exists sill ns scale2, (0 < sill /\ scale2 * ns == 2 /\ ~ spectral_varcoef scale2 ns == sill)%Q.
Proof. exact spectral_sill_refuted_old. Qed.
Print Assumptions C14_old_spectral_sill_refuted.

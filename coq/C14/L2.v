(* C14 / L2 : second-moment calculus without measure theory.
   Independent standardised elementary draws e_0 .. e_{N-1} (gaussians, signs, ...) are an orthonormal family of
   L2; a simulator output that is LINEAR in them is a formal linear combination  X = sum_k X_k e_k ; its
   covariance with another one is the inner product of the coefficient vectors:  Cov(X,Y) = <X,Y> = sum_k X_k Y_k.
   That is exact mathematics, needs no probability library, and is computable.
   A formal random variable is its coefficient function [nat -> Q]; only the first N coefficients count. *)
From Coq Require Import List Arith ZArith QArith Bool Lqa Lia Setoid Morphisms.
From Gst Require Import lib.QAux lib.LinAlgQ.
Import ListNotations.
Local Open Scope Q_scope.

Definition rv := nat -> Q.

Definition cov (N : nat) (X Y : rv) : Q := sumn N (fun k => X k * Y k).
Definition rv_eq (N : nat) (X Y : rv) : Prop := forall k, (k < N)%nat -> X k == Y k.
Definition radd (X Y : rv) : rv := fun k => X k + Y k.
Definition rscal (c : Q) (X : rv) : rv := fun k => c * X k.
Definition rzero : rv := fun _ => 0.
Definition draw (i : nat) : rv := fun k => delta i k.                       (* the elementary draw e_i *)
Definition rsum (n : nat) (F : nat -> rv) : rv := fun k => sumn n (fun i => F i k).   (* sum_{i<n} F_i *)
(* image of a family G under a matrix A : (A.G)_i = sum_{k<n} A_ik G_k *)
Definition lmap (n : nat) (A : fmat) (G : nat -> rv) (i : nat) : rv := rsum n (fun k => rscal (A i k) (G k)).
Definition orthonormal (N n : nat) (G : nat -> rv) : Prop :=
  forall i j, (i < n)%nat -> (j < n)%nat -> cov N (G i) (G j) == delta i j.

Section L2.
Variable N : nat.
Local Notation cov := (cov N).

Lemma cov_ext X X' Y Y' : rv_eq N X X' -> rv_eq N Y Y' -> cov X Y == cov X' Y'.
Proof. intros HX HY. apply sumn_ext. intros k Hk. rewrite (HX k Hk), (HY k Hk). reflexivity. Qed.

Lemma cov_sym X Y : cov X Y == cov Y X.
Proof. apply sumn_ext. intros; ring. Qed.

Lemma cov_add_l X X' Y : cov (radd X X') Y == cov X Y + cov X' Y.
Proof. unfold cov, radd. rewrite <- sumn_add. apply sumn_ext. intros; ring. Qed.
Lemma cov_add_r X Y Y' : cov X (radd Y Y') == cov X Y + cov X Y'.
Proof. rewrite cov_sym, cov_add_l, (cov_sym Y X), (cov_sym Y' X). reflexivity. Qed.

Lemma cov_scal_l c X Y : cov (rscal c X) Y == c * cov X Y.
Proof. unfold cov, rscal. rewrite <- sumn_scal_l. apply sumn_ext. intros; ring. Qed.
Lemma cov_scal_r c X Y : cov X (rscal c Y) == c * cov X Y.
Proof. rewrite cov_sym, cov_scal_l, (cov_sym Y X). reflexivity. Qed.

Lemma cov_zero_l Y : cov rzero Y == 0.
Proof. apply sumn_zero. intros. unfold rzero. ring. Qed.

(* scaling by c multiplies the covariance by c^2 *)
Lemma cov_scal_both c X Y : cov (rscal c X) (rscal c Y) == c * c * cov X Y.
Proof. rewrite cov_scal_l, cov_scal_r. ring. Qed.

Lemma var_nonneg X : 0 <= cov X X.
Proof. apply sumn_nonneg. intros i _. nra. Qed.

(* the elementary draws are orthonormal *)
Lemma cov_draw i j : (i < N)%nat -> (j < N)%nat -> cov (draw i) (draw j) == delta i j.
Proof. intros Hi Hj. unfold cov, draw. rewrite sumn_delta_l by exact Hi. rewrite delta_sym. reflexivity. Qed.
Lemma draws_orthonormal : orthonormal N N draw.
Proof. intros i j Hi Hj. apply cov_draw; assumption. Qed.

(* a formal variable is the combination of the draws with its own coefficients *)
Lemma rv_decompose X : rv_eq N X (rsum N (fun i => rscal (X i) (draw i))).
Proof.
  intros k Hk. unfold rsum, rscal, draw. cbv beta.
  symmetry. apply (sumn_delta_r N k X Hk).
Qed.
(* coefficient = covariance with the draw *)
Lemma cov_with_draw X i : (i < N)%nat -> cov X (draw i) == X i.
Proof. intro Hi. rewrite cov_sym. unfold cov, draw. rewrite sumn_delta_l by exact Hi. reflexivity. Qed.

Lemma cov_rsum_l n F Y : cov (rsum n F) Y == sumn n (fun i => cov (F i) Y).
Proof.
  unfold cov, rsum.
  rewrite (sumn_ext N _ (fun k => sumn n (fun i => F i k * Y k))) by (intros k _; rewrite sumn_scal_r; reflexivity).
  apply sumn_swap.
Qed.
Lemma cov_rsum_r n X G : cov X (rsum n G) == sumn n (fun j => cov X (G j)).
Proof. rewrite cov_sym, cov_rsum_l. apply sumn_ext. intros; apply cov_sym. Qed.

(* bilinearity over finite sums *)
Lemma cov_rsum_rsum n m F G :
  cov (rsum n F) (rsum m G) == sumn n (fun i => sumn m (fun j => cov (F i) (G j))).
Proof. rewrite cov_rsum_l. apply sumn_ext. intros i _. apply cov_rsum_r. Qed.

(* a sum of mutually orthogonal fields: the covariance of the sums is the sum of the covariances *)
Lemma cov_orthogonal_sum n F G :
  (forall b b', (b < n)%nat -> (b' < n)%nat -> b <> b' -> cov (F b) (G b') == 0) ->
  cov (rsum n F) (rsum n G) == sumn n (fun b => cov (F b) (G b)).
Proof.
  intro H. rewrite cov_rsum_rsum. apply sumn_ext. intros b Hb.
  rewrite (sumn_ext n _ (fun b' => delta b b' * cov (F b) (G b'))).
  - apply sumn_delta_l; exact Hb.
  - intros b' Hb'. unfold delta. destruct (Nat.eqb_spec b b') as [E|E]; [ring|].
    rewrite (H b b' Hb Hb' E). ring.
Qed.

(* disjoint supports: no common draw => uncorrelated *)
Lemma cov_disjoint X Y : (forall k, (k < N)%nat -> X k == 0 \/ Y k == 0) -> cov X Y == 0.
Proof. intro H. apply sumn_zero. intros k Hk. destruct (H k Hk) as [E|E]; rewrite E; ring. Qed.

(* linear image of an orthonormal family: covariance matrix A.t(A) *)
Lemma cov_lmap n A G i j : orthonormal N n G ->
  cov (lmap n A G i) (lmap n A G j) == fmul n A (ftr A) i j.
Proof.
  intro HG. unfold lmap. rewrite cov_rsum_rsum. unfold fmul, ftr. apply sumn_ext. intros k Hk.
  rewrite (sumn_ext n _ (fun l => delta k l * (A i k * A j l))).
  - apply sumn_delta_l; exact Hk.
  - intros l Hl. rewrite cov_scal_l, cov_scal_r, (HG k l Hk Hl). ring.
Qed.

(* two different linear images of the same orthonormal family: A.t(B) *)
Lemma cov_lmap2 n A B G i j : orthonormal N n G ->
  cov (lmap n A G i) (lmap n B G j) == fmul n A (ftr B) i j.
Proof.
  intro HG. unfold lmap. rewrite cov_rsum_rsum. unfold fmul, ftr. apply sumn_ext. intros k Hk.
  rewrite (sumn_ext n _ (fun l => delta k l * (A i k * B j l))).
  - apply sumn_delta_l; exact Hk.
  - intros l Hl. rewrite cov_scal_l, cov_scal_r, (HG k l Hk Hl). ring.
Qed.

(* Cauchy-Schwarz: correlations are bounded by 1 *)
Lemma cauchy_schwarz X Y : cov X Y * cov X Y <= cov X X * cov Y Y.
Proof.
  (* 0 <= <aX - bY, aX - bY> with a = <Y,Y>, b = <X,Y> *)
  set (a := cov Y Y). set (b := cov X Y).
  assert (H : 0 <= cov (radd (rscal a X) (rscal (- b) Y)) (radd (rscal a X) (rscal (- b) Y))) by apply var_nonneg.
  rewrite cov_add_l, !cov_add_r, !cov_scal_l, !cov_scal_r in H.
  rewrite (cov_sym Y X) in H. fold a b in H.
  assert (Ha : 0 <= a) by apply var_nonneg.
  assert (E : a * (a * cov X X) + a * (- b * b) + (- b * (a * b) + - b * (- b * a)) == a * (a * cov X X - b * b)) by ring.
  rewrite E in H.
  destruct (Qlt_le_dec 0 a) as [Hpos|Hle].
  - assert (0 <= a * cov X X - b * b) by nra. nra.
  - (* <Y,Y> = 0 : every coefficient of Y vanishes on the support, hence <X,Y> = 0 *)
    assert (Ha0 : a == 0) by lra.
    assert (Hb : b == 0).
    { unfold b, cov. apply sumn_zero. intros k Hk.
      assert (HY : Y k * Y k == 0).
      { unfold a, cov in Ha0.
        assert (Hle' : forall n f, (forall i, (i < n)%nat -> 0 <= f i) -> sumn n f == 0 -> forall i, (i < n)%nat -> f i == 0).
        { clear. induction n as [|n IH]; intros f Hf Hs i Hi; [lia|]. cbn [sumn] in Hs.
          assert (0 <= sumn n f) by (apply sumn_nonneg; intros; apply Hf; lia).
          assert (0 <= f n) by (apply Hf; lia).
          destruct (Nat.eq_dec i n) as [->|Hne]; [lra|].
          apply IH; [intros; apply Hf; lia | lra | lia]. }
        apply (Hle' N (fun k => Y k * Y k)); [intros; nra | exact Ha0 | exact Hk]. }
      assert (Y k == 0) by nra. rewrite H0. ring. }
    rewrite Hb. assert (0 <= cov X X) by apply var_nonneg. nra.
Qed.
End L2.

(* the covariance does not depend on how many trailing draws (on which both variables vanish) are counted *)
Lemma cov_extend N M X Y : (forall k, (N <= k)%nat -> X k == 0 \/ Y k == 0) -> cov (N + M) X Y == cov N X Y.
Proof.
  intro H. unfold cov. rewrite sumn_split.
  rewrite (sumn_zero M); [ring|]. intros i _. destruct (H (N + i)%nat ltac:(lia)) as [E|E]; rewrite E; ring.
Qed.

(* C14 part proc: polynomial calculus over Q and the covariance algebra of the dilution (shot noise)
   and migration processes.  Everything here is exact algebra; the integral of a polynomial is by
   definition the increment of its formal antiderivative ([integ]), justified by [pderiv_pint], [ftc]
   and the divided-difference characterisation of the formal derivative ([dd_spec], [dd_diag]). *)
From Coq Require Import List ZArith QArith Qabs Qround Bool Lqa Lia.
From Gst Require Import lib.Sx lib.QAux C14.Proc.
Import ListNotations.
Local Open Scope Q_scope.

(* ---------------------------------------------------------------- general calculus *)
Lemma peval_ext p q x : Forall2 Qeq p q -> peval p x == peval q x.
Proof. induction 1 as [|a b p q Hab _ IH]; simpl; [reflexivity|]. rewrite Hab, IH. reflexivity. Qed.

Lemma injZ_nz k : (0 < k)%Z -> ~ inject_Z k == 0.
Proof. intros H E. unfold Qeq in E. simpl in E. lia. Qed.

Lemma pder_pin p : forall k, (0 < k)%Z -> Forall2 Qeq (pder k (pin k p)) p.
Proof.
  induction p as [|a p IH]; intros k Hk; simpl; constructor.
  - field. apply injZ_nz; exact Hk.
  - apply IH. lia.
Qed.
Lemma pin_pder p : forall k, (0 < k)%Z -> Forall2 Qeq (pin k (pder k p)) p.
Proof.
  induction p as [|a p IH]; intros k Hk; simpl; constructor.
  - field. apply injZ_nz; exact Hk.
  - apply IH. lia.
Qed.

(* the formal derivative of the antiderivative is the polynomial itself (all polynomials) *)
Theorem pderiv_pint p : Forall2 Qeq (pderiv (pint p)) p.
Proof. unfold pderiv, pint. apply pder_pin. lia. Qed.

Lemma peval_pint_pderiv p x : peval (pint (pderiv p)) x == peval p x - peval p 0.
Proof.
  destruct p as [|a r]; [simpl; ring|].
  unfold pderiv, pint. change (peval (0 :: pin 1 (pder 1 r)) x) with (0 + x * peval (pin 1 (pder 1 r)) x).
  rewrite (peval_ext _ _ x (pin_pder r 1 ltac:(lia))). simpl. ring.
Qed.

(* fundamental theorem for polynomials *)
Theorem ftc p a b : integ (pderiv p) a b == peval p b - peval p a.
Proof. unfold integ. rewrite !peval_pint_pderiv. ring. Qed.

Lemma integ_chasles p a b c : integ p a b + integ p b c == integ p a c.
Proof. unfold integ. ring. Qed.
Lemma integ_zero a b : integ [] a b == 0.
Proof. unfold integ. simpl. ring. Qed.

(* divided differences: the formal derivative IS the derivative *)
Lemma dd_spec p x y : peval p x - peval p y == (x - y) * dd p x y.
Proof.
  induction p as [|a r IH]; simpl; [ring|].
  assert (E : peval r y == peval r x - (x - y) * dd r x y) by lra.
  rewrite E. ring.
Qed.
Lemma peval_pder_shift r : forall k x, peval (pder (k + 1) r) x == peval (pder k r) x + peval r x.
Proof.
  induction r as [|a r IH]; intros k x; simpl; [ring|].
  rewrite IH. rewrite inject_Z_plus. change (inject_Z 1) with 1. ring.
Qed.
Lemma peval_pder1 r x : peval (pder 1 r) x == peval r x + x * peval (pderiv r) x.
Proof.
  destruct r as [|b s]; simpl; [ring|].
  rewrite (peval_pder_shift s 1 x). change (inject_Z 1) with 1. ring.
Qed.
Lemma dd_diag p x : dd p x x == peval (pderiv p) x.
Proof.
  induction p as [|a r IH]; [reflexivity|].
  change (dd (a :: r) x x) with (peval r x + x * dd r x x).
  change (pderiv (a :: r)) with (pder 1 r). rewrite IH, peval_pder1. reflexivity.
Qed.

(* ---------------------------------------------------------------- B2: turning-band relation in R^3 *)
(* For C1 = d/dt (t C(t)):  integral_0^r C1 = r C(r), i.e. the average of C1(<h,u>) over a uniform
   direction u (projection uniform on [-1,1], C1 even) is C(|h|). *)
Theorem turning_band_3d C r : integ (C1_of C) 0 r == r * peval C r.
Proof. unfold C1_of. rewrite ftc. unfold pmulx. simpl. ring. Qed.

(* ---------------------------------------------------------------- B1: dilution *)
Lemma sph_integrand_ok x h : peval (sph_integrand h) x == g_aff x * g_aff (x + h).
Proof. unfold sph_integrand, g_aff. simpl. ring. Qed.
Lemma cub_integrand_ok x h : peval (cub_integrand h) x == g_cub x * g_cub (x + h).
Proof. unfold cub_integrand, g_cub. simpl. ring. Qed.

Lemma C1_sph_eval h : peval (C1_of C_sph) h == 1 - 3 * h + 2 * h * h * h.
Proof. unfold C1_of, C_sph, pmulx, pderiv. cbn [pder peval]. simpl Z.add. unfold inject_Z. ring. Qed.
Lemma C1_cub_eval h :
  peval (C1_of C_cub) h == 1 - 21 * h * h + 35 * h * h * h - 21 * h * h * h * h * h + 6 * h * h * h * h * h * h * h.
Proof. unfold C1_of, C_cub, pmulx, pderiv. cbn [pder peval]. simpl Z.add. unfold inject_Z. ring. Qed.
Lemma C_cub_horner_ok h : C_cub_horner h == peval C_cub h.
Proof. unfold C_cub_horner, C_cub. simpl. ring. Qed.
Lemma C_sph_code_ok h : 1 - (1#2) * h * (3 - h * h) == peval C_sph h.
Proof. unfold C_sph. simpl. ring. Qed.

(* same-cell integral times correc^2 = the 1-D covariance whose band average is the model *)
Theorem dilution_cov_spherical h :
  correc2_spherical * integ (sph_integrand h) 0 (1 - h) == peval (C1_of C_sph) h.
Proof.
  rewrite C1_sph_eval. unfold correc2_spherical, integ, pint, sph_integrand.
  cbn [pin peval]. simpl Z.add. unfold inject_Z. field.
Qed.
Theorem dilution_cov_cubic h :
  correc2_cubic * integ (cub_integrand h) 0 (1 - h) == peval (C1_of C_cub) h.
Proof.
  rewrite C1_cub_eval. unfold correc2_cubic, integ, pint, cub_integrand.
  cbn [pin peval]. simpl Z.add. unfold inject_Z. field.
Qed.
(* at h = 1 (no common cell any more) both sides vanish: the covariances are continuous at the range *)
Lemma C1_sph_at_range : peval (C1_of C_sph) 1 == 0 /\ peval C_sph 1 == 0.
Proof. split; vm_compute; reflexivity. Qed.
Lemma C1_cub_at_range : peval (C1_of C_cub) 1 == 0 /\ peval C_cub 1 == 0.
Proof. split; vm_compute; reflexivity. Qed.
(* band average of the dilution covariance = the model covariance, for every r *)
Theorem dilution_band_average_spherical r : integ (C1_of C_sph) 0 r == r * peval C_sph r.
Proof. apply turning_band_3d. Qed.
Theorem dilution_band_average_cubic r : integ (C1_of C_cub) 0 r == r * peval C_cub r.
Proof. apply turning_band_3d. Qed.

(* bounds of the shapes on a cell *)
Lemma g_aff_bound x : 0 <= x -> x <= 1 -> -1 <= g_aff x /\ g_aff x <= 1.
Proof. unfold g_aff. intros; split; lra. Qed.
(* max |x (x-1/2)(x-1)| on [0,1] is sqrt(3)/36:  1 - 432 f^2 = (6s+1)^2 (1-12s), s = x^2 - x <= 0 *)
Lemma sq_nonneg (a : Q) : 0 <= a * a.
Proof. destruct (Qlt_le_dec a 0) as [H|H]; nra. Qed.
Lemma g_cub_bound x : 0 <= x -> x <= 1 -> 432 * (g_cub x * g_cub x) <= 1.
Proof.
  intros H0 H1. unfold g_cub.
  assert (Hs : x * x - x <= 0) by nra.
  assert (E : 1 - 432 * (x * (x - (1 # 2)) * (x - 1) * (x * (x - (1 # 2)) * (x - 1)))
              == (6 * (x * x - x) + 1) * (6 * (x * x - x) + 1) * (1 - 12 * (x * x - x))) by ring.
  assert (P : 0 <= (6 * (x * x - x) + 1) * (6 * (x * x - x) + 1) * (1 - 12 * (x * x - x))).
  { apply Qmult_le_0_compat; [apply sq_nonneg|lra]. }
  lra.
Qed.

(* ---------------------------------------------------------------- independent fair signs (L2 step) *)
Lemma qsum_app a b : qsum (a ++ b) == qsum a + qsum b.
Proof. induction a as [|x a IH]; simpl; [ring|]. rewrite IH. ring. Qed.
Lemma qsum_ext {A} (f g : A -> Q) l : (forall x, f x == g x) -> qsum (map f l) == qsum (map g l).
Proof. intros H. induction l as [|x l IH]; simpl; [reflexivity|]. rewrite IH, H. reflexivity. Qed.
Lemma qsum_scal {A} (f : A -> Q) c l : qsum (map (fun x => c * f x) l) == c * qsum (map f l).
Proof. induction l as [|x l IH]; simpl; [ring|]. rewrite IH. ring. Qed.
Lemma qsum_const {A} (l : list A) c : qsum (map (fun _ => c) l) == inject_Z (Z.of_nat (length l)) * c.
Proof.
  induction l as [|x l IH]; [simpl; ring|].
  cbn [map qsum fold_right length]. fold (qsum (map (fun _ : A => c) l)). rewrite IH.
  rewrite Nat2Z.inj_succ. unfold Z.succ. rewrite inject_Z_plus. change (inject_Z 1) with 1. ring.
Qed.
Lemma signs_length n : Z.of_nat (length (signs n)) = (2 ^ Z.of_nat n)%Z.
Proof.
  induction n as [|n IH]; [reflexivity|].
  cbn [signs]. rewrite app_length, !map_length, Nat2Z.inj_add, IH, Nat2Z.inj_succ, Z.pow_succ_r by lia. lia.
Qed.
Lemma qsum_signs_S n (f : list Q -> Q) :
  qsum (map f (signs (S n))) ==
  qsum (map (fun e => f (1 :: e)) (signs n)) + qsum (map (fun e => f (-(1) :: e)) (signs n)).
Proof. cbn [signs]. rewrite map_app, qsum_app, !map_map. reflexivity. Qed.

Lemma sign_sum1 : forall n k, (k < n)%nat -> qsum (map (fun e => nth k e 0) (signs n)) == 0.
Proof.
  induction n as [|n IH]; intros k Hk; [lia|].
  rewrite qsum_signs_S. destruct k as [|k]; cbn [nth].
  - rewrite !qsum_const. ring.
  - rewrite (IH k) by lia. ring.
Qed.
Theorem sign_orth : forall n k k', (k < n)%nat -> (k' < n)%nat ->
  qsum (map (fun e => nth k e 0 * nth k' e 0) (signs n)) ==
  if Nat.eqb k k' then inject_Z (2 ^ Z.of_nat n) else 0.
Proof.
  induction n as [|n IH]; intros k k' Hk Hk'; [lia|].
  rewrite qsum_signs_S. destruct k as [|k], k' as [|k']; cbn [nth Nat.eqb].
  - rewrite !qsum_const, signs_length, Nat2Z.inj_succ, Z.pow_succ_r by lia.
    rewrite inject_Z_mult. change (inject_Z 2) with 2. ring.
  - rewrite !qsum_scal. rewrite (sign_sum1 n k') by lia. ring.
  - rewrite (qsum_ext (fun e => nth k e 0 * 1) (fun e => 1 * nth k e 0)) by (intro; ring).
    rewrite (qsum_ext (fun e => nth k e 0 * -(1)) (fun e => -(1) * nth k e 0)) by (intro; ring).
    rewrite !qsum_scal. rewrite (sign_sum1 n k) by lia. ring.
  - rewrite (IH k k') by lia. destruct (Nat.eqb k k'); [|ring].
    rewrite Nat2Z.inj_succ, Z.pow_succ_r by lia. rewrite inject_Z_mult. change (inject_Z 2) with 2. ring.
Qed.

Lemma pow2_nz n : ~ inject_Z (2 ^ Z.of_nat n) == 0.
Proof. apply injZ_nz. apply Z.pow_pos_nonneg; lia. Qed.

(* mean over the signs of value(x) * value(y), value = e_k * g(u):  g(ux) g(uy) in the same cell, else 0 *)
Theorem shot_sign_cov n kx ky (gx gy : Q) : (kx < n)%nat -> (ky < n)%nat ->
  sign_mean n (fun e => (nth kx e 0 * gx) * (nth ky e 0 * gy)) == if Nat.eqb kx ky then gx * gy else 0.
Proof.
  intros Hx Hy. unfold sign_mean.
  rewrite (qsum_ext _ (fun e => (gx * gy) * (nth kx e 0 * nth ky e 0))) by (intro; ring).
  rewrite qsum_scal, (sign_orth n kx ky Hx Hy).
  destruct (Nat.eqb kx ky); field; apply pow2_nz.
Qed.
Theorem shot_sign_mean n k (g : Q) : (k < n)%nat -> sign_mean n (fun e => nth k e 0 * g) == 0.
Proof.
  intros Hk. unfold sign_mean.
  rewrite (qsum_ext _ (fun e => g * nth k e 0)) by (intro; ring).
  rewrite qsum_scal, (sign_sum1 n k Hk). field. apply pow2_nz.
Qed.

(* cells: the two points k+u and k+u+h (0 <= u < 1, h >= 0) share the cell iff u + h < 1 *)
Lemma floor_unique y k : inject_Z k <= y -> y < inject_Z (k + 1) -> Qfloor y = k.
Proof.
  intros H1 H2.
  assert (A : (k <= Qfloor y)%Z). { rewrite <- (Qfloor_Z k). apply Qfloor_resp_le. exact H1. }
  assert (B : (Qfloor y < k + 1)%Z).
  { rewrite Zlt_Qlt. apply Qle_lt_trans with y; [apply Qfloor_le|exact H2]. }
  lia.
Qed.
Lemma cell_same k u h : 0 <= u -> 0 <= h -> u + h < 1 -> Qfloor (inject_Z k + (u + h)) = k.
Proof. intros. apply floor_unique; [lra|rewrite inject_Z_plus; change (inject_Z 1) with 1; lra]. Qed.
Lemma cell_other k u h : 0 <= u -> 1 <= u + h -> (k < Qfloor (inject_Z k + (u + h)))%Z.
Proof.
  intros Hu Hh.
  assert (A : (k + 1 <= Qfloor (inject_Z k + (u + h)))%Z).
  { rewrite <- (Qfloor_Z (k + 1)). apply Qfloor_resp_le. rewrite inject_Z_plus. change (inject_Z 1) with 1. lra. }
  lia.
Qed.

(* ---------------------------------------------------------------- B5: migration *)
Lemma vexp_sq_poly_ok u : peval vexp_sq_poly u == vexp_of u * vexp_of u.
Proof. unfold vexp_sq_poly, vexp_of. simpl. ring. Qed.
(* second moment of vexp over an ideal uniform u: 1 up to 3e-11 *)
Theorem vexp_second_moment : Qabs (integ vexp_sq_poly 0 1 - 1) < 3 # 100000000000.
Proof. vm_compute. reflexivity. Qed.
Lemma spectralValue_sq vexp a b t0 : spectralValue vexp a b t0 * spectralValue vexp a b t0 == vexp * vexp.
Proof. unfold spectralValue. destruct (qltb (b + a) (2 * t0)); ring. Qed.
Lemma spectralValue_first_half vexp a b t0 : 2 * t0 <= a + b -> spectralValue vexp a b t0 = vexp.
Proof. intros H. unfold spectralValue. destruct (qltb_spec (b + a) (2 * t0)); [lra|reflexivity]. Qed.
Lemma spectralValue_second_half vexp a b t0 : a + b < 2 * t0 -> spectralValue vexp a b t0 = - vexp.
Proof. intros H. unfold spectralValue. destruct (qltb_spec (b + a) (2 * t0)); [reflexivity|lra]. Qed.
(* integral of the value over one full Poisson interval [a,b]: +vexp on [a,m], -vexp on (m,b], m = (a+b)/2 *)
Theorem migration_interval_mean vexp a b :
  integ [vexp] a ((a + b) / 2) + integ [- vexp] ((a + b) / 2) b == 0.
Proof. unfold integ, pint. cbn [pin peval]. unfold inject_Z. field. Qed.

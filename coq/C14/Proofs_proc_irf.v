(* C14 part proc: the integrated Wiener-Levy tables (_irfProcessInit, CalcSimuTurningBands.cpp:929-976)
   against the sampler (_irfProcessSample, TurningBandOperate.cpp:140-163).
   The tables stored by the code ([irf_loop]) are the integrals of the right-continuous path that the sampler
   evaluates: the sampled process of levels 1 and 2 is continuous at every Poisson point.
   REGRESSION: with the recurrences used before commit 61380c95b ([irf_loop_old], values AFTER the update on the
   right-hand sides) the sampled process of level 1 jumped by g_i * (t_i - t_{i-1}) at every Poisson point (and
   level 2 jumped too): theorems old_irf_*. *)
From Coq Require Import List ZArith QArith Bool Lqa Lia.
From Gst Require Import lib.Sx lib.QAux C14.Proc C14.Proofs_proc_rank C14.Proofs_proc_poly.
Import ListNotations.
Local Open Scope Q_scope.

(* the polynomials evaluated by the sampler in the interval starting at tk *)
Definition samp1 (tk a0 a1 t0 : Q) : Q := a1 + a0 * (t0 - tk).
Definition samp2 (tk a0 a1 a2 t0 : Q) : Q := a2 + a1 * (t0 - tk) + a0 * (t0 - tk) * (t0 - tk) / 2.

Definition r0 (r : Q * Q * Q) := fst (fst r).
Definition r1 (r : Q * Q * Q) := snd (fst r).
Definition r2 (r : Q * Q * Q) := snd r.
Definition rz : Q * Q * Q := (0, 0, 0).

(* ---- the recurrences, row by row (rows and abscissae listed with their first element) *)
Lemma irf_loop_old_step : forall ts gs tp a i,
  (i < length ts)%nat -> (i < length gs)%nat ->
  let rows := a :: irf_loop_old tp ts gs (r0 a) (r1 a) (r2 a) in
  let tt := tp :: ts in
  let p := nth i rows rz in let q := nth (S i) rows rz in
  let delta := nth (S i) tt 0 - nth i tt 0 in
  r0 q = r0 p + nth i gs 0 /\ r1 q = r1 p + r0 q * delta /\ r2 q = r2 p + r1 q * delta + r0 q * delta * delta / 2.
Proof.
  induction ts as [|ti ts IH]; intros gs tp a i Ht Hg; [simpl in Ht; lia|].
  destruct gs as [|g gs]; [simpl in Hg; lia|].
  destruct i as [|i].
  - cbn. repeat split; reflexivity.
  - cbn [irf_loop_old].
    specialize (IH gs ti (r0 a + g, r1 a + (r0 a + g) * (ti - tp),
                          r2 a + (r1 a + (r0 a + g) * (ti - tp)) * (ti - tp) + (r0 a + g) * (ti - tp) * (ti - tp) / 2) i
                   ltac:(simpl in Ht; lia) ltac:(simpl in Hg; lia)).
    exact IH.
Qed.
Lemma irf_loop_step : forall ts gs tp a i,
  (i < length ts)%nat -> (i < length gs)%nat ->
  let rows := a :: irf_loop tp ts gs (r0 a) (r1 a) (r2 a) in
  let tt := tp :: ts in
  let p := nth i rows rz in let q := nth (S i) rows rz in
  let delta := nth (S i) tt 0 - nth i tt 0 in
  r0 q = r0 p + nth i gs 0 /\ r1 q = r1 p + r0 p * delta /\ r2 q = r2 p + r1 p * delta + r0 p * delta * delta / 2.
Proof.
  induction ts as [|ti ts IH]; intros gs tp a i Ht Hg; [simpl in Ht; lia|].
  destruct gs as [|g gs]; [simpl in Hg; lia|].
  destruct i as [|i].
  - cbn. repeat split; reflexivity.
  - cbn [irf_loop].
    specialize (IH gs ti (r0 a + g, r1 a + r0 a * (ti - tp),
                          r2 a + r1 a * (ti - tp) + r0 a * (ti - tp) * (ti - tp) / 2) i
                   ltac:(simpl in Ht; lia) ltac:(simpl in Hg; lia)).
    exact IH.
Qed.
Lemma irf_loop_old_length : forall ts gs tp a b c, length (irf_loop_old tp ts gs a b c) = Nat.min (length ts) (length gs).
Proof. induction ts as [|ti ts IH]; intros [|g gs] tp a b c; simpl; try reflexivity. rewrite IH. reflexivity. Qed.
Lemma irf_loop_length : forall ts gs tp a b c, length (irf_loop tp ts gs a b c) = Nat.min (length ts) (length gs).
Proof. induction ts as [|ti ts IH]; intros [|g gs] tp a b c; simpl; try reflexivity. rewrite IH. reflexivity. Qed.

(* ---- jumps of the sampled process at the Poisson point t_{i+1} (right value minus left limit) *)
(* REGRESSION (recurrences before 61380c95b): level 1 *)
Theorem irf_jump1_old tp tn p0 p1 q0 q1 :
  q1 == p1 + q0 * (tn - tp) ->
  samp1 tn q0 q1 tn - samp1 tp p0 p1 tn == (q0 - p0) * (tn - tp).
Proof. intros H. unfold samp1. rewrite H. ring. Qed.
(* REGRESSION (recurrences before 61380c95b): level 2 *)
Theorem irf_jump2_old tp tn p0 p1 p2 q0 q1 q2 :
  q1 == p1 + q0 * (tn - tp) -> q2 == p2 + q1 * (tn - tp) + q0 * (tn - tp) * (tn - tp) / 2 ->
  samp2 tn q0 q1 q2 tn - samp2 tp p0 p1 p2 tn == (q0 + (q0 - p0) / 2) * (tn - tp) * (tn - tp).
Proof. intros H1 H2. unfold samp2. rewrite H2, H1. field. Qed.
(* recurrences of the code: continuity at both levels *)
Theorem irf_cont1 tp tn p0 p1 q0 q1 :
  q1 == p1 + p0 * (tn - tp) -> samp1 tn q0 q1 tn == samp1 tp p0 p1 tn.
Proof. intros H. unfold samp1. rewrite H. ring. Qed.
Theorem irf_cont2 tp tn p0 p1 p2 q0 q1 q2 :
  q2 == p2 + p1 * (tn - tp) + p0 * (tn - tp) * (tn - tp) / 2 -> samp2 tn q0 q1 q2 tn == samp2 tp p0 p1 p2 tn.
Proof. intros H. unfold samp2. rewrite H. field. Qed.
(* inside an interval the level-2 polynomial has the level-1 polynomial as derivative, and the level-1 one
   has the Wiener-Levy value as derivative (polynomials in delta = t0 - tk) *)
Lemma irf_sampler_derivative a0 a1 a2 :
  Forall2 Qeq (pderiv [a2; a1; a0 / 2]) [a1; a0] /\ Forall2 Qeq (pderiv [a1; a0]) [a0].
Proof.
  split; unfold pderiv; cbn [pder]; simpl Z.add; unfold inject_Z; repeat constructor; field.
Qed.

(* ---- the sampler on a state with full tables *)
Lemma tq_map (f : Q * Q * Q -> Q) rows k :
  (Z.to_nat k < length rows)%nat -> tq (map f rows) k = f (nth (Z.to_nat k) rows rz).
Proof.
  intros H. unfold tq. rewrite (nth_indep _ 0 (f rz)) by (rewrite map_length; lia). apply map_nth.
Qed.

Lemma irfSample_full2 s k t0 : (0 <= k < Z.of_nat (length (tb_t s)))%Z ->
  length (tb_v0 s) = length (tb_t s) -> length (tb_v1 s) = length (tb_t s) -> length (tb_v2 s) = length (tb_t s) ->
  irfSample s k t0 = Some (Some (samp2 (tq (tb_t s) k) (tq (tb_v0 s) k) (tq (tb_v1 s) k) (tq (tb_v2 s) k) t0)).
Proof.
  intros Hk H0 H1 H2. unfold irfSample. rewrite (rd_some (tb_t s) k) by lia.
  rewrite (rd_some (tb_v0 s) k) by lia. rewrite (rd_some (tb_v1 s) k) by lia. rewrite (rd_some (tb_v2 s) k) by lia.
  destruct (tb_v0 s); [simpl in H0; lia|]. destruct (tb_v1 s); [simpl in H1; lia|].
  destruct (tb_v2 s); [simpl in H2; lia|]. reflexivity.
Qed.
Lemma irfSample_full1 s k t0 : (0 <= k < Z.of_nat (length (tb_t s)))%Z ->
  length (tb_v0 s) = length (tb_t s) -> length (tb_v1 s) = length (tb_t s) -> tb_v2 s = [] ->
  irfSample s k t0 = Some (Some (samp1 (tq (tb_t s) k) (tq (tb_v0 s) k) (tq (tb_v1 s) k) t0)).
Proof.
  intros Hk H0 H1 H2. unfold irfSample. rewrite (rd_some (tb_t s) k) by lia.
  rewrite (rd_some (tb_v0 s) k) by lia. rewrite (rd_some (tb_v1 s) k) by lia. rewrite H2.
  destruct (tb_v0 s); [simpl in H0; lia|]. destruct (tb_v1 s); [simpl in H1; lia|]. reflexivity.
Qed.

Lemma irf_rows_length old t g : length g = pred (length t) -> t <> [] -> length (irf_rows old t g) = length t.
Proof.
  intros Hg Ht. destruct t as [|t0 ts]; [contradiction|]. unfold irf_rows.
  destruct old; simpl; [rewrite irf_loop_old_length|rewrite irf_loop_length]; simpl in Hg; rewrite Hg, Nat.min_id; reflexivity.
Qed.

Lemma irfSample_state2 old t g k t0 : length g = pred (length t) ->
  (0 <= k < Z.of_nat (length t))%Z ->
  let rows := irf_rows old t g in let r := nth (Z.to_nat k) rows rz in
  irfSample (irf_state old 2 t g) k t0 = Some (Some (samp2 (tq t k) (r0 r) (r1 r) (r2 r) t0)).
Proof.
  intros Hg Hk rows r.
  assert (Ht : t <> []) by (destruct t; [simpl in Hk; lia|discriminate]).
  pose proof (irf_rows_length old t g Hg Ht) as HL.
  unfold irf_state, irf_tables.
  change (0 <=? 2)%Z with true; change (1 <=? 2)%Z with true; change (2 <=? 2)%Z with true. cbv beta iota.
  rewrite irfSample_full2; cbn [tb_t tb_v0 tb_v1 tb_v2];
    try (rewrite map_length; exact HL); try exact Hk.
  rewrite !tq_map by (rewrite HL; lia). reflexivity.
Qed.
Lemma irfSample_state1 old t g k t0 : length g = pred (length t) ->
  (0 <= k < Z.of_nat (length t))%Z ->
  let rows := irf_rows old t g in let r := nth (Z.to_nat k) rows rz in
  irfSample (irf_state old 1 t g) k t0 = Some (Some (samp1 (tq t k) (r0 r) (r1 r) t0)).
Proof.
  intros Hg Hk rows r.
  assert (Ht : t <> []) by (destruct t; [simpl in Hk; lia|discriminate]).
  pose proof (irf_rows_length old t g Hg Ht) as HL.
  unfold irf_state, irf_tables.
  change (0 <=? 1)%Z with true; change (1 <=? 1)%Z with true; change (2 <=? 1)%Z with false. cbv beta iota.
  rewrite irfSample_full1; cbn [tb_t tb_v0 tb_v1 tb_v2];
    try (rewrite map_length; exact HL); try exact Hk; try reflexivity.
  rewrite !tq_map by (rewrite HL; lia). reflexivity.
Qed.

(* rows of irf_rows obey the step relations *)
Lemma irf_rows_step_old t g i : length g = pred (length t) -> (S i < length t)%nat ->
  let rows := irf_rows true t g in
  let p := nth i rows rz in let q := nth (S i) rows rz in
  let delta := nth (S i) t 0 - nth i t 0 in
  r0 q = r0 p + nth i g 0 /\ r1 q = r1 p + r0 q * delta /\ r2 q = r2 p + r1 q * delta + r0 q * delta * delta / 2.
Proof.
  intros Hg Hi. destruct t as [|t0 ts]; [simpl in Hi; lia|].
  unfold irf_rows. apply (irf_loop_old_step ts g t0 (0, 0, 0) i); simpl in *; lia.
Qed.
Lemma irf_rows_step t g i : length g = pred (length t) -> (S i < length t)%nat ->
  let rows := irf_rows false t g in
  let p := nth i rows rz in let q := nth (S i) rows rz in
  let delta := nth (S i) t 0 - nth i t 0 in
  r0 q = r0 p + nth i g 0 /\ r1 q = r1 p + r0 p * delta /\ r2 q = r2 p + r1 p * delta + r0 p * delta * delta / 2.
Proof.
  intros Hg Hi. destruct t as [|t0 ts]; [simpl in Hi; lia|].
  unfold irf_rows. apply (irf_loop_step ts g t0 (0, 0, 0) i); simpl in *; lia.
Qed.

(* REGRESSION, END TO END, recurrences before commit 61380c95b, level 1 (ORDER3_GC): value at the Poisson point t[i+1] taken in its own
   interval minus the value reached from the interval on its left = g_i * (t[i+1] - t[i]) *)
Theorem old_irf_level1_jump t g i : length g = pred (length t) -> (S i < length t)%nat ->
  exists L R, irfSample (irf_state true 1 t g) (Z.of_nat i) (nth (S i) t 0) = Some (Some L)
           /\ irfSample (irf_state true 1 t g) (Z.of_nat (S i)) (nth (S i) t 0) = Some (Some R)
           /\ R - L == nth i g 0 * (nth (S i) t 0 - nth i t 0).
Proof.
  intros Hg Hi.
  destruct (irf_rows_step_old t g i Hg Hi) as (S0 & S1 & _).
  set (p := nth i (irf_rows true t g) rz) in *. set (q := nth (S i) (irf_rows true t g) rz) in *.
  exists (samp1 (nth i t 0) (r0 p) (r1 p) (nth (S i) t 0)), (samp1 (nth (S i) t 0) (r0 q) (r1 q) (nth (S i) t 0)).
  split.
  { pose proof (irfSample_state1 true t g (Z.of_nat i) (nth (S i) t 0) Hg ltac:(lia)) as E.
    cbv zeta in E. unfold tq in E. rewrite Nat2Z.id in E. exact E. }
  split.
  { pose proof (irfSample_state1 true t g (Z.of_nat (S i)) (nth (S i) t 0) Hg ltac:(lia)) as E.
    cbv zeta in E. unfold tq in E. rewrite Nat2Z.id in E. exact E. }
  rewrite (irf_jump1_old (nth i t 0) (nth (S i) t 0) (r0 p) (r1 p) (r0 q) (r1 q)).
  - rewrite S0. ring.
  - rewrite S1. reflexivity.
Qed.
(* REGRESSION, recurrences before commit 61380c95b, level 2 (ORDER5_GC) *)
Theorem old_irf_level2_jump t g i : length g = pred (length t) -> (S i < length t)%nat ->
  exists L R, irfSample (irf_state true 2 t g) (Z.of_nat i) (nth (S i) t 0) = Some (Some L)
           /\ irfSample (irf_state true 2 t g) (Z.of_nat (S i)) (nth (S i) t 0) = Some (Some R)
           /\ R - L == (r0 (nth (S i) (irf_rows true t g) rz) + nth i g 0 / 2)
                       * (nth (S i) t 0 - nth i t 0) * (nth (S i) t 0 - nth i t 0).
Proof.
  intros Hg Hi.
  destruct (irf_rows_step_old t g i Hg Hi) as (S0 & S1 & S2).
  set (p := nth i (irf_rows true t g) rz) in *. set (q := nth (S i) (irf_rows true t g) rz) in *.
  exists (samp2 (nth i t 0) (r0 p) (r1 p) (r2 p) (nth (S i) t 0)), (samp2 (nth (S i) t 0) (r0 q) (r1 q) (r2 q) (nth (S i) t 0)).
  split.
  { pose proof (irfSample_state2 true t g (Z.of_nat i) (nth (S i) t 0) Hg ltac:(lia)) as E.
    cbv zeta in E. unfold tq in E. rewrite Nat2Z.id in E. exact E. }
  split.
  { pose proof (irfSample_state2 true t g (Z.of_nat (S i)) (nth (S i) t 0) Hg ltac:(lia)) as E.
    cbv zeta in E. unfold tq in E. rewrite Nat2Z.id in E. exact E. }
  rewrite (irf_jump2_old (nth i t 0) (nth (S i) t 0) (r0 p) (r1 p) (r2 p) (r0 q) (r1 q) (r2 q)).
  - fold q. rewrite S0. field.
  - rewrite S1. reflexivity.
  - rewrite S2. reflexivity.
Qed.
(* the code as it is: continuity of levels 1 and 2 at every Poisson point *)
Theorem irf_level1_continuous t g i : length g = pred (length t) -> (S i < length t)%nat ->
  exists L R, irfSample (irf_state false 1 t g) (Z.of_nat i) (nth (S i) t 0) = Some (Some L)
           /\ irfSample (irf_state false 1 t g) (Z.of_nat (S i)) (nth (S i) t 0) = Some (Some R)
           /\ R == L.
Proof.
  intros Hg Hi.
  destruct (irf_rows_step t g i Hg Hi) as (S0 & S1 & _).
  set (p := nth i (irf_rows false t g) rz) in *. set (q := nth (S i) (irf_rows false t g) rz) in *.
  exists (samp1 (nth i t 0) (r0 p) (r1 p) (nth (S i) t 0)), (samp1 (nth (S i) t 0) (r0 q) (r1 q) (nth (S i) t 0)).
  split.
  { pose proof (irfSample_state1 false t g (Z.of_nat i) (nth (S i) t 0) Hg ltac:(lia)) as E.
    cbv zeta in E. unfold tq in E. rewrite Nat2Z.id in E. exact E. }
  split.
  { pose proof (irfSample_state1 false t g (Z.of_nat (S i)) (nth (S i) t 0) Hg ltac:(lia)) as E.
    cbv zeta in E. unfold tq in E. rewrite Nat2Z.id in E. exact E. }
  apply irf_cont1. rewrite S1. reflexivity.
Qed.
Theorem irf_level2_continuous t g i : length g = pred (length t) -> (S i < length t)%nat ->
  exists L R, irfSample (irf_state false 2 t g) (Z.of_nat i) (nth (S i) t 0) = Some (Some L)
           /\ irfSample (irf_state false 2 t g) (Z.of_nat (S i)) (nth (S i) t 0) = Some (Some R)
           /\ R == L.
Proof.
  intros Hg Hi.
  destruct (irf_rows_step t g i Hg Hi) as (S0 & S1 & S2).
  set (p := nth i (irf_rows false t g) rz) in *. set (q := nth (S i) (irf_rows false t g) rz) in *.
  exists (samp2 (nth i t 0) (r0 p) (r1 p) (r2 p) (nth (S i) t 0)), (samp2 (nth (S i) t 0) (r0 q) (r1 q) (r2 q) (nth (S i) t 0)).
  split.
  { pose proof (irfSample_state2 false t g (Z.of_nat i) (nth (S i) t 0) Hg ltac:(lia)) as E.
    cbv zeta in E. unfold tq in E. rewrite Nat2Z.id in E. exact E. }
  split.
  { pose proof (irfSample_state2 false t g (Z.of_nat (S i)) (nth (S i) t 0) Hg ltac:(lia)) as E.
    cbv zeta in E. unfold tq in E. rewrite Nat2Z.id in E. exact E. }
  apply irf_cont2. rewrite S2. reflexivity.
Qed.

(* the tables of the code are the integrals that the sampler assumes: over [t_i, t_{i+1}] the Wiener-Levy path is the
   constant v0[i], its integral is the polynomial v1[i] + v0[i] s (s = abscissa - t_i), and
   v1[i+1] = v1[i] + integral_0^delta v0[i] ds,  v2[i+1] = v2[i] + integral_0^delta (v1[i] + v0[i] s) ds *)
Theorem irf_tables_are_integrals t g i : length g = pred (length t) -> (S i < length t)%nat ->
  let rows := irf_rows false t g in
  let p := nth i rows rz in let q := nth (S i) rows rz in
  let delta := nth (S i) t 0 - nth i t 0 in
  r0 q == r0 p + nth i g 0 /\ r1 q == r1 p + integ [r0 p] 0 delta /\ r2 q == r2 p + integ [r1 p; r0 p] 0 delta.
Proof.
  intros Hg Hi. destruct (irf_rows_step t g i Hg Hi) as (S0 & S1 & S2).
  cbv zeta. rewrite S0, S1, S2. unfold integ, pint. cbn [pin peval]. simpl Z.add. unfold inject_Z.
  repeat split; try reflexivity; field.
Qed.

(* REGRESSION: the statement "the sampled integrated process is continuous at the Poisson points" was FALSE before
   commit 61380c95b (witness t = 0,1,2, g = 1,1) *)
Definition irf_witness_t : list Q := [0; 1; 2].
Definition irf_witness_g : list Q := [1; 1].
Theorem old_irf_continuity_refuted :
  exists t g L R, incr t /\ length g = pred (length t)
    /\ irfSample (irf_state true 1 t g) 0 (tq t 1) = Some (Some L)
    /\ irfSample (irf_state true 1 t g) 1 (tq t 1) = Some (Some R)
    /\ ~ R == L.
Proof.
  exists irf_witness_t, irf_witness_g, 0, 1.
  split; [vm_compute; repeat split|].
  split; [reflexivity|].
  split; [vm_compute; reflexivity|].
  split; [vm_compute; reflexivity|].
  intro H. vm_compute in H. discriminate.
Qed.

(* C14 / part fft : wrap map, _setVariance cells, reindexing of box sums by the negation, real output, spectral coefficient. *)
From Coq Require Import List ZArith QArith Bool Lia Lqa.
From Gst Require Import C14.FFT C14.Proofs_fft_ops C14.Proofs_fft_sym.
Import ListNotations.
Local Open Scope Z_scope.

(* ---------------- 2. wrap map ---------------- *)
Lemma jnd_neg d h x : ev d h -> 0 <= x < d -> x <> h -> jnd d h (neg1 d x) = - jnd d h x.
Proof.
  intros [Hd Hh] Hx Hn. unfold jnd.
  destruct (neg1_spec d x Hx) as [[E1 E2]|[E1 E2]]; rewrite E2.
  - subst x. destruct (Z.leb_spec 0 h); lia.
  - destruct (Z.leb_spec (d - x) h), (Z.leb_spec x h); lia.
Qed.
Lemma jnd_nyquist d h : ev d h -> neg1 d h = h /\ jnd d h h = h.
Proof.
  intros [Hd Hh]. split; [apply neg1_eq; lia|]. unfold jnd. destruct (Z.leb_spec h h); lia.
Qed.
Lemma jnd_flat d h x : flat d h -> 0 <= x < d -> jnd d h (neg1 d x) = 0 /\ jnd d h x = 0.
Proof.
  intros [Hd Hh] Hx. assert (x = 0) by lia. subst x d h. split; reflexivity.
Qed.
Lemma jnd_range d h x : ev d h -> 0 <= x < d -> - h < jnd d h x <= h.
Proof. intros [Hd Hh] Hx. unfold jnd. destruct (Z.leb_spec x h); lia. Qed.

(* 1-D: for an even function of the lag the periodic array is even, Nyquist index included *)
Lemma cper_even_1d {A : Type} (f : Z -> A) d h x :
  (forall t, f (- t) = f t) -> ev d h -> 0 <= x < d -> f (jnd d h (neg1 d x)) = f (jnd d h x).
Proof.
  intros Hf He Hx. destruct (Z.eq_dec x h) as [E|E].
  - subst x. destruct (jnd_nyquist d h He) as [E1 E2]. rewrite E1. reflexivity.
  - rewrite jnd_neg by assumption. apply Hf.
Qed.

Lemma jnd_axis d h x : axis d h -> 0 <= x < d -> x <> h \/ h = 0 -> jnd d h (neg1 d x) = - jnd d h x.
Proof.
  intros [He|Hf] Hx Hn.
  - apply jnd_neg; try assumption. destruct He. lia.
  - destruct (jnd_flat d h x Hf Hx) as [E1 E2]. rewrite E1, E2. reflexivity.
Qed.

(* 3-D, covariance only centrally symmetric (general anisotropy): evenness away from the Nyquist planes *)
Lemma cper_even_central {A : Type} (F : Z -> Z -> Z -> A) d k :
  (forall a b c, F (- a) (- b) (- c) = F a b c) -> axes d -> inbox d k ->
  (let '(x, y, z) := k in (x <> hx d \/ hx d = 0) /\ (y <> hy d \/ hy d = 0) /\ (z <> hz d \/ hz d = 0)) ->
  cper d F (negc d k) = cper d F k.
Proof.
  destruct k as [[x y] z]. intros HF (Ax & Ay & Az). cbv beta iota delta [inbox cper negc].
  intros (Hx & Hy & Hz) (Nx & Ny & Nz).
  rewrite (jnd_axis _ _ x Ax Hx Nx), (jnd_axis _ _ y Ay Hy Ny), (jnd_axis _ _ z Az Hz Nz). apply HF.
Qed.

(* 3-D, covariance even in every coordinate (anisotropy along the grid axes): the whole array is even *)
Lemma jnd_axis_abs {A : Type} (f : Z -> A) d h x :
  (forall t, f (- t) = f t) -> axis d h -> 0 <= x < d -> f (jnd d h (neg1 d x)) = f (jnd d h x).
Proof.
  intros Hf [He|Hfl] Hx.
  - apply cper_even_1d; assumption.
  - destruct (jnd_flat d h x Hfl Hx) as [E1 E2]. rewrite E1, E2. reflexivity.
Qed.
Lemma cper_even_separable {A : Type} (F : Z -> Z -> Z -> A) d k :
  (forall a b c, F (- a) b c = F a b c) -> (forall a b c, F a (- b) c = F a b c) -> (forall a b c, F a b (- c) = F a b c) ->
  axes d -> inbox d k -> cper d F (negc d k) = cper d F k.
Proof.
  destruct k as [[x y] z]. intros H1 H2 H3 (Ax & Ay & Az). cbv beta iota delta [inbox cper negc].
  intros (Hx & Hy & Hz).
  rewrite (jnd_axis_abs (fun t => F t _ _) _ _ x (fun t => H1 t _ _) Ax Hx).
  rewrite (jnd_axis_abs (fun t => F _ t _) _ _ y (fun t => H2 _ t _) Ay Hy).
  rewrite (jnd_axis_abs (fun t => F _ _ t) _ _ z (fun t => H3 _ _ t) Az Hz).
  reflexivity.
Qed.

(* on a Nyquist plane a centrally symmetric but not separately even covariance (rotated anisotropy) gives an array that is
   NOT even: witness F(a,b,c) = a*b on the 4 x 4 grid at cell (2,1,0) *)
Lemma cper_nyquist_refuted :
  exists d (F : Z -> Z -> Z -> Z) k, (forall a b c, F (- a) (- b) (- c) = F a b c) /\ good_dims 2 d /\ inbox d k /\
    cper d F (negc d k) <> cper d F k.
Proof.
  exists (mkD 4 4 1), (fun a b _ => a * b), (2, 1, 0). split; [intros; lia|]. split.
  - unfold good_dims. simpl. split; [lia|]. split; [exists 2; lia|]. split; [exists 2; lia|reflexivity].
  - split; [simpl; lia|]. vm_compute. discriminate.
Qed.

(* ---------------- 5. _setVariance cells ---------------- *)
Lemma variance_cells_spec ndim d c : good_dims ndim d -> (In c (variance_cells ndim d) <-> Rc d c).
Proof.
  intros (Hn & (h0 & Hh0 & E0) & Hy & Hz).
  pose proof (ev_of _ _ Hh0 E0) as Ex. fold (hx d) in Ex.
  assert (C : ndim = 1 \/ ndim = 2 \/ ndim = 3) by lia.
  destruct c as [[x y] z].
  destruct C as [C|[C|C]]; subst ndim; cbn [Z.leb Z.compare Pos.compare Pos.compare_cont] in Hy, Hz;
    unfold variance_cells; cbv zeta; cbn [Z.eqb Pos.eqb].
  - pose proof (flat_of _ Hy) as [Fy1 Fy2]. pose proof (flat_of _ Hz) as [Fz1 Fz2]. fold (hy d) in Fy2. fold (hz d) in Fz2.
    rewrite (stride_ev _ _ Ex). destruct Ex as [Ex1 Ex2]. cbn [map In]. cbv beta iota delta [Rc inbox selfc].
    split.
    + intros [H|[H|[]]]; inversion H; subst; lia.
    + intros ((Bx & By & Bz) & (Sx & Sy & Sz)). assert (y = 0) by lia. assert (z = 0) by lia. subst y z.
      destruct Sx as [Sx|Sx]; subst x; auto.
  - destruct Hy as (h1 & Hh1 & E1). pose proof (ev_of _ _ Hh1 E1) as Ey. fold (hy d) in Ey.
    pose proof (flat_of _ Hz) as [Fz1 Fz2]. fold (hz d) in Fz2.
    rewrite (stride_ev _ _ Ex), (stride_ev _ _ Ey). destruct Ex as [Ex1 Ex2], Ey as [Ey1 Ey2].
    cbn [map flat_map app In]. cbv beta iota delta [Rc inbox selfc].
    split.
    + intros [H|[H|[H|[H|[]]]]]; inversion H; subst; lia.
    + intros ((Bx & By & Bz) & (Sx & Sy & Sz)). assert (z = 0) by lia. subst z.
      destruct Sx as [Sx|Sx], Sy as [Sy|Sy]; subst x y; auto 6.
  - destruct Hy as (h1 & Hh1 & E1). pose proof (ev_of _ _ Hh1 E1) as Ey. fold (hy d) in Ey.
    destruct Hz as (h2 & Hh2 & E2). pose proof (ev_of _ _ Hh2 E2) as Ez. fold (hz d) in Ez.
    rewrite (stride_ev _ _ Ex), (stride_ev _ _ Ey), (stride_ev _ _ Ez). destruct Ex as [Ex1 Ex2], Ey as [Ey1 Ey2], Ez as [Ez1 Ez2].
    cbn [map flat_map app In]. cbv beta iota delta [Rc inbox selfc].
    split.
    + intros [H|[H|[H|[H|[H|[H|[H|[H|[]]]]]]]]]; inversion H; subst; lia.
    + intros ((Bx & By & Bz) & (Sx & Sy & Sz)).
      destruct Sx as [Sx|Sx], Sy as [Sy|Sy], Sz as [Sz|Sz]; subst x y z; auto 10.
Qed.

Lemma variance_cells_are_zero_cells ndim d c :
  good_dims ndim d -> (In c (variance_cells ndim d) <-> In (Zero c) (define_symmetry ndim d)).
Proof.
  intro Hg. rewrite (variance_cells_spec ndim d c Hg).
  destruct (good_dims_ops ndim d Hg) as [_ (_ & G2 & _ & G4)]. split; [apply G4|apply G2].
Qed.

(* ---------------- 6. sums over the box ---------------- *)
Local Open Scope Q_scope.

Lemma sumn_ext n f g : (forall i, (i < n)%nat -> f i == g i) -> sumn n f == sumn n g.
Proof.
  induction n as [|n IH]; intro H; simpl; [reflexivity|].
  rewrite IH by (intros i Hi; apply H; lia). rewrite (H n) by lia. reflexivity.
Qed.
Lemma sumn_head n f : sumn (S n) f == f 0%nat + sumn n (fun i => f (S i)).
Proof.
  induction n as [|n IH]; [simpl; ring|].
  change (sumn (S (S n)) f) with (sumn (S n) f + f (S n)). rewrite IH. simpl. ring.
Qed.
(* reversal *)
Lemma sumn_rev n f : sumn n (fun i => f (n - 1 - i)%nat) == sumn n f.
Proof.
  induction n as [|n IH]; [reflexivity|].
  rewrite sumn_head. simpl sumn at 2.
  replace (S n - 1 - 0)%nat with n by lia.
  rewrite (sumn_ext n (fun i => f (S n - 1 - S i)%nat) (fun i => f (n - 1 - i)%nat)).
  - rewrite IH. ring.
  - intros i Hi. replace (S n - 1 - S i)%nat with (n - 1 - i)%nat by lia. reflexivity.
Qed.
Lemma sumn_opp n f : sumn n (fun i => - f i) == - sumn n f.
Proof. induction n as [|n IH]; simpl; [ring|]. rewrite IH. ring. Qed.

(* 1-D reindexing by the negation map: sum_{x<d} g(neg x) = sum_{x<d} g(x) *)
Lemma sumz_neg d (g : Z -> Q) : (0 < d)%Z -> sumz d (fun x => g (neg1 d x)) == sumz d g.
Proof.
  intro Hd. unfold sumz.
  destruct (Z.to_nat d) as [|n] eqn:En; [lia|].
  rewrite !sumn_head. cbv beta. change (Z.of_nat 0) with 0%Z.
  rewrite (neg1_0 d Hd).
  apply Qplus_comp; [reflexivity|].
  rewrite <- (sumn_rev n (fun i => g (Z.of_nat (S i)))).
  apply sumn_ext. intros i Hi.
  rewrite neg1_pos by lia.
  replace (d - Z.of_nat (S i))%Z with (Z.of_nat (S (n - 1 - i))) by lia. reflexivity.
Qed.
Lemma sumz_ext d f g : (forall x, (0 <= x < d)%Z -> f x == g x) -> sumz d f == sumz d g.
Proof. intro H. unfold sumz. apply sumn_ext. intros i Hi. apply H. lia. Qed.
Lemma sumz_opp d f : sumz d (fun x => - f x) == - sumz d f.
Proof. unfold sumz. apply sumn_opp. Qed.

Lemma sum_box_ext d f g : (forall k, inbox d k -> f k == g k) -> sum_box d f == sum_box d g.
Proof.
  intro H. unfold sum_box. apply sumz_ext. intros z Hz. apply sumz_ext. intros y Hy. apply sumz_ext. intros x Hx.
  apply H. cbv beta iota delta [inbox]. tauto.
Qed.
Lemma sum_box_opp d f : sum_box d (fun k => - f k) == - sum_box d f.
Proof.
  unfold sum_box.
  rewrite <- sumz_opp. apply sumz_ext. intros z _.
  rewrite <- sumz_opp. apply sumz_ext. intros y _.
  rewrite <- sumz_opp. reflexivity.
Qed.

(* reindexing of a box sum by the involution neg *)
Lemma sum_box_neg d (f : cell -> Q) :
  (0 < dx d)%Z -> (0 < dy d)%Z -> (0 < dz d)%Z -> sum_box d (fun k => f (negc d k)) == sum_box d f.
Proof.
  intros Hx Hy Hz. unfold sum_box. cbv beta iota delta [negc].
  rewrite <- (sumz_neg (dz d) (fun z => sumz (dy d) (fun y => sumz (dx d) (fun x => f (x, y, z)))) Hz).
  apply sumz_ext. intros z _.
  rewrite <- (sumz_neg (dy d) (fun y => sumz (dx d) (fun x => f (x, y, neg1 (dz d) z))) Hy).
  apply sumz_ext. intros y _.
  rewrite <- (sumz_neg (dx d) (fun x => f (x, neg1 (dy d) y, neg1 (dz d) z)) Hx).
  reflexivity.
Qed.

(* REAL OUTPUT: for a Hermitian pair (u,v), an even c and an odd s (the cosine and sine of any phase that is odd in k),
   the imaginary part of sum_k (u_k + i v_k)(c_k + i s_k) vanishes *)
Theorem hermitian_real_output d (u v c s : cell -> Q) :
  (0 < dx d)%Z -> (0 < dy d)%Z -> (0 < dz d)%Z ->
  herm_cell d u v ->
  (forall k, inbox d k -> c (negc d k) == c k) ->
  (forall k, inbox d k -> s (negc d k) == - s k) ->
  im_sum d u v c s == 0.
Proof.
  intros Hx Hy Hz Hh Hc Hs. unfold im_sum.
  set (g := fun k => u k * s k + v k * c k).
  assert (E : sum_box d g == - sum_box d g).
  { rewrite <- (sum_box_neg d g Hx Hy Hz) at 1. rewrite <- sum_box_opp. apply sum_box_ext.
    intros k Hk. unfold g. destruct (Hh k Hk) as [E1 E2]. rewrite E1, E2, (Hc k Hk), (Hs k Hk). ring. }
  lra.
Qed.

(* ---------------- 6b. anti-aliasing pass ---------------- *)
Lemma ssum_ext K f g : (forall k, (- Z.of_nat K <= k <= Z.of_nat K)%Z -> f k == g k) -> ssum K f == ssum K g.
Proof. intro H. unfold ssum. apply sumn_ext. intros i Hi. apply H. lia. Qed.
Lemma ssum_neg K g : ssum K (fun k => g (- k)%Z) == ssum K g.
Proof.
  unfold ssum. rewrite <- (sumn_rev (2 * K + 1) (fun i => g (Z.of_nat i - Z.of_nat K)%Z)).
  apply sumn_ext. intros i Hi.
  replace (- (Z.of_nat i - Z.of_nat K))%Z with (Z.of_nat (2 * K + 1 - 1 - i) - Z.of_nat K)%Z by lia. reflexivity.
Qed.
Lemma ssum3_neg K1 K2 K3 (G : Z -> Z -> Z -> Q) :
  ssum K1 (fun a => ssum K2 (fun b => ssum K3 (fun c => G (- a) (- b) (- c))%Z)) ==
  ssum K1 (fun a => ssum K2 (fun b => ssum K3 (fun c => G a b c))).
Proof.
  etransitivity; [|apply (ssum_neg K1 (fun a => ssum K2 (fun b => ssum K3 (fun c => G a b c))))].
  apply ssum_ext. intros a _. cbv beta.
  etransitivity; [|apply (ssum_neg K2 (fun b => ssum K3 (fun c => G (- a)%Z b c)))].
  apply ssum_ext. intros b _. cbv beta.
  apply (ssum_neg K3 (fun c => G (- a)%Z (- b)%Z c)).
Qed.

(* the summed array (any period p of the shifts, symmetric range of shifts) is even away from the Nyquist planes, for a covariance
   that is an arbitrary centrally symmetric function of the lag VECTOR *)
Lemma alias_sum_even p d (F : Z -> Z -> Z -> Q) Kx Ky Kz k :
  (forall a b c, F (- a)%Z (- b)%Z (- c)%Z == F a b c) -> axes d -> inbox d k ->
  (let '(x, y, z) := k in (x <> hx d \/ hx d = 0%Z) /\ (y <> hy d \/ hy d = 0%Z) /\ (z <> hz d \/ hz d = 0%Z)) ->
  alias_sum p d F Kx Ky Kz (negc d k) == alias_sum p d F Kx Ky Kz k.
Proof.
  destruct k as [[x y] z]. intros HF (Ax & Ay & Az). cbv beta iota delta [inbox alias_sum negc].
  intros (Hx & Hy & Hz) (Nx & Ny & Nz).
  rewrite (jnd_axis _ _ x Ax Hx Nx), (jnd_axis _ _ y Ay Hy Ny), (jnd_axis _ _ z Az Hz Nz).
  set (jx := jnd (dx d) (hx d) x). set (jy := jnd (dy d) (hy d) y). set (jz := jnd (dz d) (hz d) z).
  etransitivity; [|apply (ssum3_neg Kx Ky Kz (fun a b c => F (jx + a * dx p) (jy + b * dy p) (jz + c * dz p))%Z)].
  apply ssum_ext. intros a _. apply ssum_ext. intros b _. apply ssum_ext. intros c _. cbv beta.
  replace (- jx + a * dx p)%Z with (- (jx + - a * dx p))%Z by ring.
  replace (- jy + b * dy p)%Z with (- (jy + - b * dy p))%Z by ring.
  replace (- jz + c * dz p)%Z with (- (jz + - c * dz p))%Z by ring.
  apply HF.
Qed.
Lemma cper_alias_even d (F : Z -> Z -> Z -> Q) Kx Ky Kz k :
  (forall a b c, F (- a)%Z (- b)%Z (- c)%Z == F a b c) -> axes d -> inbox d k ->
  (let '(x, y, z) := k in (x <> hx d \/ hx d = 0%Z) /\ (y <> hy d \/ hy d = 0%Z) /\ (z <> hz d \/ hz d = 0%Z)) ->
  cper_alias d F Kx Ky Kz (negc d k) == cper_alias d F Kx Ky Kz k.
Proof. intros HF Ha Hb Hn. unfold cper_alias. rewrite (alias_sum_even d d F Kx Ky Kz k HF Ha Hb Hn). reflexivity. Qed.

(* with the period of the shifts equal to the extended dimension, every summed lag is congruent to the cell index modulo the
   period of the array: the summed array is the folding of the covariance modulo d (so it is periodic with the period of the FFT) *)
Lemma alias_fold d h x k : ev d h -> (0 <= x < d)%Z -> ((jnd d h x + k * d) mod d = x)%Z.
Proof.
  intros [Hd Hh] Hx. rewrite Z_mod_plus_full. unfold jnd. destruct (Z.leb_spec x h).
  - apply Z.mod_small. lia.
  - replace (x - d)%Z with (x + (-1) * d)%Z by ring. rewrite Z_mod_plus_full. apply Z.mod_small. lia.
Qed.
(* REGRESSION (before commit f6d25e5eb the shifts were multiples of the ORIGINAL grid size nx): the summed lags are not congruent to
   the cell index any more; witness extended size 8, original size 3, cell 0, shift 1: lag 3 lands in cell 0 *)
Lemma alias_fold_old_refuted : exists d h nx x k, ev d h /\ (0 <= x < d)%Z /\ ((jnd d h x + k * nx) mod d <> x)%Z.
Proof. exists 8%Z, 4%Z, 3%Z, 0%Z, 1%Z. split; [split; lia|]. split; [lia|]. vm_compute. discriminate. Qed.

(* REGRESSION (before commit cdb459fb2 the covariance was evaluated from the NORM of the lag only): an array built from a function
   of the squared norm is invariant under the exchange of the axes: it cannot carry any anisotropy *)
Lemma cper_norm_only_symmetric {A : Type} (g : Z -> A) d x y z :
  dx d = dy d ->
  cper d (fun a b c => g (a * a + b * b + c * c)%Z) (y, x, z) = cper d (fun a b c => g (a * a + b * b + c * c)%Z) (x, y, z).
Proof. intro E. cbv beta iota delta [cper hx hy]. rewrite E. f_equal. ring. Qed.

(* ---------------- 7. spectral coefficient ---------------- *)
(* CURRENT code: scale = sqrt(2/ns) sqrt(sill): the variance coefficient scale^2 ns / 2 is the sill, whatever ns *)
Lemma spectral_variance_is_sill scale0 ssill sill ns :
  scale0 * scale0 * ns == 2 -> ssill * ssill == sill ->
  spectral_varcoef ((scale0 * ssill) * (scale0 * ssill)) ns == sill.
Proof.
  intros H1 H2. unfold spectral_varcoef.
  transitivity ((scale0 * scale0 * ns) * (ssill * ssill) * (1 # 2)); [ring|]. rewrite H1, H2. ring.
Qed.
(* CURRENT code: the mean of the model is added, and the fluctuation is sqrt(sill) times the unit-sill one *)
Lemma spectral_mean cosv scale0 ssill mean sill' mean' gamma args :
  spectral_value cosv scale0 ssill mean gamma args == mean + ssill * spectral_value_old cosv scale0 sill' mean' gamma args.
Proof. unfold spectral_value, spectral_value_old. ring. Qed.

(* REGRESSION (before commit f398de2e6): with scale^2 ns = 2 the variance coefficient is 1 whatever ns and whatever the sill *)
Lemma spectral_varcoef_one scale2 ns : scale2 * ns == 2 -> spectral_varcoef scale2 ns == 1.
Proof. intro H. unfold spectral_varcoef. rewrite H. reflexivity. Qed.
Lemma spectral_value_old_ignores_sill cosv scale sill1 mean1 sill2 mean2 gamma args :
  spectral_value_old cosv scale sill1 mean1 gamma args = spectral_value_old cosv scale sill2 mean2 gamma args.
Proof. reflexivity. Qed.

(* second moment algebra: product-to-sum through the addition formulas, abstract cosine/sine values.
   cos(a+p) cos(b+p) = 1/2 [cos(a-b) + cos(a+b+2p)] written with ca = cos a, sa = sin a, cb, sb, c2 = cos 2p, s2 = sin 2p *)
Lemma product_to_sum ca sa cb sb cp sp :
  cp * cp + sp * sp == 1 ->
  (ca * cp - sa * sp) * (cb * cp - sb * sp) ==
  (1 # 2) * ((ca * cb + sa * sb) + ((ca * cb - sa * sb) * (cp * cp - sp * sp) - (sa * cb + ca * sb) * (2 * sp * cp))).
Proof. intro H. assert (E : sp * sp == 1 - cp * cp) by lra. ring_simplify. rewrite !E. nra. Qed.

(* REGRESSION, REFUTED for the old code: "the variance coefficient equals the sill" failed for sill = 4 *)
Lemma spectral_sill_refuted_old :
  exists sill ns scale2, 0 < sill /\ scale2 * ns == 2 /\ ~ spectral_varcoef scale2 ns == sill.
Proof.
  exists 4, 8, (1 # 4). split; [reflexivity|]. split; [reflexivity|]. intro H. vm_compute in H. discriminate H.
Qed.

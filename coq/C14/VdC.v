(* C14 / part vdc: the rational skeleton of the direction generator of the turning-bands simulator.
   Mirrors CalcSimuTurningBands::_generateDirections, /repo/src/Simulation/CalcSimuTurningBands.cpp:124-162.
   Executable definitions only (no proofs).  Numbers: int -> Z, double -> Q (exact). *)
From Coq Require Import List ZArith QArith Qround.
Import ListNotations.

(* ---------------------------------------------------------------- the loop, as written *)

(* CalcSimuTurningBands.cpp:145-150
       while (n > 0) { x[id] += (n % p) / d;  d *= p;  n /= p; }
   n, p are C++ int (n % p and n /= p truncate: Z.rem / Z.quot), d and x are double (here exact rationals).
   The loop is unbounded in the C++; here it carries an explicit fuel and returns None when the fuel runs out
   with n still positive (Proofs_vdc.vdc_loop_fuel_enough: never for the fuel given by vdc_fuel and p >= 2). *)
Fixpoint vdc_loop (fuel : nat) (p n : Z) (d x : Q) : option Q :=
  if (n >? 0)%Z then
    match fuel with
    | O => None
    | S f => vdc_loop f p (Z.quot n p) (d * inject_Z p) (x + inject_Z (Z.rem n p) / d)
    end
  else Some x.

(* enough iterations for every base >= 2: the number of binary digits of n *)
Definition vdc_fuel (n : Z) : nat := S (Z.to_nat (Z.log2 n)).

(* CalcSimuTurningBands.cpp:143-144 + loop: x = 0; double d = p; while ...   (error value -1: fuel exhausted, only p < 2) *)
Definition vdc (p n : Z) : Q :=
  match vdc_loop (vdc_fuel n) p n (inject_Z p) 0 with
  | Some x => x
  | None => -1
  end.

(* CalcSimuTurningBands.cpp:139-151, body of "for (int id = 0; id < 2; id++)" for band number ibs:
       int n = 1 + ibs;  int p = id + 2;  x[id] = 0;  double d = id + 2;  while ... *)
Definition vdc_x (id ibs : Z) : Q := vdc (id + 2) (1 + ibs).

(* ---------------------------------------------------------------- reference objects of the statements *)

Definition bpow (b : Z) (k : nat) : Z := (b ^ Z.of_nat k)%Z.

(* i-th digit of n in base b (i = 0: units) *)
Definition digit (b n : Z) (i : nat) : Z := ((n / bpow b i) mod b)%Z.

(* closed form: sum_{i < k} digit_i(n) * b^-(i+1) *)
Fixpoint radinv_sum (b n : Z) (k : nat) : Q :=
  match k with
  | O => 0
  | S k' => radinv_sum b n k' + inject_Z (digit b n k') / inject_Z (bpow b (S k'))
  end.

(* k-digit reversal in base b: digits d0 d1 .. d(k-1) of n (units first) -> the integer d0 b^(k-1) + ... + d(k-1) *)
Fixpoint rev (b : Z) (k : nat) (n : Z) : Z :=
  match k with
  | O => 0
  | S k' => ((n mod b) * bpow b k' + rev b k' (n / b))%Z
  end.

(* index of the b-adic interval of length b^-k that contains the n-th term: floor (b^k * x_n) *)
Definition bucket (b : Z) (k : nat) (n : Z) : Z := Qfloor (inject_Z (bpow b k) * vdc b n).

(* the integers a, a+1, ..., a+len-1 *)
Definition zrange (a len : Z) : list Z := map (fun i => (a + Z.of_nat i)%Z) (seq 0 (Z.to_nat len)).

(* explicit inverse of n |-> bucket b k n on the window n0 <= n < n0 + b^k: the index whose term falls in interval j *)
Definition window_sol (b : Z) (k : nat) (n0 j : Z) : Z := (n0 + (rev b k j - n0) mod bpow b k)%Z.

(* number of terms x_n, n0 <= n < n0 + N, that fall in the b-adic interval [j/b^k, (j+1)/b^k) *)
Definition hits (b : Z) (k : nat) (n0 N j : Z) : nat :=
  count_occ Z.eq_dec (map (bucket b k) (zrange n0 N)) j.

(* pair of interval indices of the n-th point in two bases (base b1: length b1^-a, base b2: length b2^-c); the C++ pairs
   base 2 (x[0], azimuth fraction) with base 3 (x[1], height) *)
Definition bucket2 (b1 b2 : Z) (a c : nat) (n : Z) : Z * Z := (bucket b1 a n, bucket b2 c n).

(* ---------------------------------------------------------------- after the Van der Corput step *)

(* CalcSimuTurningBands.cpp:155-158
       double sqr = sqrt(1. - x[1] * x[1]);
       codir = ( cos(2 pi x[0]) * sqr,  sin(2 pi x[0]) * sqr,  x[1] )
   c, s stand for cos / sin of 2 pi x[0] and q for sqrt(1 - x1^2): the irrational functions are NOT modelled, the
   statements about this definition quantify over numbers c s q with c^2 + s^2 = 1 and q^2 = 1 - x1^2. *)
Definition tb_dir (c s q x1 : Q) : Q * Q * Q := (c * q, s * q, x1).
Definition dir_z (v : Q * Q * Q) : Q := snd v.
Definition norm2 (v : Q * Q * Q) : Q :=
  let '(a, b, c) := v in a * a + b * b + c * c.

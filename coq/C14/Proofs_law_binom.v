(* C14 / law, proofs part 3: law_binomial, algorithm BINV, in exact arithmetic.
   The weights visited by the loop are the binomial probabilities; they sum to 1 > u, hence the loop returns
   within n+1 iterations a value of [0,n] - for every state and every p <> 1.  For p = 1 it never returns. *)
From Coq Require Import List ZArith QArith Qabs Qminmax Qround Qpower Bool Lia Lqa.
From Gst Require Import lib.QAux C13.Model C13.Proofs C14.Law C14.Proofs_law.
Import ListNotations.
Local Open Scope Q_scope.
Local Opaque lcg_next.

Definition qn (k : nat) : Q := inject_Z (Z.of_nat k).
Lemma qn_S k : qn (S k) == qn k + 1.
Proof. unfold qn. rewrite Nat2Z.inj_succ, <- Z.add_1_r, inject_Z_plus. reflexivity. Qed.
Lemma qn_nonneg k : 0 <= qn k.
Proof. unfold qn. change 0 with (inject_Z 0). rewrite <- Zle_Qle. lia. Qed.

Section Binomial.
Variable p : Q.
Let q := 1 - p.

(* binomial probabilities by Pascal's rule *)
Fixpoint bpmf (n x : nat) : Q :=
  match n with
  | O => match x with O => 1 | S _ => 0 end
  | S n' => match x with
            | O => q * bpmf n' O
            | S x' => q * bpmf n' (S x') + p * bpmf n' x'
            end
  end.
(* sum of the first k probabilities *)
Fixpoint bsum (n k : nat) : Q :=
  match k with O => 0 | S k' => bsum n k' + bpmf n k' end.

Lemma bpmf_above_eq : forall n x, (n < x)%nat -> bpmf n x == 0.
Proof.
  induction n as [|n IH]; intros x Hx; destruct x as [|x]; try lia; [reflexivity|].
  cbn [bpmf]. rewrite (IH (S x)), (IH x) by lia. ring.
Qed.

Lemma bsum_pascal n : forall k, bsum (S n) (S k) == q * bsum n (S k) + p * bsum n k.
Proof.
  induction k as [|k IH].
  - cbn [bsum bpmf]. ring.
  - change (bsum (S n) (S (S k))) with (bsum (S n) (S k) + bpmf (S n) (S k)).
    rewrite IH. change (bsum n (S (S k))) with (bsum n (S k) + bpmf n (S k)).
    change (bsum n (S k)) with (bsum n k + bpmf n k). cbn [bpmf]. ring.
Qed.

(* the probabilities of 0..n sum to (p + q)^n = 1 *)
Lemma bsum_total : forall n, bsum n (S n) == 1.
Proof.
  induction n as [|n IH].
  - cbn. ring.
  - rewrite bsum_pascal.
    change (bsum n (S (S n))) with (bsum n (S n) + bpmf n (S n)).
    rewrite (bpmf_above_eq n (S n)) by lia. rewrite IH. unfold q. ring.
Qed.

(* ratio of successive probabilities: the recurrence r *= (a / x) - s of the C++ *)
Lemma bpmf_ratio : forall n x, bpmf n (S x) * (qn x + 1) * q == bpmf n x * (qn n - qn x) * p.
Proof.
  induction n as [|n IH]; intro x.
  - cbn [bpmf]. destruct x as [|x].
    + unfold qn. simpl. ring.
    + ring.
  - destruct x as [|x].
    + pose proof (IH O) as I0. cbn [bpmf]. rewrite qn_S.
      change (qn 0) with 0 in *.
      set (A := bpmf n 1) in *. set (B := bpmf n 0) in *. set (N := qn n) in *.
      assert (S1 : q * (A * (0 + 1) * q) == q * (B * (N - 0) * p)) by (rewrite I0; reflexivity).
      lra.
    + pose proof (IH (S x)) as I1. pose proof (IH x) as I0. cbn [bpmf]. rewrite !qn_S in *.
      set (A := bpmf n (S (S x))) in *. set (B := bpmf n (S x)) in *. set (C := bpmf n x) in *.
      set (N := qn n) in *. set (X := qn x) in *.
      assert (S1 : q * (A * (X + 1 + 1) * q) == q * (B * (N - (X + 1)) * p)) by (rewrite I1; reflexivity).
      assert (S0 : p * (B * (X + 1) * q) == p * (C * (N - X) * p)) by (rewrite I0; reflexivity).
      lra.
Qed.

Lemma bpmf_0 n : bpmf n O == q ^ Z.of_nat n.
Proof.
  induction n as [|n IH].
  - reflexivity.
  - cbn [bpmf]. rewrite IH. rewrite Nat2Z.inj_succ, <- Z.add_1_r.
    destruct (Qeq_dec q 0) as [Z|NZ].
    + rewrite Z. rewrite (Qpower_0 (Z.of_nat n + 1)) by lia. ring.
    + rewrite Qpower_plus by exact NZ. simpl (q ^ 1). ring.
Qed.

Hypothesis q_nz : ~ q == 0.

(* one turn of the loop keeps "r is the probability of x" *)
Lemma binv_next n x r :
  r == bpmf n x -> r * (inject_Z (Z.of_nat n + 1) * (p / q) / inject_Z (Z.of_nat x + 1) - p / q) == bpmf n (S x).
Proof.
  intro Hr. pose proof (bpmf_ratio n x) as R.
  rewrite !inject_Z_plus. change (inject_Z 1) with 1. fold (qn n) (qn x).
  pose proof (qn_nonneg x) as X0.
  assert (NX : ~ qn x + 1 == 0) by (intro Z; lra).
  rewrite Hr.
  assert (E : bpmf n x * ((qn n + 1) * (p / q) / (qn x + 1) - p / q) == bpmf n x * (qn n - qn x) * p / ((qn x + 1) * q))
    by (field; split; assumption).
  rewrite E, <- R. field. split; assumption.
Qed.

(* the loop started at x with r = P(x) and u below the remaining mass returns a value of [x, n] within n - x + 1 turns *)
Lemma binv_returns n : forall (d x fuel : nat) u r mg,
  (x + d = n)%nat -> (d < fuel)%nat -> r == bpmf n x -> u + bsum n x < 1 ->
  exists xr m, binv_loop fuel (inject_Z (Z.of_nat n + 1) * (p / q)) (p / q) u r (Z.of_nat x) mg = Some (xr, m) /\
               (Z.of_nat x <= xr <= Z.of_nat n)%Z.
Proof.
  induction d as [|d IH]; intros x fuel u r mg Hx Hf Hr Hu; (destruct fuel as [|f]; [lia|]); cbn [binv_loop].
  - assert (x = n) by lia. subst x.
    pose proof (bsum_total n) as T. change (bsum n (S n)) with (bsum n n + bpmf n n) in T.
    destruct (qltb_spec u r) as [L|L]; [|exfalso; lra].
    do 2 eexists. split; [reflexivity|lia].
  - destruct (qltb_spec u r) as [L|L].
    + do 2 eexists. split; [reflexivity|lia].
    + replace (Z.of_nat x + 1)%Z with (Z.of_nat (S x)) by lia.
      destruct (IH (S x) f (u - r) (r * (inject_Z (Z.of_nat n + 1) * (p / q) / inject_Z (Z.of_nat (S x)) - p / q))
                   (Qmin mg (Qabs (u - r)))) as (xr & m & E & R); try lia.
      * replace (Z.of_nat (S x)) with (Z.of_nat x + 1)%Z by lia. apply binv_next. exact Hr.
      * change (bsum n (S x)) with (bsum n x + bpmf n x). lra.
      * exists xr, m. split; [exact E|lia].
Qed.
End Binomial.

(* law_binomial(n, p), n p < 30, p <> 1 : returns within n+1 turns a value of [0, n], one draw consumed *)
Lemma l_binomial_binv (fuel : nat) (n : Z) (p : Q) (v : Z) :
  (0 <= n)%Z -> ~ p == 1 -> inject_Z n * p < 30 -> (Z.to_nat n < fuel)%nat ->
  exists x m, l_binomial fuel n p v = Done (lcg_next v) (Some x) m /\ (0 <= x <= n)%Z.
Proof.
  intros Hn Hp Hnp Hf. unfold l_binomial.
  destruct (qltb_spec (inject_Z n * p) 30) as [_|N]; [|lra].
  unfold l_uniform. cbn iota beta.
  pose proof (u_of_open v) as [U0 U1]. set (u := u_of (lcg_next v)) in *.
  assert (Hq : ~ 1 - p == 0) by (intro Z; apply Hp; lra).
  set (nn := Z.to_nat n). assert (En : n = Z.of_nat nn) by (unfold nn; lia).
  rewrite En.
  destruct (binv_returns p Hq nn nn O fuel (0 + u * (1 - 0)) ((1 - p) ^ Z.of_nat nn) (Qabs (inject_Z (Z.of_nat nn) * p - 30)))
    as (xr & m & E & R); try lia.
  - symmetry. apply bpmf_0.
  - cbn [bsum]. lra.
  - change (Z.of_nat 0) with 0%Z in E. rewrite E. exists xr, m. split; [reflexivity|lia].
Qed.

(* whatever the fuel: a value returned by BINV lies in [0, n] ... *)
Lemma binv_loop_range : forall (fuel : nat) a s u r x mg xr m,
  binv_loop fuel a s u r x mg = Some (xr, m) -> (x <= xr < x + Z.of_nat fuel)%Z.
Proof.
  induction fuel as [|f IH]; intros a s u r x mg xr m H; [discriminate|].
  cbn [binv_loop] in H. destruct (qltb u r).
  - injection H as E _. lia.
  - apply IH in H. lia.
Qed.

(* ... and with p = 1 (q = 0, r = 0) the loop never returns: law_binomial(n, 1.) hangs for 1 <= n < 30 *)
Lemma binv_loop_stuck : forall (fuel : nat) a s u r x mg, 0 < u -> r == 0 -> binv_loop fuel a s u r x mg = None.
Proof.
  induction fuel as [|f IH]; intros a s u r x mg Hu Hr; [reflexivity|].
  cbn [binv_loop]. destruct (qltb_spec u r) as [L|L]; [lra|].
  apply IH; [lra|rewrite Hr; ring].
Qed.

Lemma l_binomial_p1_never_returns (fuel : nat) (n : Z) (v : Z) :
  (1 <= n < 30)%Z -> l_binomial fuel n 1 v = NoFuel (lcg_next v).
Proof.
  intro Hn. unfold l_binomial.
  assert (B : inject_Z n * 1 < 30) by (rewrite Qmult_1_r; change 30 with (inject_Z 30); rewrite <- Zlt_Qlt; lia).
  destruct (qltb_spec (inject_Z n * 1) 30) as [_|N]; [|lra].
  unfold l_uniform. cbn iota beta.
  pose proof (u_of_open v) as [U0 U1].
  rewrite binv_loop_stuck; [reflexivity|lra|].
  setoid_replace (1 - 1) with 0 by ring. apply Qpower_0. lia.
Qed.

(* ------------------------------------------------------------------ law_binomial with the p <-> 1-p flip (fixes/C14_8.patch) *)
Lemma l_binomial_flip_off (fuel : nat) n p v : l_binomial_flip false fuel n p v = l_binomial fuel n p v.
Proof. reflexivity. Qed.

(* for EVERY p (in particular every p of [0,1], p = 1 included) with n min(p,1-p) < 30: one draw, returns within n+1 turns
   a value of [0,n] *)
Lemma l_binomial_flip_total (fuel : nat) (n : Z) (p : Q) (v : Z) :
  (0 <= n)%Z -> inject_Z n * Qmin p (1 - p) < 30 -> (Z.to_nat n < fuel)%nat ->
  exists x m, l_binomial_flip true fuel n p v = Done (lcg_next v) (Some x) m /\ (0 <= x <= n)%Z.
Proof.
  intros Hn Hnp Hf. unfold l_binomial_flip. cbn [andb].
  destruct (qltb_spec (1 # 2) p) as [Hp|Hp].
  - assert (M : Qmin p (1 - p) == 1 - p) by (apply Q.min_r; lra).
    rewrite M in Hnp.
    destruct (l_binomial_binv fuel n (1 - p) v Hn ltac:(intro Z; lra) Hnp Hf) as (x & m & E & R).
    rewrite E. exists (n - x)%Z, m. split; [reflexivity|lia].
  - assert (M : Qmin p (1 - p) == p) by (apply Q.min_l; lra).
    rewrite M in Hnp.
    exact (l_binomial_binv fuel n p v Hn ltac:(intro Z; lra) Hnp Hf).
Qed.

(* p = 0 : the first test succeeds, 0 is returned *)
Lemma l_binomial_p0 (fuel : nat) (n : Z) (p : Q) (v : Z) :
  (0 <= n)%Z -> p == 0 -> (1 <= fuel)%nat -> exists m, l_binomial fuel n p v = Done (lcg_next v) (Some 0%Z) m.
Proof.
  intros Hn Hp Hf. unfold l_binomial.
  assert (B : inject_Z n * p < 30) by (rewrite Hp, Qmult_0_r; reflexivity).
  destruct (qltb_spec (inject_Z n * p) 30) as [_|N]; [|lra].
  unfold l_uniform. cbn iota beta. pose proof (u_of_open v) as [U0 U1].
  destruct fuel as [|f]; [lia|]. cbn [binv_loop].
  assert (R : (1 - p) ^ n == 1) by (setoid_replace (1 - p) with 1 by lra; apply Qpower_1).
  destruct (qltb_spec (0 + u_of (lcg_next v) * (1 - 0)) ((1 - p) ^ n)) as [L|L]; [|exfalso; lra].
  eexists. reflexivity.
Qed.

(* p = 1 with the flip: n is returned (the unflipped loop never returns: l_binomial_p1_never_returns) *)
Lemma l_binomial_flip_p1 (fuel : nat) (n : Z) (p : Q) (v : Z) :
  (0 <= n)%Z -> p == 1 -> (1 <= fuel)%nat -> exists m, l_binomial_flip true fuel n p v = Done (lcg_next v) (Some n) m.
Proof.
  intros Hn Hp Hf. unfold l_binomial_flip. cbn [andb].
  destruct (qltb_spec (1 # 2) p) as [_|N]; [|lra].
  destruct (l_binomial_p0 fuel n (1 - p) v Hn ltac:(lra) Hf) as (m & E). rewrite E.
  exists m. f_equal. f_equal. lia.
Qed.

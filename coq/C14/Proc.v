(* C14 part `proc`: the one-dimensional processes spread along each turning band.
   Executable definitions only (no proofs).  Every definition names the C++ it mirrors.
   Files mirrored: src/Simulation/TurningBandOperate.cpp (all of it),
   src/Simulation/CalcSimuTurningBands.cpp (_migrationInit, _dilutionInit, _irfProcessInit, _irfCorrec,
   _spreadRegularOnGrid, _spreadSpectralOnGrid, _getOmegaPhi, _spread*OnPoint),
   src/Covariances/Cov*.cpp::simulateTurningBand (dispatch table).
   Numbers: Q (exact), C `int` as Z.  A read outside a vector (undefined behaviour in C++:
   VectorT::operator[] is unprotected, include/Basic/VectorT.hpp:207-223) is the result [None]. *)
From Coq Require Import List ZArith QArith Qround Qminmax Bool.
From Gst Require Import lib.Sx lib.QAux.
Import ListNotations.
Local Open Scope Q_scope.

(* ------------------------------------------------------------------------------------------------ *)
(* Polynomials over Q as coefficient lists a0 + a1 x + a2 x^2 + ... (used by the covariance algebra)   *)
Definition poly := list Q.
Fixpoint peval (p : poly) (x : Q) : Q := match p with [] => 0 | a :: r => a + x * peval r x end.
(* formal derivative: coefficient of rank k (k counted from [k0]) is multiplied by k *)
Fixpoint pder (k : Z) (p : poly) : poly :=
  match p with [] => [] | a :: r => (inject_Z k * a) :: pder (k + 1) r end.
Definition pderiv (p : poly) : poly := match p with [] => [] | _ :: r => pder 1 r end.
(* formal antiderivative vanishing at 0 *)
Fixpoint pin (k : Z) (p : poly) : poly :=
  match p with [] => [] | a :: r => (a / inject_Z k) :: pin (k + 1) r end.
Definition pint (p : poly) : poly := 0 :: pin 1 p.
(* the integral of a polynomial over [a,b] (DEFINITION: value of the formal antiderivative) *)
Definition integ (p : poly) (a b : Q) : Q := peval (pint p) b - peval (pint p) a.
(* divided difference: p(x) - p(y) = (x - y) * dd p x y ; dd p x x = p'(x) *)
Fixpoint dd (p : poly) (x y : Q) : Q := match p with [] => 0 | a :: r => peval r x + y * dd r x y end.
Definition pmulx (p : poly) : poly := 0 :: p.

(* ------------------------------------------------------------------------------------------------ *)
(* State of a TurningBandOperate (include/Simulation/TurningBandOperate.hpp:75-86)                      *)
Record tbo := mkTbo {
  tb_nt0 : Z;            (* _nt0 : cached rank of the last Poisson interval *)
  tb_flagScaled : bool;  (* _flagScaled *)
  tb_vexp : Q; tb_tdeb : Q; tb_omega : Q; tb_phi : Q; tb_offset : Q; tb_scale : Q;
  tb_t : list Q; tb_v0 : list Q; tb_v1 : list Q; tb_v2 : list Q }.

Definition set_nt0 (s : tbo) (k : Z) : tbo :=
  mkTbo k (tb_flagScaled s) (tb_vexp s) (tb_tdeb s) (tb_omega s) (tb_phi s) (tb_offset s) (tb_scale s)
        (tb_t s) (tb_v0 s) (tb_v1 s) (tb_v2 s).

(* v[i] : None = read outside the vector *)
Definition rd (l : list Q) (i : Z) : option Q :=
  if (i <? 0)%Z then None else nth_error l (Z.to_nat i).
(* total reading used in statements *)
Definition tq (l : list Q) (i : Z) : Q := nth (Z.to_nat i) l 0.

(* strictly increasing vector (what _migrationInit builds, see migrationT) *)
Fixpoint incr (l : list Q) : Prop :=
  match l with a :: ((b :: _) as r) => a < b /\ incr r | _ => True end.

(* C conversion (int)(x): truncation toward zero *)
Definition qtrunc (q : Q) : Z := Z.quot (Qnum q) (Zpos (Qden q)).

(* ------------------------------------------------------------------------------------------------ *)
(* Dilution (shot noise) processes                                                                     *)
(* TurningBandOperate.cpp:86-89 and 97-100:  if (!isFlagScaled()) t0 /= scale; dt = t0 - getTdeb()/scale *)
Definition shot_dt (s : tbo) (t0 : Q) : Q :=
  let sc := tb_scale s in
  let t0' := if tb_flagScaled s then t0 else t0 / sc in
  t0' - tb_tdeb s / sc.
(* the affine and cubic shapes, TurningBandOperate.cpp:92 and :103 *)
Definition g_aff (x : Q) : Q := 2 * x - 1.
Definition g_cub (x : Q) : Q := x * (x - (1#2)) * (x - 1).
(* TurningBandOperate.cpp:84-93 shotNoiseAffineOne / :95-104 shotNoiseCubicOne *)
Definition shotGen (g : Q -> Q) (s : tbo) (t0 : Q) : option Q :=
  let dt := shot_dt s t0 in
  let nt0 := qtrunc dt in                  (* int nt0 = (int)(dt) *)
  let dt0 := dt - inject_Z nt0 in          (* double dt0 = dt - nt0 *)
  match rd (tb_t s) nt0 with Some e => Some (e * g dt0) | None => None end.
Definition shotAffine := shotGen g_aff.
Definition shotCubic := shotGen g_cub.
(* distance of dt to the nearest integer: margin of the truncation decision *)
Definition shot_margin (s : tbo) (t0 : Q) : Q :=
  let dt := shot_dt s t0 in
  let f := dt - inject_Z (Qfloor dt) in Qmin f (1 - f).

(* ------------------------------------------------------------------------------------------------ *)
(* Rank in the Poisson point process, TurningBandOperate.cpp:174-204                                    *)
(* `t0 >= t[k] && t0 < t[k+1]` with C short-circuit (t[k+1] is read only when the first test holds) *)
Definition in_cell (t : list Q) (t0 : Q) (k : Z) : option bool :=
  match rd t k with
  | None => None
  | Some a => if qleb a t0
              then match rd t (k + 1) with None => None | Some b => Some (qltb t0 b) end
              else Some false
  end.
(* dichotomy loop :195-202 ; fuel = number of iterations allowed ([None] also when it runs out:
   Proofs_proc_rank.dicho_inv shows it never does with fuel >= itn - itp) *)
Fixpoint dicho (fuel : nat) (t : list Q) (t0 : Q) (itp itn : Z) : option Z :=
  if (itn - itp >? 1)%Z then
    match fuel with
    | O => None
    | S f =>
        let it := Z.quot (itn + itp) 2 in
        match rd t it with
        | None => None
        | Some a => if qleb a t0 then dicho f t t0 it itn else dicho f t t0 itp it
        end
    end
  else Some itp.
Definition rankInPoisson (def_rank : Z) (t0 : Q) (t : list Q) : option Z :=
  let nt := Z.of_nat (length t) in
  match in_cell t t0 def_rank with                                                  (* :184 *)
  | None => None
  | Some true => Some def_rank
  | Some false =>
    match (if (def_rank <? nt - 2)%Z then in_cell t t0 (def_rank + 1) else Some false) with   (* :186 *)
    | None => None
    | Some true => Some (def_rank + 1)%Z
    | Some false =>
      match (if (def_rank >? 0)%Z then in_cell t t0 (def_rank - 1) else Some false) with      (* :188 *)
      | None => None
      | Some true => Some (def_rank - 1)%Z
      | Some false => dicho (length t) t t0 0 (nt - 1)                                          (* :193-203 *)
      end
    end
  end.

(* TurningBandOperate.cpp:106-113 spectralOne: new state (cache) and value *)
Definition spectralOne (s : tbo) (t0 : Q) : option (tbo * Q) :=
  match rankInPoisson (tb_nt0 s) t0 (tb_t s) with
  | None => None
  | Some k =>
      match rd (tb_t s) (k + 1), rd (tb_t s) k with
      | Some b, Some a => Some (set_nt0 s k, if qltb (b + a) (2 * t0) then - tb_vexp s else tb_vexp s)
      | _, _ => None
      end
  end.
(* the same value without any cache: the interval is given *)
Definition spectralValue (vexp a b t0 : Q) : Q := if qltb (b + a) (2 * t0) then - vexp else vexp.

(* TurningBandOperate.cpp:140-163 _irfProcessSample.  outer None = read outside a vector; inner None = TEST *)
Definition irfSample (s : tbo) (nt0 : Z) (t0 : Q) : option (option Q) :=
  match rd (tb_t s) nt0 with
  | None => None
  | Some tk =>
    let delta := t0 - tk in                                                      (* :146 *)
    match tb_v0 s with
    | [] => Some None                                                            (* :147 *)
    | _ => match rd (tb_v0 s) nt0 with
      | None => None
      | Some a0 =>
        match tb_v1 s with
        | [] => Some (Some a0)                                                   (* :151-152 *)
        | _ => match rd (tb_v1 s) nt0 with
          | None => None
          | Some a1 =>
            match tb_v2 s with
            | [] => Some (Some (a1 + a0 * delta))                                (* :156-157 *)
            | _ => match rd (tb_v2 s) nt0 with
              | None => None
              | Some a2 => Some (Some (a2 + a1 * delta + a0 * delta * delta / 2))  (* :161 *)
              end
            end
          end
        end
      end
    end
  end.
(* TurningBandOperate.cpp:115-121 IRFProcessOne *)
Definition irfOne (s : tbo) (t0 : Q) : option (tbo * option Q) :=
  match rankInPoisson (tb_nt0 s) t0 (tb_t s) with
  | None => None
  | Some k => match irfSample s k t0 with None => None | Some v => Some (set_nt0 s k, v) end
  end.

(* sequences of calls on one object (the cache travels) *)
Fixpoint spectralSeq (s : tbo) (ts : list Q) : list (option (Z * Q)) :=
  match ts with
  | [] => []
  | t0 :: r => match spectralOne s t0 with
               | None => [None]                       (* undefined behaviour: the sequence stops *)
               | Some (s', v) => Some (tb_nt0 s', v) :: spectralSeq s' r
               end
  end.
Fixpoint irfSeq (s : tbo) (ts : list Q) : list (option (Z * option Q)) :=
  match ts with
  | [] => []
  | t0 :: r => match irfOne s t0 with
               | None => [None]
               | Some (s', v) => Some (tb_nt0 s', v) :: irfSeq s' r
               end
  end.

(* TurningBandOperate.cpp:123-130 cosineOne.  cos is external: [cosf] *)
Definition cosineOne (cosf : Q -> Q) (s : tbo) (t0 : Q) : Q :=
  if tb_flagScaled s then t0 - tb_offset s else cosf (tb_omega s * t0 + tb_phi s) - tb_offset s.
(* what the runner prints: (flagScaled, argument of cos or t0, offset) *)
Definition cosineArg (s : tbo) (t0 : Q) : Q := tb_omega s * t0 + tb_phi s.

(* ------------------------------------------------------------------------------------------------ *)
(* Initialisations, deterministic part (the random draws are inputs)                                  *)

(* CalcSimuTurningBands.cpp:629-641 _migrationInit, the Poisson points.  The non-negative increments
   e0, e1, incs are the draws -scale*log(u).  None = the list of draws was too short for the while loop. *)
Fixpoint mig_loop (incs : list Q) (value tmax : Q) : option (list Q) :=
  if qleb value tmax then                                                   (* :636 while (value <= tmax) *)
    match incs with
    | [] => None
    | e :: r => let value' := Qred (value + e) in                          (* :638 ; Qred: same number, reduced fraction *)
                match mig_loop r value' tmax with                          (* :639 *)
                | Some l => Some (value' :: l)
                | None => None
                end
    end
  else Some [].
Definition migrationT (tmin tmax e0 e1 : Q) (incs : list Q) : option (list Q) :=
  match mig_loop incs (tmin + e1) tmax with
  | Some l => Some ((tmin - e0) :: (tmin + e1) :: l)                          (* :631-634 *)
  | None => None
  end.
(* :627  if (scale < delta * eps) scale = delta * eps;   (eps = EPSILON5 = 1e-5, CalcSimuTurningBands.hpp:146) *)
Definition mig_eps : Q := 1 # 100000.
Definition mig_degenerate (tmin tmax scale : Q) : bool := qltb scale ((tmax - tmin) * mig_eps).
Definition mig_clamp (tmin tmax scale : Q) : Q :=
  if mig_degenerate tmin tmax scale then (tmax - tmin) * mig_eps else scale.
(* CalcSimuTurningBands.cpp:620-641 _migrationInit as it is: the scale is bounded below, then the Poisson points.
   x0, x1, xs = the unit exponential draws -log(u) (so that the increments are scale * x). *)
Definition migrationInitT (tmin tmax scale x0 x1 : Q) (xs : list Q) : option (list Q) :=
  let sc := mig_clamp tmin tmax scale in
  migrationT tmin tmax (sc * x0) (sc * x1) (map (Qmult sc) xs).
(* REGRESSION ONLY: _migrationInit as it was before commit e4e350f57 (kept for the regression theorems and for
   naming a reverted fix): when scale < (tmax - tmin) * eps the vector _t received ceil(delta / eps) N(0,1) draws
   (gs), which are NOT abscissae of a point process. *)
Definition mig_count (tmin tmax : Q) : Z := Qceiling ((tmax - tmin) / mig_eps).
Definition migrationInitT_old (tmin tmax scale : Q) (gs : list Q) (e0 e1 : Q) (incs : list Q) : option (list Q) :=
  if mig_degenerate tmin tmax scale then
    let n := Z.to_nat (mig_count tmin tmax) in
    if (n <=? length gs)%nat then Some (firstn n gs) else None
  else migrationT tmin tmax e0 e1 incs.
(* :612-613, 643 vexp = 1 - vexp1 + vexp2 * u *)
Definition vexp1 : Q := 1 # 10.
Definition vexp2 : Q := 1967708298 # 10000000000.
Definition vexp_of (u : Q) : Q := 1 - vexp1 + vexp2 * u.

(* CalcSimuTurningBands.cpp:666-674 _dilutionInit: tdeb = tmin - scale*u ; number of cells pushed *)
Definition dil_tdeb (tmin scale u : Q) : Q := tmin - scale * u.
Fixpoint dil_count (fuel : nat) (tdeb scale tmax : Q) (count : Z) : option Z :=
  if qleb (tdeb + inject_Z count * scale) tmax then              (* :669 while (tdeb + count*scale <= tmax) *)
    match fuel with O => None | S f => dil_count f tdeb scale tmax (count + 1) end
  else Some count.
(* :680-693 squared correction factors (correc = sqrt of these) *)
Definition correc2_spherical : Q := 3.
Definition correc2_cubic : Q := 840.
(* :767 _spectralInit returns sqrt(2.) *)
Definition correc2_spectral : Q := 2.

(* CalcSimuTurningBands.cpp:953-971 _irfProcessInit: rows (v0[i], v1[i], v2[i]) for i >= 1.
   g = the gaussian draws (one per i), ts = t[1..], tprev = t[i-1].  The Wiener-Levy path is right-continuous:
   the integrals over [t[i-1], t[i][ use the values reached at t[i-1] (val0_prev, val1_prev). *)
Fixpoint irf_loop (tprev : Q) (ts gs : list Q) (val0 val1 val2 : Q) : list (Q * Q * Q) :=
  match ts, gs with
  | ti :: ts', g :: gs' =>
      let val0' := val0 + g in                                              (* :960 *)
      let delta := ti - tprev in                                            (* :964 *)
      let val1' := val1 + val0 * delta in                                   (* :965 val0_prev *)
      let val2' := val2 + val1 * delta + val0 * delta * delta / 2 in       (* :969 val1_prev, val0_prev *)
      (val0', val1', val2') :: irf_loop ti ts' gs' val0' val1' val2'
  | _, _ => []
  end.
(* REGRESSION ONLY: the loop as it was before commit 61380c95b (kept for the regression theorems and for naming a
   reverted fix): the right-hand sides used the values AFTER the update, so that the tables were not the
   integrals of the path that _irfProcessSample evaluates. *)
Fixpoint irf_loop_old (tprev : Q) (ts gs : list Q) (val0 val1 val2 : Q) : list (Q * Q * Q) :=
  match ts, gs with
  | ti :: ts', g :: gs' =>
      let val0' := val0 + g in
      let delta := ti - tprev in
      let val1' := val1 + val0' * delta in                                  (* was: val1 += val0 * delta (NEW val0) *)
      let val2' := val2 + val1' * delta + val0' * delta * delta / 2 in     (* was: NEW val1, NEW val0 *)
      (val0', val1', val2') :: irf_loop_old ti ts' gs' val0' val1' val2'
  | _, _ => []
  end.
(* [old = false]: the code as it is; [old = true]: the regression variant *)
Definition irf_rows (old : bool) (t g : list Q) : list (Q * Q * Q) :=
  (0, 0, 0) ::                                                              (* :946-951 *)
  match t with
  | [] => []
  | t0 :: ts => (if old then irf_loop_old else irf_loop) t0 ts g 0 0 0
  end.
(* tables pushed for a given level (:936-940: LINEAR, ORDER1_GC -> 0; ORDER3_GC -> 1; ORDER5_GC -> 2) *)
Definition irf_tables (old : bool) (level : Z) (t g : list Q) : list Q * list Q * list Q :=
  let rows := irf_rows old t g in
  (if (0 <=? level)%Z then map (fun r => fst (fst r)) rows else [],
   if (1 <=? level)%Z then map (fun r => snd (fst r)) rows else [],
   if (2 <=? level)%Z then map (fun r => snd r) rows else []).
Definition irf_state (old : bool) (level : Z) (t g : list Q) : tbo :=
  let '(a0, a1, a2) := irf_tables old level t g in mkTbo 0 false 0 0 0 0 0 1 t a0 a1 a2.
(* CalcSimuTurningBands.cpp:1603-1625 _irfCorrec squared *)
Definition irfCorrec2 (level : Z) (theta1 scale : Q) : Q :=
  if (level =? 0)%Z then 4 * theta1 / scale
  else if (level =? 1)%Z then 48 * theta1 / scale / (scale * scale)
  else 1440 * theta1 / scale / (scale * scale * scale * scale).

(* ------------------------------------------------------------------------------------------------ *)
(* Spreading loops on a grid: three nested loops carrying a state (generic)                            *)
Section Grid3.
  Variables (St Ot : Type) (out : St -> Ot) (fx fy fz : St -> St).
  Fixpoint iter (n : nat) (f : St -> St) (s : St) : St := match n with O => s | S k => iter k f (f s) end.
  Fixpoint xloop (nx : nat) (s : St) : list Ot :=
    match nx with O => [] | S n => out s :: xloop n (fx s) end.
  Fixpoint yloop (ny nx : nat) (s : St) : list Ot :=
    match ny with O => [] | S n => xloop nx s ++ yloop n nx (fy s) end.
  Fixpoint zloop (nz ny nx : nat) (s : St) : list Ot :=
    match nz with O => [] | S n => yloop ny nx s ++ zloop n ny nx (fz s) end.
End Grid3.

(* pairs (c, s) = unit complex numbers ; product = addition formulas *)
Definition C2 := (Q * Q)%type.
Definition cmul (a b : C2) : C2 := (fst a * fst b - snd a * snd b, snd a * fst b + fst a * snd b).
Definition cadd (a b : C2) : C2 := (fst a + fst b, snd a + snd b).
Definition cconj (a : C2) : C2 := (fst a, - snd a).
Definition cnorm2 (a : C2) : Q := fst a * fst a + snd a * snd a.
Definition cone : C2 := (1, 0).
Definition czero : C2 := (0, 0).
Fixpoint cpow (a : C2) (n : nat) : C2 := match n with O => cone | S k => cmul (cpow a k) a end.
Definition ceq (a b : C2) : Prop := fst a == fst b /\ snd a == snd b.

(* CalcSimuTurningBands.cpp:1086-1114 _spreadSpectralOnGrid: the argument given to simulateTurningBand
   at every node, in the order of `ind`.  z0 = (c0z, s0z), px = (cxp, sxp), ... from _getOmegaPhi.
   :1090-1091, 1098-1099, 1106-1107  c1 = c0*cp - s0*sp ; s1 = s0*cp + c0*sp  = cmul *)
Definition spectralGrid (nx ny nz : nat) (z0 px py pz : C2) : list Q :=
  zloop C2 Q fst (fun z => cmul z px) (fun z => cmul z py) (fun z => cmul z pz) nz ny nx z0.
(* CalcSimuTurningBands.cpp:1049-1068 _spreadRegularOnGrid: the abscissa t0 given at every node *)
Definition regularGrid (nx ny nz : nat) (t00 dxp dyp dzp : Q) : list Q :=
  zloop Q Q (fun t => t) (fun t => t + dxp) (fun t => t + dyp) (fun t => t + dzp) nz ny nx t00.
(* tab[ind] is written only where activeArray[ind] (:1061, :1104) *)
Fixpoint masked {A} (mask : list bool) (l : list A) : list (option A) :=
  match mask, l with
  | m :: mr, a :: lr => (if m then Some a else None) :: masked mr lr
  | _, _ => []
  end.

(* ------------------------------------------------------------------------------------------------ *)
(* Which process each basic structure uses (src/Covariances/Cov*.cpp::simulateTurningBand)           *)
Inductive proc_kind := PShotAffine | PShotCubic | PSpectral | PIrf | PCosine.
(* code = rank used by the harness: 0 Spherical(CovSpherical.cpp:51) 1 Cubic(CovCubic.cpp:75)
   2 Exponential(:61) 3 Gaussian(:88) 4 Sincard(:59) 5 BesselJ(:70) 6 Linear(:56) 7 GC1(:56) 8 GC3(:59)
   9 GC5(:61) 10 Power(:65) 11 GCspline(:61) 12 Stable(:55, param) 13 Matern(:143, param) *)
Definition dispatch (code : Z) (param : Q) : option proc_kind :=
  match code with
  | 0%Z => Some PShotAffine | 1%Z => Some PShotCubic
  | 2%Z => Some PSpectral
  | 3%Z | 4%Z | 5%Z | 10%Z | 11%Z => Some PCosine
  | 6%Z | 7%Z | 8%Z | 9%Z => Some PIrf
  | 12%Z => Some (if qltb 1 param then PCosine else PSpectral)          (* CovStable.cpp:57 getParam() > 1 *)
  | 13%Z => Some (if qltb (1#2) param then PCosine else PSpectral)      (* CovMatern.cpp:145 getParam() > 0.5 *)
  | _ => None
  end.

(* ------------------------------------------------------------------------------------------------ *)
(* Specification objects used by the covariance algebra (Proofs_proc_poly.v)                           *)
(* 3-D model covariances on the reduced distance h in [0,1] as polynomials:
   CovSpherical.cpp:40-45  1 - 0.5*h*(3 - h*h) ;  CovCubic.cpp:40-47 (Horner form, see C_cub_horner) *)
Definition C_sph : poly := [1; -(3#2); 0; 1#2].
Definition C_cub : poly := [1; 0; -7; 35#4; 0; -(7#2); 0; 3#4].
Definition C_cub_horner (h : Q) : Q :=
  let h2 := h * h in 1 - h2 * (7 + h * (-(875#100) + h2 * ((35#10) - (75#100) * h2))).
(* the one-dimensional covariance whose average over the directions of R^3 is C :  C1 = d/dh (h C(h)) *)
Definition C1_of (C : poly) : poly := pderiv (pmulx C).
(* g(x) g(x+h) as a polynomial in x (coefficients depend on the lag h) *)
Definition sph_integrand (h : Q) : poly := [1 - 2 * h; 4 * h - 4; 4].
Definition cub_integrand (h : Q) : poly :=
  [0;
   (1#4) * h - (3#4) * h * h + (1#2) * h * h * h;
   (1#4) - (9#4) * h + (15#4) * h * h - (3#2) * h * h * h;
   -(3#2) + (13#2) * h - 6 * h * h + h * h * h;
   (13#4) - (15#2) * h + 3 * h * h;
   -3 + 3 * h;
   1].
(* all the sign vectors of length n, and the mean over them (independent fair signs) *)
Fixpoint signs (n : nat) : list (list Q) :=
  match n with O => [[]] | S k => map (cons 1) (signs k) ++ map (cons (-1)) (signs k) end.
Definition qsum (l : list Q) : Q := fold_right Qplus 0 l.
Definition sign_mean (n : nat) (f : list Q -> Q) : Q := qsum (map f (signs n)) / inject_Z (2 ^ Z.of_nat n).
(* (0.9 + vexp2 u)^2 as a polynomial in u *)
Definition vexp_sq_poly : poly := [(1 - vexp1) * (1 - vexp1); 2 * (1 - vexp1) * vexp2; vexp2 * vexp2].
(* finite sums indexed by j < n *)
Fixpoint csum (f : nat -> C2) (n : nat) : C2 := match n with O => czero | S k => cadd (csum f k) (f k) end.
Fixpoint qsumn (f : nat -> Q) (n : nat) : Q := match n with O => 0 | S k => qsumn f k + f k end.
Definition csub (a b : C2) : C2 := (fst a - fst b, snd a - snd b).
(* cos(a + phi_j), phi_j = phi0 + 2 pi j / N, as real parts of unit pairs: za = cis a, p0 = cis phi0, w = cis (2 pi / N) *)
Definition cos_phase (za p0 w : C2) (j : nat) : Q := fst (cmul za (cmul p0 (cpow w j))).

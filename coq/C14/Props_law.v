(* C14 part law: theorems (merged into coq/C14/Properties.v by the C14 builder; edit HERE, not in Properties.v) *)
From Coq Require List ZArith QArith Qabs Qminmax Bool Lqa Permutation.
From Gst Require lib.QAux C13.Model C13.Proofs C11.Model_vec C14.Law C14.Proofs_law C14.Proofs_law_loops C14.Proofs_law_binom.
Import List ZArith QArith Qabs Qminmax Bool Lqa Permutation.
Import lib.QAux C13.Model C13.Proofs C11.Model_vec C14.Law C14.Proofs_law C14.Proofs_law_loops C14.Proofs_law_binom.
Import ListNotations.
Local Open Scope Q_scope.
(* C14, part "law" - property theorems only (each closed by [exact] of a lemma of Proofs_law*.v).
   Scope: the clause of C14 "the basic random generators have the ... RANGES of the laws they claim to sample",
   for the old-style generator (Random_Old_Style = true), for EVERY state of the generator.  The moments are
   statistical statements and are not theorems.  The state is the integer Random_value; [lcg_next] is C13's step.
   ln / ex / sq / cs / tn / pw stand for log / exp / sqrt / cos / tan / pow of <math.h>: arbitrary functions
   constrained only by the hypotheses written in each statement. *)





(* ================================ law_uniform ================================ *)
(* law_uniform(a,b), a < b: one step of the generator, value strictly between a and b - whatever the state
   (also a state never seeded, 0, negative, or a multiple of 20000159). *)
Theorem C14_law_uniform_range : forall (a b : Q) (v : Z), a < b ->
  a < snd (l_uniform a b v) /\ snd (l_uniform a b v) < b.
Proof. exact l_uniform_range. Qed.
Print Assumptions C14_law_uniform_range.

Theorem C14_law_uniform01_range : forall v : Z, 0 < snd (l_uniform 0 1 v) /\ snd (l_uniform 0 1 v) < 1.
Proof. exact l_uniform01_range. Qed.

(* reversed bounds give a value strictly inside (b,a); equal bounds give that bound *)
Theorem C14_law_uniform_range_rev : forall (a b : Q) (v : Z), b < a ->
  b < snd (l_uniform a b v) /\ snd (l_uniform a b v) < a.
Proof. exact l_uniform_range_rev. Qed.
Theorem C14_law_uniform_degenerate : forall (a b : Q) (v : Z), a == b -> snd (l_uniform a b v) == a.
Proof. exact l_uniform_degenerate. Qed.

(* every call advances the state by exactly one step and leaves it in [1, 20000159) *)
Theorem C14_law_uniform_state : forall (a b : Q) (v : Z),
  fst (l_uniform a b v) = lcg_next v /\ (0 < fst (l_uniform a b v) < rnd_p)%Z.
Proof. intros a b v. split; [apply l_uniform_state | apply l_uniform_state_range]. Qed.

(* serial structure: from a state of [1,p) the next uniform is the fractional part of 105 times the current one -
   successive pairs of uniforms lie on 105 parallel lines of the unit square (a fact behind the "moments" clause,
   which itself stays statistical) *)
Theorem C14_law_uniform_serial_lattice : forall v : Z, (0 < v < rnd_p)%Z ->
  exists k : Z, (0 <= k < 105)%Z /\ u_of (lcg_next v) == 105 * u_of v - inject_Z k.
Proof. exact l_uniform_serial. Qed.
Print Assumptions C14_law_uniform_serial_lattice.

(* ================================ law_int_uniform / sampleInteger ================================ *)
(* law_int_uniform(a,b), a <= b, returns an integer of [a,b] for every state *)
Theorem C14_law_int_uniform_range : forall (a b v : Z), (a <= b)%Z ->
  (a <= snd (l_int_uniform a b v) <= b)%Z.
Proof. exact l_int_uniform_range. Qed.
Print Assumptions C14_law_int_uniform_range.

(* ... and every integer of [a,b] is returned from some state of [1,p), as long as the interval holds fewer
   than p = 20000159 integers: explicit witness state (105 is inverted modulo p) *)
Theorem C14_law_int_uniform_onto : forall (a b r : Z), (a <= r <= b)%Z -> (b - a + 1 < rnd_p)%Z ->
  (0 < int_uniform_witness (b - a + 1) (r - a) < rnd_p)%Z /\
  snd (l_int_uniform a b (int_uniform_witness (b - a + 1) (r - a))) = r.
Proof. exact l_int_uniform_onto. Qed.
Print Assumptions C14_law_int_uniform_onto.

(* both ends are reached from two fixed states: 11619140 (next state 1) and 8381019 (next state p-1) *)
Theorem C14_law_int_uniform_ends : forall (a b : Z), (a <= b)%Z -> (b - a + 1 < rnd_p)%Z ->
  snd (l_int_uniform a b 11619140) = a /\ snd (l_int_uniform a b 8381019) = b.
Proof. intros a b H1 H2. split; [apply l_int_uniform_low | apply l_int_uniform_high]; assumption. Qed.

(* sampleInteger(mini,maxi), mini <= maxi: round-half-away of a uniform of (mini-1/2, maxi+1/2) stays in [mini,maxi] *)
Theorem C14_sample_integer_range : forall (a b v : Z), (a <= b)%Z ->
  (a <= snd (l_sample_integer a b v) <= b)%Z.
Proof. exact l_sample_integer_range. Qed.
Print Assumptions C14_sample_integer_range.

(* ================================ law_gaussian / law_exponential ================================ *)
(* Box-Muller: exactly two draws; the argument of log lies in (0,1) (never 0: the value is finite for every
   state), the argument of cos in (0, 2 GV_PI) *)
Theorem C14_law_gaussian_args : forall v : Z,
  let '(v2, r1, r2) := gauss_args v in
  v2 = lcg_next (lcg_next v) /\ (0 < r1 /\ r1 < 1) /\ (0 < r2 /\ r2 < 2 * c_pi).
Proof. exact gauss_args_spec. Qed.
Print Assumptions C14_law_gaussian_args.

Theorem C14_law_gaussian_draws : forall (ln sq cs : Q -> Q) (mean sigma : Q) (v : Z),
  fst (l_gaussian ln sq cs mean sigma v) = lcg_next (lcg_next v).
Proof. exact l_gaussian_state. Qed.

(* the value is mean + sigma * sqrt(R) * cos(T) with R = -2 ln(r1) > 0 as soon as ln < 0 on (0,1) *)
Theorem C14_law_gaussian_form : forall ln sq cs : Q -> Q,
  (forall x : Q, 0 < x -> x < 1 -> ln x < 0) ->
  forall (mean sigma : Q) (v : Z),
  exists r1 r2 : Q, (0 < r1 /\ r1 < 1) /\ (0 < r2 /\ r2 < 2 * c_pi) /\ 0 < - (2) * ln r1 /\
    snd (l_gaussian ln sq cs mean sigma v) = sq (- (2) * ln r1) * cs r2 * sigma + mean.
Proof. exact l_gaussian_form. Qed.
Print Assumptions C14_law_gaussian_form.

(* law_exponential(lambda) > 0 for lambda > 0 (one draw) *)
Theorem C14_law_exponential_pos : forall ln : Q -> Q,
  (forall x : Q, 0 < x -> x < 1 -> ln x < 0) ->
  forall (lambda : Q) (v : Z), 0 < lambda ->
  fst (l_exponential ln lambda v) = lcg_next v /\ 0 < snd (l_exponential ln lambda v).
Proof. exact l_exponential_pos. Qed.
Print Assumptions C14_law_exponential_pos.

(* ================================ law_random_path ================================ *)
(* law_random_path(n) consumes n draws and returns a permutation of 0..n-1, for every state and every n (n = 0: empty) *)
Theorem C14_law_random_path_perm : forall (n : nat) (v : Z),
  fst (l_random_path n v) = lcg_iter n v /\
  Permutation (snd (l_random_path n v)) (map Z.of_nat (seq 0 n)).
Proof. exact l_random_path_perm. Qed.
Print Assumptions C14_law_random_path_perm.

(* ================================ law_poisson ================================ *)
(* final loop "p *= u; if (p < q) stop": every u is at most (P-1)/P, so for q > 0 the loop stops within [fuel]
   turns as soon as (P-1) p < q (P-1+fuel): termination for EVERY state with an explicit (linear) bound *)
Theorem C14_law_poisson_tail_terminates : forall (fuel : nat) (q p : Q) (v k : Z) (mg : Q),
  0 < q -> 0 <= p -> (1 <= fuel)%nat ->
  (qP - 1) * p < q * (qP - 1 + inject_Z (Z.of_nat fuel)) ->
  exists (st r : Z) (m : Q), pois_tail fuel q p v k mg = Done st r m /\ (k <= r < k + Z.of_nat fuel)%Z.
Proof. exact pois_tail_terminates. Qed.
Print Assumptions C14_law_poisson_tail_terminates.

(* law_poisson(t), t < 16, returns for every state (given exp(-t) > 0) a count of [0, fuel) *)
Theorem C14_law_poisson_small_terminates : forall (ln ex sq tn : Q -> Q) (pw : Q -> Q -> Q) (ee : Q) (fuel gfuel tfuel : nat) (t : Q) (v : Z),
  t < 16 -> 0 < ex (- t) -> (1 <= tfuel)%nat ->
  qP - 1 < ex (- t) * (qP - 1 + inject_Z (Z.of_nat tfuel)) ->
  exists (st r : Z) (m : Q),
    l_poisson ln ex sq tn pw ee fuel gfuel tfuel t v = Done st (Some r) m /\ (0 <= r < Z.of_nat tfuel)%Z.
Proof. exact l_poisson_small_terminates. Qed.

(* inner loop "if (u <= p) k++; if (n-- <= 1) stop": exactly n draws, k grows by at most n *)
Theorem C14_law_poisson_bern_count : forall (n : nat) (p : Q) (v k : Z) (mg : Q),
  let '(v', k', _) := pois_bern n p v k mg in v' = lcg_iter n v /\ (k <= k' <= k + Z.of_nat n)%Z.
Proof. exact pois_bern_spec. Qed.

(* whenever law_poisson returns a count (not ITEST), the count is >= 0 - any parameter, any state, any functions *)
Theorem C14_law_poisson_nonneg : forall (ln ex sq tn : Q -> Q) (pw : Q -> Q -> Q) (ee : Q) (fuel gfuel tfuel : nat) (t : Q) (v st r : Z) (m : Q),
  l_poisson ln ex sq tn pw ee fuel gfuel tfuel t v = Done st (Some r) m -> (0 <= r)%Z.
Proof. exact l_poisson_nonneg. Qed.
Print Assumptions C14_law_poisson_nonneg.

(* ================================ law_gamma / law_beta1 / law_beta2 ================================ *)
(* [ee] is GV_EE as compiled: the check reads "#define GV_EE" from include/geoslib_define.h at run time and hands the
   binary64 value to the model, so that model and code agree whatever the constant is. *)
(* law_gamma(alpha): TEST exactly when alpha <= 0 (no draw); otherwise, whenever the rejection loop exits, the value is
   >= 0, and > 0 for alpha <= 1 (+1e-5) - for any constant GV_EE >= 1.  Termination of the rejection loops depends on the
   draws: not proved. *)
Theorem C14_law_gamma_range : forall (ln ex sq tn : Q -> Q) (pw : Q -> Q -> Q) (ee : Q), 0 < ee ->
  (forall x : Q, 0 < x -> x < 1 -> ln x < 0) ->
  (forall x y : Q, 0 < x -> 0 < pw x y) ->
  forall (fuel : nat) (alpha : Q) (v st : Z) (r : option Q) (m : Q), 1 <= ee ->
  l_gamma ln ex sq tn pw ee fuel alpha v = Done st r m ->
  (alpha <= 0 -> r = None /\ st = v) /\
  (0 < alpha -> exists x : Q, r = Some x /\ 0 <= x /\ (alpha <= 1 -> 0 < x)).
Proof. exact l_gamma_range. Qed.
Print Assumptions C14_law_gamma_range.

(* Support gap as a function of the constant E = GV_EE > 0: for alpha < 1 the branch "value <= 1" returns values of ]0,1]
   and the branch "value > 1" values above -ln(1/E); no value of ]1, -ln(1/E)] is ever returned, whatever the state *)
Theorem C14_law_gamma_small_never_in_gap : forall (ln ex sq tn : Q -> Q) (pw : Q -> Q -> Q) (E : Q), 0 < E ->
  (forall x y : Q, 0 < x -> x <= 1 -> 0 < y -> pw x y <= 1) ->
  (forall x y : Q, 0 < x -> x < y -> ln x < ln y) ->
  forall (fuel : nat) (alpha : Q) (v st : Z) (x m : Q),
  0 < alpha -> alpha <= 1 -> c_1em5 <= Qabs (alpha - 1) ->
  l_gamma ln ex sq tn pw E fuel alpha v = Done st (Some x) m -> ~ in_gamma_gap ln E x.
Proof. exact l_gamma_never_in_gap. Qed.
Print Assumptions C14_law_gamma_small_never_in_gap.

(* that interval is empty exactly when -ln(1/E) <= 1 ... *)
Theorem C14_law_gamma_gap_empty_iff : forall (ln : Q -> Q) (E : Q),
  (forall x : Q, ~ in_gamma_gap ln E x) <-> - ln (1 / E) <= 1.
Proof. exact gamma_gap_empty_iff. Qed.
(* ... hence, for a logarithm with ln(1/E) = -ln E: empty when ln E = 1 (E = e: the two branches tile ]0,+inf[), and not
   empty as soon as ln E > 1 (E > e): ln E itself lies in it *)
Theorem C14_law_gamma_gap_empty_at_e : forall (ln : Q -> Q) (E : Q),
  ln (1 / E) == - ln E -> ln E == 1 -> forall x : Q, ~ in_gamma_gap ln E x.
Proof. exact gamma_gap_empty_at_e. Qed.
Theorem C14_law_gamma_gap_nonempty_above_e : forall (ln : Q -> Q) (E : Q),
  ln (1 / E) == - ln E -> 1 < ln E -> in_gamma_gap ln E (ln E).
Proof. exact gamma_gap_nonempty_above_e. Qed.
Print Assumptions C14_law_gamma_gap_empty_iff.

(* FINDING, regression instance (GV_EE = 2.732 in the pinned tree, ln 2.732 = 1.00503...): law_gamma(alpha < 1) never
   returns a value of ]1, 1.005], although the Gamma(alpha) law charges that interval (fixes/C14_9.patch) *)
Theorem C14_law_gamma_gap_gv_ee_2732 : forall (ln ex sq tn : Q -> Q) (pw : Q -> Q -> Q),
  (forall x y : Q, 0 < x -> x <= 1 -> 0 < y -> pw x y <= 1) ->
  (forall x y : Q, 0 < x -> x < y -> ln x < ln y) ->
  ln (1 / c_ee_2732) <= - (1005 # 1000) ->
  forall (fuel : nat) (alpha : Q) (v st : Z) (x m : Q),
  0 < alpha -> alpha <= 1 -> c_1em5 <= Qabs (alpha - 1) ->
  l_gamma ln ex sq tn pw c_ee_2732 fuel alpha v = Done st (Some x) m -> ~ (1 < x /\ x <= 1005 # 1000).
Proof. exact l_gamma_gap_2732. Qed.
Print Assumptions C14_law_gamma_gap_gv_ee_2732.

(* law_beta1 in [0,1], law_beta2 >= 0 whenever they return a value (exact arithmetic: 0/0 = 0) *)
Theorem C14_law_beta1_range : forall (ln ex sq tn : Q -> Q) (pw : Q -> Q -> Q) (ee : Q), 0 < ee ->
  (forall x : Q, 0 < x -> x < 1 -> ln x < 0) ->
  (forall x y : Q, 0 < x -> 0 < pw x y) ->
  forall (fuel : nat) (p1 p2 : Q) (v st : Z) (x m : Q), 1 <= ee ->
  l_beta1 ln ex sq tn pw ee fuel p1 p2 v = Done st (Some x) m -> 0 <= x /\ x <= 1.
Proof. exact l_beta1_range. Qed.
Theorem C14_law_beta2_range : forall (ln ex sq tn : Q -> Q) (pw : Q -> Q -> Q) (ee : Q), 0 < ee ->
  (forall x : Q, 0 < x -> x < 1 -> ln x < 0) ->
  (forall x y : Q, 0 < x -> 0 < pw x y) ->
  forall (fuel : nat) (p1 p2 : Q) (v st : Z) (x m : Q), 1 <= ee ->
  l_beta2 ln ex sq tn pw ee fuel p1 p2 v = Done st (Some x) m -> 0 <= x.
Proof. exact l_beta2_range. Qed.
Print Assumptions C14_law_beta1_range.

(* ================================ law_binomial (BINV) ================================ *)
(* n p < 30, p <> 1, exact arithmetic: the weights are the binomial probabilities, they sum to 1 > u, so the loop
   returns within n+1 turns a value of [0,n], having consumed one draw - for every state *)
Theorem C14_law_binomial_binv : forall (fuel : nat) (n : Z) (p : Q) (v : Z),
  (0 <= n)%Z -> ~ p == 1 -> inject_Z n * p < 30 -> (Z.to_nat n < fuel)%nat ->
  exists (x : Z) (m : Q), l_binomial fuel n p v = Done (lcg_next v) (Some x) m /\ (0 <= x <= n)%Z.
Proof. exact l_binomial_binv. Qed.
Print Assumptions C14_law_binomial_binv.

(* FINDING: with p = 1 (a legal event probability) and 1 <= n < 30 the BINV loop never returns, whatever the state.
   This is about the loop itself and holds in both trees; the p <-> 1-p flip of fixes/C14_8.patch makes it unreachable
   (C14_law_binomial_flip_total, C14_law_binomial_flip_p1) *)
Theorem C14_law_binomial_binv_returns_refuted : exists (n : Z) (p : Q),
  (0 <= n)%Z /\ 0 <= p /\ p <= 1 /\ inject_Z n * p < 30 /\
  forall (fuel : nat) (v : Z), l_binomial fuel n p v = NoFuel (lcg_next v).
Proof.
  exists 5%Z, 1.
  split; [discriminate|]. split; [discriminate|]. split; [discriminate|]. split; [reflexivity|].
  intros fuel v. apply l_binomial_p1_never_returns. split; [discriminate|reflexivity].
Qed.
Print Assumptions C14_law_binomial_binv_returns_refuted.

(* law_binomial as in the tree, [l_binomial_flip flip]: flip = the source starts with "if (p > 0.5) return n - law_binomial(n, 1. - p);"
   (probed by the check at run time); without the flip it is l_binomial *)
Theorem C14_law_binomial_flip_off : forall (fuel : nat) (n : Z) (p : Q) (v : Z),
  l_binomial_flip false fuel n p v = l_binomial fuel n p v.
Proof. exact l_binomial_flip_off. Qed.
(* with the flip: for EVERY p (so every p of [0,1], p = 1 included) with n min(p, 1-p) < 30 the function consumes one draw and
   returns within n+1 turns a value of [0,n]; p = 1 returns n *)
Theorem C14_law_binomial_flip_total : forall (fuel : nat) (n : Z) (p : Q) (v : Z),
  (0 <= n)%Z -> inject_Z n * Qmin p (1 - p) < 30 -> (Z.to_nat n < fuel)%nat ->
  exists (x : Z) (m : Q), l_binomial_flip true fuel n p v = Done (lcg_next v) (Some x) m /\ (0 <= x <= n)%Z.
Proof. exact l_binomial_flip_total. Qed.
Print Assumptions C14_law_binomial_flip_total.
Theorem C14_law_binomial_flip_p1 : forall (fuel : nat) (n : Z) (p : Q) (v : Z),
  (0 <= n)%Z -> p == 1 -> (1 <= fuel)%nat ->
  exists m : Q, l_binomial_flip true fuel n p v = Done (lcg_next v) (Some n) m.
Proof. exact l_binomial_flip_p1. Qed.

(* ================================ law_invcdf_gaussian ================================ *)
(* the bisection started on a bracket of width 0.002 runs exactly 15 times whatever the tests answer, and ends inside
   the bracket; outside (0,1) the function returns -10 / 10 *)
Theorem C14_law_invcdf_bisection : forall (dec : Q -> bool) (fuel : nat) (xmin x : Q), (15 <= fuel)%nat ->
  exists x' : Q, bisect fuel dec xmin (xmin + c_002) x 0 = Some (x', 15%nat) /\ xmin <= x' /\ x' <= xmin + c_002.
Proof. exact bisect_15. Qed.
Theorem C14_law_invcdf_spec : forall (ln ex sq rd : Q -> Q) (fuel : nat) (value : Q), (15 <= fuel)%nat ->
  (value <= 0 -> l_invcdf ln ex sq rd fuel value = Some (- (10), 0%nat)) /\
  (1 <= value -> l_invcdf ln ex sq rd fuel value = Some (10, 0%nat)) /\
  (0 < value -> value < 1 ->
   exists y : Q, l_invcdf ln ex sq rd fuel value = Some (if qltb value (1 # 2) then - y else y, 15%nat) /\
                 icdf_xmin ln sq rd value <= y /\ y <= icdf_xmin ln sq rd value + c_002).
Proof. exact l_invcdf_spec. Qed.
Print Assumptions C14_law_invcdf_spec.

(* ================================ non-vacuity ================================ *)
(* toy elementary functions satisfying the hypotheses used above *)
Definition toy_ln (x : Q) : Q := x - 1.
Definition toy_pw (x y : Q) : Q := x.
Definition toy_half (x : Q) : Q := 1 # 2.
Definition toy_id (x : Q) : Q := x.
Lemma C14_toy_ln_neg : forall x : Q, 0 < x -> x < 1 -> toy_ln x < 0.
Proof. intros x H0 H1. unfold toy_ln. lra. Qed.
Lemma C14_toy_ln_mono : forall x y : Q, 0 < x -> x < y -> toy_ln x < toy_ln y.
Proof. intros x y H0 H1. unfold toy_ln. lra. Qed.
Lemma C14_toy_pw_pos : forall x y : Q, 0 < x -> 0 < toy_pw x y.
Proof. intros x y H. exact H. Qed.
Lemma C14_toy_pw_le1 : forall x y : Q, 0 < x -> x <= 1 -> 0 < y -> toy_pw x y <= 1.
Proof. intros x y _ H _. exact H. Qed.

Example C14_law_uniform_range_nonvacuous :
  - (3) < 5 # 2 /\ fst (l_uniform (- (3)) (5 # 2) 1234) = 129570%Z /\
  - (3) < snd (l_uniform (- (3)) (5 # 2) 1234) /\ snd (l_uniform (- (3)) (5 # 2) 1234) < 5 # 2 /\
  fst (l_uniform 0 1 20000159) = 1%Z /\ fst (l_uniform 0 1 55380756) = 1%Z /\ fst (l_uniform 0 1 0) = 1%Z.
Proof. vm_compute. repeat split; reflexivity. Qed.

Example C14_law_uniform_serial_lattice_nonvacuous :
  (0 < 1234 < rnd_p)%Z /\ u_of (lcg_next 1234) == 105 * u_of 1234 - inject_Z 0 /\
  u_of (lcg_next 19000000) == 105 * u_of 19000000 - inject_Z 99.
Proof. vm_compute. repeat split; reflexivity. Qed.

Example C14_law_int_uniform_range_nonvacuous :
  map (fun v => snd (l_int_uniform (-3) 7 v)) [1; 1234; 20000159; 2147483647; 11619140; 8381019]%Z = [-3; -3; -3; 1; -3; 7]%Z /\
  snd (l_int_uniform (-3) 7 (int_uniform_witness 11 8)) = 5%Z /\ int_uniform_witness 11 8 = 2233784%Z /\
  map (fun v => snd (l_sample_integer (-3) 7 v)) [1; 1234; 2147483647; 11619140; 8381019]%Z = [-3; -3; 1; -3; 7]%Z.
Proof. vm_compute. repeat split; reflexivity. Qed.

Example C14_law_gaussian_nonvacuous :
  exists x, l_gaussian toy_ln toy_id toy_id 1 2 1234 = (13604850%Z, x) /\
            fst (l_exponential toy_ln (1 # 2) 1234) = 129570%Z /\ 0 < snd (l_exponential toy_ln (1 # 2) 1234).
Proof. eexists. vm_compute. repeat split; reflexivity. Qed.

Example C14_law_random_path_nonvacuous :
  snd (l_random_path 6 1234) = [0; 2; 4; 3; 1; 5]%Z /\ snd (l_random_path 0 1234) = [] /\ snd (l_random_path 1 0) = [0%Z].
Proof. vm_compute. repeat split; reflexivity. Qed.

(* the product loop: q = 1/1000 needs several turns; the bound of the theorem is satisfiable (q = 999/1000, fuel 30000) *)
Example C14_law_poisson_tail_nonvacuous :
  (exists st m, pois_tail 100 (1 # 1000) 1 1234 0 1 = Done st 4%Z m) /\
  (qP - 1) * 1 < (999 # 1000) * (qP - 1 + inject_Z (Z.of_nat (Z.to_nat 30000))) /\
  (exists st m, l_poisson toy_ln toy_half toy_id toy_id toy_pw c_ee_2732 10 10 100 3 1234 = Done st (Some 0%Z) m).
Proof. split; [|split]; [do 2 eexists; vm_compute; reflexivity | vm_compute; reflexivity | do 2 eexists; vm_compute; reflexivity]. Qed.

Example C14_law_gamma_range_nonvacuous :
  (exists st x m, l_gamma toy_ln toy_half toy_id toy_id toy_pw c_ee_2732 50 (1 # 2) 1234 = Done st (Some x) m /\ 0 < x /\ x <= 1) /\
  (exists st x m, l_gamma toy_ln toy_half toy_id toy_id toy_pw c_ee_2732 50 3 1234 = Done st (Some x) m /\ 0 <= x) /\
  (exists st x m, l_beta1 toy_ln toy_half toy_id toy_id toy_pw c_ee_2732 50 (1 # 2) 3 1234 = Done st (Some x) m /\ 0 <= x /\ x <= 1) /\
  c_1em5 <= Qabs ((1 # 2) - 1) /\ 1 <= c_ee_2732 /\
  (* the gap of the toy logarithm x - 1 for E = 2.732: ]1, 1 - 1/E] is empty; for the toy "ln" x/2 - 1/(2x) (odd in ln(1/E) = -ln E)
     ln E = 1.183 > 1 lies in the gap *)
  in_gamma_gap (fun x => x / 2 - 1 / (2 * x)) c_ee_2732 ((fun x => x / 2 - 1 / (2 * x)) c_ee_2732).
Proof.
  split; [|split; [|split; [|split; [|split]]]]; try (do 3 eexists; vm_compute; repeat split; try reflexivity; discriminate);
    try (vm_compute; discriminate).
  vm_compute. split; [reflexivity|discriminate].
Qed.

Example C14_law_binomial_binv_nonvacuous :
  (exists m, l_binomial 11 10 (1 # 2) 1234 = Done 129570%Z (Some 1%Z) m) /\
  (exists m, l_binomial 11 10 (1 # 2) 4321 = Done 453705%Z (Some 2%Z) m) /\
  ~ (1 # 2) == 1 /\ inject_Z 10 * (1 # 2) < 30.
Proof. split; [|split; [|split]]; [eexists; vm_compute; reflexivity | eexists; vm_compute; reflexivity | discriminate | reflexivity]. Qed.

Example C14_law_binomial_flip_nonvacuous :
  (exists m, l_binomial_flip true 34 33 (63 # 64) 1780014151 = Done 17874637%Z (Some 32%Z) m) /\
  (exists m, l_binomial_flip true 6 5 1 1234 = Done 129570%Z (Some 5%Z) m) /\
  inject_Z 33 * Qmin (63 # 64) (1 - (63 # 64)) < 30 /\
  l_binomial_flip false 34 33 (63 # 64) 1780014151 = Done 1780014151%Z None big_margin.
Proof. split; [|split; [|split]]; [eexists; vm_compute; reflexivity | eexists; vm_compute; reflexivity | reflexivity | vm_compute; reflexivity]. Qed.

Example C14_law_invcdf_nonvacuous :
  exists y, l_invcdf toy_ln toy_half toy_id toy_id 15 (3 # 4) = Some (y, 15%nat) /\
            l_invcdf toy_ln toy_half toy_id toy_id 15 0 = Some (- (10), 0%nat).
Proof. eexists. vm_compute. split; reflexivity. Qed.

(* C14 part proc: theorems (merged into coq/C14/Properties.v by the C14 builder; edit HERE, not in Properties.v) *)
From Coq Require List ZArith QArith Qabs Qround Bool.
From Gst Require lib.Sx lib.QAux C14.Proc C14.Proofs_proc_rank C14.Proofs_proc_poly C14.Proofs_proc_cplx C14.Proofs_proc_irf C14.Proofs_proc_eval.
Import List ZArith QArith Qabs Qround Bool.
Import lib.Sx lib.QAux C14.Proc C14.Proofs_proc_rank C14.Proofs_proc_poly C14.Proofs_proc_cplx C14.Proofs_proc_irf C14.Proofs_proc_eval.
Import ListNotations.
Local Open Scope Q_scope.
(* C14 part proc: theorems on the one-dimensional processes of the turning bands (to be pasted into coq/C14/Properties.v). *)






(* ============================================================ A. deterministic evaluation: _rankInPoisson (TurningBandOperate.cpp:174-204) and the _nt0 cache *)
(* Whatever the vector _t (>= 2 values, sorted or not), the abscissa t0 and the cached rank in [0, nt-2]:
   _rankInPoisson reads nothing outside _t and returns a rank in [0, nt-2] (so the cache set by spectralOne / IRFProcessOne stays valid for ever). *)
Theorem C14_rank_defined :
  forall (t : list Q) (t0 : Q) (d : Z),
         (2 <= Z.of_nat (length t))%Z ->
         (0 <= d <= Z.of_nat (length t) - 2)%Z ->
         exists k : Z, rankInPoisson d t0 t = Some k /\ (0 <= k <= Z.of_nat (length t) - 2)%Z.
Proof. exact rank_defined. Qed.
Print Assumptions C14_rank_defined.

(* MAIN: strictly increasing _t and t[0] <= t0 < t[last]: whatever the cached rank, the result is the interval containing t0. *)
Theorem C14_rank_correct :
  forall (t : list Q) (t0 : Q) (d : Z),
         incr t ->
         (2 <= Z.of_nat (length t))%Z ->
         (0 <= d <= Z.of_nat (length t) - 2)%Z ->
         tq t 0 <= t0 ->
         t0 < tq t (Z.of_nat (length t) - 1) ->
         exists k : Z,
           rankInPoisson d t0 t = Some k /\
           (0 <= k <= Z.of_nat (length t) - 2)%Z /\ tq t k <= t0 < tq t (k + 1).
Proof. exact rank_correct. Qed.
Print Assumptions C14_rank_correct.

(* History independence of the _nt0 cache: two different cached ranks give the same answer. *)
Theorem C14_rank_history_independent :
  forall (t : list Q) (t0 : Q) (d d' : Z),
         incr t ->
         (2 <= Z.of_nat (length t))%Z ->
         (0 <= d <= Z.of_nat (length t) - 2)%Z ->
         (0 <= d' <= Z.of_nat (length t) - 2)%Z ->
         tq t 0 <= t0 ->
         t0 < tq t (Z.of_nat (length t) - 1) -> rankInPoisson d t0 t = rankInPoisson d' t0 t.
Proof. exact rank_history_independent. Qed.
Print Assumptions C14_rank_history_independent.

(* Below the first Poisson point the rank is clamped to 0 (no read outside the vector). *)
Theorem C14_rank_below :
  forall (t : list Q) (t0 : Q) (d : Z),
         incr t ->
         (2 <= Z.of_nat (length t))%Z ->
         (0 <= d <= Z.of_nat (length t) - 2)%Z -> t0 < tq t 0 -> rankInPoisson d t0 t = Some 0%Z.
Proof. exact rank_below. Qed.

(* At or beyond the last Poisson point the rank is clamped to nt-2. *)
Theorem C14_rank_above :
  forall (t : list Q) (t0 : Q) (d : Z),
         incr t ->
         (2 <= Z.of_nat (length t))%Z ->
         (0 <= d <= Z.of_nat (length t) - 2)%Z ->
         tq t (Z.of_nat (length t) - 1) <= t0 ->
         rankInPoisson d t0 t = Some (Z.of_nat (length t) - 2)%Z.
Proof. exact rank_above. Qed.

(* The only read outside _t: a cached rank nt-1 with t0 >= t[nt-1] reads t[nt] (TurningBandOperate.cpp:184); C14_rank_defined shows
   that such a cache value is never produced; it needs nt = 1 (one Poisson point), which _migrationInit builds only for 0 < tmax-tmin <= 1e-5 and scale < 1e-10. *)
Theorem C14_rank_oob_last :
  forall (t : list Q) (t0 : Q),
         (1 <= Z.of_nat (length t))%Z ->
         tq t (Z.of_nat (length t) - 1) <= t0 -> rankInPoisson (Z.of_nat (length t) - 1) t0 t = None.
Proof. exact rank_oob_last. Qed.

(* A whole sequence of spectralOne calls on one object: every call is defined and leaves a cache in [0, nt-2]. *)
Theorem C14_spectralSeq_defined :
  forall (ts : list Q) (s : tbo),
         (2 <= Z.of_nat (length (tb_t s)))%Z ->
         (0 <= tb_nt0 s <= Z.of_nat (length (tb_t s)) - 2)%Z ->
         Forall
           (fun r : option (Z * Q) =>
            exists (k : Z) (v : Q), r = Some (k, v) /\ (0 <= k <= Z.of_nat (length (tb_t s)) - 2)%Z)
           (spectralSeq s ts).
Proof. exact spectralSeq_defined. Qed.

(* Sequence of spectralOne calls (the grid / point spreading loops): the values are those of the cache-free function, call by call. *)
Theorem C14_spectralSeq_history_independent :
  forall (ts : list Q) (s : tbo) (d : Z),
         incr (tb_t s) ->
         (2 <= Z.of_nat (length (tb_t s)))%Z ->
         (0 <= d <= Z.of_nat (length (tb_t s)) - 2)%Z ->
         Forall (fun t0 : Q => tq (tb_t s) 0 <= t0 < tq (tb_t s) (Z.of_nat (length (tb_t s)) - 1)) ts ->
         spectralSeq (set_nt0 s d) ts = map (spectral_nocache s) ts.
Proof. exact spectralSeq_history_independent. Qed.
Print Assumptions C14_spectralSeq_history_independent.

(* Same for IRFProcessOne. *)
Theorem C14_irfSeq_history_independent :
  forall (ts : list Q) (s : tbo) (d : Z),
         incr (tb_t s) ->
         (2 <= Z.of_nat (length (tb_t s)))%Z ->
         (0 <= d <= Z.of_nat (length (tb_t s)) - 2)%Z ->
         Forall (fun t0 : Q => tq (tb_t s) 0 <= t0 < tq (tb_t s) (Z.of_nat (length (tb_t s)) - 1)) ts ->
         (forall (k : Z) (t0 : Q),
          (0 <= k <= Z.of_nat (length (tb_t s)) - 2)%Z -> irfSample s k t0 <> None) ->
         irfSeq (set_nt0 s d) ts = map (irf_nocache s) ts.
Proof. exact irfSeq_history_independent. Qed.

(* spectralOne on ANY vector: an abscissa larger than every value stored in _t always receives -vexp (this is how the
   defect cured by commit e4e350f57 showed: _t then held N(0,1) draws and the band was constant beyond the largest one). *)
Theorem C14_spectral_above_all :
  forall (s : tbo) (t0 : Q),
         (2 <= Z.of_nat (length (tb_t s)))%Z ->
         (0 <= tb_nt0 s <= Z.of_nat (length (tb_t s)) - 2)%Z ->
         (forall i : Z, (0 <= i < Z.of_nat (length (tb_t s)))%Z -> tq (tb_t s) i < t0) ->
         spectralOne s t0 = Some (set_nt0 s (Z.of_nat (length (tb_t s)) - 2), - tb_vexp s).
Proof. exact spectral_above_all. Qed.
Print Assumptions C14_spectral_above_all.

(* The Poisson points of _migrationInit (CalcSimuTurningBands.cpp:629-641) for given positive increments: strictly increasing, at least two, t[0] <= tmin and t[last] > tmax. *)
Theorem C14_migrationT_covers :
  forall (tmin tmax e0 e1 : Q) (incs t : list Q),
         0 <= e0 ->
         0 < e1 ->
         Forall (fun e : Q => 0 < e) incs ->
         migrationT tmin tmax e0 e1 incs = Some t ->
         incr t /\
         (2 <= Z.of_nat (length t))%Z /\ tq t 0 <= tmin /\ tmax < tq t (Z.of_nat (length t) - 1).
Proof. exact migration_covers. Qed.

(* MAIN: _migrationInit as it is (:620-641), for EVERY scale > 0 - the scale bounded below by (tmax-tmin)*1e-5 included (:627) -
   and positive draws -log(u): the vector _t is strictly increasing, has at least two points, t[0] <= tmin and t[last] > tmax. *)
Theorem C14_migration_covers :
  forall (tmin tmax scale x0 x1 : Q) (xs t : list Q),
         0 < scale ->
         0 <= x0 ->
         0 < x1 ->
         Forall (fun e : Q => 0 < e) xs ->
         migrationInitT tmin tmax scale x0 x1 xs = Some t ->
         incr t /\
         (2 <= Z.of_nat (length t))%Z /\ tq t 0 <= tmin /\ tmax < tq t (Z.of_nat (length t) - 1).
Proof. exact migrationInit_covers. Qed.
Print Assumptions C14_migration_covers.

(* Hence for every scale > 0 and every abscissa of the band the rank search is exact whatever the cache (no out-of-bounds read reachable from the construction). *)
Theorem C14_migration_rank_correct :
  forall (tmin tmax scale x0 x1 : Q) (xs t : list Q) (t0 : Q) (d : Z),
         0 < scale ->
         0 <= x0 ->
         0 < x1 ->
         Forall (fun e : Q => 0 < e) xs ->
         migrationInitT tmin tmax scale x0 x1 xs = Some t ->
         tmin <= t0 ->
         t0 <= tmax ->
         (0 <= d <= Z.of_nat (length t) - 2)%Z ->
         exists k : Z,
           rankInPoisson d t0 t = Some k /\
           (0 <= k <= Z.of_nat (length t) - 2)%Z /\ tq t k <= t0 < tq t (k + 1).
Proof. exact migrationInit_rank_correct. Qed.
Print Assumptions C14_migration_rank_correct.

(* The scale actually used is positive and never below (tmax-tmin)*1e-5 nor below the requested one. *)
Theorem C14_mig_clamp_pos :
  forall tmin tmax scale : Q, 0 < scale -> 0 < mig_clamp tmin tmax scale.
Proof. exact mig_clamp_pos. Qed.
Theorem C14_mig_clamp_ge :
  forall tmin tmax scale : Q,
         (tmax - tmin) * mig_eps <= mig_clamp tmin tmax scale /\ scale <= mig_clamp tmin tmax scale.
Proof. exact mig_clamp_ge. Qed.

(* REGRESSION (defect cured by commit e4e350f57): before it, in the branch scale < (tmax-tmin)*1e-5 of _migrationInit the vector _t
   (N(0,1) draws, [migrationInitT_old]) was neither increasing nor covering [tmin,tmax]. *)
Theorem C14_old_migration_degenerate_refuted :
  exists (tmin tmax scale : Q) (gs t : list Q),
           0 < scale /\
           tmin < tmax /\
           migrationInitT_old tmin tmax scale gs 0 0 [] = Some t /\ ~ incr t /\ ~ tq t 0 <= tmin.
Proof. exact old_migration_degenerate_refuted. Qed.
Print Assumptions C14_old_migration_degenerate_refuted.

(* The C conversion (int)(dt) is the floor for dt >= 0. *)
Theorem C14_qtrunc_floor :
  forall q : Q, 0 <= q -> qtrunc q = Qfloor q.
Proof. exact qtrunc_floor. Qed.

(* _dilutionInit (:666-674): for tmin <= t0 <= tmax the cell index (int)((t0 - tdeb)/scale) is in [0, count-1]: shotNoise*One read inside _t (exact arithmetic). *)
Theorem C14_dilution_covers :
  forall (s : tbo) (fuel : nat) (tmin tmax u : Q) (n : Z) (t0 : Q),
         0 < tb_scale s ->
         0 <= u ->
         tb_tdeb s = dil_tdeb tmin (tb_scale s) u ->
         dil_count fuel (tb_tdeb s) (tb_scale s) tmax 0 = Some n ->
         Z.of_nat (length (tb_t s)) = n ->
         tmin <= t0 ->
         t0 <= tmax ->
         0 <= (t0 - tb_tdeb s) / tb_scale s /\
         (forall dt : Q, dt == (t0 - tb_tdeb s) / tb_scale s -> (0 <= qtrunc dt < n)%Z).
Proof. exact dilution_covers. Qed.
Print Assumptions C14_dilution_covers.

(* Same, on the evaluator itself (flagScaled = false). *)
Theorem C14_dilution_no_oob :
  forall (g : Q -> Q) (s : tbo) (fuel : nat) (tmin tmax u : Q) (n : Z) (t0 : Q),
         tb_flagScaled s = false ->
         0 < tb_scale s ->
         0 <= u ->
         tb_tdeb s = dil_tdeb tmin (tb_scale s) u ->
         dil_count fuel (tb_tdeb s) (tb_scale s) tmax 0 = Some n ->
         Z.of_nat (length (tb_t s)) = n ->
         tmin <= t0 -> t0 <= tmax -> exists v : Q, shotGen g s t0 = Some v.
Proof. exact dilution_no_oob. Qed.


(* ============================================================ B1. dilution / shot noise: bounds, sign orthogonality, exact covariance *)
(* shotNoiseAffineOne (TurningBandOperate.cpp:84-93): |value| <= 1 for signs +-1 and dt >= 0. *)
Theorem C14_shotAffine_bound :
  forall (s : tbo) (t0 v : Q),
         0 <= shot_dt s t0 ->
         (forall e : Q, In e (tb_t s) -> e * e == 1) -> shotAffine s t0 = Some v -> v * v <= 1.
Proof. exact shotAffine_bound. Qed.
Print Assumptions C14_shotAffine_bound.

(* shotNoiseCubicOne (:95-104): 432 value^2 <= 1, i.e. |value| <= sqrt(3)/36 = max |x(x-1/2)(x-1)| on [0,1]. *)
Theorem C14_shotCubic_bound :
  forall (s : tbo) (t0 v : Q),
         0 <= shot_dt s t0 ->
         (forall e : Q, In e (tb_t s) -> e * e == 1) -> shotCubic s t0 = Some v -> 432 * (v * v) <= 1.
Proof. exact shotCubic_bound. Qed.

(* Independent fair signs are orthonormal: sum over the 2^n sign vectors of e_k e_k' is 2^n if k = k' else 0 (the L2 step). *)
Theorem C14_sign_orth :
  forall n k k' : nat,
         (k < n)%nat ->
         (k' < n)%nat ->
         qsum (map (fun e : list Q => nth k e 0 * nth k' e 0) (signs n)) ==
         (if k =? k' then inject_Z (2 ^ Z.of_nat n) else 0).
Proof. exact sign_orth. Qed.
Print Assumptions C14_sign_orth.

(* Mean over the signs of value(x) value(y) for value = e_cell * g(fraction): g(ux) g(uy) when the two points share the cell, else 0. *)
Theorem C14_shot_sign_cov :
  forall (n kx ky : nat) (gx gy : Q),
         (kx < n)%nat ->
         (ky < n)%nat ->
         sign_mean n (fun e : list Q => nth kx e 0 * gx * (nth ky e 0 * gy)) ==
         (if kx =? ky then gx * gy else 0).
Proof. exact shot_sign_cov. Qed.

(* Mean over the signs of the value is 0. *)
Theorem C14_shot_sign_mean :
  forall (n k : nat) (g : Q),
         (k < n)%nat -> sign_mean n (fun e : list Q => nth k e 0 * g) == 0.
Proof. exact shot_sign_mean. Qed.

(* Two points k+u and k+u+h (0 <= u, 0 <= h) with u + h < 1 lie in the same cell ... *)
Theorem C14_cell_same :
  forall (k : Z) (u h : Q), 0 <= u -> 0 <= h -> u + h < 1 -> Qfloor (inject_Z k + (u + h)) = k.
Proof. exact cell_same. Qed.

(* ... and in different cells when u + h >= 1 (always the case for h >= 1: no contribution beyond the range). *)
Theorem C14_cell_other :
  forall (k : Z) (u h : Q), 0 <= u -> 1 <= u + h -> (k < Qfloor (inject_Z k + (u + h)))%Z.
Proof. exact cell_other. Qed.

(* The polynomial integrated (in x) is g(x) g(x+h), affine shape. *)
Theorem C14_sph_integrand_ok :
  forall x h : Q, peval (sph_integrand h) x == g_aff x * g_aff (x + h).
Proof. exact sph_integrand_ok. Qed.

(* Idem, cubic shape. *)
Theorem C14_cub_integrand_ok :
  forall x h : Q, peval (cub_integrand h) x == g_cub x * g_cub (x + h).
Proof. exact cub_integrand_ok. Qed.

(* MAIN: correc^2 (= 3) times the integral over a uniform origin of g(x) g(x+h) on the common cell [0, 1-h] is C1(h) = d/dh (h C(h)), C = spherical. *)
Theorem C14_dilution_cov_spherical :
  forall h : Q, correc2_spherical * integ (sph_integrand h) 0 (1 - h) == peval (C1_of C_sph) h.
Proof. exact dilution_cov_spherical. Qed.
Print Assumptions C14_dilution_cov_spherical.

(* MAIN: same with correc^2 = 840 and C = cubic. *)
Theorem C14_dilution_cov_cubic :
  forall h : Q, correc2_cubic * integ (cub_integrand h) 0 (1 - h) == peval (C1_of C_cub) h.
Proof. exact dilution_cov_cubic. Qed.
Print Assumptions C14_dilution_cov_cubic.

(* C1 for the spherical model is 1 - 3h + 2h^3. *)
Theorem C14_C1_sph_eval :
  forall h : Q, peval (C1_of C_sph) h == 1 - 3 * h + 2 * h * h * h.
Proof. exact C1_sph_eval. Qed.

(* C1 for the cubic model is 1 - 21h^2 + 35h^3 - 21h^5 + 6h^7. *)
Theorem C14_C1_cub_eval :
  forall h : Q,
         peval (C1_of C_cub) h ==
         1 - 21 * h * h + 35 * h * h * h - 21 * h * h * h * h * h + 6 * h * h * h * h * h * h * h.
Proof. exact C1_cub_eval. Qed.

(* The Horner form evaluated by CovCubic.cpp:44 is the polynomial C_cub. *)
Theorem C14_C_cub_horner_ok :
  forall h : Q, C_cub_horner h == peval C_cub h.
Proof. exact C_cub_horner_ok. Qed.

(* The form evaluated by CovSpherical.cpp:43 is the polynomial C_sph. *)
Theorem C14_C_sph_code_ok :
  forall h : Q, 1 - (1 # 2) * h * (3 - h * h) == peval C_sph h.
Proof. exact C_sph_code_ok. Qed.

(* Continuity at the range: C1(1) = C(1) = 0 (spherical). *)
Theorem C14_C1_sph_at_range :
  peval (C1_of C_sph) 1 == 0 /\ peval C_sph 1 == 0.
Proof. exact C1_sph_at_range. Qed.

(* Continuity at the range (cubic). *)
Theorem C14_C1_cub_at_range :
  peval (C1_of C_cub) 1 == 0 /\ peval C_cub 1 == 0.
Proof. exact C1_cub_at_range. Qed.


(* ============================================================ B2. polynomial calculus and the turning-band relation in R^3 *)
(* The formal derivative of the formal antiderivative is the polynomial (every polynomial). *)
Theorem C14_pderiv_pint :
  forall p : poly, Forall2 Qeq (pderiv (pint p)) p.
Proof. exact pderiv_pint. Qed.

(* Fundamental theorem for polynomials: integ p' a b = p(b) - p(a). *)
Theorem C14_ftc :
  forall (p : poly) (a b : Q), integ (pderiv p) a b == peval p b - peval p a.
Proof. exact ftc. Qed.
Print Assumptions C14_ftc.

(* p(x) - p(y) = (x - y) dd p x y ... *)
Theorem C14_dd_spec :
  forall (p : poly) (x y : Q), peval p x - peval p y == (x - y) * dd p x y.
Proof. exact dd_spec. Qed.

(* ... and dd p x x = p'(x): the formal derivative is the derivative. *)
Theorem C14_dd_diag :
  forall (p : poly) (x : Q), dd p x x == peval (pderiv p) x.
Proof. exact dd_diag. Qed.

(* For C1 = d/dt (t C(t)): integral_0^r C1 = r C(r), i.e. the average of C1(<h,u>) over a uniform direction u of R^3 is C(|h|) (Archimedes: <h,u>/|h| is uniform on [-1,1]). *)
Theorem C14_turning_band_3d :
  forall (C : poly) (r : Q), integ (C1_of C) 0 r == r * peval C r.
Proof. exact turning_band_3d. Qed.
Print Assumptions C14_turning_band_3d.

(* Band average of the dilution covariance = spherical model. *)
Theorem C14_dilution_band_average_spherical :
  forall r : Q, integ (C1_of C_sph) 0 r == r * peval C_sph r.
Proof. exact dilution_band_average_spherical. Qed.

(* Band average of the dilution covariance = cubic model. *)
Theorem C14_dilution_band_average_cubic :
  forall r : Q, integ (C1_of C_cub) 0 r == r * peval C_cub r.
Proof. exact dilution_band_average_cubic. Qed.


(* ============================================================ B5. migration process (spectralOne) *)
(* spectralOne (TurningBandOperate.cpp:112): value^2 = vexp^2 for every state and abscissa. *)
Theorem C14_spectralValue_sq :
  forall vexp a b t0 : Q, spectralValue vexp a b t0 * spectralValue vexp a b t0 == vexp * vexp.
Proof. exact spectralValue_sq. Qed.

(* +vexp on the first half of the Poisson interval (midpoint included) ... *)
Theorem C14_spectralValue_first_half :
  forall vexp a b t0 : Q, 2 * t0 <= a + b -> spectralValue vexp a b t0 = vexp.
Proof. exact spectralValue_first_half. Qed.

(* ... -vexp on the second half. *)
Theorem C14_spectralValue_second_half :
  forall vexp a b t0 : Q, a + b < 2 * t0 -> spectralValue vexp a b t0 = - vexp.
Proof. exact spectralValue_second_half. Qed.

(* The integral of the value over a full Poisson interval is exactly 0. *)
Theorem C14_migration_interval_mean :
  forall vexp a b : Q, integ [vexp] a ((a + b) / 2) + integ [- vexp] ((a + b) / 2) b == 0.
Proof. exact migration_interval_mean. Qed.

(* Second moment of vexp = 0.9 + 0.1967708298 u over an ideal uniform u: 1 within 3e-11 (exact polynomial integral). *)
Theorem C14_vexp_second_moment :
  Qabs (integ vexp_sq_poly 0 1 - 1) < 0.00000000003.
Proof. exact vexp_second_moment. Qed.
Print Assumptions C14_vexp_second_moment.


(* ============================================================ B3. cosine process: discrete orthogonality over the ring of pairs (c,s) *)
(* Sum of the powers q^0..q^(N-1) is 0 when q^N = 1 and q <> 1 (geometric sum in the ring of pairs). *)
Theorem C14_roots_sum_zero :
  forall (q : C2) (N : nat),
         ceq (cpow q N) cone -> ~ ceq q cone -> ceq (csum (cpow q) N) czero.
Proof. exact roots_sum_zero. Qed.

(* MAIN: over N equally spaced phases the sum of 2 cos(a+phi_j) cos(b+phi_j) is exactly N cos(a-b). *)
Theorem C14_cosine_discrete_orthogonality :
  forall (za zb p0 w : C2) (N : nat),
         cnorm2 p0 == 1 ->
         cnorm2 w == 1 ->
         ceq (cpow (cmul w w) N) cone ->
         ~ ceq (cmul w w) cone ->
         qsumn
           (fun j : nat =>
            2 * fst (cmul za (cmul p0 (cpow w j))) * fst (cmul zb (cmul p0 (cpow w j)))) N ==
         inject_Z (Z.of_nat N) * fst (cmul za (cconj zb)).
Proof. exact cosine_discrete_orthogonality. Qed.
Print Assumptions C14_cosine_discrete_orthogonality.

(* With correc^2 = 2 (_spectralInit returns sqrt(2.)): correc^2 * mean over the phases of the product = cos(a-b); variance 1 for a = b. *)
Theorem C14_cosine_process_covariance :
  forall (za zb p0 w : C2) (N : nat),
         (0 < N)%nat ->
         cnorm2 p0 == 1 ->
         cnorm2 w == 1 ->
         ceq (cpow (cmul w w) N) cone ->
         ~ ceq (cmul w w) cone ->
         correc2_spectral *
         (qsumn (fun j : nat => cos_phase za p0 w j * cos_phase zb p0 w j) N / inject_Z (Z.of_nat N)) ==
         fst (cmul za (cconj zb)).
Proof. exact cosine_process_covariance. Qed.
Print Assumptions C14_cosine_process_covariance.


(* ============================================================ B4. grid recurrences *)
(* Three nested loops carrying a state: node (ix,iy,iz), rank ix + nx (iy + ny iz), sees the state stepped iz, iy, ix times. *)
Theorem C14_zloop_nth :
  forall (St Ot : Type) (out : St -> Ot) (fx fy fz : St -> St) (nz ny nx : nat) 
           (s : St) (iz iy ix : nat),
         (iz < nz)%nat ->
         (iy < ny)%nat ->
         (ix < nx)%nat ->
         nth_error (zloop St Ot out fx fy fz nz ny nx s) (ix + nx * (iy + ny * iz)) =
         Some (out (iter St ix fx (iter St iy fy (iter St iz fz s)))).
Proof. exact zloop_nth. Qed.

(* _spreadSpectralOnGrid (CalcSimuTurningBands.cpp:1086-1114): the value handed over at node (ix,iy,iz) is Re (z0 pz^iz py^iy px^ix), all nx, ny, nz. *)
Theorem C14_spectralGrid_nth :
  forall (nx ny nz : nat) (z0 px py pz : C2) (ix iy iz : nat),
         (ix < nx)%nat ->
         (iy < ny)%nat ->
         (iz < nz)%nat ->
         exists v : Q,
           nth_error (spectralGrid nx ny nz z0 px py pz) (ix + nx * (iy + ny * iz)) = Some v /\
           v == fst (cmul (cmul (cmul z0 (cpow pz iz)) (cpow py iy)) (cpow px ix)).
Proof. exact spectralGrid_nth. Qed.
Print Assumptions C14_spectralGrid_nth.

(* _spreadRegularOnGrid (:1049-1068): the abscissa handed over at node (ix,iy,iz) is t00 + ix dxp + iy dyp + iz dzp. *)
Theorem C14_regularGrid_nth :
  forall (nx ny nz : nat) (t00 dxp dyp dzp : Q) (ix iy iz : nat),
         (ix < nx)%nat ->
         (iy < ny)%nat ->
         (iz < nz)%nat ->
         exists v : Q,
           nth_error (regularGrid nx ny nz t00 dxp dyp dzp) (ix + nx * (iy + ny * iz)) = Some v /\
           v ==
           t00 + inject_Z (Z.of_nat ix) * dxp + inject_Z (Z.of_nat iy) * dyp +
           inject_Z (Z.of_nat iz) * dzp.
Proof. exact regularGrid_nth. Qed.
Print Assumptions C14_regularGrid_nth.

(* With (c,s) = cis(angle) for any function cis obeying the addition formulas: the grid recurrence evaluates cis at omega * abscissa + phi: grid spreading = point spreading in exact arithmetic. *)
Theorem C14_spectralGrid_is_point :
  forall cis : Q -> C2,
         (forall a b : Q, a == b -> ceq (cis a) (cis b)) ->
         ceq (cis 0) cone ->
         (forall a b : Q, ceq (cis (a + b)) (cmul (cis a) (cis b))) ->
         forall (omega phi t00 dxp dyp dzp : Q) (nx ny nz ix iy iz : nat),
         (ix < nx)%nat ->
         (iy < ny)%nat ->
         (iz < nz)%nat ->
         exists v : Q,
           nth_error
             (spectralGrid nx ny nz (cis (omega * t00 + phi)) (cis (omega * dxp)) 
                (cis (omega * dyp)) (cis (omega * dzp))) (ix + nx * (iy + ny * iz)) = 
           Some v /\
           v ==
           fst
             (cis
                (omega *
                 (t00 + inject_Z (Z.of_nat ix) * dxp + inject_Z (Z.of_nat iy) * dyp +
                  inject_Z (Z.of_nat iz) * dzp) + phi)).
Proof. exact spectralGrid_is_point. Qed.
Print Assumptions C14_spectralGrid_is_point.

(* cosineOne: the grid call (flagScaled, argument = recurrence value) equals the point call (argument = abscissa). *)
Theorem C14_cosineOne_grid_is_point :
  forall (cis : Q -> C2) (s : tbo) (omega phi t0 v : Q),
         tb_omega s = omega ->
         tb_phi s = phi ->
         v == fst (cis (omega * t0 + phi)) ->
         cosineOne (fun a : Q => fst (cis a))
           {|
             tb_nt0 := tb_nt0 s;
             tb_flagScaled := true;
             tb_vexp := tb_vexp s;
             tb_tdeb := tb_tdeb s;
             tb_omega := omega;
             tb_phi := phi;
             tb_offset := tb_offset s;
             tb_scale := tb_scale s;
             tb_t := tb_t s;
             tb_v0 := tb_v0 s;
             tb_v1 := tb_v1 s;
             tb_v2 := tb_v2 s
           |} v ==
         cosineOne (fun a : Q => fst (cis a))
           {|
             tb_nt0 := tb_nt0 s;
             tb_flagScaled := false;
             tb_vexp := tb_vexp s;
             tb_tdeb := tb_tdeb s;
             tb_omega := omega;
             tb_phi := phi;
             tb_offset := tb_offset s;
             tb_scale := tb_scale s;
             tb_t := tb_t s;
             tb_v0 := tb_v0 s;
             tb_v1 := tb_v1 s;
             tb_v2 := tb_v2 s
           |} t0.
Proof. exact cosineOne_grid_is_point. Qed.


(* ============================================================ B6. integrated Wiener-Levy process: tables (_irfProcessInit) against the sampler (_irfProcessSample) *)
(* MAIN: the code as it is (CalcSimuTurningBands.cpp:953-971), level 1 (ORDER3_GC): the sampled process is continuous at every Poisson
   point (value reached from the interval on the left = value taken in the interval that starts there) ... *)
Theorem C14_irf_level1_continuous :
  forall (t g : list Q) (i : nat),
         length g = Init.Nat.pred (length t) ->
         (S i < length t)%nat ->
         exists L R : Q,
           irfSample (irf_state false 1 t g) (Z.of_nat i) (nth (S i) t 0) = Some (Some L) /\
           irfSample (irf_state false 1 t g) (Z.of_nat (S i)) (nth (S i) t 0) = Some (Some R) /\
           R == L.
Proof. exact irf_level1_continuous. Qed.
Print Assumptions C14_irf_level1_continuous.

(* ... and level 2 (ORDER5_GC) too. *)
Theorem C14_irf_level2_continuous :
  forall (t g : list Q) (i : nat),
         length g = Init.Nat.pred (length t) ->
         (S i < length t)%nat ->
         exists L R : Q,
           irfSample (irf_state false 2 t g) (Z.of_nat i) (nth (S i) t 0) = Some (Some L) /\
           irfSample (irf_state false 2 t g) (Z.of_nat (S i)) (nth (S i) t 0) = Some (Some R) /\
           R == L.
Proof. exact irf_level2_continuous. Qed.
Print Assumptions C14_irf_level2_continuous.

(* The tables of the code are the integrals that _irfProcessSample assumes: v0 cumulates the draws, v1[i+1] = v1[i] + integral over the
   interval of the constant v0[i], v2[i+1] = v2[i] + integral of the level-1 polynomial v1[i] + v0[i] s. *)
Theorem C14_irf_tables_are_integrals :
  forall (t g : list Q) (i : nat),
         length g = Init.Nat.pred (length t) ->
         (S i < length t)%nat ->
         let rows := irf_rows false t g in
         let p := nth i rows rz in
         let q := nth (S i) rows rz in
         let delta := nth (S i) t 0 - nth i t 0 in
         r0 q == r0 p + nth i g 0 /\
         r1 q == r1 p + integ [r0 p] 0 delta /\ r2 q == r2 p + integ [r1 p; r0 p] 0 delta.
Proof. exact irf_tables_are_integrals. Qed.
Print Assumptions C14_irf_tables_are_integrals.

(* REGRESSION (defect cured by commit 61380c95b): with the recurrences used before it ([irf_loop_old], irf_state true), level 1: at the
   Poisson point t[i+1] the sampled process jumped by g_i (t[i+1] - t[i]). *)
Theorem C14_old_irf_level1_jump :
  forall (t g : list Q) (i : nat),
         length g = Init.Nat.pred (length t) ->
         (S i < length t)%nat ->
         exists L R : Q,
           irfSample (irf_state true 1 t g) (Z.of_nat i) (nth (S i) t 0) = Some (Some L) /\
           irfSample (irf_state true 1 t g) (Z.of_nat (S i)) (nth (S i) t 0) = Some (Some R) /\
           R - L == nth i g 0 * (nth (S i) t 0 - nth i t 0).
Proof. exact old_irf_level1_jump. Qed.
Print Assumptions C14_old_irf_level1_jump.

(* REGRESSION (cured by commit 61380c95b), level 2 (ORDER5_GC): jump (v0[i+1] + g_i / 2) (t[i+1] - t[i])^2. *)
Theorem C14_old_irf_level2_jump :
  forall (t g : list Q) (i : nat),
         length g = Init.Nat.pred (length t) ->
         (S i < length t)%nat ->
         exists L R : Q,
           irfSample (irf_state true 2 t g) (Z.of_nat i) (nth (S i) t 0) = Some (Some L) /\
           irfSample (irf_state true 2 t g) (Z.of_nat (S i)) (nth (S i) t 0) = Some (Some R) /\
           R - L ==
           (r0 (nth (S i) (irf_rows true t g) rz) + nth i g 0 / 2) * (nth (S i) t 0 - nth i t 0) *
           (nth (S i) t 0 - nth i t 0).
Proof. exact old_irf_level2_jump. Qed.

(* REGRESSION (cured by commit 61380c95b): the statement "the sampled integrated process is continuous at the Poisson points" was false
   for the recurrences used before it (witness t = 0,1,2, g = 1,1). *)
Theorem C14_old_irf_continuity_refuted :
  exists (t g : list Q) (L R : Q),
           incr t /\
           length g = Init.Nat.pred (length t) /\
           irfSample (irf_state true 1 t g) 0 (tq t 1) = Some (Some L) /\
           irfSample (irf_state true 1 t g) 1 (tq t 1) = Some (Some R) /\ ~ R == L.
Proof. exact old_irf_continuity_refuted. Qed.
Print Assumptions C14_old_irf_continuity_refuted.

(* Inside an interval the level-2 polynomial has the level-1 one as derivative, and level 1 has the Wiener-Levy value as derivative. *)
Theorem C14_irf_sampler_derivative :
  forall a0 a1 a2 : Q,
         Forall2 Qeq (pderiv [a2; a1; a0 / 2]) [a1; a0] /\ Forall2 Qeq (pderiv [a1; a0]) [a0].
Proof. exact irf_sampler_derivative. Qed.


(* ============================================================ non-vacuity: the hypotheses of the theorems above are jointly satisfiable *)
(* rank: t = 0,1,3,7, t0 = 2: interval 1 whatever the cache (0, 1 or 2) *)
Example C14_rank_correct_nonvacuous :
  incr [0; 1; 3; 7] /\ (2 <= Z.of_nat (length ([0; 1; 3; 7]%Q : list Q)))%Z /\ tq [0; 1; 3; 7] 0 <= 2 /\ 2 < tq [0; 1; 3; 7] 3
  /\ rankInPoisson 0 2 [0; 1; 3; 7] = Some 1%Z /\ rankInPoisson 1 2 [0; 1; 3; 7] = Some 1%Z
  /\ rankInPoisson 2 2 [0; 1; 3; 7] = Some 1%Z
  /\ rankInPoisson 2 (-(1)) [0; 1; 3; 7] = Some 0%Z /\ rankInPoisson 0 7 [0; 1; 3; 7] = Some 2%Z
  /\ rankInPoisson 3 7 [0; 1; 3; 7] = None.
Proof. vm_compute. repeat split; reflexivity || (intro; discriminate). Qed.
Example C14_rank_history_independent_nonvacuous :
  rankInPoisson 0 (13 # 2) [0; 1; 3; 7; 8; 20] = rankInPoisson 4 (13 # 2) [0; 1; 3; 7; 8; 20]
  /\ rankInPoisson 0 (13 # 2) [0; 1; 3; 7; 8; 20] = Some 2%Z.
Proof. vm_compute. split; reflexivity. Qed.
Example C14_spectralSeq_history_independent_nonvacuous :
  let s := mkTbo 2 false (9 # 10) 0 0 0 0 1 [0; 1; 3; 7] [] [] [] in
  spectralSeq s [2; (1 # 2); 6; (5 # 2); 0] =
  [Some (1%Z, 9 # 10); Some (0%Z, 9 # 10); Some (2%Z, - (9 # 10)); Some (1%Z, - (9 # 10)); Some (0%Z, 9 # 10)].
Proof. vm_compute. reflexivity. Qed.
Example C14_spectral_above_all_nonvacuous :
  let s := mkTbo 0 false (9 # 10) 0 0 0 0 1 [1; 0; -(1)] [] [] [] in
  spectralOne s 5 = Some (set_nt0 s 1, - (9 # 10)) /\ spectralOne s 100 = Some (set_nt0 s 1, - (9 # 10)).
Proof. vm_compute. split; reflexivity. Qed.
(* _migrationInit: tmin 0, tmax 5, scale 1, draws 1, 2, 2, 2, 2 (scale kept) ; tmin 0, tmax 200000, scale 1/2 (bounded below: 2) *)
Example C14_migration_covers_nonvacuous :
  option_map (map Qred) (migrationInitT 0 5 1 1 2 [2; 2; 2]) = Some [-(1); 2; 4; 6]
  /\ mig_clamp 0 5 1 == 1 /\ mig_clamp 0 200000 (1 # 2) == 2
  /\ option_map (map Qred) (migrationInitT 0 200000 (1 # 2) 1 1 [50000; 50000; 50000]) = Some [-(2); 2; 100002; 200002]
  /\ 0 < (1 # 2 : Q) /\ 0 <= (1 : Q) /\ 0 < (2 : Q) /\ Forall (fun e => 0 < e) ([2; 2; 2] : list Q).
Proof. repeat split; try (vm_compute; reflexivity); try discriminate. repeat constructor. Qed.
(* _dilutionInit: tmin 0, tmax 10, scale 3, u = 1/2: tdeb = -3/2, 4 cells; abscissa 10 falls in cell 3 *)
Example C14_dilution_covers_nonvacuous :
  let s := mkTbo 0 false 0 (dil_tdeb 0 3 (1 # 2)) 0 0 0 3 [1; -(1); -(1); 1] [] [] [] in
  dil_count 10 (tb_tdeb s) (tb_scale s) 10 0 = Some 4%Z /\ Z.of_nat (length (tb_t s)) = 4%Z
  /\ qtrunc (shot_dt s 10) = 3%Z /\ option_map Qred (shotAffine s 10) = Some (2 # 3) /\ option_map Qred (shotAffine s 0) = Some 0
  /\ option_map Qred (shotCubic s 10) = Some (- (5 # 108)).
Proof. vm_compute. repeat split; reflexivity. Qed.
Example C14_shotAffine_bound_nonvacuous :
  let s := mkTbo 0 true 0 (-(3 # 2)) 0 0 0 1 [1; -(1); -(1); 1] [] [] [] in
  0 <= shot_dt s (7 # 4) /\ option_map Qred (shotAffine s (7 # 4)) = Some (- (1 # 2)) /\ (forall e, In e (tb_t s) -> e * e == 1).
Proof.
  split; [vm_compute; discriminate|]. split; [vm_compute; reflexivity|].
  intros e H. simpl in H. destruct H as [<-|[<-|[<-|[<-|[]]]]]; reflexivity.
Qed.
(* outside the reachable domain (dt < 0) the truncation toward zero breaks the bound: dt = -1/2 gives |value| = 2 *)
Example C14_shotAffine_negative_dt :
  option_map Qred (shotAffine (mkTbo 0 true 0 (1 # 2) 0 0 0 1 [1] [] [] []) 0) = Some (-(2)).
Proof. vm_compute. reflexivity. Qed.
Example C14_sign_orth_nonvacuous :
  qsum (map (fun e => nth 0 e 0 * nth 2 e 0) (signs 3)) == 0 /\ qsum (map (fun e => nth 1 e 0 * nth 1 e 0) (signs 3)) == 8
  /\ length (signs 3) = 8%nat.
Proof. vm_compute. repeat split; reflexivity. Qed.
Example C14_dilution_cov_nonvacuous :
  3 * integ (sph_integrand (1 # 2)) 0 (1 # 2) == 1 - 3 * (1 # 2) + 2 * (1 # 8)
  /\ 840 * integ (cub_integrand 0) 0 1 == 1 /\ peval C_cub (1 # 2) == 123 # 512.
Proof. vm_compute. repeat split; reflexivity. Qed.
(* discrete orthogonality with N = 4, w = i, phi0 with (cos, sin) = (3/5, 4/5), a with (5/13, 12/13), b with (-4/5, 3/5) *)
Example C14_cosine_discrete_orthogonality_nonvacuous :
  let w : C2 := (0, 1) in let p0 : C2 := (3 # 5, 4 # 5) in let za : C2 := (5 # 13, 12 # 13) in let zb : C2 := (-(4 # 5), 3 # 5) in
  cnorm2 p0 == 1 /\ cnorm2 w == 1 /\ ceq (cpow (cmul w w) 4) cone /\ ~ ceq (cmul w w) cone
  /\ qsumn (fun j => 2 * fst (cmul za (cmul p0 (cpow w j))) * fst (cmul zb (cmul p0 (cpow w j)))) 4
     == 4 * fst (cmul za (cconj zb))
  /\ fst (cmul za (cconj zb)) == 16 # 65.
Proof.
  cbv zeta. split; [vm_compute; reflexivity|]. split; [vm_compute; reflexivity|].
  split; [vm_compute; split; reflexivity|]. split; [intros [H _]; vm_compute in H; discriminate|].
  split; vm_compute; reflexivity.
Qed.
(* the abstract angle function: the hypotheses of C14_spectralGrid_is_point hold for the pairs of any subgroup; trivial instance *)
Example C14_spectralGrid_is_point_nonvacuous :
  let cis := fun _ : Q => cone in
  (forall a b, a == b -> ceq (cis a) (cis b)) /\ ceq (cis 0) cone /\ (forall a b, ceq (cis (a + b)) (cmul (cis a) (cis b))).
Proof. cbv zeta. split; [intros; apply ceq_refl|]. split; [apply ceq_refl|]. intros; vm_compute; split; reflexivity. Qed.
(* a non-trivial run of the recurrences: rotation by (3/5, 4/5) per x step, by (0,1) per y step, 3 x 2 x 1 nodes *)
Example C14_spectralGrid_nth_nonvacuous :
  spectralGrid 3 2 1 (1, 0) (3 # 5, 4 # 5) (0, 1) (1, 0) = [1; 3 # 5; - (7 # 25); 0; - (4 # 5); - (24 # 25)]
  \/ Forall2 Qeq (spectralGrid 3 2 1 (1, 0) (3 # 5, 4 # 5) (0, 1) (1, 0)) [1; 3 # 5; - (7 # 25); 0; - (4 # 5); - (24 # 25)].
Proof. right. vm_compute. repeat constructor. Qed.
Example C14_regularGrid_nth_nonvacuous :
  Forall2 Qeq (regularGrid 2 2 2 10 1 (1 # 2) (-(3))) [10; 11; 21 # 2; 23 # 2; 7; 8; 15 # 2; 17 # 2].
Proof. vm_compute. repeat constructor. Qed.
(* integrated Wiener-Levy tables of the code for t = 0,1,2 and draws 1,1 ; and with the recurrences used before commit 61380c95b *)
Example C14_irf_tables_nonvacuous :
  irf_tables false 2 [0; 1; 2] [1; 1] = ([0; 0 + 1; 0 + 1 + 1], snd (fst (irf_tables false 2 [0; 1; 2] [1; 1])), snd (irf_tables false 2 [0; 1; 2] [1; 1]))
  /\ Forall2 Qeq (snd (fst (irf_tables false 2 [0; 1; 2] [1; 1]))) [0; 0; 1]
  /\ Forall2 Qeq (snd (irf_tables false 2 [0; 1; 2] [1; 1])) [0; 0; 1 # 2]
  /\ Forall2 Qeq (snd (fst (irf_tables true 2 [0; 1; 2] [1; 1]))) [0; 1; 3]
  /\ Forall2 Qeq (snd (irf_tables true 2 [0; 1; 2] [1; 1])) [0; 3 # 2; 11 # 2].
Proof. split; [reflexivity|]. repeat split; vm_compute; repeat constructor. Qed.
Example C14_vexp_range_nonvacuous : vexp_of 0 == 9 # 10 /\ vexp_of 1 == 10967708298 # 10000000000.
Proof. vm_compute. split; reflexivity. Qed.

(* C14 / part fft : the index -> lag map of CalcSimuFFT::_prepar on a (possibly rotated) grid is the coordinate difference of the
   nodes. The grid geometry (i2c / node, rotate_direct, rot2d ...) is the model of property C16 (coq/C16/Model.v); the linear-algebra
   lemmas on lists (sumQ, dot_sum, map2_nth, eqlQ_nth, rotate_direct_length ...) are those of coq/C16/Proofs_lin.v and
   Proofs_coord.v; the linearity of the node map in the indices is proved here on C16's definitions (C16 states it nowhere). *)
From Coq Require Import List ZArith QArith Bool Lia Lqa Setoid Morphisms.
From Gst Require Import C14.FFT.
From Gst Require Import C16.Model C16.Spec C16.Proofs_lin C16.Proofs_coord.
Import ListNotations.
Local Open Scope Q_scope.

Lemma nth_map_seq {A} (f : nat -> A) n j d : (j < n)%nat -> nth j (map f (seq 0 n)) d = f j.
Proof.
  intro H. rewrite (nth_indep _ d (f 0%nat)) by (rewrite map_length, seq_length; exact H).
  rewrite map_nth, seq_nth by exact H. reflexivity.
Qed.
Lemma length_map_seq {A} (f : nat -> A) n : length (map f (seq 0 n)) = n.
Proof. rewrite map_length, seq_length. reflexivity. Qed.

Lemma map2_nth_n {A B C} (f : A -> B -> C) n a b da db dc k :
  length a = n -> length b = n -> (k < n)%nat -> nth k (map2 f a b) dc = f (nth k a da) (nth k b db).
Proof. intros Ha Hb Hk. apply map2_nth; [rewrite Ha; exact Hk|rewrite Ha, Hb; reflexivity]. Qed.
Lemma map2_length_n {A B C} (f : A -> B -> C) n a b : length a = n -> length b = n -> length (map2 f a b) = n.
Proof. intros Ha Hb. rewrite map2_length; [exact Ha|rewrite Ha, Hb; reflexivity]. Qed.

Ltac rw H := let E := fresh "E" in pose proof H as E; rewrite E; clear E.

(* coefficient (i,k) of the linear map rotateDirect (identity when the rotation is flagged off) *)
Definition rot_coef (R : rotation) (i k : nat) : Q := if r_flag R then mget (r_mat R) i k else delta i k.

Lemma rotate_direct_lin n R v i : rot_ok n R -> length v = n -> (i < n)%nat ->
  nth i (rotate_direct R v) 0 == sumQ n (fun k => rot_coef R i k * nth k v 0).
Proof.
  intros Hr Hv Hi. unfold rotate_direct, rot_coef. destruct (r_flag R) eqn:Ef.
  - destruct Hr as [Hr|[[Hw _] _]]; [congruence|].
    rewrite nth_mvec. rewrite (dot_sum n) by (try exact Hv; apply (wfmat_row n); assumption).
    apply sumQ_ext. intros k _. unfold mget. reflexivity.
  - symmetry. apply (sumQ_delta n i (fun k => nth k v 0) Hi).
Qed.

(* the scaled index vector (indice * dx), C16 `scaled` with no cell offset *)
Lemma scaled_unfold g ind :
  scaled g ind [] = map2 Qmult (map2 (fun (i : Z) (p : Q) => inject_Z i + p) ind (map (fun _ : Z => 0) ind)) (g_dx g).
Proof. reflexivity. Qed.
Lemma scaled_nth n g ind k : length ind = n -> length (g_dx g) = n -> (k < n)%nat ->
  nth k (scaled g ind []) 0 == inject_Z (nth k ind 0%Z) * nth k (g_dx g) 0.
Proof.
  intros Hi Hd Hk. rewrite scaled_unfold.
  assert (L0 : length (map (fun _ : Z => 0) ind) = n) by (rewrite map_length; exact Hi).
  assert (L1 : length (map2 (fun (i : Z) (p : Q) => inject_Z i + p) ind (map (fun _ : Z => 0) ind)) = n)
    by (apply map2_length_n; assumption).
  rw (map2_nth_n Qmult n _ (g_dx g) 0 0 0 k L1 Hd Hk).
  rw (map2_nth_n (fun (i : Z) (p : Q) => inject_Z i + p) n ind _ 0%Z 0 0 k Hi L0 Hk).
  assert (Z0 : nth k (map (fun _ : Z => 0) ind) 0 = 0).
  { exact (map_nth (fun _ : Z => 0) ind 0%Z k). }
  rewrite Z0. ring.
Qed.
Lemma scaled_length n g ind : length ind = n -> length (g_dx g) = n -> length (scaled g ind []) = n.
Proof.
  intros Hi Hd. rewrite scaled_unfold.
  assert (L0 : length (map (fun _ : Z => 0) ind) = n) by (rewrite map_length; exact Hi).
  apply map2_length_n; [apply map2_length_n; assumption|exact Hd].
Qed.

Lemma node_length n g ind : wfgrid n g -> length ind = n -> length (node g ind) = n.
Proof.
  intros (_ & Hx0 & Hdx & _ & _ & Hr) Hi. unfold node, i2c, vadd.
  apply map2_length_n; [|exact Hx0]. apply (rotate_direct_length n); [exact Hr|apply scaled_length; assumption].
Qed.

(* the node map is affine in the indices: component i of node(ind) = sum_k R_ik (ind_k dx_k) + x0_i *)
Lemma node_nth n g ind i : wfgrid n g -> length ind = n -> (i < n)%nat ->
  nth i (node g ind) 0 == sumQ n (fun k => rot_coef (g_rot g) i k * (inject_Z (nth k ind 0%Z) * nth k (g_dx g) 0)) + nth i (g_x0 g) 0.
Proof.
  intros (_ & Hx0 & Hdx & _ & _ & Hr) Hi Hlt. unfold node, i2c, vadd.
  assert (Ls : length (scaled g ind []) = n) by (apply scaled_length; assumption).
  rw (map2_nth_n Qplus n _ _ 0 0 0 i (rotate_direct_length n _ _ Hr Ls) Hx0 Hlt).
  rewrite (rotate_direct_lin n _ _ i Hr Ls Hlt).
  apply Qplus_comp; [|reflexivity]. apply sumQ_ext. intros k Hk.
  rewrite (scaled_nth n g ind k Hi Hdx Hk). reflexivity.
Qed.

Lemma zero_ind_length n : length (zero_ind n) = n. Proof. apply length_map_seq. Qed.
Lemma unit_ind_length n i : length (unit_ind n i) = n. Proof. apply length_map_seq. Qed.
Lemma zero_ind_nth n k : (k < n)%nat -> nth k (zero_ind n) 0%Z = 0%Z.
Proof. intro H. unfold zero_ind. apply (nth_map_seq (fun _ => 0%Z) n k 0%Z H). Qed.
Lemma unit_ind_nth n i k : (k < n)%nat -> nth k (unit_ind n i) 0%Z = if Nat.eqb i k then 1%Z else 0%Z.
Proof. intro H. unfold unit_ind. apply (nth_map_seq (fun j => if Nat.eqb i j then 1%Z else 0%Z) n k 0%Z H). Qed.

(* difference of two nodes, component i *)
Lemma node_diff_nth n g ind i : wfgrid n g -> length ind = n -> (i < n)%nat ->
  nth i (vsub (node g ind) (node g (zero_ind n))) 0 ==
  sumQ n (fun k => rot_coef (g_rot g) i k * (inject_Z (nth k ind 0%Z) * nth k (g_dx g) 0)).
Proof.
  intros Hg Hi Hlt. unfold vsub.
  rw (map2_nth_n Qminus n _ _ 0 0 0 i (node_length n g ind Hg Hi) (node_length n g _ Hg (zero_ind_length n)) Hlt).
  rewrite (node_nth n g ind i Hg Hi Hlt), (node_nth n g (zero_ind n) i Hg (zero_ind_length n) Hlt).
  rewrite (sumQ_ext n (fun k => rot_coef (g_rot g) i k * (inject_Z (nth k (zero_ind n) 0%Z) * nth k (g_dx g) 0)) (fun _ => 0)).
  - rewrite sumQ_zero. ring.
  - intros k Hk. rewrite (zero_ind_nth n k Hk). change (inject_Z 0) with 0. ring.
Qed.

(* entry (j,i) of the step matrix xyz1: component i of the step along grid axis j = R_ij dx_j *)
Lemma step_mat_entry n g j i : wfgrid n g -> (j < n)%nat -> (i < n)%nat ->
  mget (step_mat g n) j i == rot_coef (g_rot g) i j * nth j (g_dx g) 0.
Proof.
  intros Hg Hj Hi. unfold mget, step_mat.
  rewrite (nth_map_seq (fun i0 => vsub (node g (unit_ind n i0)) (node g (zero_ind n))) n j [] Hj).
  rewrite (node_diff_nth n g (unit_ind n j) i Hg (unit_ind_length n j) Hi).
  rewrite (sumQ_ext n _ (fun k => delta j k * (rot_coef (g_rot g) i k * nth k (g_dx g) 0))).
  - apply (sumQ_delta n j (fun k => rot_coef (g_rot g) i k * nth k (g_dx g) 0) Hj).
  - intros k Hk. rewrite (unit_ind_nth n j k Hk). unfold delta. destruct (Nat.eqb j k).
    + change (inject_Z 1) with 1. ring.
    + change (inject_Z 0) with 0. ring.
Qed.
Lemma step_mat_wf n g : wfgrid n g -> length (step_mat g n) = n /\ forall j, (j < n)%nat -> length (nth j (step_mat g n) []) = n.
Proof.
  intro Hg. split; [apply length_map_seq|]. intros j Hj. unfold step_mat.
  rewrite (nth_map_seq (fun i0 => vsub (node g (unit_ind n i0)) (node g (zero_ind n))) n j [] Hj).
  unfold vsub. apply map2_length_n; apply (node_length n); try exact Hg; [apply unit_ind_length|apply zero_ind_length].
Qed.

Lemma inject_nth jnd k : nth k (map inject_Z jnd) 0 = inject_Z (nth k jnd 0%Z).
Proof. change 0 with (inject_Z 0%Z) at 1. apply map_nth. Qed.

(* the lag computed by _prepar, component i *)
Lemma lag_of_nth n g jnd i : wfgrid n g -> length jnd = n -> (i < n)%nat ->
  nth i (lag_of (step_mat g n) n jnd) 0 ==
  sumQ n (fun j => inject_Z (nth j jnd 0%Z) * (rot_coef (g_rot g) i j * nth j (g_dx g) 0)).
Proof.
  intros Hg Hl Hi. destruct (step_mat_wf n g Hg) as [W1 W2]. unfold lag_of.
  rewrite (nth_map_seq (fun i0 => dot (map inject_Z jnd) (col i0 (step_mat g n))) n i 0 Hi).
  rewrite (dot_sum n) by (rewrite ?map_length, ?length_col; assumption).
  apply sumQ_ext. intros j Hj. rewrite inject_nth, nth_col.
  fold (mget (step_mat g n) j i). rewrite (step_mat_entry n g j i Hg Hj Hi). reflexivity.
Qed.
Lemma lag_of_transposed_nth n g jnd i : wfgrid n g -> length jnd = n -> (i < n)%nat ->
  nth i (lag_of_transposed (step_mat g n) n jnd) 0 ==
  sumQ n (fun j => inject_Z (nth j jnd 0%Z) * (rot_coef (g_rot g) j i * nth i (g_dx g) 0)).
Proof.
  intros Hg Hl Hi. destruct (step_mat_wf n g Hg) as [W1 W2]. unfold lag_of_transposed.
  rewrite (nth_map_seq (fun i0 => dot (map inject_Z jnd) (nth i0 (step_mat g n) [])) n i 0 Hi).
  rewrite (dot_sum n) by (rewrite ?map_length; try assumption; apply W2; exact Hi).
  apply sumQ_ext. intros j Hj. rewrite inject_nth.
  fold (mget (step_mat g n) i j). rewrite (step_mat_entry n g i j Hg Hi Hj). reflexivity.
Qed.

(* MAIN: for every well-formed grid (rotated or not), 1-D / 2-D / 3-D (any n): the lag that _prepar associates with the index vector jnd
   is the coordinate difference node(jnd) - node(0), i.e. the rotation applied to (jnd * dx) *)
Theorem lag_is_coordinate_difference n g jnd : wfgrid n g -> length jnd = n ->
  eqlQ (lag_of (step_mat g n) n jnd) (vsub (node g jnd) (node g (zero_ind n))) /\
  eqlQ (lag_of (step_mat g n) n jnd) (rotate_direct (g_rot g) (map2 Qmult (map inject_Z jnd) (g_dx g))).
Proof.
  intros Hg Hl. pose proof Hg as (_ & Hx0 & Hdx & _ & _ & Hr).
  assert (Ll : length (lag_of (step_mat g n) n jnd) = n) by apply length_map_seq.
  assert (Lj : length (map inject_Z jnd) = n) by (rewrite map_length; exact Hl).
  assert (Lv : length (map2 Qmult (map inject_Z jnd) (g_dx g)) = n) by (apply map2_length_n; assumption).
  split; apply (eqlQ_nth n); try exact Ll.
  - unfold vsub. apply map2_length_n; apply (node_length n); try exact Hg; [exact Hl|apply zero_ind_length].
  - intros i Hi. rewrite (lag_of_nth n g jnd i Hg Hl Hi), (node_diff_nth n g jnd i Hg Hl Hi).
    apply sumQ_ext. intros k _. ring.
  - apply (rotate_direct_length n); assumption.
  - intros i Hi. rewrite (lag_of_nth n g jnd i Hg Hl Hi), (rotate_direct_lin n _ _ i Hr Lv Hi).
    apply sumQ_ext. intros k Hk.
    rw (map2_nth_n Qmult n _ _ 0 0 0 k Lj Hdx Hk). rewrite inject_nth. ring.
Qed.

(* the transposed reading of the step matrix coincides with the code when the grid is not rotated (the library keeps the rotation flagged
   off for the identity): why the seeded change C14_1 is invisible on unrotated grids *)
Theorem lag_transposed_unrotated n g jnd : wfgrid n g -> length jnd = n -> r_flag (g_rot g) = false ->
  eqlQ (lag_of_transposed (step_mat g n) n jnd) (lag_of (step_mat g n) n jnd).
Proof.
  intros Hg Hl Hf. apply (eqlQ_nth n); try apply length_map_seq.
  intros i Hi. rewrite (lag_of_nth n g jnd i Hg Hl Hi), (lag_of_transposed_nth n g jnd i Hg Hl Hi).
  unfold rot_coef. rewrite Hf.
  rewrite (sumQ_ext n _ (fun j => delta i j * (inject_Z (nth j jnd 0%Z) * nth i (g_dx g) 0))).
  - rewrite (sumQ_delta n i (fun j => inject_Z (nth j jnd 0%Z) * nth i (g_dx g) 0) Hi).
    rewrite (sumQ_ext n (fun j => inject_Z (nth j jnd 0%Z) * (delta i j * nth j (g_dx g) 0)) (fun j => delta i j * (inject_Z (nth j jnd 0%Z) * nth j (g_dx g) 0))).
    + rewrite (sumQ_delta n i (fun j => inject_Z (nth j jnd 0%Z) * nth j (g_dx g) 0) Hi). reflexivity.
    + intros j _. ring.
  - intros j _. unfold delta. rewrite (Nat.eqb_sym j i). ring.
Qed.

(* REFUTED for the transposed reading: on the 2-D unit-mesh grid rotated by the rational rotation (cos, sin) = (3/5, 4/5), the index
   vector (1,0) has lag (3/5, 4/5) = node(1,0) - node(0,0), the transposed form gives (3/5, -4/5) *)
Definition lag_witness_grid : grid :=
  {| g_nx := [3%Z; 3%Z]; g_x0 := [0; 0]; g_dx := [1; 1]; g_rot := rot_of_matrix 2 (rot2d (3 # 5) (4 # 5)) |}.
Lemma lag_witness_wf : wfgrid 2 lag_witness_grid.
Proof.
  unfold wfgrid, lag_witness_grid; simpl. repeat split; try reflexivity.
  - repeat constructor.
  - repeat constructor.
  - right. split; [apply orthogonal_b_spec; vm_compute; reflexivity|reflexivity].
Qed.
Theorem lag_transposed_refuted :
  exists g jnd, wfgrid 2 g /\ length jnd = 2%nat /\
    ~ eqlQ (lag_of_transposed (step_mat g 2) 2 jnd) (vsub (node g jnd) (node g (zero_ind 2))).
Proof.
  exists lag_witness_grid, [1%Z; 0%Z]. split; [exact lag_witness_wf|]. split; [reflexivity|].
  intro H. apply (eqlQ_nth' _ _ 1%nat) in H. vm_compute in H. discriminate H.
Qed.

From Coq Require Import Extraction ExtrOcamlBasic ExtrOcamlZBigInt ZArith.
From Gst Require Import lib.Sx C14.Run.
Extract Constant Z.gcd => "Big_int_Z.gcd_big_int".
Extract Constant Z.ggcd => "(fun a b -> let g = Big_int_Z.gcd_big_int a b in if Big_int_Z.sign_big_int g = 0 then (g, (a, b)) else (g, (Big_int_Z.div_big_int a g, Big_int_Z.div_big_int b g)))".
Extraction "model.ml" run.

(* C14, part "law": executable mirror of the basic random generators of /repo/src/Basic/Law.cpp
     law_uniform / law_int_uniform / sampleInteger          Law.cpp:127, 162, 1263
     law_gaussian / law_exponential / law_gamma             Law.cpp:183, 213, 242
     law_beta1 / law_beta2                                  Law.cpp:444, 465
     law_poisson                                            Law.cpp:883
     law_random_path                                        Law.cpp:938  (VH::arrangeInPlace: C11.Model_vec)
     law_binomial, branch BINV                              Law.cpp:962
     law_invcdf_gaussian                                    Law.cpp:569
   Only the old-style generator (Random_Old_Style = true, the default) is modelled: the state is the
   integer Random_value, one draw is C13's [lcg_next], the uniform drawn is state/20000159.
   The std::mt19937 branch is a black box and is not modelled here.
   Integers are unbounded Z (32-bit overflow of int parameters is not modelled, except inside the
   generator step where C13 models it); reals are exact rationals; log/exp/sqrt/cos/tan/pow are
   Section variables.  Loops whose exit depends on the draws carry explicit fuel ([NoFuel]).
   Every decision taken on reals also feeds a running minimum [mg] of |lhs - rhs| (the margin used by
   the correspondence to exclude ties); the margins play no role in the theorems.  No proofs here. *)
From Coq Require Import List ZArith QArith Qabs Qminmax Qround Bool.
From Gst Require Import lib.QAux C13.Model C11.Model_vec.
Import ListNotations.
Local Open Scope Q_scope.

(* ------------------------------------------------------------------------------------------ *)
(* 1. uniform draws                                                                            *)
(* ------------------------------------------------------------------------------------------ *)
(* Law.cpp:140  value = (double) Random_value / (double) Random_congruent *)
Definition u_of (v : Z) : Q := Qmake v (Z.to_pos rnd_p).

(* law_uniform(mini, maxi), Law.cpp:127-150 (old style): new state and value = mini + value * (maxi - mini) *)
Definition l_uniform (mini maxi : Q) (v : Z) : Z * Q :=
  let v' := lcg_next v in (v', mini + u_of v' * (maxi - mini)).

(* law_int_uniform(mini, maxi), Law.cpp:162-171 : rank = (int) floor(law_uniform(0, number)); return rank + mini *)
Definition l_int_uniform (mini maxi : Z) (v : Z) : Z * Z :=
  let number := (maxi - mini + 1)%Z in
  let (v', rndval) := l_uniform 0 (inject_Z number) v in
  (v', (Qfloor rndval + mini)%Z).

(* trunc() of <math.h> on an exact rational *)
Definition qtrunc (x : Q) : Z := if Qle_bool 0 x then Qfloor x else (- Qfloor (- x))%Z.

(* sampleInteger(mini, maxi), Law.cpp:1263-1270 :
     rand = law_uniform(mini - 0.5, maxi + 0.5);
     retval = (rand > 0) ? (int) trunc(rand + 0.5) : (int) -trunc(-rand + 0.5)                     *)
Definition l_sample_integer (mini maxi : Z) (v : Z) : Z * Z :=
  let rmini := inject_Z mini - (1 # 2) in
  let rmaxi := inject_Z maxi + (1 # 2) in
  let (v', rand) := l_uniform rmini rmaxi v in
  (v', if qltb 0 rand then qtrunc (rand + (1 # 2)) else (- qtrunc (- rand + (1 # 2)))%Z).

(* distance to the nearest integer: margin of a floor / trunc decision *)
Definition frac_margin (x : Q) : Q :=
  let f := x - inject_Z (Qfloor x) in Qmin f (1 - f).

(* n successive law_uniform(0,1), first drawn first; Law.cpp:943-947 *)
Fixpoint l_draws (n : nat) (v : Z) : Z * list Q :=
  match n with
  | O => (v, [])
  | S k => let (v1, u) := l_uniform 0 1 v in
           let (v2, l) := l_draws k v1 in (v2, u :: l)
  end.

(* law_random_path(nech), Law.cpp:938-950 : path[i] = i; order[i] = law_uniform(0,1);
   VH::arrangeInPlace(0, path, order, true, nech)   (C11.Model_vec.VH_arrange, VectorHelper.cpp:2095) *)
Definition l_random_path (n : nat) (v : Z) : Z * list Z :=
  let (v', us) := l_draws n v in
  (v', fst (VH_arrange false (map Z.of_nat (seq 0 n)) (map Some us) true (Some n))).

(* result of a loop that may not terminate: value, state after the call, smallest decision margin *)
Inductive outcome (A : Type) : Type :=
| Done (st : Z) (a : A) (mg : Q)
| NoFuel (st : Z).
Arguments Done {A} _ _ _. Arguments NoFuel {A} _.

(* constants of geoslib_define.h as the doubles they are *)
Definition c_pi : Q := 884279719003555 # 281474976710656.       (* GV_PI = 3.14159265358979323846..., geoslib_define.h:69 *)
(* GV_EE (geoslib_define.h:70) is NOT fixed here: the check reads the literal from the source at run time and hands its
   binary64 value to the model (argument [ee] below).  The value of the pinned tree, kept for the regression theorem: *)
Definition c_ee_2732 : Q := 2732 # 1000.                         (* "#define GV_EE  2.732" (sic) *)
Definition c_1em5 : Q := 5902958103587057 # 590295810358705651712.   (* 0.00001, Law.cpp:251 *)
Definition big_margin : Q := 1000000.

(* ------------------------------------------------------------------------------------------ *)
(* 2. laws using the elementary functions                                                      *)
(* ------------------------------------------------------------------------------------------ *)
Section Laws.
Variables (ln ex sq cs tn : Q -> Q).      (* log, exp, sqrt, cos, tan of <math.h> *)
Variable pw : Q -> Q -> Q.                (* pow *)
Variable ee : Q.                          (* GV_EE as compiled (read from include/geoslib_define.h by the check) *)

(* law_gaussian(mean, sigma), Law.cpp:183-202 (old style, Box-Muller, two draws, nothing cached):
     random1 = law_uniform(); random2 = law_uniform(0, 2 pi);
     value = sqrt(-2 log(random1)) * cos(random2); value = value * sigma + mean                     *)
Definition gauss_args (v : Z) : Z * Q * Q :=
  let (v1, r1) := l_uniform 0 1 v in
  let (v2, r2) := l_uniform 0 (2 * c_pi) v1 in (v2, r1, r2).
Definition l_gaussian (mean sigma : Q) (v : Z) : Z * Q :=
  let '(v2, r1, r2) := gauss_args v in
  (v2, sq (- (2) * ln r1) * cs r2 * sigma + mean).

(* law_exponential(lambda), Law.cpp:213-230 : value = law_uniform(0,1); value = -log(value) / lambda *)
Definition l_exponential (lambda : Q) (v : Z) : Z * Q :=
  let (v1, u) := l_uniform 0 1 v in (v1, - ln u / lambda).

(* law_gamma, alpha > 1, Law.cpp:254-263 :
     do { t = c3 * tan(pi * law_uniform(-0.5, 0.5)); value = c1 + t; }
     while (value < 0 || law_uniform(0,1) > exp(c1 * log(value / c1) - t + log(1 + t * t / c2)));     *)
Fixpoint gamma_big_loop (fuel : nat) (c1 c2 c3 : Q) (v : Z) (mg : Q) : outcome Q :=
  match fuel with
  | O => NoFuel v
  | S f =>
      let (v1, r) := l_uniform (- (1 # 2)) (1 # 2) v in
      let t := c3 * tn (c_pi * r) in
      let value := c1 + t in
      let mg1 := Qmin mg (Qabs value) in
      if qltb value 0 then gamma_big_loop f c1 c2 c3 v1 mg1
      else
        let (v2, u) := l_uniform 0 1 v1 in
        let bound := ex (c1 * ln (value / c1) - t + ln (1 + t * t / c2)) in
        let mg2 := Qmin mg1 (Qabs (u - bound)) in
        if qltb bound u then gamma_big_loop f c1 c2 c3 v2 mg2 else Done v2 value mg2
  end.

(* law_gamma, alpha < 1, Law.cpp:265-284 :
     do { v = law_uniform(0,1); value = c1 * law_uniform(0,1);
          if (value <= 1) { value = pow(value, c2); test = (v >= exp(-value)); }
          else            { value = -log((c1 - value) * c2); test = (log(v) > c3 * log(value)); }
     } while (test);                                                                                  *)
Fixpoint gamma_small_loop (fuel : nat) (c1 c2 c3 : Q) (v : Z) (mg : Q) : outcome Q :=
  match fuel with
  | O => NoFuel v
  | S f =>
      let (v1, vv) := l_uniform 0 1 v in
      let (v2, u2) := l_uniform 0 1 v1 in
      let value := c1 * u2 in
      let mg1 := Qmin mg (Qabs (value - 1)) in
      if qleb value 1 then
        let x := pw value c2 in
        let b := ex (- x) in
        let mg2 := Qmin mg1 (Qabs (vv - b)) in
        if qleb b vv then gamma_small_loop f c1 c2 c3 v2 mg2 else Done v2 x mg2
      else
        let x := - ln ((c1 - value) * c2) in
        let mg2 := Qmin mg1 (Qabs (ln vv - c3 * ln x)) in
        if qltb (c3 * ln x) (ln vv) then gamma_small_loop f c1 c2 c3 v2 mg2 else Done v2 x mg2
  end.

(* law_gamma(alpha, beta), Law.cpp:242-290 (old style; beta is not used).  None = TEST *)
Definition l_gamma (fuel : nat) (alpha : Q) (v : Z) : outcome (option Q) :=
  if qleb alpha 0 then Done v None big_margin                                   (* Law.cpp:246 *)
  else if qltb (Qabs (alpha - 1)) c_1em5 then                                   (* Law.cpp:251 *)
    let (v1, u) := l_uniform 0 1 v in Done v1 (Some (- ln u)) (Qabs (Qabs (alpha - 1) - c_1em5))
  else if qltb 1 alpha then                                                     (* Law.cpp:252 *)
    let c1 := alpha - 1 in
    let c2 := alpha + c1 in
    let c3 := sq c2 in
    match gamma_big_loop fuel c1 c2 c3 v big_margin with
    | Done s x m => Done s (Some x) m
    | NoFuel s => NoFuel s
    end
  else
    let c1 := 1 + alpha / ee in                                                 (* Law.cpp:265 *)
    let c2 := 1 / alpha in
    let c3 := alpha - 1 in
    match gamma_small_loop fuel c1 c2 c3 v big_margin with
    | Done s x m => Done s (Some x) m
    | NoFuel s => NoFuel s
    end.

(* law_beta1 / law_beta2, Law.cpp:444-474 : a = law_gamma(p1,1); b = law_gamma(p2,1);
   res = (!FFFF(a) && !FFFF(b)) ? a / (a + b)  [resp. a / b] : TEST
   (FFFF is modelled as "is TEST"; a value beyond 1e30, an infinity or a NaN is out of the model) *)
Definition l_beta (combine : Q -> Q -> Q) (fuel : nat) (p1 p2 : Q) (v : Z) : outcome (option Q) :=
  match l_gamma fuel p1 v with
  | NoFuel s => NoFuel s
  | Done v1 a m1 =>
      match l_gamma fuel p2 v1 with
      | NoFuel s => NoFuel s
      | Done v2 b m2 =>
          Done v2 (match a, b with Some a', Some b' => Some (combine a' b') | _, _ => None end) (Qmin m1 m2)
      end
  end.
Definition l_beta1 := l_beta (fun a b => a / (a + b)).
Definition l_beta2 := l_beta (fun a b => a / b).

(* law_poisson, Law.cpp:901-907 : ok = 1; while (ok) { if (law_uniform(0,1) <= p) k++; if (n-- <= 1) ok = 0; }
   the body runs max(n,1) times; [n] below is that number *)
Fixpoint pois_bern (n : nat) (p : Q) (v : Z) (k : Z) (mg : Q) : Z * Z * Q :=
  match n with
  | O => (v, k, mg)
  | S m => let (v1, u) := l_uniform 0 1 v in
           pois_bern m p v1 (if qleb u p then (k + 1)%Z else k) (Qmin mg (Qabs (u - p)))
  end.

(* law_poisson, Law.cpp:914-924 : p = 1; q = exp(-t); ok = 1;
     while (ok) { p *= law_uniform(0,1); if (p < q) ok = 0; k++; }  return k - 1;                   *)
Fixpoint pois_tail (fuel : nat) (q p : Q) (v : Z) (k : Z) (mg : Q) : outcome Z :=
  match fuel with
  | O => NoFuel v
  | S f => let (v1, u) := l_uniform 0 1 v in
           let p' := p * u in
           let mg' := Qmin mg (Qabs (p' - q) / q) in
           if qltb p' q then Done v1 k mg' else pois_tail f q p' v1 (k + 1)%Z mg'
  end.

(* law_poisson(parameter), Law.cpp:883-925 (old style).  None = ITEST.
   [fuel] bounds the "while (t >= 16)" loop, [gfuel] each law_gamma, [tfuel] the final product loop *)
Fixpoint pois_outer (fuel gfuel tfuel : nat) (t : Q) (v : Z) (k : Z) (mg : Q) : outcome (option Z) :=
  if qleb 16 t then
    match fuel with
    | O => NoFuel v
    | S f =>
        let n := Qfloor ((7 # 8) * t) in                                   (* n = (int) floor(0.875 * t) *)
        let mg0 := Qmin (Qmin mg (frac_margin ((7 # 8) * t))) (Qabs (t - 16)) in
        match l_gamma gfuel (inject_Z n) v with
        | NoFuel s => NoFuel s
        | Done v1 None m => Done v1 None (Qmin mg0 m)
        | Done v1 (Some x) m =>
            let mg1 := Qmin (Qmin mg0 m) (Qabs (x - t)) in
            if qltb t x then
              let '(v2, k2, m2) := pois_bern (Z.to_nat (Z.max n 1)) (t / x) v1 k mg1 in
              Done v2 (Some k2) m2
            else pois_outer f gfuel tfuel (t - x) v1 (k + n)%Z mg1
        end
    end
  else
    match pois_tail tfuel (ex (- t)) 1 v k (Qmin mg (Qabs (t - 16))) with
    | Done s r m => Done s (Some r) m
    | NoFuel s => NoFuel s
    end.
Definition l_poisson (fuel gfuel tfuel : nat) (parameter : Q) (v : Z) : outcome (option Z) :=
  pois_outer fuel gfuel tfuel parameter v 0%Z big_margin.

End Laws.

(* ------------------------------------------------------------------------------------------ *)
(* 2b. law_invcdf_gaussian                                                                     *)
(* ------------------------------------------------------------------------------------------ *)
(* law_invcdf_gaussian, Law.cpp:593-602 : while ((xmax - xmin) > 0.0000001) { x = (xmin + xmax) / 2; ... }
   [dec x] is the test "freq * exp(-x*x/2) / sqrt(2 pi) > 1 - v".  Returns x and the number of iterations *)
Definition c_1em7 : Q := 944473296573929 # 9444732965739290427392.          (* 0.0000001 *)
Definition c_001 : Q := 1152921504606847 # 1152921504606846976.              (* 0.001 *)
Definition c_002 : Q := 1152921504606847 # 576460752303423488.               (* 0.002 *)
Fixpoint bisect (fuel : nat) (dec : Q -> bool) (xmin xmax x : Q) (it : nat) : option (Q * nat) :=
  if qltb c_1em7 (xmax - xmin) then
    match fuel with
    | O => None
    | S f => let x' := Qred ((xmin + xmax) / 2) in      (* Qred: same rational, reduced fraction *)
             if dec x' then bisect f dec x' xmax x' (S it) else bisect f dec xmin x' x' (S it)
    end
  else Some (x, it).

Section InvCdf.
Variables (ln ex sq : Q -> Q).
Variable rd : Q -> Q.      (* rounding of intermediate results (the doubles of the C++ round as well); identity = exact *)

(* coefficients as written in the source (decimal literals; the C++ uses the nearest doubles) *)
Definition icdf_b : list Q := [319381530 # 1000000000; - (356563782 # 1000000000); 1781477937 # 1000000000;
                               - (1821255978 # 1000000000); 1330274429 # 1000000000].
Definition icdf_p : Q := 2316419 # 10000000.
Definition icdf_freq (x : Q) : Q :=
  let t := rd (1 / (1 + icdf_p * x)) in
  rd (t * fold_right (fun b acc => rd (b + t * acc)) 0 icdf_b).
Definition icdf_start (t : Q) : Q :=
  t - ((2515517 # 1000000) + t * ((802853 # 1000000) + t * (10328 # 1000000)))
      / (1 + t * ((1432788 # 1000000) + t * ((189269 # 1000000) + t * (1308 # 1000000)))).

(* law_invcdf_gaussian(value), Law.cpp:569-607.  Result: x, iterations, smallest margin of the tests *)
Definition l_invcdf (fuel : nat) (value : Q) : option (Q * nat) :=
  if qleb value 0 then Some (- (10), O)
  else if qleb 1 value then Some (10, O)
  else
    let v := if qltb value (1 # 2) then 1 - value else value in
    let t := sq (- (2) * ln (1 - v)) in
    let xmin := rd (icdf_start t - c_001) in
    let xmax := xmin + c_002 in
    match bisect fuel (fun x => qltb (1 - v) (rd (icdf_freq x * ex (rd (- x * x / 2)) / sq (2 * c_pi)))) xmin xmax 0 O with
    | None => None
    | Some (x, it) => Some (if qltb value (1 # 2) then - x else x, it)
    end.

End InvCdf.

(* ------------------------------------------------------------------------------------------ *)
(* 3. law_binomial, branch BINV, in exact arithmetic                                           *)
(* ------------------------------------------------------------------------------------------ *)
(* Law.cpp:972-978 : while (1) { if (u < r) return x; u -= r; x++; r *= (a / x) - s; } *)
Fixpoint binv_loop (fuel : nat) (a s u r : Q) (x : Z) (mg : Q) : option (Z * Q) :=
  match fuel with
  | O => None
  | S f =>
      let mg' := Qmin mg (Qabs (u - r)) in
      if qltb u r then Some (x, mg')
      else let x' := (x + 1)%Z in
           binv_loop f a s (u - r) (r * (a / inject_Z x' - s)) x' mg'
  end.

(* law_binomial(n, p), Law.cpp:962-979.  r = exp(n * log(q)) is q^n, taken exactly.
   Inner None = the BTPE branch (n * p >= 30), which is not modelled *)
Definition l_binomial (fuel : nat) (n : Z) (p : Q) (v : Z) : outcome (option Z) :=
  let q := 1 - p in
  if qltb (inject_Z n * p) 30 then
    let s := p / q in
    let a := inject_Z (n + 1) * s in
    let r := Qpower q n in
    let (v1, u) := l_uniform 0 1 v in
    match binv_loop fuel a s u r 0%Z (Qabs (inject_Z n * p - 30)) with
    | Some (x, m) => Done v1 (Some x) m
    | None => NoFuel v1
    end
  else Done v None big_margin.

(* law_binomial as it is in the tree: [flip] = the source contains, at the head of law_binomial,
     if (p > 0.5) return n - law_binomial(n, 1. - p);
   (candidate repair fixes/C14_8.patch; the check probes src/Basic/Law.cpp at run time).  1 - p is taken exactly. *)
Definition l_binomial_flip (flip : bool) (fuel : nat) (n : Z) (p : Q) (v : Z) : outcome (option Z) :=
  if flip && qltb (1 # 2) p then
    match l_binomial fuel n (1 - p) v with
    | Done s (Some x) m => Done s (Some (n - x)%Z) m
    | r => r
    end
  else l_binomial fuel n p v.

(* ------------------------------------------------------------------------------------------ *)
(* 4. rational cosine / sine / tangent / power for the executable instance                      *)
(* ------------------------------------------------------------------------------------------ *)
(* About 120 significant bits (C13.Model.qrnd).  Accuracy is not part of any theorem: these only
   have to be as good as libm in the correspondence run. *)
Definition q_pi : Q := 3141592653589793238462643383279502884197169399375 # 1000000000000000000000000000000000000000000000000.
Definition q_halfpi : Q := q_pi / 2.

(* sum of the alternating series  term_{k+1} = - term_k * x2 / (i (i+1)),  i advancing by 2 *)
Fixpoint alt_taylor (n : nat) (i : Z) (x2 term acc : Q) : Q :=
  match n with
  | O => acc
  | S k => let term' := qrnd (- term * x2 / inject_Z (i * (i + 1))) in
           alt_taylor k (i + 2) x2 term' (qaddr acc term')
  end.
Definition cos_core (x : Q) : Q := alt_taylor 30 1 (qmulr x x) 1 1.          (* |x| <= pi/4 *)
Definition sin_core (x : Q) : Q := let x' := qrnd x in alt_taylor 30 2 (qmulr x x) x' x'.

(* x = k * pi/2 + r, |r| <= pi/4 *)
Definition trig_reduce (x : Q) : Z * Q :=
  let k := Qfloor (x / q_halfpi + (1 # 2)) in (k, x - inject_Z k * q_halfpi).
Definition qcos (x : Q) : Q :=
  let (k, r) := trig_reduce x in
  let m := (k mod 4)%Z in
  if (m =? 0)%Z then cos_core r else if (m =? 1)%Z then - sin_core r
  else if (m =? 2)%Z then - cos_core r else sin_core r.
Definition qsin (x : Q) : Q :=
  let (k, r) := trig_reduce x in
  let m := (k mod 4)%Z in
  if (m =? 0)%Z then sin_core r else if (m =? 1)%Z then cos_core r
  else if (m =? 2)%Z then - sin_core r else - cos_core r.
Definition qtan (x : Q) : Q := qdivr (qsin x) (qcos x).
(* pow(x, y) for x > 0 *)
Definition qpow (x y : Q) : Q := if Qle_bool x 0 then 0 else qexp (qmulr y (qlog x)).

(* C14 part proc: _rankInPoisson (TurningBandOperate.cpp:174-204) - correctness, clamping, history
   independence of the _nt0 cache, absence of out-of-bounds reads on the reachable domain. *)
From Coq Require Import List ZArith QArith Bool Lqa Lia.
From Gst Require Import lib.Sx lib.QAux C14.Proc.
Import ListNotations.
Local Open Scope Q_scope.

Lemma rd_some t i : (0 <= i < Z.of_nat (length t))%Z -> rd t i = Some (tq t i).
Proof.
  intros H. unfold rd, tq. destruct (Z.ltb_spec i 0); [lia|]. apply nth_error_nth'. lia.
Qed.
Lemma rd_none t i : (i < 0 \/ Z.of_nat (length t) <= i)%Z -> rd t i = None.
Proof.
  intros H. unfold rd. destruct (Z.ltb_spec i 0); [reflexivity|]. apply nth_error_None. lia.
Qed.

Lemma in_cell_ok t t0 k : (0 <= k /\ k + 1 < Z.of_nat (length t))%Z ->
  in_cell t t0 k = Some (qleb (tq t k) t0 && qltb t0 (tq t (k + 1))).
Proof.
  intros H. unfold in_cell. rewrite (rd_some t k) by lia. rewrite (rd_some t (k + 1)) by lia.
  destruct (qleb (tq t k) t0); reflexivity.
Qed.

(* one-sided knowledge kept by the dichotomy; holds for ANY vector (sorted or not) *)
Definition lo_ok (t : list Q) (t0 : Q) (k : Z) : Prop := (k = 0)%Z \/ tq t k <= t0.
Definition hi_ok (t : list Q) (t0 : Q) (k : Z) : Prop := (k = Z.of_nat (length t) - 1)%Z \/ t0 < tq t k.

Lemma quot2_between a b : (0 <= a)%Z -> (1 < b - a)%Z -> (a < Z.quot (b + a) 2 < b)%Z.
Proof.
  intros Ha Hb. rewrite Z.quot_div_nonneg by lia.
  pose proof (Z.div_mod (b + a) 2 ltac:(lia)). pose proof (Z.mod_pos_bound (b + a) 2 ltac:(lia)). lia.
Qed.

Lemma dicho_inv : forall fuel t t0 itp itn,
  (0 <= itp < itn)%Z -> (itn <= Z.of_nat (length t) - 1)%Z -> (itn - itp <= Z.of_nat fuel)%Z ->
  lo_ok t t0 itp -> hi_ok t t0 itn ->
  exists k, dicho fuel t t0 itp itn = Some k /\ (itp <= k)%Z /\ (k + 1 <= itn)%Z
            /\ lo_ok t t0 k /\ hi_ok t t0 (k + 1).
Proof.
  induction fuel as [|f IH]; intros t t0 itp itn H1 H2 H3 Hlo Hhi; simpl; rewrite Z.gtb_ltb;
    destruct (Z.ltb_spec 1 (itn - itp)) as [Hgt|Hle].
  - lia.
  - exists itp. replace (itp + 1)%Z with itn by lia. repeat split; try lia; assumption.
  - pose proof (quot2_between itp itn ltac:(lia) Hgt) as Hit.
    set (it := Z.quot (itn + itp) 2) in *.
    rewrite (rd_some t it) by lia.
    destruct (qleb_spec (tq t it) t0) as [Hc|Hc].
    + destruct (IH t t0 it itn) as (k & E & K1 & K2 & K3 & K4); try lia; [right; exact Hc|exact Hhi|].
      exists k. repeat split; try lia; assumption.
    + destruct (IH t t0 itp it) as (k & E & K1 & K2 & K3 & K4); try lia; [exact Hlo|right; lra|].
      exists k. repeat split; try lia; assumption.
  - exists itp. replace (itp + 1)%Z with itn by lia. repeat split; try lia; assumption.
Qed.

(* For every vector with at least two points and every cached rank in [0, nt-2]: no read outside
   the vector, the result stays in [0, nt-2], and it carries the one-sided facts. *)
Theorem rank_spec t t0 d :
  (2 <= Z.of_nat (length t))%Z -> (0 <= d <= Z.of_nat (length t) - 2)%Z ->
  exists k, rankInPoisson d t0 t = Some k /\ (0 <= k <= Z.of_nat (length t) - 2)%Z
            /\ lo_ok t t0 k /\ hi_ok t t0 (k + 1).
Proof.
  intros Hnt Hd. unfold rankInPoisson.
  rewrite (in_cell_ok t t0 d) by lia.
  destruct (qleb_spec (tq t d) t0) as [A1|A1]; destruct (qltb_spec t0 (tq t (d + 1))) as [A2|A2]; simpl.
  1: { exists d. repeat split; try lia; [right; exact A1|right; exact A2]. }
  all: destruct (Z.ltb_spec d (Z.of_nat (length t) - 2)) as [B|B].
  all: try (rewrite (in_cell_ok t t0 (d + 1)) by lia;
            destruct (qleb_spec (tq t (d + 1)) t0) as [B1|B1];
            destruct (qltb_spec t0 (tq t (d + 1 + 1))) as [B2|B2]; simpl).
  all: try (exists (d + 1)%Z; repeat split; try lia; [right; exact B1|right; exact B2]).
  all: rewrite Z.gtb_ltb; destruct (Z.ltb_spec 0 d) as [C|C].
  all: try (rewrite (in_cell_ok t t0 (d - 1)) by lia;
            replace (d - 1 + 1)%Z with d by lia;
            destruct (qleb_spec (tq t (d - 1)) t0) as [C1|C1];
            destruct (qltb_spec t0 (tq t d)) as [C2|C2]; simpl).
  all: try (exists (d - 1)%Z; replace (d - 1 + 1)%Z with d by lia;
            repeat split; try lia; [right; exact C1|right; exact C2]).
  all: destruct (dicho_inv (length t) t t0 0 (Z.of_nat (length t) - 1)) as (k & E & K1 & K2 & K3 & K4);
       try lia; [left; reflexivity|left; reflexivity|];
       exists k; repeat split; try lia; assumption.
Qed.

Corollary rank_defined t t0 d :
  (2 <= Z.of_nat (length t))%Z -> (0 <= d <= Z.of_nat (length t) - 2)%Z ->
  exists k, rankInPoisson d t0 t = Some k /\ (0 <= k <= Z.of_nat (length t) - 2)%Z.
Proof. intros H1 H2. destruct (rank_spec t t0 d H1 H2) as (k & E & K & _). exists k. split; assumption. Qed.

(* ---- sorted vectors *)
Lemma incr_nth_adj : forall l n, incr l -> (S n < length l)%nat -> nth n l 0 < nth (S n) l 0.
Proof.
  induction l as [|a l IH]; intros n Hi Hn; [simpl in Hn; lia|].
  destruct l as [|b l]; [simpl in Hn; lia|].
  destruct Hi as [Hab Hi]. destruct n as [|n]; [exact Hab|].
  change (nth n (b :: l) 0 < nth (S n) (b :: l) 0). apply IH; [exact Hi|simpl in *; lia].
Qed.
Lemma incr_nth : forall l i j, incr l -> (i < j < length l)%nat -> nth i l 0 < nth j l 0.
Proof.
  intros l i j Hi. induction j as [|j IH]; intros H; [lia|].
  destruct (Nat.eq_dec i j) as [->|Hne].
  - apply incr_nth_adj; [exact Hi|lia].
  - apply Qlt_trans with (nth j l 0); [apply IH; lia|apply incr_nth_adj; [exact Hi|lia]].
Qed.
Lemma incr_tq t i j : incr t -> (0 <= i < j)%Z -> (j < Z.of_nat (length t))%Z -> tq t i < tq t j.
Proof. intros Hi H1 H2. unfold tq. apply incr_nth; [exact Hi|lia]. Qed.
Lemma incr_tq_le t i j : incr t -> (0 <= i <= j)%Z -> (j < Z.of_nat (length t))%Z -> tq t i <= tq t j.
Proof.
  intros Hi H1 H2. destruct (Z.eq_dec i j) as [->|Hne]; [apply Qle_refl|].
  apply Qlt_le_weak. apply incr_tq; [exact Hi|lia|lia].
Qed.

(* the interval containing t0 is unique *)
Lemma cell_unique t t0 k k' : incr t ->
  (0 <= k)%Z -> (k + 1 < Z.of_nat (length t))%Z -> (0 <= k')%Z -> (k' + 1 < Z.of_nat (length t))%Z ->
  tq t k <= t0 -> t0 < tq t (k + 1) -> tq t k' <= t0 -> t0 < tq t (k' + 1) -> k = k'.
Proof.
  intros Hi A1 A2 B1 B2 C1 C2 D1 D2.
  destruct (Z.lt_trichotomy k k') as [H|[H|H]]; [exfalso|exact H|exfalso].
  - pose proof (incr_tq_le t (k + 1) k' Hi ltac:(lia) ltac:(lia)). lra.
  - pose proof (incr_tq_le t (k' + 1) k Hi ltac:(lia) ltac:(lia)). lra.
Qed.

(* MAIN: for a strictly increasing vector and t[0] <= t0 < t[last], whatever the cached rank in
   [0, nt-2], the result is the interval containing t0. *)
Theorem rank_correct t t0 d : incr t ->
  (2 <= Z.of_nat (length t))%Z -> (0 <= d <= Z.of_nat (length t) - 2)%Z ->
  tq t 0 <= t0 -> t0 < tq t (Z.of_nat (length t) - 1) ->
  exists k, rankInPoisson d t0 t = Some k /\ (0 <= k <= Z.of_nat (length t) - 2)%Z
            /\ tq t k <= t0 /\ t0 < tq t (k + 1).
Proof.
  intros Hi Hnt Hd Hlo Hhi.
  destruct (rank_spec t t0 d Hnt Hd) as (k & E & K & [L|L] & [U|U]); exists k; repeat split;
    try exact E; try lia; try (subst k; exact Hlo); try exact L; try exact U;
    try (replace (k + 1)%Z with (Z.of_nat (length t) - 1)%Z by lia; exact Hhi).
Qed.

(* history independence of the cache *)
Theorem rank_history_independent t t0 d d' : incr t ->
  (2 <= Z.of_nat (length t))%Z ->
  (0 <= d <= Z.of_nat (length t) - 2)%Z -> (0 <= d' <= Z.of_nat (length t) - 2)%Z ->
  tq t 0 <= t0 -> t0 < tq t (Z.of_nat (length t) - 1) ->
  rankInPoisson d t0 t = rankInPoisson d' t0 t.
Proof.
  intros Hi Hnt Hd Hd' Hlo Hhi.
  destruct (rank_correct t t0 d Hi Hnt Hd Hlo Hhi) as (k & E & K & L & U).
  destruct (rank_correct t t0 d' Hi Hnt Hd' Hlo Hhi) as (k' & E' & K' & L' & U').
  rewrite E, E'. f_equal. apply (cell_unique t t0 k k' Hi); try lia; assumption.
Qed.

(* outside the covered range the rank is clamped (no read outside the vector) *)
Theorem rank_below t t0 d : incr t ->
  (2 <= Z.of_nat (length t))%Z -> (0 <= d <= Z.of_nat (length t) - 2)%Z ->
  t0 < tq t 0 -> rankInPoisson d t0 t = Some 0%Z.
Proof.
  intros Hi Hnt Hd Hlo.
  destruct (rank_spec t t0 d Hnt Hd) as (k & E & K & [L|L] & _); rewrite E; f_equal; [exact L|].
  destruct (Z.eq_dec k 0) as [H0|H0]; [exact H0|exfalso].
  pose proof (incr_tq t 0 k Hi ltac:(lia) ltac:(lia)). lra.
Qed.
Theorem rank_above t t0 d : incr t ->
  (2 <= Z.of_nat (length t))%Z -> (0 <= d <= Z.of_nat (length t) - 2)%Z ->
  tq t (Z.of_nat (length t) - 1) <= t0 -> rankInPoisson d t0 t = Some (Z.of_nat (length t) - 2)%Z.
Proof.
  intros Hi Hnt Hd Hhi.
  destruct (rank_spec t t0 d Hnt Hd) as (k & E & K & _ & [U|U]); rewrite E; f_equal; [lia|].
  destruct (Z.eq_dec k (Z.of_nat (length t) - 2)) as [H0|H0]; [exact H0|exfalso].
  pose proof (incr_tq t (k + 1) (Z.of_nat (length t) - 1) Hi ltac:(lia) ltac:(lia)). lra.
Qed.

(* the only way to read outside: a cached rank nt-1 (never produced, see rank_spec) with t0 >= t[nt-1] *)
Theorem rank_oob_last t t0 :
  (1 <= Z.of_nat (length t))%Z -> tq t (Z.of_nat (length t) - 1) <= t0 ->
  rankInPoisson (Z.of_nat (length t) - 1) t0 t = None.
Proof.
  intros Hnt Hhi. unfold rankInPoisson, in_cell.
  rewrite (rd_some t (Z.of_nat (length t) - 1)) by lia.
  destruct (qleb_spec (tq t (Z.of_nat (length t) - 1)) t0) as [A|A]; [|contradiction].
  rewrite (rd_none t (Z.of_nat (length t) - 1 + 1)) by lia. reflexivity.
Qed.

(* ---- sequences of calls: the cache stays in range, and the values do not depend on the history *)
Lemma tb_t_set s k : tb_t (set_nt0 s k) = tb_t s. Proof. reflexivity. Qed.
Lemma tb_nt0_set s k : tb_nt0 (set_nt0 s k) = k. Proof. reflexivity. Qed.

Definition spectral_nocache (s : tbo) (t0 : Q) : option (Z * Q) :=
  match spectralOne (set_nt0 s 0) t0 with Some (s', v) => Some (tb_nt0 s', v) | None => None end.

Lemma spectralOne_cache s d t0 :
  spectralOne (set_nt0 s d) t0 =
  match rankInPoisson d t0 (tb_t s) with
  | None => None
  | Some k => match rd (tb_t s) (k + 1), rd (tb_t s) k with
              | Some b, Some a => Some (set_nt0 s k, spectralValue (tb_vexp s) a b t0)
              | _, _ => None
              end
  end.
Proof. reflexivity. Qed.

Theorem spectralSeq_history_independent : forall ts s d, incr (tb_t s) ->
  (2 <= Z.of_nat (length (tb_t s)))%Z -> (0 <= d <= Z.of_nat (length (tb_t s)) - 2)%Z ->
  Forall (fun t0 => tq (tb_t s) 0 <= t0 /\ t0 < tq (tb_t s) (Z.of_nat (length (tb_t s)) - 1)) ts ->
  spectralSeq (set_nt0 s d) ts = map (spectral_nocache s) ts.
Proof.
  induction ts as [|t0 ts IH]; intros s d Hi Hnt Hd Hall; [reflexivity|].
  inversion Hall as [|x l [Hlo Hhi] Hall' Ex]; subst x l.
  change (spectralSeq (set_nt0 s d) (t0 :: ts))
    with (match spectralOne (set_nt0 s d) t0 with
          | None => [None]
          | Some (s', v) => Some (tb_nt0 s', v) :: spectralSeq s' ts end).
  simpl map. unfold spectral_nocache at 1.
  rewrite !spectralOne_cache.
  rewrite (rank_history_independent (tb_t s) t0 d 0 Hi Hnt Hd ltac:(lia) Hlo Hhi).
  destruct (rank_correct (tb_t s) t0 0 Hi Hnt ltac:(lia) Hlo Hhi) as (k & E & K & L & U).
  rewrite E. rewrite (rd_some (tb_t s) (k + 1)) by lia. rewrite (rd_some (tb_t s) k) by lia.
  rewrite tb_nt0_set. f_equal. apply IH; assumption || lia.
Qed.

(* the cache stays in [0, nt-2] and nothing is read outside, for ANY vector and ANY abscissae *)
Theorem spectralSeq_defined : forall ts s,
  (2 <= Z.of_nat (length (tb_t s)))%Z -> (0 <= tb_nt0 s <= Z.of_nat (length (tb_t s)) - 2)%Z ->
  Forall (fun r => exists k v, r = Some (k, v) /\ (0 <= k <= Z.of_nat (length (tb_t s)) - 2)%Z)
         (spectralSeq s ts).
Proof.
  induction ts as [|t0 ts IH]; intros s Hnt Hd; [constructor|].
  simpl. unfold spectralOne.
  destruct (rank_spec (tb_t s) t0 (tb_nt0 s) Hnt Hd) as (k & E & K & _ & _).
  rewrite E. rewrite (rd_some (tb_t s) (k + 1)) by lia. rewrite (rd_some (tb_t s) k) by lia.
  constructor.
  - eexists; eexists; split; [reflexivity|exact K].
  - apply (IH (set_nt0 s k)); simpl; [exact Hnt|exact K].
Qed.

(* ---- an abscissa larger than every element of _t (any vector, sorted or not): the process is the constant -vexp.
   (This is what happened before commit e4e350f57 in the branch `scale < delta * eps` of _migrationInit, whose _t held
   N(0,1) draws; the theorem itself is about spectralOne and holds for any vector.) *)
Theorem spectral_above_all s t0 :
  (2 <= Z.of_nat (length (tb_t s)))%Z -> (0 <= tb_nt0 s <= Z.of_nat (length (tb_t s)) - 2)%Z ->
  (forall i, (0 <= i < Z.of_nat (length (tb_t s)))%Z -> tq (tb_t s) i < t0) ->
  spectralOne s t0 = Some (set_nt0 s (Z.of_nat (length (tb_t s)) - 2), - tb_vexp s).
Proof.
  intros Hnt Hd Hall. unfold spectralOne.
  destruct (rank_spec (tb_t s) t0 (tb_nt0 s) Hnt Hd) as (k & E & K & _ & [U|U]).
  - rewrite E. assert (Ek : k = (Z.of_nat (length (tb_t s)) - 2)%Z) by lia. subst k.
    rewrite (rd_some (tb_t s) (Z.of_nat (length (tb_t s)) - 2 + 1)) by lia.
    rewrite (rd_some (tb_t s) (Z.of_nat (length (tb_t s)) - 2)) by lia.
    pose proof (Hall (Z.of_nat (length (tb_t s)) - 2 + 1)%Z ltac:(lia)) as A.
    pose proof (Hall (Z.of_nat (length (tb_t s)) - 2)%Z ltac:(lia)) as B.
    destruct (qltb_spec (tq (tb_t s) (Z.of_nat (length (tb_t s)) - 2 + 1) + tq (tb_t s) (Z.of_nat (length (tb_t s)) - 2)) (2 * t0)) as [C|C];
      [reflexivity|exfalso; lra].
  - exfalso. pose proof (Hall (k + 1)%Z ltac:(lia)) as A. lra.
Qed.

(* REGRESSION: before commit e4e350f57 the statement "the vector built by _migrationInit is increasing and covers
   [tmin, tmax]" was FALSE in the branch scale < (tmax - tmin) * 1e-5 (about [migrationInitT_old]) *)
Theorem old_migration_degenerate_refuted :
  exists tmin tmax scale gs t, 0 < scale /\ tmin < tmax
    /\ migrationInitT_old tmin tmax scale gs 0 0 [] = Some t /\ ~ incr t /\ ~ tq t 0 <= tmin.
Proof.
  exists 0, (3 # 100000), (1 # 10000000000), [1; 0; -(1)], [1; 0; -(1)].
  split; [reflexivity|]. split; [reflexivity|]. split; [vm_compute; reflexivity|].
  split.
  - intros [H _]. vm_compute in H. discriminate.
  - intro H. vm_compute in H. apply H. reflexivity.
Qed.

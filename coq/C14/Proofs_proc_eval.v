(* C14 part proc: evaluation of the dilution processes (TurningBandOperate.cpp:84-104), ranges covered by
   _dilutionInit / _migrationInit (CalcSimuTurningBands.cpp:605-696): no read outside the vectors for
   abscissae in [tmin, tmax]; bounds of the values. *)
From Coq Require Import List ZArith QArith Qround Bool Lqa Lia.
From Gst Require Import lib.Sx lib.QAux C14.Proc C14.Proofs_proc_rank C14.Proofs_proc_poly.
Import ListNotations.
Local Open Scope Q_scope.

(* (int)(x) is the floor for x >= 0 *)
Lemma qtrunc_floor q : 0 <= q -> qtrunc q = Qfloor q.
Proof.
  intros H. destruct q as [n d]. unfold qtrunc, Qfloor. simpl.
  apply Z.quot_div_nonneg; [|lia]. unfold Qle in H. simpl in H. lia.
Qed.
Lemma frac_range q : 0 <= q - inject_Z (Qfloor q) /\ q - inject_Z (Qfloor q) < 1.
Proof.
  pose proof (Qfloor_le q). pose proof (Qlt_floor q) as L.
  rewrite inject_Z_plus in L. change (inject_Z 1) with 1 in L. split; lra.
Qed.

(* value = sign * shape(fractional part) when dt >= 0 *)
Lemma shotGen_value g s t0 v : 0 <= shot_dt s t0 -> shotGen g s t0 = Some v ->
  exists e, rd (tb_t s) (Qfloor (shot_dt s t0)) = Some e
            /\ v = e * g (shot_dt s t0 - inject_Z (Qfloor (shot_dt s t0))).
Proof.
  intros Hd. unfold shotGen. rewrite (qtrunc_floor _ Hd).
  destruct (rd (tb_t s) (Qfloor (shot_dt s t0))) as [e|]; [|discriminate].
  intros E. injection E as <-. exists e. split; reflexivity.
Qed.

Lemma rd_in l k e : rd l k = Some e -> In e l.
Proof. unfold rd. destruct (k <? 0)%Z; [discriminate|]. apply nth_error_In. Qed.

(* B1(a): |value| <= 1 (affine), 432 value^2 <= 1 (cubic: max |f| = sqrt(3)/36) when the signs are +-1 *)
Theorem shotAffine_bound s t0 v : 0 <= shot_dt s t0 -> (forall e, In e (tb_t s) -> e * e == 1) ->
  shotAffine s t0 = Some v -> v * v <= 1.
Proof.
  intros Hd Hs E. destruct (shotGen_value g_aff s t0 v Hd E) as (e & Er & ->).
  pose proof (Hs e (rd_in _ _ _ Er)) as He.
  destruct (frac_range (shot_dt s t0)) as [F0 F1].
  set (x := shot_dt s t0 - inject_Z (Qfloor (shot_dt s t0))) in *.
  destruct (g_aff_bound x F0 ltac:(lra)) as [G0 G1].
  setoid_replace (e * g_aff x * (e * g_aff x)) with ((e * e) * (g_aff x * g_aff x)) by ring.
  rewrite He. nra.
Qed.
Theorem shotCubic_bound s t0 v : 0 <= shot_dt s t0 -> (forall e, In e (tb_t s) -> e * e == 1) ->
  shotCubic s t0 = Some v -> 432 * (v * v) <= 1.
Proof.
  intros Hd Hs E. destruct (shotGen_value g_cub s t0 v Hd E) as (e & Er & ->).
  pose proof (Hs e (rd_in _ _ _ Er)) as He.
  destruct (frac_range (shot_dt s t0)) as [F0 F1].
  set (x := shot_dt s t0 - inject_Z (Qfloor (shot_dt s t0))) in *.
  pose proof (g_cub_bound x F0 ltac:(lra)) as G.
  setoid_replace (e * g_cub x * (e * g_cub x)) with ((e * e) * (g_cub x * g_cub x)) by ring.
  rewrite He. lra.
Qed.

(* ---- _dilutionInit: number of cells *)
Lemma dil_count_spec : forall fuel tdeb scale tmax c n,
  dil_count fuel tdeb scale tmax c = Some n ->
  (c <= n)%Z /\ tmax < tdeb + inject_Z n * scale
  /\ (forall j, (c <= j < n)%Z -> tdeb + inject_Z j * scale <= tmax).
Proof.
  induction fuel as [|f IH]; intros tdeb scale tmax c n; simpl;
    destruct (qleb_spec (tdeb + inject_Z c * scale) tmax) as [H|H]; try discriminate.
  - intros E. injection E as <-. split; [lia|]. split; [lra|]. intros j Hj. lia.
  - intros E. destruct (IH tdeb scale tmax (c + 1)%Z n E) as (A & B & C).
    split; [lia|]. split; [exact B|].
    intros j Hj. destruct (Z.eq_dec j c) as [->|Hne]; [exact H|apply C; lia].
  - intros E. injection E as <-. split; [lia|]. split; [lra|]. intros j Hj. lia.
Qed.

Lemma shot_dt_unscaled s t0 : tb_flagScaled s = false -> ~ tb_scale s == 0 ->
  shot_dt s t0 == (t0 - tb_tdeb s) / tb_scale s.
Proof. intros Hf Hs. unfold shot_dt. rewrite Hf. field. exact Hs. Qed.
Lemma shot_dt_scaled s t0 : tb_flagScaled s = true -> ~ tb_scale s == 0 ->
  shot_dt s (t0 / tb_scale s) == (t0 - tb_tdeb s) / tb_scale s.
Proof. intros Hf Hs. unfold shot_dt. rewrite Hf. field. exact Hs. Qed.

(* for an abscissa between tmin and tmax the cell exists: no read outside _t (exact arithmetic) *)
Theorem dilution_covers s fuel tmin tmax u n t0 :
  0 < tb_scale s -> 0 <= u ->
  tb_tdeb s = dil_tdeb tmin (tb_scale s) u ->
  dil_count fuel (tb_tdeb s) (tb_scale s) tmax 0 = Some n -> Z.of_nat (length (tb_t s)) = n ->
  tmin <= t0 -> t0 <= tmax ->
  0 <= (t0 - tb_tdeb s) / tb_scale s
  /\ forall dt, dt == (t0 - tb_tdeb s) / tb_scale s -> (0 <= qtrunc dt < n)%Z.
Proof.
  intros Hsc Hu Htd Hc Hn H1 H2.
  destruct (dil_count_spec _ _ _ _ _ _ Hc) as (A & B & _).
  assert (Hnum : 0 <= t0 - tb_tdeb s). { rewrite Htd. unfold dil_tdeb. nra. }
  assert (Hdt : 0 <= (t0 - tb_tdeb s) / tb_scale s).
  { unfold Qdiv. apply Qmult_le_0_compat; [exact Hnum|]. apply Qlt_le_weak, Qinv_lt_0_compat, Hsc. }
  split; [exact Hdt|]. intros dt Edt.
  assert (Hdt' : 0 <= dt) by (rewrite Edt; exact Hdt).
  rewrite (qtrunc_floor dt Hdt').
  assert (F0 : (0 <= Qfloor dt)%Z). { rewrite <- (Qfloor_Z 0). apply Qfloor_resp_le. exact Hdt'. }
  split; [exact F0|].
  pose proof (Qfloor_le dt) as Fl.
  assert (Ek : dt * tb_scale s == t0 - tb_tdeb s) by (rewrite Edt; field; lra).
  assert (K : inject_Z (Qfloor dt) * tb_scale s <= t0 - tb_tdeb s) by (rewrite <- Ek; nra).
  assert (L : inject_Z (Qfloor dt) * tb_scale s < inject_Z n * tb_scale s) by lra.
  assert (M : inject_Z (Qfloor dt) < inject_Z n).
  { destruct (Qlt_le_dec (inject_Z (Qfloor dt)) (inject_Z n)) as [X|X]; [exact X|exfalso; nra]. }
  rewrite <- Zlt_Qlt in M. exact M.
Qed.
Corollary dilution_no_oob (g : Q -> Q) s fuel tmin tmax u n t0 :
  tb_flagScaled s = false ->
  0 < tb_scale s -> 0 <= u ->
  tb_tdeb s = dil_tdeb tmin (tb_scale s) u ->
  dil_count fuel (tb_tdeb s) (tb_scale s) tmax 0 = Some n -> Z.of_nat (length (tb_t s)) = n ->
  tmin <= t0 -> t0 <= tmax ->
  exists v, shotGen g s t0 = Some v.
Proof.
  intros Hf Hsc Hu Htd Hc Hn H1 H2.
  destruct (dilution_covers s fuel tmin tmax u n t0 Hsc Hu Htd Hc Hn H1 H2) as (_ & K).
  specialize (K (shot_dt s t0) (shot_dt_unscaled s t0 Hf ltac:(lra))).
  unfold shotGen. rewrite (rd_some (tb_t s) (qtrunc (shot_dt s t0))) by lia. eexists; reflexivity.
Qed.

(* ---- _migrationInit: the Poisson points are increasing and cover [tmin, tmax] *)
Definition lastq (l : list Q) : Q := nth (length l - 1) l 0.
Lemma lastq_cons a b l : lastq (a :: b :: l) = lastq (b :: l).
Proof. unfold lastq. simpl length. replace (S (S (length l)) - 1)%nat with (S (S (length l) - 1)) by lia. reflexivity. Qed.

Lemma mig_loop_spec : forall incs v tmax l, Forall (fun e => 0 < e) incs ->
  mig_loop incs v tmax = Some l -> incr (v :: l) /\ (v <= tmax -> tmax < lastq (v :: l)) /\ (tmax < v -> l = []).
Proof.
  induction incs as [|e incs IH]; intros v tmax l Hp; cbn [mig_loop];
    destruct (qleb_spec v tmax) as [H|H]; try discriminate.
  - intros E. injection E as <-. split; [exact Logic.I|]. split; [intro; lra|reflexivity].
  - inversion Hp as [|x r He Hp' Ex]; subst x r.
    pose proof (Qred_correct (v + e)) as Er.
    destruct (mig_loop incs (Qred (v + e)) tmax) as [l'|] eqn:El; [|discriminate].
    intros E. injection E as <-.
    destruct (IH (Qred (v + e)) tmax l' Hp' El) as (A & B & C).
    split; [split; [rewrite Er; lra|exact A]|]. split; [|intro; lra].
    intros _. rewrite lastq_cons.
    destruct (Qlt_le_dec tmax (Qred (v + e))) as [X|X].
    + rewrite (C X). unfold lastq. simpl. exact X.
    + apply B. exact X.
  - intros E. injection E as <-. split; [exact Logic.I|]. split; [intro; lra|reflexivity].
Qed.

Theorem migration_covers tmin tmax e0 e1 incs t :
  0 <= e0 -> 0 < e1 -> Forall (fun e => 0 < e) incs ->
  migrationT tmin tmax e0 e1 incs = Some t ->
  incr t /\ (2 <= Z.of_nat (length t))%Z /\ tq t 0 <= tmin /\ tmax < tq t (Z.of_nat (length t) - 1).
Proof.
  intros H0 H1 Hp. unfold migrationT.
  destruct (mig_loop incs (tmin + e1) tmax) as [l|] eqn:El; [|discriminate].
  intros E. injection E as <-.
  destruct (mig_loop_spec incs (tmin + e1) tmax l Hp El) as (A & B & C).
  split; [split; [lra|exact A]|]. split; [simpl length; lia|]. split; [unfold tq; simpl; lra|].
  assert (EL : tq ((tmin - e0) :: (tmin + e1) :: l) (Z.of_nat (length ((tmin - e0) :: (tmin + e1) :: l)) - 1)
               = lastq ((tmin - e0) :: (tmin + e1) :: l)).
  { unfold tq, lastq. f_equal. lia. }
  rewrite EL, lastq_cons.
  destruct (Qlt_le_dec tmax (tmin + e1)) as [X|X].
  - rewrite (C X). unfold lastq. simpl. exact X.
  - apply B. exact X.
Qed.

(* hence, for the vector built by _migrationInit and every abscissa of the band, the rank search is exact,
   whatever the cache *)
Theorem migration_rank_correct tmin tmax e0 e1 incs t t0 d :
  0 <= e0 -> 0 < e1 -> Forall (fun e => 0 < e) incs ->
  migrationT tmin tmax e0 e1 incs = Some t ->
  tmin <= t0 -> t0 <= tmax -> (0 <= d <= Z.of_nat (length t) - 2)%Z ->
  exists k, rankInPoisson d t0 t = Some k /\ (0 <= k <= Z.of_nat (length t) - 2)%Z
            /\ tq t k <= t0 /\ t0 < tq t (k + 1).
Proof.
  intros H0 H1 Hp E A B Hd.
  destruct (migration_covers tmin tmax e0 e1 incs t H0 H1 Hp E) as (I1 & I2 & I3 & I4).
  apply rank_correct; try assumption; lra.
Qed.

(* ---- _migrationInit as it is (CalcSimuTurningBands.cpp:620-641): EVERY scale > 0, the bounded one included *)
Lemma mig_clamp_pos tmin tmax scale : 0 < scale -> 0 < mig_clamp tmin tmax scale.
Proof.
  intros H. unfold mig_clamp, mig_degenerate.
  destruct (qltb_spec scale ((tmax - tmin) * mig_eps)) as [L|L]; [lra|exact H].
Qed.
Lemma mig_clamp_ge tmin tmax scale : (tmax - tmin) * mig_eps <= mig_clamp tmin tmax scale /\ scale <= mig_clamp tmin tmax scale.
Proof.
  unfold mig_clamp, mig_degenerate.
  destruct (qltb_spec scale ((tmax - tmin) * mig_eps)) as [L|L]; split; lra.
Qed.
Lemma Forall_pos_scale sc xs : 0 < sc -> Forall (fun e => 0 < e) xs -> Forall (fun e => 0 < e) (map (Qmult sc) xs).
Proof.
  intros Hs H. induction H as [|x l Hx _ IH]; simpl; constructor; [|exact IH].
  apply Qmult_lt_0_compat; assumption.
Qed.
Theorem migrationInit_covers tmin tmax scale x0 x1 xs t :
  0 < scale -> 0 <= x0 -> 0 < x1 -> Forall (fun e => 0 < e) xs ->
  migrationInitT tmin tmax scale x0 x1 xs = Some t ->
  incr t /\ (2 <= Z.of_nat (length t))%Z /\ tq t 0 <= tmin /\ tmax < tq t (Z.of_nat (length t) - 1).
Proof.
  intros Hs H0 H1 Hp E. pose proof (mig_clamp_pos tmin tmax scale Hs) as Hc.
  apply (migration_covers tmin tmax (mig_clamp tmin tmax scale * x0) (mig_clamp tmin tmax scale * x1)
           (map (Qmult (mig_clamp tmin tmax scale)) xs)).
  - apply Qmult_le_0_compat; [apply Qlt_le_weak; exact Hc|exact H0].
  - apply Qmult_lt_0_compat; assumption.
  - apply Forall_pos_scale; assumption.
  - exact E.
Qed.
Theorem migrationInit_rank_correct tmin tmax scale x0 x1 xs t t0 d :
  0 < scale -> 0 <= x0 -> 0 < x1 -> Forall (fun e => 0 < e) xs ->
  migrationInitT tmin tmax scale x0 x1 xs = Some t ->
  tmin <= t0 -> t0 <= tmax -> (0 <= d <= Z.of_nat (length t) - 2)%Z ->
  exists k, rankInPoisson d t0 t = Some k /\ (0 <= k <= Z.of_nat (length t) - 2)%Z
            /\ tq t k <= t0 /\ t0 < tq t (k + 1).
Proof.
  intros Hs H0 H1 Hp E A B Hd.
  destruct (migrationInit_covers tmin tmax scale x0 x1 xs t Hs H0 H1 Hp E) as (I1 & I2 & I3 & I4).
  apply rank_correct; try assumption; lra.
Qed.
(* the mean spacing of the points is never below (tmax - tmin) * 1e-5: about 1e5 points per band at most *)

(* ---- IRF sequences: same history independence as spectralSeq *)
Definition irf_nocache (s : tbo) (t0 : Q) : option (Z * option Q) :=
  match irfOne (set_nt0 s 0) t0 with Some (s', v) => Some (tb_nt0 s', v) | None => None end.
Lemma irfSample_set s d k t0 : irfSample (set_nt0 s d) k t0 = irfSample s k t0.
Proof. reflexivity. Qed.
Theorem irfSeq_history_independent : forall ts s d, incr (tb_t s) ->
  (2 <= Z.of_nat (length (tb_t s)))%Z -> (0 <= d <= Z.of_nat (length (tb_t s)) - 2)%Z ->
  Forall (fun t0 => tq (tb_t s) 0 <= t0 /\ t0 < tq (tb_t s) (Z.of_nat (length (tb_t s)) - 1)) ts ->
  (forall k t0, (0 <= k <= Z.of_nat (length (tb_t s)) - 2)%Z -> irfSample s k t0 <> None) ->
  irfSeq (set_nt0 s d) ts = map (irf_nocache s) ts.
Proof.
  induction ts as [|t0 ts IH]; intros s d Hi Hnt Hd Hall Hdef; [reflexivity|].
  inversion Hall as [|x l [Hlo Hhi] Hall' Ex]; subst x l.
  change (irfSeq (set_nt0 s d) (t0 :: ts))
    with (match irfOne (set_nt0 s d) t0 with
          | None => [None]
          | Some (s', v) => Some (tb_nt0 s', v) :: irfSeq s' ts end).
  simpl map. unfold irf_nocache at 1. unfold irfOne.
  rewrite !tb_nt0_set, !tb_t_set.
  rewrite (rank_history_independent (tb_t s) t0 d 0 Hi Hnt Hd ltac:(lia) Hlo Hhi).
  destruct (rank_correct (tb_t s) t0 0 Hi Hnt ltac:(lia) Hlo Hhi) as (k & E & K & L & U).
  rewrite E. rewrite !irfSample_set.
  destruct (irfSample s k t0) as [v|] eqn:Ev; [|exfalso; exact (Hdef k t0 K Ev)].
  rewrite tb_nt0_set. f_equal. exact (IH s k Hi Hnt K Hall' Hdef).
Qed.

(* C14 part vdc: theorems (merged into coq/C14/Properties.v by the C14 builder; edit HERE, not in Properties.v) *)
From Coq Require List ZArith QArith Qround Lia Permutation Znumtheory.
From Gst Require C14.VdC C14.Proofs_vdc C14.Proofs_vdc_equi.
Import List ZArith QArith Qround Lia Permutation Znumtheory.
Import C14.VdC C14.Proofs_vdc C14.Proofs_vdc_equi.
Import ListNotations.
Local Open Scope Q_scope.
(* C14 / part vdc: theorems about the direction generator of the turning-bands simulator,
   CalcSimuTurningBands::_generateDirections (/repo/src/Simulation/CalcSimuTurningBands.cpp:124-162), rational part:
   the Van der Corput radical inverses x[0] (base 2, azimuth fraction) and x[1] (base 3, height z) of n = 1 + ibs.
   Every theorem is for EVERY base b >= 2 and EVERY index n (no bound). *)





(* The while loop of lines 145-150 always exits (n reaches 0) within 1 + log2 n iterations for a base >= 2:
   the fuel of the executable model is never exhausted, so the model's error value -1 is unreachable. *)
Theorem C14_vdc_loop_terminates : forall b n, (2 <= b)%Z ->
  exists y, vdc_loop (vdc_fuel n) b n (inject_Z b) 0 = Some y.
Proof. exact vdc_loop_fuel_enough. Qed.

(* What the loop returns is the radical inverse: sum over the base-b digits d_i of n of d_i * b^-(i+1)
   (digits by Z.div / Z.modulo; k = any number of digits that holds n). *)
Theorem C14_vdc_closed_form : forall b n k, (2 <= b)%Z -> (0 <= n < bpow b k)%Z ->
  vdc b n == radinv_sum b n k.
Proof. exact vdc_closed_form. Qed.
Print Assumptions C14_vdc_closed_form.

(* ... equivalently the k-digit reversal of n divided by b^k; rev IS the digit reversal (digit i <-> digit k-1-i)
   and is an involution of [0, b^k). *)
Theorem C14_vdc_is_reversed_digits : forall b n k, (2 <= b)%Z -> (0 <= n < bpow b k)%Z ->
  vdc b n == inject_Z (rev b k n) / inject_Z (bpow b k).
Proof. exact vdc_eq_rev. Qed.
Theorem C14_vdc_rev_digits : forall b, (2 <= b)%Z -> forall k n i, (0 <= n)%Z -> (i < k)%nat ->
  digit b (rev b k n) i = digit b n (k - 1 - i).
Proof. exact digit_rev. Qed.
Theorem C14_vdc_rev_involutive : forall b, (2 <= b)%Z -> forall k n, (0 <= n < bpow b k)%Z ->
  (0 <= rev b k n < bpow b k)%Z /\ rev b k (rev b k n) = n.
Proof. exact rev_range_involutive. Qed.

(* Range: x in [0,1) for n >= 0 and x > 0 for n >= 1.  The C++ uses n = 1 + ibs >= 1: x[0] and x[1] are strictly
   inside (0,1), so sqrt(1 - x[1]^2) is taken of a number in (0,1). *)
Theorem C14_vdc_range : forall b n, (2 <= b)%Z -> (0 <= n)%Z -> 0 <= vdc b n < 1.
Proof. exact vdc_range. Qed.
Theorem C14_vdc_positive : forall b n, (2 <= b)%Z -> (1 <= n)%Z -> 0 < vdc b n.
Proof. exact vdc_pos. Qed.
Theorem C14_vdc_x_in_open_unit_interval : forall id ibs, (0 <= id)%Z -> (0 <= ibs)%Z -> 0 < vdc_x id ibs < 1.
Proof. exact vdc_x_range. Qed.
Print Assumptions C14_vdc_x_in_open_unit_interval.

(* Different band numbers give different terms (in particular different heights z = x[1]): no direction is repeated. *)
Theorem C14_vdc_injective : forall b n m, (2 <= b)%Z -> (0 <= n)%Z -> (0 <= m)%Z -> vdc b n == vdc b m -> n = m.
Proof. exact vdc_injective. Qed.

(* Digit-reversal structure: the term of index n + b^k m (n = the k low digits) is the term of n plus b^-k times
   the term of m, i.e. plus something in [0, b^-k). *)
Theorem C14_vdc_digit_reversal : forall b k n m, (2 <= b)%Z -> (0 <= n < bpow b k)%Z -> (0 <= m)%Z ->
  vdc b (n + bpow b k * m) == vdc b n + vdc b m / inject_Z (bpow b k).
Proof. exact vdc_split. Qed.
Print Assumptions C14_vdc_digit_reversal.

(* Hence floor(b^k x_n) depends only on n mod b^k and is its k-digit reversal; it is the index j of the b-adic
   interval [j/b^k, (j+1)/b^k) that contains x_n. *)
Theorem C14_vdc_bucket_is_reversal : forall b k n, (2 <= b)%Z -> (0 <= n)%Z ->
  bucket b k n = rev b k (n mod bpow b k).
Proof. exact bucket_eq. Qed.
Theorem C14_vdc_bucket_interval : forall b k n j, (2 <= b)%Z -> (0 <= n)%Z ->
  (bucket b k n = j <->
   inject_Z j / inject_Z (bpow b k) <= vdc b n < inject_Z (j + 1) / inject_Z (bpow b k)).
Proof. exact bucket_interval. Qed.

(* Equidistribution: among ANY b^k consecutive indices (not only aligned blocks) exactly one term falls in each
   b-adic interval of length b^-k; the index is given explicitly by window_sol.  For the C++: any 2^k consecutive
   bands have their azimuth fractions one per interval of length 2^-k, any 3^k consecutive bands have their heights z
   one per interval of length 3^-k. *)
Theorem C14_vdc_window_exactly_one : forall b k n0 j, (2 <= b)%Z -> (0 <= n0)%Z -> (0 <= j < bpow b k)%Z ->
  let n := window_sol b k n0 j in
  (n0 <= n < n0 + bpow b k)%Z /\ bucket b k n = j /\
  forall n', (n0 <= n' < n0 + bpow b k)%Z -> bucket b k n' = j -> n' = n.
Proof. exact window_unique. Qed.
Print Assumptions C14_vdc_window_exactly_one.
Theorem C14_vdc_window_permutation : forall b k n0, (2 <= b)%Z -> (0 <= n0)%Z ->
  Permutation (map (bucket b k) (zrange n0 (bpow b k))) (zrange 0 (bpow b k)).
Proof. exact window_perm. Qed.
Print Assumptions C14_vdc_window_permutation.

(* Counting (discrepancy-type bound): among N consecutive terms the number falling in a b-adic interval of length
   b^-k is floor(N / b^k) or floor(N / b^k) + 1, and exactly q when N = q b^k. *)
Theorem C14_vdc_hits_bound : forall b k n0 N j, (2 <= b)%Z -> (0 <= n0)%Z -> (0 <= N)%Z -> (0 <= j < bpow b k)%Z ->
  (N / bpow b k <= Z.of_nat (hits b k n0 N j) <= N / bpow b k + 1)%Z.
Proof. exact hits_bound. Qed.
Print Assumptions C14_vdc_hits_bound.
Theorem C14_vdc_hits_exact : forall b k j n0 (q : nat), (2 <= b)%Z -> (0 <= j < bpow b k)%Z -> (0 <= n0)%Z ->
  hits b k n0 (Z.of_nat q * bpow b k) j = q.
Proof. exact hits_exact. Qed.

(* Two dimensions (Halton points, Chinese remainder theorem): for coprime bases and b1^a * b2^c consecutive indices,
   every elementary box [i/b1^a,(i+1)/b1^a) x [j/b2^c,(j+1)/b2^c) receives exactly one point.  With the C++ bases 2, 3:
   any 2^a 3^c consecutive bands put exactly one (azimuth fraction, height) pair in each box.  Since
   (azimuth, z) -> (sqrt(1-z^2) cos, sqrt(1-z^2) sin, z) preserves area (Archimedes' hat-box theorem; cited, not
   proved here) this is the even filling of the hemisphere by the band directions. *)
Theorem C14_vdc_halton_box : forall b1 b2 a c n0 i j, (2 <= b1)%Z -> (2 <= b2)%Z -> rel_prime b1 b2 -> (0 <= n0)%Z ->
  (0 <= i < bpow b1 a)%Z -> (0 <= j < bpow b2 c)%Z ->
  exists n, (n0 <= n < n0 + bpow b1 a * bpow b2 c)%Z /\ bucket b1 a n = i /\ bucket b2 c n = j /\
            forall n', (n0 <= n' < n0 + bpow b1 a * bpow b2 c)%Z -> bucket b1 a n' = i -> bucket b2 c n' = j -> n' = n.
Proof. exact halton_box. Qed.
Theorem C14_vdc_halton_2_3 : forall a c ibs0 i j, (0 <= ibs0)%Z -> (0 <= i < bpow 2 a)%Z -> (0 <= j < bpow 3 c)%Z ->
  exists ibs, (ibs0 <= ibs < ibs0 + bpow 2 a * bpow 3 c)%Z /\
              Qfloor (inject_Z (bpow 2 a) * vdc_x 0 ibs) = i /\ Qfloor (inject_Z (bpow 3 c) * vdc_x 1 ibs) = j /\
              forall ibs', (ibs0 <= ibs' < ibs0 + bpow 2 a * bpow 3 c)%Z ->
                           Qfloor (inject_Z (bpow 2 a) * vdc_x 0 ibs') = i ->
                           Qfloor (inject_Z (bpow 3 c) * vdc_x 1 ibs') = j -> ibs' = ibs.
Proof. exact halton_2_3. Qed.
Print Assumptions C14_vdc_halton_2_3.

(* Lines 155-158: with c, s = cos, sin of 2 pi x[0] (c^2 + s^2 = 1) and q = sqrt(1 - x1^2) (q^2 = 1 - x1^2) the
   direction (c q, s q, x1) is a unit vector: the later division of the direction by the anisotropy 'scale'
   (lines 181-210) is therefore the anisotropy itself, not a renormalisation. *)
Theorem C14_vdc_direction_unit : forall c s q x1 : Q,
  c * c + s * s == 1 -> q * q == 1 - x1 * x1 -> norm2 (tb_dir c s q x1) == 1.
Proof. exact tb_dir_unit. Qed.
Print Assumptions C14_vdc_direction_unit.

(* The third cosine is x[1] in (0,1): ALL directions generated before the random rotation lie in the open upper
   hemisphere z > 0.  Correct for turning bands: u and -u define the same band, a hemisphere is a full set of lines. *)
Theorem C14_vdc_upper_hemisphere : forall c s q ibs, (0 <= ibs)%Z ->
  0 < dir_z (tb_dir c s q (vdc_x 1 ibs)) < 1.
Proof. exact tb_dir_upper. Qed.

(* ------------------------------------------------------------------ non-vacuity (vm_compute on concrete values) *)
Example C14_vdc_loop_terminates_nonvacuous :
  vdc_loop (vdc_fuel 6) 2 6 (inject_Z 2) 0 = Some (0 + 0 / 2 + 1 / (2 * 2) + 1 / (2 * 2 * 2)) /\
  vdc_loop 2 2 6 (inject_Z 2) 0 = None.
Proof. split; vm_compute; reflexivity. Qed.
Example C14_vdc_closed_form_nonvacuous :
  (0 <= 6 < bpow 2 3)%Z /\ Qred (vdc 2 6) = 3 # 8 /\ Qred (radinv_sum 2 6 3) = 3 # 8 /\
  (0 <= 5 < bpow 3 2)%Z /\ Qred (vdc 3 5) = 7 # 9 /\ Qred (radinv_sum 3 5 2) = 7 # 9 /\
  Qred (vdc_x 0 5) = 3 # 8 /\ Qred (vdc_x 1 4) = 7 # 9.
Proof. repeat split; vm_compute; congruence. Qed.
Example C14_vdc_is_reversed_digits_nonvacuous :
  rev 2 3 6 = 3%Z /\ rev 3 2 5 = 7%Z /\ rev 10 4 1230 = 321%Z /\ rev 10 4 (rev 10 4 1230) = 1230%Z /\
  digit 10 (rev 10 4 1230) 0 = digit 10 1230 3.
Proof. repeat split; vm_compute; congruence. Qed.
Example C14_vdc_range_nonvacuous :
  Qred (vdc 2 1) = 1 # 2 /\ Qred (vdc 3 1) = 1 # 3 /\ Qred (vdc 3 (3 ^ 5 - 1)) = 242 # 243 /\ vdc 2 0 = 0.
Proof. repeat split; vm_compute; congruence. Qed.
Example C14_vdc_injective_nonvacuous : ~ vdc 3 5 == vdc 3 7.
Proof. vm_compute. congruence. Qed.
Example C14_vdc_digit_reversal_nonvacuous :
  (0 <= 5 < bpow 2 3)%Z /\ Qred (vdc 2 (5 + bpow 2 3 * 3)) = Qred (vdc 2 5 + vdc 2 3 / inject_Z (bpow 2 3)) /\
  Qred (vdc 2 (5 + bpow 2 3 * 3)) = 23 # 32.
Proof. repeat split; vm_compute; congruence. Qed.
Example C14_vdc_bucket_nonvacuous :
  bucket 3 2 14 = rev 3 2 (14 mod bpow 3 2) /\ bucket 3 2 14 = 7%Z /\ Qred (vdc 3 14) = 22 # 27.
Proof. repeat split; vm_compute; congruence. Qed.
(* the window n0 = 5, k = 3, base 2: indices 5..12 -> intervals 5 3 7 0 4 2 6 1; index for interval 0 is 8 *)
Example C14_vdc_window_nonvacuous :
  map (bucket 2 3) (zrange 5 (bpow 2 3)) = [5; 3; 7; 0; 4; 2; 6; 1]%Z /\ window_sol 2 3 5 0 = 8%Z /\
  map (bucket 3 2) (zrange 7 (bpow 3 2)) = [5; 8; 0; 3; 6; 1; 4; 7; 2]%Z.
Proof. repeat split; vm_compute; congruence. Qed.
Example C14_vdc_hits_nonvacuous :
  hits 3 1 1 10 0 = 3%nat /\ hits 3 1 1 10 1 = 4%nat /\ hits 3 1 1 10 2 = 3%nat /\ (10 / bpow 3 1 = 3)%Z /\
  hits 2 2 7 (5 * bpow 2 2) 3 = 5%nat.
Proof. repeat split; vm_compute; congruence. Qed.
(* bases 2 and 3, a = 1, c = 1: bands 0..5 visit the six boxes once each *)
Example C14_vdc_halton_nonvacuous :
  rel_prime 2 3 /\
  map (fun ibs => (Qfloor (inject_Z (bpow 2 1) * vdc_x 0 ibs), Qfloor (inject_Z (bpow 3 1) * vdc_x 1 ibs))) (zrange 0 6)
  = [(1, 1); (0, 2); (1, 0); (0, 1); (1, 2); (0, 0)]%Z.
Proof. split; [apply Zgcd_1_rel_prime; reflexivity | vm_compute; reflexivity]. Qed.
(* c = 3/5, s = 4/5, x1 = 5/13, q = 12/13 *)
Example C14_vdc_direction_unit_nonvacuous :
  (3 # 5) * (3 # 5) + (4 # 5) * (4 # 5) == 1 /\ (12 # 13) * (12 # 13) == 1 - (5 # 13) * (5 # 13) /\
  Qred (norm2 (tb_dir (3 # 5) (4 # 5) (12 # 13) (5 # 13))) = 1 /\
  tb_dir (3 # 5) (4 # 5) (12 # 13) (5 # 13) = ((3 # 5) * (12 # 13), (4 # 5) * (12 # 13), 5 # 13).
Proof. repeat split; vm_compute; congruence. Qed.

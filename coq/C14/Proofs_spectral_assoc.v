(* C14 — SimuSpectral::_computeOnRn: the argument of the b-th cosine is omega_b . (T x) + phi_b, i.e. the frequencies are
   applied to the coordinates brought to the isotropic space by the inverse anisotropy tensor T (rotation included);
   consequently the phase difference between two points depends on T (x - y) only. *)
From Coq Require Import List ZArith QArith Lia Lqa.
From Gst Require Import C14.FFT.
Import ListNotations.
Local Open Scope Q_scope.

Lemma dotq_nil_r a : dotq a [] = 0.
Proof. destruct a; reflexivity. Qed.

Lemma dotq_map_plus (f g : nat -> Q) l x :
  dotq (map (fun j => f j + g j) l) x == dotq (map f l) x + dotq (map g l) x.
Proof.
  revert x; induction l as [|j l IH]; intros x; [cbn; ring|].
  destruct x as [|y x]; [cbn; ring|]. cbn [map dotq]. rewrite IH. ring.
Qed.

Lemma dotq_map_scal (a : Q) (f : nat -> Q) l x :
  dotq (map (fun j => a * f j) l) x == a * dotq (map f l) x.
Proof.
  revert x; induction l as [|j l IH]; intros x; [cbn; ring|].
  destruct x as [|y x]; [cbn; ring|]. cbn [map dotq]. rewrite IH. ring.
Qed.

Lemma dotq_map_zero l x : dotq (map (fun _ : nat => 0) l) x == 0.
Proof.
  revert x; induction l as [|j l IH]; intros x; [reflexivity|].
  destruct x as [|y x]; [reflexivity|]. cbn [map dotq]. rewrite IH. ring.
Qed.

Lemma map_nth_seq_id (b : list Q) : map (fun j => nth j b 0) (seq 0 (length b)) = b.
Proof.
  apply (nth_ext _ _ 0 0).
  - rewrite map_length, seq_length. reflexivity.
  - intros i Hi. rewrite map_length, seq_length in Hi.
    rewrite (nth_indep _ 0 (nth O b 0)) by (rewrite map_length, seq_length; exact Hi).
    pose proof (map_nth (fun j => nth j b 0) (seq 0 (length b)) O i) as M. cbv beta in M. rewrite M.
    rewrite seq_nth by exact Hi. reflexivity.
Qed.

Definition row_mat (r : list Q) (B : list (list Q)) (n : nat) : list Q :=
  map (fun j => dotq r (col j B)) (seq 0 n).

Lemma row_mat_assoc r B x :
  (forall b, In b B -> length b = length x) ->
  dotq (row_mat r B (length x)) x == dotq r (mat_vec B x).
Proof.
  unfold row_mat. revert B. induction r as [|a r IH]; intros B HB.
  - cbn [dotq]. apply dotq_map_zero.
  - destruct B as [|b B].
    + cbn [col map mat_vec]. rewrite dotq_nil_r.
      exact (dotq_map_zero (seq 0 (length x)) x).
    + cbn [col map mat_vec dotq].
      transitivity (dotq (map (fun j => a * nth j b 0) (seq 0 (length x))) x
                    + dotq (map (fun j => dotq r (col j B)) (seq 0 (length x))) x).
      { exact (dotq_map_plus (fun j => a * nth j b 0) (fun j => dotq r (col j B)) (seq 0 (length x)) x). }
      rewrite dotq_map_scal.
      assert (Hb : dotq (map (fun j => nth j b 0) (seq 0 (length x))) x == dotq b x).
      { rewrite <- (HB b (or_introl eq_refl)). rewrite map_nth_seq_id. reflexivity. }
      rewrite Hb. rewrite (IH B) by (intros b' Hb'; apply HB; right; exact Hb'). reflexivity.
Qed.

Lemma mat_vec_mat_mul A B x :
  (forall b, In b B -> length b = length x) ->
  Forall2 Qeq (mat_vec (mat_mul A B (length x)) x) (mat_vec A (mat_vec B x)).
Proof.
  intro HB. unfold mat_vec at 1 2, mat_mul. rewrite map_map.
  induction A as [|r A IH]; [constructor|].
  cbn [map]. constructor; [|exact IH].
  exact (row_mat_assoc r B x HB).
Qed.

Lemma zipplus_Forall2 u v p : Forall2 Qeq u v -> Forall2 Qeq (zipplus u p) (zipplus v p).
Proof.
  intro H. revert p; induction H as [|a b u v Hab Huv IH]; intros p; [constructor|].
  destruct p as [|y p]; [constructor|]. cbn [zipplus]. constructor; [rewrite Hab; reflexivity|apply IH].
Qed.

(* the arguments of the cosines are omega . (T coor) + phi *)
Lemma spectral_args_assoc omega tensor phi coor :
  (forall b, In b tensor -> length b = length coor) ->
  Forall2 Qeq (spectral_args omega tensor phi coor)
              (zipplus (mat_vec omega (mat_vec tensor coor)) phi).
Proof.
  intro HB. unfold spectral_args. apply zipplus_Forall2. apply mat_vec_mat_mul. exact HB.
Qed.

(* ---- linearity: the phase difference between two points is omega . T (x - y) ---- *)
Fixpoint zipminus (a b : list Q) : list Q :=
  match a, b with x :: a', y :: b' => (x - y) :: zipminus a' b' | _, _ => [] end.

Lemma dotq_zipminus r x y : length x = length y ->
  dotq r (zipminus x y) == dotq r x - dotq r y.
Proof.
  revert x y; induction r as [|a r IH]; intros x y Hl; [cbn; ring|].
  destruct x as [|u x], y as [|v y]; try discriminate Hl; [cbn; ring|].
  cbn [zipminus dotq]. rewrite IH by (injection Hl as Hl; exact Hl). ring.
Qed.

Lemma dotq_compat r u v : Forall2 Qeq u v -> dotq r u == dotq r v.
Proof.
  intro H. revert r; induction H as [|a b u v Hab Huv IH]; intros r; [rewrite !dotq_nil_r; reflexivity|].
  destruct r as [|c r]; [reflexivity|]. cbn [dotq]. rewrite Hab, IH. reflexivity.
Qed.

Lemma mat_vec_compat M u v : Forall2 Qeq u v -> Forall2 Qeq (mat_vec M u) (mat_vec M v).
Proof.
  intro H. unfold mat_vec. induction M as [|r M IH]; [constructor|].
  cbn [map]. constructor; [apply dotq_compat; exact H|exact IH].
Qed.

Lemma mat_vec_zipminus M x y : length x = length y ->
  Forall2 Qeq (mat_vec M (zipminus x y)) (zipminus (mat_vec M x) (mat_vec M y)).
Proof.
  intro Hl. unfold mat_vec. induction M as [|r M IH]; [constructor|].
  cbn [map zipminus]. constructor; [apply dotq_zipminus; exact Hl|exact IH].
Qed.

Lemma Forall2_Qeq_trans a b c : Forall2 Qeq a b -> Forall2 Qeq b c -> Forall2 Qeq a c.
Proof.
  intro H. revert c; induction H as [|x y a b Hxy Hab IH]; intros c Hc; inversion Hc; subst; constructor.
  - etransitivity; eassumption.
  - apply IH; assumption.
Qed.

Lemma mat_vec_length M x : length (mat_vec M x) = length M.
Proof. unfold mat_vec. apply map_length. Qed.

(* omega . T (x - y) = omega . T x - omega . T y : the spatial dependence of the simulated field between two points goes through
   T (x - y) only (stationarity, with the anisotropy and rotation of the structure) *)
Lemma spectral_phase_difference omega tensor x y : length x = length y ->
  Forall2 Qeq (mat_vec omega (mat_vec tensor (zipminus x y)))
              (zipminus (mat_vec omega (mat_vec tensor x)) (mat_vec omega (mat_vec tensor y))).
Proof.
  intro Hl.
  apply (Forall2_Qeq_trans _ (mat_vec omega (zipminus (mat_vec tensor x) (mat_vec tensor y)))).
  - apply mat_vec_compat. apply mat_vec_zipminus. exact Hl.
  - apply mat_vec_zipminus. rewrite !mat_vec_length. reflexivity.
Qed.

(* C14 model (executable definitions only, no proofs).
   Mirrors, for one realisation whose band tables are given (harvested by the C14 hook):
     CalcSimuTurningBands::_simulatePoint / _simulateGrid accumulation + "Normation"   CalcSimuTurningBands.cpp:1085-1374
     CalcSimuTurningBands::_simulateNugget                                              CalcSimuTurningBands.cpp:1573-1615
     CalcSimuTurningBands::_meanCorrect                                                 CalcSimuTurningBands.cpp:1726-1752
     CalcSimuTurningBands::_createAIC / _getAIC (Gram matrix of the coefficients)       CalcSimuTurningBands.cpp:915-951, 1617
     CalcSimuTurningBands::_generateDirections (anisotropy step) / _rotateDirections    CalcSimuTurningBands.cpp:179-226, 259-276
     GeometryHelper::rotationGetRandomDirection                                         src/Geometry/GeometryHelper.cpp:944-973
     TurningBandDirection::projectPoint                                                 src/Simulation/TurningBandDirection.cpp:101
     MatrixSquareSymmetricSim::_addSimulateToDest / CholeskyDense::addLX, addInvLtX     src/LinearOp/MatrixSquareSymmetricSim.cpp:65, CholeskyDense.cpp:69-94
   Reals as Q (doubles are exact dyadics), indices as nat. *)
From Coq Require Import List Arith ZArith QArith Qabs Bool.
From Gst Require Import lib.QAux lib.LinAlgQ.
Import ListNotations.
Local Open Scope Q_scope.

(* ------------------------------------------------------------------ nested tables read with a default *)
Definition n1 (l : list Q) (i : nat) : Q := nth i l 0.
Definition n2 (l : list (list Q)) (i j : nat) : Q := nth j (nth i l []) 0.
Definition n3 (l : list (list (list Q))) (i j k : nat) : Q := nth k (nth j (nth i l []) []) 0.
Definition n4 (l : list (list (list (list Q)))) (i j k m : nat) : Q := nth m (nth k (nth j (nth i l []) []) []) 0.

(* ------------------------------------------------------------------ turning bands: one realisation *)
(* unnormalised accumulation of the band contributions:  sum_ivar sum_is sum_ib tab[x] * correc * AIC(is, j, ivar)
   (loops of _simulatePoint/_simulateGrid: ivar, [isimu], is, ib; updSimvar(..., ADD, tab[iech]*correc*_getAIC(aic,is,jvar,ivar))) *)
Definition band_sum (nvar ncov nb : nat) (Tf : nat -> nat -> nat -> nat -> Q) (cf : nat -> nat -> nat -> Q)
           (Af : nat -> nat -> nat -> Q) (j x : nat) : Q :=
  sumnr nvar (fun i => sumnr ncov (fun s => sumnr nb (fun b => Tf i s b x * cf i s b * Af s j i))).
(* the same with absolute values: scale of the accumulated round-off of the double evaluation *)
Definition band_abs (nvar ncov nb : nat) (Tf : nat -> nat -> nat -> nat -> Q) (cf : nat -> nat -> nat -> Q)
           (Af : nat -> nat -> nat -> Q) (j x : nat) : Q :=
  sumnr nvar (fun i => sumnr ncov (fun s => sumnr nb (fun b => Qabs (Tf i s b x * cf i s b * Af s j i)))).
(* value after the normation loop: updSimvar(..., PRODUCT, norme) *)
Definition tb_value (nvar ncov nb : nat) (norme : Q) Tf cf Af (j x : nat) : Q := norme * band_sum nvar ncov nb Tf cf Af j x.
(* _simulateNugget: sum_ivar sum_{is nugget} g[ivar][is][x] * AIC(is, j, ivar)   (added after the normation, not normalised) *)
Definition nug_sum (nvar ncov : nat) (isnug : nat -> bool) (Gf : nat -> nat -> nat -> Q) (Af : nat -> nat -> nat -> Q) (j x : nat) : Q :=
  sumnr nvar (fun i => sumnr ncov (fun s => if isnug s then Gf i s x * Af s j i else 0)).
Definition nug_abs (nvar ncov : nat) (isnug : nat -> bool) (Gf : nat -> nat -> nat -> Q) (Af : nat -> nat -> nat -> Q) (j x : nat) : Q :=
  sumnr nvar (fun i => sumnr ncov (fun s => if isnug s then Qabs (Gf i s x * Af s j i) else 0)).
(* final column: normation, then _meanCorrect adds the mean, then the nugget is added *)
Definition tb_final (nvar ncov nb : nat) (norme : Q) Tf cf Af isnug Gf (mean : nat -> Q) (j x : nat) : Q :=
  tb_value nvar ncov nb norme Tf cf Af j x + mean j + nug_sum nvar ncov isnug Gf Af j x.

(* Gram matrix of the coefficients of one structure : (M.t(M))_{j j'} = sum_ivar AIC(is,j,ivar) AIC(is,j',ivar) *)
Definition gram_exec (nvar : nat) (Af : nat -> nat -> nat -> Q) (s j j' : nat) : Q :=
  sumnr nvar (fun i => Af s j i * Af s j' i).

(* spec residual of the normation, free of square roots:  (o - mean - nugget)^2 * nbtuba - (band_sum)^2 *)
Definition norm_resid (nb : nat) (o mean nug S : Q) : Q :=
  (o - mean - nug) * (o - mean - nug) * inject_Z (Z.of_nat nb) - S * S.

(* ------------------------------------------------------------------ directions *)
Definition vec3 := (Q * Q * Q)%type.
Definition dot3 (u v : vec3) : Q := let '(u0,u1,u2) := u in let '(v0,v1,v2) := v in u0*v0 + u1*v1 + u2*v2.
Definition cross3 (u v : vec3) : vec3 :=
  let '(u0,u1,u2) := u in let '(v0,v1,v2) := v in (u1*v2 - u2*v1, u2*v0 - u0*v2, u0*v1 - u1*v0).
Definition scal3 (c : Q) (u : vec3) : vec3 := let '(u0,u1,u2) := u in (c*u0, c*u1, c*u2).
Definition add3 (u v : vec3) : vec3 := let '(u0,u1,u2) := u in let '(v0,v1,v2) := v in (u0+v0, u1+v1, u2+v2).
Definition sub3 (u v : vec3) : vec3 := let '(u0,u1,u2) := u in let '(v0,v1,v2) := v in (u0-v0, u1-v1, u2-v2).
(* GH::rotationGetRandomDirection(ct, st, a, codir): p = (codir.a) a ; b = (codir - p)/|codir - p| ; c = a x b ;
   codir' = p + |codir - p| (ct b + st c).  The division by rd and the multiplication by rd cancel (rd <> 0):
   codir' = p + ct (codir - p) + st (a x (codir - p)) : Rodrigues' rotation of angle theta about the axis a. *)
Definition rodrigues (ct st : Q) (a v : vec3) : vec3 :=
  let p := scal3 (dot3 v a) a in
  let w := sub3 v p in
  add3 p (add3 (scal3 ct w) (scal3 st (cross3 a w))).

(* anisotropy step of _generateDirections (lines 193-222), general dimension n (the code embeds ndim <= 3 in R^3 and
   skips null ranges, which leaves the components >= ndim at 0):
     val_i = sum_j ang_j * rot(i,j) / range_j ;  scale = 1/|val| ;  codir_i = val_i * scale
   With Tinv = diag(1/range).t(R) (Tensor::_fillTensors: the matrix applied to increments by the covariance):
     val = t(Tinv).ang *)
Definition aniso_val (n : nat) (Tinv : fmat) (ang : fvec) : fvec := fun i => sumn n (fun j => Tinv j i * ang j).
(* band abscissa of a point: TurningBandDirection::projectPoint : t = sum_idim x_idim * ang_idim *)
Definition abscissa (n : nat) (x codir : fvec) : Q := fdot n x codir.

(* executable residual of "codir/scale = t(Tinv).u" on lists *)
Definition aniso_resid (n : nat) (Tinv : list (list Q)) (codir : list Q) (scale : Q) (u : list Q) : list Q :=
  map (fun i => n1 codir i - scale * sumnr n (fun j => n2 Tinv j i * n1 u j)) (seq 0 n).

(* ------------------------------------------------------------------ Cholesky-based simulator *)
(* out = L.w (CholeskyDense::addLX) ; for the precision form out = t(L)^-1.w (addInvLtX), i.e. t(L).out = w *)
Definition lx (n : nat) (L : fmat) (w : fvec) : fvec := fmv n L w.
Definition chol_resid (n : nat) (L : list (list Q)) (S : list (list Q)) : list (list Q) :=
  map (fun i => map (fun j => sumnr n (fun k => n2 L i k * n2 L j k) - n2 S i j) (seq 0 n)) (seq 0 n).
Definition upper_part (n : nat) (L : list (list Q)) : list Q :=
  flat_map (fun i => map (fun j => if Nat.ltb i j then n2 L i j else 0) (seq 0 n)) (seq 0 n).
(* precision form: the harvested map M = t(L)^-1 must be upper triangular with Sigma.(M.t(M)) = I *)
Definition prec_resid (n : nat) (M : list (list Q)) (S : list (list Q)) : list (list Q) :=
  map (fun i => map (fun j => sumnr n (fun k => n2 S i k * sumnr n (fun l => n2 M k l * n2 M j l)) - delta i j) (seq 0 n)) (seq 0 n).
Definition lower_part (n : nat) (L : list (list Q)) : list Q :=
  flat_map (fun i => map (fun j => if Nat.ltb j i then n2 L i j else 0) (seq 0 n)) (seq 0 n).
Definition lx_resid (n : nat) (L : list (list Q)) (w out : list Q) : list Q :=
  map (fun i => n1 out i - sumnr n (fun k => n2 L i k * n1 w k)) (seq 0 n).
Definition ltx_resid (n : nat) (L : list (list Q)) (w out : list Q) : list Q :=
  map (fun i => sumnr n (fun k => n2 L k i * n1 out k) - n1 w i) (seq 0 n).

(* C14 / part fft : generic lemmas on lists of symmetry operations (order of execution, last write wins). *)
From Coq Require Import List ZArith QArith Bool Lia.
From Gst Require Import C14.FFT.
Import ListNotations.
Local Open Scope Z_scope.

Lemma cell_eqb_spec (a b : cell) : reflect (a = b) (cell_eqb a b).
Proof.
  destruct a as [[a0 a1] a2], b as [[b0 b1] b2]. unfold cell_eqb.
  destruct (Z.eqb_spec a0 b0), (Z.eqb_spec a1 b1), (Z.eqb_spec a2 b2); simpl; constructor; congruence.
Qed.
Lemma cell_eq_dec (a b : cell) : {a = b} + {a <> b}.
Proof. destruct (cell_eqb_spec a b); [left|right]; assumption. Qed.
Lemma op_eq_dec (a b : op) : {a = b} + {a <> b}.
Proof. decide equality; apply cell_eq_dec. Qed.

Lemma upd_same f c x : upd f c x c = x.
Proof. unfold upd. destruct (cell_eqb_spec c c); congruence. Qed.
Lemma upd_other f c x k : k <> c -> upd f c x k = f k.
Proof. unfold upd. destruct (cell_eqb_spec k c); congruence. Qed.

Lemma run_ops_cons o l s : run_ops (o :: l) s = run_ops l (apply_op s o).
Proof. reflexivity. Qed.

Lemma Qopp_opp_leib (q : Q) : Qopp (Qopp q) = q.
Proof. destruct q as [n d]. unfold Qopp. simpl. rewrite Z.opp_involutive. reflexivity. Qed.

(* a cell that is the target of no _setConjugate keeps its real part *)
Lemma frame_u l : forall u v c,
  (forall a b, In (Conj a b) l -> b <> c) -> fst (run_ops l (u, v)) c = u c.
Proof.
  induction l as [|o l IH]; intros u v c H; [reflexivity|].
  rewrite run_ops_cons. destruct o as [z|a b]; simpl apply_op.
  - apply IH. intros a b Hi. apply (H a b). right; exact Hi.
  - rewrite IH; [|intros a' b' Hi; apply (H a' b'); right; exact Hi].
    apply upd_other. intro E. apply (H a b); [left; reflexivity|congruence].
Qed.

(* ... and its imaginary part when it is not zeroed either *)
Lemma frame_v l : forall u v c,
  (forall a b, In (Conj a b) l -> b <> c) -> ~ In (Zero c) l -> snd (run_ops l (u, v)) c = v c.
Proof.
  induction l as [|o l IH]; intros u v c H Hz; [reflexivity|].
  rewrite run_ops_cons. destruct o as [z|a b]; simpl apply_op.
  - rewrite IH; [|intros a b Hi; apply (H a b); right; exact Hi | intro Hi; apply Hz; right; exact Hi].
    apply upd_other. intro E. apply Hz. left. congruence.
  - rewrite IH; [|intros a' b' Hi; apply (H a' b'); right; exact Hi | intro Hi; apply Hz; right; exact Hi].
    apply upd_other. intro E. apply (H a b); [left; reflexivity|congruence].
Qed.

(* a zeroed cell that is the target of no _setConjugate ends with imaginary part 0 *)
Lemma zero_v l : forall u v c,
  (forall a b, In (Conj a b) l -> b <> c) -> (v c = 0%Q \/ In (Zero c) l) -> snd (run_ops l (u, v)) c = 0%Q.
Proof.
  induction l as [|o l IH]; intros u v c H Hz.
  - destruct Hz as [Hz|[]]. exact Hz.
  - rewrite run_ops_cons. destruct o as [z|a b]; simpl apply_op.
    + apply IH; [intros a b Hi; apply (H a b); right; exact Hi|].
      destruct (cell_eq_dec c z) as [E|E].
      * left. subst z. apply upd_same.
      * destruct Hz as [Hz|[Hz|Hz]].
        -- left. rewrite upd_other by exact E. exact Hz.
        -- exfalso. apply E. congruence.
        -- right. exact Hz.
    + apply IH; [intros a' b' Hi; apply (H a' b'); right; exact Hi|].
      destruct Hz as [Hz|[Hz|Hz]].
      * left. rewrite upd_other; [exact Hz|]. intro E. apply (H a b); [left; reflexivity|congruence].
      * discriminate Hz.
      * right. exact Hz.
Qed.

(* the target t of a _setConjugate(s -> t) ends as the conjugate of the ORIGINAL value of s, provided every write to t
   comes from s, s is never written and neither cell is zeroed *)
Lemma conj_uv l : forall u v s t,
  In (Conj s t) l ->
  (forall a b, In (Conj a b) l -> b = t -> a = s) ->
  (forall a b, In (Conj a b) l -> b <> s) ->
  ~ In (Zero s) l -> ~ In (Zero t) l ->
  fst (run_ops l (u, v)) t = u s /\ snd (run_ops l (u, v)) t = Qopp (v s).
Proof.
  induction l as [|o l IH]; intros u v s t Hin Hfun Hsrc Hzs Hzt; [destruct Hin|].
  rewrite run_ops_cons.
  assert (Hfun' : forall a b, In (Conj a b) l -> b = t -> a = s) by (intros a b Hi; apply Hfun; right; exact Hi).
  assert (Hsrc' : forall a b, In (Conj a b) l -> b <> s) by (intros a b Hi; apply (Hsrc a b); right; exact Hi).
  assert (Hzs' : ~ In (Zero s) l) by (intro Hi; apply Hzs; right; exact Hi).
  assert (Hzt' : ~ In (Zero t) l) by (intro Hi; apply Hzt; right; exact Hi).
  destruct (in_dec op_eq_dec (Conj s t) l) as [Hl|Hl].
  - destruct o as [z|a b]; simpl apply_op.
    + destruct (IH u (upd v z 0%Q) s t Hl Hfun' Hsrc' Hzs' Hzt') as [E1 E2]. split; [exact E1|].
      rewrite E2. rewrite upd_other; [reflexivity|]. intro E. apply Hzs. left. congruence.
    + assert (Hbs : s <> b) by (intro E; apply (Hsrc a b); [left; reflexivity|congruence]).
      destruct (IH (upd u b (u a)) (upd v b (Qopp (v a))) s t Hl Hfun' Hsrc' Hzs' Hzt') as [E1 E2].
      rewrite E1, E2. rewrite !upd_other by exact Hbs. split; reflexivity.
  - destruct Hin as [Hin|Hin]; [|contradiction]. subst o. simpl apply_op.
    assert (Hnt : forall a b, In (Conj a b) l -> b <> t).
    { intros a b Hi E. apply Hl. rewrite <- E. rewrite <- (Hfun' a b Hi E). exact Hi. }
    split.
    + rewrite frame_u by exact Hnt. apply upd_same.
    + rewrite frame_v by assumption. apply upd_same.
Qed.

(* ------------------------------------------------------------------------------------------------ *)
(* abstract theorem: an operation list made of Zero on the self-conjugate cells R and of Conj (k -> neg k) for the
   source cells S yields a Hermitian pair of arrays and leaves the sources (and the real part of R) untouched *)
Section Generic.
  Variable neg : cell -> cell.
  Variables S R : cell -> Prop.
  Variable l : list op.
  Hypothesis G1 : forall a b, In (Conj a b) l -> S a /\ b = neg a.
  Hypothesis G2 : forall c, In (Zero c) l -> R c.
  Hypothesis G3 : forall k, S k -> In (Conj k (neg k)) l.
  Hypothesis G4 : forall k, R k -> In (Zero k) l.
  Hypothesis A1 : forall k, S k -> ~ S (neg k).
  Hypothesis A2 : forall k, S k -> ~ R k.
  Hypothesis A2' : forall k, S k -> ~ R (neg k).
  Hypothesis A3 : forall k, R k -> neg k = k.
  Hypothesis A4 : forall k, S k -> neg (neg k) = k.

  Variables u v : cell -> Q.
  Let u' := fst (run_ops l (u, v)).
  Let v' := snd (run_ops l (u, v)).

  Lemma gen_not_target_S k : S k -> forall a b, In (Conj a b) l -> b <> k.
  Proof. intros Hk a b Hi E. destruct (G1 a b Hi) as [Ha Hb]. rewrite Hb in E. apply (A1 a Ha). rewrite E. exact Hk. Qed.
  Lemma gen_not_target_R k : R k -> forall a b, In (Conj a b) l -> b <> k.
  Proof. intros Hk a b Hi E. destruct (G1 a b Hi) as [Ha Hb]. rewrite Hb in E. apply (A2' a Ha). rewrite E. exact Hk. Qed.

  Lemma gen_R k : R k -> u' k = u k /\ v' k = 0%Q.
  Proof.
    intro Hk. split.
    - apply frame_u. apply gen_not_target_R; exact Hk.
    - apply zero_v; [apply gen_not_target_R; exact Hk|]. right. apply G4; exact Hk.
  Qed.

  Lemma gen_S k : S k -> u' k = u k /\ v' k = v k /\ u' (neg k) = u k /\ v' (neg k) = Qopp (v k).
  Proof.
    intro Hk.
    assert (Hnz : ~ In (Zero k) l) by (intro Hi; apply (A2 k Hk); apply G2; exact Hi).
    split; [apply frame_u; apply gen_not_target_S; exact Hk|].
    split; [apply frame_v; [apply gen_not_target_S; exact Hk|exact Hnz]|].
    apply conj_uv.
    - apply G3; exact Hk.
    - intros a b Hi E. destruct (G1 a b Hi) as [Ha Hb]. rewrite <- (A4 a Ha), <- (A4 k Hk). congruence.
    - apply gen_not_target_S; exact Hk.
    - exact Hnz.
    - intro Hi. apply (A2' k Hk). apply G2; exact Hi.
  Qed.

  Lemma gen_hermitian k : (R k \/ S k \/ (S (neg k) /\ neg (neg k) = k)) ->
    u' (neg k) = u' k /\ v' (neg k) = Qopp (v' k).
  Proof.
    intros [Hk|[Hk|[Hk Hnn]]].
    - destruct (gen_R k Hk) as [_ Hv]. rewrite (A3 k Hk). split; [reflexivity|]. rewrite Hv. reflexivity.
    - destruct (gen_S k Hk) as (E1 & E2 & E3 & E4). rewrite E1, E2, E3, E4. split; reflexivity.
    - destruct (gen_S (neg k) Hk) as (E1 & E2 & E3 & E4). rewrite Hnn in E3, E4.
      rewrite E1, E2, E3, E4. rewrite Qopp_opp_leib. split; reflexivity.
  Qed.
End Generic.

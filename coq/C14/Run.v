(* C14 runner: decodes a case, runs model (+ spec), encodes the result. Executable only.
   kind 1 : turning-bands assembly from the harvested band tables
   kind 2 : anisotropy residual  codir - scale * t(Tinv).u
   kind 3 : Cholesky-based simulator residuals
   kinds 100.. : parts (dispatch added below) *)
From Coq Require Import List ZArith QArith Qabs Bool.
From Gst Require Import lib.Sx lib.QAux lib.LinAlgQ C14.Model.
(* BEGIN PART vdc_imp *)
From Gst Require Import C14.Run_vdc.
(* END PART vdc_imp *)
(* BEGIN PART proc_imp *)
From Gst Require Import C14.Run_proc.
(* END PART proc_imp *)
(* BEGIN PART fft_imp *)
From Gst Require Import C14.Run_fft.
(* END PART fft_imp *)
(* BEGIN PART law_imp *)
From Gst Require Import C14.Run_law.
(* END PART law_imp *)
(*@PART_IMPORTS@*)
Import ListNotations.

Definition asL1 := asListOf asQ.
Definition asL2 := asListOf asL1.
Definition asL3 := asListOf asL2.
Definition asL4 := asListOf asL3.
Definition ofL1 (l : list Q) : sx := ofList ofQ l.
Definition ofL2 (l : list (list Q)) : sx := ofList ofL1 l.
Definition ofL3 (l : list (list (list Q))) : sx := ofList ofL2 l.

Definition run_tb (c : list sx) : sx :=
  match c with
  | [nvar; ncov; nb; nech; norme; means; tabs; correc; aic; nug; isnug; outs; act; sills] =>
      match asNat nvar, asNat ncov, asNat nb, asNat nech, asQ norme, asL1 means with
      | Some nvar', Some ncov', Some nb', Some nech', Some norme', Some means' =>
          match asL4 tabs, asL3 correc, asL3 aic, asL3 nug, asListOf asB isnug, asListOf (asListOf asOQ) outs, asListOf asB act, asL3 sills with
          | Some tabs', Some correc', Some aic', Some nug', Some isnug', Some outs', Some act', Some sills' =>
              let Tf := n4 tabs' in let cf := n3 correc' in let Af := n3 aic' in let Gf := n3 nug' in
              let isn := fun s => nth s isnug' false in
              let per_jx := fun j x =>
                let S := band_sum nvar' ncov' nb' Tf cf Af j x in
                let Sa := band_abs nvar' ncov' nb' Tf cf Af j x in
                let Ng := nug_sum nvar' ncov' isn Gf Af j x in
                let Na := nug_abs nvar' ncov' isn Gf Af j x in
                let o := nth x (nth j outs' []) None in
                let r := match o with Some ov => Some (norm_resid nb' ov (n1 means' j) Ng S) | None => None end in
                let sgn := match o with Some ov => Some ((ov - n1 means' j - Ng) * S)%Q | None => None end in
                L [ofQ S; ofQ Sa; ofQ Ng; ofQ Na; ofOQ r; ofOQ sgn; ofB (nth x act' false)] in
              L [ L (map (fun j => L (map (fun x => per_jx j x) (seq 0 nech'))) (seq 0 nvar'));
                  L (map (fun s => L (map (fun j => L (map (fun j' => ofQ (gram_exec nvar' Af s j j' - n3 sills' s j j')) (seq 0 nvar'))) (seq 0 nvar'))) (seq 0 ncov'));
                  ofQ (norme' * norme' * inject_Z (Z.of_nat nb') - 1) ]
          | _, _, _, _, _, _, _, _ => sx_error 2
          end
      | _, _, _, _, _, _ => sx_error 1
      end
  | _ => sx_error 3
  end.

Definition run_aniso (c : list sx) : sx :=
  match c with
  | [n; tinv; codir; scale; u] =>
      match asNat n, asL2 tinv, asL1 codir, asQ scale, asL1 u with
      | Some n', Some tinv', Some codir', Some scale', Some u' =>
          L [ofL1 (aniso_resid n' tinv' codir' scale' u');
             ofQ (sumnr 3 (fun i => n1 u' i * n1 u' i) - 1);
             ofQ (sumnr 3 (fun i => n1 codir' i * n1 codir' i) - 1)]
      | _, _, _, _, _ => sx_error 1
      end
  | _ => sx_error 3
  end.

Definition run_chol (c : list sx) : sx :=
  match c with
  | [n; lmat; smat; w; out; inverse] =>
      match asNat n, asL2 lmat, asL2 smat, asL1 w, asL1 out, asB inverse with
      | Some n', Some l', Some s', Some w', Some out', Some inv' =>
          (* l' is the harvested map draw -> output: L itself (covariance form) or t(L)^-1 (precision form) *)
          L [ofL2 (if inv' then prec_resid n' l' s' else chol_resid n' l' s');
             ofL1 (if inv' then lower_part n' l' else upper_part n' l');
             ofL1 (lx_resid n' l' w' out')]
      | _, _, _, _, _, _ => sx_error 1
      end
  | _ => sx_error 3
  end.

Definition run (c : sx) : sx :=
  match c with
  | L (I k :: r) =>
      if (k =? 1)%Z then run_tb r else
      if (k =? 2)%Z then run_aniso r else
      if (k =? 3)%Z then run_chol r else
(* BEGIN PART vdc_disp *)
      if ((300 <=? k) && (k <=? 349))%Z then run_vdc c else
(* END PART vdc_disp *)
(* BEGIN PART proc_disp *)
      if ((400 <=? k) && (k <=? 499))%Z then run_proc c else
(* END PART proc_disp *)
(* BEGIN PART fft_disp *)
      if ((200 <=? k) && (k <=? 299))%Z then run_fft c else
(* END PART fft_disp *)
(* BEGIN PART law_disp *)
      if ((100 <=? k) && (k <=? 199))%Z then run_law c else
(* END PART law_disp *)
(*@PART_DISPATCH@*)
      sx_error 0
  | _ => sx_error 0
  end.

(* C14 proofs: realisation-wise meaning of the formal variables, normation residual, rotations, anisotropy, Cholesky glue. *)
From Coq Require Import List Arith ZArith QArith Qabs Bool Lqa Lia Setoid Morphisms Nsatz.
From Gst Require Import lib.QAux lib.LinAlgQ C14.L2 C14.TB C14.Model.
Import ListNotations.
Local Open Scope Q_scope.

(* ------------------------------------------------------------------ evaluation of a formal variable on a realisation *)
(* e k = the value taken by the elementary draw k in the realisation at hand *)
Definition eval (N : nat) (e : nat -> Q) (X : rv) : Q := sumn N (fun k => X k * e k).

Lemma eval_scal N e c X : eval N e (rscal c X) == c * eval N e X.
Proof. unfold eval, rscal. rewrite <- sumn_scal_l. apply sumn_ext. intros; ring. Qed.
Lemma eval_add N e X Y : eval N e (radd X Y) == eval N e X + eval N e Y.
Proof. unfold eval, radd. rewrite <- sumn_add. apply sumn_ext. intros; ring. Qed.
Lemma eval_rsum N e n F : eval N e (rsum n F) == sumn n (fun i => eval N e (F i)).
Proof.
  unfold eval, rsum.
  rewrite (sumn_ext N _ (fun k => sumn n (fun i => F i k * e k))) by (intros k _; rewrite sumn_scal_r; reflexivity).
  apply sumn_swap.
Qed.
Lemma eval_draw N e i : (i < N)%nat -> eval N e (draw i) == e i.
Proof. intro Hi. unfold eval, draw. apply sumn_delta_l. exact Hi. Qed.

(* the number computed by the code for one realisation is the evaluation of the formal variable tb_out *)
Lemma tb_value_eval N e nvar ncov nb T correc A norme j x :
  tb_value nvar ncov nb norme (fun i s b y => eval N e (T i s b y)) correc A j x ==
  eval N e (tb_out nvar ncov nb T correc A norme j x).
Proof.
  unfold tb_value, band_sum, tb_out. rewrite eval_scal. apply Qmult_comp; [reflexivity|].
  rewrite sumnr_sumn, eval_rsum. apply sumn_ext. intros i _.
  unfold var_term. rewrite sumnr_sumn, eval_rsum. apply sumn_ext. intros s _.
  unfold struct_term. rewrite sumnr_sumn, eval_rsum. apply sumn_ext. intros b _.
  unfold band_term. rewrite eval_scal. ring.
Qed.

Lemma nug_sum_eval N e nvar ncov A isnug G j x :
  nug_sum nvar ncov isnug (fun i s y => eval N e (G i s y)) A j x == eval N e (nug_out nvar ncov A isnug G j x).
Proof.
  unfold nug_sum, nug_out. rewrite sumnr_sumn, eval_rsum. apply sumn_ext. intros i _.
  rewrite sumnr_sumn, eval_rsum. apply sumn_ext. intros s _. unfold nug_term.
  destruct (isnug s).
  - rewrite eval_scal. ring.
  - unfold eval, rzero. symmetry. apply sumn_zero. intros; ring.
Qed.

(* ------------------------------------------------------------------ normation residual *)
(* a final value built with a correct normation makes the square-root-free residual vanish *)
Lemma norm_resid_zero nb o mean nug S norme :
  norme * norme * inject_Z (Z.of_nat nb) == 1 -> o == norme * S + mean + nug -> norm_resid nb o mean nug S == 0.
Proof.
  intros Hn Ho. unfold norm_resid. rewrite Ho.
  setoid_replace ((norme * S + mean + nug - mean - nug) * (norme * S + mean + nug - mean - nug) * inject_Z (Z.of_nat nb))
    with ((norme * norme * inject_Z (Z.of_nat nb)) * (S * S)) by ring.
  rewrite Hn. ring.
Qed.
(* and a wrong factor is seen: if the value was scaled by f, the residual is (f^2 nb - 1) S^2 *)
Lemma norm_resid_wrong nb o mean nug S f :
  o == f * S + mean + nug -> norm_resid nb o mean nug S == (f * f * inject_Z (Z.of_nat nb) - 1) * (S * S).
Proof. intro Ho. unfold norm_resid. rewrite Ho. ring. Qed.

(* ------------------------------------------------------------------ Gram matrices *)
Lemma gram_exec_gram nvar Af s j j' : gram_exec nvar Af s j j' == gram nvar (Af s) j j'.
Proof. unfold gram_exec, gram. apply sumnr_sumn. Qed.

(* ------------------------------------------------------------------ rotation of the directions *)
(* component form with a x (v - (v.a) a) = a x v  (a x a = 0 identically) *)
Definition rod_simple (ct st : Q) (a v : vec3) : vec3 :=
  let '(a0,a1,a2) := a in let '(v0,v1,v2) := v in
  let al := v0*a0 + v1*a1 + v2*a2 in
  (al*a0 + ct*(v0 - al*a0) + st*(a1*v2 - a2*v1),
   al*a1 + ct*(v1 - al*a1) + st*(a2*v0 - a0*v2),
   al*a2 + ct*(v2 - al*a2) + st*(a0*v1 - a1*v0)).
Lemma rodrigues_simple ct st a v :
  let '(r0,r1,r2) := rodrigues ct st a v in let '(s0,s1,s2) := rod_simple ct st a v in r0 == s0 /\ r1 == s1 /\ r2 == s2.
Proof.
  destruct a as [[a0 a1] a2], v as [[v0 v1] v2].
  unfold rodrigues, rod_simple, dot3, add3, sub3, scal3, cross3. repeat split; ring.
Qed.
Lemma rod_simple_dot a0 a1 a2 ct st v0 v1 v2 w0 w1 w2 :
  a0*a0+a1*a1+a2*a2 == 1 -> ct*ct+st*st == 1 ->
  dot3 (rod_simple ct st (a0,a1,a2) (v0,v1,v2)) (rod_simple ct st (a0,a1,a2) (w0,w1,w2)) == v0*w0+v1*w1+v2*w2.
Proof. unfold rod_simple, dot3. intros Ha Hc. nsatz. Qed.
Lemma rodrigues_dot ct st a v w :
  dot3 a a == 1 -> ct * ct + st * st == 1 -> dot3 (rodrigues ct st a v) (rodrigues ct st a w) == dot3 v w.
Proof.
  intros Ha Hc.
  pose proof (rodrigues_simple ct st a v) as Hv. pose proof (rodrigues_simple ct st a w) as Hw.
  destruct a as [[a0 a1] a2], v as [[v0 v1] v2], w as [[w0 w1] w2].
  pose proof (rod_simple_dot a0 a1 a2 ct st v0 v1 v2 w0 w1 w2 Ha Hc) as H.
  destruct (rodrigues ct st (a0,a1,a2) (v0,v1,v2)) as [[r0 r1] r2].
  destruct (rodrigues ct st (a0,a1,a2) (w0,w1,w2)) as [[q0 q1] q2].
  destruct (rod_simple ct st (a0,a1,a2) (v0,v1,v2)) as [[s0 s1] s2].
  destruct (rod_simple ct st (a0,a1,a2) (w0,w1,w2)) as [[t0 t1] t2].
  destruct Hv as (E0 & E1 & E2). destruct Hw as (F0 & F1 & F2).
  unfold dot3 in *. rewrite E0, E1, E2, F0, F1, F2. exact H.
Qed.
(* the rotation axis is fixed *)
Lemma rodrigues_axis ct st a : dot3 a a == 1 ->
  let '(r0, r1, r2) := rodrigues ct st a a in let '(a0, a1, a2) := a in r0 == a0 /\ r1 == a1 /\ r2 == a2.
Proof.
  destruct a as [[a0 a1] a2]. unfold rodrigues, dot3, add3, sub3, scal3, cross3. intro Ha.
  set (d := a0 * a0 + a1 * a1 + a2 * a2) in *.
  repeat split.
  - setoid_replace (d * a0 + (ct * (a0 - d * a0) + st * (a1 * (a2 - d * a2) - a2 * (a1 - d * a1))))
      with (a0 + (d - 1) * (a0 - ct * a0)) by ring. rewrite Ha. ring.
  - setoid_replace (d * a1 + (ct * (a1 - d * a1) + st * (a2 * (a0 - d * a0) - a0 * (a2 - d * a2))))
      with (a1 + (d - 1) * (a1 - ct * a1)) by ring. rewrite Ha. ring.
  - setoid_replace (d * a2 + (ct * (a2 - d * a2) + st * (a0 * (a1 - d * a1) - a1 * (a0 - d * a0))))
      with (a2 + (d - 1) * (a2 - ct * a2)) by ring. rewrite Ha. ring.
Qed.

(* ------------------------------------------------------------------ anisotropy *)
(* val = t(Tinv).u *)
Lemma aniso_val_fmv n Tinv u i : aniso_val n Tinv u i == fmv n (ftr Tinv) u i.
Proof. unfold aniso_val, fmv, ftr. reflexivity. Qed.

(* band abscissa under the anisotropic structure, in units of the band scale s, = abscissa of the transformed point
   Tinv.x on the unit direction u of the isotropic unit-range structure *)
Lemma abscissa_aniso n Tinv u x s :
  abscissa n x (fun i => aniso_val n Tinv u i * s) == s * abscissa n (fmv n Tinv x) u.
Proof.
  unfold abscissa.
  rewrite (fdot_ext n x x (fun i => aniso_val n Tinv u i * s) (fun i => s * fmv n (ftr Tinv) u i)).
  2:{ intros; reflexivity. } 2:{ intros i _. rewrite aniso_val_fmv. ring. }
  unfold fdot at 1. rewrite (sumn_ext n _ (fun l => s * (x l * fmv n (ftr Tinv) u l))) by (intros; ring).
  rewrite sumn_scal_l. apply Qmult_comp; [reflexivity|].
  change (sumn n (fun l => x l * fmv n (ftr Tinv) u l)) with (fdot n x (fmv n (ftr Tinv) u)).
  rewrite fdot_fmv. apply fdot_ext; [|intros; reflexivity].
  intros i _. unfold fmv, ftr. reflexivity.
Qed.

(* the normalisation of the code: scale = 1/|val| makes codir a unit vector (stated with s*s*|val|^2 = 1) *)
Lemma codir_unit n Tinv u s :
  s * s * fdot n (aniso_val n Tinv u) (aniso_val n Tinv u) == 1 ->
  fdot n (fun i => aniso_val n Tinv u i * s) (fun i => aniso_val n Tinv u i * s) == 1.
Proof.
  intro H. rewrite <- H. unfold fdot. rewrite <- sumn_scal_l. apply sumn_ext. intros; ring.
Qed.

(* ------------------------------------------------------------------ Cholesky-based simulators *)
(* out = m + L.g with g the standard draws: covariance L.t(L) *)
Lemma chol_sim_cov N L i j : cov N (lmap N L draw i) (lmap N L draw j) == fmul N L (ftr L) i j.
Proof. apply cov_lmap. apply draws_orthonormal. Qed.
Lemma chol_sim_eval N e L i : eval N e (lmap N L draw i) == fmv N L e i.
Proof.
  unfold lmap. rewrite eval_rsum. unfold fmv. apply sumn_ext. intros k Hk.
  rewrite eval_scal, eval_draw by exact Hk. reflexivity.
Qed.
(* precision form: t(L).out = g  =>  for any M with M.t(L) = I (i.e. M = t(L)^-1) out = M.g, Cov = M.t(M), and
   Q.Cov = I for Q = L.t(L) *)
Lemma chol_prec_cov N L M : (forall i j, (i < N)%nat -> (j < N)%nat -> fmul N M (ftr L) i j == delta i j) ->
  (forall i j, (i < N)%nat -> (j < N)%nat -> fmul N (ftr L) M i j == delta i j) ->
  forall i j, (i < N)%nat -> (j < N)%nat ->
  fmul N (fmul N L (ftr L)) (fun a b => cov N (lmap N M draw a) (lmap N M draw b)) i j == delta i j.
Proof.
  intros HML HLM i j Hi Hj.
  rewrite (fmul_ext N (fmul N L (ftr L)) (fmul N L (ftr L)) _ (fmul N M (ftr M))).
  2:{ intros; reflexivity. } 2:{ intros a Ha. apply cov_lmap. apply draws_orthonormal. }
  (* L t(L) M t(M) = L (t(L) M) t(M) = L t(M) = t(M t(L)) = I *)
  rewrite fmul_assoc by assumption.
  rewrite (fmul_ext N L L (fmul N (ftr L) (fmul N M (ftr M))) (ftr M)).
  - rewrite delta_sym. rewrite <- (HML j i Hj Hi). unfold fmul, ftr. apply sumn_ext. intros; ring.
  - intros; reflexivity.
  - intros a Ha. rewrite <- fmul_assoc.
    rewrite (fmul_ext N (fmul N (ftr L) M) delta (ftr M) (ftr M)).
    + apply fmul_delta_l. exact Ha.
    + intros l Hl. apply HLM; assumption.
    + intros; reflexivity.
Qed.

(* C14 part proc runner: decodes a case (kinds 400..499), runs the model, encodes the result. Executable only.
   state  st = (nt0 flagScaled vexp tdeb omega phi offset scale (t..) (v0..) (v1..) (v2..)), doubles as dyadics (m e).
   400 st (t0..)            shotNoiseAffineOne on a sequence     -> ((1 idx value margin dt) | (0 idx margin dt)) ..
   401 st (t0..)            shotNoiseCubicOne                    -> idem
   410 st (t0..)            spectralOne on a sequence (cache)    -> ((1 rank value) | (-1)) ..
   420 st (t0..)            IRFProcessOne on a sequence (cache)  -> ((1 rank value|()) | (-1)) ..
   430 st (t0..)            cosineOne                            -> ((1 value) | (0 angle offset)) ..
   440 code (t..) (g..) seed theta1 scale   _irfProcessInit (g = the gaussian draws of that seed) -> ((v0..) (v1..) (v2..) correc^2 (v1 old..) (v2 old..))   old = before commit 61380c95b
   450 code param st nx ny nz t00 dxp dyp dzp z0 px py pz (mask..)   _spreadSpectralOnGrid -> (kind (per node (1 value) | (0) | (-1)))
   451 code param st nx ny nz t00 dxp dyp dzp (mask..) _spreadRegularOnGrid -> idem
   460 tmin tmax scale x0 x1 (xs..) seed u     _migrationInit (x = the draws -log(u)) -> (1 (t..) margin vexp clamp-margin) | (0)
   461 code tmin tmax scale u (us..) seed      _dilutionInit -> (tdeb count (signs..) correc^2 margin)
   462 tmin tmax scale x0 x1 (xs..) seed u (gs..) u_old   _migrationInit with scale < delta*1e-5 -> ((1 digest vexp clamped) | (0)) ((1 digest_old vexp_old) | (0))
       digest = (n (first 3) (last 2) sum); old = the code before commit e4e350f57 (gs = the gaussian draws it pushed)
   cov codes: see Proc.dispatch *)
From Coq Require Import List ZArith QArith Qabs Qminmax Bool.
From Gst Require Import lib.Sx lib.QAux C14.Proc.
Import ListNotations.
Local Open Scope Q_scope.

Definition asTbo (s : sx) : option tbo :=
  match s with
  | L [n; f; a1; a2; a3; a4; a5; a6; t; v0; v1; v2] =>
      match asZ n, asB f, asQ a1, asQ a2, asQ a3, asQ a4 with
      | Some n', Some f', Some vexp, Some tdeb, Some omega, Some phi =>
          match asQ a5, asQ a6, asListOf asQ t, asListOf asQ v0, asListOf asQ v1, asListOf asQ v2 with
          | Some offset, Some scale, Some t', Some v0', Some v1', Some v2' =>
              Some (mkTbo n' f' vexp tdeb omega phi offset scale t' v0' v1' v2')
          | _, _, _, _, _, _ => None
          end
      | _, _, _, _, _, _ => None
      end
  | _ => None
  end.

Definition asPair (s : sx) : option C2 :=
  match s with
  | L [a; b] => match asQ a, asQ b with Some x, Some y => Some (x, y) | _, _ => None end
  | _ => None
  end.

Definition enc_shot (g : Q -> Q) (s : tbo) (t0 : Q) : sx :=
  let dt := shot_dt s t0 in
  match shotGen g s t0 with
  | Some v => L [I 1; I (qtrunc dt); ofQ v; ofQ (shot_margin s t0); ofQ dt]
  | None => L [I 0; I (qtrunc dt); ofQ (shot_margin s t0); ofQ dt]
  end.

Definition enc_spectral (r : option (Z * Q)) : sx :=
  match r with Some (k, v) => L [I 1; I k; ofQ v] | None => L [I (-1)] end.
Definition enc_irf (r : option (Z * option Q)) : sx :=
  match r with Some (k, v) => L [I 1; I k; ofOQ v] | None => L [I (-1)] end.
Definition enc_cos (s : tbo) (t0 : Q) : sx :=
  if tb_flagScaled s then L [I 1; ofQ (t0 - tb_offset s)] else L [I 0; ofQ (cosineArg s t0); ofQ (tb_offset s)].

Definition qmin_list (d : Q) (l : list Q) : Q := fold_right Qmin d l.
Definition level_of_code (code : Z) : Z :=
  match code with 8%Z => 1%Z | 9%Z => 2%Z | 6%Z | 7%Z => 0%Z | _ => (-1)%Z end.   (* CalcSimuTurningBands.cpp:936-940 *)
Definition mig_digest (t : list Q) : sx :=
  L [ofNat (length t); ofList ofQ (firstn 3 t); ofList ofQ (skipn (length t - 2) t);
     ofQ (fold_left (fun a x => Qred (a + x)) t 0)].
Definition dil_signs (us : list Q) : list Q := map (fun u => if qltb u (1#2) then -(1) else 1) us.   (* :671 *)

(* one process evaluation on a grid node: state threaded (cache) ; None = undefined behaviour *)
Definition proc_step (k : proc_kind) (s : tbo) (x : Q) : option (tbo * option Q) :=
  match k with
  | PShotAffine => match shotAffine s x with Some v => Some (s, Some v) | None => None end
  | PShotCubic => match shotCubic s x with Some v => Some (s, Some v) | None => None end
  | PSpectral => match spectralOne s x with Some (s', v) => Some (s', Some v) | None => None end
  | PIrf => irfOne s x
  | PCosine => if tb_flagScaled s then Some (s, Some (x - tb_offset s)) else None  (* cos is external *)
  end.
Fixpoint spread (k : proc_kind) (s : tbo) (args : list (option Q)) : list sx :=
  match args with
  | [] => []
  | None :: r => L [I 0] :: spread k s r                       (* inactive node: tab untouched *)
  | Some x :: r => match proc_step k s x with
                   | None => [L [I (-1)]]
                   | Some (s', v) => L [I 1; ofOQ v] :: spread k s' r
                   end
  end.

Definition run_proc (c : sx) : sx :=
  match c with
  | L [I 400%Z; st; ts] =>
      match asTbo st, asListOf asQ ts with
      | Some s, Some ts' => L (map (enc_shot g_aff s) ts')
      | _, _ => sx_error 400
      end
  | L [I 401%Z; st; ts] =>
      match asTbo st, asListOf asQ ts with
      | Some s, Some ts' => L (map (enc_shot g_cub s) ts')
      | _, _ => sx_error 401
      end
  | L [I 410%Z; st; ts] =>
      match asTbo st, asListOf asQ ts with
      | Some s, Some ts' => L (map enc_spectral (spectralSeq s ts'))
      | _, _ => sx_error 410
      end
  | L [I 420%Z; st; ts] =>
      match asTbo st, asListOf asQ ts with
      | Some s, Some ts' => L (map enc_irf (irfSeq s ts'))
      | _, _ => sx_error 420
      end
  | L [I 430%Z; st; ts] =>
      match asTbo st, asListOf asQ ts with
      | Some s, Some ts' => L (map (enc_cos s) ts')
      | _, _ => sx_error 430
      end
  | L [I 440%Z; code; t; g; _; th; sc] =>
      match asZ code, asListOf asQ t, asListOf asQ g, asQ th, asQ sc with
      | Some code', Some t', Some g', Some theta1, Some scale =>
          let level := level_of_code code' in
          let '(a0, a1, a2) := irf_tables false level t' g' in
          let '(b0, b1, b2) := irf_tables true level t' g' in      (* the tables before commit 61380c95b: names a reverted fix *)
          L [ofList ofQ a0; ofList ofQ a1; ofList ofQ a2; ofQ (irfCorrec2 level theta1 scale);
             ofList ofQ b1; ofList ofQ b2]
      | _, _, _, _, _ => sx_error 440
      end
  | L [I 450%Z; code; param; st; nx; ny; nz; _; _; _; _; z0; px; py; pz; mask] =>
      match asZ code, asQ param, asTbo st, asNat nx, asNat ny, asNat nz with
      | Some code', Some param', Some s, Some nx', Some ny', Some nz' =>
          match asPair z0, asPair px, asPair py, asPair pz, asListOf asB mask, dispatch code' param' with
          | Some z0', Some px', Some py', Some pz', Some mask', Some k =>
              L [ofNat (match k with PShotAffine => 0 | PShotCubic => 1 | PSpectral => 2 | PIrf => 3 | PCosine => 4 end);
                 L (spread k s (masked mask' (spectralGrid nx' ny' nz' z0' px' py' pz')))]
          | _, _, _, _, _, _ => sx_error 450
          end
      | _, _, _, _, _, _ => sx_error 450
      end
  | L [I 451%Z; code; param; st; nx; ny; nz; t00; dxp; dyp; dzp; mask] =>
      match asZ code, asQ param, asTbo st, asNat nx, asNat ny, asNat nz with
      | Some code', Some param', Some s, Some nx', Some ny', Some nz' =>
          match asQ t00, asQ dxp, asQ dyp, asQ dzp, asListOf asB mask, dispatch code' param' with
          | Some t00', Some dxp', Some dyp', Some dzp', Some mask', Some k =>
              L [ofNat (match k with PShotAffine => 0 | PShotCubic => 1 | PSpectral => 2 | PIrf => 3 | PCosine => 4 end);
                 L (spread k s (masked mask' (regularGrid nx' ny' nz' t00' dxp' dyp' dzp')))]
          | _, _, _, _, _, _ => sx_error 451
          end
      | _, _, _, _, _, _ => sx_error 451
      end
  | L [I 460%Z; a; b; sc; x0; x1; xs; _; u] =>
      match asQ a, asQ b, asQ sc, asQ x0, asQ x1, asListOf asQ xs with
      | Some tmin, Some tmax, Some scale, Some x0', Some x1', Some xs' =>
          match asQ u, migrationInitT tmin tmax scale x0' x1' xs' with
          | Some u', Some t => L [I 1; ofList ofQ t;
                                  ofQ (qmin_list 1 (map (fun x => Qabs (x - tmax)) (tl t))); ofQ (vexp_of u');
                                  ofQ (Qabs (scale - (tmax - tmin) * mig_eps))]
          | Some _, None => L [I 0]
          | None, _ => sx_error 460
          end
      | _, _, _, _, _, _ => sx_error 460
      end
  | L [I 462%Z; a; b; sc; x0; x1; xs; _; u; gs; uo] =>
      match asQ a, asQ b, asQ sc, asQ x0, asQ x1, asListOf asQ xs with
      | Some tmin, Some tmax, Some scale, Some x0', Some x1', Some xs' =>
          match asQ u, asListOf asQ gs, asQ uo with
          | Some u', Some gs', Some uo' =>
              L [match migrationInitT tmin tmax scale x0' x1' xs' with
                 | Some t => L [I 1; mig_digest t; ofQ (vexp_of u'); ofB (mig_degenerate tmin tmax scale)]
                 | None => L [I 0]                    (* not enough draws in the case: the caller checks the spec only *)
                 end;
                 (* the model of the code before commit e4e350f57: names a reverted fix *)
                 match migrationInitT_old tmin tmax scale gs' 0 0 [] with
                 | Some t => L [I 1; mig_digest t; ofQ (vexp_of uo')]
                 | None => L [I 0]
                 end]
          | _, _, _ => sx_error 462
          end
      | _, _, _, _, _, _ => sx_error 462
      end
  | L [I 461%Z; code; a; b; sc; u; us; _] =>
      match asZ code, asQ a, asQ b, asQ sc, asQ u, asListOf asQ us with
      | Some code', Some tmin, Some tmax, Some scale, Some u', Some us' =>
          let tdeb := dil_tdeb tmin scale u' in
          match dil_count (length us') tdeb scale tmax 0 with
          | Some n =>
              L [ofQ tdeb; I n; ofList ofQ (firstn (Z.to_nat n) (dil_signs us'));
                 ofQ (if (code' =? 0)%Z then correc2_spherical else correc2_cubic);
                 ofQ (qmin_list 1 (map (fun j => Qabs (tdeb + inject_Z (Z.of_nat j) * scale - tmax)) (seq 0 (S (Z.to_nat n)))))]
          | None => L [I (-1)]
          end
      | _, _, _, _, _, _ => sx_error 461
      end
  | _ => sx_error 0
  end.

(* C14 / law, proofs part 2: the loops of law_poisson, law_gamma (ranges), law_beta1/2, law_invcdf_gaussian. *)
From Coq Require Import List ZArith QArith Qabs Qminmax Qround Bool Lia Lqa.
From Gst Require Import lib.QAux C13.Model C13.Proofs C14.Law C14.Proofs_law.
Import ListNotations.
Local Open Scope Q_scope.

(* keep the 32-bit step folded: nothing below computes with it *)
Local Opaque lcg_next.

Definition qP : Q := inject_Z rnd_p.

(* every uniform is at most (p-1)/p *)
Lemma u_of_le v : u_of (lcg_next v) * qP <= qP - 1.
Proof.
  pose proof (lcg_range v) as R. unfold u_of, qP, Qle, Qmult, Qminus, Qplus, Qopp, inject_Z. simpl.
  unfold rnd_p in *. lia.
Qed.

Lemma l_uniform01_val v : snd (l_uniform 0 1 v) == u_of (lcg_next v).
Proof. unfold l_uniform. cbn [snd]. ring. Qed.

(* ------------------------------------------------------------------ law_poisson: the final product loop *)
(* p *= u; if (p < q) stop.  Since u <= (P-1)/P the product falls below q > 0 within [fuel] iterations as soon as
   (P-1) p < q (P-1+fuel): termination for EVERY state, with an explicit bound. *)
Lemma pois_tail_terminates : forall (fuel : nat) q p v k mg,
  0 < q -> 0 <= p -> (1 <= fuel)%nat ->
  (qP - 1) * p < q * (qP - 1 + inject_Z (Z.of_nat fuel)) ->
  exists st r m, pois_tail fuel q p v k mg = Done st r m /\ (k <= r < k + Z.of_nat fuel)%Z.
Proof.
  assert (HP : 1 < qP) by reflexivity.
  induction fuel as [|f IH]; intros q p v k mg Hq Hp Hf Hb; [lia|].
  cbn [pois_tail]. unfold l_uniform at 1. cbn iota beta.
  pose proof (u_of_open v) as [U0 U1]. pose proof (u_of_le v) as UL.
  set (u := u_of (lcg_next v)) in *.
  assert (E : 0 + u * (1 - 0) == u) by ring.
  set (u' := 0 + u * (1 - 0)) in *.
  destruct (qltb_spec (p * u') q) as [Hlt|Hge].
  - do 3 eexists. split; [reflexivity|]. lia.
  - (* not yet below q : f >= 1 and the bound carries over *)
    assert (Hpu : p * u' * qP <= p * (qP - 1)) by (rewrite E; nra).
    rewrite Nat2Z.inj_succ, <- Z.add_1_r, inject_Z_plus in Hb. change (inject_Z 1) with 1 in Hb.
    set (F := inject_Z (Z.of_nat f)) in *.
    assert (F0 : 0 <= F) by (unfold F; change 0 with (inject_Z 0); rewrite <- Zle_Qle; lia).
    destruct f as [|f'].
    + exfalso. unfold F in Hb. simpl in Hb. change (inject_Z 0) with 0 in Hb. nra.
    + assert (Hb' : (qP - 1) * (p * u') < q * (qP - 1 + F)).
      { assert (A : (qP - 1) * (p * u') * qP <= (qP - 1) * p * (qP - 1)) by nra.
        assert (B : (qP - 1) * p * (qP - 1) < q * (qP + F) * (qP - 1)) by nra.
        assert (C : q * (qP + F) * (qP - 1) <= q * (qP - 1 + F) * qP) by nra.
        assert (D : (qP - 1) * (p * u') * qP < q * (qP - 1 + F) * qP) by lra.
        nra. }
      assert (Hp' : 0 <= p * u') by (rewrite E; nra).
      destruct (IH q (p * u') (lcg_next v) (k + 1)%Z (Qmin mg (Qabs (p * u' - q) / q)) Hq Hp' ltac:(lia) Hb')
        as (st & r & m & Eq & Rg).
      exists st, r, m. split; [exact Eq|]. lia.
Qed.

(* whenever it returns, the count is at least the entry count *)
Lemma pois_tail_ge : forall (fuel : nat) q p v k mg st r m,
  pois_tail fuel q p v k mg = Done st r m -> (k <= r)%Z.
Proof.
  induction fuel as [|f IH]; intros q p v k mg st r m H; [discriminate|].
  cbn [pois_tail] in H. unfold l_uniform at 1 in H. cbn iota beta in H.
  destruct (qltb _ q).
  - injection H as _ E _. lia.
  - apply IH in H. lia.
Qed.

(* law_poisson: the loop "while (ok) { if (u <= p) k++; if (n-- <= 1) ok = 0; }" : exactly n draws, k grows by at most n *)
Lemma pois_bern_spec : forall (n : nat) p v k mg,
  let '(v', k', _) := pois_bern n p v k mg in
  v' = lcg_iter n v /\ (k <= k' <= k + Z.of_nat n)%Z.
Proof.
  induction n as [|n IH]; intros p v k mg.
  - simpl. split; [reflexivity|lia].
  - cbn [pois_bern]. unfold l_uniform at 1. cbn iota beta.
    match goal with |- context [pois_bern n p ?a ?b ?c] => specialize (IH p a b c); destruct (pois_bern n p a b c) as [[v' k'] m'] end.
    destruct IH as [E R]. split; [exact E|]. destruct (qleb _ p); lia.
Qed.

(* ------------------------------------------------------------------ law_gamma *)
Section Gamma.
Variables (ln ex sq tn : Q -> Q).
Variable pw : Q -> Q -> Q.
Variable ee : Q.                      (* GV_EE as compiled: any positive constant *)
Hypothesis ee_pos : 0 < ee.
Hypothesis ln_neg : forall x, 0 < x -> x < 1 -> ln x < 0.
Hypothesis pw_pos : forall x y, 0 < x -> 0 < pw x y.

(* alpha > 1 : the value returned passed the test "value < 0" negatively *)
Lemma gamma_big_nonneg : forall (fuel : nat) c1 c2 c3 v mg st x m,
  gamma_big_loop ln ex tn fuel c1 c2 c3 v mg = Done st x m -> 0 <= x.
Proof.
  induction fuel as [|f IH]; intros c1 c2 c3 v mg st x m H; [discriminate|].
  cbn [gamma_big_loop] in H. unfold l_uniform at 1 in H. cbn iota beta in H.
  match type of H with context [qltb ?val 0] => destruct (qltb_spec val 0) as [Hneg|Hpos] end.
  - eapply IH; exact H.
  - unfold l_uniform at 1 in H. cbn iota beta in H.
    match type of H with (if ?b then _ else _) = _ => destruct b end.
    + eapply IH; exact H.
    + injection H as _ E _. rewrite <- E. lra.
Qed.

(* alpha < 1 : both sub-branches return a positive value *)
Lemma gamma_small_pos : forall (fuel : nat) c1 c2 c3 v mg st x m,
  1 < c1 -> 0 < c2 -> (c1 - 1) * c2 <= 1 ->
  gamma_small_loop ln ex pw fuel c1 c2 c3 v mg = Done st x m -> 0 < x.
Proof.
  induction fuel as [|f IH]; intros c1 c2 c3 v mg st x m H1 H2 H3 H; [discriminate|].
  cbn [gamma_small_loop] in H. unfold l_uniform at 1 2 in H. cbn iota beta in H.
  pose proof (u_of_open (lcg_next v)) as [U0 U1].
  set (u2 := u_of (lcg_next (lcg_next v))) in *.
  assert (E2 : 0 + u2 * (1 - 0) == u2) by ring.
  set (u2' := 0 + u2 * (1 - 0)) in *.
  match type of H with context [qleb ?val 1] => destruct (qleb_spec val 1) as [Hle|Hgt] end.
  - match type of H with (if ?b then _ else _) = _ => destruct b end.
    + exact (IH _ _ _ _ _ _ _ _ H1 H2 H3 H).
    + injection H as _ E _. rewrite <- E. apply pw_pos. rewrite E2. nra.
  - match type of H with (if ?b then _ else _) = _ => destruct b end.
    + exact (IH _ _ _ _ _ _ _ _ H1 H2 H3 H).
    + injection H as _ E _. rewrite <- E.
      assert (Z00 : 0 < c1 - c1 * u2') by (rewrite E2; nra).
      assert (Z0 : 0 < (c1 - c1 * u2') * c2) by (apply Qmult_lt_0_compat; assumption).
      assert (Z1 : (c1 - c1 * u2') * c2 < 1).
      { apply Qlt_le_trans with ((c1 - 1) * c2); [|exact H3]. apply Qmult_lt_compat_r; [exact H2|]. lra. }
      pose proof (ln_neg _ Z0 Z1). lra.
Qed.

(* the same loop never returns a value in ]1, -ln(1/GV_EE)] : with GV_EE = 2.732 > e this interval is not empty *)
Hypothesis pw_le1 : forall x y, 0 < x -> x <= 1 -> 0 < y -> pw x y <= 1.
Hypothesis ln_mono : forall x y, 0 < x -> x < y -> ln x < ln y.
Lemma gamma_small_gap bnd : forall (fuel : nat) c1 c2 c3 v mg st x m,
  1 < c1 -> 0 < c2 -> (c1 - 1) * c2 <= bnd ->
  gamma_small_loop ln ex pw fuel c1 c2 c3 v mg = Done st x m -> x <= 1 \/ - ln bnd < x.
Proof.
  induction fuel as [|f IH]; intros c1 c2 c3 v mg st x m H1 H2 H3 H; [discriminate|].
  cbn [gamma_small_loop] in H. unfold l_uniform at 1 2 in H. cbn iota beta in H.
  pose proof (u_of_open (lcg_next v)) as [U0 U1].
  set (u2 := u_of (lcg_next (lcg_next v))) in *.
  assert (E2 : 0 + u2 * (1 - 0) == u2) by ring.
  set (u2' := 0 + u2 * (1 - 0)) in *.
  match type of H with context [qleb ?val 1] => destruct (qleb_spec val 1) as [Hle|Hgt] end.
  - match type of H with (if ?b then _ else _) = _ => destruct b end.
    + exact (IH _ _ _ _ _ _ _ _ H1 H2 H3 H).
    + injection H as _ E _. rewrite <- E. left. apply pw_le1; [rewrite E2; nra|exact Hle|exact H2].
  - match type of H with (if ?b then _ else _) = _ => destruct b end.
    + exact (IH _ _ _ _ _ _ _ _ H1 H2 H3 H).
    + injection H as _ E _. rewrite <- E. right.
      assert (Z00 : 0 < c1 - c1 * u2') by (rewrite E2; nra).
      assert (Z0 : 0 < (c1 - c1 * u2') * c2) by (apply Qmult_lt_0_compat; assumption).
      assert (Z1 : (c1 - c1 * u2') * c2 < bnd).
      { apply Qlt_le_trans with ((c1 - 1) * c2); [|exact H3]. apply Qmult_lt_compat_r; [exact H2|lra]. }
      pose proof (ln_mono _ _ Z0 Z1). lra.
Qed.

Lemma small_consts alpha : 0 < alpha ->
  1 < 1 + alpha / ee /\ 0 < 1 / alpha /\ (1 + alpha / ee - 1) * (1 / alpha) == 1 / ee.
Proof.
  intro Ha. pose proof ee_pos as E. repeat split.
  - assert (0 < alpha / ee) by (apply Qlt_shift_div_l; lra). lra.
  - apply Qlt_shift_div_l; lra.
  - field. split; intro Z; lra.
Qed.

(* law_gamma(alpha) : TEST exactly for alpha <= 0; otherwise >= 0, and > 0 unless alpha > 1 (+1e-5) *)
Lemma l_gamma_range (fuel : nat) alpha v st r m : 1 <= ee ->
  l_gamma ln ex sq tn pw ee fuel alpha v = Done st r m ->
  (alpha <= 0 -> r = None /\ st = v) /\
  (0 < alpha -> exists x, r = Some x /\ 0 <= x /\ (alpha <= 1 -> 0 < x)).
Proof.
  intro Hee. unfold l_gamma. destruct (qleb_spec alpha 0) as [H0|H0].
  - intro H. injection H as E1 E2 _. split; [intros _; split; congruence|intro; lra].
  - assert (Ha : 0 < alpha) by lra. clear H0. rename Ha into H0.
    intro H. split; [intro; lra|intros _].
    destruct (qltb_spec (Qabs (alpha - 1)) c_1em5) as [H1|H1].
    + unfold l_uniform in H. injection H as _ E _. eexists. split; [symmetry; exact E|].
      pose proof (u_of_open v) as [U0 U1].
      assert (L : ln (0 + u_of (lcg_next v) * (1 - 0)) < 0) by (apply ln_neg; lra).
      split; [|intros _]; lra.
    + destruct (qltb_spec 1 alpha) as [H2|H2].
      * destruct (gamma_big_loop ln ex tn fuel (alpha - 1) (alpha + (alpha - 1)) (sq (alpha + (alpha - 1))) v big_margin) as [s x mg|s] eqn:G;
          [|discriminate].
        injection H as _ E _. exists x. split; [symmetry; exact E|]. split; [eapply gamma_big_nonneg; exact G|intro; lra].
      * destruct (gamma_small_loop ln ex pw fuel (1 + alpha / ee) (1 / alpha) (alpha - 1) v big_margin) as [s x mg|s] eqn:G;
          [|discriminate].
        injection H as _ E _. exists x. split; [symmetry; exact E|].
        destruct (small_consts alpha H0) as (C1 & C2 & C3).
        assert (P : 0 < x).
        { eapply gamma_small_pos; [exact C1|exact C2| |exact G]. rewrite C3. apply Qle_shift_div_r; [exact ee_pos|].
          rewrite Qmult_1_l. exact Hee. }
        split; [|intros _]; lra.
Qed.

(* support gap of the branch alpha < 1 *)
Lemma l_gamma_gap (fuel : nat) alpha v st x m :
  0 < alpha -> alpha <= 1 -> c_1em5 <= Qabs (alpha - 1) ->
  l_gamma ln ex sq tn pw ee fuel alpha v = Done st (Some x) m ->
  x <= 1 \/ - ln (1 / ee) < x.
Proof.
  intros H0 H1 H2 H. unfold l_gamma in H.
  destruct (qleb_spec alpha 0); [lra|].
  destruct (qltb_spec (Qabs (alpha - 1)) c_1em5); [lra|].
  destruct (qltb_spec 1 alpha); [lra|].
  destruct (gamma_small_loop ln ex pw fuel (1 + alpha / ee) (1 / alpha) (alpha - 1) v big_margin) as [s y mg|s] eqn:G;
    [|discriminate].
  injection H as _ E _. subst y.
  destruct (small_consts alpha H0) as (C1 & C2 & C3).
  assert (C3' : (1 + alpha / ee - 1) * (1 / alpha) <= 1 / ee) by (rewrite C3; apply Qle_refl).
  exact (gamma_small_gap (1 / ee) _ _ _ _ _ _ _ _ _ C1 C2 C3' G).
Qed.

(* law_beta1 in [0,1], law_beta2 >= 0 *)
Lemma l_beta1_range (fuel : nat) p1 p2 v st x m : 1 <= ee ->
  l_beta1 ln ex sq tn pw ee fuel p1 p2 v = Done st (Some x) m -> 0 <= x /\ x <= 1.
Proof.
  intro Hee. unfold l_beta1, l_beta.
  destruct (l_gamma ln ex sq tn pw ee fuel p1 v) as [v1 a m1|] eqn:G1; [|discriminate].
  destruct (l_gamma ln ex sq tn pw ee fuel p2 v1) as [v2 b m2|] eqn:G2; [|discriminate].
  intro H. injection H as _ E _.
  destruct a as [a|]; [|discriminate]. destruct b as [b|]; [|discriminate]. injection E as E.
  assert (A : 0 <= a).
  { destruct (l_gamma_range _ _ _ _ _ _ Hee G1) as [T P]. destruct (Qlt_le_dec 0 p1) as [Hp|Hp].
    - destruct (P Hp) as (y & Ey & Y & _). congruence.
    - destruct (T Hp); discriminate. }
  assert (B : 0 <= b).
  { destruct (l_gamma_range _ _ _ _ _ _ Hee G2) as [T P]. destruct (Qlt_le_dec 0 p2) as [Hp|Hp].
    - destruct (P Hp) as (y & Ey & Y & _). congruence.
    - destruct (T Hp); discriminate. }
  rewrite <- E. destruct (Qeq_dec (a + b) 0) as [Z|NZ].
  - assert (Z' : a / (a + b) == 0) by (rewrite Z; unfold Qdiv; change (/ 0) with 0; ring). rewrite Z'. lra.
  - assert (S : 0 < a + b) by (destruct (Qlt_le_dec 0 (a + b)); [assumption|exfalso; apply NZ; lra]).
    split; [apply Qle_shift_div_l; lra | apply Qle_shift_div_r; lra].
Qed.

Lemma l_beta2_range (fuel : nat) p1 p2 v st x m : 1 <= ee ->
  l_beta2 ln ex sq tn pw ee fuel p1 p2 v = Done st (Some x) m -> 0 <= x.
Proof.
  intro Hee. unfold l_beta2, l_beta.
  destruct (l_gamma ln ex sq tn pw ee fuel p1 v) as [v1 a m1|] eqn:G1; [|discriminate].
  destruct (l_gamma ln ex sq tn pw ee fuel p2 v1) as [v2 b m2|] eqn:G2; [|discriminate].
  intro H. injection H as _ E _.
  destruct a as [a|]; [|discriminate]. destruct b as [b|]; [|discriminate]. injection E as E.
  assert (A : 0 <= a).
  { destruct (l_gamma_range _ _ _ _ _ _ Hee G1) as [T P]. destruct (Qlt_le_dec 0 p1) as [Hp|Hp].
    - destruct (P Hp) as (y & Ey & Y & _). congruence.
    - destruct (T Hp); discriminate. }
  assert (B : 0 <= b).
  { destruct (l_gamma_range _ _ _ _ _ _ Hee G2) as [T P]. destruct (Qlt_le_dec 0 p2) as [Hp|Hp].
    - destruct (P Hp) as (y & Ey & Y & _). congruence.
    - destruct (T Hp); discriminate. }
  rewrite <- E. destruct (Qeq_dec b 0) as [Z|NZ].
  - assert (Z' : a / b == 0) by (rewrite Z; unfold Qdiv; change (/ 0) with 0; ring). rewrite Z'. lra.
  - assert (S : 0 < b) by (destruct (Qlt_le_dec 0 b); [assumption|exfalso; apply NZ; lra]).
    apply Qle_shift_div_l; lra.
Qed.

(* law_poisson: whenever it returns a count, the count is >= the entry count (>= 0 from law_poisson) *)
Lemma pois_outer_ge : forall (fuel gfuel tfuel : nat) t v k mg st r m,
  pois_outer ln ex sq tn pw ee fuel gfuel tfuel t v k mg = Done st (Some r) m -> (k <= r)%Z.
Proof.
  induction fuel as [|f IH]; intros gfuel tfuel t v k mg st r m H.
  - cbn [pois_outer] in H. destruct (qleb 16 t); [discriminate|].
    destruct (pois_tail tfuel (ex (- t)) 1 v k (Qmin mg (Qabs (t - 16)))) as [s r' m'|] eqn:T; [|discriminate].
    injection H as _ E _. subst r'. eapply pois_tail_ge; exact T.
  - cbn [pois_outer] in H. destruct (qleb_spec 16 t) as [H16|H16].
    + destruct (l_gamma ln ex sq tn pw ee gfuel (inject_Z (Qfloor ((7 # 8) * t))) v) as [v1 [x|] mm|] eqn:G; try discriminate.
      assert (N : (14 <= Qfloor ((7 # 8) * t))%Z).
      { assert (B : inject_Z 14 <= (7 # 8) * t) by (change (inject_Z 14) with 14; lra).
        rewrite <- (Qfloor_Z 14). apply Qfloor_resp_le. exact B. }
      destruct (qltb t x).
      * match type of H with context [pois_bern ?n ?p ?a ?b ?c] =>
          pose proof (pois_bern_spec n p a b c) as S; destruct (pois_bern n p a b c) as [[v2 k2] m2] end.
        injection H as _ E _. subst k2. lia.
      * apply IH in H. lia.
    + destruct (pois_tail tfuel (ex (- t)) 1 v k (Qmin mg (Qabs (t - 16)))) as [s r' m'|] eqn:T; [|discriminate].
      injection H as _ E _. subst r'. eapply pois_tail_ge; exact T.
Qed.

Lemma l_poisson_nonneg (fuel gfuel tfuel : nat) t v st r m :
  l_poisson ln ex sq tn pw ee fuel gfuel tfuel t v = Done st (Some r) m -> (0 <= r)%Z.
Proof. apply pois_outer_ge. Qed.

(* law_poisson(t), t < 16 : one product loop; terminates for every state within the explicit bound *)
Lemma l_poisson_small_terminates (fuel gfuel tfuel : nat) t v :
  t < 16 -> 0 < ex (- t) -> (1 <= tfuel)%nat ->
  (qP - 1) < ex (- t) * (qP - 1 + inject_Z (Z.of_nat tfuel)) ->
  exists st r m, l_poisson ln ex sq tn pw ee fuel gfuel tfuel t v = Done st (Some r) m /\ (0 <= r < Z.of_nat tfuel)%Z.
Proof.
  intros Ht Hq Hf Hb. unfold l_poisson.
  assert (E : pois_outer ln ex sq tn pw ee fuel gfuel tfuel t v 0 big_margin =
              match pois_tail tfuel (ex (- t)) 1 v 0 (Qmin big_margin (Qabs (t - 16))) with
              | Done s r m => Done s (Some r) m | NoFuel s => NoFuel s end).
  { destruct fuel; cbn [pois_outer]; destruct (qleb_spec 16 t); try lra; reflexivity. }
  rewrite E.
  destruct (pois_tail_terminates tfuel (ex (- t)) 1 v 0 (Qmin big_margin (Qabs (t - 16))) Hq ltac:(lra) Hf ltac:(lra))
    as (st & r & m & Eq & Rg).
  rewrite Eq. exists st, r, m. split; [reflexivity|lia].
Qed.
End Gamma.

(* ------------------------------------------------------------------ the support gap of law_gamma(alpha < 1) as a function of GV_EE *)
(* branch "value <= 1" returns values of ]0,1], branch "value > 1" values above -ln(1/E): nothing in between *)
Definition in_gamma_gap (ln : Q -> Q) (E x : Q) : Prop := 1 < x /\ x <= - ln (1 / E).

Lemma l_gamma_never_in_gap (ln ex sq tn : Q -> Q) (pw : Q -> Q -> Q) (E : Q) :
  0 < E ->
  (forall x y, 0 < x -> x <= 1 -> 0 < y -> pw x y <= 1) ->
  (forall x y, 0 < x -> x < y -> ln x < ln y) ->
  forall (fuel : nat) alpha v st x m,
  0 < alpha -> alpha <= 1 -> c_1em5 <= Qabs (alpha - 1) ->
  l_gamma ln ex sq tn pw E fuel alpha v = Done st (Some x) m -> ~ in_gamma_gap ln E x.
Proof.
  intros HE Hpw Hln fuel alpha v st x m H0 H1 H2 H [G1 G2].
  destruct (l_gamma_gap ln ex sq tn pw E HE Hpw Hln fuel alpha v st x m H0 H1 H2 H); lra.
Qed.

(* the gap is empty exactly when -ln(1/E) <= 1 ... *)
Lemma gamma_gap_empty_iff (ln : Q -> Q) (E : Q) : (forall x, ~ in_gamma_gap ln E x) <-> - ln (1 / E) <= 1.
Proof.
  split.
  - intro H. destruct (Qlt_le_dec 1 (- ln (1 / E))) as [L|L]; [|exact L].
    exfalso. apply (H (- ln (1 / E))). split; [exact L|apply Qle_refl].
  - intros H x [G1 G2]. lra.
Qed.

(* ... in particular it is empty when ln E = 1 (E = e), and it contains ln E as soon as ln E > 1 (E > e),
   for any function ln with ln(1/E) = -ln E *)
Lemma gamma_gap_empty_at_e (ln : Q -> Q) (E : Q) :
  ln (1 / E) == - ln E -> ln E == 1 -> forall x, ~ in_gamma_gap ln E x.
Proof. intros Hi He. apply gamma_gap_empty_iff. lra. Qed.

Lemma gamma_gap_nonempty_above_e (ln : Q -> Q) (E : Q) :
  ln (1 / E) == - ln E -> 1 < ln E -> in_gamma_gap ln E (ln E).
Proof. intros Hi He. split; [exact He|lra]. Qed.

(* regression instance: GV_EE = 2.732 (ln 2.732 = 1.00503...): no value is ever returned in ]1, 1.005] *)
Lemma l_gamma_gap_2732 (ln ex sq tn : Q -> Q) (pw : Q -> Q -> Q) :
  (forall x y, 0 < x -> x <= 1 -> 0 < y -> pw x y <= 1) ->
  (forall x y, 0 < x -> x < y -> ln x < ln y) ->
  ln (1 / c_ee_2732) <= - (1005 # 1000) ->
  forall (fuel : nat) alpha v st x m,
  0 < alpha -> alpha <= 1 -> c_1em5 <= Qabs (alpha - 1) ->
  l_gamma ln ex sq tn pw c_ee_2732 fuel alpha v = Done st (Some x) m -> ~ (1 < x /\ x <= 1005 # 1000).
Proof.
  intros Hpw Hln H27 fuel alpha v st x m H0 H1 H2 H [G1 G2].
  assert (HE : 0 < c_ee_2732) by reflexivity.
  destruct (l_gamma_gap ln ex sq tn pw c_ee_2732 HE Hpw Hln fuel alpha v st x m H0 H1 H2 H); lra.
Qed.

(* ------------------------------------------------------------------ law_invcdf_gaussian: the bisection *)
(* width after j halvings *)
Fixpoint halved (j : nat) (w : Q) : Q := match j with O => w | S k => halved k (w / 2) end.

Lemma bisect_count (dec : Q -> bool) : forall (n fuel : nat) xmin xmax x it w,
  (n <= fuel)%nat -> xmax - xmin == w ->
  (forall j, (j < n)%nat -> c_1em7 < halved j w) -> halved n w <= c_1em7 ->
  exists x', bisect fuel dec xmin xmax x it = Some (x', (it + n)%nat) /\
             ((1 <= n)%nat -> xmin <= x' /\ x' <= xmax) /\ (n = O -> x' = x).
Proof.
  induction n as [|n IH]; intros fuel xmin xmax x it w Hf Hw Hab Hend.
  - simpl in Hend. exists x. split.
    + destruct fuel; cbn [bisect]; destruct (qltb_spec c_1em7 (xmax - xmin)); try lra; rewrite Nat.add_0_r; reflexivity.
    + split; [lia|reflexivity].
  - destruct fuel as [|f]; [lia|]. cbn [bisect].
    assert (W0 : c_1em7 < w) by (apply (Hab O); lia).
    assert (Cpos : 0 < c_1em7) by reflexivity.
    destruct (qltb_spec c_1em7 (xmax - xmin)) as [_|N]; [|lra].
    pose proof (Qred_correct ((xmin + xmax) / 2)) as R. set (x' := Qred ((xmin + xmax) / 2)) in *.
    assert (Hab' : forall j, (j < n)%nat -> c_1em7 < halved j (w / 2)) by (intros j Hj; apply (Hab (S j)); lia).
    assert (Mid : x' == (xmin + xmax) / 2) by exact R.
    destruct (dec x').
    + destruct (IH f x' xmax x' (S it) (w / 2) ltac:(lia)) as (y & Ey & Ry & Zy); [rewrite Mid, <- Hw; field|exact Hab'|exact Hend|].
      exists y. split; [rewrite Ey; f_equal; f_equal; lia|]. split; [|lia]. intros _.
      destruct n as [|n'].
      * rewrite (Zy eq_refl). rewrite Mid. split; [|]; apply Qle_shift_div_l || apply Qle_shift_div_r; lra.
      * destruct (Ry ltac:(lia)) as [Y0 Y1]. split; [|exact Y1]. eapply Qle_trans; [|exact Y0]. rewrite Mid. apply Qle_shift_div_l; lra.
    + destruct (IH f xmin x' x' (S it) (w / 2) ltac:(lia)) as (y & Ey & Ry & Zy); [rewrite Mid, <- Hw; field|exact Hab'|exact Hend|].
      exists y. split; [rewrite Ey; f_equal; f_equal; lia|]. split; [|lia]. intros _.
      destruct n as [|n'].
      * rewrite (Zy eq_refl). rewrite Mid. split; [|]; apply Qle_shift_div_l || apply Qle_shift_div_r; lra.
      * destruct (Ry ltac:(lia)) as [Y0 Y1]. split; [exact Y0|]. eapply Qle_trans; [exact Y1|]. rewrite Mid. apply Qle_shift_div_r; lra.
Qed.

(* from a bracket of width 0.002 the loop runs exactly 15 times, whatever the tests answer *)
Lemma bisect_15 (dec : Q -> bool) (fuel : nat) xmin x :
  (15 <= fuel)%nat ->
  exists x', bisect fuel dec xmin (xmin + c_002) x O = Some (x', 15%nat) /\ xmin <= x' /\ x' <= xmin + c_002.
Proof.
  intro Hf.
  destruct (bisect_count dec 15 fuel xmin (xmin + c_002) x O c_002 Hf) as (y & Ey & Ry & _).
  - ring.
  - intros j Hj. do 15 (destruct j as [|j]; [vm_compute; reflexivity|]). lia.
  - vm_compute. discriminate.
  - exists y. split; [exact Ey|]. apply Ry. lia.
Qed.

Section InvCdfProofs.
Variables (ln ex sq rd : Q -> Q).

(* Law.cpp:587-590 : lower end of the starting bracket (rational initial approximation minus 0.001) *)
Definition icdf_xmin (value : Q) : Q :=
  let v := if qltb value (1 # 2) then 1 - value else value in
  rd (icdf_start (sq (- (2) * ln (1 - v))) - c_001).

Lemma l_invcdf_spec (fuel : nat) value : (15 <= fuel)%nat ->
  (value <= 0 -> l_invcdf ln ex sq rd fuel value = Some (- (10), O)) /\
  (1 <= value -> l_invcdf ln ex sq rd fuel value = Some (10, O)) /\
  (0 < value -> value < 1 ->
     exists y, l_invcdf ln ex sq rd fuel value = Some (if qltb value (1 # 2) then - y else y, 15%nat) /\
               icdf_xmin value <= y /\ y <= icdf_xmin value + c_002).
Proof.
  intro Hf. unfold l_invcdf. split; [|split].
  - intro H. destruct (qleb_spec value 0); [reflexivity|lra].
  - intro H. destruct (qleb_spec value 0); [lra|]. destruct (qleb_spec 1 value); [reflexivity|lra].
  - intros H0 H1. destruct (qleb_spec value 0); [lra|]. destruct (qleb_spec 1 value); [lra|].
    fold (icdf_xmin value). set (xmin := icdf_xmin value).
    match goal with |- context [bisect fuel ?d xmin (xmin + c_002) 0 O] =>
      destruct (bisect_15 d fuel xmin 0 Hf) as (y & Ey & Y0 & Y1); rewrite Ey end.
    exists y. split; [reflexivity|]. split; assumption.
Qed.
End InvCdfProofs.

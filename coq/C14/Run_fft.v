(* C14 / part fft: runner. Decodes a case (kinds 200..299), runs the model, encodes the result. Executable only. *)
From Coq Require Import List ZArith QArith Bool.
From Gst Require Import lib.Sx lib.QAux C14.FFT.
Import ListNotations.
Local Open Scope Z_scope.

Definition ofOZ (o : option Z) : sx := match o with Some z => I z | None => L [] end.
Definition ofOLZ (o : option (list Z)) : sx := match o with Some l => L [ofList I l] | None => L [] end.

Definition asRow (s : sx) : option (list Q) := asListOf asQ s.
Definition asMat (s : sx) : option (list (list Q)) := asListOf asRow s.

(* initial memory of the kind-210 cases: u[i] = i + 1, v[i] = 1000 + i *)
Definition U0 (i : Z) : Q := inject_Z (i + 1).
Definition V0 (i : Z) : Q := inject_Z (1000 + i).

Definition dump (n : Z) (f : Z -> Q) : sx := ofList (fun i => ofQ (f i)) (zr 0 n).

(* memory after _defineSymmetry through the CURRENT macro IND (compared with the implementation), and through the macro as it was
   before commit f1042d400 (IND_old: only used by the check to recognise a regression and name it) *)
Definition run_sym (ndim : Z) (d : dims) : sx :=
  let n := dx d * dy d * dz d in
  let '(Ui, Vi) := symmetrize (IND d) ndim d U0 V0 in
  let '(Uo, Vo) := symmetrize (IND_old d) ndim d U0 V0 in
  L [ dump n Ui; dump n Vi; ofB (herm_lin_b d Ui Vi); ofList (fun c => I (IND d c)) (variance_cells ndim d);
      dump n Uo; dump n Vo; ofB (herm_lin_b d Uo Vo); ofList (fun c => I (IND_old d c)) (variance_cells ndim d) ].

Definition run_fft (c : sx) : sx :=
  match c with
  (* (200 number largeFactor) -> (_getOptimalEvenNumber | ()) (_getFactors | ())   ; () = the C++ does not terminate *)
  | L [I 200; I number; I large] =>
      L [ofOZ (get_optimal_even number large); ofOLZ (get_factors number)]
  (* (210 ndim dx dy dz) -> memory after _defineSymmetry, Hermitian flag for fftn's order, _setVariance positions (current macro; then old macro) *)
  | L [I 210; I ndim; I a; I b; I c] =>
      let d := mkD a b c in
      if good_dims_b ndim d && (a * b * c <=? 100000) then run_sym ndim d else sx_error 2
  (* (220 ...) second-moment check of the whole simulator: numeric evidence on the implementation only *)
  | L (I 220 :: _) => L []
  (* (240 ...) convention of fftn, (271 ...) real simuSpectral recomputed in floating point: implementation only *)
  | L (I 240 :: _) => L []
  | L (I 271 :: _) => L []
  (* (270 omega tensor phi (coor ...) gamma covtype sill scales angles mean ssill) -> the arguments u_b + phi_b of the cosines, per point.
     ssill is the square root of the sill used by spectral_value: the relation ssill * ssill = sill is checked exactly here. *)
  | L [I 270; om; te; ph; pts; _; _; sl; _; _; _; ss] =>
      match asMat om, asMat te, asRow ph, asMat pts, asQ sl, asQ ss with
      | Some omega, Some tensor, Some phi, Some coors, Some sill, Some ssill =>
          if Qeq_bool (ssill * ssill) sill && Qle_bool 0 ssill
          then ofList (fun coor => ofList ofQ (spectral_args omega tensor phi coor)) coors
          else sx_error 3
      | _, _, _, _, _, _ => sx_error 1
      end
  | _ => sx_error 0
  end.

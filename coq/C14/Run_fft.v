(* C14 / part fft: runner. Decodes a case (kinds 200..299), runs the model, encodes the result. Executable only. *)
From Coq Require Import List ZArith QArith Bool.
From Gst Require Import lib.Sx lib.QAux C14.FFT.
From Gst Require C16.Model.
Import ListNotations.
Local Open Scope Z_scope.

Definition ofOZ (o : option Z) : sx := match o with Some z => I z | None => L [] end.
Definition ofOLZ (o : option (list Z)) : sx := match o with Some l => L [ofList I l] | None => L [] end.

Definition asRow (s : sx) : option (list Q) := asListOf asQ s.
Definition asMat (s : sx) : option (list (list Q)) := asListOf asRow s.

(* initial memory of the kind-210 cases: u[i] = i + 1, v[i] = 1000 + i *)
Definition U0 (i : Z) : Q := inject_Z (i + 1).
Definition V0 (i : Z) : Q := inject_Z (1000 + i).

Definition dump (n : Z) (f : Z -> Q) : sx := ofList (fun i => ofQ (f i)) (zr 0 n).

(* memory after _defineSymmetry through the CURRENT macro IND (compared with the implementation), and through the macro as it was
   before commit f1042d400 (IND_old: only used by the check to recognise a regression and name it) *)
Definition run_sym (ndim : Z) (d : dims) : sx :=
  let n := dx d * dy d * dz d in
  let '(Ui, Vi) := symmetrize (IND d) ndim d U0 V0 in
  let '(Uo, Vo) := symmetrize (IND_old d) ndim d U0 V0 in
  L [ dump n Ui; dump n Vi; ofB (herm_lin_b d Ui Vi); ofList (fun c => I (IND d c)) (variance_cells ndim d);
      dump n Uo; dump n Vo; ofB (herm_lin_b d Uo Vo); ofList (fun c => I (IND_old d c)) (variance_cells ndim d) ].

Definition run_fft (c : sx) : sx :=
  match c with
  (* (200 number largeFactor) -> (_getOptimalEvenNumber | ()) (_getFactors | ())   ; () = the C++ does not terminate *)
  | L [I 200; I number; I large] =>
      L [ofOZ (get_optimal_even number large); ofOLZ (get_factors number)]
  (* (210 ndim dx dy dz) -> memory after _defineSymmetry, Hermitian flag for fftn's order, _setVariance positions (current macro; then old macro) *)
  | L [I 210; I ndim; I a; I b; I c] =>
      let d := mkD a b c in
      if good_dims_b ndim d && (a * b * c <=? 100000) then run_sym ndim d else sx_error 2
  (* (220 ndim (nx ny nz) covtype sill ranges angles percent alias (dx..) (grid angles..) (x0..) (rotation matrix rows | ())):
     second-moment check of the whole simulator on a possibly rotated grid. The moments are numeric evidence on the implementation;
     the model gives, exactly, for every index offset between two output nodes: the lag computed as _prepar does
     (lag_of (step_mat g)), the transposed reading (regression form) and the coordinate difference node(l) - node(0). *)
  | L [I 220; I nd; nxs; _; _; _; _; _; _; dxs; _; x0s; rm] =>
      match asListOf asZ nxs, asRow dxs, asRow x0s, asMat rm with
      | Some nx, Some dx, Some x0, Some M =>
          let n := Z.to_nat nd in
          let g := {| C16.Model.g_nx := firstn n nx; C16.Model.g_x0 := firstn n x0; C16.Model.g_dx := firstn n dx;
                      C16.Model.g_rot := match M with [] => C16.Model.rot_identity n | _ => C16.Model.rot_of_matrix n M end |} in
          let span (k : nat) := let m := nth k nx 1 in if (k <? n)%nat then zr (1 - m) m else [0] in
          let offs := flat_map (fun lz => flat_map (fun ly => map (fun lx => firstn n [lx; ly; lz]) (span 0%nat)) (span 1%nat)) (span 2%nat) in
          let X1 := step_mat g n in
          let vec (v : list Q) := ofList ofQ v in
          if (1 <=? nd) && (nd <=? 3) then
            L [ ofList (fun l => vec (lag_of X1 n l)) offs;
                ofList (fun l => vec (lag_of_transposed X1 n l)) offs;
                ofList (fun l => vec (C16.Model.vsub (C16.Model.node g l) (C16.Model.node g (zero_ind n)))) offs ]
          else sx_error 2
      | _, _, _, _ => sx_error 1
      end
  | L (I 220 :: _) => L []
  (* (240 ...) convention of fftn, (271 ...) real simuSpectral recomputed in floating point: implementation only *)
  | L (I 240 :: _) => L []
  | L (I 271 :: _) => L []
  (* (270 omega tensor phi (coor ...) gamma covtype sill scales angles mean ssill) -> the arguments u_b + phi_b of the cosines, per point.
     ssill is the square root of the sill used by spectral_value: the relation ssill * ssill = sill is checked exactly here. *)
  | L [I 270; om; te; ph; pts; _; _; sl; _; _; _; ss] =>
      match asMat om, asMat te, asRow ph, asMat pts, asQ sl, asQ ss with
      | Some omega, Some tensor, Some phi, Some coors, Some sill, Some ssill =>
          if Qeq_bool (ssill * ssill) sill && Qle_bool 0 ssill
          then ofList (fun coor => ofList ofQ (spectral_args omega tensor phi coor)) coors
          else sx_error 3
      | _, _, _, _, _, _ => sx_error 1
      end
  | _ => sx_error 0
  end.

(* C14 / part fft : index algebra of the FFT simulator (src/Simulation/CalcSimuFFT.cpp) and
   coefficient normalisation of the spectral simulator (src/Simulation/SimuSpectral.cpp).
   Executable definitions only (no proofs).  Z for indices, nat for fuel / structural sizes. *)
From Coq Require Import List ZArith QArith Bool.
(* the grid geometry (indices -> coordinates, rotation) is the model of property C16; used qualified, never imported *)
From Gst Require C16.Model.
Import ListNotations.
Local Open Scope Z_scope.

(* ------------------------------------------------------------------------------------------------ *)
(* 1. _getFactors / _getOptimalEvenNumber                                                            *)
(* ------------------------------------------------------------------------------------------------ *)

(* C++ int % and / truncate towards zero: Z.rem / Z.quot (equal to mod / div on non-negative numbers). *)

(* CalcSimuFFT.cpp:194-199 and :206-211  `while ((local % j) == 0) { push_back(j); local /= j; }`
   acc is kept in reverse order (push_back = cons here, reversed at the end). fuel exhausted = None
   (this is what happens for local = 0: 0 % j == 0 for ever). *)
Fixpoint div_out (fuel : nat) (j local : Z) (acc : list Z) : option (Z * list Z) :=
  match fuel with
  | O => None
  | S f => if Z.rem local j =? 0 then div_out f j (Z.quot local j) (j :: acc) else Some (local, acc)
  end.

(* CalcSimuFFT.cpp:203-214  `j = 3; do { while(...) ; j += 2; } while (j <= local);`
   fin = fuel given to each inner while. *)
Fixpoint odd_loop (fuel fin : nat) (j local : Z) (acc : list Z) : option (Z * list Z) :=
  match fuel with
  | O => None
  | S f =>
      match div_out fin j local acc with
      | None => None
      | Some (local', acc') =>
          if j + 2 <=? local' then odd_loop f fin (j + 2) local' acc' else Some (local', acc')
      end
  end.

Definition fuel_of (n : Z) : nat := S (Z.to_nat (Z.abs n)).

(* CalcSimuFFT.cpp:185-220 _getFactors ; None = the C++ loop does not terminate (number = 0) *)
Definition get_factors (number : Z) : option (list Z) :=
  let fu := fuel_of number in
  match div_out fu 2 number [] with
  | None => None
  | Some (l1, a1) =>
      match odd_loop fu fu 3 l1 a1 with
      | None => None
      | Some (_, a2) => Some (match a2 with [] => [1] | _ => rev a2 end)   (* :216 nfact <= 0 -> push 1 *)
      end
  end.

(* CalcSimuFFT.cpp:164-172  `while (answer) { factors = _getFactors(local); answer = any factor > largeFactor; if (answer) local += 2; }` *)
Fixpoint opt_loop (fuel : nat) (large local : Z) : option Z :=
  match fuel with
  | O => None
  | S f =>
      match get_factors local with
      | None => None
      | Some fs => if existsb (fun x => large <? x) fs then opt_loop f large (local + 2) else Some local
      end
  end.

(* CalcSimuFFT.cpp:158-174 _getOptimalEvenNumber(number, largeFactor = 11) *)
Definition get_optimal_even (number large : Z) : option Z :=
  let local := if Z.rem number 2 =? 1 then number + 1 else number in    (* :161 *)
  opt_loop (fuel_of local) large local.

Definition list_prod (l : list Z) : Z := fold_right Z.mul 1 l.

(* ------------------------------------------------------------------------------------------------ *)
(* 2. wrap map and negation map                                                                      *)
(* ------------------------------------------------------------------------------------------------ *)

(* CalcSimuFFT.cpp:499-501  jnd[i] = (ix <= _dim2[i]) ? ix : ix - _dims[i] *)
Definition jnd (d h x : Z) : Z := if x <=? h then x else x - d.

(* index of the opposite frequency / lag on a periodic axis of length d *)
Definition neg1 (d k : Z) : Z := (d - k) mod d.

(* ------------------------------------------------------------------------------------------------ *)
(* 3. the symmetry operations                                                                        *)
(* ------------------------------------------------------------------------------------------------ *)

Definition cell := (Z * Z * Z)%type.           (* (ix, iy, iz) *)

(* _dims (CalcSimuFFT.hpp:78); _dim2[i] = _dims[i] / 2 (CalcSimuFFT.cpp:116), inactive dimensions: 1 and 0 (:120-121) *)
Record dims := mkD { dx : Z; dy : Z; dz : Z }.
Definition hx (d : dims) := dx d / 2.
Definition hy (d : dims) := dy d / 2.
Definition hz (d : dims) := dz d / 2.

Definition negc (d : dims) (k : cell) : cell :=
  let '(x, y, z) := k in (neg1 (dx d) x, neg1 (dy d) y, neg1 (dz d) z).
Definition inbox (d : dims) (k : cell) : Prop :=
  let '(x, y, z) := k in 0 <= x < dx d /\ 0 <= y < dy d /\ 0 <= z < dz d.
Definition inboxb (d : dims) (k : cell) : bool :=
  let '(x, y, z) := k in (0 <=? x) && (x <? dx d) && (0 <=? y) && (y <? dy d) && (0 <=? z) && (z <? dz d).

(* _setZero (CalcSimuFFT.cpp:856-860)  /  _setConjugate(src -> dst) (:874-880) *)
Inductive op := Zero (c : cell) | Conj (src dst : cell).

(* lo, lo+1, ..., hi-1  :  `for (i = lo; i < hi; i++)` *)
Definition zr (lo hi : Z) : list Z := map (fun i => lo + Z.of_nat i) (seq 0 (Z.to_nat (hi - lo))).
(* `for (i = 0; i < d; i += h)`; for h <= 0 < d the C++ loop does not terminate: never reached since d = 2h, h >= 1 *)
Definition stride (d h : Z) : list Z :=
  if h <=? 0 then [] else map (fun i => Z.of_nat i * h) (seq 0 (Z.to_nat ((d + h - 1) / h))).

(* three nested loops, a outermost; f receives (a, b, c) *)
Definition loop3 (A B C : list Z) (f : Z -> Z -> Z -> op) : list op :=
  flat_map (fun a => flat_map (fun b => map (f a b) C) B) A.

(* CalcSimuFFT.cpp:666-679 _defineSym1 *)
Definition sym1 (d : dims) : list op :=
  loop3 [0] [0] (stride (dx d) (hx d)) (fun _ _ ix => Zero (ix, 0, 0))                              (* :670 *)
  ++ loop3 [0] [0] (zr 1 (hx d)) (fun _ _ ix => Conj (ix, 0, 0) (dx d - ix, 0, 0)).                 (* :674 *)

(* CalcSimuFFT.cpp:688-730 _defineSym2(iz0) *)
Definition sym2 (d : dims) (iz0 : Z) : list op :=
  loop3 [iz0] (stride (dy d) (hy d)) (stride (dx d) (hx d)) (fun iz iy ix => Zero (ix, iy, iz))      (* :691 *)
  ++ loop3 [iz0] (zr 1 (hy d)) (stride (dx d) (hx d))
       (fun iz iy ix => Conj (ix, iy, iz) (ix, dy d - iy, iz))                                       (* :697 *)
  ++ loop3 [iz0] (stride (dy d) (hy d)) (zr 1 (hx d))
       (fun iz iy ix => Conj (ix, iy, iz) (dx d - ix, iy, iz))                                       (* :706 *)
  ++ loop3 [iz0] (zr 1 (hy d)) (zr 1 (hx d))
       (fun iz iy ix => Conj (ix, iy, iz) (dx d - ix, dy d - iy, iz))                                (* :714 *)
  ++ loop3 [iz0] (zr 1 (hy d)) (zr 1 (hx d))
       (fun iz iy ix => Conj (ix, dy d - iy, iz) (dx d - ix, iy, iz)).                               (* :723 *)

(* CalcSimuFFT.cpp:737-845 _defineSym3 *)
Definition sym3 (d : dims) : list op :=
  let X := stride (dx d) (hx d) in let Y := stride (dy d) (hy d) in
  let rx := zr 1 (hx d) in let ry := zr 1 (hy d) in let rz := zr 1 (hz d) in
  let jx ix := dx d - ix in let jy iy := dy d - iy in let jz iz := dz d - iz in
  flat_map (sym2 d) (stride (dz d) (hz d))                                                           (* :741 *)
  ++ loop3 rz Y X (fun iz iy ix => Conj (ix, iy, iz) (ix, iy, jz iz))                                (* :750 *)
  ++ loop3 rz ry X (fun iz iy ix => Conj (ix, iy, iz) (ix, jy iy, jz iz))                            (* :760 *)
  ++ loop3 rz ry X (fun iz iy ix => Conj (ix, jy iy, iz) (ix, iy, jz iz))                            (* :771 *)
  ++ loop3 rz Y rx (fun iz iy ix => Conj (ix, iy, iz) (jx ix, iy, jz iz))                            (* :782 *)
  ++ loop3 rz Y rx (fun iz iy ix => Conj (jx ix, iy, iz) (ix, iy, jz iz))                            (* :793 *)
  ++ loop3 rz ry rx (fun iz iy ix => Conj (ix, iy, iz) (jx ix, jy iy, jz iz))                        (* :803 *)
  ++ loop3 rz ry rx (fun iz iy ix => Conj (jx ix, jy iy, iz) (ix, iy, jz iz))                        (* :814 *)
  ++ loop3 rz ry rx (fun iz iy ix => Conj (ix, jy iy, iz) (jx ix, iy, jz iz))                        (* :825 *)
  ++ loop3 rz ry rx (fun iz iy ix => Conj (jx ix, iy, iz) (ix, jy iy, jz iz)).                       (* :836 *)

(* CalcSimuFFT.cpp:637-659 _defineSymmetry: dispatch on the space dimension *)
Definition define_symmetry (ndim : Z) (d : dims) : list op :=
  if ndim =? 1 then sym1 d else if ndim =? 2 then sym2 d 0 else if ndim =? 3 then sym3 d else [].

(* CalcSimuFFT.cpp:591-613: the cells visited by _setVariance in _defineRandom *)
Definition variance_cells (ndim : Z) (d : dims) : list cell :=
  let X := stride (dx d) (hx d) in let Y := stride (dy d) (hy d) in let Zs := stride (dz d) (hz d) in
  if ndim =? 1 then map (fun ix => (ix, 0, 0)) X
  else if ndim =? 2 then flat_map (fun iy => map (fun ix => (ix, iy, 0)) X) Y
  else if ndim =? 3 then flat_map (fun iz => flat_map (fun iy => map (fun ix => (ix, iy, iz)) X) Y) Zs
  else [].

(* --- semantics on arrays indexed by the cell (u = real part, v = imaginary part) --- *)
Definition cell_eqb (a b : cell) : bool :=
  let '(a0, a1, a2) := a in let '(b0, b1, b2) := b in (a0 =? b0) && (a1 =? b1) && (a2 =? b2).
Definition upd (f : cell -> Q) (c : cell) (x : Q) : cell -> Q := fun k => if cell_eqb k c then x else f k.
Definition apply_op (s : (cell -> Q) * (cell -> Q)) (o : op) : (cell -> Q) * (cell -> Q) :=
  let (u, v) := s in
  match o with
  | Zero c => (u, upd v c 0%Q)                                   (* :859 _v[ind] = 0 *)
  | Conj a b => (upd u b (u a), upd v b (Qopp (v a)))            (* :878-879 *)
  end.
Definition run_ops (l : list op) (s : (cell -> Q) * (cell -> Q)) := fold_left apply_op l s.

(* --- semantics on the linear memory, through an index map (what the C++ does with IND) --- *)
Definition updz (f : Z -> Q) (i : Z) (x : Q) : Z -> Q := fun k => if k =? i then x else f k.
Definition apply_op_lin (idx : cell -> Z) (s : (Z -> Q) * (Z -> Q)) (o : op) : (Z -> Q) * (Z -> Q) :=
  let (U, V) := s in
  match o with
  | Zero c => (U, updz V (idx c) 0%Q)
  | Conj a b => (updz U (idx b) (U (idx a)), updz V (idx b) (Qopp (V (idx a))))
  end.
Definition run_ops_lin (idx : cell -> Z) (l : list op) (s : (Z -> Q) * (Z -> Q)) := fold_left (apply_op_lin idx) l s.

(* ------------------------------------------------------------------------------------------------ *)
(* 4. layouts                                                                                        *)
(* ------------------------------------------------------------------------------------------------ *)

(* CalcSimuFFT.cpp:23  #define IND(ix,iy,iz) ((ix) + _dims[0] * ((iy) + _dims[1] * (iz)))   (ix fastest) *)
Definition IND (d : dims) (k : cell) : Z := let '(x, y, z) := k in x + dx d * (y + dy d * z).
(* the macro as it was before commit f1042d400: ((iz) + _dims[2] * ((iy) + _dims[1] * (ix))) (ix slowest);
   kept for the regression theorems only *)
Definition IND_old (d : dims) (k : cell) : Z := let '(x, y, z) := k in z + dz d * (y + dy d * x).
(* CalcSimuFFT.cpp:494-497 (ecr++ with ix innermost) and :523/:892 fftn(ndim, _dims, ...) whose first dimension is the
   fastest one (src/Core/fft.cpp:1011-1019: nSpan = dims[0] for the first pass)                  (ix fastest) *)
Definition lin_fill (d : dims) (k : cell) : Z := let '(x, y, z) := k in x + dx d * (y + dy d * z).

Definition transp3 (k : cell) : cell := let '(x, y, z) := k in (z, y, x).
Definition transp2 (k : cell) : cell := let '(x, y, z) := k in (y, x, z).

(* Hermitian symmetry of a linear memory for the DFT of dimensions (dx, dy, dz) as fftn sees it *)
Definition herm_lin (d : dims) (U V : Z -> Q) : Prop :=
  forall k, inbox d k -> U (lin_fill d (negc d k)) = U (lin_fill d k) /\ V (lin_fill d (negc d k)) = Qopp (V (lin_fill d k)).
(* Hermitian symmetry in the (ix,iy,iz) coordinates *)
Definition herm_cell (d : dims) (u v : cell -> Q) : Prop :=
  forall k, inbox d k -> u (negc d k) = u k /\ v (negc d k) = Qopp (v k).

(* all cells of the box in fill order (iz slowest) *)
Definition box_cells (d : dims) : list cell :=
  flat_map (fun z => flat_map (fun y => map (fun x => (x, y, z)) (zr 0 (dx d))) (zr 0 (dy d))) (zr 0 (dz d)).
Definition Qeqb_leib (a b : Q) : bool := (Qnum a =? Qnum b) && (Pos.eqb (Qden a) (Qden b)).
Definition herm_lin_b (d : dims) (U V : Z -> Q) : bool :=
  forallb (fun k => Qeqb_leib (U (lin_fill d (negc d k))) (U (lin_fill d k))
                    && Qeqb_leib (V (lin_fill d (negc d k))) (Qopp (V (lin_fill d k)))) (box_cells d).

(* the memory the C++ is left with after _defineSymmetry, for an index macro idx *)
Definition symmetrize (idx : cell -> Z) (ndim : Z) (d : dims) (U V : Z -> Q) := run_ops_lin idx (define_symmetry ndim d) (U, V).

(* valid extended dimensions as produced by _alloc: even >= 2 on active axes, 1 on the others *)
Definition good_dims (ndim : Z) (d : dims) : Prop :=
  1 <= ndim <= 3 /\
  (exists h, 1 <= h /\ dx d = 2 * h) /\
  (if 2 <=? ndim then exists h, 1 <= h /\ dy d = 2 * h else dy d = 1) /\
  (if 3 <=? ndim then exists h, 1 <= h /\ dz d = 2 * h else dz d = 1).
Definition good_dims_b (ndim : Z) (d : dims) : bool :=
  (1 <=? ndim) && (ndim <=? 3) && (2 <=? dx d) && Z.even (dx d)
  && (if 2 <=? ndim then (2 <=? dy d) && Z.even (dy d) else dy d =? 1)
  && (if 3 <=? ndim then (2 <=? dz d) && Z.even (dz d) else dz d =? 1).

(* self-conjugate cells: every coordinate is 0 or the Nyquist index *)
Definition selfc (d : dims) (k : cell) : Prop :=
  let '(x, y, z) := k in (x = 0 \/ x = hx d) /\ (y = 0 \/ y = hy d) /\ (z = 0 \/ z = hz d).
(* the sources of _setConjugate: the half of the non-self-conjugate cells that stays free *)
Definition srcc (d : dims) (k : cell) : Prop :=
  let '(x, y, z) := k in
  0 <= x < dx d /\ 0 <= y < dy d /\ 0 <= z < dz d /\
  (1 <= z < hz d \/
   ((z = 0 \/ z = hz d) /\ (1 <= x < hx d \/ ((x = 0 \/ x = hx d) /\ 1 <= y < hy d)))).

(* boolean versions, and the count of free real degrees of freedom: real parts of the self-conjugate cells + both parts of the sources *)
Definition selfc_b (d : dims) (k : cell) : bool :=
  let '(x, y, z) := k in ((x =? 0) || (x =? hx d)) && ((y =? 0) || (y =? hy d)) && ((z =? 0) || (z =? hz d)).
Definition srcc_b (d : dims) (k : cell) : bool :=
  let '(x, y, z) := k in
  inboxb d k &&
  (((1 <=? z) && (z <? hz d)) ||
   (((z =? 0) || (z =? hz d)) && (((1 <=? x) && (x <? hx d)) || (((x =? 0) || (x =? hx d)) && (1 <=? y) && (y <? hy d))))).
Definition free_dof (d : dims) : Z :=
  Z.of_nat (length (filter (selfc_b d) (box_cells d))) + 2 * Z.of_nat (length (filter (srcc_b d) (box_cells d))).

(* CalcSimuFFT.cpp:494-519: the periodic covariance array: cell (ix,iy,iz) receives F evaluated at the wrapped lag
   (jnd[0], jnd[1], jnd[2]); F = covariance as a function of the integer lag vector (abstract) *)
Definition cper {A : Type} (d : dims) (F : Z -> Z -> Z -> A) (k : cell) : A :=
  let '(x, y, z) := k in F (jnd (dx d) (hx d) x) (jnd (dy d) (hy d) y) (jnd (dz d) (hz d) z).

(* ------------------------------------------------------------------------------------------------ *)
(* 6. finite sums over the box                                                                        *)
(* ------------------------------------------------------------------------------------------------ *)
Local Open Scope Q_scope.
Fixpoint sumn (n : nat) (f : nat -> Q) : Q := match n with O => 0 | S m => sumn m f + f m end.
Definition sumz (n : Z) (f : Z -> Q) : Q := sumn (Z.to_nat n) (fun i => f (Z.of_nat i)).
Definition sum_box (d : dims) (f : cell -> Q) : Q :=
  sumz (dz d) (fun z => sumz (dy d) (fun y => sumz (dx d) (fun x => f (x, y, z)%Z))).

(* imaginary part of sum_k (u_k + i v_k)(c_k + i s_k) *)
Definition im_sum (d : dims) (u v c s : cell -> Q) : Q := sum_box d (fun k => u k * s k + v k * c k).

(* ------------------------------------------------------------------------------------------------ *)
(* 6b. the anti-aliasing pass of _prepar                                                              *)
(* ------------------------------------------------------------------------------------------------ *)
(* `for (k = -kb; k <= kb; k++)` : symmetric sum *)
Definition ssum (K : nat) (g : Z -> Q) : Q := sumn (2 * K + 1) (fun i => g (Z.of_nat i - Z.of_nat K)%Z).

(* CalcSimuFFT.cpp:509-518: cplx[ecr] += coeff * C(lag + k * delta) for k1,k2,k3 in [-kb,kb]; the lag and the shifts are
   counted in grid meshes here: F = covariance as a function of the integer lag VECTOR, p = period of the shifts.
   Current source (:452): delta[i] = DX(i) * _dims[i], i.e. p = the extended dimensions d.
   Before commit f6d25e5eb: delta[i] = DX(i) * NX(i), i.e. p = the size of the ORIGINAL grid.
   NOTE: this is the code on an UNROTATED grid. On a rotated grid the code adds k * delta along the axes of the space, not along the
   rotated grid axes (k * _dims[j] * xyz1[j]): there it departs from this model (finding CalcSimuFFT:antialiasing-shift-not-rotated of
   HEAD 81e8ebafa, seen by the second-moment check; candidate repair fft_fix_5.patch makes the code follow this model on every grid). *)
Definition alias_sum (p d : dims) (F : Z -> Z -> Z -> Q) (Kx Ky Kz : nat) (k : cell) : Q :=
  let '(x, y, z) := k in
  ssum Kx (fun k1 => ssum Ky (fun k2 => ssum Kz (fun k3 =>
    F (jnd (dx d) (hx d) x + k1 * dx p)%Z (jnd (dy d) (hy d) y + k2 * dy p)%Z (jnd (dz d) (hz d) z + k3 * dz p)%Z))).
(* :477-491 scale = sum of the shifted copies at lag 0; coeff = C(0) / scale *)
Definition alias_coeff (p : dims) (F : Z -> Z -> Z -> Q) (Kx Ky Kz : nat) : Q :=
  F 0%Z 0%Z 0%Z / ssum Kx (fun k1 => ssum Ky (fun k2 => ssum Kz (fun k3 => F (k1 * dx p)%Z (k2 * dy p)%Z (k3 * dz p)%Z))).
(* the array handed to fftn by the current source: period of the shifts = extended dimensions *)
Definition cper_alias (d : dims) (F : Z -> Z -> Z -> Q) (Kx Ky Kz : nat) (k : cell) : Q :=
  alias_coeff d F Kx Ky Kz * alias_sum d d F Kx Ky Kz k.
(* as it was before commit f6d25e5eb (period nx of the original grid); kept for the regression theorem only *)
Definition cper_alias_old (nx d : dims) (F : Z -> Z -> Z -> Q) (Kx Ky Kz : nat) (k : cell) : Q :=
  alias_coeff nx F Kx Ky Kz * alias_sum nx d F Kx Ky Kz k.

(* ------------------------------------------------------------------------------------------------ *)
(* 7. SimuSpectral::_computeOnRn                                                                      *)
(* ------------------------------------------------------------------------------------------------ *)
Fixpoint dotq (a b : list Q) : Q :=
  match a, b with x :: a', y :: b' => x * y + dotq a' b' | _, _ => 0 end.
Definition mat_vec (m : list (list Q)) (x : list Q) : list Q := map (fun r => dotq r x) m.
Definition col (j : nat) (m : list (list Q)) : list Q := map (fun r => nth j r 0) m.
Definition mat_mul (a b : list (list Q)) (ncol : nat) : list (list Q) :=
  map (fun r => map (fun j => dotq r (col j b)) (seq 0 ncol)) a.
Fixpoint zipplus (a b : list Q) : list Q :=
  match a, b with x :: a', y :: b' => (x + y) :: zipplus a' b' | _, _ => [] end.

(* SimuSpectral.cpp:212 res = _omega * tensor ; :230 u = res * coor ; :234 argument of the cosine u[ib] + _phi[ib] *)
Definition spectral_args (omega tensor : list (list Q)) (phi coor : list Q) : list Q :=
  zipplus (mat_vec (mat_mul omega tensor (length coor)) coor) phi.

Section Spectral.
  Variable cosv : Q -> Q.      (* cos: external *)
  Variable scale0 : Q.         (* sqrt(2 / _ns): external, scale0^2 * ns = 2 *)
  (* SimuSpectral.cpp:210 scale = sqrt(2. / _ns) * sqrt(sill(0,0)) ; :211 mean = getMean(0) ;
     :232-235 value = mean + (sum_b gamma_b cos(u_b + phi_b)) * scale.
     ssill stands for sqrt(sill): external, ssill * ssill = sill (hypothesis of the theorems; checked exactly by Run_fft on
     the cases, whose sills are squares of dyadic numbers). *)
  Definition spectral_value (ssill mean : Q) (gamma args : list Q) : Q :=
    mean + dotq gamma (map cosv args) * (scale0 * ssill).
  (* as it was before commit f398de2e6: value = scale0 * sum_b gamma_b cos(u_b + phi_b); the sill and the mean of the model
     are arguments of the model function but were NOT used. Kept for the regression theorems only. *)
  Definition spectral_value_old (sill mean : Q) (gamma args : list Q) : Q :=
    scale0 * dotq gamma (map cosv args).
End Spectral.

(* coefficient of the variance: scale^2 * ns * E[gamma^2] * <cos^2> with E[gamma^2] = 1, <cos^2> = 1/2 *)
Definition spectral_varcoef (scale2 ns : Q) : Q := scale2 * ns * (1 # 2).

(* ------------------------------------------------------------------------------------------------ *)
(* 8. _prepar: from the (wrapped) grid indices of a cell to the real-space lag, on a possibly rotated grid        *)
(* ------------------------------------------------------------------------------------------------ *)
Definition unit_ind (n i : nat) : list Z := map (fun j => if Nat.eqb i j then 1%Z else 0%Z) (seq 0 n).
Definition zero_ind (n : nat) : list Z := map (fun _ => 0%Z) (seq 0 n).

(* CalcSimuFFT.cpp:438 xyz0 = coordinates of the node (0,0,0); :441-452 xyz1[i] = coordinates of the node e_i, minus xyz0.
   rankToCoordinatesInPlace(indiceToRank(indg)) is the node of indices indg of the C16 grid model (C16.Model.node: mesh, ROTATION,
   origin) as long as the grid has at least two nodes along every axis (indg in range). Row j of the result = step along grid axis j. *)
Definition step_mat (g : C16.Model.grid) (n : nat) : list (list Q) :=
  map (fun i => C16.Model.vsub (C16.Model.node g (unit_ind n i)) (C16.Model.node g (zero_ind n))) (seq 0 n).

(* CalcSimuFFT.cpp:502-508  xyz[i] = sum_j jnd[j] * xyz1[j][i]   (column i of the step matrix) *)
Definition lag_of (X1 : list (list Q)) (n : nat) (jnd : list Z) : list Q :=
  map (fun i => C16.Model.dot (map inject_Z jnd) (C16.Model.col i X1)) (seq 0 n).
(* the transposed reading  sum_j jnd[j] * xyz1[i][j]  (row i): NOT the code; kept for the regression theorems (seeded change C14_1) *)
Definition lag_of_transposed (X1 : list (list Q)) (n : nat) (jnd : list Z) : list Q :=
  map (fun i => C16.Model.dot (map inject_Z jnd) (nth i X1 [])) (seq 0 n).

(* C14 / part vdc runner: decodes a case of kind 300..349, runs the model of the Van der Corput loop of
   CalcSimuTurningBands::_generateDirections (CalcSimuTurningBands.cpp:139-151) and the closed forms. Executable only.
     (300 p n)      -> ( x  xspec )           x     = vdc_x (p-2) (n-1): the loop as written, id = p - 2, ibs = n - 1
                                              xspec = sum of digit_i(n) p^-(i+1)   (radinv_sum), both as (num den)
     (301 p n0 k)   -> ( (j ...) (r ...) (x ...) )  for n = n0 .. n0 + p^k - 1:
                                              j = floor(p^k x_n) computed from the loop's value (bucket),
                                              r = k-digit reversal of n mod p^k (what the theorem predicts for j),
                                              x = x_n as (num den)
   errors: (-999 0) unknown kind / shape, (-999 1) malformed fields, (-999 2) arguments outside the modelled domain
   (p < 2: the C++ loop does not terminate for p = 1; k > 12 or n0 < 0: refused to keep the case small). *)
From Coq Require Import List ZArith QArith Qround Bool.
From Gst Require Import lib.Sx lib.QAux C14.VdC.
Import ListNotations.

Definition run_vdc (c : sx) : sx :=
  match c with
  | L [I 300%Z; p; n] =>
      match asZ p, asZ n with
      | Some p', Some n' =>
          if (p' <? 2)%Z then sx_error 2
          else L [ofQ (vdc_x (p' - 2) (n' - 1)); ofQ (radinv_sum p' n' (vdc_fuel n'))]
      | _, _ => sx_error 1
      end
  | L [I 301%Z; p; n0; k] =>
      match asZ p, asZ n0, asNat k with
      | Some p', Some n0', Some k' =>
          if (p' <? 2)%Z || (n0' <? 0)%Z || (12 <? k')%nat then sx_error 2
          else
            let P := bpow p' k' in
            let w := zrange n0' P in
            L [ofList I (map (bucket p' k') w);
               ofList I (map (fun n => rev p' k' (n mod P)%Z) w);
               ofList (fun n => ofQ (vdc p' n)) w]
      | _, _, _ => sx_error 1
      end
  | _ => sx_error 0
  end.

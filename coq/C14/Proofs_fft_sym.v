(* C14 / part fft : _defineSym1 / _defineSym2 / _defineSym3 impose the Hermitian symmetry in the (ix,iy,iz) coordinates,
   for all even dimensions. *)
From Coq Require Import List ZArith QArith Bool Lia.
From Gst Require Import C14.FFT C14.Proofs_fft_ops.
Import ListNotations.
Local Open Scope Z_scope.

(* ---------- lists of loop indices ---------- *)
Lemma in_zr x lo hi : In x (zr lo hi) <-> lo <= x < hi.
Proof.
  unfold zr. rewrite in_map_iff. split.
  - intros (i & E & Hi). apply in_seq in Hi. lia.
  - intro H. exists (Z.to_nat (x - lo)). split; [lia|]. apply in_seq. lia.
Qed.

Definition ev (d h : Z) : Prop := d = 2 * h /\ 1 <= h.       (* active axis: even length, h = d/2 *)
Definition flat (d h : Z) : Prop := d = 1 /\ h = 0.          (* inactive axis: _dims = 1, _dim2 = 0 *)

Lemma stride_ev d h : ev d h -> stride d h = [0; h].
Proof.
  intros [Hd Hh]. unfold stride. destruct (Z.leb_spec h 0) as [H|H]; [lia|].
  assert (E : (d + h - 1) / h = 2).
  { symmetry. apply (Z.div_unique_pos (d + h - 1) h 2 (h - 1)); lia. }
  rewrite E. change (Z.to_nat 2) with 2%nat. cbn [seq map].
  replace (Z.of_nat 0 * h) with 0 by lia. replace (Z.of_nat 1 * h) with h by lia. reflexivity.
Qed.

Lemma in_loop3 o A B C f :
  In o (loop3 A B C f) <-> exists a b c, In a A /\ In b B /\ In c C /\ o = f a b c.
Proof.
  unfold loop3. rewrite in_flat_map. split.
  - intros (a & Ha & H). apply in_flat_map in H. destruct H as (b & Hb & H). apply in_map_iff in H.
    destruct H as (c & E & Hc). exists a, b, c. auto.
  - intros (a & b & c & Ha & Hb & Hc & E). exists a. split; [exact Ha|]. apply in_flat_map. exists b. split; [exact Hb|].
    apply in_map_iff. exists c. auto.
Qed.

(* ---------- negation map ---------- *)
Lemma neg1_0 d : 0 < d -> neg1 d 0 = 0.
Proof. intro H. unfold neg1. rewrite Z.sub_0_r. apply Z_mod_same_full. Qed.
Lemma neg1_pos d x : 0 < x < d -> neg1 d x = d - x.
Proof. intro H. unfold neg1. apply Z.mod_small. lia. Qed.
Lemma neg1_spec d x : 0 <= x < d -> (x = 0 /\ neg1 d x = 0) \/ (0 < x /\ neg1 d x = d - x).
Proof.
  intro H. destruct (Z.eq_dec x 0) as [E|E].
  - left. subst x. split; [reflexivity|apply neg1_0; lia].
  - right. split; [lia|apply neg1_pos; lia].
Qed.
Lemma neg1_eq d x r : 0 <= x < d -> (x = 0 /\ r = 0) \/ (0 < x /\ r = d - x) -> neg1 d x = r.
Proof. intros H C. destruct (neg1_spec d x H) as [[E1 E2]|[E1 E2]]; rewrite E2; lia. Qed.
Lemma neg1_range d x : 0 <= x < d -> 0 <= neg1 d x < d.
Proof. intro H. unfold neg1. apply Z.mod_pos_bound. lia. Qed.
Lemma neg1_invol d x : 0 <= x < d -> neg1 d (neg1 d x) = x.
Proof.
  intro H. destruct (neg1_spec d x H) as [[E1 E2]|[E1 E2]]; rewrite E2.
  - rewrite neg1_0 by lia. lia.
  - rewrite neg1_pos by lia. lia.
Qed.

Lemma triple_eq (a b c a' b' c' : Z) : a = a' -> b = b' -> c = c' -> (a, b, c) = (a', b', c').
Proof. congruence. Qed.

Lemma conj_eq (a b a' b' : cell) : a = a' -> b = b' -> Conj a b = Conj a' b'.
Proof. congruence. Qed.
Definition axis (d h : Z) : Prop := ev d h \/ flat d h.
Lemma axis_class d h x : axis d h -> 0 <= x < d ->
  ((x = 0 \/ x = h) /\ neg1 d x = x) \/
  (1 <= x < h /\ h < neg1 d x < d) \/
  (h < x < d /\ 1 <= neg1 d x < h).
Proof.
  intros [[A1 A2]|[A1 A2]] Hx; destruct (neg1_spec d x Hx) as [[E1 E2]|[E1 E2]]; rewrite E2; lia.
Qed.
Definition axes (d : dims) : Prop := axis (dx d) (hx d) /\ axis (dy d) (hy d) /\ axis (dz d) (hz d).

(* self-conjugate cells of the box *)
Definition Rc (d : dims) (k : cell) : Prop := inbox d k /\ selfc d k.

Lemma negc_inbox d k : inbox d k -> inbox d (negc d k).
Proof.
  destruct k as [[x y] z]. cbv beta iota delta [inbox negc]. intros (Hx & Hy & Hz).
  repeat split; apply neg1_range; assumption.
Qed.
Lemma negc_invol d k : inbox d k -> negc d (negc d k) = k.
Proof.
  destruct k as [[x y] z]. cbv beta iota delta [inbox negc]. intros (Hx & Hy & Hz).
  apply triple_eq; apply neg1_invol; assumption.
Qed.
Lemma srcc_inbox d k : srcc d k -> inbox d k.
Proof. destruct k as [[x y] z]. cbv beta iota delta [inbox srcc]. tauto. Qed.

(* abstracts the three neg1 terms of a cell into variables with their case description *)
Tactic Notation "abs_neg" constr(x) constr(y) constr(z) ident(nx) ident(ny) ident(nz) ident(Hnx) ident(Hny) ident(Hnz) :=
  match goal with
  | Hx : 0 <= x < ?dx, Hy : 0 <= y < ?dy, Hz : 0 <= z < ?dz |- _ =>
      pose proof (neg1_spec dx x Hx) as Hnx; pose proof (neg1_spec dy y Hy) as Hny; pose proof (neg1_spec dz z Hz) as Hnz;
      generalize dependent (neg1 dx x); intros nx Hnx;
      generalize dependent (neg1 dy y); intros ny Hny;
      generalize dependent (neg1 dz z); intros nz Hnz
  end.

Section Arith.
  Variable d : dims.
  Hypothesis Hax : axes d.

  Lemma A1 k : srcc d k -> ~ srcc d (negc d k).
  Proof.
    destruct k as [[x y] z]. destruct Hax as (Ax & Ay & Az). unfold axis, ev, flat in *.
    cbv beta iota delta [srcc negc]. intros (Hx & Hy & Hz & HS).
    abs_neg x y z nx ny nz Hnx Hny Hnz. lia.
  Qed.
  Lemma A2 k : srcc d k -> ~ Rc d k.
  Proof.
    destruct k as [[x y] z]. destruct Hax as (Ax & Ay & Az). unfold axis, ev, flat in *.
    cbv beta iota delta [srcc Rc selfc inbox]. lia.
  Qed.
  Lemma A2' k : srcc d k -> ~ Rc d (negc d k).
  Proof.
    destruct k as [[x y] z]. destruct Hax as (Ax & Ay & Az). unfold axis, ev, flat in *.
    cbv beta iota delta [srcc negc Rc selfc inbox]. intros (Hx & Hy & Hz & HS).
    abs_neg x y z nx ny nz Hnx Hny Hnz. lia.
  Qed.
  Lemma A3 k : Rc d k -> negc d k = k.
  Proof.
    destruct k as [[x y] z]. destruct Hax as (Ax & Ay & Az). unfold axis, ev, flat in *.
    cbv beta iota delta [negc Rc selfc inbox]. intros ((Hx & Hy & Hz) & HS).
    abs_neg x y z nx ny nz Hnx Hny Hnz. apply triple_eq; lia.
  Qed.
  Lemma A4 k : srcc d k -> negc d (negc d k) = k.
  Proof. intro H. apply negc_invol. apply srcc_inbox. exact H. Qed.
  Lemma trichotomy k : inbox d k -> Rc d k \/ srcc d k \/ (srcc d (negc d k) /\ negc d (negc d k) = k).
  Proof.
    intro Hin. pose proof (negc_invol d k Hin) as Hinv.
    assert (H : Rc d k \/ srcc d k \/ srcc d (negc d k)); [|tauto].
    clear Hinv. revert Hin.
    destruct k as [[x y] z]. destruct Hax as (Ax & Ay & Az).
    cbv beta iota delta [srcc negc Rc selfc inbox]. intros (Hx & Hy & Hz).
    pose proof (axis_class _ _ x Ax Hx) as Cx. pose proof (axis_class _ _ y Ay Hy) as Cy. pose proof (axis_class _ _ z Az Hz) as Cz.
    clear Ax Ay Az.
    generalize dependent (neg1 (dx d) x); intros nx Cx.
    generalize dependent (neg1 (dy d) y); intros ny Cy.
    generalize dependent (neg1 (dz d) z); intros nz Cz.
    destruct Cz as [Cz|[Cz|Cz]].
    - destruct Cx as [Cx|[Cx|Cx]].
      + destruct Cy as [Cy|[Cy|Cy]].
        * left. lia.
        * right; left. lia.
        * right; right. lia.
      + right; left. lia.
      + right; right. lia.
    - right; left. lia.
    - right; right. lia.
  Qed.
End Arith.

(* ---------- membership in the loops ---------- *)
Ltac norm_in H :=
  first [ rewrite stride_ev in H by assumption; cbn [In] in H; destruct H as [H|[H|[]]]
        | apply in_zr in H
        | cbn [In] in H; destruct H as [H|[]] ].
(* H : In (Conj a b) (loop3 ...) or In (Zero c) (loop3 ...) *)
Ltac blk H :=
  let iz := fresh "iz" in let iy := fresh "iy" in let ix := fresh "ix" in
  let Hz := fresh "Hiz" in let Hy := fresh "Hiy" in let Hx := fresh "Hix" in let Ho := fresh "Ho" in
  apply in_loop3 in H; destruct H as (iz & iy & ix & Hz & Hy & Hx & Ho);
  first [ discriminate Ho
        | (inversion Ho; subst; clear Ho; norm_in Hz; norm_in Hy; norm_in Hx; subst) ].
Ltac in_cases H := repeat match type of H with In _ (_ ++ _) => apply in_app_or in H; destruct H as [H|H] end.

Ltac neg_solve :=
  first [ reflexivity | lia | apply neg1_eq; lia | symmetry; apply neg1_eq; lia ].
Ltac in_goal :=
  match goal with
  | |- In _ (stride _ _) => rewrite stride_ev by assumption; cbn [In]; lia
  | |- In _ (zr _ _) => apply in_zr; lia
  | |- In _ [_] => cbn [In]; lia
  end.
Ltac pick n :=
  match n with
  | O => match goal with |- In _ (_ ++ _) => apply in_or_app; left | |- _ => idtac end
  | S ?m => apply in_or_app; right; pick m
  end.
Ltac wit a b c :=
  apply in_loop3; exists a, b, c; split; [in_goal|split; [in_goal|split; [in_goal|]]].
Ltac op_eq := apply conj_eq; apply triple_eq; neg_solve.

(* ================= 1-D ================= *)
Section Sym1.
  Variable d : dims.
  Hypothesis Hx : ev (dx d) (hx d).
  Hypothesis Hy : flat (dy d) (hy d).
  Hypothesis Hz : flat (dz d) (hz d).

  Lemma sym1_G1 a b : In (Conj a b) (sym1 d) -> srcc d a /\ b = negc d a.
  Proof.
    destruct Hx as [Hx1 Hx2], Hy as [Hy1 Hy2], Hz as [Hz1 Hz2].
    unfold sym1. intro H. in_cases H; blk H.
    cbv beta iota delta [srcc negc]. split; [lia|]. apply triple_eq; neg_solve.
  Qed.
  Lemma sym1_G2 c : In (Zero c) (sym1 d) -> Rc d c.
  Proof.
    destruct Hx as [Hx1 Hx2], Hy as [Hy1 Hy2], Hz as [Hz1 Hz2].
    unfold sym1. intro H. in_cases H; blk H; cbv beta iota delta [Rc inbox selfc]; lia.
  Qed.
  Lemma sym1_G3 k : srcc d k -> In (Conj k (negc d k)) (sym1 d).
  Proof.
    destruct Hx as [Hx1 Hx2], Hy as [Hy1 Hy2], Hz as [Hz1 Hz2].
    destruct k as [[x y] z]. cbv beta iota delta [srcc negc]. intros (Bx & By & Bz & HS).
    assert (y = 0) by lia. assert (z = 0) by lia. subst y z.
    unfold sym1. pick 1%nat. wit 0 0 x. op_eq.
  Qed.
  Lemma sym1_G4 k : Rc d k -> In (Zero k) (sym1 d).
  Proof.
    destruct Hx as [Hx1 Hx2], Hy as [Hy1 Hy2], Hz as [Hz1 Hz2].
    destruct k as [[x y] z]. cbv beta iota delta [Rc inbox selfc]. intros ((Bx & By & Bz) & HS).
    assert (y = 0) by lia. assert (z = 0) by lia. subst y z.
    unfold sym1. pick 0%nat. wit 0 0 x. reflexivity.
  Qed.
End Sym1.

(* ================= 2-D (plane iz0 of a 2-D or 3-D array) ================= *)
Section Sym2.
  Variable d : dims.
  Hypothesis Hx : ev (dx d) (hx d).
  Hypothesis Hy : ev (dy d) (hy d).
  Variable iz0 : Z.
  (* the plane is self-conjugate along z *)
  Hypothesis Hz0 : 0 <= iz0 < dz d /\ (iz0 = 0 \/ iz0 = hz d) /\ neg1 (dz d) iz0 = iz0.

  Lemma sym2_G1 a b : In (Conj a b) (sym2 d iz0) -> srcc d a /\ b = negc d a.
  Proof.
    destruct Hx as [Hx1 Hx2], Hy as [Hy1 Hy2], Hz0 as (Hz1 & Hz2 & Hz3).
    unfold sym2. intro H. in_cases H; blk H;
      (cbv beta iota delta [srcc negc]; split; [lia|]; rewrite Hz3; apply triple_eq; first [reflexivity | neg_solve]).
  Qed.
  Lemma sym2_G2 c : In (Zero c) (sym2 d iz0) -> Rc d c.
  Proof.
    destruct Hx as [Hx1 Hx2], Hy as [Hy1 Hy2], Hz0 as (Hz1 & Hz2 & Hz3).
    unfold sym2. intro H. in_cases H; blk H; cbv beta iota delta [Rc inbox selfc]; lia.
  Qed.
  Lemma sym2_G3 x y : srcc d (x, y, iz0) -> In (Conj (x, y, iz0) (negc d (x, y, iz0))) (sym2 d iz0).
  Proof.
    destruct Hx as [Hx1 Hx2], Hy as [Hy1 Hy2], Hz0 as (Hz1 & Hz2 & Hz3).
    cbv beta iota delta [srcc negc]. intros (Bx & By & Bz & HS). rewrite Hz3.
    assert (HS' : 1 <= x < hx d \/ ((x = 0 \/ x = hx d) /\ 1 <= y < hy d)) by lia. clear HS.
    unfold sym2. destruct HS' as [Sx|[Sx Sy]].
    - destruct (Z.eq_dec y 0) as [Ey|Ey]; [|destruct (Z.eq_dec y (hy d)) as [Ey2|Ey2]; [|destruct (Z_lt_le_dec y (hy d)) as [Ly|Ly]]].
      + pick 2%nat. wit iz0 y x. op_eq.
      + pick 2%nat. wit iz0 y x. op_eq.
      + pick 3%nat. wit iz0 y x. op_eq.
      + pick 4%nat. wit iz0 (dy d - y) x. op_eq.
    - pick 1%nat. wit iz0 y x. op_eq.
  Qed.
  Lemma sym2_G4 x y : Rc d (x, y, iz0) -> In (Zero (x, y, iz0)) (sym2 d iz0).
  Proof.
    destruct Hx as [Hx1 Hx2], Hy as [Hy1 Hy2], Hz0 as (Hz1 & Hz2 & Hz3).
    cbv beta iota delta [Rc inbox selfc]. intros ((Bx & By & Bz) & HS).
    unfold sym2. pick 0%nat. wit iz0 y x. reflexivity.
  Qed.
  (* every operation of the plane stays in the plane *)
  Lemma sym2_plane o : In o (sym2 d iz0) -> match o with Zero (_, _, z) => z = iz0 | Conj (_, _, z) (_, _, z') => z = iz0 /\ z' = iz0 end.
  Proof.
    unfold sym2. intro H. in_cases H;
      (apply in_loop3 in H; destruct H as (iz & iy & ix & Hiz & _ & _ & Ho); cbn [In] in Hiz; destruct Hiz as [Hiz|[]]; subst; auto).
  Qed.
End Sym2.

(* ================= 3-D ================= *)
Section Sym3.
  Variable d : dims.
  Hypothesis Hx : ev (dx d) (hx d).
  Hypothesis Hy : ev (dy d) (hy d).
  Hypothesis Hz : ev (dz d) (hz d).

  Lemma plane0 : 0 <= 0 < dz d /\ (0 = 0 \/ 0 = hz d) /\ neg1 (dz d) 0 = 0.
  Proof. destruct Hz as [Hz1 Hz2]. split; [lia|]. split; [lia|]. apply neg1_0. lia. Qed.
  Lemma planeh : 0 <= hz d < dz d /\ (hz d = 0 \/ hz d = hz d) /\ neg1 (dz d) (hz d) = hz d.
  Proof. destruct Hz as [Hz1 Hz2]. split; [lia|]. split; [lia|]. apply neg1_eq; lia. Qed.

  Lemma sym3_G1 a b : In (Conj a b) (sym3 d) -> srcc d a /\ b = negc d a.
  Proof.
    pose proof plane0 as P0. pose proof planeh as Ph.
    destruct Hx as [Hx1 Hx2], Hy as [Hy1 Hy2], Hz as [Hz1 Hz2].
    unfold sym3. cbv zeta. intro H. in_cases H;
    [ rewrite stride_ev in H by assumption; cbn [flat_map] in H; in_cases H;
      [ exact (sym2_G1 d Hx Hy 0 P0 a b H) | exact (sym2_G1 d Hx Hy (hz d) Ph a b H) | destruct H ]
    | blk H; (cbv beta iota delta [srcc negc]; split; [lia|]; apply triple_eq; neg_solve) .. ].
  Qed.
  Lemma sym3_G2 c : In (Zero c) (sym3 d) -> Rc d c.
  Proof.
    pose proof plane0 as P0. pose proof planeh as Ph.
    destruct Hx as [Hx1 Hx2], Hy as [Hy1 Hy2], Hz as [Hz1 Hz2].
    unfold sym3. cbv zeta. intro H. in_cases H;
    [ rewrite stride_ev in H by assumption; cbn [flat_map] in H; in_cases H;
      [ exact (sym2_G2 d Hx Hy 0 P0 c H) | exact (sym2_G2 d Hx Hy (hz d) Ph c H) | destruct H ]
    | blk H .. ].
  Qed.
  Lemma sym3_G3 k : srcc d k -> In (Conj k (negc d k)) (sym3 d).
  Proof.
    pose proof plane0 as P0. pose proof planeh as Ph.
    destruct k as [[x y] z]. intro HS0. pose proof HS0 as HS. revert HS.
    destruct Hx as [Hx1 Hx2], Hy as [Hy1 Hy2], Hz as [Hz1 Hz2].
    cbv beta iota delta [srcc]. intros (Bx & By & Bz & HS).
    unfold sym3. cbv zeta.
    destruct (Z.eq_dec z 0) as [Ez|Ez]; [|destruct (Z.eq_dec z (hz d)) as [Ez2|Ez2]].
    - subst z. pick 0%nat. rewrite stride_ev by assumption. cbn [flat_map]. apply in_or_app. left.
      exact (sym2_G3 d Hx Hy 0 P0 x y HS0).
    - subst z. pick 0%nat. rewrite stride_ev by assumption. cbn [flat_map]. apply in_or_app. right. apply in_or_app. left.
      exact (sym2_G3 d Hx Hy (hz d) Ph x y HS0).
    - assert (Sz : 1 <= z < hz d) by lia. clear HS HS0.
      cbv beta iota delta [negc].
      assert (Cx : (x = 0 \/ x = hx d) \/ 1 <= x < hx d \/ hx d < x < dx d) by lia.
      assert (Cy : (y = 0 \/ y = hy d) \/ 1 <= y < hy d \/ hy d < y < dy d) by lia.
      destruct Cx as [Cx|[Cx|Cx]]; destruct Cy as [Cy|[Cy|Cy]].
      + pick 1%nat. wit z y x. op_eq.
      + pick 2%nat. wit z y x. op_eq.
      + pick 3%nat. wit z (dy d - y) x. op_eq.
      + pick 4%nat. wit z y x. op_eq.
      + pick 6%nat. wit z y x. op_eq.
      + pick 8%nat. wit z (dy d - y) x. op_eq.
      + pick 5%nat. wit z y (dx d - x). op_eq.
      + pick 9%nat. wit z y (dx d - x). op_eq.
      + pick 7%nat. wit z (dy d - y) (dx d - x). op_eq.
  Qed.
  Lemma sym3_G4 k : Rc d k -> In (Zero k) (sym3 d).
  Proof.
    pose proof plane0 as P0. pose proof planeh as Ph.
    destruct k as [[x y] z]. intro HR0. pose proof HR0 as HR. revert HR.
    destruct Hx as [Hx1 Hx2], Hy as [Hy1 Hy2], Hz as [Hz1 Hz2].
    cbv beta iota delta [Rc inbox selfc]. intros ((Bx & By & Bz) & (Sx & Sy & Sz)).
    unfold sym3. cbv zeta. pick 0%nat. rewrite stride_ev by assumption. cbn [flat_map].
    destruct Sz as [Sz|Sz]; subst z.
    - apply in_or_app. left. exact (sym2_G4 d Hx Hy 0 P0 x y HR0).
    - apply in_or_app. right. apply in_or_app. left. exact (sym2_G4 d Hx Hy (hz d) Ph x y HR0).
  Qed.
End Sym3.

(* ================= assembly ================= *)
Lemma ev_of a h : 1 <= h -> a = 2 * h -> ev a (a / 2).
Proof. intros Hh E. assert (a / 2 = h) by (subst a; rewrite Z.mul_comm; apply Z.div_mul; lia). unfold ev. lia. Qed.
Lemma flat_of a : a = 1 -> flat a (a / 2).
Proof. intro E. subst a. split; reflexivity. Qed.

(* what an operation list must satisfy (see Section Generic of Proofs_fft_ops) *)
Definition good_ops (d : dims) (l : list op) : Prop :=
  (forall a b, In (Conj a b) l -> srcc d a /\ b = negc d a) /\
  (forall c, In (Zero c) l -> Rc d c) /\
  (forall k, srcc d k -> In (Conj k (negc d k)) l) /\
  (forall k, Rc d k -> In (Zero k) l).

Lemma good_ops_hermitian d l u v :
  axes d -> good_ops d l ->
  herm_cell d (fst (run_ops l (u, v))) (snd (run_ops l (u, v))) /\
  (forall k, Rc d k -> fst (run_ops l (u, v)) k = u k /\ snd (run_ops l (u, v)) k = 0%Q) /\
  (forall k, srcc d k -> fst (run_ops l (u, v)) k = u k /\ snd (run_ops l (u, v)) k = v k).
Proof.
  intros Hax (G1 & G2 & G3 & G4).
  split; [|split].
  - intros k Hk.
    apply (gen_hermitian (negc d) (srcc d) (Rc d) l G1 G2 G3 G4 (A1 d Hax) (A2 d Hax) (A2' d Hax) (A3 d Hax) (A4 d) u v k).
    apply trichotomy; assumption.
  - intros k Hk. apply (gen_R (negc d) (srcc d) (Rc d) l G1 G4 (A2' d Hax) u v k Hk).
  - intros k Hk.
    destruct (gen_S (negc d) (srcc d) (Rc d) l G1 G2 G3 (A1 d Hax) (A2 d Hax) (A2' d Hax) (A4 d) u v k Hk) as (E1 & E2 & _).
    split; assumption.
Qed.

Lemma good_dims_ops ndim d : good_dims ndim d -> axes d /\ good_ops d (define_symmetry ndim d).
Proof.
  intros (Hn & (h0 & Hh0 & E0) & Hy & Hz).
  pose proof (ev_of _ _ Hh0 E0) as Ex. fold (hx d) in Ex.
  assert (C : ndim = 1 \/ ndim = 2 \/ ndim = 3) by lia.
  destruct C as [C|[C|C]]; subst ndim; cbn [Z.leb Z.compare Pos.compare Pos.compare_cont] in Hy, Hz.
  - pose proof (flat_of _ Hy) as Fy. pose proof (flat_of _ Hz) as Fz. fold (hy d) in Fy. fold (hz d) in Fz.
    split; [unfold axes, axis; tauto|].
    change (define_symmetry 1 d) with (sym1 d).
    split; [|split; [|split]]; intros.
    + apply sym1_G1; assumption.
    + apply sym1_G2; assumption.
    + apply sym1_G3; assumption.
    + apply sym1_G4; assumption.
  - destruct Hy as (h1 & Hh1 & E1). pose proof (ev_of _ _ Hh1 E1) as Ey. fold (hy d) in Ey.
    pose proof (flat_of _ Hz) as Fz. fold (hz d) in Fz.
    split; [unfold axes, axis; tauto|].
    change (define_symmetry 2 d) with (sym2 d 0).
    assert (P0 : 0 <= 0 < dz d /\ (0 = 0 \/ 0 = hz d) /\ neg1 (dz d) 0 = 0).
    { destruct Fz as [F1 F2]. split; [lia|]. split; [lia|]. apply neg1_0. lia. }
    assert (Z0 : forall x y z, inbox d (x, y, z) -> z = 0).
    { intros x y z. cbv beta iota delta [inbox]. destruct Fz as [F1 F2]. lia. }
    split; [|split; [|split]].
    + intros a b H. exact (sym2_G1 d Ex Ey 0 P0 a b H).
    + intros c H. exact (sym2_G2 d Ex Ey 0 P0 c H).
    + intros [[x y] z] H. pose proof (Z0 x y z (srcc_inbox d _ H)). subst z. exact (sym2_G3 d Ex Ey 0 P0 x y H).
    + intros [[x y] z] H. pose proof (Z0 x y z (proj1 H)). subst z. exact (sym2_G4 d Ex Ey 0 P0 x y H).
  - destruct Hy as (h1 & Hh1 & E1). pose proof (ev_of _ _ Hh1 E1) as Ey. fold (hy d) in Ey.
    destruct Hz as (h2 & Hh2 & E2). pose proof (ev_of _ _ Hh2 E2) as Ez. fold (hz d) in Ez.
    split; [unfold axes, axis; tauto|].
    change (define_symmetry 3 d) with (sym3 d).
    split; [|split; [|split]]; intros.
    + apply sym3_G1; assumption.
    + apply sym3_G2; assumption.
    + apply sym3_G3; assumption.
    + apply sym3_G4; assumption.
Qed.

(* MAIN: for all even dimensions (1-D, 2-D, 3-D), after _defineSymmetry the arrays are Hermitian in the (ix,iy,iz) coordinates,
   the self-conjugate cells are real and keep their real part, the source cells keep both parts *)
Theorem define_symmetry_hermitian ndim d u v :
  good_dims ndim d ->
  let s := run_ops (define_symmetry ndim d) (u, v) in
  herm_cell d (fst s) (snd s) /\
  (forall k, Rc d k -> fst s k = u k /\ snd s k = 0%Q) /\
  (forall k, srcc d k -> fst s k = u k /\ snd s k = v k).
Proof.
  intro H. destruct (good_dims_ops ndim d H) as [Hax Hg]. cbv zeta. apply good_ops_hermitian; assumption.
Qed.

(* C14 / part fft : _getFactors / _getOptimalEvenNumber: termination with the given fuel, exact factorisation into primes,
   result even, >= number, < 2 number + 2, every prime factor <= largeFactor, smallest such even number. *)
From Coq Require Import List ZArith Znumtheory Zpow_facts Bool Lia.
From Gst Require Import C14.FFT.
Import ListNotations.
Local Open Scope Z_scope.

Lemma list_prod_app a b : list_prod (a ++ b) = list_prod a * list_prod b.
Proof.
  induction a as [|x a IH].
  - change (list_prod ([] ++ b)) with (list_prod b). change (list_prod []) with 1. lia.
  - change (list_prod ((x :: a) ++ b)) with (x * list_prod (a ++ b)). change (list_prod (x :: a)) with (x * list_prod a).
    rewrite IH. ring.
Qed.
Lemma list_prod_cons x a : list_prod (x :: a) = x * list_prod a.
Proof. reflexivity. Qed.
Lemma list_prod_rev a : list_prod (rev a) = list_prod a.
Proof.
  induction a as [|x a IH]; [reflexivity|].
  change (rev (x :: a)) with (rev a ++ [x]). rewrite list_prod_app, IH, !list_prod_cons.
  change (list_prod []) with 1. ring.
Qed.
Lemma in_divides_prod f l : In f l -> (f | list_prod l).
Proof.
  induction l as [|x l IH]; [intros []|intros [H|H]]; rewrite list_prod_cons.
  - subst x. apply Z.divide_factor_l.
  - apply Z.divide_mul_r. apply IH. exact H.
Qed.

(* C++ % and / on non-negative operands *)
Lemma rem_quot_pos local j : 1 <= local -> 2 <= j ->
  Z.rem local j = local mod j /\ Z.quot local j = local / j.
Proof. intros. split; [apply Z.rem_mod_nonneg|apply Z.quot_div_nonneg]; lia. Qed.

(* the inner while loop *)
Lemma div_out_spec fuel : forall j local acc,
  2 <= j -> 1 <= local -> local < Z.of_nat fuel ->
  exists local' acc', div_out fuel j local acc = Some (local', acc') /\
    1 <= local' <= local /\ (local' | local) /\
    local' * list_prod acc' = local * list_prod acc /\
    ~ (j | local') /\
    (forall f, In f acc' -> In f acc \/ (f = j /\ (j | local))).
Proof.
  induction fuel as [|fuel IH]; intros j local acc Hj Hl Hf; [lia|].
  destruct (rem_quot_pos local j Hl Hj) as [Er Eq]. simpl. rewrite Er, Eq.
  destruct (Z.eqb_spec (local mod j) 0) as [E|E].
  - assert (Hloc : local = j * (local / j)) by (apply Z.div_exact; lia).
    assert (Hq : 1 <= local / j < local) by nia.
    destruct (IH j (local / j) (j :: acc) Hj (proj1 Hq) ltac:(lia)) as (l' & a' & E1 & B & D & P & N & I).
    exists l', a'. split; [exact E1|].
    assert (Hjl : (j | local)) by (exists (local / j); lia).
    split; [lia|]. split; [apply (Z.divide_trans _ _ _ D); exists j; lia|].
    split; [rewrite P; simpl; nia|]. split; [exact N|].
    intros f Hi. destruct (I f Hi) as [[Hi'|Hi']|[Hi' _]]; auto.
  - exists local, acc. split; [reflexivity|]. split; [lia|]. split; [apply Z.divide_refl|]. split; [reflexivity|].
    split; [intro D; apply E; apply Z.mod_divide; [lia|exact D]|]. intros f Hi. left; exact Hi.
Qed.

(* no divisor in [2, j) *)
Definition nodiv (j local : Z) : Prop := forall q, 2 <= q < j -> ~ (q | local).

Lemma nodiv_prime j local : 2 <= j -> nodiv j local -> (j | local) -> prime j.
Proof.
  intros Hj Hn Hd. apply prime_alt. split; [lia|]. intros n Hn1 Hn2. apply (Hn n ltac:(lia)).
  apply (Z.divide_trans _ _ _ Hn2 Hd).
Qed.

(* the do-while loop over the odd candidates *)
Lemma odd_loop_spec fuel : forall fin j local acc,
  3 <= j -> Z.odd j = true -> 1 <= local -> local < Z.of_nat fin -> (0 < fuel)%nat /\ local - j < 2 * Z.of_nat fuel - 1 ->
  nodiv j local -> Forall prime acc ->
  exists acc', odd_loop fuel fin j local acc = Some (1, acc') /\
    list_prod acc' = local * list_prod acc /\ Forall prime acc' /\
    (forall f, In f acc' -> In f acc \/ (3 <= f /\ Z.odd f = true)).
Proof.
  induction fuel as [|fuel IH]; intros fin j local acc Hj Hodd Hl Hfin Hf Hn Hp; [lia|].
  simpl.
  destruct (div_out_spec fin j local acc ltac:(lia) Hl Hfin) as (l' & a' & E1 & B & D & P & N & I).
  rewrite E1.
  assert (Hn' : nodiv (j + 2) l').
  { intros q Hq Hd.
    destruct (Z.eq_dec q j) as [->|Hqj]; [exact (N Hd)|].
    destruct (Z.eq_dec q (j + 1)) as [->|Hqj1].
    - apply (Hn 2 ltac:(lia)). apply (Z.divide_trans _ l'); [|exact D].
      apply (Z.divide_trans _ (j + 1)); [|exact Hd].
      assert (Hev : Z.even (j + 1) = true) by (rewrite Z.add_1_r, Z.even_succ; exact Hodd).
      apply Z.even_spec in Hev. destruct Hev as [m Hm]. exists m. lia.
    - apply (Hn q ltac:(lia)). apply (Z.divide_trans _ _ _ Hd D). }
  assert (Hp' : Forall prime a').
  { apply Forall_forall. intros f Hi. destruct (I f Hi) as [Hi'|[-> Hd]].
    - rewrite Forall_forall in Hp. apply Hp; exact Hi'.
    - apply (nodiv_prime j local); [lia|exact Hn|exact Hd]. }
  assert (HI' : forall f, In f a' -> In f acc \/ (3 <= f /\ Z.odd f = true)).
  { intros f Hi. destruct (I f Hi) as [Hi'|[-> _]]; [left; exact Hi'|right; split; [lia|exact Hodd]]. }
  destruct (Z.leb_spec (j + 2) l') as [Hc|Hc].
  - assert (Hodd' : Z.odd (j + 2) = true).
    { replace (j + 2) with (Z.succ (Z.succ j)) by lia. rewrite Z.odd_succ, Z.even_succ. exact Hodd. }
    destruct (IH fin (j + 2) l' a' ltac:(lia) Hodd' ltac:(lia) ltac:(lia) ltac:(lia) Hn' Hp') as (a'' & E2 & P2 & F2 & I2).
    exists a''. split; [exact E2|]. split; [rewrite P2, P; reflexivity|]. split; [exact F2|].
    intros f Hi. destruct (I2 f Hi) as [Hi'|Hi']; [apply HI'; exact Hi'|right; exact Hi'].
  - (* exit: l' < j + 2 and no divisor of l' in [2, j+2): l' = 1 *)
    assert (l' = 1).
    { destruct (Z.eq_dec l' 1) as [E|E]; [exact E|]. exfalso. apply (Hn' l' ltac:(lia)). apply Z.divide_refl. }
    subst l'. exists a'. split; [reflexivity|]. split; [lia|]. split; [exact Hp'|exact HI'].
Qed.

Lemma fuel_of_pos n : 1 <= n -> n < Z.of_nat (fuel_of n).
Proof. intro H. unfold fuel_of. rewrite Z.abs_eq by lia. lia. Qed.

(* _getFactors: total on number >= 1, exact prime factorisation (or [1] for number = 1) *)
Theorem get_factors_spec number : 1 <= number ->
  exists fs, get_factors number = Some fs /\ list_prod fs = number /\
    (number = 1 /\ fs = [1] \/ 2 <= number /\ Forall prime fs) /\
    (forall f, In f fs -> (f | number) /\ (f = 1 \/ f = 2 \/ (3 <= f /\ Z.odd f = true))).
Proof.
  intro Hn. unfold get_factors.
  pose proof (fuel_of_pos number Hn) as Hfu.
  destruct (div_out_spec (fuel_of number) 2 number [] ltac:(lia) Hn Hfu) as (l1 & a1 & E1 & B1 & D1 & P1 & N1 & I1).
  rewrite E1.
  assert (Hp1 : Forall prime a1).
  { apply Forall_forall. intros f Hi. destruct (I1 f Hi) as [[]|[-> _]]. exact prime_2. }
  assert (Hn1 : nodiv 3 l1).
  { intros q Hq Hd. assert (q = 2) by lia. subst q. exact (N1 Hd). }
  destruct (odd_loop_spec (fuel_of number) (fuel_of number) 3 l1 a1 ltac:(lia) eq_refl ltac:(lia) ltac:(lia) ltac:(lia) Hn1 Hp1)
    as (a2 & E2 & P2 & F2 & I2).
  rewrite E2.
  assert (Hprod : list_prod a2 = number) by (rewrite P2, P1; simpl; lia).
  assert (Hel : forall f, In f a2 -> f = 2 \/ (3 <= f /\ Z.odd f = true)).
  { intros f Hi. destruct (I2 f Hi) as [Hi'|Hi']; [|right; exact Hi']. destruct (I1 f Hi') as [[]|[-> _]]. left; reflexivity. }
  destruct a2 as [|x a2].
  - exists [1]. split; [reflexivity|]. simpl in Hprod. split; [simpl; lia|]. split; [left; split; [lia|reflexivity]|].
    intros f [<-|[]]. split; [apply Z.divide_1_l|left; reflexivity].
  - exists (rev (x :: a2)). split; [reflexivity|]. split; [rewrite list_prod_rev; exact Hprod|].
    assert (Hge : 2 <= number).
    { assert (Hx : (x | number)) by (rewrite <- Hprod; apply in_divides_prod; left; reflexivity).
      assert (2 <= x) by (destruct (Hel x (or_introl eq_refl)); lia).
      apply Z.divide_pos_le in Hx; lia. }
    split; [right; split; [exact Hge|]|].
    + apply Forall_forall. intros f Hi. apply in_rev in Hi. rewrite Forall_forall in F2. apply F2; exact Hi.
    + intros f Hi. apply in_rev in Hi. split; [rewrite <- Hprod; apply in_divides_prod; exact Hi|right; apply Hel; exact Hi].
Qed.

(* _getFactors(0) does not terminate: the model runs out of any fuel *)
Lemma Zrem0 j : Z.rem 0 j = 0. Proof. destruct j; reflexivity. Qed.
Lemma Zquot0 j : Z.quot 0 j = 0. Proof. destruct j; reflexivity. Qed.
Lemma div_out_zero fuel j acc : div_out fuel j 0 acc = None.
Proof.
  revert acc. induction fuel as [|fuel IH]; intro acc; [reflexivity|].
  change (div_out (S fuel) j 0 acc) with (if Z.rem 0 j =? 0 then div_out fuel j (Z.quot 0 j) (j :: acc) else Some (0, acc)).
  rewrite Zrem0, Zquot0. apply IH.
Qed.
Lemma get_factors_zero : get_factors 0 = None.
Proof. unfold get_factors. rewrite div_out_zero. reflexivity. Qed.

(* an odd number >= 3 does not divide a power of two *)
Lemma odd_not_div_pow2 f k : 3 <= f -> Z.odd f = true -> 0 <= k -> ~ (f | 2 ^ k).
Proof.
  intros Hf Ho Hk Hd.
  assert (Hnd : ~ (2 | f)).
  { intros [m Hm]. rewrite Hm, Z.odd_mul in Ho. simpl in Ho. rewrite andb_false_r in Ho. discriminate. }
  pose proof (prime_rel_prime 2 prime_2 f Hnd) as Hr. apply rel_prime_sym in Hr.
  pose proof (rel_prime_Zpower_r k f 2 Hk Hr) as Hr2.
  destruct Hr2 as [_ _ Hg]. specialize (Hg f (Z.divide_refl f) Hd).
  apply Z.divide_1_r_nonneg in Hg; lia.
Qed.

Lemma existsb_false_le large fs : existsb (fun x => large <? x) fs = false <-> (forall f, In f fs -> f <= large).
Proof.
  induction fs as [|x fs IH]; simpl.
  - split; [intros _ f []|reflexivity].
  - rewrite orb_false_iff, IH. destruct (Z.ltb_spec large x); split.
    + intros [H1 _]; discriminate.
    + intro H1. specialize (H1 x (or_introl eq_refl)). lia.
    + intros [_ H1] f [<-|Hi]; [lia|apply H1; exact Hi].
    + intro H1. split; [reflexivity|]. intros f Hi. apply H1. right; exact Hi.
Qed.

(* what _getOptimalEvenNumber accepts *)
Definition accepted (large r : Z) : Prop :=
  exists fs, get_factors r = Some fs /\ list_prod fs = r /\ Forall prime fs /\ (forall f, In f fs -> f <= large).
Definition rejected (large m : Z) : Prop :=
  exists f, prime f /\ (f | m) /\ large < f.

Lemma opt_loop_spec large P k : 2 <= large -> P = 2 ^ k -> 1 <= k ->
  forall fuel local, Z.even local = true -> 2 <= local <= P -> P - local < 2 * Z.of_nat fuel ->
  exists r, opt_loop fuel large local = Some r /\ local <= r <= P /\ Z.even r = true /\ accepted large r /\
    (forall m, local <= m < r -> Z.even m = true -> rejected large m).
Proof.
  intros Hlarge HP Hk. induction fuel as [|fuel IH]; intros local Hev Hl Hf; [lia|].
  simpl. destruct (get_factors_spec local ltac:(lia)) as (fs & E & Pr & Hkind & Hel). rewrite E.
  assert (Hpr : Forall prime fs) by (destruct Hkind as [[? _]|[_ ?]]; [lia|assumption]).
  destruct (existsb (fun x => large <? x) fs) eqn:Ex.
  - (* rejected: some factor > large; then local < P since the factors of a power of two are all 2 *)
    apply existsb_exists in Ex. destruct Ex as (f & Hi & Hlt). apply Z.ltb_lt in Hlt.
    assert (Hrej : rejected large local).
    { exists f. rewrite Forall_forall in Hpr. split; [apply Hpr; exact Hi|]. split; [apply Hel; exact Hi|exact Hlt]. }
    assert (Hne : local <> P).
    { intro Eq. destruct (Hel f Hi) as [Hd [H1|[H1|[H1 H2]]]]; try lia.
      apply (odd_not_div_pow2 f k H1 H2 ltac:(lia)). rewrite <- HP, <- Eq. exact Hd. }
    assert (HevP : Z.even P = true) by (rewrite HP; replace k with (Z.succ (k - 1)) by lia; rewrite Z.pow_succ_r by lia; apply Z.even_mul).
    assert (Hl2 : local + 2 <= P).
    { apply Z.even_spec in Hev. apply Z.even_spec in HevP. destruct Hev as [a Ha], HevP as [b Hb]. lia. }
    assert (Hev2 : Z.even (local + 2) = true).
    { replace (local + 2) with (Z.succ (Z.succ local)) by lia. rewrite Z.even_succ, Z.odd_succ. exact Hev. }
    destruct (IH (local + 2) Hev2 ltac:(lia) ltac:(lia)) as (r & E2 & B & Er & Ha & Hm).
    exists r. split; [exact E2|]. split; [lia|]. split; [exact Er|]. split; [exact Ha|].
    intros m Hm1 Hm2. destruct (Z.eq_dec m local) as [->|Hne2]; [exact Hrej|].
    destruct (Z.eq_dec m (local + 1)) as [->|Hne3].
    + exfalso. replace (local + 1) with (Z.succ local) in Hm2 by lia. rewrite Z.even_succ in Hm2.
      rewrite <- Z.negb_even, Hev in Hm2. discriminate.
    + apply Hm; [lia|exact Hm2].
  - exists local. split; [reflexivity|]. split; [lia|]. split; [exact Hev|]. split.
    + exists fs. split; [exact E|]. split; [exact Pr|]. split; [exact Hpr|]. apply existsb_false_le. exact Ex.
    + intros m Hm. lia.
Qed.

(* MAIN: _getOptimalEvenNumber(number, large) for number >= 1, large >= 2 *)
Theorem get_optimal_even_spec number large : 1 <= number -> 2 <= large ->
  exists r, get_optimal_even number large = Some r /\
    Z.even r = true /\ number <= r < 2 * number + 2 /\
    accepted large r /\
    (forall p, prime p -> (p | r) -> p <= large) /\
    (forall m, number <= m < r -> Z.even m = true -> rejected large m).
Proof.
  intros Hn Hlarge. unfold get_optimal_even.
  rewrite (proj1 (rem_quot_pos number 2 Hn ltac:(lia))).
  set (local := if number mod 2 =? 1 then number + 1 else number).
  assert (Hloc : Z.even local = true /\ number <= local <= number + 1 /\ (forall m, number <= m < local -> Z.even m = false)).
  { unfold local. pose proof (Z.mod_pos_bound number 2 ltac:(lia)) as Hb.
    pose proof (Z.div_mod number 2 ltac:(lia)) as Hdm.
    destruct (Z.eqb_spec (number mod 2) 1) as [E|E].
    - assert (Ho : Z.odd number = true) by (apply Z.odd_spec; exists (number / 2); lia).
      split; [rewrite Z.add_1_r, Z.even_succ; exact Ho|]. split; [lia|].
      intros m Hm. assert (m = number) by lia. subst m. rewrite <- Z.negb_odd, Ho. reflexivity.
    - split; [apply Z.even_spec; exists (number / 2); lia|]. split; [lia|]. intros m Hm. lia. }
  destruct Hloc as (Hev & Hb & Hbelow).
  assert (Hl2 : 2 <= local).
  { destruct (Z.eq_dec local 1) as [E|E]; [rewrite E in Hev; discriminate|lia]. }
  set (k := Z.log2_up local).
  assert (Hk : 1 <= k) by (unfold k; pose proof (Z.log2_up_pos local ltac:(lia)); lia).
  destruct (Z.log2_up_spec local ltac:(lia)) as [Hk1 Hk2]. fold k in Hk1, Hk2.
  assert (HP2 : 2 ^ k = 2 * 2 ^ (Z.pred k)).
  { replace k with (Z.succ (Z.pred k)) at 1 by lia. apply Z.pow_succ_r. lia. }
  destruct (opt_loop_spec large (2 ^ k) k Hlarge eq_refl Hk (fuel_of local) local Hev ltac:(lia))
    as (r & E & B & Er & Ha & Hm).
  { pose proof (fuel_of_pos local ltac:(lia)). lia. }
  exists r. split; [exact E|]. split; [exact Er|]. split; [lia|]. split; [exact Ha|]. split.
  - destruct Ha as (fs & _ & Pr & Hpr & Hle). intros p Hp Hd. rewrite <- Pr in Hd.
    clear - Hp Hd Hle Hpr. induction fs as [|x fs IH]; simpl in Hd.
    + apply Z.divide_1_r_nonneg in Hd; [|destruct Hp; lia]. destruct Hp; lia.
    + apply prime_mult in Hd; [|exact Hp]. inversion Hpr as [|x' fs' Hx1 Hx2]; subst. destruct Hd as [Hd|Hd].
      * assert (Hx : x <= large) by (apply Hle; left; reflexivity).
        assert (2 <= x) by (destruct Hx1; lia).
        apply Z.divide_pos_le in Hd; lia.
      * apply IH; [exact Hx2| |exact Hd]. intros f Hi. apply Hle. right; exact Hi.
  - intros m Hm1 Hm2. destruct (Z_lt_le_dec m local) as [Hlt|Hge].
    + rewrite (Hbelow m ltac:(lia)) in Hm2. discriminate.
    + apply Hm; [lia|exact Hm2].
Qed.

(* the extended dimensions chosen by _alloc (CalcSimuFFT.cpp:110-123) are valid for the symmetry theorems *)
Lemma even_axis r : 1 <= r -> Z.even r = true -> exists h, 1 <= h /\ r = 2 * h.
Proof. intros Hr He. apply Z.even_spec in He. destruct He as [h Hh]. exists h. lia. Qed.
Theorem alloc_dims_good a b c : 1 <= a -> 1 <= b -> 1 <= c ->
  exists ra rb rc, get_optimal_even a 11 = Some ra /\ get_optimal_even b 11 = Some rb /\ get_optimal_even c 11 = Some rc /\
    good_dims 3 (mkD ra rb rc) /\ good_dims 2 (mkD ra rb 1) /\ good_dims 1 (mkD ra 1 1).
Proof.
  intros Ha Hb Hc.
  destruct (get_optimal_even_spec a 11 Ha ltac:(lia)) as (ra & Ea & Eva & Ba & _).
  destruct (get_optimal_even_spec b 11 Hb ltac:(lia)) as (rb & Eb & Evb & Bb & _).
  destruct (get_optimal_even_spec c 11 Hc ltac:(lia)) as (rc & Ec & Evc & Bc & _).
  exists ra, rb, rc. repeat split; try assumption; try lia; simpl; try (apply even_axis; [lia|assumption]).
Qed.

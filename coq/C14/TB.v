(* C14 / TB : the assembly of a turning-bands simulation as a formal linear combination of band processes.
   Mirrors CalcSimuTurningBands::_simulatePoint / _simulateGrid (CalcSimuTurningBands.cpp:1085-1374), the final
   "Normation" by norme = sqrt(1/nbtuba), _simulateNugget (1573-1615), _getAIC (1617-1624) and _createAIC (915-951).

     out[x][j] = norme * sum_{ivar < nvar} sum_{is < ncov} sum_{ib < nbtuba}  tab_{ivar,is,ib}[x] * correc_{ivar,is,ib} * AIC(is, j, ivar)
                 (+ mean_j)  + sum_{ivar} sum_{is nugget} g_{ivar,is}[x] * AIC(is, j, ivar)

   Proof level: everything is a function of naturals; points are sample ranks (nat). *)
From Coq Require Import List Arith ZArith QArith Bool Lqa Lia Setoid Morphisms.
From Gst Require Import lib.QAux lib.LinAlgQ C14.L2.
Import ListNotations.
Local Open Scope Q_scope.

(* ---------------------------------------------------------------------------------------------------------- *)
(* 1. the coefficient matrices of _createAIC                                                                   *)
(* ---------------------------------------------------------------------------------------------------------- *)
(* V a b = vecpro->getValue(a, b): component a of eigenvector b (AMatrixDense::_terminateEigen stores the solver's
   eigenvectors as COLUMNS); sq k = sqrt(valpro[k]).
   CalcSimuTurningBands.cpp:947   aic[icov*nvar*nvar + ivar + nvar*jvar] = vecpro->getValue(ivar, jvar) * sqrt(valpro[ivar])
   CalcSimuTurningBands.cpp:1623  _getAIC(aic, icov, a, b) = aic[b + nvar*(a + nvar*icov)], used as _getAIC(aic, is, jvar, ivar):
   the coefficient of the band family ivar in the output variable jvar is  V ivar jvar * sq ivar. *)
Definition aic_code (V : fmat) (sq : fvec) : fmat := fun jvar ivar => V ivar jvar * sq ivar.
(* what makes M.t(M) the sill: M = V.diag(sq) *)
Definition aic_fixed (V : fmat) (sq : fvec) : fmat := fun jvar ivar => V jvar ivar * sq ivar.
(* Gram matrix (M.t(M))_{j j'} : the multivariate covariance produced at a point by unit independent band families *)
Definition gram (n : nat) (M : fmat) : fmat := fun j j' => sumn n (fun i => M j i * M j' i).

(* the oracle's eigen-pairs reproduce the sill matrix exactly:  S = V.diag(lam).t(V)  *)
Definition exact_decomp (n : nat) (S : fmat) (lam : fvec) (V : fmat) : Prop :=
  forall j j', (j < n)%nat -> (j' < n)%nat -> S j j' == sumn n (fun k => lam k * V j k * V j' k).
Definition is_sqrt (n : nat) (sq lam : fvec) : Prop := forall k, (k < n)%nat -> sq k * sq k == lam k.

Lemma gram_fixed n S lam V sq : exact_decomp n S lam V -> is_sqrt n sq lam ->
  forall j j', (j < n)%nat -> (j' < n)%nat -> gram n (aic_fixed V sq) j j' == S j j'.
Proof.
  intros HS Hq j j' Hj Hj'. rewrite (HS j j' Hj Hj'). unfold gram, aic_fixed. apply sumn_ext. intros k Hk.
  rewrite <- (Hq k Hk). ring.
Qed.

(* the code as it is: t(V).diag(lam).V *)
Lemma gram_code n lam V sq : is_sqrt n sq lam ->
  forall j j', gram n (aic_code V sq) j j' == sumn n (fun k => lam k * V k j * V k j').
Proof. intros Hq j j'. unfold gram, aic_code. apply sumn_ext. intros k Hk. rewrite <- (Hq k Hk). ring. Qed.

(* ... which is the sill when the eigenvector matrix happens to be symmetric (e.g. a 2x2 reflection) *)
Lemma gram_code_symV n S lam V sq : exact_decomp n S lam V -> is_sqrt n sq lam -> fsym n V ->
  forall j j', (j < n)%nat -> (j' < n)%nat -> gram n (aic_code V sq) j j' == S j j'.
Proof.
  intros HS Hq Hsym j j' Hj Hj'. rewrite gram_code by exact Hq. rewrite (HS j j' Hj Hj'). apply sumn_ext. intros k Hk.
  rewrite (Hsym k j Hk Hj), (Hsym k j' Hk Hj'). reflexivity.
Qed.

Lemma inject_nat_pos n : (0 < n)%nat -> 0 < inject_Z (Z.of_nat n).
Proof. intro H. unfold Qlt, inject_Z. cbn [Qnum Qden]. lia. Qed.

(* ---------------------------------------------------------------------------------------------------------- *)
(* 2. assembly                                                                                                  *)
(* ---------------------------------------------------------------------------------------------------------- *)
Section Assembly.
Variable N : nat.                               (* number of elementary draws behind all the band processes *)
Variables nvar ncov nb : nat.                   (* variables, basic structures, bands per structure (nbtuba) *)
Variable T : nat -> nat -> nat -> nat -> rv.    (* T ivar is ib x : value spread by band (ivar,is,ib) at sample x  (tab[x]) *)
Variable correc : nat -> nat -> nat -> Q.       (* ivar is ib *)
Variable A : nat -> fmat.                       (* A is jvar ivar = _getAIC(aic, is, jvar, ivar) *)
Variable norme : Q.
Local Notation cov := (cov N).

(* the contribution of one band family to variable j at x *)
Definition band_term (j x ivar is ib : nat) : rv := rscal (correc ivar is ib * A is j ivar) (T ivar is ib x).
Definition struct_term (j x ivar is : nat) : rv := rsum nb (band_term j x ivar is).
Definition var_term (j x ivar : nat) : rv := rsum ncov (struct_term j x ivar).
(* the simulated (centred) value of variable j at sample x after the normation *)
Definition tb_out (j x : nat) : rv := rscal norme (rsum nvar (var_term j x)).

(* band processes of different (ivar, is, ib) are built from different draws *)
Hypothesis T_orth : forall i s b i' s' b' x y,
  (i < nvar)%nat -> (i' < nvar)%nat -> (s < ncov)%nat -> (s' < ncov)%nat -> (b < nb)%nat -> (b' < nb)%nat ->
  (i, s, b) <> (i', s', b') -> cov (T i s b x) (T i' s' b' y) == 0.
(* covariance of one band process between two samples *)
Variable c : nat -> nat -> nat -> nat -> nat -> Q.     (* c ivar is ib x y *)
Hypothesis T_cov : forall i s b x y, (i < nvar)%nat -> (s < ncov)%nat -> (b < nb)%nat ->
  cov (T i s b x) (T i s b y) == c i s b x y.

Lemma cov_band_term j j' x y i s b i' s' b' :
  (i < nvar)%nat -> (i' < nvar)%nat -> (s < ncov)%nat -> (s' < ncov)%nat -> (b < nb)%nat -> (b' < nb)%nat ->
  (i, s, b) <> (i', s', b') -> cov (band_term j x i s b) (band_term j' y i' s' b') == 0.
Proof.
  intros. unfold band_term. rewrite cov_scal_l, cov_scal_r, T_orth by assumption. ring.
Qed.

Lemma cov_struct_term_diff j j' x y i s i' s' :
  (i < nvar)%nat -> (i' < nvar)%nat -> (s < ncov)%nat -> (s' < ncov)%nat -> (i, s) <> (i', s') ->
  cov (struct_term j x i s) (struct_term j' y i' s') == 0.
Proof.
  intros Hi Hi' Hs Hs' Hne. unfold struct_term. rewrite cov_rsum_rsum.
  apply sumn_zero. intros b Hb. apply sumn_zero. intros b' Hb'.
  apply cov_band_term; try assumption. intro E. apply Hne. congruence.
Qed.

Lemma cov_struct_term_same j j' x y i s : (i < nvar)%nat -> (s < ncov)%nat ->
  cov (struct_term j x i s) (struct_term j' y i s) ==
  A s j i * A s j' i * sumn nb (fun b => correc i s b * correc i s b * c i s b x y).
Proof.
  intros Hi Hs. unfold struct_term. rewrite cov_orthogonal_sum.
  - rewrite <- sumn_scal_l. apply sumn_ext. intros b Hb. unfold band_term.
    rewrite cov_scal_l, cov_scal_r, T_cov by assumption. ring.
  - intros b b' Hb Hb' Hne. apply cov_band_term; try assumption. intro E. apply Hne. congruence.
Qed.

Lemma cov_var_term_diff j j' x y i i' : (i < nvar)%nat -> (i' < nvar)%nat -> i <> i' ->
  cov (var_term j x i) (var_term j' y i') == 0.
Proof.
  intros Hi Hi' Hne. unfold var_term. rewrite cov_rsum_rsum.
  apply sumn_zero. intros s Hs. apply sumn_zero. intros s' Hs'.
  apply cov_struct_term_diff; try assumption. intro E. apply Hne. congruence.
Qed.

Lemma cov_var_term_same j j' x y i : (i < nvar)%nat ->
  cov (var_term j x i) (var_term j' y i) ==
  sumn ncov (fun s => A s j i * A s j' i * sumn nb (fun b => correc i s b * correc i s b * c i s b x y)).
Proof.
  intro Hi. unfold var_term. rewrite cov_orthogonal_sum.
  - apply sumn_ext. intros s Hs. apply cov_struct_term_same; assumption.
  - intros s s' Hs Hs' Hne. apply cov_struct_term_diff; try assumption. intro E. apply Hne. congruence.
Qed.

(* (i) general form: no hypothesis on AIC, the bands of the different variables may have different covariances *)
Theorem tb_cov_general j j' x y :
  cov (tb_out j x) (tb_out j' y) ==
  norme * norme * sumn nvar (fun i => sumn ncov (fun s =>
     A s j i * A s j' i * sumn nb (fun b => correc i s b * correc i s b * c i s b x y))).
Proof.
  unfold tb_out. rewrite cov_scal_both. apply Qmult_comp; [reflexivity|].
  rewrite cov_orthogonal_sum.
  - apply sumn_ext. intros i Hi. apply cov_var_term_same; exact Hi.
  - intros i i' Hi Hi' Hne. apply cov_var_term_diff; assumption.
Qed.

(* the band families of the different variables are identically distributed: K is x y = sum_b correc^2 c *)
Variable K : nat -> nat -> nat -> Q.
Hypothesis K_def : forall i s x y, (i < nvar)%nat -> (s < ncov)%nat ->
  sumn nb (fun b => correc i s b * correc i s b * c i s b x y) == K s x y.
(* AIC.t(AIC) = sill, structure by structure *)
Variable sill : nat -> fmat.
Hypothesis A_gram : forall s j j', (s < ncov)%nat -> gram nvar (A s) j j' == sill s j j'.

Theorem tb_cov_sill j j' x y :
  cov (tb_out j x) (tb_out j' y) == sumn ncov (fun s => sill s j j' * (norme * norme * K s x y)).
Proof.
  rewrite tb_cov_general.
  rewrite (sumn_ext nvar _ (fun i => sumn ncov (fun s => A s j i * A s j' i * K s x y))).
  2:{ intros i Hi. apply sumn_ext. intros s Hs. rewrite (K_def i s x y Hi Hs). reflexivity. }
  rewrite sumn_swap. rewrite <- sumn_scal_l. apply sumn_ext. intros s Hs.
  rewrite <- (A_gram s j j' Hs). unfold gram.
  rewrite (sumn_scal_r nvar (K s x y) (fun i => A s j i * A s j' i)). ring.
Qed.

(* (ii) with norme^2 * nbtuba = 1 the factor is the AVERAGE over the bands: the variance does not grow with nbtuba *)
Theorem tb_cov_average j j' x y : (0 < nb)%nat -> norme * norme * inject_Z (Z.of_nat nb) == 1 ->
  cov (tb_out j x) (tb_out j' y) == sumn ncov (fun s => sill s j j' * (K s x y / inject_Z (Z.of_nat nb))).
Proof.
  intros Hnb Hn. rewrite tb_cov_sill. apply sumn_ext. intros s Hs.
  assert (Hpos : ~ inject_Z (Z.of_nat nb) == 0).
  { intro E. pose proof (inject_nat_pos nb Hnb). lra. }
  assert (E : norme * norme == 1 / inject_Z (Z.of_nat nb)).
  { rewrite <- Hn. field. exact Hpos. }
  rewrite E. field. exact Hpos.
Qed.

(* standardised band processes (correc^2 * c(x,x) = 1): the point variance is the sill, whatever nbtuba *)
Corollary tb_variance j x : (0 < nb)%nat -> norme * norme * inject_Z (Z.of_nat nb) == 1 ->
  (forall s, (s < ncov)%nat -> K s x x == inject_Z (Z.of_nat nb)) ->
  cov (tb_out j x) (tb_out j x) == sumn ncov (fun s => sill s j j).
Proof.
  intros Hnb Hn HK. rewrite tb_cov_average by assumption. apply sumn_ext. intros s Hs. rewrite (HK s Hs).
  assert (Hpos : ~ inject_Z (Z.of_nat nb) == 0).
  { intro E. pose proof (inject_nat_pos nb Hnb). lra. }
  field. exact Hpos.
Qed.

(* ---------------- (iii) nugget effect: independent standard draws per (ivar, is, sample), not normalised ---------------- *)
Variable is_nug : nat -> bool.
Variable G : nat -> nat -> nat -> rv.           (* G ivar is x *)
Hypothesis G_orth : forall i s x i' s' y, (i < nvar)%nat -> (i' < nvar)%nat -> (s < ncov)%nat -> (s' < ncov)%nat ->
  cov (G i s x) (G i' s' y) == if (Nat.eqb i i' && Nat.eqb s s' && Nat.eqb x y)%bool then 1 else 0.
Hypothesis GT_orth : forall i s x i' s' b y, cov (G i s x) (T i' s' b y) == 0.

Definition nug_term (j x ivar is : nat) : rv := if is_nug is then rscal (A is j ivar) (G ivar is x) else rzero.
Definition nug_out (j x : nat) : rv := rsum nvar (fun i => rsum ncov (nug_term j x i)).
Definition tb_out_nug (j x : nat) : rv := radd (tb_out j x) (nug_out j x).

Lemma cov_nug_term j j' x y i s i' s' : (i < nvar)%nat -> (i' < nvar)%nat -> (s < ncov)%nat -> (s' < ncov)%nat ->
  cov (nug_term j x i s) (nug_term j' y i' s') ==
  if (Nat.eqb i i' && Nat.eqb s s')%bool then (if is_nug s then A s j i * A s j' i * delta x y else 0) else 0.
Proof.
  intros Hi Hi' Hs Hs'. unfold nug_term.
  destruct (Nat.eqb_spec i i') as [Ei|Ei]; destruct (Nat.eqb_spec s s') as [Es|Es]; cbn [andb].
  - subst i' s'. destruct (is_nug s).
    + rewrite cov_scal_l, cov_scal_r, G_orth by assumption. rewrite !Nat.eqb_refl. cbn [andb]. unfold delta.
      destruct (Nat.eqb x y); ring.
    + apply cov_zero_l.
  - destruct (is_nug s); [|apply cov_zero_l]. destruct (is_nug s'); [|rewrite cov_sym; apply cov_zero_l].
    rewrite cov_scal_l, cov_scal_r, G_orth by assumption.
    destruct (Nat.eqb_spec s s'); [contradiction|]. rewrite andb_false_r. cbn [andb]. ring.
  - destruct (is_nug s); [|apply cov_zero_l]. destruct (is_nug s'); [|rewrite cov_sym; apply cov_zero_l].
    rewrite cov_scal_l, cov_scal_r, G_orth by assumption.
    destruct (Nat.eqb_spec i i'); [contradiction|]. cbn [andb]. ring.
  - destruct (is_nug s); [|apply cov_zero_l]. destruct (is_nug s'); [|rewrite cov_sym; apply cov_zero_l].
    rewrite cov_scal_l, cov_scal_r, G_orth by assumption.
    destruct (Nat.eqb_spec i i'); [contradiction|]. cbn [andb]. ring.
Qed.

Lemma cov_nug_out j j' x y :
  cov (nug_out j x) (nug_out j' y) == sumn ncov (fun s => if is_nug s then sill s j j' * delta x y else 0).
Proof.
  unfold nug_out. rewrite cov_orthogonal_sum.
  - rewrite (sumn_ext nvar _ (fun i => sumn ncov (fun s => if is_nug s then A s j i * A s j' i * delta x y else 0))).
    + rewrite sumn_swap. apply sumn_ext. intros s Hs. destruct (is_nug s).
      * rewrite <- (A_gram s j j' Hs). unfold gram. rewrite sumn_scal_r. reflexivity.
      * apply sumn_zero. intros; reflexivity.
    + intros i Hi. rewrite cov_orthogonal_sum.
      * apply sumn_ext. intros s Hs. rewrite cov_nug_term by assumption. rewrite !Nat.eqb_refl. reflexivity.
      * intros s s' Hs Hs' Hne. rewrite cov_nug_term by assumption.
        destruct (Nat.eqb_spec s s'); [contradiction|]. rewrite andb_false_r. reflexivity.
  - intros i i' Hi Hi' Hne. rewrite cov_rsum_rsum. apply sumn_zero. intros s Hs. apply sumn_zero. intros s' Hs'.
    rewrite cov_nug_term by assumption. destruct (Nat.eqb_spec i i'); [contradiction|]. reflexivity.
Qed.

Lemma cov_nug_tb j j' x y : cov (nug_out j x) (tb_out j' y) == 0.
Proof.
  unfold nug_out, tb_out. rewrite cov_scal_r.
  assert (E : cov (rsum nvar (fun i => rsum ncov (nug_term j x i))) (rsum nvar (var_term j' y)) == 0).
  { rewrite cov_rsum_rsum. apply sumn_zero. intros i Hi. apply sumn_zero. intros i' Hi'.
    unfold var_term. rewrite cov_rsum_rsum. apply sumn_zero. intros s Hs. apply sumn_zero. intros s' Hs'.
    unfold struct_term. rewrite cov_rsum_r. apply sumn_zero. intros b Hb.
    unfold nug_term, band_term. destruct (is_nug s); [|apply cov_zero_l].
    rewrite cov_scal_l, cov_scal_r, GT_orth. ring. }
  rewrite E. ring.
Qed.

(* the nugget structures contribute their sill at zero distance only, and nothing to the regular part *)
Theorem tb_cov_nugget j j' x y :
  cov (tb_out_nug j x) (tb_out_nug j' y) ==
  cov (tb_out j x) (tb_out j' y) + sumn ncov (fun s => if is_nug s then sill s j j' * delta x y else 0).
Proof.
  unfold tb_out_nug. rewrite cov_add_l, !cov_add_r.
  rewrite cov_nug_out, cov_nug_tb. rewrite (cov_sym N (tb_out j x) (nug_out j' y)), cov_nug_tb. ring.
Qed.
End Assembly.

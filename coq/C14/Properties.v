(* C14 - property theorems only (PARTIAL claim: second-moment calculus of the non-conditional simulators).
   Each theorem is closed by [exact] of a lemma of L2.v / TB.v / Proofs*.v.
   Reading guide: a "formal random variable" (rv) is a finite linear combination of independent standardised elementary
   draws e_0 .. e_{N-1} (an orthonormal family of L2); cov N X Y is the inner product of the coefficient vectors, which IS
   the covariance of the two variables.  No probability library is involved; what remains statistical is listed in the
   evidence file (the law of the elementary draws and of the 1-D band processes, the Monte-Carlo clause). *)
From Coq Require Import List Arith ZArith QArith Qabs Bool Lia.
From Gst Require Import lib.QAux lib.LinAlgQ C14.L2 C14.TB C14.Model C14.Proofs.
(* BEGIN PART vdc_pimp *)
From Coq Require List ZArith QArith Qround Lia Permutation Znumtheory.
From Gst Require C14.VdC C14.Proofs_vdc C14.Proofs_vdc_equi.
(* END PART vdc_pimp *)
(* BEGIN PART proc_pimp *)
From Coq Require List ZArith QArith Qabs Qround Bool.
From Gst Require lib.Sx lib.QAux C14.Proc C14.Proofs_proc_rank C14.Proofs_proc_poly C14.Proofs_proc_cplx C14.Proofs_proc_irf C14.Proofs_proc_eval.
(* END PART proc_pimp *)
(* BEGIN PART fft_pimp *)
From Coq Require List ZArith QArith Znumtheory Bool Lia.
From Gst Require C14.FFT C14.Proofs_fft_ops C14.Proofs_fft_sym C14.Proofs_fft_layout C14.Proofs_fft_misc C14.Proofs_fft_opt C14.Proofs_fft_lag C14.Proofs_spectral_assoc.
From Gst Require C16.Model C16.Spec.
(* END PART fft_pimp *)
(* BEGIN PART law_pimp *)
From Coq Require List ZArith QArith Qabs Qminmax Bool Lqa Permutation.
From Gst Require lib.QAux C13.Model C13.Proofs C11.Model_vec C14.Law C14.Proofs_law C14.Proofs_law_loops C14.Proofs_law_binom.
(* END PART law_pimp *)
(*@PART_PROP_IMPORTS@*)
Import ListNotations.
Local Open Scope Q_scope.

(* ================================ A. second-moment calculus ================================ *)
Theorem C14_cov_symmetric : forall N X Y, cov N X Y == cov N Y X.
Proof. exact cov_sym. Qed.
Theorem C14_cov_bilinear : forall N X X' Y c,
  cov N (radd X X') Y == cov N X Y + cov N X' Y /\ cov N (rscal c X) Y == c * cov N X Y.
Proof. intros. split; [apply cov_add_l | apply cov_scal_l]. Qed.
Theorem C14_cov_bilinear_sums : forall N n m F G,
  cov N (rsum n F) (rsum m G) == sumn n (fun i => sumn m (fun j => cov N (F i) (G j))).
Proof. exact cov_rsum_rsum. Qed.
(* the elementary draws are orthonormal, and a variable's coefficient on a draw is its covariance with it *)
Theorem C14_draws_orthonormal : forall N, orthonormal N N draw.
Proof. exact draws_orthonormal. Qed.
(* a linear map A applied to an orthonormal family has covariance matrix A.t(A) *)
Theorem C14_cov_linear_map : forall N n A G i j, orthonormal N n G ->
  cov N (lmap n A G i) (lmap n A G j) == fmul n A (ftr A) i j.
Proof. exact cov_lmap. Qed.
Print Assumptions C14_cov_linear_map.
(* no common draw => uncorrelated *)
Theorem C14_cov_disjoint_supports : forall N X Y, (forall k, (k < N)%nat -> X k == 0 \/ Y k == 0) -> cov N X Y == 0.
Proof. exact cov_disjoint. Qed.
(* covariance of a sum of mutually orthogonal fields = sum of the covariances *)
Theorem C14_cov_orthogonal_sum : forall N n F G,
  (forall b b', (b < n)%nat -> (b' < n)%nat -> b <> b' -> cov N (F b) (G b') == 0) ->
  cov N (rsum n F) (rsum n G) == sumn n (fun b => cov N (F b) (G b)).
Proof. exact cov_orthogonal_sum. Qed.
Print Assumptions C14_cov_orthogonal_sum.
(* scaling by c multiplies the covariance by c^2 *)
Theorem C14_cov_scaling : forall N c X Y, cov N (rscal c X) (rscal c Y) == c * c * cov N X Y.
Proof. exact cov_scal_both. Qed.
(* variances are non negative and correlations bounded by one *)
Theorem C14_cauchy_schwarz : forall N X Y, 0 <= cov N X X /\ cov N X Y * cov N X Y <= cov N X X * cov N Y Y.
Proof. intros. split; [apply var_nonneg | apply cauchy_schwarz]. Qed.
Print Assumptions C14_cauchy_schwarz.

(* ================================ B. turning-bands assembly ================================ *)
(* the number the code computes for one realisation (band tables tab = values of the band processes in that realisation)
   is the evaluation of the formal variable tb_out on that realisation *)
Theorem C14_tb_value_is_realisation : forall N e nvar ncov nb T correc A norme j x,
  tb_value nvar ncov nb norme (fun i s b y => eval N e (T i s b y)) correc A j x ==
  eval N e (tb_out nvar ncov nb T correc A norme j x).
Proof. exact tb_value_eval. Qed.
Print Assumptions C14_tb_value_is_realisation.

(* (i) mutually orthogonal band processes with covariances c: the covariance of the simulated variables j, j' between the
   samples x, y *)
Theorem C14_tb_cov_general : forall N nvar ncov nb T correc A norme,
  (forall i s b i' s' b' x y, (i < nvar)%nat -> (i' < nvar)%nat -> (s < ncov)%nat -> (s' < ncov)%nat -> (b < nb)%nat -> (b' < nb)%nat ->
     (i, s, b) <> (i', s', b') -> cov N (T i s b x) (T i' s' b' y) == 0) ->
  forall c, (forall i s b x y, (i < nvar)%nat -> (s < ncov)%nat -> (b < nb)%nat -> cov N (T i s b x) (T i s b y) == c i s b x y) ->
  forall j j' x y,
  cov N (tb_out nvar ncov nb T correc A norme j x) (tb_out nvar ncov nb T correc A norme j' y) ==
  norme * norme * sumn nvar (fun i => sumn ncov (fun s =>
     A s j i * A s j' i * sumn nb (fun b => correc i s b * correc i s b * c i s b x y))).
Proof. exact tb_cov_general. Qed.
Print Assumptions C14_tb_cov_general.

(* ... with AIC_s.t(AIC_s) = sill_s and identically distributed band families (K s x y = sum_b correc^2 c):
   Cov(out_j(x), out_j'(y)) = sum_s sill_s[j][j'] * norme^2 * K_s(x,y) *)
Theorem C14_tb_cov_sill : forall N nvar ncov nb T correc A norme,
  (forall i s b i' s' b' x y, (i < nvar)%nat -> (i' < nvar)%nat -> (s < ncov)%nat -> (s' < ncov)%nat -> (b < nb)%nat -> (b' < nb)%nat ->
     (i, s, b) <> (i', s', b') -> cov N (T i s b x) (T i' s' b' y) == 0) ->
  forall c, (forall i s b x y, (i < nvar)%nat -> (s < ncov)%nat -> (b < nb)%nat -> cov N (T i s b x) (T i s b y) == c i s b x y) ->
  forall K, (forall i s x y, (i < nvar)%nat -> (s < ncov)%nat -> sumn nb (fun b => correc i s b * correc i s b * c i s b x y) == K s x y) ->
  forall sill, (forall s j j', (s < ncov)%nat -> gram nvar (A s) j j' == sill s j j') ->
  forall j j' x y,
  cov N (tb_out nvar ncov nb T correc A norme j x) (tb_out nvar ncov nb T correc A norme j' y) ==
  sumn ncov (fun s => sill s j j' * (norme * norme * K s x y)).
Proof. exact tb_cov_sill. Qed.
Print Assumptions C14_tb_cov_sill.

(* (ii) with norme^2 * nbtuba = 1 the band factor is the AVERAGE over the bands: the variance is not scaled by the number
   of bands *)
Theorem C14_tb_cov_band_average : forall N nvar ncov nb T correc A norme,
  (forall i s b i' s' b' x y, (i < nvar)%nat -> (i' < nvar)%nat -> (s < ncov)%nat -> (s' < ncov)%nat -> (b < nb)%nat -> (b' < nb)%nat ->
     (i, s, b) <> (i', s', b') -> cov N (T i s b x) (T i' s' b' y) == 0) ->
  forall c, (forall i s b x y, (i < nvar)%nat -> (s < ncov)%nat -> (b < nb)%nat -> cov N (T i s b x) (T i s b y) == c i s b x y) ->
  forall K, (forall i s x y, (i < nvar)%nat -> (s < ncov)%nat -> sumn nb (fun b => correc i s b * correc i s b * c i s b x y) == K s x y) ->
  forall sill, (forall s j j', (s < ncov)%nat -> gram nvar (A s) j j' == sill s j j') ->
  forall j j' x y, (0 < nb)%nat -> norme * norme * inject_Z (Z.of_nat nb) == 1 ->
  cov N (tb_out nvar ncov nb T correc A norme j x) (tb_out nvar ncov nb T correc A norme j' y) ==
  sumn ncov (fun s => sill s j j' * (K s x y / inject_Z (Z.of_nat nb))).
Proof. exact tb_cov_average. Qed.
Print Assumptions C14_tb_cov_band_average.

(* standardised band processes: the point variance of variable j is the sum of the sills, whatever nbtuba *)
Theorem C14_tb_variance : forall N nvar ncov nb T correc A norme,
  (forall i s b i' s' b' x y, (i < nvar)%nat -> (i' < nvar)%nat -> (s < ncov)%nat -> (s' < ncov)%nat -> (b < nb)%nat -> (b' < nb)%nat ->
     (i, s, b) <> (i', s', b') -> cov N (T i s b x) (T i' s' b' y) == 0) ->
  forall c, (forall i s b x y, (i < nvar)%nat -> (s < ncov)%nat -> (b < nb)%nat -> cov N (T i s b x) (T i s b y) == c i s b x y) ->
  forall K, (forall i s x y, (i < nvar)%nat -> (s < ncov)%nat -> sumn nb (fun b => correc i s b * correc i s b * c i s b x y) == K s x y) ->
  forall sill, (forall s j j', (s < ncov)%nat -> gram nvar (A s) j j' == sill s j j') ->
  forall j x, (0 < nb)%nat -> norme * norme * inject_Z (Z.of_nat nb) == 1 ->
  (forall s, (s < ncov)%nat -> K s x x == inject_Z (Z.of_nat nb)) ->
  cov N (tb_out nvar ncov nb T correc A norme j x) (tb_out nvar ncov nb T correc A norme j x) == sumn ncov (fun s => sill s j j).
Proof. exact tb_variance. Qed.

(* (iii) the nugget structures (one independent standard draw per variable family, structure and sample, not normalised)
   add their sill at zero distance only *)
Theorem C14_tb_cov_nugget : forall N nvar ncov nb T correc A norme,
  forall sill, (forall s j j', (s < ncov)%nat -> gram nvar (A s) j j' == sill s j j') ->
  forall is_nug G,
  (forall i s x i' s' y, (i < nvar)%nat -> (i' < nvar)%nat -> (s < ncov)%nat -> (s' < ncov)%nat ->
     cov N (G i s x) (G i' s' y) == if (Nat.eqb i i' && Nat.eqb s s' && Nat.eqb x y)%bool then 1 else 0) ->
  (forall i s x i' s' b y, cov N (G i s x) (T i' s' b y) == 0) ->
  forall j j' x y,
  cov N (tb_out_nug nvar ncov nb T correc A norme is_nug G j x) (tb_out_nug nvar ncov nb T correc A norme is_nug G j' y) ==
  cov N (tb_out nvar ncov nb T correc A norme j x) (tb_out nvar ncov nb T correc A norme j' y) +
  sumn ncov (fun s => if is_nug s then sill s j j' * delta x y else 0).
Proof. exact tb_cov_nugget. Qed.
Print Assumptions C14_tb_cov_nugget.

(* the square-root-free normation test used by the correspondence: exact for a correct factor, (f^2 nb - 1) S^2 for a wrong one *)
Theorem C14_normation_residual : forall nb o mean nug S f,
  o == f * S + mean + nug ->
  norm_resid nb o mean nug S == (f * f * inject_Z (Z.of_nat nb) - 1) * (S * S) /\
  (f * f * inject_Z (Z.of_nat nb) == 1 -> norm_resid nb o mean nug S == 0).
Proof. intros nb o mean nug S f Ho. split; [exact (norm_resid_wrong nb o mean nug S f Ho) | intro Hn; exact (norm_resid_zero nb o mean nug S f Hn Ho)]. Qed.

(* ---- _createAIC over an eigen-pairs oracle (V = eigenvectors as columns, lam = eigenvalues, sq k = sqrt(lam k)) ---- *)
(* what the sill requires: M = V.diag(sq) *)
Theorem C14_aic_gram_is_sill : forall n S lam V sq, exact_decomp n S lam V -> is_sqrt n sq lam ->
  forall j j', (j < n)%nat -> (j' < n)%nat -> gram n (aic_fixed V sq) j j' == S j j'.
Proof. exact gram_fixed. Qed.
Print Assumptions C14_aic_gram_is_sill.
(* the code of the pinned tree (aic_code: vecpro(ivar,jvar)*sqrt(valpro[ivar]) read back as AIC(jvar,ivar)) realises
   t(V).diag(lam).V, which is the sill only when V is symmetric *)
Theorem C14_aic_code_gram : forall n lam V sq, is_sqrt n sq lam ->
  forall j j', gram n (aic_code V sq) j j' == sumn n (fun k => lam k * V k j * V k j').
Proof. exact gram_code. Qed.
Theorem C14_aic_code_symmetric_V : forall n S lam V sq, exact_decomp n S lam V -> is_sqrt n sq lam -> fsym n V ->
  forall j j', (j < n)%nat -> (j' < n)%nat -> gram n (aic_code V sq) j j' == S j j'.
Proof. exact gram_code_symV. Qed.
(* FINDING (createAIC:aic-aict-vs-sill): an exact orthonormal decomposition for which the code's coefficients give the
   OPPOSITE cross-covariance: S = [[52,36],[36,73]]/25, V = [[3,-4],[4,3]]/5 (a rotation), lam = (4,1) *)
Definition ex_V : fmat := fun i j => match i, j with O, O => 3#5 | O, _ => -(4#5) | _, O => 4#5 | _, _ => 3#5 end.
Definition ex_lam : fvec := fun k => match k with O => 4 | _ => 1 end.
Definition ex_sq : fvec := fun k => match k with O => 2 | _ => 1 end.
Definition ex_S : fmat := fun i j => match i, j with O, O => 52#25 | O, _ => 36#25 | _, O => 36#25 | _, _ => 73#25 end.
Theorem C14_aic_code_refuted : exists n S lam V sq,
  exact_decomp n S lam V /\ is_sqrt n sq lam /\
  (forall i j, (i < n)%nat -> (j < n)%nat -> sumn n (fun k => V k i * V k j) == delta i j) /\
  ~ gram n (aic_code V sq) 0%nat 1%nat == S 0%nat 1%nat /\
  gram n (aic_code V sq) 0%nat 1%nat == - S 0%nat 1%nat.
Proof.
  exists 2%nat, ex_S, ex_lam, ex_V, ex_sq. repeat split.
  - intros j j' Hj Hj'. destruct j as [|[|j]]; destruct j' as [|[|j']]; try lia; vm_compute; reflexivity.
  - intros k Hk. destruct k as [|[|k]]; try lia; vm_compute; reflexivity.
  - intros i j Hi Hj. destruct i as [|[|i]]; destruct j as [|[|j]]; try lia; vm_compute; reflexivity.
  - vm_compute. discriminate.
Qed.

(* the same with three variables and well separated eigenvalues (9, 4, 1): V = [[1,-8,4],[4,4,7],[8,-1,-4]]/9 (a rotation),
   S = V.diag(lam).t(V); the code's coefficients realise t(V).diag(lam).V: every entry of the matrix differs *)
Definition ex3_V : fmat := fun i j => match i, j with
  | 0, 0 => 1#9 | 0, 1 => -(8#9) | 0, _ => 4#9
  | 1, 0 => 4#9 | 1, 1 => 4#9 | 1, _ => 7#9
  | _, 0 => 8#9 | _, 1 => -(1#9) | _, _ => -(4#9) end%nat.
Definition ex3_lam : fvec := fun k => match k with O => 9 | S O => 4 | _ => 1 end.
Definition ex3_sq : fvec := fun k => match k with O => 3 | S O => 2 | _ => 1 end.
Definition ex3_S : fmat := fun i j => sumn 3 (fun k => ex3_lam k * ex3_V i k * ex3_V j k).
Theorem C14_aic_code_refuted3 :
  exact_decomp 3 ex3_S ex3_lam ex3_V /\ is_sqrt 3 ex3_sq ex3_lam /\
  (forall i j, (i < 3)%nat -> (j < 3)%nat -> sumn 3 (fun k => ex3_V k i * ex3_V k j) == delta i j) /\
  (forall j j', (j < 3)%nat -> (j' < 3)%nat -> (j <= j')%nat -> ~ gram 3 (aic_code ex3_V ex3_sq) j j' == ex3_S j j') /\
  (forall j j', (j < 3)%nat -> (j' < 3)%nat -> gram 3 (aic_fixed ex3_V ex3_sq) j j' == ex3_S j j') /\
  Qred (ex3_S 0 1)%nat = -(64#81) /\ Qred (gram 3 (aic_code ex3_V ex3_sq) 0 1)%nat = -(16#81).
Proof.
  split; [|split; [|split; [|split; [|split; [|split]]]]].
  - unfold exact_decomp. intros j j' Hj Hj'. reflexivity.
  - unfold is_sqrt. intros k Hk. destruct k as [|[|[|k]]]; try lia; vm_compute; reflexivity.
  - intros i j Hi Hj. destruct i as [|[|[|i]]]; destruct j as [|[|[|j]]]; try lia; vm_compute; reflexivity.
  - intros j j' Hj Hj' Hle. destruct j as [|[|[|j]]]; destruct j' as [|[|[|j']]]; try lia; vm_compute; discriminate.
  - intros j j' Hj Hj'. destruct j as [|[|[|j]]]; destruct j' as [|[|[|j']]]; try lia; vm_compute; reflexivity.
  - vm_compute. reflexivity.
  - vm_compute. reflexivity.
Qed.

(* ================================ C. directions and anisotropy ================================ *)
(* _rotateDirections (Rodrigues' rotation about a unit axis) preserves inner products: the rotated Van der Corput directions
   keep their mutual angles and their unit length *)
Theorem C14_rotation_isometry : forall ct st a v w,
  dot3 a a == 1 -> ct * ct + st * st == 1 -> dot3 (rodrigues ct st a v) (rodrigues ct st a w) == dot3 v w.
Proof. exact rodrigues_dot. Qed.
Print Assumptions C14_rotation_isometry.
(* band abscissa of x under an anisotropic structure (codir = val * s, val = t(Tinv).u, s the band scale), in units of s,
   = abscissa of the point transformed by the model's tensor, Tinv.x, on the unit direction u of the isotropic
   unit-range structure:  <x, t(Tinv) u> = <Tinv x, u> *)
Theorem C14_band_abscissa_anisotropy : forall n Tinv u x s,
  abscissa n x (fun i => aniso_val n Tinv u i * s) == s * abscissa n (fmv n Tinv x) u.
Proof. exact abscissa_aniso. Qed.
Print Assumptions C14_band_abscissa_anisotropy.
Theorem C14_codir_unit : forall n Tinv u s,
  s * s * fdot n (aniso_val n Tinv u) (aniso_val n Tinv u) == 1 ->
  fdot n (fun i => aniso_val n Tinv u i * s) (fun i => aniso_val n Tinv u i * s) == 1.
Proof. exact codir_unit. Qed.

(* ================================ H. Cholesky-based simulators ================================ *)
(* out = m + L.g : covariance L.t(L) (= Sigma when L is the factor certified by C11_chol_cert_sound), and the number computed
   for a realisation g is (L.g)_i *)
Theorem C14_chol_sim_cov : forall N L i j, cov N (lmap N L draw i) (lmap N L draw j) == fmul N L (ftr L) i j.
Proof. exact chol_sim_cov. Qed.
Theorem C14_chol_sim_realisation : forall N e L i, eval N e (lmap N L draw i) == fmv N L e i.
Proof. exact chol_sim_eval. Qed.
(* precision form (SPDE, out = t(L)^-1.g, cf. C11_chol_sim_cov: Q.out = L.g): Q.Cov(out) = I for Q = L.t(L) *)
Theorem C14_chol_precision_cov : forall N L M,
  (forall i j, (i < N)%nat -> (j < N)%nat -> fmul N M (ftr L) i j == delta i j) ->
  (forall i j, (i < N)%nat -> (j < N)%nat -> fmul N (ftr L) M i j == delta i j) ->
  forall i j, (i < N)%nat -> (j < N)%nat ->
  fmul N (fmul N L (ftr L)) (fun a b => cov N (lmap N M draw a) (lmap N M draw b)) i j == delta i j.
Proof. exact chol_prec_cov. Qed.
Print Assumptions C14_chol_precision_cov.

(* ================================ non-vacuity ================================ *)
(* two variables, one structure, two bands, two samples, N = 8 elementary draws: band process (i,b) at sample x is the draw
   4 i + 2 b + x ... mixed with its neighbour so that c(x,y) is not diagonal.  AIC = [[2,0],[1,1]] *)
Definition exT (i s b x : nat) : rv := fun k =>
  if Nat.eqb k (4 * i + 2 * b) then 1 else if Nat.eqb k (4 * i + 2 * b + 1) then (if Nat.eqb x 0 then 0 else 1) else 0.
Definition exA (s : nat) : fmat := fun j i => match j, i with O, O => 2 | O, _ => 0 | _, _ => 1 end.
Example C14_tb_nonvacuous :
  (* hypotheses of C14_tb_cov_general hold on the example (checked on the finite index ranges) and the covariance is not trivial *)
  cov 8 (exT 0 0 0 0) (exT 0 0 1 0) == 0 /\ cov 8 (exT 0 0 0 1) (exT 1 0 0 1) == 0 /\
  cov 8 (exT 0 0 0 0) (exT 0 0 0 1) == 1 /\ cov 8 (exT 0 0 0 1) (exT 0 0 0 1) == 2 /\
  Qred (cov 8 (tb_out 2 1 2 exT (fun _ _ _ => 1) exA (1#2) 0 0) (tb_out 2 1 2 exT (fun _ _ _ => 1) exA (1#2) 1 1)) = 1 /\
  Qred (gram 2 (exA 0) 0%nat 1%nat) = 2.
Proof. vm_compute. repeat split; reflexivity. Qed.
Example C14_rotation_nonvacuous :
  let a := (3#5, 4#5, 0) in let ct := 5#13 in let st := 12#13 in
  dot3 a a == 1 /\ ct * ct + st * st == 1 /\
  Qred (dot3 (rodrigues ct st a (1, 0, 0)) (rodrigues ct st a (0, 0, 1))) = 0 /\
  (let '(r0, r1, r2) := rodrigues ct st a (1, 0, 0) in (Qred r0, Qred r1, Qred r2)) = (197#325, 96#325, -(48#65)).
Proof. vm_compute. repeat split; reflexivity. Qed.
Example C14_aniso_nonvacuous :
  (* Tinv = diag(1/2, 1/4).t(R) with R the rotation (3/5,4/5): a point x and a direction u *)
  let Tinv : fmat := fun i j => match i, j with O, O => 3#10 | O, _ => 4#10 | _, O => -(4#20) | _, _ => 3#20 end in
  let u : fvec := fun k => match k with O => 5#13 | _ => 12#13 end in
  let x : fvec := fun k => match k with O => 7 | _ => -(2) end in
  Qred (abscissa 2 x (fun i => aniso_val 2 Tinv u i * 3)) = Qred (3 * abscissa 2 (fmv 2 Tinv x) u) /\
  ~ abscissa 2 x (fun i => aniso_val 2 Tinv u i * 3) == 0.
Proof. vm_compute. split; [reflexivity | discriminate]. Qed.

(* BEGIN PART vdc_props *)
(* ================================ part vdc ================================ *)
Module Part_vdc.
Import List ZArith QArith Qround Lia Permutation Znumtheory.
Import C14.VdC C14.Proofs_vdc C14.Proofs_vdc_equi.
Import ListNotations.
Local Open Scope Q_scope.
(* C14 / part vdc: theorems about the direction generator of the turning-bands simulator,
   CalcSimuTurningBands::_generateDirections (/repo/src/Simulation/CalcSimuTurningBands.cpp:124-162), rational part:
   the Van der Corput radical inverses x[0] (base 2, azimuth fraction) and x[1] (base 3, height z) of n = 1 + ibs.
   Every theorem is for EVERY base b >= 2 and EVERY index n (no bound). *)





(* The while loop of lines 145-150 always exits (n reaches 0) within 1 + log2 n iterations for a base >= 2:
   the fuel of the executable model is never exhausted, so the model's error value -1 is unreachable. *)
Theorem C14_vdc_loop_terminates : forall b n, (2 <= b)%Z ->
  exists y, vdc_loop (vdc_fuel n) b n (inject_Z b) 0 = Some y.
Proof. exact vdc_loop_fuel_enough. Qed.

(* What the loop returns is the radical inverse: sum over the base-b digits d_i of n of d_i * b^-(i+1)
   (digits by Z.div / Z.modulo; k = any number of digits that holds n). *)
Theorem C14_vdc_closed_form : forall b n k, (2 <= b)%Z -> (0 <= n < bpow b k)%Z ->
  vdc b n == radinv_sum b n k.
Proof. exact vdc_closed_form. Qed.
Print Assumptions C14_vdc_closed_form.

(* ... equivalently the k-digit reversal of n divided by b^k; rev IS the digit reversal (digit i <-> digit k-1-i)
   and is an involution of [0, b^k). *)
Theorem C14_vdc_is_reversed_digits : forall b n k, (2 <= b)%Z -> (0 <= n < bpow b k)%Z ->
  vdc b n == inject_Z (rev b k n) / inject_Z (bpow b k).
Proof. exact vdc_eq_rev. Qed.
Theorem C14_vdc_rev_digits : forall b, (2 <= b)%Z -> forall k n i, (0 <= n)%Z -> (i < k)%nat ->
  digit b (rev b k n) i = digit b n (k - 1 - i).
Proof. exact digit_rev. Qed.
Theorem C14_vdc_rev_involutive : forall b, (2 <= b)%Z -> forall k n, (0 <= n < bpow b k)%Z ->
  (0 <= rev b k n < bpow b k)%Z /\ rev b k (rev b k n) = n.
Proof. exact rev_range_involutive. Qed.

(* Range: x in [0,1) for n >= 0 and x > 0 for n >= 1.  The C++ uses n = 1 + ibs >= 1: x[0] and x[1] are strictly
   inside (0,1), so sqrt(1 - x[1]^2) is taken of a number in (0,1). *)
Theorem C14_vdc_range : forall b n, (2 <= b)%Z -> (0 <= n)%Z -> 0 <= vdc b n < 1.
Proof. exact vdc_range. Qed.
Theorem C14_vdc_positive : forall b n, (2 <= b)%Z -> (1 <= n)%Z -> 0 < vdc b n.
Proof. exact vdc_pos. Qed.
Theorem C14_vdc_x_in_open_unit_interval : forall id ibs, (0 <= id)%Z -> (0 <= ibs)%Z -> 0 < vdc_x id ibs < 1.
Proof. exact vdc_x_range. Qed.
Print Assumptions C14_vdc_x_in_open_unit_interval.

(* Different band numbers give different terms (in particular different heights z = x[1]): no direction is repeated. *)
Theorem C14_vdc_injective : forall b n m, (2 <= b)%Z -> (0 <= n)%Z -> (0 <= m)%Z -> vdc b n == vdc b m -> n = m.
Proof. exact vdc_injective. Qed.

(* Digit-reversal structure: the term of index n + b^k m (n = the k low digits) is the term of n plus b^-k times
   the term of m, i.e. plus something in [0, b^-k). *)
Theorem C14_vdc_digit_reversal : forall b k n m, (2 <= b)%Z -> (0 <= n < bpow b k)%Z -> (0 <= m)%Z ->
  vdc b (n + bpow b k * m) == vdc b n + vdc b m / inject_Z (bpow b k).
Proof. exact vdc_split. Qed.
Print Assumptions C14_vdc_digit_reversal.

(* Hence floor(b^k x_n) depends only on n mod b^k and is its k-digit reversal; it is the index j of the b-adic
   interval [j/b^k, (j+1)/b^k) that contains x_n. *)
Theorem C14_vdc_bucket_is_reversal : forall b k n, (2 <= b)%Z -> (0 <= n)%Z ->
  bucket b k n = rev b k (n mod bpow b k).
Proof. exact bucket_eq. Qed.
Theorem C14_vdc_bucket_interval : forall b k n j, (2 <= b)%Z -> (0 <= n)%Z ->
  (bucket b k n = j <->
   inject_Z j / inject_Z (bpow b k) <= vdc b n < inject_Z (j + 1) / inject_Z (bpow b k)).
Proof. exact bucket_interval. Qed.

(* Equidistribution: among ANY b^k consecutive indices (not only aligned blocks) exactly one term falls in each
   b-adic interval of length b^-k; the index is given explicitly by window_sol.  For the C++: any 2^k consecutive
   bands have their azimuth fractions one per interval of length 2^-k, any 3^k consecutive bands have their heights z
   one per interval of length 3^-k. *)
Theorem C14_vdc_window_exactly_one : forall b k n0 j, (2 <= b)%Z -> (0 <= n0)%Z -> (0 <= j < bpow b k)%Z ->
  let n := window_sol b k n0 j in
  (n0 <= n < n0 + bpow b k)%Z /\ bucket b k n = j /\
  forall n', (n0 <= n' < n0 + bpow b k)%Z -> bucket b k n' = j -> n' = n.
Proof. exact window_unique. Qed.
Print Assumptions C14_vdc_window_exactly_one.
Theorem C14_vdc_window_permutation : forall b k n0, (2 <= b)%Z -> (0 <= n0)%Z ->
  Permutation (map (bucket b k) (zrange n0 (bpow b k))) (zrange 0 (bpow b k)).
Proof. exact window_perm. Qed.
Print Assumptions C14_vdc_window_permutation.

(* Counting (discrepancy-type bound): among N consecutive terms the number falling in a b-adic interval of length
   b^-k is floor(N / b^k) or floor(N / b^k) + 1, and exactly q when N = q b^k. *)
Theorem C14_vdc_hits_bound : forall b k n0 N j, (2 <= b)%Z -> (0 <= n0)%Z -> (0 <= N)%Z -> (0 <= j < bpow b k)%Z ->
  (N / bpow b k <= Z.of_nat (hits b k n0 N j) <= N / bpow b k + 1)%Z.
Proof. exact hits_bound. Qed.
Print Assumptions C14_vdc_hits_bound.
Theorem C14_vdc_hits_exact : forall b k j n0 (q : nat), (2 <= b)%Z -> (0 <= j < bpow b k)%Z -> (0 <= n0)%Z ->
  hits b k n0 (Z.of_nat q * bpow b k) j = q.
Proof. exact hits_exact. Qed.

(* Two dimensions (Halton points, Chinese remainder theorem): for coprime bases and b1^a * b2^c consecutive indices,
   every elementary box [i/b1^a,(i+1)/b1^a) x [j/b2^c,(j+1)/b2^c) receives exactly one point.  With the C++ bases 2, 3:
   any 2^a 3^c consecutive bands put exactly one (azimuth fraction, height) pair in each box.  Since
   (azimuth, z) -> (sqrt(1-z^2) cos, sqrt(1-z^2) sin, z) preserves area (Archimedes' hat-box theorem; cited, not
   proved here) this is the even filling of the hemisphere by the band directions. *)
Theorem C14_vdc_halton_box : forall b1 b2 a c n0 i j, (2 <= b1)%Z -> (2 <= b2)%Z -> rel_prime b1 b2 -> (0 <= n0)%Z ->
  (0 <= i < bpow b1 a)%Z -> (0 <= j < bpow b2 c)%Z ->
  exists n, (n0 <= n < n0 + bpow b1 a * bpow b2 c)%Z /\ bucket b1 a n = i /\ bucket b2 c n = j /\
            forall n', (n0 <= n' < n0 + bpow b1 a * bpow b2 c)%Z -> bucket b1 a n' = i -> bucket b2 c n' = j -> n' = n.
Proof. exact halton_box. Qed.
Theorem C14_vdc_halton_2_3 : forall a c ibs0 i j, (0 <= ibs0)%Z -> (0 <= i < bpow 2 a)%Z -> (0 <= j < bpow 3 c)%Z ->
  exists ibs, (ibs0 <= ibs < ibs0 + bpow 2 a * bpow 3 c)%Z /\
              Qfloor (inject_Z (bpow 2 a) * vdc_x 0 ibs) = i /\ Qfloor (inject_Z (bpow 3 c) * vdc_x 1 ibs) = j /\
              forall ibs', (ibs0 <= ibs' < ibs0 + bpow 2 a * bpow 3 c)%Z ->
                           Qfloor (inject_Z (bpow 2 a) * vdc_x 0 ibs') = i ->
                           Qfloor (inject_Z (bpow 3 c) * vdc_x 1 ibs') = j -> ibs' = ibs.
Proof. exact halton_2_3. Qed.
Print Assumptions C14_vdc_halton_2_3.

(* Lines 155-158: with c, s = cos, sin of 2 pi x[0] (c^2 + s^2 = 1) and q = sqrt(1 - x1^2) (q^2 = 1 - x1^2) the
   direction (c q, s q, x1) is a unit vector: the later division of the direction by the anisotropy 'scale'
   (lines 181-210) is therefore the anisotropy itself, not a renormalisation. *)
Theorem C14_vdc_direction_unit : forall c s q x1 : Q,
  c * c + s * s == 1 -> q * q == 1 - x1 * x1 -> norm2 (tb_dir c s q x1) == 1.
Proof. exact tb_dir_unit. Qed.
Print Assumptions C14_vdc_direction_unit.

(* The third cosine is x[1] in (0,1): ALL directions generated before the random rotation lie in the open upper
   hemisphere z > 0.  Correct for turning bands: u and -u define the same band, a hemisphere is a full set of lines. *)
Theorem C14_vdc_upper_hemisphere : forall c s q ibs, (0 <= ibs)%Z ->
  0 < dir_z (tb_dir c s q (vdc_x 1 ibs)) < 1.
Proof. exact tb_dir_upper. Qed.

(* ------------------------------------------------------------------ non-vacuity (vm_compute on concrete values) *)
Example C14_vdc_loop_terminates_nonvacuous :
  vdc_loop (vdc_fuel 6) 2 6 (inject_Z 2) 0 = Some (0 + 0 / 2 + 1 / (2 * 2) + 1 / (2 * 2 * 2)) /\
  vdc_loop 2 2 6 (inject_Z 2) 0 = None.
Proof. split; vm_compute; reflexivity. Qed.
Example C14_vdc_closed_form_nonvacuous :
  (0 <= 6 < bpow 2 3)%Z /\ Qred (vdc 2 6) = 3 # 8 /\ Qred (radinv_sum 2 6 3) = 3 # 8 /\
  (0 <= 5 < bpow 3 2)%Z /\ Qred (vdc 3 5) = 7 # 9 /\ Qred (radinv_sum 3 5 2) = 7 # 9 /\
  Qred (vdc_x 0 5) = 3 # 8 /\ Qred (vdc_x 1 4) = 7 # 9.
Proof. repeat split; vm_compute; congruence. Qed.
Example C14_vdc_is_reversed_digits_nonvacuous :
  rev 2 3 6 = 3%Z /\ rev 3 2 5 = 7%Z /\ rev 10 4 1230 = 321%Z /\ rev 10 4 (rev 10 4 1230) = 1230%Z /\
  digit 10 (rev 10 4 1230) 0 = digit 10 1230 3.
Proof. repeat split; vm_compute; congruence. Qed.
Example C14_vdc_range_nonvacuous :
  Qred (vdc 2 1) = 1 # 2 /\ Qred (vdc 3 1) = 1 # 3 /\ Qred (vdc 3 (3 ^ 5 - 1)) = 242 # 243 /\ vdc 2 0 = 0.
Proof. repeat split; vm_compute; congruence. Qed.
Example C14_vdc_injective_nonvacuous : ~ vdc 3 5 == vdc 3 7.
Proof. vm_compute. congruence. Qed.
Example C14_vdc_digit_reversal_nonvacuous :
  (0 <= 5 < bpow 2 3)%Z /\ Qred (vdc 2 (5 + bpow 2 3 * 3)) = Qred (vdc 2 5 + vdc 2 3 / inject_Z (bpow 2 3)) /\
  Qred (vdc 2 (5 + bpow 2 3 * 3)) = 23 # 32.
Proof. repeat split; vm_compute; congruence. Qed.
Example C14_vdc_bucket_nonvacuous :
  bucket 3 2 14 = rev 3 2 (14 mod bpow 3 2) /\ bucket 3 2 14 = 7%Z /\ Qred (vdc 3 14) = 22 # 27.
Proof. repeat split; vm_compute; congruence. Qed.
(* the window n0 = 5, k = 3, base 2: indices 5..12 -> intervals 5 3 7 0 4 2 6 1; index for interval 0 is 8 *)
Example C14_vdc_window_nonvacuous :
  map (bucket 2 3) (zrange 5 (bpow 2 3)) = [5; 3; 7; 0; 4; 2; 6; 1]%Z /\ window_sol 2 3 5 0 = 8%Z /\
  map (bucket 3 2) (zrange 7 (bpow 3 2)) = [5; 8; 0; 3; 6; 1; 4; 7; 2]%Z.
Proof. repeat split; vm_compute; congruence. Qed.
Example C14_vdc_hits_nonvacuous :
  hits 3 1 1 10 0 = 3%nat /\ hits 3 1 1 10 1 = 4%nat /\ hits 3 1 1 10 2 = 3%nat /\ (10 / bpow 3 1 = 3)%Z /\
  hits 2 2 7 (5 * bpow 2 2) 3 = 5%nat.
Proof. repeat split; vm_compute; congruence. Qed.
(* bases 2 and 3, a = 1, c = 1: bands 0..5 visit the six boxes once each *)
Example C14_vdc_halton_nonvacuous :
  rel_prime 2 3 /\
  map (fun ibs => (Qfloor (inject_Z (bpow 2 1) * vdc_x 0 ibs), Qfloor (inject_Z (bpow 3 1) * vdc_x 1 ibs))) (zrange 0 6)
  = [(1, 1); (0, 2); (1, 0); (0, 1); (1, 2); (0, 0)]%Z.
Proof. split; [apply Zgcd_1_rel_prime; reflexivity | vm_compute; reflexivity]. Qed.
(* c = 3/5, s = 4/5, x1 = 5/13, q = 12/13 *)
Example C14_vdc_direction_unit_nonvacuous :
  (3 # 5) * (3 # 5) + (4 # 5) * (4 # 5) == 1 /\ (12 # 13) * (12 # 13) == 1 - (5 # 13) * (5 # 13) /\
  Qred (norm2 (tb_dir (3 # 5) (4 # 5) (12 # 13) (5 # 13))) = 1 /\
  tb_dir (3 # 5) (4 # 5) (12 # 13) (5 # 13) = ((3 # 5) * (12 # 13), (4 # 5) * (12 # 13), 5 # 13).
Proof. repeat split; vm_compute; congruence. Qed.
End Part_vdc.
Export Part_vdc.
(* END PART vdc_props *)
(* BEGIN PART proc_props *)
(* ================================ part proc ================================ *)
Module Part_proc.
Import List ZArith QArith Qabs Qround Bool.
Import lib.Sx lib.QAux C14.Proc C14.Proofs_proc_rank C14.Proofs_proc_poly C14.Proofs_proc_cplx C14.Proofs_proc_irf C14.Proofs_proc_eval.
Import ListNotations.
Local Open Scope Q_scope.
(* C14 part proc: theorems on the one-dimensional processes of the turning bands (to be pasted into coq/C14/Properties.v). *)






(* ============================================================ A. deterministic evaluation: _rankInPoisson (TurningBandOperate.cpp:174-204) and the _nt0 cache *)
(* Whatever the vector _t (>= 2 values, sorted or not), the abscissa t0 and the cached rank in [0, nt-2]:
   _rankInPoisson reads nothing outside _t and returns a rank in [0, nt-2] (so the cache set by spectralOne / IRFProcessOne stays valid for ever). *)
Theorem C14_rank_defined :
  forall (t : list Q) (t0 : Q) (d : Z),
         (2 <= Z.of_nat (length t))%Z ->
         (0 <= d <= Z.of_nat (length t) - 2)%Z ->
         exists k : Z, rankInPoisson d t0 t = Some k /\ (0 <= k <= Z.of_nat (length t) - 2)%Z.
Proof. exact rank_defined. Qed.
Print Assumptions C14_rank_defined.

(* MAIN: strictly increasing _t and t[0] <= t0 < t[last]: whatever the cached rank, the result is the interval containing t0. *)
Theorem C14_rank_correct :
  forall (t : list Q) (t0 : Q) (d : Z),
         incr t ->
         (2 <= Z.of_nat (length t))%Z ->
         (0 <= d <= Z.of_nat (length t) - 2)%Z ->
         tq t 0 <= t0 ->
         t0 < tq t (Z.of_nat (length t) - 1) ->
         exists k : Z,
           rankInPoisson d t0 t = Some k /\
           (0 <= k <= Z.of_nat (length t) - 2)%Z /\ tq t k <= t0 < tq t (k + 1).
Proof. exact rank_correct. Qed.
Print Assumptions C14_rank_correct.

(* History independence of the _nt0 cache: two different cached ranks give the same answer. *)
Theorem C14_rank_history_independent :
  forall (t : list Q) (t0 : Q) (d d' : Z),
         incr t ->
         (2 <= Z.of_nat (length t))%Z ->
         (0 <= d <= Z.of_nat (length t) - 2)%Z ->
         (0 <= d' <= Z.of_nat (length t) - 2)%Z ->
         tq t 0 <= t0 ->
         t0 < tq t (Z.of_nat (length t) - 1) -> rankInPoisson d t0 t = rankInPoisson d' t0 t.
Proof. exact rank_history_independent. Qed.
Print Assumptions C14_rank_history_independent.

(* Below the first Poisson point the rank is clamped to 0 (no read outside the vector). *)
Theorem C14_rank_below :
  forall (t : list Q) (t0 : Q) (d : Z),
         incr t ->
         (2 <= Z.of_nat (length t))%Z ->
         (0 <= d <= Z.of_nat (length t) - 2)%Z -> t0 < tq t 0 -> rankInPoisson d t0 t = Some 0%Z.
Proof. exact rank_below. Qed.

(* At or beyond the last Poisson point the rank is clamped to nt-2. *)
Theorem C14_rank_above :
  forall (t : list Q) (t0 : Q) (d : Z),
         incr t ->
         (2 <= Z.of_nat (length t))%Z ->
         (0 <= d <= Z.of_nat (length t) - 2)%Z ->
         tq t (Z.of_nat (length t) - 1) <= t0 ->
         rankInPoisson d t0 t = Some (Z.of_nat (length t) - 2)%Z.
Proof. exact rank_above. Qed.

(* The only read outside _t: a cached rank nt-1 with t0 >= t[nt-1] reads t[nt] (TurningBandOperate.cpp:184); C14_rank_defined shows
   that such a cache value is never produced; it needs nt = 1 (one Poisson point), which _migrationInit builds only for 0 < tmax-tmin <= 1e-5 and scale < 1e-10. *)
Theorem C14_rank_oob_last :
  forall (t : list Q) (t0 : Q),
         (1 <= Z.of_nat (length t))%Z ->
         tq t (Z.of_nat (length t) - 1) <= t0 -> rankInPoisson (Z.of_nat (length t) - 1) t0 t = None.
Proof. exact rank_oob_last. Qed.

(* A whole sequence of spectralOne calls on one object: every call is defined and leaves a cache in [0, nt-2]. *)
Theorem C14_spectralSeq_defined :
  forall (ts : list Q) (s : tbo),
         (2 <= Z.of_nat (length (tb_t s)))%Z ->
         (0 <= tb_nt0 s <= Z.of_nat (length (tb_t s)) - 2)%Z ->
         Forall
           (fun r : option (Z * Q) =>
            exists (k : Z) (v : Q), r = Some (k, v) /\ (0 <= k <= Z.of_nat (length (tb_t s)) - 2)%Z)
           (spectralSeq s ts).
Proof. exact spectralSeq_defined. Qed.

(* Sequence of spectralOne calls (the grid / point spreading loops): the values are those of the cache-free function, call by call. *)
Theorem C14_spectralSeq_history_independent :
  forall (ts : list Q) (s : tbo) (d : Z),
         incr (tb_t s) ->
         (2 <= Z.of_nat (length (tb_t s)))%Z ->
         (0 <= d <= Z.of_nat (length (tb_t s)) - 2)%Z ->
         Forall (fun t0 : Q => tq (tb_t s) 0 <= t0 < tq (tb_t s) (Z.of_nat (length (tb_t s)) - 1)) ts ->
         spectralSeq (set_nt0 s d) ts = map (spectral_nocache s) ts.
Proof. exact spectralSeq_history_independent. Qed.
Print Assumptions C14_spectralSeq_history_independent.

(* Same for IRFProcessOne. *)
Theorem C14_irfSeq_history_independent :
  forall (ts : list Q) (s : tbo) (d : Z),
         incr (tb_t s) ->
         (2 <= Z.of_nat (length (tb_t s)))%Z ->
         (0 <= d <= Z.of_nat (length (tb_t s)) - 2)%Z ->
         Forall (fun t0 : Q => tq (tb_t s) 0 <= t0 < tq (tb_t s) (Z.of_nat (length (tb_t s)) - 1)) ts ->
         (forall (k : Z) (t0 : Q),
          (0 <= k <= Z.of_nat (length (tb_t s)) - 2)%Z -> irfSample s k t0 <> None) ->
         irfSeq (set_nt0 s d) ts = map (irf_nocache s) ts.
Proof. exact irfSeq_history_independent. Qed.

(* spectralOne on ANY vector: an abscissa larger than every value stored in _t always receives -vexp (this is how the
   defect cured by commit e4e350f57 showed: _t then held N(0,1) draws and the band was constant beyond the largest one). *)
Theorem C14_spectral_above_all :
  forall (s : tbo) (t0 : Q),
         (2 <= Z.of_nat (length (tb_t s)))%Z ->
         (0 <= tb_nt0 s <= Z.of_nat (length (tb_t s)) - 2)%Z ->
         (forall i : Z, (0 <= i < Z.of_nat (length (tb_t s)))%Z -> tq (tb_t s) i < t0) ->
         spectralOne s t0 = Some (set_nt0 s (Z.of_nat (length (tb_t s)) - 2), - tb_vexp s).
Proof. exact spectral_above_all. Qed.
Print Assumptions C14_spectral_above_all.

(* The Poisson points of _migrationInit (CalcSimuTurningBands.cpp:629-641) for given positive increments: strictly increasing, at least two, t[0] <= tmin and t[last] > tmax. *)
Theorem C14_migrationT_covers :
  forall (tmin tmax e0 e1 : Q) (incs t : list Q),
         0 <= e0 ->
         0 < e1 ->
         Forall (fun e : Q => 0 < e) incs ->
         migrationT tmin tmax e0 e1 incs = Some t ->
         incr t /\
         (2 <= Z.of_nat (length t))%Z /\ tq t 0 <= tmin /\ tmax < tq t (Z.of_nat (length t) - 1).
Proof. exact migration_covers. Qed.

(* MAIN: _migrationInit as it is (:620-641), for EVERY scale > 0 - the scale bounded below by (tmax-tmin)*1e-5 included (:627) -
   and positive draws -log(u): the vector _t is strictly increasing, has at least two points, t[0] <= tmin and t[last] > tmax. *)
Theorem C14_migration_covers :
  forall (tmin tmax scale x0 x1 : Q) (xs t : list Q),
         0 < scale ->
         0 <= x0 ->
         0 < x1 ->
         Forall (fun e : Q => 0 < e) xs ->
         migrationInitT tmin tmax scale x0 x1 xs = Some t ->
         incr t /\
         (2 <= Z.of_nat (length t))%Z /\ tq t 0 <= tmin /\ tmax < tq t (Z.of_nat (length t) - 1).
Proof. exact migrationInit_covers. Qed.
Print Assumptions C14_migration_covers.

(* Hence for every scale > 0 and every abscissa of the band the rank search is exact whatever the cache (no out-of-bounds read reachable from the construction). *)
Theorem C14_migration_rank_correct :
  forall (tmin tmax scale x0 x1 : Q) (xs t : list Q) (t0 : Q) (d : Z),
         0 < scale ->
         0 <= x0 ->
         0 < x1 ->
         Forall (fun e : Q => 0 < e) xs ->
         migrationInitT tmin tmax scale x0 x1 xs = Some t ->
         tmin <= t0 ->
         t0 <= tmax ->
         (0 <= d <= Z.of_nat (length t) - 2)%Z ->
         exists k : Z,
           rankInPoisson d t0 t = Some k /\
           (0 <= k <= Z.of_nat (length t) - 2)%Z /\ tq t k <= t0 < tq t (k + 1).
Proof. exact migrationInit_rank_correct. Qed.
Print Assumptions C14_migration_rank_correct.

(* The scale actually used is positive and never below (tmax-tmin)*1e-5 nor below the requested one. *)
Theorem C14_mig_clamp_pos :
  forall tmin tmax scale : Q, 0 < scale -> 0 < mig_clamp tmin tmax scale.
Proof. exact mig_clamp_pos. Qed.
Theorem C14_mig_clamp_ge :
  forall tmin tmax scale : Q,
         (tmax - tmin) * mig_eps <= mig_clamp tmin tmax scale /\ scale <= mig_clamp tmin tmax scale.
Proof. exact mig_clamp_ge. Qed.

(* REGRESSION (defect cured by commit e4e350f57): before it, in the branch scale < (tmax-tmin)*1e-5 of _migrationInit the vector _t
   (N(0,1) draws, [migrationInitT_old]) was neither increasing nor covering [tmin,tmax]. *)
Theorem C14_old_migration_degenerate_refuted :
  exists (tmin tmax scale : Q) (gs t : list Q),
           0 < scale /\
           tmin < tmax /\
           migrationInitT_old tmin tmax scale gs 0 0 [] = Some t /\ ~ incr t /\ ~ tq t 0 <= tmin.
Proof. exact old_migration_degenerate_refuted. Qed.
Print Assumptions C14_old_migration_degenerate_refuted.

(* The C conversion (int)(dt) is the floor for dt >= 0. *)
Theorem C14_qtrunc_floor :
  forall q : Q, 0 <= q -> qtrunc q = Qfloor q.
Proof. exact qtrunc_floor. Qed.

(* _dilutionInit (:666-674): for tmin <= t0 <= tmax the cell index (int)((t0 - tdeb)/scale) is in [0, count-1]: shotNoise*One read inside _t (exact arithmetic). *)
Theorem C14_dilution_covers :
  forall (s : tbo) (fuel : nat) (tmin tmax u : Q) (n : Z) (t0 : Q),
         0 < tb_scale s ->
         0 <= u ->
         tb_tdeb s = dil_tdeb tmin (tb_scale s) u ->
         dil_count fuel (tb_tdeb s) (tb_scale s) tmax 0 = Some n ->
         Z.of_nat (length (tb_t s)) = n ->
         tmin <= t0 ->
         t0 <= tmax ->
         0 <= (t0 - tb_tdeb s) / tb_scale s /\
         (forall dt : Q, dt == (t0 - tb_tdeb s) / tb_scale s -> (0 <= qtrunc dt < n)%Z).
Proof. exact dilution_covers. Qed.
Print Assumptions C14_dilution_covers.

(* Same, on the evaluator itself (flagScaled = false). *)
Theorem C14_dilution_no_oob :
  forall (g : Q -> Q) (s : tbo) (fuel : nat) (tmin tmax u : Q) (n : Z) (t0 : Q),
         tb_flagScaled s = false ->
         0 < tb_scale s ->
         0 <= u ->
         tb_tdeb s = dil_tdeb tmin (tb_scale s) u ->
         dil_count fuel (tb_tdeb s) (tb_scale s) tmax 0 = Some n ->
         Z.of_nat (length (tb_t s)) = n ->
         tmin <= t0 -> t0 <= tmax -> exists v : Q, shotGen g s t0 = Some v.
Proof. exact dilution_no_oob. Qed.


(* ============================================================ B1. dilution / shot noise: bounds, sign orthogonality, exact covariance *)
(* shotNoiseAffineOne (TurningBandOperate.cpp:84-93): |value| <= 1 for signs +-1 and dt >= 0. *)
Theorem C14_shotAffine_bound :
  forall (s : tbo) (t0 v : Q),
         0 <= shot_dt s t0 ->
         (forall e : Q, In e (tb_t s) -> e * e == 1) -> shotAffine s t0 = Some v -> v * v <= 1.
Proof. exact shotAffine_bound. Qed.
Print Assumptions C14_shotAffine_bound.

(* shotNoiseCubicOne (:95-104): 432 value^2 <= 1, i.e. |value| <= sqrt(3)/36 = max |x(x-1/2)(x-1)| on [0,1]. *)
Theorem C14_shotCubic_bound :
  forall (s : tbo) (t0 v : Q),
         0 <= shot_dt s t0 ->
         (forall e : Q, In e (tb_t s) -> e * e == 1) -> shotCubic s t0 = Some v -> 432 * (v * v) <= 1.
Proof. exact shotCubic_bound. Qed.

(* Independent fair signs are orthonormal: sum over the 2^n sign vectors of e_k e_k' is 2^n if k = k' else 0 (the L2 step). *)
Theorem C14_sign_orth :
  forall n k k' : nat,
         (k < n)%nat ->
         (k' < n)%nat ->
         qsum (map (fun e : list Q => nth k e 0 * nth k' e 0) (signs n)) ==
         (if k =? k' then inject_Z (2 ^ Z.of_nat n) else 0).
Proof. exact sign_orth. Qed.
Print Assumptions C14_sign_orth.

(* Mean over the signs of value(x) value(y) for value = e_cell * g(fraction): g(ux) g(uy) when the two points share the cell, else 0. *)
Theorem C14_shot_sign_cov :
  forall (n kx ky : nat) (gx gy : Q),
         (kx < n)%nat ->
         (ky < n)%nat ->
         sign_mean n (fun e : list Q => nth kx e 0 * gx * (nth ky e 0 * gy)) ==
         (if kx =? ky then gx * gy else 0).
Proof. exact shot_sign_cov. Qed.

(* Mean over the signs of the value is 0. *)
Theorem C14_shot_sign_mean :
  forall (n k : nat) (g : Q),
         (k < n)%nat -> sign_mean n (fun e : list Q => nth k e 0 * g) == 0.
Proof. exact shot_sign_mean. Qed.

(* Two points k+u and k+u+h (0 <= u, 0 <= h) with u + h < 1 lie in the same cell ... *)
Theorem C14_cell_same :
  forall (k : Z) (u h : Q), 0 <= u -> 0 <= h -> u + h < 1 -> Qfloor (inject_Z k + (u + h)) = k.
Proof. exact cell_same. Qed.

(* ... and in different cells when u + h >= 1 (always the case for h >= 1: no contribution beyond the range). *)
Theorem C14_cell_other :
  forall (k : Z) (u h : Q), 0 <= u -> 1 <= u + h -> (k < Qfloor (inject_Z k + (u + h)))%Z.
Proof. exact cell_other. Qed.

(* The polynomial integrated (in x) is g(x) g(x+h), affine shape. *)
Theorem C14_sph_integrand_ok :
  forall x h : Q, peval (sph_integrand h) x == g_aff x * g_aff (x + h).
Proof. exact sph_integrand_ok. Qed.

(* Idem, cubic shape. *)
Theorem C14_cub_integrand_ok :
  forall x h : Q, peval (cub_integrand h) x == g_cub x * g_cub (x + h).
Proof. exact cub_integrand_ok. Qed.

(* MAIN: correc^2 (= 3) times the integral over a uniform origin of g(x) g(x+h) on the common cell [0, 1-h] is C1(h) = d/dh (h C(h)), C = spherical. *)
Theorem C14_dilution_cov_spherical :
  forall h : Q, correc2_spherical * integ (sph_integrand h) 0 (1 - h) == peval (C1_of C_sph) h.
Proof. exact dilution_cov_spherical. Qed.
Print Assumptions C14_dilution_cov_spherical.

(* MAIN: same with correc^2 = 840 and C = cubic. *)
Theorem C14_dilution_cov_cubic :
  forall h : Q, correc2_cubic * integ (cub_integrand h) 0 (1 - h) == peval (C1_of C_cub) h.
Proof. exact dilution_cov_cubic. Qed.
Print Assumptions C14_dilution_cov_cubic.

(* C1 for the spherical model is 1 - 3h + 2h^3. *)
Theorem C14_C1_sph_eval :
  forall h : Q, peval (C1_of C_sph) h == 1 - 3 * h + 2 * h * h * h.
Proof. exact C1_sph_eval. Qed.

(* C1 for the cubic model is 1 - 21h^2 + 35h^3 - 21h^5 + 6h^7. *)
Theorem C14_C1_cub_eval :
  forall h : Q,
         peval (C1_of C_cub) h ==
         1 - 21 * h * h + 35 * h * h * h - 21 * h * h * h * h * h + 6 * h * h * h * h * h * h * h.
Proof. exact C1_cub_eval. Qed.

(* The Horner form evaluated by CovCubic.cpp:44 is the polynomial C_cub. *)
Theorem C14_C_cub_horner_ok :
  forall h : Q, C_cub_horner h == peval C_cub h.
Proof. exact C_cub_horner_ok. Qed.

(* The form evaluated by CovSpherical.cpp:43 is the polynomial C_sph. *)
Theorem C14_C_sph_code_ok :
  forall h : Q, 1 - (1 # 2) * h * (3 - h * h) == peval C_sph h.
Proof. exact C_sph_code_ok. Qed.

(* Continuity at the range: C1(1) = C(1) = 0 (spherical). *)
Theorem C14_C1_sph_at_range :
  peval (C1_of C_sph) 1 == 0 /\ peval C_sph 1 == 0.
Proof. exact C1_sph_at_range. Qed.

(* Continuity at the range (cubic). *)
Theorem C14_C1_cub_at_range :
  peval (C1_of C_cub) 1 == 0 /\ peval C_cub 1 == 0.
Proof. exact C1_cub_at_range. Qed.


(* ============================================================ B2. polynomial calculus and the turning-band relation in R^3 *)
(* The formal derivative of the formal antiderivative is the polynomial (every polynomial). *)
Theorem C14_pderiv_pint :
  forall p : poly, Forall2 Qeq (pderiv (pint p)) p.
Proof. exact pderiv_pint. Qed.

(* Fundamental theorem for polynomials: integ p' a b = p(b) - p(a). *)
Theorem C14_ftc :
  forall (p : poly) (a b : Q), integ (pderiv p) a b == peval p b - peval p a.
Proof. exact ftc. Qed.
Print Assumptions C14_ftc.

(* p(x) - p(y) = (x - y) dd p x y ... *)
Theorem C14_dd_spec :
  forall (p : poly) (x y : Q), peval p x - peval p y == (x - y) * dd p x y.
Proof. exact dd_spec. Qed.

(* ... and dd p x x = p'(x): the formal derivative is the derivative. *)
Theorem C14_dd_diag :
  forall (p : poly) (x : Q), dd p x x == peval (pderiv p) x.
Proof. exact dd_diag. Qed.

(* For C1 = d/dt (t C(t)): integral_0^r C1 = r C(r), i.e. the average of C1(<h,u>) over a uniform direction u of R^3 is C(|h|) (Archimedes: <h,u>/|h| is uniform on [-1,1]). *)
Theorem C14_turning_band_3d :
  forall (C : poly) (r : Q), integ (C1_of C) 0 r == r * peval C r.
Proof. exact turning_band_3d. Qed.
Print Assumptions C14_turning_band_3d.

(* Band average of the dilution covariance = spherical model. *)
Theorem C14_dilution_band_average_spherical :
  forall r : Q, integ (C1_of C_sph) 0 r == r * peval C_sph r.
Proof. exact dilution_band_average_spherical. Qed.

(* Band average of the dilution covariance = cubic model. *)
Theorem C14_dilution_band_average_cubic :
  forall r : Q, integ (C1_of C_cub) 0 r == r * peval C_cub r.
Proof. exact dilution_band_average_cubic. Qed.


(* ============================================================ B5. migration process (spectralOne) *)
(* spectralOne (TurningBandOperate.cpp:112): value^2 = vexp^2 for every state and abscissa. *)
Theorem C14_spectralValue_sq :
  forall vexp a b t0 : Q, spectralValue vexp a b t0 * spectralValue vexp a b t0 == vexp * vexp.
Proof. exact spectralValue_sq. Qed.

(* +vexp on the first half of the Poisson interval (midpoint included) ... *)
Theorem C14_spectralValue_first_half :
  forall vexp a b t0 : Q, 2 * t0 <= a + b -> spectralValue vexp a b t0 = vexp.
Proof. exact spectralValue_first_half. Qed.

(* ... -vexp on the second half. *)
Theorem C14_spectralValue_second_half :
  forall vexp a b t0 : Q, a + b < 2 * t0 -> spectralValue vexp a b t0 = - vexp.
Proof. exact spectralValue_second_half. Qed.

(* The integral of the value over a full Poisson interval is exactly 0. *)
Theorem C14_migration_interval_mean :
  forall vexp a b : Q, integ [vexp] a ((a + b) / 2) + integ [- vexp] ((a + b) / 2) b == 0.
Proof. exact migration_interval_mean. Qed.

(* Second moment of vexp = 0.9 + 0.1967708298 u over an ideal uniform u: 1 within 3e-11 (exact polynomial integral). *)
Theorem C14_vexp_second_moment :
  Qabs (integ vexp_sq_poly 0 1 - 1) < 0.00000000003.
Proof. exact vexp_second_moment. Qed.
Print Assumptions C14_vexp_second_moment.


(* ============================================================ B3. cosine process: discrete orthogonality over the ring of pairs (c,s) *)
(* Sum of the powers q^0..q^(N-1) is 0 when q^N = 1 and q <> 1 (geometric sum in the ring of pairs). *)
Theorem C14_roots_sum_zero :
  forall (q : C2) (N : nat),
         ceq (cpow q N) cone -> ~ ceq q cone -> ceq (csum (cpow q) N) czero.
Proof. exact roots_sum_zero. Qed.

(* MAIN: over N equally spaced phases the sum of 2 cos(a+phi_j) cos(b+phi_j) is exactly N cos(a-b). *)
Theorem C14_cosine_discrete_orthogonality :
  forall (za zb p0 w : C2) (N : nat),
         cnorm2 p0 == 1 ->
         cnorm2 w == 1 ->
         ceq (cpow (cmul w w) N) cone ->
         ~ ceq (cmul w w) cone ->
         qsumn
           (fun j : nat =>
            2 * fst (cmul za (cmul p0 (cpow w j))) * fst (cmul zb (cmul p0 (cpow w j)))) N ==
         inject_Z (Z.of_nat N) * fst (cmul za (cconj zb)).
Proof. exact cosine_discrete_orthogonality. Qed.
Print Assumptions C14_cosine_discrete_orthogonality.

(* With correc^2 = 2 (_spectralInit returns sqrt(2.)): correc^2 * mean over the phases of the product = cos(a-b); variance 1 for a = b. *)
Theorem C14_cosine_process_covariance :
  forall (za zb p0 w : C2) (N : nat),
         (0 < N)%nat ->
         cnorm2 p0 == 1 ->
         cnorm2 w == 1 ->
         ceq (cpow (cmul w w) N) cone ->
         ~ ceq (cmul w w) cone ->
         correc2_spectral *
         (qsumn (fun j : nat => cos_phase za p0 w j * cos_phase zb p0 w j) N / inject_Z (Z.of_nat N)) ==
         fst (cmul za (cconj zb)).
Proof. exact cosine_process_covariance. Qed.
Print Assumptions C14_cosine_process_covariance.


(* ============================================================ B4. grid recurrences *)
(* Three nested loops carrying a state: node (ix,iy,iz), rank ix + nx (iy + ny iz), sees the state stepped iz, iy, ix times. *)
Theorem C14_zloop_nth :
  forall (St Ot : Type) (out : St -> Ot) (fx fy fz : St -> St) (nz ny nx : nat) 
           (s : St) (iz iy ix : nat),
         (iz < nz)%nat ->
         (iy < ny)%nat ->
         (ix < nx)%nat ->
         nth_error (zloop St Ot out fx fy fz nz ny nx s) (ix + nx * (iy + ny * iz)) =
         Some (out (iter St ix fx (iter St iy fy (iter St iz fz s)))).
Proof. exact zloop_nth. Qed.

(* _spreadSpectralOnGrid (CalcSimuTurningBands.cpp:1086-1114): the value handed over at node (ix,iy,iz) is Re (z0 pz^iz py^iy px^ix), all nx, ny, nz. *)
Theorem C14_spectralGrid_nth :
  forall (nx ny nz : nat) (z0 px py pz : C2) (ix iy iz : nat),
         (ix < nx)%nat ->
         (iy < ny)%nat ->
         (iz < nz)%nat ->
         exists v : Q,
           nth_error (spectralGrid nx ny nz z0 px py pz) (ix + nx * (iy + ny * iz)) = Some v /\
           v == fst (cmul (cmul (cmul z0 (cpow pz iz)) (cpow py iy)) (cpow px ix)).
Proof. exact spectralGrid_nth. Qed.
Print Assumptions C14_spectralGrid_nth.

(* _spreadRegularOnGrid (:1049-1068): the abscissa handed over at node (ix,iy,iz) is t00 + ix dxp + iy dyp + iz dzp. *)
Theorem C14_regularGrid_nth :
  forall (nx ny nz : nat) (t00 dxp dyp dzp : Q) (ix iy iz : nat),
         (ix < nx)%nat ->
         (iy < ny)%nat ->
         (iz < nz)%nat ->
         exists v : Q,
           nth_error (regularGrid nx ny nz t00 dxp dyp dzp) (ix + nx * (iy + ny * iz)) = Some v /\
           v ==
           t00 + inject_Z (Z.of_nat ix) * dxp + inject_Z (Z.of_nat iy) * dyp +
           inject_Z (Z.of_nat iz) * dzp.
Proof. exact regularGrid_nth. Qed.
Print Assumptions C14_regularGrid_nth.

(* With (c,s) = cis(angle) for any function cis obeying the addition formulas: the grid recurrence evaluates cis at omega * abscissa + phi: grid spreading = point spreading in exact arithmetic. *)
Theorem C14_spectralGrid_is_point :
  forall cis : Q -> C2,
         (forall a b : Q, a == b -> ceq (cis a) (cis b)) ->
         ceq (cis 0) cone ->
         (forall a b : Q, ceq (cis (a + b)) (cmul (cis a) (cis b))) ->
         forall (omega phi t00 dxp dyp dzp : Q) (nx ny nz ix iy iz : nat),
         (ix < nx)%nat ->
         (iy < ny)%nat ->
         (iz < nz)%nat ->
         exists v : Q,
           nth_error
             (spectralGrid nx ny nz (cis (omega * t00 + phi)) (cis (omega * dxp)) 
                (cis (omega * dyp)) (cis (omega * dzp))) (ix + nx * (iy + ny * iz)) = 
           Some v /\
           v ==
           fst
             (cis
                (omega *
                 (t00 + inject_Z (Z.of_nat ix) * dxp + inject_Z (Z.of_nat iy) * dyp +
                  inject_Z (Z.of_nat iz) * dzp) + phi)).
Proof. exact spectralGrid_is_point. Qed.
Print Assumptions C14_spectralGrid_is_point.

(* cosineOne: the grid call (flagScaled, argument = recurrence value) equals the point call (argument = abscissa). *)
Theorem C14_cosineOne_grid_is_point :
  forall (cis : Q -> C2) (s : tbo) (omega phi t0 v : Q),
         tb_omega s = omega ->
         tb_phi s = phi ->
         v == fst (cis (omega * t0 + phi)) ->
         cosineOne (fun a : Q => fst (cis a))
           {|
             tb_nt0 := tb_nt0 s;
             tb_flagScaled := true;
             tb_vexp := tb_vexp s;
             tb_tdeb := tb_tdeb s;
             tb_omega := omega;
             tb_phi := phi;
             tb_offset := tb_offset s;
             tb_scale := tb_scale s;
             tb_t := tb_t s;
             tb_v0 := tb_v0 s;
             tb_v1 := tb_v1 s;
             tb_v2 := tb_v2 s
           |} v ==
         cosineOne (fun a : Q => fst (cis a))
           {|
             tb_nt0 := tb_nt0 s;
             tb_flagScaled := false;
             tb_vexp := tb_vexp s;
             tb_tdeb := tb_tdeb s;
             tb_omega := omega;
             tb_phi := phi;
             tb_offset := tb_offset s;
             tb_scale := tb_scale s;
             tb_t := tb_t s;
             tb_v0 := tb_v0 s;
             tb_v1 := tb_v1 s;
             tb_v2 := tb_v2 s
           |} t0.
Proof. exact cosineOne_grid_is_point. Qed.


(* ============================================================ B6. integrated Wiener-Levy process: tables (_irfProcessInit) against the sampler (_irfProcessSample) *)
(* MAIN: the code as it is (CalcSimuTurningBands.cpp:953-971), level 1 (ORDER3_GC): the sampled process is continuous at every Poisson
   point (value reached from the interval on the left = value taken in the interval that starts there) ... *)
Theorem C14_irf_level1_continuous :
  forall (t g : list Q) (i : nat),
         length g = Init.Nat.pred (length t) ->
         (S i < length t)%nat ->
         exists L R : Q,
           irfSample (irf_state false 1 t g) (Z.of_nat i) (nth (S i) t 0) = Some (Some L) /\
           irfSample (irf_state false 1 t g) (Z.of_nat (S i)) (nth (S i) t 0) = Some (Some R) /\
           R == L.
Proof. exact irf_level1_continuous. Qed.
Print Assumptions C14_irf_level1_continuous.

(* ... and level 2 (ORDER5_GC) too. *)
Theorem C14_irf_level2_continuous :
  forall (t g : list Q) (i : nat),
         length g = Init.Nat.pred (length t) ->
         (S i < length t)%nat ->
         exists L R : Q,
           irfSample (irf_state false 2 t g) (Z.of_nat i) (nth (S i) t 0) = Some (Some L) /\
           irfSample (irf_state false 2 t g) (Z.of_nat (S i)) (nth (S i) t 0) = Some (Some R) /\
           R == L.
Proof. exact irf_level2_continuous. Qed.
Print Assumptions C14_irf_level2_continuous.

(* The tables of the code are the integrals that _irfProcessSample assumes: v0 cumulates the draws, v1[i+1] = v1[i] + integral over the
   interval of the constant v0[i], v2[i+1] = v2[i] + integral of the level-1 polynomial v1[i] + v0[i] s. *)
Theorem C14_irf_tables_are_integrals :
  forall (t g : list Q) (i : nat),
         length g = Init.Nat.pred (length t) ->
         (S i < length t)%nat ->
         let rows := irf_rows false t g in
         let p := nth i rows rz in
         let q := nth (S i) rows rz in
         let delta := nth (S i) t 0 - nth i t 0 in
         r0 q == r0 p + nth i g 0 /\
         r1 q == r1 p + integ [r0 p] 0 delta /\ r2 q == r2 p + integ [r1 p; r0 p] 0 delta.
Proof. exact irf_tables_are_integrals. Qed.
Print Assumptions C14_irf_tables_are_integrals.

(* REGRESSION (defect cured by commit 61380c95b): with the recurrences used before it ([irf_loop_old], irf_state true), level 1: at the
   Poisson point t[i+1] the sampled process jumped by g_i (t[i+1] - t[i]). *)
Theorem C14_old_irf_level1_jump :
  forall (t g : list Q) (i : nat),
         length g = Init.Nat.pred (length t) ->
         (S i < length t)%nat ->
         exists L R : Q,
           irfSample (irf_state true 1 t g) (Z.of_nat i) (nth (S i) t 0) = Some (Some L) /\
           irfSample (irf_state true 1 t g) (Z.of_nat (S i)) (nth (S i) t 0) = Some (Some R) /\
           R - L == nth i g 0 * (nth (S i) t 0 - nth i t 0).
Proof. exact old_irf_level1_jump. Qed.
Print Assumptions C14_old_irf_level1_jump.

(* REGRESSION (cured by commit 61380c95b), level 2 (ORDER5_GC): jump (v0[i+1] + g_i / 2) (t[i+1] - t[i])^2. *)
Theorem C14_old_irf_level2_jump :
  forall (t g : list Q) (i : nat),
         length g = Init.Nat.pred (length t) ->
         (S i < length t)%nat ->
         exists L R : Q,
           irfSample (irf_state true 2 t g) (Z.of_nat i) (nth (S i) t 0) = Some (Some L) /\
           irfSample (irf_state true 2 t g) (Z.of_nat (S i)) (nth (S i) t 0) = Some (Some R) /\
           R - L ==
           (r0 (nth (S i) (irf_rows true t g) rz) + nth i g 0 / 2) * (nth (S i) t 0 - nth i t 0) *
           (nth (S i) t 0 - nth i t 0).
Proof. exact old_irf_level2_jump. Qed.

(* REGRESSION (cured by commit 61380c95b): the statement "the sampled integrated process is continuous at the Poisson points" was false
   for the recurrences used before it (witness t = 0,1,2, g = 1,1). *)
Theorem C14_old_irf_continuity_refuted :
  exists (t g : list Q) (L R : Q),
           incr t /\
           length g = Init.Nat.pred (length t) /\
           irfSample (irf_state true 1 t g) 0 (tq t 1) = Some (Some L) /\
           irfSample (irf_state true 1 t g) 1 (tq t 1) = Some (Some R) /\ ~ R == L.
Proof. exact old_irf_continuity_refuted. Qed.
Print Assumptions C14_old_irf_continuity_refuted.

(* Inside an interval the level-2 polynomial has the level-1 one as derivative, and level 1 has the Wiener-Levy value as derivative. *)
Theorem C14_irf_sampler_derivative :
  forall a0 a1 a2 : Q,
         Forall2 Qeq (pderiv [a2; a1; a0 / 2]) [a1; a0] /\ Forall2 Qeq (pderiv [a1; a0]) [a0].
Proof. exact irf_sampler_derivative. Qed.


(* ============================================================ non-vacuity: the hypotheses of the theorems above are jointly satisfiable *)
(* rank: t = 0,1,3,7, t0 = 2: interval 1 whatever the cache (0, 1 or 2) *)
Example C14_rank_correct_nonvacuous :
  incr [0; 1; 3; 7] /\ (2 <= Z.of_nat (length ([0; 1; 3; 7]%Q : list Q)))%Z /\ tq [0; 1; 3; 7] 0 <= 2 /\ 2 < tq [0; 1; 3; 7] 3
  /\ rankInPoisson 0 2 [0; 1; 3; 7] = Some 1%Z /\ rankInPoisson 1 2 [0; 1; 3; 7] = Some 1%Z
  /\ rankInPoisson 2 2 [0; 1; 3; 7] = Some 1%Z
  /\ rankInPoisson 2 (-(1)) [0; 1; 3; 7] = Some 0%Z /\ rankInPoisson 0 7 [0; 1; 3; 7] = Some 2%Z
  /\ rankInPoisson 3 7 [0; 1; 3; 7] = None.
Proof. vm_compute. repeat split; reflexivity || (intro; discriminate). Qed.
Example C14_rank_history_independent_nonvacuous :
  rankInPoisson 0 (13 # 2) [0; 1; 3; 7; 8; 20] = rankInPoisson 4 (13 # 2) [0; 1; 3; 7; 8; 20]
  /\ rankInPoisson 0 (13 # 2) [0; 1; 3; 7; 8; 20] = Some 2%Z.
Proof. vm_compute. split; reflexivity. Qed.
Example C14_spectralSeq_history_independent_nonvacuous :
  let s := mkTbo 2 false (9 # 10) 0 0 0 0 1 [0; 1; 3; 7] [] [] [] in
  spectralSeq s [2; (1 # 2); 6; (5 # 2); 0] =
  [Some (1%Z, 9 # 10); Some (0%Z, 9 # 10); Some (2%Z, - (9 # 10)); Some (1%Z, - (9 # 10)); Some (0%Z, 9 # 10)].
Proof. vm_compute. reflexivity. Qed.
Example C14_spectral_above_all_nonvacuous :
  let s := mkTbo 0 false (9 # 10) 0 0 0 0 1 [1; 0; -(1)] [] [] [] in
  spectralOne s 5 = Some (set_nt0 s 1, - (9 # 10)) /\ spectralOne s 100 = Some (set_nt0 s 1, - (9 # 10)).
Proof. vm_compute. split; reflexivity. Qed.
(* _migrationInit: tmin 0, tmax 5, scale 1, draws 1, 2, 2, 2, 2 (scale kept) ; tmin 0, tmax 200000, scale 1/2 (bounded below: 2) *)
Example C14_migration_covers_nonvacuous :
  option_map (map Qred) (migrationInitT 0 5 1 1 2 [2; 2; 2]) = Some [-(1); 2; 4; 6]
  /\ mig_clamp 0 5 1 == 1 /\ mig_clamp 0 200000 (1 # 2) == 2
  /\ option_map (map Qred) (migrationInitT 0 200000 (1 # 2) 1 1 [50000; 50000; 50000]) = Some [-(2); 2; 100002; 200002]
  /\ 0 < (1 # 2 : Q) /\ 0 <= (1 : Q) /\ 0 < (2 : Q) /\ Forall (fun e => 0 < e) ([2; 2; 2] : list Q).
Proof. repeat split; try (vm_compute; reflexivity); try discriminate. repeat constructor. Qed.
(* _dilutionInit: tmin 0, tmax 10, scale 3, u = 1/2: tdeb = -3/2, 4 cells; abscissa 10 falls in cell 3 *)
Example C14_dilution_covers_nonvacuous :
  let s := mkTbo 0 false 0 (dil_tdeb 0 3 (1 # 2)) 0 0 0 3 [1; -(1); -(1); 1] [] [] [] in
  dil_count 10 (tb_tdeb s) (tb_scale s) 10 0 = Some 4%Z /\ Z.of_nat (length (tb_t s)) = 4%Z
  /\ qtrunc (shot_dt s 10) = 3%Z /\ option_map Qred (shotAffine s 10) = Some (2 # 3) /\ option_map Qred (shotAffine s 0) = Some 0
  /\ option_map Qred (shotCubic s 10) = Some (- (5 # 108)).
Proof. vm_compute. repeat split; reflexivity. Qed.
Example C14_shotAffine_bound_nonvacuous :
  let s := mkTbo 0 true 0 (-(3 # 2)) 0 0 0 1 [1; -(1); -(1); 1] [] [] [] in
  0 <= shot_dt s (7 # 4) /\ option_map Qred (shotAffine s (7 # 4)) = Some (- (1 # 2)) /\ (forall e, In e (tb_t s) -> e * e == 1).
Proof.
  split; [vm_compute; discriminate|]. split; [vm_compute; reflexivity|].
  intros e H. simpl in H. destruct H as [<-|[<-|[<-|[<-|[]]]]]; reflexivity.
Qed.
(* outside the reachable domain (dt < 0) the truncation toward zero breaks the bound: dt = -1/2 gives |value| = 2 *)
Example C14_shotAffine_negative_dt :
  option_map Qred (shotAffine (mkTbo 0 true 0 (1 # 2) 0 0 0 1 [1] [] [] []) 0) = Some (-(2)).
Proof. vm_compute. reflexivity. Qed.
Example C14_sign_orth_nonvacuous :
  qsum (map (fun e => nth 0 e 0 * nth 2 e 0) (signs 3)) == 0 /\ qsum (map (fun e => nth 1 e 0 * nth 1 e 0) (signs 3)) == 8
  /\ length (signs 3) = 8%nat.
Proof. vm_compute. repeat split; reflexivity. Qed.
Example C14_dilution_cov_nonvacuous :
  3 * integ (sph_integrand (1 # 2)) 0 (1 # 2) == 1 - 3 * (1 # 2) + 2 * (1 # 8)
  /\ 840 * integ (cub_integrand 0) 0 1 == 1 /\ peval C_cub (1 # 2) == 123 # 512.
Proof. vm_compute. repeat split; reflexivity. Qed.
(* discrete orthogonality with N = 4, w = i, phi0 with (cos, sin) = (3/5, 4/5), a with (5/13, 12/13), b with (-4/5, 3/5) *)
Example C14_cosine_discrete_orthogonality_nonvacuous :
  let w : C2 := (0, 1) in let p0 : C2 := (3 # 5, 4 # 5) in let za : C2 := (5 # 13, 12 # 13) in let zb : C2 := (-(4 # 5), 3 # 5) in
  cnorm2 p0 == 1 /\ cnorm2 w == 1 /\ ceq (cpow (cmul w w) 4) cone /\ ~ ceq (cmul w w) cone
  /\ qsumn (fun j => 2 * fst (cmul za (cmul p0 (cpow w j))) * fst (cmul zb (cmul p0 (cpow w j)))) 4
     == 4 * fst (cmul za (cconj zb))
  /\ fst (cmul za (cconj zb)) == 16 # 65.
Proof.
  cbv zeta. split; [vm_compute; reflexivity|]. split; [vm_compute; reflexivity|].
  split; [vm_compute; split; reflexivity|]. split; [intros [H _]; vm_compute in H; discriminate|].
  split; vm_compute; reflexivity.
Qed.
(* the abstract angle function: the hypotheses of C14_spectralGrid_is_point hold for the pairs of any subgroup; trivial instance *)
Example C14_spectralGrid_is_point_nonvacuous :
  let cis := fun _ : Q => cone in
  (forall a b, a == b -> ceq (cis a) (cis b)) /\ ceq (cis 0) cone /\ (forall a b, ceq (cis (a + b)) (cmul (cis a) (cis b))).
Proof. cbv zeta. split; [intros; apply ceq_refl|]. split; [apply ceq_refl|]. intros; vm_compute; split; reflexivity. Qed.
(* a non-trivial run of the recurrences: rotation by (3/5, 4/5) per x step, by (0,1) per y step, 3 x 2 x 1 nodes *)
Example C14_spectralGrid_nth_nonvacuous :
  spectralGrid 3 2 1 (1, 0) (3 # 5, 4 # 5) (0, 1) (1, 0) = [1; 3 # 5; - (7 # 25); 0; - (4 # 5); - (24 # 25)]
  \/ Forall2 Qeq (spectralGrid 3 2 1 (1, 0) (3 # 5, 4 # 5) (0, 1) (1, 0)) [1; 3 # 5; - (7 # 25); 0; - (4 # 5); - (24 # 25)].
Proof. right. vm_compute. repeat constructor. Qed.
Example C14_regularGrid_nth_nonvacuous :
  Forall2 Qeq (regularGrid 2 2 2 10 1 (1 # 2) (-(3))) [10; 11; 21 # 2; 23 # 2; 7; 8; 15 # 2; 17 # 2].
Proof. vm_compute. repeat constructor. Qed.
(* integrated Wiener-Levy tables of the code for t = 0,1,2 and draws 1,1 ; and with the recurrences used before commit 61380c95b *)
Example C14_irf_tables_nonvacuous :
  irf_tables false 2 [0; 1; 2] [1; 1] = ([0; 0 + 1; 0 + 1 + 1], snd (fst (irf_tables false 2 [0; 1; 2] [1; 1])), snd (irf_tables false 2 [0; 1; 2] [1; 1]))
  /\ Forall2 Qeq (snd (fst (irf_tables false 2 [0; 1; 2] [1; 1]))) [0; 0; 1]
  /\ Forall2 Qeq (snd (irf_tables false 2 [0; 1; 2] [1; 1])) [0; 0; 1 # 2]
  /\ Forall2 Qeq (snd (fst (irf_tables true 2 [0; 1; 2] [1; 1]))) [0; 1; 3]
  /\ Forall2 Qeq (snd (irf_tables true 2 [0; 1; 2] [1; 1])) [0; 3 # 2; 11 # 2].
Proof. split; [reflexivity|]. repeat split; vm_compute; repeat constructor. Qed.
Example C14_vexp_range_nonvacuous : vexp_of 0 == 9 # 10 /\ vexp_of 1 == 10967708298 # 10000000000.
Proof. vm_compute. split; reflexivity. Qed.
End Part_proc.
Export Part_proc.
(* END PART proc_props *)
(* BEGIN PART fft_props *)
(* ================================ part fft ================================ *)
Module Part_fft.
Import List ZArith QArith Znumtheory Bool Lia.
Import C14.FFT C14.Proofs_fft_ops C14.Proofs_fft_sym C14.Proofs_fft_layout C14.Proofs_fft_misc C14.Proofs_fft_opt C14.Proofs_fft_lag C14.Proofs_spectral_assoc.
Import ListNotations.
Local Open Scope Z_scope.
(* C14 / part fft : the theorems (index algebra of CalcSimuFFT.cpp, coefficient of SimuSpectral.cpp). *)





(* ---- 1. _getFactors / _getOptimalEvenNumber ---- *)

(* _getFactors(number), number >= 1, terminates (with the model's fuel) and returns the exact prime factorisation
   (the list [1] for number = 1); every entry divides the number and is 1, 2 or an odd number >= 3. *)
Theorem C14_fft_factors_exact : forall number, 1 <= number ->
  exists fs, get_factors number = Some fs /\ list_prod fs = number /\
    (number = 1 /\ fs = [1] \/ 2 <= number /\ Forall prime fs) /\
    (forall f, In f fs -> (f | number) /\ (f = 1 \/ f = 2 \/ (3 <= f /\ Z.odd f = true))).
Proof. exact get_factors_spec. Qed.

(* _getFactors(0) never terminates in the C++ (0 % 2 == 0 for ever): the model exhausts any fuel. Not reachable from _alloc:
   the argument is _shift[i] + nx[i] >= 1, incremented to an even number >= 2. *)
Theorem C14_fft_factors_zero_diverges : get_factors 0 = None /\ forall fuel j acc, div_out fuel j 0 acc = None.
Proof. split; [exact get_factors_zero|exact div_out_zero]. Qed.

(* _getOptimalEvenNumber(number, largeFactor), number >= 1, largeFactor >= 2: terminates, result even, number <= r < 2 number + 2,
   accepted with its exact prime factorisation, every prime divisor <= largeFactor, and every smaller even candidate has a
   prime factor > largeFactor (r is the smallest smooth even number >= number). *)
Theorem C14_fft_optimal_even : forall number large, 1 <= number -> 2 <= large ->
  exists r, get_optimal_even number large = Some r /\
    Z.even r = true /\ number <= r < 2 * number + 2 /\
    accepted large r /\
    (forall p, prime p -> (p | r) -> p <= large) /\
    (forall m, number <= m < r -> Z.even m = true -> rejected large m).
Proof. exact get_optimal_even_spec. Qed.
Print Assumptions C14_fft_optimal_even.
Example C14_fft_optimal_even_nonvacuous : get_optimal_even 23 11 = Some 24 /\ get_optimal_even 26 11 = Some 28 /\ get_factors 360 = Some [2; 2; 2; 3; 3; 5].
Proof. vm_compute. auto. Qed.

(* the dimensions computed by _alloc satisfy the hypothesis of the symmetry theorems *)
Theorem C14_fft_alloc_dims_good : forall a b c, 1 <= a -> 1 <= b -> 1 <= c ->
  exists ra rb rc, get_optimal_even a 11 = Some ra /\ get_optimal_even b 11 = Some rb /\ get_optimal_even c 11 = Some rc /\
    good_dims 3 (mkD ra rb rc) /\ good_dims 2 (mkD ra rb 1) /\ good_dims 1 (mkD ra 1 1).
Proof. exact alloc_dims_good. Qed.

(* ---- 2. wrap map and negation map ---- *)

(* neg is an involution of [0,d) *)
Theorem C14_fft_neg_involution : forall d x, 0 <= x < d -> 0 <= neg1 d x < d /\ neg1 d (neg1 d x) = x.
Proof. intros d x H. split; [apply neg1_range|apply neg1_invol]; exact H. Qed.

(* the wrapped lag of the opposite index is the opposite lag, except at the Nyquist index d/2 where both are +d/2 *)
Theorem C14_fft_wrap_negation : forall d h, ev d h ->
  (forall x, 0 <= x < d -> x <> h -> jnd d h (neg1 d x) = - jnd d h x) /\ neg1 d h = h /\ jnd d h h = h.
Proof. intros d h He. split; [intros x Hx Hn; apply jnd_neg; assumption|apply jnd_nyquist; exact He]. Qed.
Example C14_fft_wrap_negation_nonvacuous : ev 6 3 /\ map (jnd 6 3) [0;1;2;3;4;5] = [0;1;2;3;-2;-1] /\ map (neg1 6) [0;1;2;3;4;5] = [0;5;4;3;2;1].
Proof. vm_compute. repeat split; congruence. Qed.

(* 1-D: the periodic covariance array of an even covariance is even, Nyquist index included *)
Theorem C14_fft_cper_even_1d : forall (A : Type) (f : Z -> A) d h x,
  (forall t, f (- t) = f t) -> ev d h -> 0 <= x < d -> f (jnd d h (neg1 d x)) = f (jnd d h x).
Proof. intros A. exact (@cper_even_1d A). Qed.
(* 2-D/3-D: for a covariance even in each lag coordinate (anisotropy along the grid axes) the whole array is even;
   for a covariance that is only centrally symmetric (rotated anisotropy) it is even away from the Nyquist planes ... *)
Theorem C14_fft_cper_even_separable : forall (A : Type) (F : Z -> Z -> Z -> A) d k,
  (forall a b c, F (- a) b c = F a b c) -> (forall a b c, F a (- b) c = F a b c) -> (forall a b c, F a b (- c) = F a b c) ->
  axes d -> inbox d k -> cper d F (negc d k) = cper d F k.
Proof. intros A. exact (@cper_even_separable A). Qed.
Theorem C14_fft_cper_even_central : forall (A : Type) (F : Z -> Z -> Z -> A) d k,
  (forall a b c, F (- a) (- b) (- c) = F a b c) -> axes d -> inbox d k ->
  (let '(x, y, z) := k in (x <> hx d \/ hx d = 0) /\ (y <> hy d \/ hy d = 0) /\ (z <> hz d \/ hz d = 0)) ->
  cper d F (negc d k) = cper d F k.
Proof. intros A. exact (@cper_even_central A). Qed.
(* ... and NOT on them (model-level witness F(a,b) = a b on 4 x 4 at cell (2,1)): there the array filled by _prepar is not
   even, its transform is not real, and _prepar keeps the real part only (the size of the effect is bounded by the covariance
   at half the extended grid, which _gridDilate makes < percent of the sill). *)
Theorem C14_fft_cper_nyquist_refuted :
  exists d (F : Z -> Z -> Z -> Z) k, (forall a b c, F (- a) (- b) (- c) = F a b c) /\ good_dims 2 d /\ inbox d k /\
    cper d F (negc d k) <> cper d F k.
Proof. exact cper_nyquist_refuted. Qed.

(* the covariance is now evaluated on the increment VECTOR (commit cdb459fb2): the two theorems above are stated for an arbitrary
   function F of the integer lag vector (jnd0, jnd1, jnd2), anisotropy included. REGRESSION: before that commit only the NORM of
   the lag entered; an array built from a function of the norm is invariant under the exchange of the axes (no anisotropy) *)
Theorem C14_old_fft_norm_only_isotropic : forall (A : Type) (g : Z -> A) d x y z,
  dx d = dy d ->
  cper d (fun a b c => g (a * a + b * b + c * c)) (y, x, z) = cper d (fun a b c => g (a * a + b * b + c * c)) (x, y, z).
Proof. intros A. exact (@cper_norm_only_symmetric A). Qed.

(* anti-aliasing pass of _prepar (CalcSimuFFT.cpp:509-518, delta = DX * _dims since commit f6d25e5eb): the copies are shifted by
   multiples of the EXTENDED period, so every summed lag is congruent to the cell index modulo the period of the array (the summed
   array is the folding of the covariance modulo d: it has the period of the FFT) ... *)
Theorem C14_fft_alias_fold : forall d h x k, ev d h -> 0 <= x < d -> (jnd d h x + k * d) mod d = x.
Proof. exact alias_fold. Qed.
(* ... and the summed array (times the constant coeff) is even under the negation map away from the Nyquist planes, for an arbitrary
   centrally symmetric covariance of the lag vector and the symmetric range of shifts of the code *)
Theorem C14_fft_alias_even : forall d (F : Z -> Z -> Z -> Q) Kx Ky Kz k,
  (forall a b c, (F (- a)%Z (- b)%Z (- c)%Z == F a b c)%Q) -> axes d -> inbox d k ->
  (let '(x, y, z) := k in (x <> hx d \/ hx d = 0) /\ (y <> hy d \/ hy d = 0) /\ (z <> hz d \/ hz d = 0)) ->
  (cper_alias d F Kx Ky Kz (negc d k) == cper_alias d F Kx Ky Kz k)%Q.
Proof. exact cper_alias_even. Qed.
Example C14_fft_alias_even_nonvacuous :
  let d := mkD 4 4 1 in let F := fun a b c : Z => inject_Z (100 - a * a - a * b - 2 * b * b) in
  let A := fun k : cell => cper_alias d F 1%nat 1%nat 0%nat k in
  (A (1, 3, 0)%Z == A (3, 1, 0)%Z)%Q /\ ~ (A (1, 3, 0)%Z == A (1, 1, 0)%Z)%Q.
Proof. vm_compute. split; [reflexivity|discriminate]. Qed.
(* REGRESSION (before commit f6d25e5eb the shifts were multiples of the ORIGINAL grid size, finding CalcSimuFFT:antialiasing-wrong-period):
   the summed lags are no longer congruent to the cell index; witness extended size 8, original size 3 *)
Theorem C14_old_fft_alias_period_refuted : exists d h nx x k, ev d h /\ 0 <= x < d /\ (jnd d h x + k * nx) mod d <> x.
Proof. exact alias_fold_old_refuted. Qed.

(* ---- 2b. from the wrapped indices of a cell to the real-space lag, rotated grids included ---- *)
(* the grid geometry (node = indices -> coordinates: mesh, rotation, origin) is the model of property C16, used qualified *)

(* _prepar (CalcSimuFFT.cpp:438-452, :502-508): with xyz1[j] = node(e_j) - node(0), the lag xyz[i] = sum_j jnd[j] * xyz1[j][i] of the index
   vector jnd is the coordinate difference node(jnd) - node(0) = R.(jnd * dx), for every well-formed grid, rotated or not, any dimension *)
Theorem C14_fft_lag_is_coordinate_difference : forall n g jnd, C16.Spec.wfgrid n g -> length jnd = n ->
  C16.Spec.eqlQ (lag_of (step_mat g n) n jnd) (C16.Model.vsub (C16.Model.node g jnd) (C16.Model.node g (zero_ind n))) /\
  C16.Spec.eqlQ (lag_of (step_mat g n) n jnd)
                (C16.Model.rotate_direct (C16.Model.g_rot g) (C16.Model.map2 Qmult (map inject_Z jnd) (C16.Model.g_dx g))).
Proof. exact lag_is_coordinate_difference. Qed.
Print Assumptions C14_fft_lag_is_coordinate_difference.
Example C14_fft_lag_is_coordinate_difference_nonvacuous :
  C16.Spec.wfgrid 2 lag_witness_grid /\
  map Qred (lag_of (step_mat lag_witness_grid 2) 2 [2; -1]) = [2 # 1; 1 # 1]%Q /\
  map Qred (C16.Model.vsub (C16.Model.node lag_witness_grid [2; -1]) (C16.Model.node lag_witness_grid [0; 0])) = [2 # 1; 1 # 1]%Q /\
  map Qred (lag_of_transposed (step_mat lag_witness_grid 2) 2 [2; -1]) = [2 # 5; -11 # 5]%Q.
Proof. split; [exact lag_witness_wf|]. repeat split; vm_compute; reflexivity. Qed.

(* REGRESSION (seeded change C14_1): the transposed reading sum_j jnd[j] * xyz1[i][j] is NOT the coordinate difference on a rotated grid:
   unit mesh, rotation (cos, sin) = (3/5, 4/5), index vector (1,0): lag (3/5, 4/5), transposed form (3/5, -4/5) ... *)
Theorem C14_fft_lag_transposed_refuted :
  exists g jnd, C16.Spec.wfgrid 2 g /\ length jnd = 2%nat /\
    ~ C16.Spec.eqlQ (lag_of_transposed (step_mat g 2) 2 jnd) (C16.Model.vsub (C16.Model.node g jnd) (C16.Model.node g (zero_ind 2))).
Proof. exact lag_transposed_refuted. Qed.
Print Assumptions C14_fft_lag_transposed_refuted.
(* ... and coincides with the code when the grid is not rotated (the library keeps the rotation flagged off for the identity): why that
   change is bit-identical on unrotated grids *)
Theorem C14_fft_lag_transposed_unrotated : forall n g jnd, C16.Spec.wfgrid n g -> length jnd = n ->
  C16.Model.r_flag (C16.Model.g_rot g) = false ->
  C16.Spec.eqlQ (lag_of_transposed (step_mat g n) n jnd) (lag_of (step_mat g n) n jnd).
Proof. exact lag_transposed_unrotated. Qed.

(* ---- 3. _defineSym1 / _defineSym2 / _defineSym3 ---- *)

(* FULL STRENGTH, all even dimensions, 1-D / 2-D / 3-D: after the operations of _defineSymmetry (executed in the order of the
   loops, later writes win) the pair of arrays is Hermitian in the (ix,iy,iz) coordinates: u(-k) = u(k), v(-k) = -v(k) for every
   cell of the box; every self-conjugate cell has v = 0 and keeps its u; every source cell keeps u and v (the free half). *)
Theorem C14_fft_symmetry_hermitian : forall ndim d u v,
  good_dims ndim d ->
  let s := run_ops (define_symmetry ndim d) (u, v) in
  herm_cell d (fst s) (snd s) /\
  (forall k, Rc d k -> fst s k = u k /\ snd s k = 0%Q) /\
  (forall k, srcc d k -> fst s k = u k /\ snd s k = v k).
Proof. exact define_symmetry_hermitian. Qed.
Print Assumptions C14_fft_symmetry_hermitian.
Example C14_fft_symmetry_hermitian_nonvacuous :
  good_dims 3 (mkD 4 6 2) /\ good_dims 2 (mkD 2 4 1) /\ good_dims 1 (mkD 6 1 1) /\
  length (define_symmetry 3 (mkD 4 6 2)) = 28%nat /\
  (let '(U, V) := symmetrize (IND (mkD 4 6 2)) 3 (mkD 4 6 2) wU wV in herm_lin_b (mkD 4 6 2) U V = true).
Proof.
  split; [|split; [|split; [|split]]].
  - unfold good_dims; simpl. repeat split; try lia; [exists 2|exists 3|exists 1]; lia.
  - unfold good_dims; simpl. repeat split; try lia; [exists 1|exists 2]; lia.
  - unfold good_dims; simpl. repeat split; try lia; exists 3; lia.
  - vm_compute. reflexivity.
  - vm_compute. reflexivity.
Qed.
(* the cells: every box cell is self-conjugate, a source, or the opposite of a source (so the free real degrees of freedom
   are |R| + 2 |S| = d0 d1 d2: Example below by computation for a few sizes) *)
Theorem C14_fft_cells_trichotomy : forall d k, axes d -> inbox d k ->
  Rc d k \/ srcc d k \/ (srcc d (negc d k) /\ negc d (negc d k) = k).
Proof. intros d k H. apply trichotomy. exact H. Qed.
Example C14_fft_free_dof_sample :
  map free_dof [mkD 6 1 1; mkD 2 2 1; mkD 6 4 1; mkD 4 6 8; mkD 2 2 2; mkD 8 2 6] = [6; 4; 24; 192; 8; 96].
Proof. vm_compute. reflexivity. Qed.

(* ---- 4. layout ---- *)

(* POSITIVE, about the code as it is (macro IND = ix + d0 (iy + d1 iz) since commit f1042d400): after _defineSymmetry the memory
   addressed through IND is Hermitian for the (d0,d1,d2) DFT whose first dimension is the fastest (what fftn computes),
   for ALL even sizes, 1-D / 2-D / 3-D. *)
Theorem C14_fft_layout_hermitian : forall ndim d U V,
  good_dims ndim d ->
  herm_lin d (fst (symmetrize (IND d) ndim d U V)) (snd (symmetrize (IND d) ndim d U V)).
Proof. exact layout_hermitian. Qed.
Print Assumptions C14_fft_layout_hermitian.

(* _final reads U(jx,jy,jz) = _u[IND(jx,jy,jz)]: IND is the order in which _prepar fills and fftn transforms, so the cell read is the
   cell filled for the node (jx,jy,jz): no exchange of axes *)
Theorem C14_fft_final_reads_filled_cell : forall d j k,
  IND d k = lin_fill d k /\ (inbox d j -> inbox d k -> IND d j = lin_fill d k -> j = k).
Proof. exact final_reads_filled_cell. Qed.

(* REGRESSION (macro before commit f1042d400, IND_old = iz + d2 (iy + d1 ix)), equal extreme dimensions: IND_old(transposed cell) =
   fill order, the memory was still Hermitian for fftn - but the cell (ix,iy,iz) of the code sat where fftn sees the node (iz,iy,ix):
   x and z (2-D: x and y) were exchanged (finding CalcSimuFFT:axes-swapped) *)
Theorem C14_old_fft_layout_square : forall d U V,
  (good_dims 3 d -> dx d = dz d ->
     (forall j, inbox d j -> IND_old d (transp3 j) = lin_fill d j) /\
     herm_lin d (fst (symmetrize (IND_old d) 3 d U V)) (snd (symmetrize (IND_old d) 3 d U V))) /\
  (good_dims 2 d -> dx d = dy d ->
     (forall j, inbox d j -> IND_old d (transp2 j) = lin_fill d j) /\
     herm_lin d (fst (symmetrize (IND_old d) 2 d U V)) (snd (symmetrize (IND_old d) 2 d U V))) /\
  (good_dims 1 d -> herm_lin d (fst (symmetrize (IND_old d) 1 d U V)) (snd (symmetrize (IND_old d) 1 d U V))).
Proof. intros d U V. split; [apply layout_square_3d|split; [apply layout_square_2d|apply layout_1d]]. Qed.

(* REGRESSION, REFUTED for the old macro (finding CalcSimuFFT:hermitian-layout-unequal-dims, cured by commit f1042d400): with IND_old and
   dimensions 2 x 4 the memory left by _defineSym2 is not Hermitian for the (2,4) DFT. Witness u[i] = i+1, v[i] = 1000+i: memory
   position 1 = self-conjugate frequency (1,0) keeps v = 1001. *)
Theorem C14_old_fft_layout_refuted :
  exists d U V, good_dims 2 d /\
    ~ herm_lin d (fst (symmetrize (IND_old d) 2 d U V)) (snd (symmetrize (IND_old d) 2 d U V)).
Proof. exact layout_refuted. Qed.
Print Assumptions C14_old_fft_layout_refuted.

(* ---- 5. _setVariance ---- *)

(* the loops `ix += _dim2[0]` of _defineRandom visit exactly the self-conjugate cells = the cells zeroed by _defineSymmetry *)
Theorem C14_fft_variance_cells : forall ndim d c, good_dims ndim d ->
  (In c (variance_cells ndim d) <-> Rc d c) /\ (In c (variance_cells ndim d) <-> In (Zero c) (define_symmetry ndim d)).
Proof. intros ndim d c H. split; [apply variance_cells_spec|apply variance_cells_are_zero_cells]; exact H. Qed.

(* ---- 6. real output ---- *)

(* reindexing of a box sum by the involution neg *)
Theorem C14_fft_sum_reindex : forall d (f : cell -> Q),
  0 < dx d -> 0 < dy d -> 0 < dz d -> (sum_box d (fun k => f (negc d k)) == sum_box d f)%Q.
Proof. exact sum_box_neg. Qed.

(* for a Hermitian array, an even c and an odd s (cos and sin of a phase odd in k), Im sum_k (u_k + i v_k)(c_k + i s_k) = 0:
   the inverse transform of what _defineSymmetry produces is real *)
Theorem C14_fft_real_output : forall d (u v c s : cell -> Q),
  0 < dx d -> 0 < dy d -> 0 < dz d ->
  herm_cell d u v ->
  (forall k, inbox d k -> c (negc d k) == c k)%Q ->
  (forall k, inbox d k -> s (negc d k) == - s k)%Q ->
  (im_sum d u v c s == 0)%Q.
Proof. exact hermitian_real_output. Qed.
Print Assumptions C14_fft_real_output.
Example C14_fft_real_output_nonvacuous :
  let d := mkD 4 1 1 in
  let s := fun k : cell => let '(x, _, _) := k in inject_Z (x - neg1 4 x) in
  herm_cell d (fun _ => 1%Q) s /\ (forall k, inbox d k -> (s (negc d k) == - s k)%Q) /\ ~ (s (1, 0, 0)%Z == 0)%Q.
Proof.
  cbv zeta. split; [|split].
  - intros [[x y] z] (Hx & Hy & Hz). simpl in Hx, Hy, Hz.
    assert (C : x = 0 \/ x = 1 \/ x = 2 \/ x = 3) by lia. assert (y = 0) by lia. assert (z = 0) by lia. subst y z.
    destruct C as [-> | [-> | [-> | ->]]]; vm_compute; split; reflexivity.
  - intros [[x y] z] (Hx & Hy & Hz). simpl in Hx, Hy, Hz.
    assert (C : x = 0 \/ x = 1 \/ x = 2 \/ x = 3) by lia. assert (y = 0) by lia. assert (z = 0) by lia. subst y z.
    destruct C as [-> | [-> | [-> | ->]]]; vm_compute; reflexivity.
  - vm_compute. discriminate.
Qed.

(* ---- 7. SimuSpectral::_computeOnRn ---- *)

(* CURRENT code (commit f398de2e6): scale = sqrt(2/ns) sqrt(sill): the variance coefficient scale^2 ns E[gamma^2] <cos^2> = scale^2 ns / 2
   is the sill of the model, any ns (scale0 stands for sqrt(2/ns), ssill for sqrt(sill)) *)
Theorem C14_spectral_variance_is_sill : forall scale0 ssill sill ns,
  (scale0 * scale0 * ns == 2 -> ssill * ssill == sill -> spectral_varcoef ((scale0 * ssill) * (scale0 * ssill)) ns == sill)%Q.
Proof. exact spectral_variance_is_sill. Qed.
Print Assumptions C14_spectral_variance_is_sill.
Example C14_spectral_variance_is_sill_nonvacuous : ((1 # 2) * (1 # 2) * 8 == 2 /\ (3 # 2) * (3 # 2) == 9 # 4)%Q.
Proof. split; reflexivity. Qed.
(* CURRENT code: the value is the mean of the model plus sqrt(sill) times the unit-sill fluctuation *)
Theorem C14_spectral_mean : forall cosv scale0 ssill mean sill' mean' gamma args,
  (spectral_value cosv scale0 ssill mean gamma args == mean + ssill * spectral_value_old cosv scale0 sill' mean' gamma args)%Q.
Proof. exact spectral_mean. Qed.
(* product-to-sum identity behind <cos(a+p) cos(b+p)> = cos(a-b)/2 (abstract cosine / sine values, c^2 + s^2 = 1) *)
Theorem C14_spectral_product_to_sum : forall ca sa cb sb cp sp, (cp * cp + sp * sp == 1 ->
  (ca * cp - sa * sp) * (cb * cp - sb * sp) ==
  (1 # 2) * ((ca * cb + sa * sb) + ((ca * cb - sa * sb) * (cp * cp - sp * sp) - (sa * cb + ca * sb) * (2 * sp * cp))))%Q.
Proof. exact product_to_sum. Qed.
(* REGRESSION (finding SimuSpectral:sill-ignored, cured by commit f398de2e6): the value computed by the former _computeOnRn was
   independent of the sill and of the mean of the model, and its variance coefficient was 1 whatever ns *)
Theorem C14_old_spectral_sill_ignored : forall cosv scale sill1 mean1 sill2 mean2 gamma args,
  spectral_value_old cosv scale sill1 mean1 gamma args = spectral_value_old cosv scale sill2 mean2 gamma args.
Proof. exact spectral_value_old_ignores_sill. Qed.
Theorem C14_old_spectral_varcoef_one : forall scale2 ns, (scale2 * ns == 2 -> spectral_varcoef scale2 ns == 1)%Q.
Proof. exact spectral_varcoef_one. Qed.
(* REGRESSION, REFUTED for the old code (cured by commit f398de2e6): "the variance of the output is the sill" failed, e.g. sill 4, ns 8 *)
Theorem C14_old_spectral_sill_refuted :
  exists sill ns scale2, (0 < sill /\ scale2 * ns == 2 /\ ~ spectral_varcoef scale2 ns == sill)%Q.
Proof. exact spectral_sill_refuted_old. Qed.
Print Assumptions C14_old_spectral_sill_refuted.
(* ANISOTROPY of the spectral simulator: the argument of the b-th cosine is omega_b . (T x) + phi_b, the isotropic frequencies applied
   to the coordinates brought to the isotropic space by the inverse anisotropy tensor T of the structure (rotation included), for any
   number of frequencies and any space dimension (rows of T as long as the coordinate vector) *)
Theorem C14_spectral_args_isotropic_space : forall omega tensor phi coor,
  (forall b, In b tensor -> length b = length coor) ->
  Forall2 Qeq (spectral_args omega tensor phi coor) (zipplus (mat_vec omega (mat_vec tensor coor)) phi).
Proof. exact spectral_args_assoc. Qed.
Print Assumptions C14_spectral_args_isotropic_space.
(* STATIONARITY with the anisotropy of the structure: the phase difference between two points is omega . T (x - y), so the dependence
   between the values at x and y goes through T (x - y) only *)
Theorem C14_spectral_phase_difference : forall omega tensor x y, length x = length y ->
  Forall2 Qeq (mat_vec omega (mat_vec tensor (zipminus x y)))
              (zipminus (mat_vec omega (mat_vec tensor x)) (mat_vec omega (mat_vec tensor y))).
Proof. exact spectral_phase_difference. Qed.
Print Assumptions C14_spectral_phase_difference.
(* non-vacuity, and what a transposed tensor would do: with a rotated (non-symmetric) T the arguments differ *)
Example C14_spectral_args_nonvacuous :
  let omega := [[1; 2]; [3; -1]]%Q in let T := [[1; 2]; [0; 1 # 2]]%Q in let Tt := [[1; 0]; [2; 1 # 2]]%Q in
  map Qred (spectral_args omega T [0; 1]%Q [1; 1]%Q) = [4; 19 # 2]%Q /\ map Qred (spectral_args omega Tt [0; 1]%Q [1; 1]%Q) <> [4; 19 # 2]%Q.
Proof. split; [vm_compute; reflexivity | vm_compute; discriminate]. Qed.
End Part_fft.
Export Part_fft.
(* END PART fft_props *)
(* BEGIN PART law_props *)
(* ================================ part law ================================ *)
Module Part_law.
Import List ZArith QArith Qabs Qminmax Bool Lqa Permutation.
Import lib.QAux C13.Model C13.Proofs C11.Model_vec C14.Law C14.Proofs_law C14.Proofs_law_loops C14.Proofs_law_binom.
Import ListNotations.
Local Open Scope Q_scope.
(* C14, part "law" - property theorems only (each closed by [exact] of a lemma of Proofs_law*.v).
   Scope: the clause of C14 "the basic random generators have the ... RANGES of the laws they claim to sample",
   for the old-style generator (Random_Old_Style = true), for EVERY state of the generator.  The moments are
   statistical statements and are not theorems.  The state is the integer Random_value; [lcg_next] is C13's step.
   ln / ex / sq / cs / tn / pw stand for log / exp / sqrt / cos / tan / pow of <math.h>: arbitrary functions
   constrained only by the hypotheses written in each statement. *)





(* ================================ law_uniform ================================ *)
(* law_uniform(a,b), a < b: one step of the generator, value strictly between a and b - whatever the state
   (also a state never seeded, 0, negative, or a multiple of 20000159). *)
Theorem C14_law_uniform_range : forall (a b : Q) (v : Z), a < b ->
  a < snd (l_uniform a b v) /\ snd (l_uniform a b v) < b.
Proof. exact l_uniform_range. Qed.
Print Assumptions C14_law_uniform_range.

Theorem C14_law_uniform01_range : forall v : Z, 0 < snd (l_uniform 0 1 v) /\ snd (l_uniform 0 1 v) < 1.
Proof. exact l_uniform01_range. Qed.

(* reversed bounds give a value strictly inside (b,a); equal bounds give that bound *)
Theorem C14_law_uniform_range_rev : forall (a b : Q) (v : Z), b < a ->
  b < snd (l_uniform a b v) /\ snd (l_uniform a b v) < a.
Proof. exact l_uniform_range_rev. Qed.
Theorem C14_law_uniform_degenerate : forall (a b : Q) (v : Z), a == b -> snd (l_uniform a b v) == a.
Proof. exact l_uniform_degenerate. Qed.

(* every call advances the state by exactly one step and leaves it in [1, 20000159) *)
Theorem C14_law_uniform_state : forall (a b : Q) (v : Z),
  fst (l_uniform a b v) = lcg_next v /\ (0 < fst (l_uniform a b v) < rnd_p)%Z.
Proof. intros a b v. split; [apply l_uniform_state | apply l_uniform_state_range]. Qed.

(* serial structure: from a state of [1,p) the next uniform is the fractional part of 105 times the current one -
   successive pairs of uniforms lie on 105 parallel lines of the unit square (a fact behind the "moments" clause,
   which itself stays statistical) *)
Theorem C14_law_uniform_serial_lattice : forall v : Z, (0 < v < rnd_p)%Z ->
  exists k : Z, (0 <= k < 105)%Z /\ u_of (lcg_next v) == 105 * u_of v - inject_Z k.
Proof. exact l_uniform_serial. Qed.
Print Assumptions C14_law_uniform_serial_lattice.

(* ================================ law_int_uniform / sampleInteger ================================ *)
(* law_int_uniform(a,b), a <= b, returns an integer of [a,b] for every state *)
Theorem C14_law_int_uniform_range : forall (a b v : Z), (a <= b)%Z ->
  (a <= snd (l_int_uniform a b v) <= b)%Z.
Proof. exact l_int_uniform_range. Qed.
Print Assumptions C14_law_int_uniform_range.

(* ... and every integer of [a,b] is returned from some state of [1,p), as long as the interval holds fewer
   than p = 20000159 integers: explicit witness state (105 is inverted modulo p) *)
Theorem C14_law_int_uniform_onto : forall (a b r : Z), (a <= r <= b)%Z -> (b - a + 1 < rnd_p)%Z ->
  (0 < int_uniform_witness (b - a + 1) (r - a) < rnd_p)%Z /\
  snd (l_int_uniform a b (int_uniform_witness (b - a + 1) (r - a))) = r.
Proof. exact l_int_uniform_onto. Qed.
Print Assumptions C14_law_int_uniform_onto.

(* both ends are reached from two fixed states: 11619140 (next state 1) and 8381019 (next state p-1) *)
Theorem C14_law_int_uniform_ends : forall (a b : Z), (a <= b)%Z -> (b - a + 1 < rnd_p)%Z ->
  snd (l_int_uniform a b 11619140) = a /\ snd (l_int_uniform a b 8381019) = b.
Proof. intros a b H1 H2. split; [apply l_int_uniform_low | apply l_int_uniform_high]; assumption. Qed.

(* sampleInteger(mini,maxi), mini <= maxi: round-half-away of a uniform of (mini-1/2, maxi+1/2) stays in [mini,maxi] *)
Theorem C14_sample_integer_range : forall (a b v : Z), (a <= b)%Z ->
  (a <= snd (l_sample_integer a b v) <= b)%Z.
Proof. exact l_sample_integer_range. Qed.
Print Assumptions C14_sample_integer_range.

(* ================================ law_gaussian / law_exponential ================================ *)
(* Box-Muller: exactly two draws; the argument of log lies in (0,1) (never 0: the value is finite for every
   state), the argument of cos in (0, 2 GV_PI) *)
Theorem C14_law_gaussian_args : forall v : Z,
  let '(v2, r1, r2) := gauss_args v in
  v2 = lcg_next (lcg_next v) /\ (0 < r1 /\ r1 < 1) /\ (0 < r2 /\ r2 < 2 * c_pi).
Proof. exact gauss_args_spec. Qed.
Print Assumptions C14_law_gaussian_args.

Theorem C14_law_gaussian_draws : forall (ln sq cs : Q -> Q) (mean sigma : Q) (v : Z),
  fst (l_gaussian ln sq cs mean sigma v) = lcg_next (lcg_next v).
Proof. exact l_gaussian_state. Qed.

(* the value is mean + sigma * sqrt(R) * cos(T) with R = -2 ln(r1) > 0 as soon as ln < 0 on (0,1) *)
Theorem C14_law_gaussian_form : forall ln sq cs : Q -> Q,
  (forall x : Q, 0 < x -> x < 1 -> ln x < 0) ->
  forall (mean sigma : Q) (v : Z),
  exists r1 r2 : Q, (0 < r1 /\ r1 < 1) /\ (0 < r2 /\ r2 < 2 * c_pi) /\ 0 < - (2) * ln r1 /\
    snd (l_gaussian ln sq cs mean sigma v) = sq (- (2) * ln r1) * cs r2 * sigma + mean.
Proof. exact l_gaussian_form. Qed.
Print Assumptions C14_law_gaussian_form.

(* law_exponential(lambda) > 0 for lambda > 0 (one draw) *)
Theorem C14_law_exponential_pos : forall ln : Q -> Q,
  (forall x : Q, 0 < x -> x < 1 -> ln x < 0) ->
  forall (lambda : Q) (v : Z), 0 < lambda ->
  fst (l_exponential ln lambda v) = lcg_next v /\ 0 < snd (l_exponential ln lambda v).
Proof. exact l_exponential_pos. Qed.
Print Assumptions C14_law_exponential_pos.

(* ================================ law_random_path ================================ *)
(* law_random_path(n) consumes n draws and returns a permutation of 0..n-1, for every state and every n (n = 0: empty) *)
Theorem C14_law_random_path_perm : forall (n : nat) (v : Z),
  fst (l_random_path n v) = lcg_iter n v /\
  Permutation (snd (l_random_path n v)) (map Z.of_nat (seq 0 n)).
Proof. exact l_random_path_perm. Qed.
Print Assumptions C14_law_random_path_perm.

(* ================================ law_poisson ================================ *)
(* final loop "p *= u; if (p < q) stop": every u is at most (P-1)/P, so for q > 0 the loop stops within [fuel]
   turns as soon as (P-1) p < q (P-1+fuel): termination for EVERY state with an explicit (linear) bound *)
Theorem C14_law_poisson_tail_terminates : forall (fuel : nat) (q p : Q) (v k : Z) (mg : Q),
  0 < q -> 0 <= p -> (1 <= fuel)%nat ->
  (qP - 1) * p < q * (qP - 1 + inject_Z (Z.of_nat fuel)) ->
  exists (st r : Z) (m : Q), pois_tail fuel q p v k mg = Done st r m /\ (k <= r < k + Z.of_nat fuel)%Z.
Proof. exact pois_tail_terminates. Qed.
Print Assumptions C14_law_poisson_tail_terminates.

(* law_poisson(t), t < 16, returns for every state (given exp(-t) > 0) a count of [0, fuel) *)
Theorem C14_law_poisson_small_terminates : forall (ln ex sq tn : Q -> Q) (pw : Q -> Q -> Q) (ee : Q) (fuel gfuel tfuel : nat) (t : Q) (v : Z),
  t < 16 -> 0 < ex (- t) -> (1 <= tfuel)%nat ->
  qP - 1 < ex (- t) * (qP - 1 + inject_Z (Z.of_nat tfuel)) ->
  exists (st r : Z) (m : Q),
    l_poisson ln ex sq tn pw ee fuel gfuel tfuel t v = Done st (Some r) m /\ (0 <= r < Z.of_nat tfuel)%Z.
Proof. exact l_poisson_small_terminates. Qed.

(* inner loop "if (u <= p) k++; if (n-- <= 1) stop": exactly n draws, k grows by at most n *)
Theorem C14_law_poisson_bern_count : forall (n : nat) (p : Q) (v k : Z) (mg : Q),
  let '(v', k', _) := pois_bern n p v k mg in v' = lcg_iter n v /\ (k <= k' <= k + Z.of_nat n)%Z.
Proof. exact pois_bern_spec. Qed.

(* whenever law_poisson returns a count (not ITEST), the count is >= 0 - any parameter, any state, any functions *)
Theorem C14_law_poisson_nonneg : forall (ln ex sq tn : Q -> Q) (pw : Q -> Q -> Q) (ee : Q) (fuel gfuel tfuel : nat) (t : Q) (v st r : Z) (m : Q),
  l_poisson ln ex sq tn pw ee fuel gfuel tfuel t v = Done st (Some r) m -> (0 <= r)%Z.
Proof. exact l_poisson_nonneg. Qed.
Print Assumptions C14_law_poisson_nonneg.

(* ================================ law_gamma / law_beta1 / law_beta2 ================================ *)
(* [ee] is GV_EE as compiled: the check reads "#define GV_EE" from include/geoslib_define.h at run time and hands the
   binary64 value to the model, so that model and code agree whatever the constant is. *)
(* law_gamma(alpha): TEST exactly when alpha <= 0 (no draw); otherwise, whenever the rejection loop exits, the value is
   >= 0, and > 0 for alpha <= 1 (+1e-5) - for any constant GV_EE >= 1.  Termination of the rejection loops depends on the
   draws: not proved. *)
Theorem C14_law_gamma_range : forall (ln ex sq tn : Q -> Q) (pw : Q -> Q -> Q) (ee : Q), 0 < ee ->
  (forall x : Q, 0 < x -> x < 1 -> ln x < 0) ->
  (forall x y : Q, 0 < x -> 0 < pw x y) ->
  forall (fuel : nat) (alpha : Q) (v st : Z) (r : option Q) (m : Q), 1 <= ee ->
  l_gamma ln ex sq tn pw ee fuel alpha v = Done st r m ->
  (alpha <= 0 -> r = None /\ st = v) /\
  (0 < alpha -> exists x : Q, r = Some x /\ 0 <= x /\ (alpha <= 1 -> 0 < x)).
Proof. exact l_gamma_range. Qed.
Print Assumptions C14_law_gamma_range.

(* Support gap as a function of the constant E = GV_EE > 0: for alpha < 1 the branch "value <= 1" returns values of ]0,1]
   and the branch "value > 1" values above -ln(1/E); no value of ]1, -ln(1/E)] is ever returned, whatever the state *)
Theorem C14_law_gamma_small_never_in_gap : forall (ln ex sq tn : Q -> Q) (pw : Q -> Q -> Q) (E : Q), 0 < E ->
  (forall x y : Q, 0 < x -> x <= 1 -> 0 < y -> pw x y <= 1) ->
  (forall x y : Q, 0 < x -> x < y -> ln x < ln y) ->
  forall (fuel : nat) (alpha : Q) (v st : Z) (x m : Q),
  0 < alpha -> alpha <= 1 -> c_1em5 <= Qabs (alpha - 1) ->
  l_gamma ln ex sq tn pw E fuel alpha v = Done st (Some x) m -> ~ in_gamma_gap ln E x.
Proof. exact l_gamma_never_in_gap. Qed.
Print Assumptions C14_law_gamma_small_never_in_gap.

(* that interval is empty exactly when -ln(1/E) <= 1 ... *)
Theorem C14_law_gamma_gap_empty_iff : forall (ln : Q -> Q) (E : Q),
  (forall x : Q, ~ in_gamma_gap ln E x) <-> - ln (1 / E) <= 1.
Proof. exact gamma_gap_empty_iff. Qed.
(* ... hence, for a logarithm with ln(1/E) = -ln E: empty when ln E = 1 (E = e: the two branches tile ]0,+inf[), and not
   empty as soon as ln E > 1 (E > e): ln E itself lies in it *)
Theorem C14_law_gamma_gap_empty_at_e : forall (ln : Q -> Q) (E : Q),
  ln (1 / E) == - ln E -> ln E == 1 -> forall x : Q, ~ in_gamma_gap ln E x.
Proof. exact gamma_gap_empty_at_e. Qed.
Theorem C14_law_gamma_gap_nonempty_above_e : forall (ln : Q -> Q) (E : Q),
  ln (1 / E) == - ln E -> 1 < ln E -> in_gamma_gap ln E (ln E).
Proof. exact gamma_gap_nonempty_above_e. Qed.
Print Assumptions C14_law_gamma_gap_empty_iff.

(* FINDING, regression instance (GV_EE = 2.732 in the pinned tree, ln 2.732 = 1.00503...): law_gamma(alpha < 1) never
   returns a value of ]1, 1.005], although the Gamma(alpha) law charges that interval (fixes/C14_9.patch) *)
Theorem C14_law_gamma_gap_gv_ee_2732 : forall (ln ex sq tn : Q -> Q) (pw : Q -> Q -> Q),
  (forall x y : Q, 0 < x -> x <= 1 -> 0 < y -> pw x y <= 1) ->
  (forall x y : Q, 0 < x -> x < y -> ln x < ln y) ->
  ln (1 / c_ee_2732) <= - (1005 # 1000) ->
  forall (fuel : nat) (alpha : Q) (v st : Z) (x m : Q),
  0 < alpha -> alpha <= 1 -> c_1em5 <= Qabs (alpha - 1) ->
  l_gamma ln ex sq tn pw c_ee_2732 fuel alpha v = Done st (Some x) m -> ~ (1 < x /\ x <= 1005 # 1000).
Proof. exact l_gamma_gap_2732. Qed.
Print Assumptions C14_law_gamma_gap_gv_ee_2732.

(* law_beta1 in [0,1], law_beta2 >= 0 whenever they return a value (exact arithmetic: 0/0 = 0) *)
Theorem C14_law_beta1_range : forall (ln ex sq tn : Q -> Q) (pw : Q -> Q -> Q) (ee : Q), 0 < ee ->
  (forall x : Q, 0 < x -> x < 1 -> ln x < 0) ->
  (forall x y : Q, 0 < x -> 0 < pw x y) ->
  forall (fuel : nat) (p1 p2 : Q) (v st : Z) (x m : Q), 1 <= ee ->
  l_beta1 ln ex sq tn pw ee fuel p1 p2 v = Done st (Some x) m -> 0 <= x /\ x <= 1.
Proof. exact l_beta1_range. Qed.
Theorem C14_law_beta2_range : forall (ln ex sq tn : Q -> Q) (pw : Q -> Q -> Q) (ee : Q), 0 < ee ->
  (forall x : Q, 0 < x -> x < 1 -> ln x < 0) ->
  (forall x y : Q, 0 < x -> 0 < pw x y) ->
  forall (fuel : nat) (p1 p2 : Q) (v st : Z) (x m : Q), 1 <= ee ->
  l_beta2 ln ex sq tn pw ee fuel p1 p2 v = Done st (Some x) m -> 0 <= x.
Proof. exact l_beta2_range. Qed.
Print Assumptions C14_law_beta1_range.

(* ================================ law_binomial (BINV) ================================ *)
(* n p < 30, p <> 1, exact arithmetic: the weights are the binomial probabilities, they sum to 1 > u, so the loop
   returns within n+1 turns a value of [0,n], having consumed one draw - for every state *)
Theorem C14_law_binomial_binv : forall (fuel : nat) (n : Z) (p : Q) (v : Z),
  (0 <= n)%Z -> ~ p == 1 -> inject_Z n * p < 30 -> (Z.to_nat n < fuel)%nat ->
  exists (x : Z) (m : Q), l_binomial fuel n p v = Done (lcg_next v) (Some x) m /\ (0 <= x <= n)%Z.
Proof. exact l_binomial_binv. Qed.
Print Assumptions C14_law_binomial_binv.

(* FINDING: with p = 1 (a legal event probability) and 1 <= n < 30 the BINV loop never returns, whatever the state.
   This is about the loop itself and holds in both trees; the p <-> 1-p flip of fixes/C14_8.patch makes it unreachable
   (C14_law_binomial_flip_total, C14_law_binomial_flip_p1) *)
Theorem C14_law_binomial_binv_returns_refuted : exists (n : Z) (p : Q),
  (0 <= n)%Z /\ 0 <= p /\ p <= 1 /\ inject_Z n * p < 30 /\
  forall (fuel : nat) (v : Z), l_binomial fuel n p v = NoFuel (lcg_next v).
Proof.
  exists 5%Z, 1.
  split; [discriminate|]. split; [discriminate|]. split; [discriminate|]. split; [reflexivity|].
  intros fuel v. apply l_binomial_p1_never_returns. split; [discriminate|reflexivity].
Qed.
Print Assumptions C14_law_binomial_binv_returns_refuted.

(* law_binomial as in the tree, [l_binomial_flip flip]: flip = the source starts with "if (p > 0.5) return n - law_binomial(n, 1. - p);"
   (probed by the check at run time); without the flip it is l_binomial *)
Theorem C14_law_binomial_flip_off : forall (fuel : nat) (n : Z) (p : Q) (v : Z),
  l_binomial_flip false fuel n p v = l_binomial fuel n p v.
Proof. exact l_binomial_flip_off. Qed.
(* with the flip: for EVERY p (so every p of [0,1], p = 1 included) with n min(p, 1-p) < 30 the function consumes one draw and
   returns within n+1 turns a value of [0,n]; p = 1 returns n *)
Theorem C14_law_binomial_flip_total : forall (fuel : nat) (n : Z) (p : Q) (v : Z),
  (0 <= n)%Z -> inject_Z n * Qmin p (1 - p) < 30 -> (Z.to_nat n < fuel)%nat ->
  exists (x : Z) (m : Q), l_binomial_flip true fuel n p v = Done (lcg_next v) (Some x) m /\ (0 <= x <= n)%Z.
Proof. exact l_binomial_flip_total. Qed.
Print Assumptions C14_law_binomial_flip_total.
Theorem C14_law_binomial_flip_p1 : forall (fuel : nat) (n : Z) (p : Q) (v : Z),
  (0 <= n)%Z -> p == 1 -> (1 <= fuel)%nat ->
  exists m : Q, l_binomial_flip true fuel n p v = Done (lcg_next v) (Some n) m.
Proof. exact l_binomial_flip_p1. Qed.

(* ================================ law_invcdf_gaussian ================================ *)
(* the bisection started on a bracket of width 0.002 runs exactly 15 times whatever the tests answer, and ends inside
   the bracket; outside (0,1) the function returns -10 / 10 *)
Theorem C14_law_invcdf_bisection : forall (dec : Q -> bool) (fuel : nat) (xmin x : Q), (15 <= fuel)%nat ->
  exists x' : Q, bisect fuel dec xmin (xmin + c_002) x 0 = Some (x', 15%nat) /\ xmin <= x' /\ x' <= xmin + c_002.
Proof. exact bisect_15. Qed.
Theorem C14_law_invcdf_spec : forall (ln ex sq rd : Q -> Q) (fuel : nat) (value : Q), (15 <= fuel)%nat ->
  (value <= 0 -> l_invcdf ln ex sq rd fuel value = Some (- (10), 0%nat)) /\
  (1 <= value -> l_invcdf ln ex sq rd fuel value = Some (10, 0%nat)) /\
  (0 < value -> value < 1 ->
   exists y : Q, l_invcdf ln ex sq rd fuel value = Some (if qltb value (1 # 2) then - y else y, 15%nat) /\
                 icdf_xmin ln sq rd value <= y /\ y <= icdf_xmin ln sq rd value + c_002).
Proof. exact l_invcdf_spec. Qed.
Print Assumptions C14_law_invcdf_spec.

(* ================================ non-vacuity ================================ *)
(* toy elementary functions satisfying the hypotheses used above *)
Definition toy_ln (x : Q) : Q := x - 1.
Definition toy_pw (x y : Q) : Q := x.
Definition toy_half (x : Q) : Q := 1 # 2.
Definition toy_id (x : Q) : Q := x.
Lemma C14_toy_ln_neg : forall x : Q, 0 < x -> x < 1 -> toy_ln x < 0.
Proof. intros x H0 H1. unfold toy_ln. lra. Qed.
Lemma C14_toy_ln_mono : forall x y : Q, 0 < x -> x < y -> toy_ln x < toy_ln y.
Proof. intros x y H0 H1. unfold toy_ln. lra. Qed.
Lemma C14_toy_pw_pos : forall x y : Q, 0 < x -> 0 < toy_pw x y.
Proof. intros x y H. exact H. Qed.
Lemma C14_toy_pw_le1 : forall x y : Q, 0 < x -> x <= 1 -> 0 < y -> toy_pw x y <= 1.
Proof. intros x y _ H _. exact H. Qed.

Example C14_law_uniform_range_nonvacuous :
  - (3) < 5 # 2 /\ fst (l_uniform (- (3)) (5 # 2) 1234) = 129570%Z /\
  - (3) < snd (l_uniform (- (3)) (5 # 2) 1234) /\ snd (l_uniform (- (3)) (5 # 2) 1234) < 5 # 2 /\
  fst (l_uniform 0 1 20000159) = 1%Z /\ fst (l_uniform 0 1 55380756) = 1%Z /\ fst (l_uniform 0 1 0) = 1%Z.
Proof. vm_compute. repeat split; reflexivity. Qed.

Example C14_law_uniform_serial_lattice_nonvacuous :
  (0 < 1234 < rnd_p)%Z /\ u_of (lcg_next 1234) == 105 * u_of 1234 - inject_Z 0 /\
  u_of (lcg_next 19000000) == 105 * u_of 19000000 - inject_Z 99.
Proof. vm_compute. repeat split; reflexivity. Qed.

Example C14_law_int_uniform_range_nonvacuous :
  map (fun v => snd (l_int_uniform (-3) 7 v)) [1; 1234; 20000159; 2147483647; 11619140; 8381019]%Z = [-3; -3; -3; 1; -3; 7]%Z /\
  snd (l_int_uniform (-3) 7 (int_uniform_witness 11 8)) = 5%Z /\ int_uniform_witness 11 8 = 2233784%Z /\
  map (fun v => snd (l_sample_integer (-3) 7 v)) [1; 1234; 2147483647; 11619140; 8381019]%Z = [-3; -3; 1; -3; 7]%Z.
Proof. vm_compute. repeat split; reflexivity. Qed.

Example C14_law_gaussian_nonvacuous :
  exists x, l_gaussian toy_ln toy_id toy_id 1 2 1234 = (13604850%Z, x) /\
            fst (l_exponential toy_ln (1 # 2) 1234) = 129570%Z /\ 0 < snd (l_exponential toy_ln (1 # 2) 1234).
Proof. eexists. vm_compute. repeat split; reflexivity. Qed.

Example C14_law_random_path_nonvacuous :
  snd (l_random_path 6 1234) = [0; 2; 4; 3; 1; 5]%Z /\ snd (l_random_path 0 1234) = [] /\ snd (l_random_path 1 0) = [0%Z].
Proof. vm_compute. repeat split; reflexivity. Qed.

(* the product loop: q = 1/1000 needs several turns; the bound of the theorem is satisfiable (q = 999/1000, fuel 30000) *)
Example C14_law_poisson_tail_nonvacuous :
  (exists st m, pois_tail 100 (1 # 1000) 1 1234 0 1 = Done st 4%Z m) /\
  (qP - 1) * 1 < (999 # 1000) * (qP - 1 + inject_Z (Z.of_nat (Z.to_nat 30000))) /\
  (exists st m, l_poisson toy_ln toy_half toy_id toy_id toy_pw c_ee_2732 10 10 100 3 1234 = Done st (Some 0%Z) m).
Proof. split; [|split]; [do 2 eexists; vm_compute; reflexivity | vm_compute; reflexivity | do 2 eexists; vm_compute; reflexivity]. Qed.

Example C14_law_gamma_range_nonvacuous :
  (exists st x m, l_gamma toy_ln toy_half toy_id toy_id toy_pw c_ee_2732 50 (1 # 2) 1234 = Done st (Some x) m /\ 0 < x /\ x <= 1) /\
  (exists st x m, l_gamma toy_ln toy_half toy_id toy_id toy_pw c_ee_2732 50 3 1234 = Done st (Some x) m /\ 0 <= x) /\
  (exists st x m, l_beta1 toy_ln toy_half toy_id toy_id toy_pw c_ee_2732 50 (1 # 2) 3 1234 = Done st (Some x) m /\ 0 <= x /\ x <= 1) /\
  c_1em5 <= Qabs ((1 # 2) - 1) /\ 1 <= c_ee_2732 /\
  (* the gap of the toy logarithm x - 1 for E = 2.732: ]1, 1 - 1/E] is empty; for the toy "ln" x/2 - 1/(2x) (odd in ln(1/E) = -ln E)
     ln E = 1.183 > 1 lies in the gap *)
  in_gamma_gap (fun x => x / 2 - 1 / (2 * x)) c_ee_2732 ((fun x => x / 2 - 1 / (2 * x)) c_ee_2732).
Proof.
  split; [|split; [|split; [|split; [|split]]]]; try (do 3 eexists; vm_compute; repeat split; try reflexivity; discriminate);
    try (vm_compute; discriminate).
  vm_compute. split; [reflexivity|discriminate].
Qed.

Example C14_law_binomial_binv_nonvacuous :
  (exists m, l_binomial 11 10 (1 # 2) 1234 = Done 129570%Z (Some 1%Z) m) /\
  (exists m, l_binomial 11 10 (1 # 2) 4321 = Done 453705%Z (Some 2%Z) m) /\
  ~ (1 # 2) == 1 /\ inject_Z 10 * (1 # 2) < 30.
Proof. split; [|split; [|split]]; [eexists; vm_compute; reflexivity | eexists; vm_compute; reflexivity | discriminate | reflexivity]. Qed.

Example C14_law_binomial_flip_nonvacuous :
  (exists m, l_binomial_flip true 34 33 (63 # 64) 1780014151 = Done 17874637%Z (Some 32%Z) m) /\
  (exists m, l_binomial_flip true 6 5 1 1234 = Done 129570%Z (Some 5%Z) m) /\
  inject_Z 33 * Qmin (63 # 64) (1 - (63 # 64)) < 30 /\
  l_binomial_flip false 34 33 (63 # 64) 1780014151 = Done 1780014151%Z None big_margin.
Proof. split; [|split; [|split]]; [eexists; vm_compute; reflexivity | eexists; vm_compute; reflexivity | reflexivity | vm_compute; reflexivity]. Qed.

Example C14_law_invcdf_nonvacuous :
  exists y, l_invcdf toy_ln toy_half toy_id toy_id 15 (3 # 4) = Some (y, 15%nat) /\
            l_invcdf toy_ln toy_half toy_id toy_id 15 0 = Some (- (10), 0%nat).
Proof. eexists. vm_compute. split; reflexivity. Qed.
End Part_law.
Export Part_law.
(* END PART law_props *)
(*@PART_PROPS@*)

(* C14 part proc: the ring of pairs (c,s) (unit complex numbers over Q, the product is the pair of
   addition formulas), the discrete orthogonality of the cosine process, and the grid recurrences of
   _spreadSpectralOnGrid / _spreadRegularOnGrid (CalcSimuTurningBands.cpp:1030-1115). *)
From Coq Require Import List ZArith QArith Bool Lqa Lia.
From Gst Require Import lib.Sx lib.QAux C14.Proc.
Import ListNotations.
Local Open Scope Q_scope.

(* ---------------------------------------------------------------- generic nested loops *)
Section Grid3P.
  Variables (St Ot : Type) (out : St -> Ot) (fx fy fz : St -> St).
  Notation xl := (xloop St Ot out fx).
  Notation yl := (yloop St Ot out fx fy).
  Notation zl := (zloop St Ot out fx fy fz).
  Notation it := (iter St).

  Lemma xloop_length : forall nx s, length (xl nx s) = nx.
  Proof. induction nx as [|n IH]; intros s; simpl; [reflexivity|]. rewrite IH. reflexivity. Qed.
  Lemma xloop_nth : forall nx s ix, (ix < nx)%nat -> nth_error (xl nx s) ix = Some (out (it ix fx s)).
  Proof.
    induction nx as [|n IH]; intros s ix H; [lia|].
    destruct ix as [|ix]; simpl; [reflexivity|]. apply IH. lia.
  Qed.
  Lemma yloop_length : forall ny nx s, length (yl ny nx s) = (ny * nx)%nat.
  Proof.
    induction ny as [|n IH]; intros nx s; simpl; [reflexivity|].
    rewrite app_length, xloop_length, IH. reflexivity.
  Qed.
  Lemma yloop_nth : forall ny nx s iy ix, (iy < ny)%nat -> (ix < nx)%nat ->
    nth_error (yl ny nx s) (ix + nx * iy) = Some (out (it ix fx (it iy fy s))).
  Proof.
    induction ny as [|n IH]; intros nx s iy ix Hy Hx; [lia|].
    destruct iy as [|iy]; cbn [yloop].
    - rewrite nth_error_app1 by (rewrite xloop_length; lia).
      replace (ix + nx * 0)%nat with ix by lia. simpl. apply xloop_nth. exact Hx.
    - rewrite nth_error_app2 by (rewrite xloop_length; lia). rewrite xloop_length.
      replace (ix + nx * S iy - nx)%nat with (ix + nx * iy)%nat by lia.
      rewrite IH by lia. reflexivity.
  Qed.
  Lemma zloop_length : forall nz ny nx s, length (zl nz ny nx s) = (nz * (ny * nx))%nat.
  Proof.
    induction nz as [|n IH]; intros ny nx s; simpl; [reflexivity|].
    rewrite app_length, yloop_length, IH. reflexivity.
  Qed.
  (* the node (ix,iy,iz), rank ind = ix + nx*(iy + ny*iz), receives the state stepped iz, iy, ix times *)
  Theorem zloop_nth : forall nz ny nx s iz iy ix, (iz < nz)%nat -> (iy < ny)%nat -> (ix < nx)%nat ->
    nth_error (zl nz ny nx s) (ix + nx * (iy + ny * iz)) = Some (out (it ix fx (it iy fy (it iz fz s)))).
  Proof.
    induction nz as [|n IH]; intros ny nx s iz iy ix Hz Hy Hx; [lia|].
    destruct iz as [|iz]; cbn [zloop].
    - rewrite nth_error_app1 by (rewrite yloop_length; nia).
      replace (iy + ny * 0)%nat with iy by lia. simpl. apply yloop_nth; assumption.
    - rewrite nth_error_app2 by (rewrite yloop_length; nia). rewrite yloop_length.
      replace (ix + nx * (iy + ny * S iz) - ny * nx)%nat with (ix + nx * (iy + ny * iz))%nat by nia.
      rewrite IH by lia. reflexivity.
  Qed.
End Grid3P.

(* ---------------------------------------------------------------- the ring of pairs *)
Lemma ceq_refl a : ceq a a. Proof. split; reflexivity. Qed.
Lemma ceq_sym a b : ceq a b -> ceq b a. Proof. intros [H1 H2]; split; symmetry; assumption. Qed.
Lemma ceq_trans a b c : ceq a b -> ceq b c -> ceq a c.
Proof. intros [H1 H2] [H3 H4]; split; [rewrite H1|rewrite H2]; assumption. Qed.
Lemma cmul_proper a a' b b' : ceq a a' -> ceq b b' -> ceq (cmul a b) (cmul a' b').
Proof. intros [H1 H2] [H3 H4]. unfold ceq, cmul; simpl. rewrite H1, H2, H3, H4. split; reflexivity. Qed.
Lemma cmul_comm a b : ceq (cmul a b) (cmul b a).
Proof. unfold ceq, cmul; simpl; split; ring. Qed.
Lemma cmul_assoc a b c : ceq (cmul (cmul a b) c) (cmul a (cmul b c)).
Proof. unfold ceq, cmul; simpl; split; ring. Qed.
Lemma cmul_one_r a : ceq (cmul a cone) a.
Proof. unfold ceq, cmul, cone; simpl; split; ring. Qed.
Lemma cmul_one_l a : ceq (cmul cone a) a.
Proof. unfold ceq, cmul, cone; simpl; split; ring. Qed.
Lemma cnorm2_mul a b : cnorm2 (cmul a b) == cnorm2 a * cnorm2 b.
Proof. unfold cnorm2, cmul; simpl; ring. Qed.
Lemma cnorm2_pow a : cnorm2 a == 1 -> forall n, cnorm2 (cpow a n) == 1.
Proof.
  intros Ha. induction n as [|n IH]; [unfold cnorm2, cone; simpl; ring|].
  cbn [cpow]. rewrite cnorm2_mul, IH, Ha. ring.
Qed.
Lemma cpow_sq w : forall j, ceq (cpow (cmul w w) j) (cmul (cpow w j) (cpow w j)).
Proof.
  induction j as [|j IH]; [unfold ceq, cmul, cone; simpl; split; ring|].
  cbn [cpow]. eapply ceq_trans; [apply cmul_proper; [exact IH|apply ceq_refl]|].
  unfold ceq, cmul; simpl; split; ring.
Qed.

(* repeated rotation = multiplication by the power *)
Lemma iter_cmul p : forall n z, ceq (iter C2 n (fun z => cmul z p) z) (cmul z (cpow p n)).
Proof.
  induction n as [|n IH]; intros z; [simpl; apply ceq_sym, cmul_one_r|].
  cbn [iter cpow]. eapply ceq_trans; [apply IH|].
  unfold ceq, cmul; simpl; split; ring.
Qed.

(* ---------------------------------------------------------------- B4: grid recurrences *)
Theorem spectralGrid_length nx ny nz z0 px py pz :
  length (spectralGrid nx ny nz z0 px py pz) = (nz * (ny * nx))%nat.
Proof. apply zloop_length. Qed.
(* value handed to simulateTurningBand at node (ix,iy,iz) = Re (z0 pz^iz py^iy px^ix) *)
Theorem spectralGrid_nth nx ny nz z0 px py pz ix iy iz : (ix < nx)%nat -> (iy < ny)%nat -> (iz < nz)%nat ->
  exists v, nth_error (spectralGrid nx ny nz z0 px py pz) (ix + nx * (iy + ny * iz)) = Some v
            /\ v == fst (cmul (cmul (cmul z0 (cpow pz iz)) (cpow py iy)) (cpow px ix)).
Proof.
  intros Hx Hy Hz. unfold spectralGrid. rewrite zloop_nth by assumption.
  eexists; split; [reflexivity|].
  set (a := iter C2 iz (fun z => cmul z pz) z0).
  set (b := iter C2 iy (fun z => cmul z py) a).
  assert (Ha : ceq a (cmul z0 (cpow pz iz))) by apply iter_cmul.
  assert (Hb : ceq b (cmul (cmul z0 (cpow pz iz)) (cpow py iy))).
  { eapply ceq_trans; [apply iter_cmul|]. apply cmul_proper; [exact Ha|apply ceq_refl]. }
  assert (Hc : ceq (iter C2 ix (fun z => cmul z px) b)
                   (cmul (cmul (cmul z0 (cpow pz iz)) (cpow py iy)) (cpow px ix))).
  { eapply ceq_trans; [apply iter_cmul|]. apply cmul_proper; [exact Hb|apply ceq_refl]. }
  exact (proj1 Hc).
Qed.

Lemma iter_add d : forall n t, iter Q n (fun t => t + d) t == t + inject_Z (Z.of_nat n) * d.
Proof.
  induction n as [|n IH]; intros t; [simpl; ring|].
  cbn [iter]. rewrite IH, Nat2Z.inj_succ. unfold Z.succ. rewrite inject_Z_plus. change (inject_Z 1) with 1. ring.
Qed.
Lemma iter_add_proper d n t t' : t == t' -> iter Q n (fun t => t + d) t == iter Q n (fun t => t + d) t'.
Proof. intros H. rewrite !iter_add, H. reflexivity. Qed.
Theorem regularGrid_length nx ny nz t00 dxp dyp dzp :
  length (regularGrid nx ny nz t00 dxp dyp dzp) = (nz * (ny * nx))%nat.
Proof. apply zloop_length. Qed.
(* abscissa handed to simulateTurningBand at node (ix,iy,iz) = t00 + ix dxp + iy dyp + iz dzp *)
Theorem regularGrid_nth nx ny nz t00 dxp dyp dzp ix iy iz : (ix < nx)%nat -> (iy < ny)%nat -> (iz < nz)%nat ->
  exists v, nth_error (regularGrid nx ny nz t00 dxp dyp dzp) (ix + nx * (iy + ny * iz)) = Some v
            /\ v == t00 + inject_Z (Z.of_nat ix) * dxp + inject_Z (Z.of_nat iy) * dyp + inject_Z (Z.of_nat iz) * dzp.
Proof.
  intros Hx Hy Hz. unfold regularGrid. rewrite zloop_nth by assumption.
  eexists; split; [reflexivity|].
  rewrite iter_add.
  rewrite (iter_add dyp iy). rewrite (iter_add dzp iz). ring.
Qed.

(* with an abstract angle function: the grid recurrence evaluates cis at the projected abscissa,
   i.e. grid spreading = point spreading in exact arithmetic *)
Section Cis.
  Variable cis : Q -> C2.
  Hypothesis cis_ext : forall a b, a == b -> ceq (cis a) (cis b).
  Hypothesis cis_zero : ceq (cis 0) cone.
  Hypothesis cis_add : forall a b, ceq (cis (a + b)) (cmul (cis a) (cis b)).

  Lemma cpow_cis d : forall n, ceq (cpow (cis d) n) (cis (inject_Z (Z.of_nat n) * d)).
  Proof.
    induction n as [|n IH].
    - simpl. apply ceq_sym. eapply ceq_trans; [apply cis_ext|apply cis_zero]. ring.
    - cbn [cpow]. eapply ceq_trans; [apply cmul_proper; [exact IH|apply ceq_refl]|].
      eapply ceq_trans; [apply ceq_sym, cis_add|]. apply cis_ext.
      rewrite Nat2Z.inj_succ. unfold Z.succ. rewrite inject_Z_plus. change (inject_Z 1) with 1. ring.
  Qed.

  (* _getOmegaPhi (CalcSimuTurningBands.cpp:1647-1655) + the recurrences (:1086-1114) *)
  Theorem spectralGrid_is_point omega phi t00 dxp dyp dzp nx ny nz ix iy iz :
    (ix < nx)%nat -> (iy < ny)%nat -> (iz < nz)%nat ->
    exists v, nth_error (spectralGrid nx ny nz (cis (omega * t00 + phi)) (cis (omega * dxp))
                                      (cis (omega * dyp)) (cis (omega * dzp)))
                        (ix + nx * (iy + ny * iz)) = Some v
      /\ v == fst (cis (omega * (t00 + inject_Z (Z.of_nat ix) * dxp + inject_Z (Z.of_nat iy) * dyp
                                 + inject_Z (Z.of_nat iz) * dzp) + phi)).
  Proof.
    intros Hx Hy Hz.
    destruct (spectralGrid_nth nx ny nz (cis (omega * t00 + phi)) (cis (omega * dxp)) (cis (omega * dyp))
                (cis (omega * dzp)) ix iy iz Hx Hy Hz) as (v & E & Hv).
    exists v; split; [exact E|]. rewrite Hv.
    assert (H : ceq (cmul (cmul (cmul (cis (omega * t00 + phi)) (cpow (cis (omega * dzp)) iz))
                               (cpow (cis (omega * dyp)) iy)) (cpow (cis (omega * dxp)) ix))
                    (cis (omega * (t00 + inject_Z (Z.of_nat ix) * dxp + inject_Z (Z.of_nat iy) * dyp
                                   + inject_Z (Z.of_nat iz) * dzp) + phi))).
    { eapply ceq_trans.
      - apply cmul_proper; [apply cmul_proper; [apply cmul_proper; [apply ceq_refl|apply cpow_cis]|apply cpow_cis]|apply cpow_cis].
      - eapply ceq_trans; [apply cmul_proper; [apply cmul_proper; [apply ceq_sym, cis_add|apply ceq_refl]|apply ceq_refl]|].
        eapply ceq_trans; [apply cmul_proper; [apply ceq_sym, cis_add|apply ceq_refl]|].
        eapply ceq_trans; [apply ceq_sym, cis_add|]. apply cis_ext. ring. }
    exact (proj1 H).
  Qed.

  (* cosineOne: grid call (flagScaled = true, argument = the recurrence value) and point call
     (flagScaled = false, argument = the abscissa) agree, TurningBandOperate.cpp:123-130 *)
  Theorem cosineOne_grid_is_point s omega phi t0 v :
    tb_omega s = omega -> tb_phi s = phi -> v == fst (cis (omega * t0 + phi)) ->
    cosineOne (fun a => fst (cis a))
      (mkTbo (tb_nt0 s) true (tb_vexp s) (tb_tdeb s) omega phi (tb_offset s) (tb_scale s) (tb_t s) (tb_v0 s) (tb_v1 s) (tb_v2 s)) v
    == cosineOne (fun a => fst (cis a))
      (mkTbo (tb_nt0 s) false (tb_vexp s) (tb_tdeb s) omega phi (tb_offset s) (tb_scale s) (tb_t s) (tb_v0 s) (tb_v1 s) (tb_v2 s)) t0.
  Proof. intros _ _ Hv. unfold cosineOne; simpl. rewrite Hv. reflexivity. Qed.
End Cis.

(* ---------------------------------------------------------------- B3: discrete orthogonality *)
Lemma geom_sum q : forall n, ceq (cmul (csub cone q) (csum (cpow q) n)) (csub cone (cpow q n)).
Proof.
  induction n as [|n IH]; [unfold ceq, cmul, csub, cone, czero; simpl; split; ring|].
  cbn [csum cpow]. destruct IH as [I1 I2].
  unfold ceq, cmul, csub, cadd, cone in *; simpl in *. split; lra.
Qed.
Lemma sq_nonneg' (a : Q) : 0 <= a * a.
Proof. destruct (Qlt_le_dec a 0) as [H|H]; nra. Qed.
Lemma sq_sum_zero a b : a * a + b * b == 0 -> a == 0 /\ b == 0.
Proof.
  intros H. pose proof (sq_nonneg' a). pose proof (sq_nonneg' b).
  assert (A : a * a == 0) by lra. assert (B : b * b == 0) by lra.
  apply Qmult_integral in A. apply Qmult_integral in B. split; [destruct A|destruct B]; assumption.
Qed.
Lemma pair_integral d s : ~ ceq d czero -> ceq (cmul d s) czero -> ceq s czero.
Proof.
  intros Hd [E1 E2]. unfold ceq, cmul, czero in *; simpl in *.
  assert (N : ~ fst d * fst d + snd d * snd d == 0).
  { intro Z. apply Hd. apply sq_sum_zero. exact Z. }
  assert (A : (fst d * fst d + snd d * snd d) * fst s == 0).
  { setoid_replace ((fst d * fst d + snd d * snd d) * fst s)
      with (fst d * (fst d * fst s - snd d * snd s) + snd d * (snd d * fst s + fst d * snd s)) by ring.
    rewrite E1, E2. ring. }
  assert (B : (fst d * fst d + snd d * snd d) * snd s == 0).
  { setoid_replace ((fst d * fst d + snd d * snd d) * snd s)
      with (fst d * (snd d * fst s + fst d * snd s) - snd d * (fst d * fst s - snd d * snd s)) by ring.
    rewrite E1, E2. ring. }
  apply Qmult_integral in A. apply Qmult_integral in B.
  destruct A as [A|A]; [contradiction|]. destruct B as [B|B]; [contradiction|]. split; assumption.
Qed.
(* sum of the N-th roots of unity (powers of q, q^N = 1, q <> 1) is zero *)
Lemma roots_sum_zero q N : ceq (cpow q N) cone -> ~ ceq q cone -> ceq (csum (cpow q) N) czero.
Proof.
  intros HN Hne. apply (pair_integral (csub cone q)).
  - intros [Z1 Z2]. apply Hne. unfold ceq, csub, cone, czero in *; simpl in *. split; lra.
  - eapply ceq_trans; [apply geom_sum|]. destruct HN as [H1 H2].
    unfold ceq, csub, cone, czero in *; simpl in *. split; lra.
Qed.

Lemma orth_key (za zb p0 W Qq : C2) : cnorm2 p0 == 1 -> cnorm2 W == 1 -> ceq Qq (cmul W W) ->
  2 * fst (cmul za (cmul p0 W)) * fst (cmul zb (cmul p0 W)) ==
  fst (cmul za (cconj zb)) + fst (cmul (cmul (cmul za zb) (cmul p0 p0)) Qq).
Proof.
  intros Hp HW [H1 H2]. destruct za as [a1 a2], zb as [b1 b2], p0 as [p1 p2], W as [w1 w2], Qq as [q1 q2].
  unfold cnorm2, cmul, cconj in *; simpl in *. rewrite H1, H2.
  assert (E : 2 * (a1 * (p1 * w1 - p2 * w2) - a2 * (p2 * w1 + p1 * w2)) *
              (b1 * (p1 * w1 - p2 * w2) - b2 * (p2 * w1 + p1 * w2)) ==
              (a1 * b1 - a2 * - b2) * ((p1 * p1 + p2 * p2) * (w1 * w1 + w2 * w2)) +
              ((a1 * b1 - a2 * b2) * (p1 * p1 - p2 * p2) - (a2 * b1 + a1 * b2) * (p2 * p1 + p1 * p2)) * (w1 * w1 - w2 * w2) -
              ((a2 * b1 + a1 * b2) * (p1 * p1 - p2 * p2) + (a1 * b1 - a2 * b2) * (p2 * p1 + p1 * p2)) * (w2 * w1 + w1 * w2)) by ring.
  rewrite E, Hp, HW. ring.
Qed.

Lemma fst_cmul_cadd b s x : fst (cmul b (cadd s x)) == fst (cmul b s) + fst (cmul b x).
Proof. unfold cmul, cadd; simpl; ring. Qed.

Lemma orth_sum (za zb p0 w : C2) : cnorm2 p0 == 1 -> cnorm2 w == 1 -> forall N,
  qsumn (fun j => 2 * fst (cmul za (cmul p0 (cpow w j))) * fst (cmul zb (cmul p0 (cpow w j)))) N ==
  inject_Z (Z.of_nat N) * fst (cmul za (cconj zb))
  + fst (cmul (cmul (cmul za zb) (cmul p0 p0)) (csum (cpow (cmul w w)) N)).
Proof.
  intros Hp Hw. induction N as [|N IH].
  - unfold cmul, czero; simpl. ring.
  - cbn [qsumn csum]. rewrite IH, fst_cmul_cadd.
    rewrite (orth_key za zb p0 (cpow w N) (cpow (cmul w w) N) Hp (cnorm2_pow w Hw N) (cpow_sq w N)).
    rewrite Nat2Z.inj_succ. unfold Z.succ. rewrite inject_Z_plus. change (inject_Z 1) with 1. ring.
Qed.

(* MAIN: over N equally spaced phases (w a primitive N-th root: w^2N... (w^2)^N = 1, w^2 <> 1) the sum of
   2 cos(a + phi_j) cos(b + phi_j) is exactly N cos(a - b) *)
Theorem cosine_discrete_orthogonality (za zb p0 w : C2) (N : nat) :
  cnorm2 p0 == 1 -> cnorm2 w == 1 -> ceq (cpow (cmul w w) N) cone -> ~ ceq (cmul w w) cone ->
  qsumn (fun j => 2 * fst (cmul za (cmul p0 (cpow w j))) * fst (cmul zb (cmul p0 (cpow w j)))) N ==
  inject_Z (Z.of_nat N) * fst (cmul za (cconj zb)).
Proof.
  intros Hp Hw HN Hne. rewrite (orth_sum za zb p0 w Hp Hw N).
  destruct (roots_sum_zero (cmul w w) N HN Hne) as [S1 S2].
  unfold czero in *; simpl in *. unfold cmul at 1. simpl. rewrite S1, S2. ring.
Qed.

Lemma qsumn_ext f g : (forall j, f j == g j) -> forall n, qsumn f n == qsumn g n.
Proof. intros H. induction n as [|n IH]; simpl; [reflexivity|]. rewrite IH, H. reflexivity. Qed.

(* with the normalisation correc = sqrt 2 (_spectralInit returns sqrt(2.), CalcSimuTurningBands.cpp:767), i.e.
   correc^2 = 2: correc^2 times the mean over the phases of the product of the process at two points is cos(a - b);
   in particular (a = b) the normalised process has variance 1 *)
Theorem cosine_process_covariance (za zb p0 w : C2) (N : nat) :
  (0 < N)%nat ->
  cnorm2 p0 == 1 -> cnorm2 w == 1 -> ceq (cpow (cmul w w) N) cone -> ~ ceq (cmul w w) cone ->
  correc2_spectral * (qsumn (fun j => cos_phase za p0 w j * cos_phase zb p0 w j) N / inject_Z (Z.of_nat N))
  == fst (cmul za (cconj zb)).
Proof.
  intros HNpos Hp Hw HN Hne.
  assert (Hn : ~ inject_Z (Z.of_nat N) == 0).
  { intro E. unfold Qeq in E; simpl in E. lia. }
  assert (E : forall n, 2 * qsumn (fun j => cos_phase za p0 w j * cos_phase zb p0 w j) n ==
                        qsumn (fun j => 2 * fst (cmul za (cmul p0 (cpow w j))) * fst (cmul zb (cmul p0 (cpow w j)))) n).
  { induction n as [|n IH]; [simpl; ring|]. cbn [qsumn]. rewrite <- IH. unfold cos_phase. ring. }
  unfold correc2_spectral.
  setoid_replace (2 * (qsumn (fun j => cos_phase za p0 w j * cos_phase zb p0 w j) N / inject_Z (Z.of_nat N)))
    with ((2 * qsumn (fun j => cos_phase za p0 w j * cos_phase zb p0 w j) N) / inject_Z (Z.of_nat N))
    by (field; exact Hn).
  rewrite E, (cosine_discrete_orthogonality za zb p0 w N Hp Hw HN Hne). field. exact Hn.
Qed.

(* C14 / law runner: case kinds 100..199.  Executable only.
   Every case starts with law_set_random_seed(seed) (seed > 0: Random_value = seed) and performs k calls
   of one generator with fixed parameters; per call the model returns the state after the call (what
   law_get_random_seed() reads), the value and the smallest margin of the decisions taken on reals.
     (100 seed k a b)        law_uniform(a,b)          -> ((state (num den)) ...)
     (101 seed k a b)        law_int_uniform(a,b)      -> ((state value margin) ...)
     (102 seed k a b)        sampleInteger(a,b)        -> ((state value margin) ...)
     (103 seed k mean sigma) law_gaussian              -> ((state value logarg) ...)
     (104 seed k lambda)     law_exponential           -> ((state value) ...)
     (105 seed k alpha ee)      law_gamma(alpha,1)     -> ((state value|() margin) ...)
     (106 seed k p1 p2 ee)      law_beta1              -> idem
     (107 seed k p1 p2 ee)      law_beta2              -> idem
     (108 seed k parameter ee)  law_poisson            -> ((state value|() margin) ...)
     (109 seed k n p flip)      law_binomial           -> ((state value|() margin) ...)   () = BTPE branch (not modelled)
         ee   = GV_EE as a dyadic: binary64 value of the literal read by the check from include/geoslib_define.h
         flip = 1 when src/Basic/Law.cpp contains "if (p > 0.5) return n - law_binomial(n, 1. - p);" (probed by the check)
     (112 ...)               counting case evaluated by the harness only (support of law_gamma) -> (0)
     (110 seed n)            law_random_path(n)        -> (state (path ...))
     (111 value)             law_invcdf_gaussian       -> ((num den) iterations)
   An entry (-1 state) means: out of fuel (the model gave up; the C++ may still be looping). *)
From Coq Require Import List ZArith QArith Qabs Qminmax Qround Bool.
From Gst Require Import lib.Sx lib.QAux C13.Model C14.Law.
Import ListNotations.
Local Open Scope Z_scope.

Definition law_fuel : nat := 2000.

Definition r_gamma (ee : Q) := l_gamma qlog qexp qsqrt qtan qpow ee law_fuel.
Definition r_beta1 (ee : Q) := l_beta1 qlog qexp qsqrt qtan qpow ee law_fuel.
Definition r_beta2 (ee : Q) := l_beta2 qlog qexp qsqrt qtan qpow ee law_fuel.
Definition r_poisson (ee : Q) := l_poisson qlog qexp qsqrt qtan qpow ee 200 law_fuel 5000.

(* k successive calls of [step]; stops at the first call that runs out of fuel *)
Fixpoint law_iter (k : nat) (step : Z -> Z * sx * bool) (v : Z) : list sx :=
  match k with
  | O => []
  | S k' => let '(v', out, ok) := step v in
            if ok then out :: law_iter k' step v' else [out]
  end.

Definition ofOZ (o : option Z) : sx := match o with Some z => I z | None => L [] end.

Definition of_outcome {A} (enc : A -> sx) (o : outcome A) : Z * sx * bool :=
  match o with
  | Done s a m => (s, L [I s; enc a; ofQ m], true)
  | NoFuel s => (s, L [I (-1); I s], false)
  end.

Definition run_law (c : sx) : sx :=
  match c with
  | L [I 100; I seed; k; a; b] =>
      match asNat k, asQ a, asQ b with
      | Some k', Some a', Some b' =>
          L (law_iter k' (fun v => let (v', x) := l_uniform a' b' v in (v', L [I v'; ofQ x], true)) seed)
      | _, _, _ => sx_error 1
      end
  | L [I 101; I seed; k; I a; I b] =>
      match asNat k with
      | Some k' =>
          L (law_iter k' (fun v => let (v', r) := l_int_uniform a b v in
                                   (v', L [I v'; I r; ofQ (frac_margin (u_of v' * inject_Z (b - a + 1)))], true)) seed)
      | None => sx_error 1
      end
  | L [I 102; I seed; k; I a; I b] =>
      match asNat k with
      | Some k' =>
          L (law_iter k' (fun v => let (v', r) := l_sample_integer a b v in
                                   (v', L [I v'; I r; ofQ (frac_margin (u_of v' * inject_Z (b - a + 1)))], true)) seed)
      | None => sx_error 1
      end
  | L [I 103; I seed; k; mean; sigma] =>
      match asNat k, asQ mean, asQ sigma with
      | Some k', Some m', Some s' =>
          L (law_iter k' (fun v => let (v', x) := l_gaussian qlog qsqrt qcos m' s' v in
                                   let '(_, r1, _) := gauss_args v in
                                   (v', L [I v'; ofQ x; ofQ r1], true)) seed)
      | _, _, _ => sx_error 1
      end
  | L [I 104; I seed; k; lambda] =>
      match asNat k, asQ lambda with
      | Some k', Some l' =>
          L (law_iter k' (fun v => let (v', x) := l_exponential qlog l' v in (v', L [I v'; ofQ x], true)) seed)
      | _, _ => sx_error 1
      end
  | L [I 105; I seed; k; alpha; ee] =>
      match asNat k, asQ alpha, asQ ee with
      | Some k', Some a', Some e' => L (law_iter k' (fun v => of_outcome ofOQ (r_gamma e' a' v)) seed)
      | _, _, _ => sx_error 1
      end
  | L [I 106; I seed; k; p1; p2; ee] =>
      match asNat k, asQ p1, asQ p2, asQ ee with
      | Some k', Some a', Some b', Some e' => L (law_iter k' (fun v => of_outcome ofOQ (r_beta1 e' a' b' v)) seed)
      | _, _, _, _ => sx_error 1
      end
  | L [I 107; I seed; k; p1; p2; ee] =>
      match asNat k, asQ p1, asQ p2, asQ ee with
      | Some k', Some a', Some b', Some e' => L (law_iter k' (fun v => of_outcome ofOQ (r_beta2 e' a' b' v)) seed)
      | _, _, _, _ => sx_error 1
      end
  | L [I 108; I seed; k; par; ee] =>
      match asNat k, asQ par, asQ ee with
      | Some k', Some t', Some e' => L (law_iter k' (fun v => of_outcome ofOZ (r_poisson e' t' v)) seed)
      | _, _, _ => sx_error 1
      end
  | L [I 109; I seed; k; I n; p; flip] =>
      match asNat k, asQ p, asB flip with
      | Some k', Some p', Some f' =>
          L (law_iter k' (fun v => of_outcome ofOZ (l_binomial_flip f' (Z.to_nat n + 5) n p' v)) seed)
      | _, _, _ => sx_error 1
      end
  | L (I 112 :: _) => L [I 0]
  | L [I 110; I seed; n] =>
      match asNat n with
      | Some n' => let (v', path) := l_random_path n' seed in L [I v'; L (map I path)]
      | None => sx_error 1
      end
  | L [I 111; value] =>
      match asQ value with
      | Some x =>
          match l_invcdf qlog qexp qsqrt qrnd 40 x with
          | Some (r, it) => L [ofQ r; ofNat it]
          | None => L [I (-1)]
          end
      | None => sx_error 1
      end
  | _ => sx_error 0
  end.

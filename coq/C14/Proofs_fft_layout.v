(* C14 / part fft : the index macro IND versus the order in which _prepar fills the arrays and fftn reads them.
   IND = current macro (commit f1042d400); IND_old = the macro before that commit (regression theorems). *)
From Coq Require Import List ZArith QArith Bool Lia.
From Gst Require Import C14.FFT C14.Proofs_fft_ops C14.Proofs_fft_sym.
Import ListNotations.
Local Open Scope Z_scope.

Lemma updz_same f i x : updz f i x i = x.
Proof. unfold updz. rewrite Z.eqb_refl. reflexivity. Qed.
Lemma updz_other f i x k : k <> i -> updz f i x k = f k.
Proof. unfold updz. intro H. destruct (Z.eqb_spec k i); congruence. Qed.

Definition op_in (B : cell -> Prop) (o : op) : Prop :=
  match o with Zero c => B c | Conj a b => B a /\ B b end.

(* the memory written through an index map that is injective on the cells used = the cell-indexed arrays *)
Lemma bridge (idx : cell -> Z) (B : cell -> Prop) l :
  (forall a b, B a -> B b -> idx a = idx b -> a = b) ->
  Forall (op_in B) l ->
  forall U V u v, (forall k, B k -> U (idx k) = u k /\ V (idx k) = v k) ->
  forall k, B k ->
    fst (run_ops_lin idx l (U, V)) (idx k) = fst (run_ops l (u, v)) k /\
    snd (run_ops_lin idx l (U, V)) (idx k) = snd (run_ops l (u, v)) k.
Proof.
  intros Hinj. induction l as [|o l IH]; intros Hl U V u v Hrel k Hk.
  - simpl. apply Hrel. exact Hk.
  - inversion Hl as [|o' l' Ho Hl']; subst.
    change (run_ops_lin idx (o :: l) (U, V)) with (run_ops_lin idx l (apply_op_lin idx (U, V) o)).
    rewrite run_ops_cons.
    destruct o as [c|a b]; simpl apply_op; simpl apply_op_lin; simpl in Ho.
    + apply IH; [exact Hl'| |exact Hk]. intros j Hj. split; [apply Hrel; exact Hj|].
      destruct (cell_eq_dec j c) as [E|E].
      * subst j. rewrite updz_same, upd_same. reflexivity.
      * rewrite updz_other, upd_other by (try exact E; intro E'; apply E; apply Hinj; assumption). apply Hrel; exact Hj.
    + destruct Ho as [Ha Hb].
      apply IH; [exact Hl'| |exact Hk]. intros j Hj.
      destruct (cell_eq_dec j b) as [E|E].
      * subst j. rewrite !updz_same, !upd_same. destruct (Hrel a Ha) as [E1 E2]. rewrite E1, E2. split; reflexivity.
      * rewrite !updz_other, !upd_other by (try exact E; intro E'; apply E; apply Hinj; assumption). apply Hrel; exact Hj.
Qed.

(* mixed radix: injectivity of the two index maps on the box *)
Lemma radix_inj n a b a' b' : 0 <= a < n -> 0 <= a' < n -> a + n * b = a' + n * b' -> a = a' /\ b = b'.
Proof.
  intros Ha Ha' E. assert (Hb : b = b') by nia. subst b'. split; [lia|reflexivity].
Qed.

Lemma lin_fill_inj d a b : inbox d a -> inbox d b -> lin_fill d a = lin_fill d b -> a = b.
Proof.
  destruct a as [[x y] z], b as [[x' y'] z']. cbv beta iota delta [inbox lin_fill].
  intros (Hx & Hy & Hz) (Hx' & Hy' & Hz') E.
  destruct (radix_inj _ _ _ _ _ Hx Hx' E) as [E1 E2].
  destruct (radix_inj _ _ _ _ _ Hy Hy' E2) as [E3 E4]. congruence.
Qed.
Lemma IND_is_fill d k : IND d k = lin_fill d k.
Proof. destruct k as [[x y] z]. reflexivity. Qed.
Lemma IND_inj d a b : inbox d a -> inbox d b -> IND d a = IND d b -> a = b.
Proof. rewrite !IND_is_fill. apply lin_fill_inj. Qed.
Lemma IND_old_inj d a b : inbox d a -> inbox d b -> IND_old d a = IND_old d b -> a = b.
Proof.
  destruct a as [[x y] z], b as [[x' y'] z']. cbv beta iota delta [inbox IND_old].
  intros (Hx & Hy & Hz) (Hx' & Hy' & Hz') E.
  destruct (radix_inj _ _ _ _ _ Hz Hz' E) as [E1 E2].
  destruct (radix_inj _ _ _ _ _ Hy Hy' E2) as [E3 E4]. congruence.
Qed.

Lemma good_ops_inbox d l : good_ops d l -> Forall (op_in (inbox d)) l.
Proof.
  intros (G1 & G2 & _ & _). apply Forall_forall. intros [c|a b] Hi; simpl.
  - apply G2. exact Hi.
  - destruct (G1 a b Hi) as [Ha Hb]. subst b. split; [apply srcc_inbox; exact Ha|apply negc_inbox; apply srcc_inbox; exact Ha].
Qed.

(* the memory after _defineSymmetry, read back through the index map, is the Hermitian cell array *)
Lemma symmetrize_cells idx ndim d U V :
  good_dims ndim d ->
  (forall a b, inbox d a -> inbox d b -> idx a = idx b -> a = b) ->
  exists u' v', herm_cell d u' v' /\
    forall k, inbox d k -> fst (symmetrize idx ndim d U V) (idx k) = u' k /\ snd (symmetrize idx ndim d U V) (idx k) = v' k.
Proof.
  intros Hg Hinj. destruct (good_dims_ops ndim d Hg) as [Hax Hops].
  set (u := fun k => U (idx k)). set (v := fun k => V (idx k)).
  exists (fst (run_ops (define_symmetry ndim d) (u, v))), (snd (run_ops (define_symmetry ndim d) (u, v))).
  split.
  - apply (good_ops_hermitian d _ u v Hax Hops).
  - intros k Hk. unfold symmetrize.
    apply (bridge idx (inbox d) _ Hinj (good_ops_inbox d _ Hops) U V u v); [|exact Hk].
    intros j _. split; reflexivity.
Qed.

(* generic layout lemma: if idx (T j) = lin_fill j for a map T of the box that commutes with the negation,
   the memory is Hermitian for the DFT whose first dimension is the fastest *)
Lemma layout_via_T idx (T : cell -> cell) ndim d U V :
  good_dims ndim d ->
  (forall a b, inbox d a -> inbox d b -> idx a = idx b -> a = b) ->
  (forall j, inbox d j -> inbox d (T j)) ->
  (forall j, inbox d j -> idx (T j) = lin_fill d j) ->
  (forall j, inbox d j -> negc d (T j) = T (negc d j)) ->
  herm_lin d (fst (symmetrize idx ndim d U V)) (snd (symmetrize idx ndim d U V)).
Proof.
  intros Hg Hinj HTbox HTidx HTneg.
  destruct (symmetrize_cells idx ndim d U V Hg Hinj) as (u' & v' & Hh & Hrd).
  intros j Hj.
  pose proof (negc_inbox d j Hj) as Hnj.
  rewrite <- (HTidx j Hj), <- (HTidx (negc d j) Hnj), <- (HTneg j Hj).
  pose proof (HTbox j Hj) as HTj.
  destruct (Hrd (T j) HTj) as [E1 E2]. destruct (Hrd (negc d (T j)) (negc_inbox d _ HTj)) as [E3 E4].
  rewrite E1, E2, E3, E4. apply Hh. exact HTj.
Qed.

(* the consistent layout (index = fill order) gives a Hermitian memory for fftn, all even dims, 1-D/2-D/3-D *)
Theorem layout_fill_hermitian ndim d U V :
  good_dims ndim d ->
  herm_lin d (fst (symmetrize (lin_fill d) ndim d U V)) (snd (symmetrize (lin_fill d) ndim d U V)).
Proof.
  intro Hg. apply (layout_via_T (lin_fill d) (fun j => j) ndim d U V Hg).
  - apply lin_fill_inj.
  - auto.
  - reflexivity.
  - reflexivity.
Qed.

(* POSITIVE, about the code as it is: the memory written by _defineSymmetry through the macro IND is Hermitian for the DFT that
   fftn computes (first dimension fastest), all even dims, 1-D/2-D/3-D *)
Theorem layout_hermitian ndim d U V :
  good_dims ndim d ->
  herm_lin d (fst (symmetrize (IND d) ndim d U V)) (snd (symmetrize (IND d) ndim d U V)).
Proof.
  intro Hg. apply (layout_via_T (IND d) (fun j => j) ndim d U V Hg).
  - apply IND_inj.
  - auto.
  - intros j _. apply IND_is_fill.
  - reflexivity.
Qed.

(* _final reads U(jx,jy,jz) = _u[IND(jx,jy,jz)]: the memory cell that _prepar filled for the cell (jx,jy,jz) and that fftn treats as
   the node (jx,jy,jz): no exchange of axes (two box cells with the same IND / fill position are the same cell) *)
Theorem final_reads_filled_cell d j k :
  IND d k = lin_fill d k /\ (inbox d j -> inbox d k -> IND d j = lin_fill d k -> j = k).
Proof.
  split; [apply IND_is_fill|]. intros Hj Hk E. rewrite <- (IND_is_fill d k) in E. apply (IND_inj d j k Hj Hk E).
Qed.

(* REGRESSION (old macro, before commit f1042d400): IND_old is the fill order of the transposed cell when the extreme dimensions are equal *)
Theorem layout_square_3d d U V :
  good_dims 3 d -> dx d = dz d ->
  (forall j, inbox d j -> IND_old d (transp3 j) = lin_fill d j) /\
  herm_lin d (fst (symmetrize (IND_old d) 3 d U V)) (snd (symmetrize (IND_old d) 3 d U V)).
Proof.
  intros Hg E.
  assert (HT : forall j, inbox d j -> IND_old d (transp3 j) = lin_fill d j).
  { intros [[x y] z] _. cbv beta iota delta [IND_old lin_fill transp3]. rewrite E. reflexivity. }
  split; [exact HT|].
  apply (layout_via_T (IND_old d) transp3 3 d U V Hg).
  - apply IND_old_inj.
  - intros [[x y] z]. cbv beta iota delta [inbox transp3]. lia.
  - exact HT.
  - intros [[x y] z] _. cbv beta iota delta [negc transp3]. rewrite E. reflexivity.
Qed.

Theorem layout_square_2d d U V :
  good_dims 2 d -> dx d = dy d ->
  (forall j, inbox d j -> IND_old d (transp2 j) = lin_fill d j) /\
  herm_lin d (fst (symmetrize (IND_old d) 2 d U V)) (snd (symmetrize (IND_old d) 2 d U V)).
Proof.
  intros Hg E.
  assert (Hz : dz d = 1) by (destruct Hg as (_ & _ & _ & Hz); exact Hz).
  assert (HT : forall j, inbox d j -> IND_old d (transp2 j) = lin_fill d j).
  { intros [[x y] z]. cbv beta iota delta [inbox IND_old lin_fill transp2]. rewrite E, Hz. intros (_ & _ & Bz).
    assert (z = 0) by lia. subst z. lia. }
  split; [exact HT|].
  apply (layout_via_T (IND_old d) transp2 2 d U V Hg).
  - apply IND_old_inj.
  - intros [[x y] z]. cbv beta iota delta [inbox transp2]. lia.
  - exact HT.
  - intros [[x y] z] _. cbv beta iota delta [negc transp2]. rewrite E. reflexivity.
Qed.

Theorem layout_1d d U V :
  good_dims 1 d ->
  herm_lin d (fst (symmetrize (IND_old d) 1 d U V)) (snd (symmetrize (IND_old d) 1 d U V)).
Proof.
  intros Hg.
  assert (Hy : dy d = 1) by (destruct Hg as (_ & _ & Hy & _); exact Hy).
  assert (Hz : dz d = 1) by (destruct Hg as (_ & _ & _ & Hz); exact Hz).
  apply (layout_via_T (IND_old d) (fun j => j) 1 d U V Hg).
  - apply IND_old_inj.
  - auto.
  - intros [[x y] z]. cbv beta iota delta [inbox IND_old lin_fill]. rewrite Hy, Hz. intros (Bx & By & Bz).
    assert (y = 0) by lia. assert (z = 0) by lia. subst y z. lia.
  - reflexivity.
Qed.

(* REGRESSION, REFUTED for the old macro (cured by commit f1042d400): with IND_old and unequal dimensions (2 x 4) the memory left by _defineSym2 is not Hermitian for
   the (2,4) DFT: the self-conjugate frequency (1,0) of fftn's layout (memory position 1) keeps a non-zero imaginary part,
   because IND_old(1,0,0) = 4: _setZero wrote elsewhere. Computed witness: u[i] = i+1, v[i] = 1000+i. *)
Definition wU (i : Z) : Q := inject_Z (i + 1).
Definition wV (i : Z) : Q := inject_Z (1000 + i).
Theorem layout_refuted :
  exists d U V, good_dims 2 d /\
    ~ herm_lin d (fst (symmetrize (IND_old d) 2 d U V)) (snd (symmetrize (IND_old d) 2 d U V)).
Proof.
  exists (mkD 2 4 1), wU, wV. split.
  - unfold good_dims. simpl. split; [lia|]. split; [exists 1; lia|]. split; [exists 2; lia|reflexivity].
  - intro H. specialize (H (1, 0, 0)).
    assert (Hb : inbox (mkD 2 4 1) (1, 0, 0)) by (simpl; lia).
    destruct (H Hb) as [_ H2]. vm_compute in H2. discriminate H2.
Qed.

(* C14 / law, proofs part 1: ranges of law_uniform, law_int_uniform, sampleInteger, the arguments of
   law_gaussian / law_exponential, law_random_path.  Builds on C13.Proofs (state invariant of the step). *)
From Coq Require Import List ZArith QArith Qabs Qminmax Qround Bool Lia Lqa Permutation Sorted.
From Gst Require Import lib.QAux C13.Model C13.Proofs C11.Model_vec C11.Proofs_vec C14.Law.
Import ListNotations.
Local Open Scope Q_scope.

(* ------------------------------------------------------------------ the uniform in (0,1) *)
Lemma u_of_open v : 0 < u_of (lcg_next v) /\ u_of (lcg_next v) < 1.
Proof. exact (q_of_state_open (lcg_next v) (lcg_range v)). Qed.

Lemma l_uniform_state a b v : fst (l_uniform a b v) = lcg_next v.
Proof. reflexivity. Qed.

Lemma l_uniform_state_range a b v : (0 < fst (l_uniform a b v) < rnd_p)%Z.
Proof. rewrite l_uniform_state. apply lcg_range. Qed.

(* law_uniform(a,b), a < b : strictly inside (a,b), for every state *)
Lemma l_uniform_range a b v : a < b -> a < snd (l_uniform a b v) /\ snd (l_uniform a b v) < b.
Proof.
  intro Hab. unfold l_uniform. cbn [snd].
  destruct (u_of_open v) as [H0 H1]. set (u := u_of (lcg_next v)) in *. split; nra.
Qed.

Lemma l_uniform01_range v : 0 < snd (l_uniform 0 1 v) /\ snd (l_uniform 0 1 v) < 1.
Proof. apply l_uniform_range. reflexivity. Qed.

(* a == b : the draw returns a (the state still advances) *)
Lemma l_uniform_degenerate a b v : a == b -> snd (l_uniform a b v) == a.
Proof. intro H. unfold l_uniform. cbn [snd]. rewrite H. ring. Qed.

(* b < a : strictly inside (b,a) *)
Lemma l_uniform_range_rev a b v : b < a -> b < snd (l_uniform a b v) /\ snd (l_uniform a b v) < a.
Proof.
  intro Hab. unfold l_uniform. cbn [snd].
  destruct (u_of_open v) as [H0 H1]. set (u := u_of (lcg_next v)) in *. split; nra.
Qed.

(* ------------------------------------------------------------------ floors *)
Lemma floor_bounds x lo hi : inject_Z lo <= x -> x < inject_Z hi -> (lo <= Qfloor x < hi)%Z.
Proof.
  intros Hlo Hhi. split.
  - rewrite <- (Qfloor_Z lo). apply Qfloor_resp_le. exact Hlo.
  - rewrite Zlt_Qlt. eapply Qle_lt_trans; [apply Qfloor_le|exact Hhi].
Qed.

Lemma floor_bounds_strict x lo hi : inject_Z lo < x -> x < inject_Z hi -> (lo <= Qfloor x < hi)%Z.
Proof. intros H1 H2. apply floor_bounds; [apply Qlt_le_weak; exact H1 | exact H2]. Qed.

(* ------------------------------------------------------------------ law_int_uniform *)
Lemma l_int_uniform_state a b v : fst (l_int_uniform a b v) = lcg_next v.
Proof. reflexivity. Qed.

Lemma l_int_uniform_range a b v : (a <= b)%Z -> (a <= snd (l_int_uniform a b v) <= b)%Z.
Proof.
  intro Hab. unfold l_int_uniform.
  pose proof (l_uniform_range 0 (inject_Z (b - a + 1)) v) as R.
  destruct (l_uniform 0 (inject_Z (b - a + 1)) v) as [v' r]. cbn [snd] in *.
  assert (Hpos : 0 < inject_Z (b - a + 1)) by (change 0 with (inject_Z 0); rewrite <- Zlt_Qlt; lia).
  destruct (R Hpos) as [R0 R1].
  pose proof (floor_bounds_strict r 0 (b - a + 1) R0 R1). lia.
Qed.

(* the exact value of the rank: floor(v' * number / p) *)
Lemma scaled_eq w n : 0 + u_of w * (inject_Z n - 0) == Qmake (w * n) (Z.to_pos rnd_p).
Proof. unfold u_of, Qeq, Qplus, Qmult, Qminus, Qopp, inject_Z. simpl. ring. Qed.

Lemma l_int_uniform_value a b v :
  snd (l_int_uniform a b v) = ((lcg_next v * (b - a + 1)) / rnd_p + a)%Z.
Proof.
  unfold l_int_uniform, l_uniform. cbn [snd]. f_equal.
  rewrite (Qfloor_comp _ _ (scaled_eq (lcg_next v) (b - a + 1))). reflexivity.
Qed.

(* every state of [1,p) is the successor of a state of [1,p) : 105 is invertible modulo p *)
Definition lcg_prev (w : Z) : Z := (11619140 * w) mod rnd_p.
Lemma lcg_prev_spec w : (0 < w < rnd_p)%Z -> (0 < lcg_prev w < rnd_p)%Z /\ lcg_next (lcg_prev w) = w.
Proof.
  intro Hw. unfold lcg_prev.
  assert (Hp : (0 < rnd_p)%Z) by reflexivity.
  assert (E : ((rnd_factor * ((11619140 * w) mod rnd_p)) mod rnd_p = w)%Z).
  { rewrite Zmult_mod_idemp_r. rewrite Z.mul_assoc. rewrite Zmult_mod.
    replace ((rnd_factor * 11619140) mod rnd_p)%Z with 1%Z by reflexivity.
    rewrite Z.mul_1_l, Zmod_mod. apply Z.mod_small. lia. }
  pose proof (Z.mod_pos_bound (11619140 * w) rnd_p Hp) as B.
  assert (N : ((11619140 * w) mod rnd_p <> 0)%Z).
  { intro Z0. rewrite Z0 in E. rewrite Z.mul_0_r, Z.mod_0_l in E by (unfold rnd_p; lia). lia. }
  assert (R : (0 < (11619140 * w) mod rnd_p < rnd_p)%Z) by lia.
  split; [exact R|].
  destruct (lcg_next_plain _ R) as [E1 _]. rewrite E1. exact E.
Qed.

(* the state from which the next uniform has numerator floor(k p / number) + 1, i.e. rank k *)
Definition int_uniform_witness (number k : Z) : Z := lcg_prev ((k * rnd_p) / number + 1).

Lemma l_int_uniform_onto a b r :
  (a <= r <= b)%Z -> (b - a + 1 < rnd_p)%Z ->
  let v := int_uniform_witness (b - a + 1) (r - a) in
  (0 < v < rnd_p)%Z /\ snd (l_int_uniform a b v) = r.
Proof.
  intros Hr Hn v. subst v. unfold int_uniform_witness.
  set (number := (b - a + 1)%Z) in *. set (k := (r - a)%Z).
  assert (Hnum : (0 < number)%Z) by (unfold number; lia).
  assert (Hk : (0 <= k < number)%Z) by (unfold k, number; lia).
  assert (Hp : (0 < rnd_p)%Z) by reflexivity.
  set (d := (k * rnd_p / number)%Z).
  assert (D1 : (number * d <= k * rnd_p)%Z) by (apply Z.mul_div_le; lia).
  assert (D2 : (k * rnd_p < number * (d + 1))%Z)
    by (unfold d; replace (k * rnd_p / number + 1)%Z with (Z.succ (k * rnd_p / number)) by lia; apply Z.mul_succ_div_gt; lia).
  assert (D0 : (0 <= d)%Z) by (unfold d; apply Z.div_pos; nia).
  assert (W : (0 < d + 1 < rnd_p)%Z).
  { split; [lia|]. destruct (Z_lt_le_dec (d + 1) rnd_p) as [L|L]; [exact L|]. exfalso. nia. }
  destruct (lcg_prev_spec (d + 1) W) as [R E]. split; [exact R|].
  rewrite l_int_uniform_value. fold number. rewrite E.
  assert (Q : ((d + 1) * number / rnd_p = k)%Z).
  { symmetry. apply (Zdiv_unique _ _ k ((d + 1) * number - k * rnd_p)); nia. }
  rewrite Q. unfold k. lia.
Qed.

(* in particular both ends: the witnesses do not depend on (a,b) for the lower end *)
Lemma l_int_uniform_low a b : (a <= b)%Z -> (b - a + 1 < rnd_p)%Z ->
  snd (l_int_uniform a b 11619140) = a.
Proof.
  intros Hab Hn. rewrite l_int_uniform_value.
  replace (lcg_next 11619140) with 1%Z by (vm_compute; reflexivity).
  rewrite Z.mul_1_l, Z.div_small; lia.
Qed.
Lemma l_int_uniform_high a b : (a <= b)%Z -> (b - a + 1 < rnd_p)%Z ->
  snd (l_int_uniform a b 8381019) = b.
Proof.
  intros Hab Hn. rewrite l_int_uniform_value.
  replace (lcg_next 8381019) with (rnd_p - 1)%Z by (vm_compute; reflexivity).
  set (number := (b - a + 1)%Z) in *.
  assert (Q : ((rnd_p - 1) * number / rnd_p = number - 1)%Z).
  { symmetry. apply (Zdiv_unique _ _ (number - 1) (rnd_p - number)); unfold rnd_p in *; lia. }
  rewrite Q. unfold number. lia.
Qed.

(* ------------------------------------------------------------------ sampleInteger *)
Lemma qtrunc_nonneg x : 0 <= x -> qtrunc x = Qfloor x.
Proof. intro H. unfold qtrunc. apply Qle_bool_iff in H. rewrite H. reflexivity. Qed.

Lemma l_sample_integer_state a b v : fst (l_sample_integer a b v) = lcg_next v.
Proof. reflexivity. Qed.

Lemma l_sample_integer_range a b v : (a <= b)%Z -> (a <= snd (l_sample_integer a b v) <= b)%Z.
Proof.
  intro Hab. unfold l_sample_integer.
  assert (Hlt : inject_Z a - (1 # 2) < inject_Z b + (1 # 2)).
  { apply Qle_lt_trans with (inject_Z b - (1 # 2)).
    - apply Qplus_le_l. rewrite <- Zle_Qle. exact Hab.
    - lra. }
  pose proof (l_uniform_range _ _ v Hlt) as R.
  destruct (l_uniform (inject_Z a - (1 # 2)) (inject_Z b + (1 # 2)) v) as [v' rand]. cbn [snd] in *.
  destruct R as [R0 R1].
  destruct (qltb_spec 0 rand) as [Hp|Hn].
  - rewrite qtrunc_nonneg by lra.
    assert (B1 : inject_Z a < rand + (1 # 2)) by lra.
    assert (B2 : rand + (1 # 2) < inject_Z (b + 1)) by (rewrite inject_Z_plus; change (inject_Z 1) with 1; lra).
    pose proof (floor_bounds_strict _ _ _ B1 B2). lia.
  - assert (Hn' : rand <= 0) by lra.
    rewrite qtrunc_nonneg by lra.
    assert (B1 : inject_Z (- b) < - rand + (1 # 2)) by (rewrite inject_Z_opp; lra).
    assert (B2 : - rand + (1 # 2) < inject_Z (- a + 1)) by (rewrite inject_Z_plus, inject_Z_opp; change (inject_Z 1) with 1; lra).
    pose proof (floor_bounds_strict _ _ _ B1 B2). lia.
Qed.

(* ------------------------------------------------------------------ law_gaussian / law_exponential *)
Lemma two_pi_pos : 0 < 2 * c_pi.
Proof. reflexivity. Qed.

(* two draws; the argument of log is in (0,1), the argument of cos in (0, 2 pi) *)
Lemma gauss_args_spec v :
  let '(v2, r1, r2) := gauss_args v in
  v2 = lcg_next (lcg_next v) /\ (0 < r1 /\ r1 < 1) /\ (0 < r2 /\ r2 < 2 * c_pi).
Proof.
  unfold gauss_args.
  pose proof (l_uniform01_range v) as R1.
  pose proof (l_uniform_state 0 1 v) as S1.
  destruct (l_uniform 0 1 v) as [v1 r1]. cbn [fst snd] in *.
  pose proof (l_uniform_range 0 (2 * c_pi) v1 two_pi_pos) as R2.
  pose proof (l_uniform_state 0 (2 * c_pi) v1) as S2.
  destruct (l_uniform 0 (2 * c_pi) v1) as [v2 r2]. cbn [fst snd] in *.
  subst v1. tauto.
Qed.

Section GaussExp.
Variables (ln sq cs : Q -> Q).
Hypothesis ln_neg : forall x, 0 < x -> x < 1 -> ln x < 0.

Lemma l_gaussian_state mean sigma v : fst (l_gaussian ln sq cs mean sigma v) = lcg_next (lcg_next v).
Proof.
  unfold l_gaussian. pose proof (gauss_args_spec v) as H.
  destruct (gauss_args v) as [[v2 r1] r2]. cbn [fst]. tauto.
Qed.

(* the radicand -2 log(random1) is positive for every state *)
Lemma gauss_radicand_pos v :
  let '(_, r1, _) := gauss_args v in 0 < - (2) * ln r1.
Proof.
  pose proof (gauss_args_spec v) as H.
  destruct (gauss_args v) as [[v2 r1] r2]. destruct H as [_ [[H0 H1] _]].
  pose proof (ln_neg r1 H0 H1). lra.
Qed.

(* the value is mean + sigma * (sqrt of a positive number) * (cos of a number of (0, 2 pi)) *)
Lemma l_gaussian_form mean sigma v :
  exists r1 r2, (0 < r1 /\ r1 < 1) /\ (0 < r2 /\ r2 < 2 * c_pi) /\ 0 < - (2) * ln r1 /\
    snd (l_gaussian ln sq cs mean sigma v) = sq (- (2) * ln r1) * cs r2 * sigma + mean.
Proof.
  unfold l_gaussian. pose proof (gauss_args_spec v) as H. pose proof (gauss_radicand_pos v) as G.
  destruct (gauss_args v) as [[v2 r1] r2]. exists r1, r2. cbn [snd]. tauto.
Qed.

(* bounded by |sigma| * sqrt(-2 log r1) around the mean when |cos| <= 1 and sqrt >= 0 *)
Lemma l_gaussian_bound mean sigma v :
  (forall x, - (1) <= cs x /\ cs x <= 1) -> (forall x, 0 <= sq x) ->
  exists r1, (0 < r1 /\ r1 < 1) /\
    Qabs (snd (l_gaussian ln sq cs mean sigma v) - mean) <= Qabs sigma * sq (- (2) * ln r1).
Proof.
  intros Hc Hs. destruct (l_gaussian_form mean sigma v) as (r1 & r2 & R1 & _ & _ & E).
  exists r1. split; [exact R1|]. rewrite E.
  set (s := sq (- (2) * ln r1)). specialize (Hs (- (2) * ln r1)). fold s in Hs.
  destruct (Hc r2) as [C0 C1]. set (c := cs r2) in *.
  setoid_replace (s * c * sigma + mean - mean) with (sigma * (s * c)) by ring.
  rewrite Qabs_Qmult.
  assert (A : Qabs (s * c) <= s) by (apply Qabs_case; intros; nra).
  pose proof (Qabs_nonneg sigma) as B. nra.
Qed.

(* law_exponential(lambda) > 0 for lambda > 0 *)
Lemma l_exponential_pos lambda v : 0 < lambda ->
  fst (l_exponential ln lambda v) = lcg_next v /\ 0 < snd (l_exponential ln lambda v).
Proof.
  intro Hl. unfold l_exponential.
  pose proof (l_uniform01_range v) as R. pose proof (l_uniform_state 0 1 v) as S.
  destruct (l_uniform 0 1 v) as [v1 u]. cbn [fst snd] in *. split; [exact S|].
  destruct R as [R0 R1]. pose proof (ln_neg u R0 R1) as L.
  unfold Qdiv. apply Qmult_lt_0_compat; [lra|]. apply Qinv_lt_0_compat. exact Hl.
Qed.
End GaussExp.

(* ------------------------------------------------------------------ law_random_path *)
Lemma l_draws_length n : forall v, length (snd (l_draws n v)) = n.
Proof.
  induction n as [|n IH]; intro v; simpl; [reflexivity|].
  specialize (IH (lcg_next v)). destruct (l_draws n (lcg_next v)) as [v2 l]. simpl in *. lia.
Qed.

Lemma l_draws_open n : forall v, Forall (fun u => 0 < u /\ u < 1) (snd (l_draws n v)).
Proof.
  induction n as [|n IH]; intro v; simpl; [constructor|].
  specialize (IH (lcg_next v)). destruct (l_draws n (lcg_next v)) as [v2 l]. simpl in *.
  constructor; [|exact IH]. exact (l_uniform01_range v).
Qed.

Lemma l_draws_state n : forall v, fst (l_draws n v) = lcg_iter n v.
Proof.
  induction n as [|n IH]; intro v; [reflexivity|].
  change (l_draws (S n) v) with (let (v2, l) := l_draws n (lcg_next v) in (v2, snd (l_uniform 0 1 v) :: l)).
  specialize (IH (lcg_next v)). destruct (l_draws n (lcg_next v)) as [v2 l]. simpl in IH. simpl fst. rewrite IH. reflexivity.
Qed.

Lemma map_nth_seq {A} (d : A) (l : list A) : map (fun i => nth i l d) (seq 0 (length l)) = l.
Proof.
  induction l as [|x r IH]; [reflexivity|]. simpl. f_equal.
  rewrite <- seq_shift, map_map. exact IH.
Qed.

(* reordering the identity by a permutation of 0..n-1 gives that permutation *)
Lemma reorder_identity n (order : list nat) :
  length order = n -> Forall (fun i => (i < n)%nat) order ->
  VH_reorder 0%Z (map Z.of_nat (seq 0 n)) order n = map Z.of_nat order.
Proof.
  intros Hl Hb. unfold VH_reorder.
  assert (E : map Z.of_nat order = map Z.of_nat (map (fun i => nth i order O) (seq 0 n)))
    by (rewrite <- Hl, map_nth_seq; reflexivity).
  rewrite E, map_map.
  apply map_ext_in. intros i Hi. apply in_seq in Hi.
  assert (Hn : (nth i order O < n)%nat).
  { rewrite Forall_forall in Hb. apply Hb. apply nth_In. lia. }
  rewrite (nth_indep _ 0%Z (Z.of_nat O)) by (rewrite map_length, seq_length; exact Hn).
  rewrite map_nth, seq_nth by exact Hn. reflexivity.
Qed.

Lemma l_random_path_perm n v :
  fst (l_random_path n v) = lcg_iter n v /\
  Permutation (snd (l_random_path n v)) (map Z.of_nat (seq 0 n)).
Proof.
  unfold l_random_path.
  pose proof (l_draws_length n v) as HL. pose proof (l_draws_state n v) as HS.
  destruct (l_draws n v) as [v' us]. cbn [fst snd] in *. split; [exact HS|].
  destruct n as [|n].
  - destruct us; [|discriminate]. simpl. constructor.
  - unfold VH_arrange. cbn [fst].
    assert (Hne : map Some us <> []) by (destruct us; [discriminate|discriminate]).
    assert (Hlen : length (map Some us) = S n) by (rewrite map_length; exact HL).
    assert (E : VH_orderRanks (map Some us) true (Some (S n)) = VH_orderRanks (map Some us) true None).
    { unfold VH_orderRanks. destruct (map Some us) eqn:M; [reflexivity|]. rewrite <- Hlen. reflexivity. }
    rewrite E. set (order := VH_orderRanks (map Some us) true None) in *.
    assert (HP : Permutation order (seq 0 (S n))).
    { rewrite <- Hlen. exact (proj2 (orderRanks_spec (map Some us) true Hne)). }
    assert (Hlo : length order = S n) by (rewrite (Permutation_length HP); apply seq_length).
    assert (Hb : Forall (fun i => (i < S n)%nat) order).
    { apply Forall_forall. intros i Hi. apply (Permutation_in _ HP) in Hi. apply in_seq in Hi. lia. }
    change (map Z.of_nat (seq 0 (S n))) with (Z.of_nat 0 :: map Z.of_nat (seq 1 n)) at 1.
    cbv iota. change (Z.of_nat 0 :: map Z.of_nat (seq 1 n)) with (map Z.of_nat (seq 0 (S n))).
    rewrite reorder_identity by assumption.
    rewrite skipn_all2 by (rewrite map_length, seq_length; lia). rewrite app_nil_r.
    apply Permutation_map. exact HP.
Qed.

(* ------------------------------------------------------------------ serial structure of the generator *)
(* From a state of [1,p) the next uniform is the fractional part of 105 times the current one: successive pairs
   (u_i, u_{i+1}) lie on 105 parallel lines of the unit square (the multiplier is 105).  This is a structural
   fact about the moments clause (which stays statistical): e.g. law_gaussian's two uniforms are never independent. *)
Lemma l_uniform_serial v : (0 < v < rnd_p)%Z ->
  exists k : Z, (0 <= k < 105)%Z /\ u_of (lcg_next v) == 105 * u_of v - inject_Z k.
Proof.
  intro Hv. destruct (lcg_next_plain v Hv) as [E _]. rewrite E.
  exists (rnd_factor * v / rnd_p)%Z.
  assert (Hp : (0 < rnd_p)%Z) by reflexivity.
  pose proof (Z.div_mod (rnd_factor * v) rnd_p ltac:(lia)) as DM.
  pose proof (Z.mod_pos_bound (rnd_factor * v) rnd_p Hp) as MB.
  split.
  - split; [apply Z.div_pos; unfold rnd_factor; lia|].
    apply Z.div_lt_upper_bound; [exact Hp|]. unfold rnd_factor in *. lia.
  - set (k := (rnd_factor * v / rnd_p)%Z) in *. set (r := ((rnd_factor * v) mod rnd_p)%Z) in *.
    unfold u_of, Qeq, Qminus, Qplus, Qmult, Qopp, inject_Z. cbn [Qnum Qden].
    unfold rnd_factor, rnd_p in *. simpl Z.to_pos. rewrite !Pos2Z.inj_mul. lia.
Qed.

(* C05 proofs on the C06 moving-neighbourhood model *)
From Coq Require Import List Arith ZArith QArith Bool Lia Sorted.
From Gst Require Import lib.QAux C06.Model C06.Spec C06.Proofs C05.Reindex C05.Spec_neigh.
Import ListNotations.
Local Open Scope Q_scope.

(* ---------- masked / all-undefined samples are never candidates ---------- *)
Lemma cand_of_removed oracle p t is : nkeep (snd is) = false -> cand_of oracle p t is = None.
Proof.
  unfold nkeep, cand_of. intro H. destruct (s_active (snd is)); cbn [negb andb] in *; [|reflexivity].
  destruct (discard_undefined (snd is)); [reflexivity|discriminate].
Qed.
Lemma admissible_keep p t s : admissible_b p t s = true -> nkeep s = true.
Proof.
  unfold admissible_b, nkeep. intro H.
  destruct (s_active s); [|discriminate]. destruct (discard_undefined s); [discriminate|reflexivity].
Qed.

(* ---------- the enumerated kept samples ---------- *)
Lemma nreduce_lsub samples : nreduce samples = lsub dummy_sample (nkept samples) samples.
Proof. unfold nreduce, nkept. apply filter_as_lsub. Qed.
Lemma length_nreduce samples : length (nreduce samples) = length (nkept samples).
Proof. rewrite nreduce_lsub. apply length_lsub. Qed.

Lemma combine_map_lr {A B C D} (f : A -> C) (g : B -> D) l1 l2 :
  combine (map f l1) (map g l2) = map (fun p => (f (fst p), g (snd p))) (combine l1 l2).
Proof.
  revert l2. induction l1 as [|x r IH]; intro l2; [reflexivity|].
  destruct l2 as [|y r2]; [reflexivity|]. cbn [map combine fst snd]. rewrite IH. reflexivity.
Qed.

Lemma combine_seq_map {A} (d : A) (l : list A) s :
  combine (seq s (length l)) l = map (fun i => (i, nth (i - s) l d)) (seq s (length l)).
Proof.
  revert s. induction l as [|x r IH]; intro s; [reflexivity|].
  cbn [length seq combine map]. rewrite Nat.sub_diag. cbn [nth]. f_equal.
  rewrite (IH (S s)). apply map_ext_in. intros i Hi. apply in_seq in Hi.
  replace (i - s)%nat with (S (i - S s)) by lia. reflexivity.
Qed.
Lemma enum_as_map (l : list sample) : enum l = map (fun i => (i, nth i l dummy_sample)) (seq 0 (length l)).
Proof.
  unfold enum. rewrite (combine_seq_map dummy_sample l 0). apply map_ext. intro i. rewrite Nat.sub_0_r. reflexivity.
Qed.

Lemma enum_filter_keep samples :
  filter (fun is => nkeep (snd is)) (enum samples) =
  map (fun is => (ren (nkept samples) (fst is), snd is)) (enum (nreduce samples)).
Proof.
  set (K := nkept samples).
  rewrite (enum_as_map samples), (enum_as_map (nreduce samples)). rewrite filter_map_comm. cbn [snd].
  change (filter (fun x => nkeep (nth x samples dummy_sample)) (seq 0 (length samples))) with K.
  rewrite map_map. cbn [fst snd]. rewrite length_nreduce. fold K.
  rewrite <- (map_ren_seq K) at 1. rewrite map_map.
  apply map_ext_in. intros a Ha. apply in_seq in Ha. f_equal.
  rewrite nreduce_lsub. fold K. rewrite nth_lsub by lia. reflexivity.
Qed.

(* ---------- candidates ---------- *)
Lemma mk_cand_ren oracle p t K is :
  mk_cand oracle p t (ren K (fst is), snd is) = cren K (mk_cand oracle p t is).
Proof. reflexivity. Qed.

Lemma cand_loop_reduce oracle p t samples :
  cand_loop oracle p t (enum samples) =
  map (cren (nkept samples)) (cand_loop oracle p t (enum (nreduce samples))).
Proof.
  rewrite !cand_loop_filter.
  assert (E : filter (fun is => admissible_b p t (snd is)) (enum samples) =
              filter (fun is => admissible_b p t (snd is)) (filter (fun is => nkeep (snd is)) (enum samples))).
  { rewrite <- filter_and. apply filter_ext. intro is. destruct (admissible_b p t (snd is)) eqn:A; [|reflexivity].
    rewrite (admissible_keep p t (snd is) A). reflexivity. }
  rewrite E, enum_filter_keep. rewrite filter_map_comm. cbn [snd]. rewrite !map_map.
  apply map_ext. intro is. apply mk_cand_ren.
Qed.

(* ---------- sorting commutes with the renaming ---------- *)
Lemma insert_map {A B} (f : A -> B) (le : A -> A -> bool) (le' : B -> B -> bool) x l :
  (forall a b, le' (f a) (f b) = le a b) -> insert le' (f x) (map f l) = map f (insert le x l).
Proof.
  intro H. induction l as [|y r IH]; [reflexivity|]. cbn [map insert]. rewrite H.
  destruct (le x y); cbn [map]; [reflexivity|]. rewrite IH. reflexivity.
Qed.
Lemma isort_map {A B} (f : A -> B) (le : A -> A -> bool) (le' : B -> B -> bool) l :
  (forall a b, le' (f a) (f b) = le a b) -> isort le' (map f l) = map f (isort le l).
Proof.
  intro H. unfold isort. induction l as [|x r IH]; [reflexivity|]. cbn [map fold_right].
  rewrite IH. apply insert_map. exact H.
Qed.
Lemma sort_cands_ren K l : sort_cands (map (cren K) l) = map (cren K) (sort_cands l).
Proof. unfold sort_cands. apply isort_map. intros a b. reflexivity. Qed.

(* the literal order of the code (keys perturbed by distmax * isel * eps, isel = position in the candidate list) *)
Lemma perturb_sort_ren K eps (r : cand -> Q) l :
  perturb_sort eps r (map (cren K) l) = map (cren K) (perturb_sort eps (fun c => r (cren K c)) l).
Proof.
  unfold perturb_sort. rewrite map_map.
  assert (E : enum (map (cren K) l) = map (fun ic => (fst ic, cren K (snd ic))) (enum l)).
  { unfold enum. rewrite map_length. rewrite <- (map_id (seq 0 (length l))) at 1.
    apply (combine_map_lr (fun x : nat => x) (cren K)). }
  rewrite E.
  rewrite (isort_map (fun ic : nat * cand => (fst ic, cren K (snd ic)))
                     (le_pert eps (maxQ (map (fun x => r (cren K x)) l)) (fun c => r (cren K c)))
                     (le_pert eps (maxQ (map (fun x => r (cren K x)) l)) r)) by (intros a b; reflexivity).
  rewrite !map_map. reflexivity.
Qed.

(* ---------- the passes on the sorted state only look at sectors and alive flags ---------- *)
Lemma nsmax_pass_ren K isect nsmax n_ang l :
  nsmax_pass isect nsmax n_ang (map (stren K) l) = map (stren K) (nsmax_pass isect nsmax n_ang l).
Proof.
  revert n_ang. induction l as [|[c alive] r IH]; intro n_ang; [reflexivity|].
  cbn [map stren fst snd nsmax_pass]. change (c_sect (cren K c)) with (c_sect c).
  destruct (alive && (c_sect c =? isect)%nat).
  - destruct (n_ang <? nsmax)%nat; cbn [map stren fst snd]; rewrite IH; reflexivity.
  - cbn [map stren fst snd]. rewrite IH. reflexivity.
Qed.
Lemma sector_nsmax_ren K nsect nsmax l :
  sector_nsmax nsect nsmax (map (stren K) l) = map (stren K) (sector_nsmax nsect nsmax l).
Proof.
  unfold sector_nsmax. generalize (seq 0 nsect). intro sl. revert l.
  induction sl as [|s r IH]; intro l; [reflexivity|]. cbn [fold_left]. rewrite nsmax_pass_ren. apply IH.
Qed.
Lemma filter_stren K (P : cand * bool -> bool) l :
  (forall ca, P (stren K ca) = P ca) -> filter P (map (stren K) l) = map (stren K) (filter P l).
Proof. intro H. rewrite filter_map_comm. f_equal. apply filter_ext. exact H. Qed.
Lemma count_sect_ren K s l : count_sect s (map (stren K) l) = count_sect s l.
Proof. unfold count_sect. rewrite filter_stren by (intros [c a]; reflexivity). apply map_length. Qed.
Lemma count_alive_ren K l : count_alive (map (stren K) l) = count_alive l.
Proof. unfold count_alive. rewrite filter_stren by (intros [c a]; reflexivity). apply map_length. Qed.
Lemma sect_counts_ren K nsect l : sect_counts nsect (map (stren K) l) = sect_counts nsect l.
Proof. unfold sect_counts. apply map_ext. intro s. apply count_sect_ren. Qed.
Lemma discard_pass_ren K isect quota number l :
  discard_pass isect quota number (map (stren K) l) = map (stren K) (discard_pass isect quota number l).
Proof.
  revert number. induction l as [|[c alive] r IH]; intro number; [reflexivity|].
  cbn [map stren fst snd discard_pass]. change (c_sect (cren K c)) with (c_sect c).
  destruct (alive && (c_sect c =? isect)%nat).
  - destruct (quota <? S number)%nat; cbn [map stren fst snd]; rewrite IH; reflexivity.
  - cbn [map stren fst snd]. rewrite IH. reflexivity.
Qed.
Lemma discard_all_ren K isect cs isv l :
  discard_all isect cs isv (map (stren K) l) = map (stren K) (discard_all isect cs isv l).
Proof.
  revert isect isv l. induction cs as [|c cs IH]; intros isect isv l; [reflexivity|].
  destruct isv as [|i isv]; [reflexivity|]. cbn [discard_all].
  destruct (c <=? i)%nat; [apply IH|]. rewrite discard_pass_ren. apply IH.
Qed.
Lemma moving_select_ren K nmaxi nsect l :
  moving_select nmaxi nsect (map (stren K) l) = option_map (map (stren K)) (moving_select nmaxi nsect l).
Proof.
  unfold moving_select. destruct (nmaxi <=? 0)%Z; [reflexivity|].
  rewrite count_alive_ren, sect_counts_ren.
  destruct (count_alive l <? Z.to_nat nmaxi)%nat; [reflexivity|].
  destruct (alloc (Z.to_nat nmaxi) (sect_counts nsect l)); [|reflexivity].
  cbn [option_map]. rewrite discard_all_ren. reflexivity.
Qed.
Lemma alive_idx_ren K l : alive_idx (map (stren K) l) = map (ren K) (alive_idx l).
Proof.
  unfold alive_idx. rewrite filter_stren by (intros [c a]; reflexivity). rewrite !map_map. reflexivity.
Qed.

(* the passes never change the candidates themselves, only their alive flag *)
Lemma nsmax_pass_fst isect nsmax n_ang l : map fst (nsmax_pass isect nsmax n_ang l) = map fst l.
Proof.
  revert n_ang. induction l as [|[c alive] r IH]; intro n_ang; [reflexivity|]. cbn [nsmax_pass].
  destruct (alive && (c_sect c =? isect)%nat).
  - destruct (n_ang <? nsmax)%nat; cbn [map fst]; rewrite IH; reflexivity.
  - cbn [map fst]. rewrite IH. reflexivity.
Qed.
Lemma sector_nsmax_fst nsect nsmax l : map fst (sector_nsmax nsect nsmax l) = map fst l.
Proof.
  unfold sector_nsmax. generalize (seq 0 nsect). intro sl. revert l.
  induction sl as [|s r IH]; intro l; [reflexivity|]. cbn [fold_left]. rewrite IH. apply nsmax_pass_fst.
Qed.
Lemma discard_pass_fst isect quota number l : map fst (discard_pass isect quota number l) = map fst l.
Proof.
  revert number. induction l as [|[c alive] r IH]; intro number; [reflexivity|]. cbn [discard_pass].
  destruct (alive && (c_sect c =? isect)%nat).
  - destruct (quota <? S number)%nat; cbn [map fst]; rewrite IH; reflexivity.
  - cbn [map fst]. rewrite IH. reflexivity.
Qed.
Lemma discard_all_fst isect cs isv l : map fst (discard_all isect cs isv l) = map fst l.
Proof.
  revert isect isv l. induction cs as [|c cs IH]; intros isect isv l; [reflexivity|].
  destruct isv as [|i isv]; [reflexivity|]. cbn [discard_all]. rewrite IH.
  destruct (c <=? i)%nat; [reflexivity|apply discard_pass_fst].
Qed.
Lemma moving_select_fst nmaxi nsect l fin : moving_select nmaxi nsect l = Some fin -> map fst fin = map fst l.
Proof.
  unfold moving_select. destruct (nmaxi <=? 0)%Z; [intro H; injection H as H; subst; reflexivity|].
  destruct (count_alive l <? Z.to_nat nmaxi)%nat; [intro H; injection H as H; subst; reflexivity|].
  destruct (alloc (Z.to_nat nmaxi) (sect_counts nsect l)); [|discriminate].
  intro H. injection H as H. subst. apply discard_all_fst.
Qed.
Lemma alive_idx_in l i : In i (alive_idx l) -> In i (map c_idx (map fst l)).
Proof.
  unfold alive_idx. intro H. apply in_map_iff in H. destruct H as [ca [E H]]. apply filter_In in H.
  rewrite map_map. apply in_map_iff. exists ca. split; [exact E|tauto].
Qed.

(* ---------- compression to increasing ranks ---------- *)
Lemma compress_in nech sel i : In i (compress nech sel) <-> (i < nech)%nat /\ In i sel.
Proof.
  unfold compress. rewrite filter_In, in_seq, existsb_exists. split.
  - intros [H [x [Hx E]]]. apply Nat.eqb_eq in E. subst x. split; [lia|exact Hx].
  - intros [H Hx]. split; [lia|]. exists i. split; [exact Hx|apply Nat.eqb_refl].
Qed.
Lemma compress_ren K nech n' sel :
  StronglySorted lt K -> length K = n' -> (forall i, In i K -> (i < nech)%nat) -> (forall a, In a sel -> (a < n')%nat) ->
  compress nech (map (ren K) sel) = map (ren K) (compress n' sel).
Proof.
  intros S HL HK Hsel. apply sorted_same_elements.
  - unfold compress. apply filter_seq_sorted.
  - apply (map_sorted_mono (ren K) (compress n' sel) n').
    + intros a b Hab Hb. apply ren_mono; [exact S|exact Hab|rewrite HL; exact Hb].
    + intros a Ha. apply compress_in in Ha. tauto.
    + unfold compress. apply filter_seq_sorted.
  - intro i. rewrite compress_in. rewrite !in_map_iff. split.
    + intros [Hi [a [E Ha]]]. exists a. split; [exact E|]. apply compress_in. split; [apply Hsel; exact Ha|exact Ha].
    + intros [a [E Ha]]. apply compress_in in Ha. destruct Ha as [Ha1 Ha2]. split.
      * subst i. apply HK. apply nth_In. rewrite HL. exact Ha1.
      * exists a. split; [exact E|exact Ha2].
Qed.

(* ---------- the body of _moving after the candidate loop ---------- *)
Lemma select_tail_ren K nech n' nmaxi nsect (after : st) :
  StronglySorted lt K -> length K = n' -> (forall i, In i K -> (i < nech)%nat) ->
  (forall c, In c (map fst after) -> (c_idx c < n')%nat) ->
  let r := match moving_select nmaxi nsect (map (stren K) after) with
           | Some fin => {| r_code := 0; r_sorted := fin; r_ranks := compress nech (alive_idx fin) |}
           | None => fail 4 end in
  let r' := match moving_select nmaxi nsect after with
            | Some fin => {| r_code := 0; r_sorted := fin; r_ranks := compress n' (alive_idx fin) |}
            | None => fail 4 end in
  r_code r = r_code r' /\ r_sorted r = map (stren K) (r_sorted r') /\ r_ranks r = map (ren K) (r_ranks r').
Proof.
  intros S HL HK Hc. cbn zeta. rewrite moving_select_ren.
  destruct (moving_select nmaxi nsect after) as [fin|] eqn:MS; cbn [option_map]; [|repeat split].
  cbn [r_code r_sorted r_ranks]. split; [reflexivity|]. split; [reflexivity|].
  rewrite alive_idx_ren. apply (compress_ren K nech n' (alive_idx fin) S HL HK).
  intros a Ha. apply alive_idx_in in Ha. rewrite (moving_select_fst _ _ _ _ MS) in Ha.
  apply in_map_iff in Ha. destruct Ha as [c [E Hin]]. subst a. apply Hc. exact Hin.
Qed.

Lemma moving_from_ren K p nech n' cands :
  StronglySorted lt K -> length K = n' -> (forall i, In i K -> (i < nech)%nat) ->
  (forall c, In c cands -> (c_idx c < n')%nat) ->
  let r := moving_from p nech (map (cren K) cands) in
  let r' := moving_from p n' cands in
  r_code r = r_code r' /\ r_sorted r = map (stren K) (r_sorted r') /\ r_ranks r = map (ren K) (r_ranks r').
Proof.
  intros S HL HK Hc. cbn zeta. unfold moving_from. cbv zeta. rewrite map_length.
  destruct (Z.of_nat (length cands) <? p_nmini p)%Z; [repeat split|].
  rewrite !andb_false_r. rewrite sort_cands_ren.
  assert (E0 : map (fun c => (c, true)) (map (cren K) (sort_cands cands)) =
               map (stren K) (map (fun c => (c, true)) (sort_cands cands)))
    by (rewrite !map_map; reflexivity).
  rewrite E0.
  assert (HS : forall c, In c (map fst (map (fun c0 : cand => (c0, true)) (sort_cands cands))) -> (c_idx c < n')%nat).
  { intros c Hin. rewrite map_map in Hin. cbn [fst] in Hin. rewrite map_id in Hin.
    apply Hc. apply (Permutation.Permutation_in c (sort_cands_perm cands) Hin). }
  destruct (flag_sector p && (0 <? p_nsmax p)%Z).
  - rewrite sector_nsmax_ren. apply (select_tail_ren K nech n' _ _ _ S HL HK).
    intros c Hin. rewrite sector_nsmax_fst in Hin. apply HS. exact Hin.
  - apply (select_tail_ren K nech n' _ _ _ S HL HK). exact HS.
Qed.

Lemma enum_length {A} (l : list A) : length (enum l) = length l.
Proof. unfold enum. rewrite combine_length, seq_length. apply Nat.min_id. Qed.
Lemma cand_loop_length oracle p t samples : (length (cand_loop oracle p t (enum samples)) <= length samples)%nat.
Proof.
  rewrite cand_loop_filter, map_length. rewrite <- (enum_length samples). apply filter_len_le.
Qed.
Lemma cand_loop_idx oracle p t samples c :
  In c (cand_loop oracle p t (enum samples)) -> (c_idx c < length samples)%nat.
Proof.
  rewrite cand_loop_filter. intro H. apply in_map_iff in H. destruct H as [is [E H]]. subst c.
  apply filter_In in H. destruct H as [H _]. destruct is as [i s]. unfold enum in H. apply in_combine_l in H.
  apply in_seq in H. cbn [mk_cand c_idx fst]. lia.
Qed.

Lemma nkept_props samples :
  StronglySorted lt (nkept samples) /\ (forall i, In i (nkept samples) -> (i < length samples)%nat) /\
  (length (nkept samples) <= length samples)%nat.
Proof.
  split; [apply kidx_sorted|]. split; [|apply kidx_length_le].
  intros i H. apply kidx_In in H. tauto.
Qed.

(* ---------- _moving on a Db with masked / all-undefined samples = _moving on the reduced Db, ranks renamed ---------- *)
Lemma moving_reduce oracle p t samples :
  let K := nkept samples in
  let r := moving oracle p t samples in
  let r' := moving oracle p t (nreduce samples) in
  r_ranks r = map (ren K) (r_ranks r') /\
  r_sorted r = map (stren K) (r_sorted r') /\
  (r_code r = 0%Z <-> r_code r' = 0%Z).
Proof.
  cbn zeta. destruct (nkept_props samples) as [S [HK HLe]].
  unfold moving. rewrite length_nreduce.
  destruct (Z.ltb_spec (Z.of_nat (length samples)) (p_nmini p)) as [L|G].
  - assert (L' : (Z.of_nat (length (nkept samples)) <? p_nmini p)%Z = true) by (apply Z.ltb_lt; lia).
    rewrite L'. repeat split; intro H; exact H.
  - destruct (Z.ltb_spec (Z.of_nat (length (nkept samples))) (p_nmini p)) as [L'|G'].
    + (* the reduced Db is refused on its size; the full one on its number of candidates *)
      rewrite cand_loop_reduce. unfold moving_from. rewrite map_length.
      pose proof (cand_loop_length oracle p t (nreduce samples)) as B. rewrite length_nreduce in B.
      assert (L2 : (Z.of_nat (length (cand_loop oracle p t (enum (nreduce samples)))) <? p_nmini p)%Z = true)
        by (apply Z.ltb_lt; lia).
      rewrite L2. repeat split; cbn [fail r_code]; intro H; discriminate.
    + rewrite cand_loop_reduce.
      pose proof (moving_from_ren (nkept samples) p (length samples) (length (nkept samples))
                    (cand_loop oracle p t (enum (nreduce samples))) S eq_refl HK) as M.
      cbn zeta in M. destruct M as [M1 [M2 M3]].
      * intros c Hc. rewrite <- length_nreduce. apply (cand_loop_idx oracle p t (nreduce samples) c Hc).
      * repeat split; try assumption; rewrite M1; intro H; exact H.
Qed.

(* ---------- samples without coordinates / external drift ---------- *)
Lemma nreduce_embed l : nreduce (map nembed l) = map nembed (filter nusable l).
Proof. unfold nreduce. rewrite filter_map_comm. reflexivity. Qed.
Lemma moving_reduce_undefined oracle p t l :
  let K := nkept (map nembed l) in
  let r := moving oracle p t (map nembed l) in
  let r' := moving oracle p t (map nembed (filter nusable l)) in
  r_ranks r = map (ren K) (r_ranks r') /\ (r_code r = 0%Z <-> r_code r' = 0%Z).
Proof.
  cbn zeta. rewrite <- nreduce_embed. destruct (moving_reduce oracle p t (map nembed l)) as [H1 [_ H3]]. split; assumption.
Qed.
Lemma cand_of_undefined oracle p t i x :
  (forallb odef (n_coords x) && forallb odef (n_fext x) = false) -> cand_of oracle p t (i, nembed x) = None.
Proof.
  intro H. apply cand_of_removed. unfold nkeep. cbn [snd nembed s_active].
  destruct (s_active (n_s x)); cbn [andb]; [|reflexivity].
  destruct (forallb odef (n_coords x)); cbn [andb] in *; [rewrite H|]; reflexivity.
Qed.

(* C05 proofs on the C12 variogram model (Vario::_calculateGeneralSolution1 / 2 + scaling, centring, C(0) patch).
   Depends on the DEFINITIONS of coq/C12/Model.v only; the few facts about its sort are re-proved here. *)
From Coq Require Import List ZArith QArith Qabs Bool Lqa Lia Permutation Sorted.
From Gst Require Import lib.QAux C12.Model C05.Reindex C05.Spec_vario.
Import ListNotations.
Local Open Scope Q_scope.

(* ---------- the selection test of the loops is isActive ---------- *)
Lemma skip_active cf s : skip cf s = negb (is_active cf s).
Proof. unfold skip, is_active. destruct (c_hasSel cf); cbn [negb andb orb]; reflexivity. Qed.

(* ---------- Db::getSortArray: stable insertion sort on the first coordinate ---------- *)
Definition le_x1 (a b : sample) : Prop := x1 a <= x1 b.
Lemma insert_In a l x : In x (insert a l) <-> x = a \/ In x l.
Proof.
  induction l as [|b r IH]; cbn [insert]; [cbn; intuition congruence|].
  destruct (qleb (x1 a) (x1 b)); cbn [In]; [intuition congruence|]. rewrite IH. intuition congruence.
Qed.
Lemma insert_sorted a l : StronglySorted le_x1 l -> StronglySorted le_x1 (insert a l).
Proof.
  induction l as [|b r IH]; intro Hs; cbn [insert].
  - constructor; constructor.
  - inversion Hs as [|? ? Hr Hall]; subst.
    destruct (qleb_spec (x1 a) (x1 b)) as [H|H].
    + constructor; [exact Hs|]. constructor; [exact H|].
      eapply Forall_impl; [|exact Hall]. intros c Hc. unfold le_x1 in *. lra.
    + constructor; [apply IH; exact Hr|].
      apply Forall_forall. intros x Hx. apply insert_In in Hx. destruct Hx as [E|Hx].
      * subst x. unfold le_x1. lra.
      * rewrite Forall_forall in Hall. apply Hall. exact Hx.
Qed.
Lemma sort_sorted l : StronglySorted le_x1 (sort_x1 l).
Proof.
  induction l as [|a r IH]; [constructor|].
  change (sort_x1 (a :: r)) with (insert a (sort_x1 r)). apply insert_sorted. exact IH.
Qed.

Lemma insert_front a l : Forall (le_x1 a) l -> insert a l = a :: l.
Proof.
  intro H. destruct l as [|b r]; [reflexivity|]. cbn [insert].
  inversion H as [|? ? Hb _]; subst. unfold le_x1 in Hb.
  rewrite (proj2 (qleb_true (x1 a) (x1 b)) Hb). reflexivity.
Qed.
Lemma filter_insert (f : sample -> bool) a l :
  StronglySorted le_x1 l -> filter f (insert a l) = if f a then insert a (filter f l) else filter f l.
Proof.
  induction l as [|b r IH]; intro Hs.
  - cbn [insert filter]. destruct (f a); reflexivity.
  - inversion Hs as [|? ? Hr Hall]; subst. cbn [insert].
    destruct (qleb_spec (x1 a) (x1 b)) as [H|H].
    + cbn [filter]. destruct (f a) eqn:Fa; [|reflexivity].
      symmetry. apply insert_front. apply Forall_forall. intros c Hc.
      assert (Hin : In c (b :: r)).
      { destruct (f b); [destruct Hc as [E|Hc]; [left; exact E|right]|right]; apply filter_In in Hc; tauto. }
      destruct Hin as [E|Hin]; [subst c; exact H|].
      rewrite Forall_forall in Hall. specialize (Hall c Hin). unfold le_x1 in *. lra.
    + cbn [filter]. rewrite (IH Hr). destruct (f b) eqn:Fb; destruct (f a) eqn:Fa; try reflexivity.
      cbn [insert]. rewrite (proj2 (qleb_false (x1 a) (x1 b)) (Qnot_le_lt _ _ H)). reflexivity.
Qed.
(* the sort commutes with the physical removal *)
Lemma sort_filter (f : sample -> bool) l : sort_x1 (filter f l) = filter f (sort_x1 l).
Proof.
  induction l as [|a r IH]; [reflexivity|].
  change (sort_x1 (a :: r)) with (insert a (sort_x1 r)).
  rewrite (filter_insert f a (sort_x1 r) (sort_sorted r)). cbn [filter].
  destruct (f a); [|exact IH]. change (sort_x1 (a :: filter f r)) with (insert a (sort_x1 (filter f r))).
  rewrite IH. reflexivity.
Qed.
Lemma filter_idem {A} (f : A -> bool) l : filter f (filter f l) = filter f l.
Proof. rewrite <- filter_and. apply filter_ext. intro x. destruct (f x); reflexivity. Qed.
Lemma filter_sorted (f : sample -> bool) l : StronglySorted le_x1 l -> StronglySorted le_x1 (filter f l).
Proof.
  induction 1 as [|a r Hr IH Hall]; cbn [filter]; [constructor|]. destruct (f a); [|exact IH].
  constructor; [exact IH|]. apply Forall_forall. intros c Hc. apply filter_In in Hc. rewrite Forall_forall in Hall. apply Hall. tauto.
Qed.

(* ---------- the inner loops ---------- *)
Lemma inner_before_reduce cf md a pre :
  inner_before cf md a (filter (is_active cf) pre) = inner_before cf md a pre.
Proof.
  induction pre as [|b r IH]; [reflexivity|]. cbn [filter inner_before]. rewrite skip_active.
  destruct (is_active cf b) eqn:Ab; cbn [negb inner_before].
  - rewrite skip_active, Ab. cbn [negb]. rewrite IH. reflexivity.
  - rewrite IH. destruct (qltb md (x1 a - x1 b)); reflexivity.
Qed.
Lemma inner_after_far cf md a js :
  StronglySorted le_x1 js -> (forall b, In b js -> md < x1 b - x1 a) -> inner_after cf md a js = [].
Proof.
  intros _ H. destruct js as [|b r]; [reflexivity|]. cbn [inner_after].
  rewrite (proj2 (qltb_true md (x1 b - x1 a)) (H b (or_introl eq_refl))). reflexivity.
Qed.
(* the "break" on a masked sample stops the loop; on the reduced Db the next sample, further away, stops it as well *)
Lemma inner_after_reduce cf md a rest :
  StronglySorted le_x1 rest ->
  inner_after cf md a (filter (is_active cf) rest) = inner_after cf md a rest.
Proof.
  induction rest as [|b r IH]; intro Hs; [reflexivity|]. inversion Hs as [|? ? Hr Hall]; subst.
  cbn [filter inner_after]. rewrite skip_active.
  destruct (qltb_spec md (x1 b - x1 a)) as [Far|Near].
  - destruct (is_active cf b) eqn:Ab.
    + cbn [inner_after]. rewrite (proj2 (qltb_true md (x1 b - x1 a)) Far). reflexivity.
    + apply inner_after_far; [apply filter_sorted; exact Hr|].
      intros c Hc. apply filter_In in Hc. destruct Hc as [Hc _].
      rewrite Forall_forall in Hall. specialize (Hall c Hc). unfold le_x1 in Hall. lra.
  - destruct (is_active cf b) eqn:Ab; cbn [negb].
    + cbn [inner_after]. rewrite (proj2 (qltb_false md (x1 b - x1 a)) (Qnot_lt_le _ _ Near)). rewrite skip_active, Ab. cbn [negb].
      rewrite (IH Hr). reflexivity.
    + apply (IH Hr).
Qed.
Lemma partners_reduce cf md pre a rest :
  StronglySorted le_x1 rest ->
  partners cf md (filter (is_active cf) pre) a (filter (is_active cf) rest) = partners cf md pre a rest.
Proof.
  intro Hs. unfold partners. rewrite (inner_after_reduce cf md a rest Hs).
  destruct (c_dateLoop cf); [rewrite inner_before_reduce|]; reflexivity.
Qed.

(* ---------- solution 1: the pairs handed to keepPair ---------- *)
Lemma outer1_reduce cf md pre cur :
  StronglySorted le_x1 cur ->
  outer1 cf md (filter (is_active cf) pre) (filter (is_active cf) cur) = outer1 cf md pre cur.
Proof.
  revert pre. induction cur as [|a rest IH]; intros pre Hs; [reflexivity|].
  inversion Hs as [|? ? Hr Hall]; subst. cbn [filter outer1]. rewrite skip_active.
  destruct (is_active cf a) eqn:Aa; cbn [negb].
  - cbn [outer1]. rewrite skip_active, Aa. cbn [negb]. rewrite (partners_reduce cf md pre a rest Hr).
    f_equal. rewrite <- (IH (pre ++ [a]) Hr). rewrite filter_app. cbn [filter]. rewrite Aa. reflexivity.
  - cbn [app]. rewrite <- (IH (pre ++ [a]) Hr). rewrite filter_app. cbn [filter]. rewrite Aa, app_nil_r. reflexivity.
Qed.
Lemma reached1_reduce cf d l : reached1 cf d (vreduce cf l) = reached1 cf d l.
Proof.
  unfold reached1, vreduce. rewrite sort_filter.
  apply (outer1_reduce cf (maxdist d) [] (sort_x1 l) (sort_sorted l)).
Qed.

(* a pair with a masked end never reaches keepPair *)
Lemma inner_before_active cf md a js p : In p (inner_before cf md a js) -> fst p = a /\ is_active cf (snd p) = true.
Proof.
  induction js as [|b r IH]; cbn [inner_before]; [intros []|].
  destruct (qltb md (x1 a - x1 b)); [exact IH|]. rewrite skip_active.
  destruct (is_active cf b) eqn:Ab; cbn [negb]; [|exact IH].
  intros [H|H]; [subst p; cbn; auto|apply IH; exact H].
Qed.
Lemma inner_after_active cf md a js p : In p (inner_after cf md a js) -> fst p = a /\ is_active cf (snd p) = true.
Proof.
  induction js as [|b r IH]; cbn [inner_after]; [intros []|].
  destruct (qltb md (x1 b - x1 a)); [intros []|]. rewrite skip_active.
  destruct (is_active cf b) eqn:Ab; cbn [negb]; [|exact IH].
  intros [H|H]; [subst p; cbn; auto|apply IH; exact H].
Qed.
Lemma outer1_active cf md pre cur p :
  In p (outer1 cf md pre cur) -> is_active cf (fst p) = true /\ is_active cf (snd p) = true.
Proof.
  revert pre. induction cur as [|a rest IH]; intro pre; cbn [outer1]; [intros []|].
  intro H. apply in_app_or in H. destruct H as [H|H]; [|apply (IH _ H)].
  rewrite skip_active in H. destruct (is_active cf a) eqn:Aa; cbn [negb] in H; [|destruct H].
  unfold partners in H. apply in_app_or in H. destruct H as [H|H].
  - destruct (c_dateLoop cf); [|destruct H]. apply inner_before_active in H. destruct H as [E H]. rewrite E. auto.
  - apply inner_after_active in H. destruct H as [E H]. rewrite E. auto.
Qed.

(* ---------- global statistics ---------- *)
Lemma stat_means_reduce cf l : stat_means cf (vreduce cf l) = stat_means cf l.
Proof. unfold stat_means, stat_mean, vreduce. apply map_ext. intro iv. rewrite filter_idem. reflexivity. Qed.
Lemma gstats_reduce cf l iv jv : gstats cf (vreduce cf l) iv jv = gstats cf l iv jv.
Proof. unfold gstats, vreduce. symmetry. apply fold_left_skip. intros t s H. rewrite H. reflexivity. Qed.
Lemma finish_reduce cf d l arr : finish cf d (vreduce cf l) arr = finish cf d l arr.
Proof. unfold finish. apply map_ext. intros [iv jv]. rewrite gstats_reduce. reflexivity. Qed.

(* ---------- the whole of solution 1 and of solution 2 ---------- *)
Lemma solution1_reduce cf d l : solution1 cf d (vreduce cf l) = solution1 cf d l.
Proof.
  unfold solution1, accumulate1. rewrite reached1_reduce, stat_means_reduce. apply finish_reduce.
Qed.

Lemma outer2_reduce cf d means pre cur sums :
  StronglySorted le_x1 cur ->
  outer2 cf d means (filter (is_active cf) pre) (filter (is_active cf) cur) sums = outer2 cf d means pre cur sums.
Proof.
  revert pre sums. induction cur as [|a rest IH]; intros pre sums Hs; [reflexivity|].
  inversion Hs as [|? ? Hr Hall]; subst. cbn [filter outer2]. rewrite skip_active.
  destruct (is_active cf a) eqn:Aa; cbn [negb].
  - cbn [outer2]. rewrite skip_active, Aa. cbn [negb]. rewrite (partners_reduce cf (maxdist d) pre a rest Hr).
    rewrite <- (IH (pre ++ [a]) _ Hr). rewrite filter_app. cbn [filter]. rewrite Aa. reflexivity.
  - rewrite <- (IH (pre ++ [a]) _ Hr). rewrite filter_app. cbn [filter]. rewrite Aa, app_nil_r. reflexivity.
Qed.
Lemma solution2_reduce cf d l : solution2 cf d (vreduce cf l) = solution2 cf d l.
Proof.
  unfold solution2. rewrite stat_means_reduce. unfold vreduce at 2. rewrite sort_filter.
  pose proof (outer2_reduce cf d (stat_means cf l) [] (sort_x1 l) (zero_arr cf d) (sort_sorted l)) as H.
  change (filter (is_active cf) []) with (@nil sample) in H. rewrite H. apply finish_reduce.
Qed.
Lemma compute_dir_reduce cf fs d l : compute_dir cf fs d (vreduce cf l) = compute_dir cf fs d l.
Proof. unfold compute_dir. rewrite solution1_reduce, solution2_reduce. reflexivity. Qed.

(* ---------- a sample of weight zero adds nothing to the accumulators (variogram, madogram, order-4, covariances) ---------- *)
Definition zero_upd (u : upd) : Prop := u_sw u == 0 /\ u_hlo u == 0 /\ u_hhi u == 0 /\ u_glo u == 0 /\ u_ghi u == 0.
Definition weight_product_calc (c : calc) : bool := match c with Vg | Mado | Order4 | Cov | CovNC => true | _ => false end.

Lemma mk_upd_zero asym npas pc iv jv o ww vlo vhi : ww == 0 -> zero_upd (mk_upd asym npas pc iv jv o ww vlo vhi 0).
Proof. intro H. unfold zero_upd, mk_upd. cbn [u_sw u_hlo u_hhi u_glo u_ghi]. rewrite H. repeat split; ring. Qed.
Lemma half_zero ww : ww == 0 -> ww / 2 == 0.
Proof. intro H. rewrite H. reflexivity. Qed.

Lemma opt_list_zero {A} (o : option A) (f : A -> list upd) u :
  (forall v x, In x (f v) -> zero_upd x) -> In u (match o with Some v => f v | None => [] end) -> zero_upd u.
Proof. intros H Hu. destruct o as [v|]; [apply (H v u Hu)|destruct Hu]. Qed.

Lemma eval_sym_zero npas pc a b ww phi iv u :
  ww == 0 -> In u (eval_sym npas pc a b ww phi (fun _ => 0) iv) -> zero_upd u.
Proof.
  intros H Hu. unfold eval_sym in Hu.
  destruct (zval a iv), (zval b iv); try (cbn in Hu; contradiction).
  apply in_flat_map in Hu. destruct Hu as [jv [_ Hu]].
  destruct (zval a jv), (zval b jv); try (cbn in Hu; contradiction).
  cbn [In] in Hu. destruct Hu as [Hu|Hu]; [|destruct Hu]. subst u. apply mk_upd_zero. exact H.
Qed.
Lemma eval_asym_zero npas pc a b ww iv u :
  ww == 0 -> In u (eval_asym npas pc a b ww iv) -> zero_upd u.
Proof.
  intros H Hu. unfold eval_asym in Hu. apply in_flat_map in Hu. destruct Hu as [jv [_ Hu]]. cbv zeta in Hu.
  pose proof (half_zero ww H) as H2.
  destruct (p_coinc pc); apply in_app_or in Hu; destruct Hu as [Hu|Hu];
    (eapply opt_list_zero; [|exact Hu]); intros v x Hx; cbn [In] in Hx;
    repeat (destruct Hx as [Hx|Hx]; [subst x; apply mk_upd_zero; assumption|]); destruct Hx.
Qed.
Lemma evaluate_zero cf npas means pc a b u :
  weight_product_calc (c_calc cf) = true -> p_w1 pc * p_w2 pc == 0 ->
  In u (evaluate cf npas means pc a b) -> zero_upd u.
Proof.
  intros Hc Hw Hu. unfold evaluate in Hu.
  destruct (c_calc cf); try discriminate Hc; apply in_flat_map in Hu; destruct Hu as [iv [_ Hu]];
    first [apply (eval_sym_zero _ _ _ _ _ _ _ _ Hw Hu) | apply (eval_asym_zero _ _ _ _ _ _ _ Hw Hu)].
Qed.
Lemma pair_updates_zero_weight cf d means a b u :
  weight_product_calc (c_calc cf) = true -> (get_weight cf a == 0 \/ get_weight cf b == 0) ->
  In u (pair_updates cf d means a b) -> zero_upd u.
Proof.
  intros Hc Hw Hu. unfold pair_updates in Hu.
  destruct (isOK d (is_asym (c_calc cf)) (geo_of (d_codir d) (vsub (s_x b) (s_x a)))); [destruct Hu|].
  destruct (c_dateChk cf && negb (date_ok d a b)); [destruct Hu|].
  destruct (lag_rank d (g_d2 (geo_of (d_codir d) (vsub (s_x b) (s_x a))))); [|destruct Hu].
  refine (evaluate_zero cf _ _ _ a b u Hc _ Hu). cbn [p_w1 p_w2].
  destruct Hw as [Hw|Hw]; rewrite Hw; ring.
Qed.

(* ---------- samples without coordinates ---------- *)
Lemma vreduce_embed cf l : vreduce (vcfg cf) (map (vembed cf) l) = map (vembed cf) (filter (vusable cf) l).
Proof. unfold vreduce. rewrite filter_map_comm. reflexivity. Qed.
Lemma compute_dir_coords cf fs d l :
  compute_dir (vcfg cf) fs d (map (vembed cf) (filter (vusable cf) l)) = compute_dir (vcfg cf) fs d (map (vembed cf) l).
Proof. rewrite <- vreduce_embed. apply compute_dir_reduce. Qed.
Lemma reached1_coords cf d l p :
  In p (reached1 (vcfg cf) d (map (vembed cf) l)) -> s_sel (fst p) = true /\ s_sel (snd p) = true.
Proof. intro H. apply (outer1_active (vcfg cf) _ _ _ p H). Qed.
